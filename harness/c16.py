"""C16 — a template that names an unknown variable is an error, never silently blank.

(a) correspondence: mini-Jinja model (extracted OCaml, policy = the regenerated constants
    env_undefined_policy / native_undefined_policy) <-> the real CellParser.parse_as_string /
    parse on generated (cell AST, context) pairs; the cell TEXT handed to the implementation is
    the model's own show_cell output, so both sides see the same cell;
    row loop model <-> FlowParser (event log: rows read templated/untemplated, cells handed
    to Jinja, messages produced) and end-to-end through rpft.converters.create_flows.
(b) the property's own oracle on the implementation, model-free:
    * SPY oracle: the name under test is first bound to an object that records every
      operation performed on it; if the template touches it, the same template without the
      binding must fail (anything else = the reference was replaced by nothing);
    * planted-name families with the answer known by construction (evaluated position ->
      error; un-taken branch / zero-iteration body / short-circuited operand -> no error);
    * defined_exact: text + {{ name }} renders to exactly text + str(value);
    * native templates are judged after RowParser conversion (str/bool/list/List[str] fields);
    * skipped rows: no cell of a row under a false include_if reaches Environment.from_string.
(c) behavioural probe of the undefined policy, compared with the translator's constants.
"""
import csv
import io
import os
import shutil
import tempfile

from common import enc_str, parse_sexp, dec_str, run_cli_mode

LEVEL = "proof"

# ------------------------------------------------------------------ abstract syntax (Python side)
# values: None, bool, int, str, list, dict(str->value), ("range", n), ("tuple", [..]), UNDEF
UNDEF = ("undef",)


def enc_z(z):
    return f"{1 if z < 0 else 0} {abs(z)}"


def enc_value(v):
    if v is None:
        return "(0)"
    if v is True or v is False:
        return f"(1 {1 if v else 0})"
    if isinstance(v, int):
        return f"(2 {enc_z(v)})"
    if isinstance(v, str):
        return f"(3 {enc_str(v)})"
    if isinstance(v, list):
        return "(4 (" + " ".join(enc_value(x) for x in v) + "))"
    if isinstance(v, dict):
        return "(5 " + enc_ctx(v) + ")"
    if isinstance(v, tuple) and v[0] == "range":
        return f"(6 {enc_z(v[1])})"
    if v == UNDEF:
        return "(7)"
    if isinstance(v, tuple) and v[0] == "tuple":
        return "(8 (" + " ".join(enc_value(x) for x in v[1]) + "))"
    raise ValueError(v)


def enc_ctx(d):
    return "(" + " ".join(f"({enc_str(k)} {enc_value(x)})" for k, x in d.items()) + ")"


def dec_value(x):
    t = x[0]
    if t == 0:
        return None
    if t == 1:
        return bool(x[1])
    if t == 2:
        return -x[2] if x[1] == 1 else x[2]
    if t == 3:
        return dec_str(x[1])
    if t == 4:
        return [dec_value(y) for y in x[1]]
    if t == 5:
        return {dec_str(k): dec_value(y) for k, y in x[1]}
    if t == 6:
        return ("range", -x[2] if x[1] == 1 else x[2])
    if t == 7:
        return UNDEF
    if t == 8:
        return ("tuple", [dec_value(y) for y in x[1]])
    raise ValueError(x)


def dec_nv(x):
    if x[0] == 0:
        return dec_str(x[1])
    return [dec_nv(y) for y in x[1]]


# expr: ("var",x) ("attr",e,f) ("idx",e,i) ("str",s) ("int",z) ("bool",b) ("none",)
#       ("eq",a,b) ("ne",a,b) ("not",a) ("and",a,b) ("or",a,b) ("range",a) ("list",[..])
#       ("tuple",[..]) ("dict",[(key,e)..])
ETAG = {"var": 0, "attr": 1, "idx": 2, "str": 3, "int": 4, "bool": 5, "none": 6, "eq": 7, "ne": 8, "not": 9,
        "and": 10, "or": 11, "range": 12, "list": 13, "tuple": 14, "dict": 15}


def enc_expr(e):
    k = e[0]
    if k == "var":
        return f"(0 {enc_str(e[1])})"
    if k == "attr":
        return f"(1 {enc_expr(e[1])} {enc_str(e[2])})"
    if k == "str":
        return f"(3 {enc_str(e[1])})"
    if k == "int":
        return f"(4 {enc_z(e[1])})"
    if k == "bool":
        return f"(5 {1 if e[1] else 0})"
    if k == "none":
        return "(6)"
    if k in ("list", "tuple"):
        return f"({ETAG[k]} (" + " ".join(enc_expr(x) for x in e[1]) + "))"
    if k == "dict":
        return "(15 (" + " ".join(f"({enc_str(kk)} {enc_expr(x)})" for kk, x in e[1]) + "))"
    return f"({ETAG[k]} " + " ".join(enc_expr(x) for x in e[1:]) + ")"


# node: ("text",s) ("out",e) ("esc",e) ("if",c,[a],[b]) ("for",x,e,[body])
def enc_node(n):
    k = n[0]
    if k == "text":
        return f"(0 {enc_str(n[1])})"
    if k == "out":
        return f"(1 {enc_expr(n[1])})"
    if k == "esc":
        return f"(2 {enc_expr(n[1])})"
    if k == "if":
        return f"(3 {enc_expr(n[1])} ({' '.join(enc_node(m) for m in n[2])}) ({' '.join(enc_node(m) for m in n[3])}))"
    if k == "for":
        return f"(4 {enc_str(n[1])} {enc_expr(n[2])} ({' '.join(enc_node(m) for m in n[3])}))"
    raise ValueError(n)


# cell: ("tmpl",[nodes]) | ("native", e)
def enc_cell(c):
    if c[0] == "tmpl":
        return "(0 (" + " ".join(enc_node(n) for n in c[1]) + "))"
    return f"(1 {enc_expr(c[1])})"


def names_in_expr(e, acc):
    if e[0] == "var":
        acc.add(e[1])
    elif e[0] in ("list", "tuple"):
        for x in e[1]:
            names_in_expr(x, acc)
    elif e[0] == "dict":
        for _, x in e[1]:
            names_in_expr(x, acc)
    elif e[0] == "attr":
        names_in_expr(e[1], acc)
    elif e[0] in ("str", "int", "bool", "none"):
        pass
    else:
        for x in e[1:]:
            names_in_expr(x, acc)


def names_in_nodes(ns, acc, bound=()):
    for n in ns:
        if n[0] in ("out", "esc"):
            t = set()
            names_in_expr(n[1], t)
            acc |= (t - set(bound))
        elif n[0] == "if":
            t = set()
            names_in_expr(n[1], t)
            acc |= (t - set(bound))
            names_in_nodes(n[2], acc, bound)
            names_in_nodes(n[3], acc, bound)
        elif n[0] == "for":
            t = set()
            names_in_expr(n[2], t)
            acc |= (t - set(bound))
            names_in_nodes(n[3], acc, tuple(bound) + (n[1],))


def names_in_cell(c):
    acc = set()
    if c[0] == "tmpl":
        names_in_nodes(c[1], acc)
    else:
        names_in_expr(c[1], acc)
    return acc


# ------------------------------------------------------------------ model access
ERRNAMES = {1: "Undefined", 2: "TypeError", 3: "Nested", 4: "KeyError", 5: "Block", 6: "EmptyText",
            90: "UNSUPPORTED", 91: "FUEL"}


def dec_pres(x):
    """-> ('str', s) | ('obj', v) | ('nv', nested) | ('err', name)"""
    if x and x[0] == 999999:
        return ("err", ERRNAMES.get(x[1], str(x[1])))
    if x[0] == 0:
        return ("str", dec_str(x[1]))
    if x[0] == 1:
        return ("obj", dec_value(x[1]))
    return ("nv", dec_nv(x[1]))


def model_cells(m, cases, sel=0, chunk=40):
    """cases: list of (octx or None, cell, mode) -> list of (text, result).  The cases run through the model as HISTORIES on
    one CellParser state (CellHistory.cp_run, `chunk` calls each), as they run through one real CellParser."""
    reqs = []
    for k in range(0, len(cases), chunk):
        calls = []
        for octx, cell, mode in cases[k:k + chunk]:
            oc = "()" if octx is None else "(" + enc_ctx(octx) + ")"
            calls.append(f"({oc} {enc_cell(cell)} {mode})")
        reqs.append(f"(116 5 {sel} ({' '.join(calls)}))")
    outs = m.ask_many(reqs)
    res = []
    for k, o in zip(range(0, len(cases), chunk), outs):
        x = parse_sexp(o)
        n = len(cases[k:k + chunk])
        if x == [999998] or x == [999997] or len(x) != n:
            # a call of the history cannot be decoded: ask one by one so that the others are still compared
            for octx, cell, mode in cases[k:k + chunk]:
                oc = "()" if octx is None else "(" + enc_ctx(octx) + ")"
                y = parse_sexp(m.ask(f"(116 1 {sel} {oc} {enc_cell(cell)} {mode})"))
                res.append((None, ("err", "BADINPUT")) if y in ([999998], [999997]) else (dec_str(y[0]), dec_pres(y[1])))
            continue
        for y in x:
            res.append((dec_str(y[0]), dec_pres(y[1])))
    return res


# ------------------------------------------------------------------ implementation access
def py_ctx(d):
    """model context -> the Python context handed to the implementation"""
    def conv(v):
        if isinstance(v, tuple) and v[0] == "range":
            return range(v[1])
        if isinstance(v, tuple) and v[0] == "tuple":
            return tuple(conv(x) for x in v[1])
        if isinstance(v, list):
            return [conv(x) for x in v]
        if isinstance(v, dict):
            return {k: conv(x) for k, x in v.items()}
        return v
    return {k: conv(v) for k, v in d.items()}


def canon(r):
    """implementation result -> comparable value of the model's universe (or ('other', repr))"""
    import jinja2

    if isinstance(r, jinja2.Undefined):
        return UNDEF
    if r is None or isinstance(r, (bool, int, str)):
        return r
    if isinstance(r, range):
        if r.start == 0 and r.step == 1:
            return ("range", r.stop)
        return ("other", safe_repr(r))
    if isinstance(r, list):
        return [canon(x) for x in r]
    if isinstance(r, tuple):
        return ("tuple", [canon(x) for x in r])
    if isinstance(r, dict):
        if not all(isinstance(k, str) for k in r):
            return ("other", safe_repr(r))
        return {k: canon(v) for k, v in r.items()}
    return ("other", safe_repr(r))


def safe_repr(r):
    """repr() may itself fail when the object holds an undefined whose repr raises"""
    try:
        return repr(r)
    except Exception as e:
        return f"<repr fails: {type(e).__name__}>"


def has_nested_undef(v):
    if isinstance(v, list):
        return any(x == UNDEF or has_nested_undef(x) for x in v)
    if isinstance(v, tuple) and v and v[0] == "tuple":
        return any(x == UNDEF or has_nested_undef(x) for x in v[1])
    if isinstance(v, dict):
        return any(x == UNDEF or has_nested_undef(x) for x in v.values())
    return False


def impl_cell(cp, text, octx, mode):
    """-> ('ok', canon value) | ('err', kind)"""
    ctx = None if octx is None else py_ctx(octx)
    fn = cp.parse_as_string if mode == 0 else cp.parse
    r = run_cli_mode(fn, text, ctx)
    if r[0] == "ok":
        return ("ok", canon(r[1]))
    return ("err", r[1])


def same(model_res, impl_res):
    if model_res[0] == "err":
        return impl_res[0] == "err"
    if impl_res[0] != "ok":
        return False
    return model_res[1] == impl_res[1]


# ------------------------------------------------------------------ generators
NAMES = ["name", "age", "row", "items", "flag", "title", "n", "d", "lst", "s", "e", "x", "y", "arg1", "count"]
FIELDS = ["k", "happy", "sad", "fieldA", "fld", "z"]
MISSING = ["nmae", "titel", "arg2", "missing_col", "undeclared", "xx", "loopvar", "Name", "itemz"]
TEXTS = ["", " ", "Hello ", "a|b", ";", "x;y", "!", " and ", "\n", "é", "\\", "}", "%}", "#", "'", "\"", "0", "  pad  "]
STRS = ["", "v", "Value1", "a|b", "x;y", "3", "True", " sp ", "q'r", "é", "false", "None", "[1]", "ab c", "\\", "{"]


def gen_value(rng, depth=2):
    r = rng.random()
    if depth == 0 or r < 0.55:
        k = rng.random()
        if k < 0.55:
            return rng.choice(STRS)
        if k < 0.75:
            return rng.choice([0, 1, 2, 3, -1, 7, 10, 41])
        if k < 0.9:
            return rng.choice([True, False])
        return None
    if r < 0.76:
        return [gen_value(rng, depth - 1) for _ in range(rng.choice([0, 1, 2, 3]))]
    if r < 0.8:
        return ("tuple", [gen_value(rng, depth - 1) for _ in range(rng.choice([0, 1, 2, 3]))])
    if r < 0.95:
        return {f: gen_value(rng, depth - 1) for f in rng.sample(FIELDS, rng.choice([0, 1, 2, 3]))}
    return ("range", rng.choice([0, 1, 2, 3, -1]))


def gen_ctx(rng, tame=False):
    k = rng.choice([0, 1, 2, 3, 4, 5, 6])
    if tame:
        return {n: gen_tame_value(rng) for n in rng.sample(NAMES, max(k, 2))}
    return {n: gen_value(rng) for n in rng.sample(NAMES, k)}


TAME = ["v", "Value1", "ab c", "Ann", "w", "", "false"]


def gen_tame_value(rng):
    """values whose str()/native forms stay inside the sub-language (sheet-level cases)"""
    r = rng.random()
    if r < 0.45:
        return rng.choice(TAME)
    if r < 0.6:
        return rng.choice([0, 1, 2, 3])
    if r < 0.72:
        return rng.choice([True, False])
    if r < 0.85:
        return [rng.choice(TAME[:5]) for _ in range(rng.choice([0, 1, 2, 3]))]
    if r < 0.95:
        return {f: rng.choice(TAME[:5]) for f in rng.sample(FIELDS, rng.choice([1, 2]))}
    return None


def gen_expr(rng, ctx, depth, p_missing):
    """p_missing: probability that a leaf names something the context does not define"""
    r = rng.random()
    defined = list(ctx)
    if depth == 0 or r < 0.42:
        k = rng.random()
        if k < 0.62:
            if defined and rng.random() >= p_missing:
                return ("var", rng.choice(defined))
            return ("var", rng.choice(MISSING + [n for n in NAMES if n not in ctx][:3]))
        if k < 0.75:
            return ("str", rng.choice([s for s in STRS if "'" not in s and "\\" not in s]))
        if k < 0.87:
            return ("int", rng.choice([0, 1, 2, 3, -1, 5]))
        if k < 0.95:
            return ("bool", rng.random() < 0.5)
        return ("none",)
    if r < 0.55:
        base = gen_nonconst(rng, ctx, depth - 1, p_missing)
        f = rng.choice(FIELDS)
        if base[0] == "var" and isinstance(ctx.get(base[1]), dict) and ctx[base[1]] and rng.random() >= p_missing:
            f = rng.choice(list(ctx[base[1]]))
        return ("attr", base, f)
    if r < 0.66:
        base = gen_nonconst(rng, ctx, depth - 1, p_missing)
        if rng.random() < 0.7:
            i = ("int", rng.choice([0, 1, 2, -1, 5]))
        elif rng.random() < 0.5:
            i = ("str", rng.choice(FIELDS))
        else:
            i = gen_expr(rng, ctx, depth - 1, p_missing)
        return ("idx", base, i)
    if r < 0.74:
        return (rng.choice(["eq", "ne"]), gen_expr(rng, ctx, depth - 1, p_missing), gen_expr(rng, ctx, depth - 1, p_missing))
    if r < 0.80:
        return ("not", gen_expr(rng, ctx, depth - 1, p_missing))
    if r < 0.90:
        return (rng.choice(["and", "or"]), gen_expr(rng, ctx, depth - 1, p_missing), gen_expr(rng, ctx, depth - 1, p_missing))
    if r < 0.92:
        return ("range", gen_expr(rng, ctx, depth - 1, p_missing) if rng.random() < 0.5 else ("int", rng.choice([0, 1, 2, 3])))
    # container literals: list / tuple / dict (distinct string keys), nested through the recursion
    k = rng.random()
    if k < 0.5:
        return ("list", [gen_expr(rng, ctx, depth - 1, p_missing) for _ in range(rng.choice([0, 1, 2, 3]))])
    if k < 0.75:
        return ("tuple", [gen_expr(rng, ctx, depth - 1, p_missing) for _ in range(rng.choice([0, 1, 1, 2, 3]))])
    keys = rng.sample(FIELDS + ["a b", "K"], rng.choice([0, 1, 2, 3]))
    return ("dict", [(kk, gen_expr(rng, ctx, depth - 1, p_missing)) for kk in keys])


def is_const(e):
    k = e[0]
    if k in ("var", "range"):
        return False
    if k in ("str", "int", "bool", "none"):
        return True
    if k in ("list", "tuple"):
        return all(is_const(x) for x in e[1])
    if k == "dict":
        return all(is_const(x) for _, x in e[1])
    if k == "attr":
        return is_const(e[1])
    return all(is_const(x) for x in e[1:])


def gen_nonconst(rng, ctx, depth, p_missing):
    """base of an attribute/item access: Jinja folds variable-free expressions at compile time
    (outside the sub-language), so 9 times out of 10 the base mentions a variable"""
    for _ in range(4):
        e = gen_expr(rng, ctx, depth, p_missing)
        if not is_const(e) or rng.random() < 0.1:
            return e
    defined = list(ctx)
    return ("var", rng.choice(defined) if defined and rng.random() >= p_missing else rng.choice(MISSING))


def merge_texts(nodes):
    res = []
    for nd in nodes:
        if res and res[-1][0] == "text" and nd[0] == "text":
            res[-1] = ("text", res[-1][1] + nd[1])
        else:
            res.append(nd)
    return res


def gen_text(rng):
    return "".join(rng.choice(TEXTS) for _ in range(rng.choice([1, 1, 2, 3])))


def gen_nodes(rng, ctx, depth, p_missing, n=None):
    out = []
    n = rng.choice([1, 1, 2, 3, 4]) if n is None else n
    for _ in range(n):
        r = rng.random()
        if r < 0.3:
            if out and out[-1][0] == "text":
                continue
            out.append(("text", gen_text(rng)))
        elif r < 0.65 or depth == 0:
            out.append(("out", gen_expr(rng, ctx, 2, p_missing)))
        elif r < 0.72:
            out.append(("esc", gen_expr(rng, ctx, 1, p_missing)))
        elif r < 0.87:
            out.append(("if", gen_expr(rng, ctx, 2, p_missing), gen_nodes(rng, ctx, depth - 1, p_missing),
                        gen_nodes(rng, ctx, depth - 1, p_missing) if rng.random() < 0.6 else []))
        else:
            lv = rng.choice(["x", "y", "it", "e"])
            it = gen_expr(rng, ctx, 1, p_missing)
            sub = dict(ctx)
            sub[lv] = "v"
            out.append(("for", lv, it, gen_nodes(rng, sub, depth - 1, p_missing)))
    # no adjacent texts at any level (keeps the printer/parser correspondence simple)
    res = []
    for nd in out:
        if res and res[-1][0] == "text" and nd[0] == "text":
            continue
        res.append(nd)
    return res


def gen_holder(rng, ctx, depth, p_missing):
    """a list / tuple / dict literal nested up to `depth`, leaves = small expressions"""
    def leaf():
        return gen_expr(rng, ctx, rng.choice([0, 0, 1]), p_missing)

    def sub(d):
        return gen_holder(rng, ctx, d - 1, p_missing) if d > 1 and rng.random() < 0.45 else leaf()

    n = rng.choice([1, 1, 2, 3])
    k = rng.random()
    if k < 0.45:
        return ("list", [sub(depth) for _ in range(n)])
    if k < 0.7:
        return ("tuple", [sub(depth) for _ in range(n)])
    return ("dict", [(kk, sub(depth)) for kk in rng.sample(FIELDS + ["a b", "K"], n)])


def gen_cell(rng, ctx, p_missing):
    r = rng.random()
    if r < 0.07:
        return ("native", gen_holder(rng, ctx, 4, p_missing))
    if r < 0.16:
        pre = [("text", gen_text(rng))] if rng.random() < 0.5 else []
        return ("tmpl", pre + [("out", gen_holder(rng, ctx, 4, p_missing))])
    if r < 0.35:
        return ("native", gen_expr(rng, ctx, 2, p_missing))
    return ("tmpl", gen_nodes(rng, ctx, 2, p_missing))


# malformed / out-of-language stream: raw cell texts
RAW = ["{", "{{", "{{ a", "{% if %}", "{# c #}", "{{ a | upper }}", "{{ loop }}", "{@ a @} {@ b @}", "x {@ a @}", "{@ a", "a @}",
       "{{ a.items }}", "{{ a + 1 }}", "{{ 'x' ~ a }}", "{{ a is defined }}", "{{ a | default('') }}", "{{ missing | default('d') }}",
       "{{ dict }}", "{{ range }}", "{% set q = 1 %}{{ q }}", "{{ a if b }}", "{{ a if missing else 'e' }}", "{{}}", "{@@}", "{@ @}", "{{ a[ }}",
       # outside the mini-language: other roads on which repr() of the value is taken
       "{{ [a] | string }}", "{@ [a] | string @}", "{{ '%r' | format(a) }}", "{{ [a] | pprint }}", "{{ dict(k=a) }}", "{{ (b, a) | list }}",
       "{{ {'k': [a]} | string }}", "{% set q = [a] %}{{ q }}", "{{ [a] | join(',') }}", "{{ '%s' | format(a) }}", "{{ [a] | tojson }}"]


# ------------------------------------------------------------------ spy (model-free oracle)
class Spy:
    """An object that records every operation performed on it.  Bound to the name under test:
    if a render touches it, the same render without the binding must fail."""

    def __init__(self):
        object.__setattr__(self, "_touched", [])

    def _t(self, what):
        object.__getattribute__(self, "_touched").append(what)

    def __str__(self):
        self._t("str")
        return "SPY"

    def __repr__(self):
        self._t("repr")
        return "SPY"

    def __bool__(self):
        self._t("bool")
        return True

    def __eq__(self, o):
        self._t("eq")
        return False

    def __ne__(self, o):
        self._t("ne")
        return True

    def __hash__(self):
        self._t("hash")
        return 7

    def __iter__(self):
        self._t("iter")
        return iter(["S"])

    def __len__(self):
        self._t("len")
        return 1

    def __index__(self):
        self._t("index")
        return 0

    def __getitem__(self, k):
        self._t("getitem")
        raise KeyError(k)

    def __getattr__(self, k):
        if k.startswith("__"):
            raise AttributeError(k)
        self._t("getattr")
        raise AttributeError(k)

    def __html__(self):
        self._t("html")
        return "SPY"


def touched(spy):
    return list(object.__getattribute__(spy, "_touched"))


# ------------------------------------------------------------------ behavioural probe of the policy
def behavioural_policy(cp_factory):
    """Classify each environment by what a fresh CellParser DOES with a missing name.
    -> dict(env=..., native=...) with values 'Strict' | 'Lenient' | 'Mixed:<detail>'"""
    ctx = {"zq_obj": {"k": "v"}, "zq_list": ["e"], "zq_s": "v"}
    text_probes = [
        ("{{ zq_missing }}", ""), ("a{{ zq_missing }}b", "ab"), ("{% if zq_missing %}T{% else %}F{% endif %}", "F"),
        ("[{% for q in zq_missing %}q{% endfor %}]", "[]"), ("{{ zq_missing == 'v' }}", "False"),
        ("{{ not zq_missing }}", "True"), ("a{{ zq_obj.zq_missing }}b", "ab"), ("a{{ zq_list[9] }}b", "ab"),
        ("{{ zq_s and zq_missing }}", ""), ("{{ zq_missing or '' }}", ""),
    ]
    out = {}
    res = []
    for t, blank in text_probes:
        r = run_cli_mode(cp_factory().parse_as_string, t, dict(ctx))
        res.append("E" if r[0] == "err" else ("B" if r[1] == blank else "O"))
    out["env"] = "Strict" if set(res) == {"E"} else "Lenient" if set(res) == {"B"} else "Mixed:" + "".join(res)
    res = []
    for t in ["{@ zq_missing @}", "{@ zq_obj.zq_missing @}", "{@ zq_list[9] @}"]:
        r = run_cli_mode(cp_factory().parse_as_string, t, dict(ctx))
        if r[0] == "err":
            res.append("E")
            continue
        forced = [run_cli_mode(str, r[1]), run_cli_mode(bool, r[1]), run_cli_mode(list, r[1])]
        if all(f[0] == "err" for f in forced):
            res.append("E")
        elif [f[0] for f in forced] == ["ok"] * 3 and forced[0][1] == "" and forced[1][1] is False and forced[2][1] == []:
            res.append("B")
        else:
            res.append("O")
    for t, blank in [("{@ not zq_missing @}", True), ("{@ zq_missing == 1 @}", False)]:
        r = run_cli_mode(cp_factory().parse_as_string, t, dict(ctx))
        res.append("E" if r[0] == "err" else ("B" if r[1] is blank else "O"))
    out["native"] = "Strict" if set(res) == {"E"} else "Lenient" if set(res) == {"B"} else "Mixed:" + "".join(res)
    # an Undefined object that nothing forces because it sits inside a container
    def shapes(templates, leaked):
        res = []
        for t in templates:
            r = run_cli_mode(cp_factory().parse_as_string, t, dict(ctx))
            res.append("E" if r[0] == "err" else ("L" if leaked(r[1]) else "O"))
        return True if set(res) == {"E"} else False if set(res) == {"L"} else "Mixed:" + "".join(res)

    out["env_repr_fails"] = shapes(
        ["{{ [zq_missing] }}", "{{ (zq_missing, 1) }}", "{{ {'a': zq_missing} }}", "x{{ [1, [(zq_missing,)]] }}"],
        lambda r: isinstance(r, str) and "Undefined" in r)
    out["native_result_checked"] = shapes(
        ["{@ zq_missing @}", "{@ [zq_missing] @}", "{@ (zq_missing, 1) @}", "{@ {'a': zq_missing} @}",
         "{@ [1, [(zq_missing,)]] @}", "{@ ['b', zq_obj.zq_missing] @}"],
        lambda r: canon(r) == UNDEF or has_nested_undef(canon(r)))
    return out


# ------------------------------------------------------------------ row level helpers
HEADER = ["row_id", "type", "from", "include_if", "loop_variable", "message_text"]
KINDS = {"plain": (0, "send_message"), "for": (1, "begin_for"), "endfor": (2, "end_for"),
         "block": (3, "begin_block"), "endblock": (4, "end_block")}


def enc_srow(r):
    """r = dict(kind, var, inc(cell), main(cell))"""
    return f"({KINDS[r['kind']][0]} {enc_str(r.get('var', ''))} {enc_cell(r['inc'])} {enc_cell(r['main'])})"


def model_sheet(m, rows, ctx, sel=0):
    o = m.ask(f"(116 2 {sel} {enc_ctx(ctx)} ({' '.join(enc_srow(r) for r in rows)}))")
    x = parse_sexp(o)
    if x in ([999998], [999997]):
        return None
    events = []
    for e in x[0]:
        if e[0] == 0:
            events.append(("row", e[1], bool(e[2])))
        elif e[0] == 1:
            events.append(("render", dec_str(e[1])))
        else:
            events.append(("emit", dec_str(e[1])))
    res = ("ok",) if x[1] == [0] else ("err", ERRNAMES.get(x[1][1], str(x[1][1])))
    texts = [(dec_str(a), dec_str(b)) for a, b in x[2]]
    return events, res, texts


def sheet_csv(rows, texts):
    buf = io.StringIO()
    w = csv.writer(buf, lineterminator="\n")
    w.writerow(HEADER)
    for i, (r, (inc, main)) in enumerate(zip(rows, texts)):
        w.writerow(["", KINDS[r["kind"]][1], "start" if i == 0 else "", inc, r.get("var", ""), main])
    return buf.getvalue()


class Recorder:
    """Wraps (for the duration of a `with`) SheetParser.parse_next_row and
    jinja2.Environment.from_string to observe the instantiate-call log of the implementation."""

    def __enter__(self):
        import jinja2
        from rpft.parsers.common.sheetparser import SheetParser

        self.events = []
        self._fs = jinja2.Environment.from_string
        self._pn = SheetParser.parse_next_row
        rec = self

        def from_string(env, source, *a, **k):
            if isinstance(source, str) and "{" in source:
                rec.events.append(("render", source))
            return rec._fs(env, source, *a, **k)

        def parse_next_row(sp, omit_templating=False, return_index=False):
            # peek the index of the row about to be read without consuming the iterator
            import copy as _c
            it = _c.copy(sp.iterator)
            try:
                _, idx = next(it)
                rec.events.append(("row", idx - 2, not omit_templating))
            except StopIteration:
                pass
            return rec._pn(sp, omit_templating=omit_templating, return_index=return_index)

        jinja2.Environment.from_string = from_string
        SheetParser.parse_next_row = parse_next_row
        return self

    def __exit__(self, *a):
        import jinja2
        from rpft.parsers.common.sheetparser import SheetParser

        jinja2.Environment.from_string = self._fs
        SheetParser.parse_next_row = self._pn
        return False


def impl_sheet(csvtext, ctx):
    """FlowParser on one sheet with a given context -> (events, ('ok', msgs) | ('err', kind))"""
    import tablib
    from rpft.parsers.creation.flowparser import FlowParser
    from rpft.rapidpro.models.containers import RapidProContainer

    def go():
        t = tablib.import_set(csvtext, format="csv")
        fp = FlowParser(RapidProContainer(), "f", t, context=py_ctx(ctx))
        return fp.parse().render()

    with Recorder() as rec:
        r = run_cli_mode(go)
    if r[0] == "ok":
        return rec.events, ("ok", flow_messages(r[1]))
    return rec.events, ("err", r[1], r[2])


# criticals of the flow-graph layer (edges, exits): outside the templating model (C01-C03)
GRAPH_ERRORS = ["Block has no loose exit", "no loose exit", "Cannot connect", "Edge from"]


def flow_messages(flow):
    return [a.get("text") for n in flow["nodes"] for a in n["actions"] if a["type"] == "send_msg"]


T = lambda s: ("tmpl", [("text", s)] if s != "" else [])  # noqa: E731


def gen_sheet(rng, ctx, p_missing):
    """A small sheet: plain rows, loops, blocks, include_if on rows and heads; the cells are
    generated ASTs.  Returns the list of row dicts."""
    rows = []

    def inc_cell():
        r = rng.random()
        if r < 0.55:
            return T("")
        if r < 0.7:
            return T(rng.choice(["TRUE", "FALSE", "false", "True", " false ", "no", "0"]))
        if r < 0.85:
            return ("tmpl", [("out", gen_expr(rng, ctx, 1, p_missing))])
        return ("native", gen_expr(rng, ctx, 1, p_missing))

    def main_cell(bound):
        sub = dict(ctx)
        for b in bound:
            sub[b] = "v"
        r = rng.random()
        if r < 0.1:
            return T(rng.choice(["hello", "a|b", "plain text"]))
        if r < 0.9:
            return ("tmpl", merge_texts([("text", rng.choice(["m:", "Hi ", "t="]))] + gen_nodes(rng, sub, 1, p_missing, n=rng.choice([1, 2]))))
        return ("native", gen_expr(rng, sub, 1, p_missing))

    def block(depth, bound):
        for _ in range(rng.choice([1, 1, 2, 3])):
            r = rng.random()
            if depth > 0 and r < 0.22:
                lv = rng.choice(["x", "y", "it"])
                k = rng.random()
                if k < 0.4:
                    it = T(rng.choice(["a;b", "a", "p;q;r", "", "a|b"]))
                elif k < 0.8:
                    it = ("native", rng.choice([("list", [("int", 1), ("str", "b")]), ("range", ("int", rng.choice([0, 1, 2, 3]))),
                                                 ("list", []), gen_expr(rng, ctx, 1, p_missing)]))
                else:
                    it = ("tmpl", [("out", gen_expr(rng, ctx, 1, p_missing))])
                rows.append(dict(kind="for", var=lv, inc=inc_cell(), main=it))
                block(depth - 1, bound + [lv])
                rows.append(dict(kind="endfor", inc=T(""), main=T("")))
            elif depth > 0 and r < 0.4:
                rows.append(dict(kind="block", inc=inc_cell(), main=T("")))
                rows.append(dict(kind="plain", inc=T(""), main=T("in block")))
                block(depth - 1, bound)
                rows.append(dict(kind="endblock", inc=T(""), main=T("")))
            else:
                rows.append(dict(kind="plain", inc=inc_cell(), main=main_cell(bound)))

    block(2, [])
    if rng.random() < 0.5:
        # use of a loop variable after its end_for (undefined again), or a plain tail row
        lvs = [r["var"] for r in rows if r["kind"] == "for"]
        if lvs and rng.random() < 0.7:
            rows.append(dict(kind="plain", inc=T(""), main=("tmpl", [("text", "after "), ("out", ("var", rng.choice(lvs)))])))
        else:
            rows.append(dict(kind="plain", inc=T(""), main=T("tail")))
    return rows


# ------------------------------------------------------------------ sheets inserted into sheets (Insert.v)
BOOK_HEADER = HEADER + ["template_arguments"]


def enc_seg(sg):
    if sg[0] == "rows":
        return "(0 (" + " ".join(enc_srow(r) for r in sg[1]) + "))"
    return f"(1 {enc_cell(sg[1])} {enc_str(sg[2])} {enc_cell(sg[3])})"


def gen_insert_book(rng, p_missing):
    """main inserts A (and maybe B), A may insert B; every sheet starts with an unconditional literal message.
    -> (templates: list of (name, argname or None, segs), main segs, main ctx)"""
    cx = gen_ctx(rng, tame=True)
    cx.setdefault("name", "Ann")

    def arg_cell(c):
        r = rng.random()
        if r < 0.25:
            return T(rng.choice(["LIT", "w", "Ann"]))
        if r < 0.7 and c:
            x = rng.choice(list(c)) if rng.random() >= p_missing else rng.choice(MISSING + ["b1", "c1"])
            return ("tmpl", ([("text", "a")] if rng.random() < 0.3 else []) + [("out", ("var", x))])
        if r < 0.9:
            return ("tmpl", [("out", gen_expr(rng, c, 1, p_missing))])
        return ("tmpl", [("text", "a"), ("out", gen_expr(rng, c, 0, p_missing))])

    def inc_cell(c):
        r = rng.random()
        if r < 0.7:
            return T("")
        if r < 0.85:
            return T(rng.choice(["TRUE", "FALSE", "false", " false "]))
        if r < 0.93:
            return ("tmpl", [("out", gen_expr(rng, c, 1, p_missing))])
        return ("native", gen_expr(rng, c, 1, p_missing))

    def simple_rows(c):
        """rows that usually compile: literal text, a reference (defined unless p_missing says otherwise), a loop over a literal list"""
        def ref():
            names = list(c)
            if names and rng.random() >= p_missing:
                return ("var", rng.choice(names))
            return ("var", rng.choice(MISSING + ["name", "b1", "c1", "x"]))
        rows = []
        for _ in range(rng.choice([1, 2])):
            k = rng.random()
            if k < 0.3:
                rows.append(dict(kind="plain", inc=T(""), main=T(rng.choice(["hello", "plain text", "a|b"]))))
            elif k < 0.8:
                rows.append(dict(kind="plain", inc=T(rng.choice(["", "", "TRUE", "FALSE"])), main=("tmpl", [("text", "m:"), ("out", ref())])))
            else:
                rows += [dict(kind="for", var="x", inc=T(""), main=T(rng.choice(["a;b", "p;q;r"]))),
                         dict(kind="plain", inc=T(""), main=("tmpl", [("text", "it "), ("out", ("var", "x")), ("text", " "), ("out", ref())])),
                         dict(kind="endfor", inc=T(""), main=T(""))]
        return rows

    def sheet(c, label, children):
        segs = [("rows", [dict(kind="plain", inc=T(""), main=T("S " + label))])]
        for _ in range(rng.choice([1, 2, 3])):
            if children and rng.random() < 0.5:
                segs.append(("insert", inc_cell(c), rng.choice(children), arg_cell(c)))
            elif rng.random() < 0.75:
                segs.append(("rows", simple_rows(c)))
            else:
                segs.append(("rows", gen_sheet(rng, c, p_missing)))
        if children and not any(sg[0] == "insert" for sg in segs):
            segs.append(("insert", inc_cell(c), rng.choice(children), arg_cell(c)))
        segs.append(("rows", [dict(kind="plain", inc=T(""), main=T("E " + label))]))
        return segs

    argB = rng.choice(["c1", "c1", None])
    argA = rng.choice(["b1", "b1", None])
    # the block's own context: its argument (a string); names of the inserting flows are unknown there, and the generator
    # of expressions draws them among the missing ones
    tB = ("B", argB, sheet({argB: "v"} if argB else {}, "B", []))
    tA = ("A", argA, sheet({argA: "v"} if argA else {}, "A", ["B"] if rng.random() < 0.6 else []))
    main = sheet(cx, "main", ["A", "A", "B"])
    return [tA, tB], main, cx


def model_book(m, templates, main, cx, sel=0):
    ts = "(" + " ".join(f"({enc_str(n)} ({enc_str(a) if a else ''}) ({' '.join(enc_seg(sg) for sg in segs)}))" for n, a, segs in templates) + ")"
    o = m.ask(f"(116 4 {sel} {enc_ctx(cx)} {ts} ({' '.join(enc_seg(sg) for sg in main)}))")
    x = parse_sexp(o)
    if x in ([999998], [999997]):
        return None
    emits = [dec_str(e[1]) for e in x[0] if e[0] == 2]
    res = ("ok",) if x[1] == [0] else ("err", ERRNAMES.get(x[1][1], str(x[1][1])))
    texts = []
    for sh in x[2]:
        segs = []
        for sg in sh:
            if sg[0] == 0:
                segs.append(("rows", [(dec_str(a), dec_str(b)) for a, b in sg[1]]))
            else:
                segs.append(("insert", dec_str(sg[1]), dec_str(sg[2])))
        texts.append(segs)
    return emits, res, texts


def book_csv(segs, texts, first_from_start):
    buf = io.StringIO()
    w = csv.writer(buf, lineterminator="\n")
    w.writerow(BOOK_HEADER)
    first = True
    for sg, tx in zip(segs, texts):
        if sg[0] == "rows":
            for r, (inc, main) in zip(sg[1], tx[1]):
                w.writerow(["", KINDS[r["kind"]][1], "start" if (first and first_from_start) else "", inc, r.get("var", ""), main, ""])
                first = False
        else:
            w.writerow(["", "insert_as_block", "", tx[1], "", sg[2], tx[2]])
            first = False
    return buf.getvalue()


def impl_book(files, cx):
    """a real ContentIndexParser holding the templates; the main sheet compiled by FlowParser in the given context, as
    _parse_flow does -> ('ok', messages) | ('err', kind, message)"""
    import tablib
    from rpft.converters import get_content_index_parser
    from rpft.parsers.creation.flowparser import FlowParser
    from rpft.rapidpro.models.containers import RapidProContainer

    d = tempfile.mkdtemp(prefix="c16book")
    try:
        for name, text in files.items():
            with open(os.path.join(d, name + ".csv"), "w", encoding="utf8", newline="") as f:
                f.write(text)

        def go():
            parser = get_content_index_parser([d], "csv", None, [])
            t = tablib.import_set(files["main"], format="csv")
            fp = FlowParser(RapidProContainer(), "main", t, context=py_ctx(cx), content_index_parser=parser)
            return fp.parse().render()
        r = run_cli_mode(go)
    finally:
        shutil.rmtree(d, ignore_errors=True)
    if r[0] == "ok":
        return ("ok", flow_messages(r[1]))
    return r


def book_files(templates, main, texts):
    ci = [["type", "sheet_name", "data_sheet", "data_row_id", "template_arguments", "new_name", "status"]]
    files = {}
    for (n, a, segs), tx in zip(templates, texts[:-1]):
        ci.append(["template_definition", n, "", "", (a + ";;|") if a else "", "", ""])
        files[n] = book_csv(segs, tx, False)
    files["main"] = book_csv(main, texts[-1], True)
    files["content_index"] = csv_text(ci)
    return files


# ------------------------------------------------------------------ end to end (create_flows)
def e2e_run(files):
    """files: dict name -> csv text.  -> ('ok', {flow name: [messages]}) | ('err', kind)"""
    from rpft.converters import create_flows

    d = tempfile.mkdtemp(prefix="c16e2e")
    cwd = os.getcwd()
    try:
        for name, text in files.items():
            with open(os.path.join(d, name + ".csv"), "w", encoding="utf8", newline="") as f:
                f.write(text)
        os.chdir(d)
        r = run_cli_mode(create_flows, [d], None, "csv")
    finally:
        os.chdir(cwd)
        shutil.rmtree(d, ignore_errors=True)
    if r[0] == "ok":
        return ("ok", {fl["name"]: flow_messages(fl) for fl in r[1]["flows"]})
    return ("err", r[1])


def csv_text(rows):
    buf = io.StringIO()
    w = csv.writer(buf, lineterminator="\n")
    for r in rows:
        w.writerow(r)
    return buf.getvalue()


def e2e_workbook(rows, texts, data_cols, data_row, arg_defs, args):
    """content index with one template (arguments), one data sheet with one row, create_flow.
    data_cols: list of header names ('custom.happy' allowed); data_row: values."""
    ci = [["type", "sheet_name", "data_sheet", "data_row_id", "template_arguments", "new_name", "data_model", "status"]]
    if data_cols:
        ci.append(["data_sheet", "data", "", "", "", "", "", ""])
    ci.append(["template_definition", "tpl", "", "", "".join(a + ";;|" for a in arg_defs), "", "", ""])
    ci.append(["create_flow", "tpl", "data" if data_cols else "", "r1" if data_cols else "", ";".join(args), "", "", ""])
    files = {"content_index": csv_text(ci), "tpl": sheet_csv(rows, texts)}
    if data_cols:
        files["data"] = csv_text([["ID"] + data_cols, ["r1"] + data_row])
    return files


# ------------------------------------------------------------------ the check
def run(ctx):
    from rpft.parsers.common.cellparser import CellParser

    v = ctx.v
    rng = ctx.rng
    m = ctx.model
    thorough = ctx.tier == "thorough"
    scale = ctx.scale
    stats = ctx.stats
    nontrivial = set()

    def cnt(k, n=1):
        stats[k] = stats.get(k, 0) + n

    cp = CellParser()

    # ---------------------------------------------------------------- (c) behavioural probe vs translator
    beh = behavioural_policy(CellParser)
    stats["behavioural_policy"] = beh
    tab = None
    if m:
        x = parse_sexp(m.ask("(116 0)"))
        tab = {"env": "Strict" if x[0] == 0 else "Lenient", "native": "Strict" if x[1] == 0 else "Lenient",
               "env_repr_fails": bool(x[2]), "native_repr_fails": bool(x[3]), "native_result_checked": bool(x[4])}
        stats["translator_policy"] = tab
        for k in ("env", "native", "env_repr_fails", "native_result_checked"):
            if beh[k] != tab[k]:
                ctx.disagree("undefined policy: translator constant vs behavioural probe", k, tab[k], beh[k])
    # the same instance the rest of the run uses must behave like a fresh one
    beh2 = behavioural_policy(lambda: cp)
    if beh2 != beh:
        ctx.disagree("undefined policy differs between CellParser instances", "fresh vs reused", str(beh), str(beh2))

    def fail(key, summary, rep):
        v.failing_input(key, summary, rep)

    # ---------------------------------------------------------------- (b1) planted names, answer known by construction
    def check_planted(text, pctx, expect_error, family, mode=0, expect_value=None):
        v.coverage["evaluations"] += 1
        cnt("planted_" + family)
        r = run_cli_mode(cp.parse_as_string if mode == 0 else cp.parse, text, dict(pctx))
        if expect_error:
            blank = r[0] == "ok"
            if blank:
                import jinja2
                if isinstance(r[1], jinja2.Undefined):
                    # native: the object comes back; instantiation ends in RowParser -> judged there
                    return row_level_native(text, pctx, family)
                key = "undefined-inside-list-literal" if family == "list-literal" or family.startswith("holder") \
                    else "missing-name-renders"
                fail(key, f"{family}: parse_as_string({text!r}, {pctx!r}) = {safe_repr(r[1])} (no error)",
                     dict(fn="cell", text=text, ctx=pctx, mode=mode, expect="error", produced=safe_repr(r[1])))
        else:
            if r[0] != "ok":
                ctx.disagree("name in an un-evaluated position raised", text, "no error", str(r))
            elif expect_value is not None and (r[1] != expect_value or type(r[1]) is not type(expect_value)):
                fail("defined-not-exact", f"{family}: parse_as_string({text!r}, {pctx!r}) = {safe_repr(r[1])}, expected {expect_value!r}",
                     dict(fn="cell", text=text, ctx=pctx, mode=mode, expect="value", value=expect_value, produced=safe_repr(r[1])))

    def row_level_native(text, pctx, family):
        """a native template whose value is an Undefined object: instantiation finishes in
        RowParser (str(), bool(), list(), == '').  Every field type must fail."""
        from typing import List

        from rpft.parsers.common.rowparser import ParserModel, RowParser

        class M(ParserModel):
            s: str = ""
            b: bool = True
            l: list = []
            ls: List[str] = []

        for field in ("s", "b", "l", "ls"):
            v.coverage["evaluations"] += 1
            r = run_cli_mode(RowParser(M, CellParser()).parse_row, {field: text}, py_ctx(pctx))
            if r[0] == "ok":
                got = getattr(r[1], field)
                fail("missing-name-renders", f"{family}: RowParser field {field}: {text!r} with {pctx!r} -> {safe_repr(got)} (no error)",
                     dict(fn="rowfield", field=field, text=text, ctx=pctx, produced=safe_repr(got)))
                return

    base_ctx = {"name": "Ann", "row": {"k": "v"}, "lst": ["p", "q"], "flag": False, "yes": True, "n": 2}
    for miss in ["missing", "nmae", "arg2", "Name"]:
        E = [  # evaluated positions -> must be an error
            ("bare", "{{ %s }}" % miss), ("in-text", "Hello {{ %s }}!" % miss), ("if-cond", "{%% if %s %%}a{%% else %%}b{%% endif %%}" % miss),
            ("for-iter", "[{%% for q in %s %%}q{%% endfor %%}]" % miss), ("eq", "{{ %s == 'a' }}" % miss), ("ne", "{{ 'a' != %s }}" % miss),
            ("not", "{{ not %s }}" % miss), ("and-rhs", "{{ yes and %s }}" % miss), ("or-rhs", "{{ flag or %s }}" % miss),
            ("and-lhs", "x{{ %s and name }}" % miss), ("taken-branch", "{%% if yes %%}{{ %s }}{%% endif %%}" % miss),
            ("else-branch", "{%% if flag %%}a{%% else %%}b{{ %s }}{%% endif %%}" % miss), ("loop-body", "{%% for q in lst %%}{{ %s }}{%% endfor %%}" % miss),
            ("attr-of-missing", "{{ %s.k }}" % miss), ("item-of-missing", "{{ %s[0] }}" % miss), ("escape", "{{ %s | escape }}" % miss),
            ("range-arg", "{%% for q in range(%s) %%}q{%% endfor %%}" % miss), ("field-of-object", "a{{ row.%s }}b" % miss),
            ("item-of-object", "a{{ row['%s'] }}b" % miss), ("index-out-of-range", "a{{ lst[7] }}b"),
            ("loop-var-after-endfor", "{% for q in lst %}{{ q }}{% endfor %}{{ q }}"),
            ("native-bare", "{@ %s @}" % miss), ("native-field", "{@ row.%s @}" % miss), ("native-not", "{@ not %s @}" % miss),
            ("native-eq", "{@ %s == 1 @}" % miss), ("native-and", "{@ yes and %s @}" % miss),
            ("list-literal", "{{ [%s] }}" % miss), ("native-list-literal-first", "{@ [%s][0] @}" % miss),
        ]
        for fam, t in E:
            check_planted(t, base_ctx, True, fam)
        N = [  # un-evaluated positions -> must not be an error, value known
            ("false-branch", "{%% if flag %%}{{ %s }}{%% else %%}b{%% endif %%}" % miss, "b"),
            ("true-else", "{%% if yes %%}a{%% else %%}{{ %s }}{%% endif %%}" % miss, "a"),
            ("empty-loop", "[{%% for q in [] %%}{{ %s }}{%% endfor %%}]" % miss, "[]"),
            ("and-short", "{{ flag and %s }}" % miss, "False"), ("or-short", "{{ yes or %s }}" % miss, "True"),
            ("nested-false", "{%% if yes %%}{%% if flag %%}{{ %s.k }}{%% endif %%}z{%% endif %%}" % miss, "z"),
        ]
        for fam, t, want in N:
            check_planted(t, base_ctx, False, fam, expect_value=want)
        # the Undefined object of the name INSIDE a list / tuple / dict literal, to any depth: printing the
        # container (text) and handing it back (native) are evaluated positions -> must be an error
        H = [
            ("holder-tuple", "{{ (%s, 1) }}" % miss), ("holder-tuple1", "{{ (%s,) }}" % miss), ("holder-dict", "{{ {'a': %s} }}" % miss),
            ("holder-nested-list", "{{ [[%s]] }}" % miss), ("holder-after-defined", "{{ [name, %s] }}" % miss),
            ("holder-deep", "{{ {'a': [1, (2, %s)]} }}" % miss), ("holder-in-text", "Hello {{ [%s] }}!" % miss),
            ("holder-and-rhs", "{{ yes and [%s] }}" % miss), ("holder-field-of-object", "{{ [row.%s] }}" % miss),
            ("holder-index-out-of-range", "{{ (name, lst[7]) }}"), ("holder-taken-branch", "{%% if yes %%}{{ [%s] }}{%% endif %%}" % miss),
            ("holder-loop-body", "{%% for q in lst %%}{{ [q, %s] }}{%% endfor %%}" % miss),
            ("holder-native-list", "{@ [%s] @}" % miss), ("holder-native-after-defined", "{@ [n, %s] @}" % miss),
            ("holder-native-tuple", "{@ (%s, 1) @}" % miss), ("holder-native-dict", "{@ {'a': %s} @}" % miss),
            ("holder-native-nested", "{@ [[1, [%s]]] @}" % miss), ("holder-native-deep", "{@ {'a': [1, (2, %s)]} @}" % miss),
            ("holder-native-field-of-object", "{@ [name, row.%s] @}" % miss), ("holder-native-and-rhs", "{@ yes and [%s] @}" % miss),
            ("holder-native-index-out-of-range", "{@ {'k': lst[7]} @}"),
            # forced on every tree: range() / escape of a container
            ("range-of-holder", "{%% for q in range([%s]) %%}q{%% endfor %%}" % miss), ("escape-of-holder", "{{ [%s] | escape }}" % miss),
            ("function-argument", "{{ range(%s) }}" % miss),
        ]
        for fam, t in H:
            check_planted(t, base_ctx, True, fam)
        HN = [  # the same literals over DEFINED names / in un-evaluated positions: value known, no error
            ("holder-defined-list", "{{ [name, n] }}", "['Ann', 2]"), ("holder-defined-tuple", "{{ (name, n) }}", "('Ann', 2)"),
            ("holder-defined-tuple1", "{{ (name,) }}", "('Ann',)"), ("holder-defined-dict", "{{ {'a': name, 'b': [n]} }}", "{'a': 'Ann', 'b': [2]}"),
            ("holder-short-circuit", "{{ flag and [%s] }}" % miss, "False"), ("holder-false-branch", "{%% if flag %%}{{ [%s] }}{%% endif %%}z" % miss, "z"),
            ("holder-native-defined-list", "{@ [name, n] @}", ["Ann", 2]), ("holder-native-defined-tuple", "{@ (name, lst) @}", ("Ann", ["p", "q"])),
            ("holder-native-defined-dict", "{@ {'a': row} @}", {"a": {"k": "v"}}), ("holder-native-empty", "{@ [] @}", []),
            ("holder-native-empty-tuple", "{@ () @}", ()), ("holder-native-empty-dict", "{@ {} @}", {}),
        ]
        for fam, t, want in HN:
            check_planted(t, base_ctx, False, fam, expect_value=want)
        # explicit handling of an absent name (the reference is not "replaced by nothing": the author says what
        # replaces it / asks whether it is there): legitimate Jinja, not an error on this tree; recorded, not judged
        for t, want in [("{{ %s | default('d') }}" % miss, "d"), ("{{ %s is defined }}" % miss, "False"),
                        ("{{ 'a' if %s is defined else 'b' }}" % miss, "b"), ("{@ %s | default('d') @}" % miss, "d")]:
            r = run_cli_mode(cp.parse_as_string, t, dict(base_ctx))
            cnt("explicit_absence_handling_" + ("as_before" if r == ("ok", want) else "changed"))
    # context None (omit_templating) and the "{"-shortcut
    for t in ["{{ missing }}", "{@ missing @}", " {% if %} ", "plain"]:
        v.coverage["evaluations"] += 1
        r = run_cli_mode(cp.parse_as_string, t, None)
        if r != ("ok", t.strip()):
            ctx.disagree("context None must return the stripped cell", t, t.strip(), str(r))
    for t in ["{{ missing }}", "x{{ missing }}y", "{% if missing %}a{% endif %}b"]:
        check_planted(t, {}, True, "empty-context")

    # ---------------------------------------------------------------- (b1') planted sheets: the holder reaches FlowParser
    def check_planted_sheet(family, body, expect, sctx=None):
        """body: list of (type, include_if, loop_variable, message_text) after a first row `hi`;
        expect = 'error' | list of messages"""
        v.coverage["evaluations"] += 1
        cnt("planted_sheet_" + family)
        sctx = dict(base_ctx) if sctx is None else sctx
        buf = io.StringIO()
        w = csv.writer(buf, lineterminator="\n")
        w.writerow(HEADER)
        w.writerow(["", "send_message", "start", "", "", "hi"])
        for typ, inc, lv, main in body:
            w.writerow(["", typ, "", inc, lv, main])
        csvtext = buf.getvalue()
        _, res = impl_sheet(csvtext, sctx)
        if expect == "error":
            if res[0] == "ok":
                fail("undefined-inside-list-literal", f"sheet {family}: FlowParser delivers messages {res[1]!r} from\n{csvtext}",
                     dict(fn="sheetplanted", csv=csvtext, ctx=sctx, expect="error", produced=repr(res[1])))
        elif res[0] != "ok":
            ctx.disagree("planted sheet without an evaluated unknown name fails", csvtext, repr(expect), repr(res))
        elif res[1] != expect:
            fail("defined-not-exact", f"sheet {family}: messages {res[1]!r}, expected {expect!r}",
                 dict(fn="sheetplanted", csv=csvtext, ctx=sctx, expect=expect, produced=repr(res[1])))

    for miss in ["missing", "nmae"]:
        check_planted_sheet("loop-over-holder-body-ignores-variable",
                            [("begin_for", "", "x", "{@ [%s] @}" % miss), ("send_message", "", "", "in loop"), ("end_for", "", "", "")], "error")
        check_planted_sheet("loop-over-holder", [("begin_for", "", "x", "{@ [name, %s] @}" % miss), ("send_message", "", "", "it {{ x }}"),
                                                 ("end_for", "", "", "")], "error")
        check_planted_sheet("loop-over-tuple-holder", [("begin_for", "", "x", "{@ (1, {'a': %s}) @}" % miss), ("send_message", "", "", "in loop"),
                                                       ("end_for", "", "", "")], "error")
        check_planted_sheet("message-prints-holder", [("send_message", "", "", "m {{ [%s] }}" % miss)], "error")
        check_planted_sheet("message-is-native-holder", [("send_message", "", "", "{@ [%s] @}" % miss)], "error")
        check_planted_sheet("include_if-is-native-holder", [("send_message", "{@ [%s] @}" % miss, "", "m")], "error")
        check_planted_sheet("holder-under-false-include_if",
                            [("begin_block", "FALSE", "", ""), ("send_message", "", "", "m {{ [%s] }}" % miss), ("end_block", "", "", ""),
                             ("send_message", "", "", "tail")], ["hi", "tail"])
        check_planted_sheet("holder-in-excluded-row", [("send_message", "false", "", "m {{ [%s] }}" % miss), ("send_message", "", "", "tail")],
                            ["hi", "tail"])
    check_planted_sheet("loop-over-defined-holder", [("begin_for", "", "x", "{@ [name, (n, 'b')] @}"), ("send_message", "", "", "it {{ x }}"),
                                                     ("end_for", "", "", "")], ["hi", "it Ann", "it (2, 'b')"])
    check_planted_sheet("loop-over-defined-tuple", [("begin_for", "", "x", "{@ (name, n) @}"), ("send_message", "", "", "it {{ x }}"),
                                                    ("end_for", "", "", "")], ["hi", "it Ann", "it 2"])

    # ---------------------------------------------------------------- (b2) defined_exact
    n_exact = (3000 if thorough else 400) * scale
    for _ in range(n_exact):
        dctx = {"name": rng.choice(STRS + ["Ann"]), "n": rng.choice([0, 3, -2, 10 ** 12]), "b": rng.choice([True, False]),
                "row": {"k": rng.choice(STRS), "fld": rng.choice([1, "w", None])}, "lst": [rng.choice(STRS), rng.choice([5, "u"])],
                "no": None}
        parts, want = [], ""
        for _ in range(rng.choice([1, 2, 3, 4])):
            if rng.random() < 0.5:
                t = rng.choice(["Hi ", "a|b", ";", " - ", "!", "é", "x"])
                parts.append(t)
                want += t
            else:
                ref, val = rng.choice([("name", dctx["name"]), ("n", dctx["n"]), ("b", dctx["b"]), ("row.k", dctx["row"]["k"]),
                                       ("row.fld", dctx["row"]["fld"]), ("row['k']", dctx["row"]["k"]), ("lst[0]", dctx["lst"][0]),
                                       ("lst[1]", dctx["lst"][1]), ("lst[-1]", dctx["lst"][-1]), ("no", None)])
                parts.append(rng.choice(["{{ %s }}", "{{%s}}", "{{  %s  }}"]) % ref)
                want += str(val)
        text = "".join(parts)
        if "{" in want.replace("{", "", 0) and False:
            continue
        if text.strip().startswith("{@"):
            continue
        # parse_as_string strips the CELL, not the rendered text: leading/trailing data survives
        lead = len(text) - len(text.lstrip())
        trail = len(text) - len(text.rstrip())
        if (lead and not parts[0].startswith("{{")) or (trail and not parts[-1].startswith("{{")):
            want = want[lead:] if lead else want
            want = want[:len(want) - trail] if trail else want
        v.coverage["evaluations"] += 1
        cnt("defined_exact")
        r = run_cli_mode(cp.parse_as_string, text, dctx)
        if r != ("ok", want):
            fail("defined-not-exact", f"parse_as_string({text!r}) = {r!r}, expected {want!r}",
                 dict(fn="cell", text=text, ctx=dctx, mode=0, expect="value", value=want, produced=repr(r)))
        nontrivial.add(("exact", text))

    # ---------------------------------------------------------------- (a)+(b3) generated cells: correspondence + spy oracle
    n_cells = (40000 if thorough else 2500) * scale
    cases = []
    for i in range(n_cells):
        cx = gen_ctx(rng)
        p_missing = rng.choice([0.0, 0.1, 0.3, 0.6])
        cell = gen_cell(rng, cx, p_missing)
        r = rng.random()
        octx = cx if r < 0.93 else (None if r < 0.96 else {})
        cases.append((octx, cell, rng.choice([0, 0, 1])))
    dist = {"model_ok": 0, "model_err": 0, "unsupported": 0, "impl_err": 0, "with_missing_name": 0, "native": 0,
            "spy_touched": 0, "spy_untouched": 0, "ctx_none": 0, "ctx_empty": 0}
    mres = model_cells(m, cases) if m else None
    # the printer lives in the model; without a model the harness cannot print ASTs: the
    # oracle then runs on the planted/defined families above and on the raw stream below
    if mres:
        for (octx, cell, mode), (text, mr) in zip(cases, mres):
            v.coverage["evaluations"] += 1
            if text is None:
                ctx.disagree("model rejected the wire input", repr(cell)[:200], "BADINPUT", "")
                continue
            ir = impl_cell(cp, text, octx, mode)
            if octx is None:
                dist["ctx_none"] += 1
            elif not octx:
                dist["ctx_empty"] += 1
            if cell[0] == "native":
                dist["native"] += 1
            if ir[0] == "err":
                dist["impl_err"] += 1
            if mr[0] == "err" and mr[1] in ("UNSUPPORTED", "FUEL", "BADINPUT"):
                dist["unsupported"] += 1
            else:
                dist["model_err" if mr[0] == "err" else "model_ok"] += 1
                if not same(mr, ir):
                    ctx.disagree("parse_as_string/parse: model vs implementation", dict(text=text, ctx=octx, mode=mode),
                                 repr(mr), repr(ir))
                nontrivial.add(("cell", text, repr(sorted(octx.items(), key=repr)) if octx else repr(octx)))
            # spy oracle (model-free): for each name the cell mentions and the context lacks
            if octx is None:
                continue
            missing = sorted(n for n in names_in_cell(cell) if n not in octx)
            if missing:
                dist["with_missing_name"] += 1
            for name in missing[:2]:
                spy = Spy()
                sctx = py_ctx(octx)
                sctx[name] = spy
                run_cli_mode(cp.parse_as_string if mode == 0 else cp.parse, text, sctx)
                tch = touched(spy)
                if not tch:
                    dist["spy_untouched"] += 1
                    continue
                dist["spy_touched"] += 1
                if ir[0] == "ok" and ir[1] == UNDEF:
                    # native template handing back an Undefined object: instantiation ends in RowParser
                    row_level_native(text, octx, "generated-native")
                elif ir[0] == "ok":
                    # an Undefined object that ends up INSIDE a container is never forced (neither by
                    # repr() nor by handing the native list back): the known residual class
                    in_container = set(tch) <= {"repr"} or has_nested_undef(ir[1]) \
                        or (isinstance(ir[1], str) and "Undefined" in ir[1])
                    key = "undefined-inside-list-literal" if in_container else "missing-name-renders"
                    fail(key, f"{text!r} touches {name!r} ({tch[0]}) but renders {ir[1]!r} when {name!r} is not defined",
                         dict(fn="spy", text=text, ctx=octx, mode=mode, name=name, produced=repr(ir[1])))
    stats["generated_cells"] = dist

    # raw / malformed stream: only the implementation-side oracle applies (spy on name `a`)
    for t in RAW * (2 if thorough else 1):
        v.coverage["evaluations"] += 1
        cnt("raw_cells")
        spy = Spy()
        run_cli_mode(cp.parse_as_string, t, {"a": spy, "b": 1})
        r = run_cli_mode(cp.parse_as_string, t, {"b": 1})
        tch = touched(spy)
        if tch and r[0] == "ok" and "default" not in t and "is defined" not in t and "if missing" not in t:
            import jinja2
            if isinstance(r[1], jinja2.Undefined):
                continue
            in_container = set(tch) <= {"repr"} or (isinstance(r[1], str) and "Undefined" in r[1])
            fail("undefined-inside-list-literal" if in_container else "missing-name-renders",
                 f"raw cell {t!r} touches 'a' ({tch[0]}) but renders {safe_repr(r[1])} without it",
                 dict(fn="spy", text=t, ctx={"b": 1}, mode=0, name="a", produced=safe_repr(r[1])))

    # ---------------------------------------------------------------- (a2) row loop: model <-> FlowParser, skipped rows
    n_sheets = (3000 if thorough else 250) * scale
    sdist = {"ok": 0, "err": 0, "unsupported": 0, "rows_untemplated": 0, "rows_templated": 0, "with_false_block": 0}
    for _ in range(n_sheets):
        cx = gen_ctx(rng, tame=rng.random() < 0.8)
        cx.setdefault("name", "Ann")
        rows = gen_sheet(rng, cx, rng.choice([0.0, 0.0, 0.15, 0.4]))
        if not m:
            break
        mo = model_sheet(m, rows, cx)
        v.coverage["evaluations"] += 1
        if mo is None:
            ctx.disagree("model rejected the sheet", repr(rows)[:300], "BADINPUT", "")
            continue
        mev, mres_, texts = mo
        csvtext = sheet_csv(rows, texts)
        iev, ires = impl_sheet(csvtext, cx)
        # oracle: cells of rows read with omit_templating never reach from_string
        untempl = [e[1] for e in iev if e[0] == "row" and not e[2]]
        sdist["rows_untemplated"] += len(untempl)
        sdist["rows_templated"] += sum(1 for e in iev if e[0] == "row" and e[2])
        if untempl:
            sdist["with_false_block"] += 1
        check_skipped(iev, texts, fail, csvtext, cx)
        if mres_[0] == "err" and mres_[1] in ("UNSUPPORTED", "FUEL"):
            sdist["unsupported"] += 1
            continue
        if ires[0] == "err" and ires[1] == "critical" and any(g in ires[2] for g in GRAPH_ERRORS):
            sdist["graph_error_outside_model"] = sdist.get("graph_error_outside_model", 0) + 1
            continue
        sdist["ok" if mres_[0] == "ok" else "err"] += 1
        m_msgs = [e[1] for e in mev if e[0] == "emit"]
        m_rows = [e for e in mev if e[0] == "row"]
        i_rows = [e for e in iev if e[0] == "row"]
        m_rend = [e[1] for e in mev if e[0] == "render"]
        i_rend = collapse_star([e[1] for e in iev if e[0] == "render"])
        if mres_[0] == "ok":
            if ires[0] != "ok" or ires[1] != m_msgs:
                ctx.disagree("sheet: produced messages", dict(csv=csvtext, ctx=cx), repr(("ok", m_msgs)), repr(ires))
            elif m_rows != i_rows or m_rend != i_rend:
                ctx.disagree("sheet: instantiate-call log", dict(csv=csvtext, ctx=cx), repr((m_rows, m_rend)), repr((i_rows, i_rend)))
        else:
            if ires[0] != "err":
                ctx.disagree("sheet: model errs, implementation delivers", dict(csv=csvtext, ctx=cx), repr(mres_), repr(ires))
        nontrivial.add(("sheet", csvtext))
    stats["generated_sheets"] = sdist

    # ---------------------------------------------------------------- (a2') inserted sheets: Insert.run_book <-> FlowParser + ContentIndexParser
    n_books = (1500 if thorough else 150) * scale
    bdist = {"ok": 0, "err": 0, "unsupported": 0, "graph_error_outside_model": 0, "error_inside_an_inserted_sheet": 0, "inserts_reached": 0}
    for _ in range(n_books if m else 0):
        templates, main, bcx = gen_insert_book(rng, rng.choice([0.0, 0.0, 0.1, 0.3]))
        mo = model_book(m, templates, main, bcx)
        v.coverage["evaluations"] += 1
        if mo is None:
            ctx.disagree("model rejected the book", repr(main)[:300], "BADINPUT", "")
            continue
        emits, mres_, texts = mo
        files = book_files(templates, main, texts)
        ires = impl_book(files, bcx)
        if mres_[0] == "err" and mres_[1] in ("UNSUPPORTED", "FUEL"):
            bdist["unsupported"] += 1
            continue
        if ires[0] == "err" and ires[1] == "critical" and any(g in ires[2] for g in GRAPH_ERRORS):
            bdist["graph_error_outside_model"] += 1
            continue
        bdist["ok" if mres_[0] == "ok" else "err"] += 1
        entered = sum(1 for e in emits if e in ("S A", "S B"))
        if entered:
            bdist["inserts_reached"] += 1
            if mres_[0] == "err" and entered > sum(1 for e in emits if e in ("E A", "E B")):
                bdist["error_inside_an_inserted_sheet"] += 1
        if mres_[0] == "ok":
            if ires[0] != "ok" or ires[1] != emits:
                ctx.disagree("book: produced messages", dict(files=files, ctx=bcx), repr(("ok", emits)), repr(ires))
        elif ires[0] != "err":
            ctx.disagree("book: model errs (an inserted sheet or the inserting one stops), implementation delivers", dict(files=files, ctx=bcx),
                         repr(mres_), repr(ires))
            # the model is the reading of the property here: a flow was delivered although instantiation hit an error
            if mres_[1] == "Undefined":
                fail("missing-name-renders", f"a sheet with inserted sheets: the model stops with an undefined name, the implementation delivers {ires[1]!r}",
                     dict(fn="bookmodel", files=files, ctx=bcx))
        nontrivial.add(("bookmodel", files["main"], files.get("A", "")))
    stats["generated_books_with_inserted_sheets"] = bdist

    # ---------------------------------------------------------------- (a3) end to end through create_flows
    n_e2e = (400 if thorough else 40) * scale
    edist = {"ok": 0, "err": 0, "unsupported": 0}
    kinds = ["none", "misspelt-field", "undeclared-argument", "loop-variable-after-end_for", "absent-data-column",
             "attribute-of-defined-object", "only-in-false-branch", "only-under-false-include_if",
             "inside-list-literal", "loop-over-list-literal"]
    for i in range(n_e2e):
        kind = kinds[i % len(kinds)]
        cnt("e2e_" + kind)
        v.coverage["evaluations"] += 1
        data_cols = ["name", "custom.happy", "custom.sad", "city"]
        data_row = [rng.choice(["Ann", "Bo b", "x;y"]), rng.choice(["H1", "hap"]), "S1", rng.choice(["Rome", "Oslo"])]
        arg_defs, args = ["arg1"], [rng.choice(["A1", "val"])]
        mctx = {"ID": "r1", "name": data_row[0], "custom": {"happy": data_row[1], "sad": data_row[2]}, "city": data_row[3], "arg1": args[0]}
        ok_ref = rng.choice([("var", "name"), ("var", "arg1"), ("attr", ("var", "custom"), "happy"), ("var", "city")])
        bad = {"none": ok_ref, "misspelt-field": ("var", "nmae"), "undeclared-argument": ("var", "arg2"),
               "loop-variable-after-end_for": ("var", "x"), "absent-data-column": ("var", "phone"),
               "attribute-of-defined-object": ("attr", ("var", "custom"), "angry"),
               "only-in-false-branch": ("var", "nmae"), "only-under-false-include_if": ("var", "nmae"),
               "inside-list-literal": rng.choice([("list", [ok_ref, ("var", "nmae")]), ("dict", [("k", ("tuple", [("var", "arg2")]))]),
                                                  ("tuple", [("attr", ("var", "custom"), "angry"), ("int", 1)])]),
               "loop-over-list-literal": ("var", "phone")}[kind]
        rows = [dict(kind="plain", inc=T(""), main=("tmpl", [("text", "Hi "), ("out", ok_ref)]))]
        rows += [dict(kind="for", var="x", inc=T(""), main=T("a;b")),
                 dict(kind="plain", inc=T(""), main=("tmpl", [("text", "it "), ("out", ("var", "x"))])),
                 dict(kind="endfor", inc=T(""), main=T(""))]
        if kind == "only-in-false-branch":
            rows.append(dict(kind="plain", inc=T(""), main=("tmpl", [("text", "m "), ("if", ("bool", False), [("out", bad)], [("text", "e")])])))
        elif kind == "loop-over-list-literal":
            # the loop's own list holds the unknown name; the body does not look at the loop variable
            rows += [dict(kind="for", var="y", inc=T(""), main=("native", ("list", [ok_ref, bad]))),
                     dict(kind="plain", inc=T(""), main=T("again")),
                     dict(kind="endfor", inc=T(""), main=T(""))]
        elif kind == "only-under-false-include_if":
            rows += [dict(kind="block", inc=T("FALSE"), main=T("")),
                     dict(kind="plain", inc=T(""), main=("tmpl", [("text", "m "), ("out", ("attr", bad, "k"))])),
                     dict(kind="endblock", inc=T(""), main=T("")),
                     dict(kind="plain", inc=T(""), main=T("tail"))]
        else:
            rows.append(dict(kind="plain", inc=T(""), main=("tmpl", [("text", "m "), ("out", bad), ("text", rng.choice(["", "!"]))])))
        if not m:
            break
        mo = model_sheet(m, rows, mctx)
        mev, mres_, texts = mo
        files = e2e_workbook(rows, texts, data_cols, data_row, arg_defs, args)
        ir = e2e_run(files)
        expect_err = kind not in ("none", "only-in-false-branch", "only-under-false-include_if")
        if expect_err and ir[0] == "ok":
            fail("undefined-inside-list-literal" if kind.endswith("list-literal") else "missing-name-renders",
                 f"create_flows: {kind}: the flow is delivered with messages {ir[1]!r}",
                 dict(fn="e2e", files=files, kind=kind, produced=repr(ir[1])))
        if not expect_err and ir[0] != "ok":
            ctx.disagree("create_flows fails although no missing name is evaluated", dict(files=files), "ok", repr(ir))
        if mres_[0] == "err" and mres_[1] in ("UNSUPPORTED", "FUEL"):
            edist["unsupported"] += 1
            continue
        edist["ok" if mres_[0] == "ok" else "err"] += 1
        m_msgs = [e[1] for e in mev if e[0] == "emit"]
        if mres_[0] == "ok":
            if ir[0] != "ok" or list(ir[1].values()) != [m_msgs]:
                ctx.disagree("create_flows: produced messages", dict(files=files), repr(m_msgs), repr(ir))
        elif ir[0] != "err":
            ctx.disagree("create_flows: model errs, implementation delivers", dict(files=files), repr(mres_), repr(ir))
        nontrivial.add(("e2e", files["tpl"]))
    stats["e2e"] = edist

    # ---------------------------------------------------------------- (b4) every instantiation road (model-free)
    import c16_paths as P

    n_paths = (3000 if thorough else 300) * scale
    pdist = {"road x expectation": {}, "column": {}, "form": {}, "way": {}, "guard": {}, "error_names_the_planted_reference": 0,
             "error_for_another_reason": 0}

    def bump(d, k):
        d[k] = d.get(k, 0) + 1

    for _ in range(n_paths):
        book = P.gen_book(rng)
        real = P.realise(book)
        res = P.run_book(real["files"], real["api"])
        v.coverage["evaluations"] += 1
        pl = book["plant"]
        bump(pdist["road x expectation"], book["road"] + (" / error" if real["expect"] == "error" else " / exact values"))
        for k in ("column", "form", "way", "guard"):
            bump(pdist[k], pl[k])
        if real["expect"] == "error" and res[0] != "ok":
            root = pl["ref"].split(".")[0].split("[")[0]
            msg = str(res[2])
            named = ("undefined" in msg or "has no attribute" in msg) and (root in msg or pl["ref"].split(".")[-1].strip("']") in msg)
            pdist["error_names_the_planted_reference" if named else "error_for_another_reason"] += 1
        j = P.judge(real, res)
        if j:
            fail(j[0], f"instantiation road: {P.describe(book)}: {j[1][:600]}",
                 dict(fn="book", files=real["files"], expect=real["expect"], api=real["api"], guard=real["guard"], what=P.describe(book)))
        nontrivial.add(("book", real["files"].get(pl["sheet"] or "data", ""), book["road"], book["main_mode"]))
    stats["instantiation_roads"] = pdist

    # ---------------------------------------------------------------- (b5) histories on one long-lived ContentIndexParser
    n_hist = (400 if thorough else 40) * scale
    hdist = {"calls": {}, "lengths": {}, "histories_with_failing_and_delivering_calls": 0, "histories_uniform": 0, "workbook_does_not_load": 0}
    for _ in range(n_hist):
        book = P.history_book(rng)
        ops = P.gen_ops(rng, book, rng.choice([3, 4, 5, 6]))
        res = P.run_history(book, ops)
        if res is None:
            hdist["workbook_does_not_load"] += 1
            continue
        v.coverage["evaluations"] += len(res)
        bump(hdist["lengths"], len(res))
        for op, exp, got, fresh in res:
            bump(hdist["calls"], op[0] + (" / error" if exp == "error" else " / exact values"))
        mixed = len({e == "error" for _, e, _, _ in res}) == 2
        hdist["histories_with_failing_and_delivering_calls" if mixed else "histories_uniform"] += 1
        j = P.judge_history(res)
        if j:
            fail(j[0], f"one ContentIndexParser, calls {ops}: {P.describe(book)}: {j[1][:600]}",
                 dict(fn="history", book=book, ops=ops, what=P.describe(book)))
        nontrivial.add(("history", repr(ops), P.describe(book)))
    stats["parser_histories"] = hdist

    # ---------------------------------------------------------------- (b6) histories on one long-lived CellParser / RowParser
    stats["cell_histories"] = cell_histories(ctx, fail, (300 if thorough else 40) * scale, nontrivial)

    v.coverage["distinct_nontrivial"] = len(nontrivial)
    v.coverage["rule"] = (
        "planted-name families (28 evaluated positions + 24 positions inside list/tuple/dict literals, text and native, x 4 names must fail; "
        "6 + 12 un-evaluated positions / literals over defined names must render a known value); planted sheets (a loop over, a message "
        "printing, a message / include_if being a native literal that holds the unknown name must fail in FlowParser; the same under a "
        "false include_if must compile); "
        "defined_exact: random text/{{ref}} interleavings against str(value) concatenation; generated cell ASTs (22% native, "
        "p(missing leaf) in {0,.1,.3,.6}, 93% with context, 3% context None, 4% empty context) printed by the model's show_cell, "
        "run through parse_as_string/parse on model (policy = regenerated constants) and implementation, plus the spy oracle on every "
        "name the cell mentions and the context lacks; raw malformed cells (implementation oracle only); generated sheets "
        "(loops/blocks/include_if, depth <= 2) model vs FlowParser incl. the instantiate-call log; create_flows workbooks for every "
        "way a name can be missing; instantiation roads (c16_paths): ONE planted reference (18% defined, else unknown in one of 13 ways, 30% of "
        "those in an un-evaluated position) in a generated column / form of a generated workbook, reached through create_flow plain / single / "
        "bulk, insert_as_block depth 1 and 2 (own data row or not, inside a loop or not), TemplateSheetParser, and cells read with the empty "
        "context, expectation (error | exact messages of every flow) from a reference interpreter; histories of _parse_flow / get_node_group / "
        "parse_all_flows calls on ONE ContentIndexParser, failing calls in between, every call against the interpreter; histories of cells and rows "
        "on ONE CellParser / RowParser against fresh ones and the known answers. "
        "non-trivial = distinct (cell text, context) inside the sub-language, distinct sheet, distinct exact-case, distinct workbook, distinct history")
    v.coverage["samples"] = [repr(x)[:160] for x in list(sorted(nontrivial, key=repr))[:: max(1, len(nontrivial) // 5)][:5]]
    v.assumptions += [
        "Jinja2 outside the mini-language is not modelled (filters other than escape, tests, set, macros, arithmetic, globals as values)",
        "explicit handling of an absent name (`default` filter, `is defined` test) is legitimate Jinja and not judged (the reference is not "
        "replaced by nothing); a reference whose Undefined object is stored in a literal and then DISCARDED without being looked at "
        "(`[a, missing][0]`, `{% if [missing] %}`, a loop over `[missing]` in a text template whose body ignores the variable) is not an evaluated position",
        "show_cell (Coq printer) is parsed by Jinja2 back to the same AST (exercised, not proved)",
        "spy oracle: an object bound to the name sees every operation Jinja performs on that name's value",
        "pydantic data-row models behave like dicts for attribute access in the end-to-end cases (field names chosen outside pydantic's API)",
    ]


# ------------------------------------------------------------------ histories on long-lived CellParser / RowParser objects
HIST_CTX = {"name": "Ann", "row": {"k": "v"}, "lst": ["p", "q"], "flag": False, "yes": True, "n": 2}


def history_pool():
    """(text, context, mode, expectation): 'error' | ('value', v) — answers known by construction"""
    E, V = "error", lambda x: ("value", x)
    pool = [
        ("{{ missing }}", HIST_CTX, 0, E), ("Hello {{ nickname }}!", HIST_CTX, 0, E), ("{% if missing %}a{% else %}b{% endif %}", HIST_CTX, 0, E),
        ("{% for q in missing %}q{% endfor %}", HIST_CTX, 0, E), ("{{ row.missing }}", HIST_CTX, 0, E), ("{{ missing | upper }}", HIST_CTX, 0, E),
        ("{@ missing @}", HIST_CTX, 1, E), ("{@ [n, missing] @}", HIST_CTX, 1, E), ("{{ name }}{{ missing }}", HIST_CTX, 0, E),
        ("{{ missing }}", {}, 0, E), ("{{ name }}", {}, 0, E), ("{{ name }}", {"other": 1}, 0, E), ("{{ lst[7] }}", HIST_CTX, 0, E),
        ("{% set z = missing %}{{ z }}", HIST_CTX, 0, E),
        ("{{ name }}", HIST_CTX, 0, V("Ann")), ("Hello {{ name }}!", HIST_CTX, 0, V("Hello Ann!")), ("{% if flag %}{{ missing }}{% else %}b{% endif %}", HIST_CTX, 0, V("b")),
        ("{{ row.k }}", HIST_CTX, 0, V("v")), ("{@ lst @}", HIST_CTX, 1, V(["p", "q"])), ("{@ n @}", HIST_CTX, 1, V(2)), ("plain", HIST_CTX, 0, V("plain")),
        ("a;b", HIST_CTX, 1, V(["a", "b"])), ("{{ name }}", {"name": "Bob"}, 0, V("Bob")), ("{{ missing }}", {"missing": "now defined"}, 0, V("now defined")),
        ("{{ missing }}", None, 0, V("{{ missing }}")), ("{{ flag and missing }}", HIST_CTX, 0, V("False")), ("{{ name | upper }}", HIST_CTX, 0, V("ANN")),
        ("{% for q in lst %}{{ q }}{% endfor %}", HIST_CTX, 0, V("pq")), ("{{ nickname }}", {"nickname": ""}, 0, V("")),
    ]
    return pool


def cell_histories(ctx, fail, n, nontrivial):
    """Sequences of cells on ONE CellParser, and of rows on ONE RowParser / SheetParser sharing it: every result must be the
    known answer and what a fresh object gives — whatever was parsed before (failing cells, the same cell, the same name defined)."""
    from typing import List

    import tablib
    from rpft.parsers.common.cellparser import CellParser
    from rpft.parsers.common.rowparser import ParserModel, RowParser
    from rpft.parsers.common.sheetparser import SheetParser

    class M(ParserModel):
        s: str = ""
        l: list = []
        ls: List[str] = []

    rng, v = ctx.rng, ctx.v
    pool = history_pool()
    dist = {"calls": 0, "expected_error": 0, "expected_value": 0, "repeats_of_an_earlier_call": 0, "kinds": {}, "lengths": {}}
    for _ in range(n):
        cp = CellParser()
        rp = RowParser(M, cp)
        ops = []
        for _ in range(rng.choice([4, 6, 8, 12])):
            if ops and rng.random() < 0.3:
                ops.append(rng.choice(ops))
                dist["repeats_of_an_earlier_call"] += 1
            else:
                ops.append((rng.choice(["cell", "cell", "row", "sheet"]), rng.randrange(len(pool))))
        dist["lengths"][len(ops)] = dist["lengths"].get(len(ops), 0) + 1
        hist = []
        for kind, k in ops:
            text, c, mode, exp = pool[k]
            v.coverage["evaluations"] += 1
            dist["calls"] += 1
            dist["kinds"][kind] = dist["kinds"].get(kind, 0) + 1
            dist["expected_error" if exp == "error" else "expected_value"] += 1
            hist.append([kind, text, c, mode])
            got = _hist_call(kind, cp, rp, M, text, c, mode)
            want = "error" if exp == "error" else _hist_value(kind, exp[1], mode)
            if got != want:
                fresh_cp = CellParser()
                fresh = _hist_call(kind, fresh_cp, RowParser(M, fresh_cp), M, text, c, mode)
                note = " (a fresh parser gives the right answer: the result depends on the calls before)" if fresh == want else ""
                key = "missing-name-renders" if exp == "error" else "defined-not-exact"
                fail(key, f"call {len(hist) - 1} of a history on one CellParser/RowParser: {kind} {text!r} with {c!r} -> {got!r}, expected {want!r}{note}",
                     dict(fn="cellhistory", history=hist, expect=want))
                break
        nontrivial.add(("cellhistory", repr(ops)))
    return dist


def _hist_value(kind, value, mode):
    """what the known value of a cell becomes on the road `kind`"""
    if kind == "cell":
        return ("ok", value)
    # row / sheet: the cell is the `s` (mode 0) or `l` (mode 1) field of a row model
    if mode == 0:
        return ("ok", str(value))
    return ("ok", list(value) if isinstance(value, list) else [value])


def _hist_call(kind, cp, rp, M, text, c, mode):
    import tablib
    from rpft.parsers.common.sheetparser import SheetParser

    cc = None if c is None else py_ctx(c)
    if kind == "cell":
        r = run_cli_mode(cp.parse_as_string if mode == 0 else cp.parse, text, cc)
        return ("ok", canon(r[1])) if r[0] == "ok" else "error"
    field = "s" if mode == 0 else "l"
    if kind == "row":
        r = run_cli_mode(rp.parse_row, {field: text}, cc)
    else:
        def go():
            t = tablib.Dataset(headers=[field])
            t.append([text])
            sp = SheetParser(rp, t, context=cc if cc is not None else {})
            return sp.parse_next_row(omit_templating=cc is None)
        r = run_cli_mode(go)
    if r[0] != "ok":
        return "error"
    return ("ok", canon(getattr(r[1], field)))


def collapse_star(rend):
    """the `from` column (edges.*) is parsed twice by RowParser; it is literal here and never
    contains '{', so nothing to collapse for our sheets; kept as a hook for clarity"""
    return rend


def check_skipped(iev, texts, fail, csvtext, cx):
    """no cell of a row that was read with omit_templating reaches from_string between that
    read and the next row read"""
    cur_untempl = None
    for e in iev:
        if e[0] == "row":
            cur_untempl = e[1] if not e[2] else None
        elif e[0] == "render" and cur_untempl is not None:
            fail("skipped-row-evaluated", f"row {cur_untempl} was read with omit_templating but {e[1]!r} reached Jinja",
                 dict(fn="sheet", csv=csvtext, ctx=cx))
            return


# ------------------------------------------------------------------ replay
def replay(rep):
    """True = the property holds on this input."""
    import jinja2
    from rpft.parsers.common.cellparser import CellParser

    r = rep["replay"]
    cp = CellParser()
    if r["fn"] == "cell":
        res = run_cli_mode(cp.parse_as_string if r.get("mode", 0) == 0 else cp.parse, r["text"], r["ctx"])
        if r["expect"] == "error":
            if res[0] == "ok" and isinstance(res[1], jinja2.Undefined):
                return run_cli_mode(str, res[1])[0] == "err"
            return res[0] == "err"
        return res == ("ok", r["value"])
    if r["fn"] == "spy":
        octx = r["ctx"]
        spy = Spy()
        sctx = py_ctx(octx)
        sctx[r["name"]] = spy
        fn = cp.parse_as_string if r.get("mode", 0) == 0 else cp.parse
        run_cli_mode(fn, r["text"], sctx)
        res = run_cli_mode(fn, r["text"], py_ctx(octx))
        return not (touched(spy) and res[0] == "ok")
    if r["fn"] == "rowfield":
        from typing import List

        from rpft.parsers.common.rowparser import ParserModel, RowParser

        class M(ParserModel):
            s: str = ""
            b: bool = True
            l: list = []
            ls: List[str] = []

        return run_cli_mode(RowParser(M, CellParser()).parse_row, {r["field"]: r["text"]}, r["ctx"])[0] == "err"
    if r["fn"] == "e2e":
        return e2e_run(r["files"])[0] == "err"
    if r["fn"] == "sheetplanted":
        _, res = impl_sheet(r["csv"], r["ctx"])
        return res[0] == "err" if r["expect"] == "error" else (res[0] == "ok" and res[1] == r["expect"])
    if r["fn"] == "bookmodel":
        return impl_book(r["files"], r["ctx"])[0] == "err"
    if r["fn"] == "book":
        import c16_paths as P
        res = P.run_book(r["files"], r.get("api"))
        j = P.judge(dict(expect=r["expect"], guard=r.get("guard")), res)
        if j:
            print("  ", j[0], ":", j[1][:600])
        return j is None
    if r["fn"] == "history":
        import c16_paths as P
        res = P.run_history(r["book"], r["ops"])
        j = P.judge_history(res) if res is not None else None
        if j:
            print("  ", j[0], ":", j[1][:600])
        return j is None
    if r["fn"] == "cellhistory":
        from typing import List

        from rpft.parsers.common.rowparser import ParserModel, RowParser

        class M(ParserModel):
            s: str = ""
            l: list = []
            ls: List[str] = []

        rp = RowParser(M, cp)
        got = None
        for kind, text, c, mode in r["history"]:
            got = _hist_call(kind, cp, rp, M, text, c, mode)
        want = r["expect"] if r["expect"] == "error" else tuple(r["expect"])
        got = got if got == "error" else tuple(got)
        if got != want:
            print("   last call of the history gives", got, "expected", want)
        return got == want
    if r["fn"] == "sheet":
        iev, _ = impl_sheet(r["csv"], r["ctx"])
        bad = []
        check_skipped(iev, None, lambda *a: bad.append(a), r["csv"], r["ctx"])
        return not bad
    return True
