(* C18 — facts about Row/Infer.v *)
From Coq Require Import List NArith ZArith Bool Lia.
From RPFT Require Import Base.Sexp Base.PyStr Base.Result Base.ODict Gen.Tables Row.InferTy Row.Infer.
Import ListNotations.
Local Open Scope N_scope.

Lemma infer_tables_ok_true : infer_tables_ok = true.
Proof. vm_compute. reflexivity. Qed.
