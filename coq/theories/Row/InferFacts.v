(* C18 — facts about Row/Infer.v: the inferred model of a rendered schema is the model the
   schema denotes; header-order invariance; refutation of the full-strength default clause. *)
From Coq Require Import List NArith ZArith Bool Lia ZifyBool.
From RPFT Require Import Base.Sexp Base.PyStr Base.Result Base.ODict Gen.Tables Row.InferTy Row.Infer.
Import ListNotations.
Local Open Scope N_scope.

Lemma infer_tables_ok_true : infer_tables_ok = true.
Proof. vm_compute. reflexivity. Qed.

(* ------------------------------------------------------------------ strings *)
Lemma str_eqb_eq s t : str_eqb s t = true <-> s = t.
Proof.
  revert t. induction s as [|a s IH]; intros [|b t]; cbn.
  - split; reflexivity.
  - split; discriminate.
  - split; discriminate.
  - rewrite andb_true_iff, IH, N.eqb_eq. split.
    + intros [-> ->]. reflexivity.
    + intros H. inversion H. auto.
Qed.

Lemma str_eqb_refl s : str_eqb s s = true.
Proof. apply str_eqb_eq. reflexivity. Qed.

Lemma mem_char_app c a b : mem_char c (a ++ b) = mem_char c a || mem_char c b.
Proof. induction a as [|x a IH]; cbn; [reflexivity|]. rewrite IH, orb_assoc. reflexivity. Qed.

Lemma no_char_app c a b : no_char c (a ++ b) = no_char c a && no_char c b.
Proof. unfold no_char. rewrite mem_char_app, negb_orb. reflexivity. Qed.

Lemma no_char_cons c x a : no_char c (x :: a) = negb (x =? c) && no_char c a.
Proof. unfold no_char. cbn. rewrite negb_orb. reflexivity. Qed.

Lemma split_first_none c s : no_char c s = true -> split_first c s = None.
Proof.
  induction s as [|x s IH]; cbn; [reflexivity|]. rewrite no_char_cons, andb_true_iff.
  intros [Hx Hs]. apply negb_true_iff in Hx. rewrite Hx, (IH Hs). reflexivity.
Qed.

Lemma split_first_app c a b : no_char c a = true -> split_first c (a ++ c :: b) = Some (a, b).
Proof.
  induction a as [|x a IH]; cbn.
  - rewrite N.eqb_refl. reflexivity.
  - rewrite no_char_cons, andb_true_iff. intros [Hx Ha]. apply negb_true_iff in Hx.
    rewrite Hx, (IH Ha). reflexivity.
Qed.

Lemma before_none c s : no_char c s = true -> before c s = s.
Proof. intros H. unfold before. rewrite split_first_none by exact H. reflexivity. Qed.

Lemma before_app c a b : no_char c a = true -> before c (a ++ c :: b) = a.
Proof. intros H. unfold before. rewrite split_first_app by exact H. reflexivity. Qed.

Lemma split_first_length c s a b : split_first c s = Some (a, b) -> length s = S (length a + length b).
Proof.
  revert a. induction s as [|x s IH]; cbn; [discriminate|]. intros a.
  destruct (x =? c).
  - intros H. inversion H; subst. reflexivity.
  - destruct (split_first c s) as [[a' b']|]; [|discriminate]. intros H. inversion H; subst.
    cbn. rewrite (IH a' eq_refl). reflexivity.
Qed.

(* whitespace *)
Lemma all_ws_app a b : all_ws (a ++ b) = all_ws a && all_ws b.
Proof. unfold all_ws. apply forallb_app. Qed.

Lemma lstrip_ws_app w s : all_ws w = true -> lstrip (w ++ s) = lstrip s.
Proof.
  induction w as [|c w IH]; cbn; [reflexivity|]. rewrite andb_true_iff. intros [Hc Hw].
  rewrite Hc. apply IH, Hw.
Qed.

Lemma rstrip_ws w : all_ws w = true -> rstrip w = [].
Proof.
  induction w as [|c w IH]; cbn; [reflexivity|]. rewrite andb_true_iff. intros [Hc Hw].
  rewrite (IH Hw), Hc. reflexivity.
Qed.

Lemma rstrip_app_ws s w : all_ws w = true -> rstrip (s ++ w) = rstrip s.
Proof.
  intros Hw. induction s as [|c s IH]; cbn; [apply rstrip_ws, Hw|]. rewrite IH. reflexivity.
Qed.

Lemma rstrip_cons c s : rstrip (c :: s) = match rstrip s with [] => if is_ws c then [] else [c] | t => c :: t end.
Proof. reflexivity. Qed.

Lemma last_cons2 (c d : N) r : last (c :: d :: r) 0 = last (d :: r) 0.
Proof. reflexivity. Qed.

Lemma rstrip_last_nonws s : s <> [] -> is_ws (last s 0) = false -> rstrip s = s.
Proof.
  induction s as [|c s IH]; [congruence|]. intros _ Hl. destruct s as [|d r].
  - rewrite rstrip_cons. cbn [rstrip]. cbn [last] in Hl. rewrite Hl. reflexivity.
  - rewrite last_cons2 in Hl. rewrite rstrip_cons, IH; [reflexivity|discriminate|exact Hl].
Qed.

Lemma strip_padded w1 s w2 :
  all_ws w1 = true -> all_ws w2 = true -> stripped s = true -> strip (w1 ++ s ++ w2) = s.
Proof.
  intros H1 H2 Hs. unfold strip. rewrite lstrip_ws_app by exact H1.
  destruct s as [|c s].
  - cbn [app]. replace (lstrip w2) with (lstrip (w2 ++ [])) by (rewrite app_nil_r; reflexivity).
    rewrite lstrip_ws_app by exact H2. reflexivity.
  - cbn [stripped] in Hs. apply andb_true_iff in Hs. destruct Hs as [Hc Hl].
    apply negb_true_iff in Hc, Hl.
    change ((c :: s) ++ w2) with (c :: (s ++ w2)). cbn [lstrip]. rewrite Hc.
    change (c :: s ++ w2) with ((c :: s) ++ w2). rewrite rstrip_app_ws by exact H2.
    apply rstrip_last_nonws; [discriminate|exact Hl].
Qed.

Lemma strip_stripped s : stripped s = true -> strip s = s.
Proof.
  intros H. replace s with ([] ++ s ++ []) at 1 by (rewrite app_nil_r; reflexivity).
  apply strip_padded; auto.
Qed.

Lemma nows_stripped s : forallb (fun c => negb (is_ws c)) s = true -> stripped s = true.
Proof.
  destruct s as [|c s]; [reflexivity|]. intros H. cbn [stripped].
  rewrite forallb_forall in H. rewrite (H c) by (left; reflexivity). cbn.
  apply H. clear H. revert c. induction s as [|d s IH]; intros c; [left; reflexivity|].
  change (last (c :: d :: s) 0) with (last (d :: s) 0). right. apply IH.
Qed.

Lemma sep_plain_not_ws c : sep_plain c = true -> is_ws c = false.
Proof.
  unfold sep_plain. destruct (is_ws c); [|reflexivity]. cbn [negb andb]. discriminate.
Qed.

Lemma ws_not_sep c x : sep_plain c = true -> is_ws x = true -> (x =? c) = false.
Proof.
  intros H Hx. apply sep_plain_not_ws in H. destruct (x =? c) eqn:E; [|reflexivity].
  apply N.eqb_eq in E. rewrite E in Hx. rewrite Hx in H. discriminate.
Qed.

Lemma all_ws_no_char c w : sep_plain c = true -> all_ws w = true -> no_char c w = true.
Proof.
  intros Hc. induction w as [|x w IH]; cbn; [reflexivity|]. rewrite andb_true_iff. intros [Hx Hw].
  rewrite no_char_cons, (ws_not_sep c x Hc Hx), (IH Hw). reflexivity.
Qed.

(* ------------------------------------------------------------------ numbers *)
Definition le_val (l : list N) : N := fold_right (fun d a => d + 10 * a) 0 l.

Lemma digits_le_val fuel n : n < 2 ^ N.of_nat fuel -> le_val (digits_le fuel n) = n.
Proof.
  revert n. induction fuel as [|f IH]; intros n Hn.
  - cbn in Hn. cbn. lia.
  - cbn [digits_le]. destruct (n <? 10) eqn:E.
    + cbn. lia.
    + cbn [le_val fold_right]. fold (le_val (digits_le f (n / 10))). rewrite IH.
      * pose proof (N.div_mod' n 10). lia.
      * rewrite Nat2N.inj_succ, N.pow_succ_r' in Hn.
        apply N.div_lt_upper_bound; [lia|]. lia.
Qed.

Lemma digits_le_small fuel n : Forall (fun d => d < 10) (digits_le fuel n).
Proof.
  revert n. induction fuel as [|f IH]; intros n; cbn; [constructor|].
  destruct (n <? 10) eqn:E.
  - constructor; [lia|constructor].
  - constructor; [apply N.mod_lt; lia|apply IH].
Qed.

Lemma digits_le_nonempty fuel n : digits_le (S fuel) n <> [].
Proof. cbn. destruct (n <? 10); discriminate. Qed.

Definition be_digits (n : N) : list N := rev (digits_le (S (N.to_nat (N.log2 n))) n).

Lemma str_of_N_digits n : str_of_N n = map (fun d => 48 + d) (be_digits n).
Proof. unfold str_of_N, be_digits. rewrite map_rev. reflexivity. Qed.

Lemma be_digits_small n : Forall (fun d => d < 10) (be_digits n).
Proof. unfold be_digits. apply Forall_rev, digits_le_small. Qed.

Lemma be_digits_nonempty n : be_digits n <> [].
Proof.
  unfold be_digits. intros H. apply (f_equal (@rev N)) in H. rewrite rev_involutive in H.
  exact (digits_le_nonempty _ _ H).
Qed.

Lemma be_digits_val n :
  fold_left (fun a d => a * 10 + Z.of_N d)%Z (be_digits n) 0%Z = Z.of_N n.
Proof.
  unfold be_digits. rewrite <- fold_left_rev_right, rev_involutive.
  set (l := digits_le _ n).
  assert (Hv : le_val l = n).
  { apply digits_le_val. destruct (N.eq_dec n 0) as [->|Hn]; [cbn; lia|].
    rewrite Nat2N.inj_succ, N2Nat.id. apply N.log2_spec. lia. }
  rewrite <- Hv. clear Hv. unfold le_val. induction l as [|d l IH]; [reflexivity|].
  cbn [fold_right]. rewrite IH. lia.
Qed.

Lemma int_body_digits l : Forall (fun d => d < 10) l -> l <> [] ->
  forall st acc, int_body st acc (map (fun d => 48 + d) l)
                 = Some (fold_left (fun a d => a * 10 + Z.of_N d)%Z l acc).
Proof.
  induction l as [|d l IH]; [congruence|]. intros Hall _ st acc. inversion Hall as [|? ? Hd Hl]; subst.
  cbn [map int_body fold_left].
  assert (Hdig : is_digit (48 + d) = true) by (unfold is_digit; lia).
  rewrite Hdig. replace (48 + d - 48) with d by lia.
  destruct l as [|e l]; [reflexivity|]. apply IH; [exact Hl|discriminate].
Qed.

Lemma digit_not_ws c : is_digit c = true -> is_ws c = false.
Proof. unfold is_digit, is_ws. lia. Qed.

Lemma str_of_N_digit_chars n : forallb is_digit (str_of_N n) = true.
Proof.
  rewrite str_of_N_digits. apply forallb_forall. intros c Hc. apply in_map_iff in Hc.
  destruct Hc as [d [<- Hd]]. pose proof (be_digits_small n) as Hs. rewrite Forall_forall in Hs.
  specialize (Hs d Hd). unfold is_digit. lia.
Qed.

Lemma str_of_N_nows n : forallb (fun c => negb (is_ws c)) (str_of_N n) = true.
Proof.
  pose proof (str_of_N_digit_chars n) as H. rewrite forallb_forall in *. intros c Hc.
  rewrite digit_not_ws; [reflexivity|apply H, Hc].
Qed.

Lemma str_of_N_nonempty n : str_of_N n <> [].
Proof.
  rewrite str_of_N_digits. intros H. apply map_eq_nil in H. exact (be_digits_nonempty n H).
Qed.

Lemma py_int_str_of_N n : py_int (str_of_N n) = Some (Z.of_N n).
Proof.
  unfold py_int. rewrite strip_stripped by (apply nows_stripped, str_of_N_nows).
  pose proof (str_of_N_digit_chars n) as Hd. pose proof (str_of_N_nonempty n) as Hne.
  destruct (str_of_N n) as [|c r] eqn:E; [congruence|].
  cbn in Hd. apply andb_true_iff in Hd. destruct Hd as [Hc _].
  assert (c =? 45 = false) by (unfold is_digit in Hc; lia).
  assert (c =? 43 = false) by (unfold is_digit in Hc; lia).
  rewrite H, H0, <- E, str_of_N_digits.
  rewrite int_body_digits by (auto using be_digits_small, be_digits_nonempty).
  rewrite be_digits_val. reflexivity.
Qed.

Lemma str_of_N_inj a b : str_of_N a = str_of_N b -> a = b.
Proof.
  intros H. pose proof (py_int_str_of_N a) as Ha. rewrite H, py_int_str_of_N in Ha.
  inversion Ha. lia.
Qed.

Lemma str_of_Z_nows z : forallb (fun c => negb (is_ws c)) (str_of_Z z) = true.
Proof.
  unfold str_of_Z. destruct (z <? 0)%Z; [cbn [forallb]; rewrite str_of_N_nows; reflexivity|apply str_of_N_nows].
Qed.

Lemma py_int_str_of_Z z : py_int (str_of_Z z) = Some z.
Proof.
  unfold str_of_Z. destruct (z <? 0)%Z eqn:E; [|rewrite py_int_str_of_N; f_equal; lia].
  unfold py_int. rewrite strip_stripped
    by (apply nows_stripped; cbn [forallb]; rewrite str_of_N_nows; reflexivity).
  rewrite N.eqb_refl, str_of_N_digits.
  rewrite int_body_digits by (auto using be_digits_small, be_digits_nonempty).
  rewrite be_digits_val. cbn. f_equal. lia.
Qed.

Lemma digits_no_char c s : forallb is_digit s = true -> is_digit c = false -> no_char c s = true.
Proof.
  intros Hs Hc. induction s as [|x s IH]; [reflexivity|]. cbn in Hs. apply andb_true_iff in Hs.
  destruct Hs as [Hx Hs]. rewrite no_char_cons, (IH Hs).
  destruct (x =? c) eqn:E; [apply N.eqb_eq in E; subst; congruence|reflexivity].
Qed.

(* ------------------------------------------------------------------ table facts
   (boolean facts over the regenerated constants, by computation) *)
Notation HS := inf_hdr_sep.
Notation AS := inf_ann_sep.
Notation DS := inf_dflt_sep.
Definition nows (s : str) : bool := forallb (fun c => negb (is_ws c)) s.

Lemma hdr_plain : sep_plain HS = true. Proof. vm_compute. reflexivity. Qed.
Lemma ann_plain : sep_plain AS = true. Proof. vm_compute. reflexivity. Qed.
Lemma dflt_plain : sep_plain DS = true. Proof. vm_compute. reflexivity. Qed.
Lemma sep_ha : (HS =? AS) = false. Proof. vm_compute. reflexivity. Qed.
Lemma sep_hd : (HS =? DS) = false. Proof. vm_compute. reflexivity. Qed.
Lemma sep_ad : (AS =? DS) = false. Proof. vm_compute. reflexivity. Qed.
Lemma sep_ah : (AS =? HS) = false. Proof. vm_compute. reflexivity. Qed.
Lemma sep_dh : (DS =? HS) = false. Proof. vm_compute. reflexivity. Qed.
Lemma sep_da : (DS =? AS) = false. Proof. vm_compute. reflexivity. Qed.

Definition basic_names_ok : bool :=
  forallb (fun s => no_seps s && nows s && no_char inf_generic_open s && no_char inf_generic_close s)
          [s_str; s_int; s_float; s_bool; s_list; inf_generic_name]
  && forallb (fun s => no_seps s && nows s) [s_True; s_False; [inf_generic_open]; [inf_generic_close]].
Lemma basic_names_ok_true : basic_names_ok = true. Proof. vm_compute. reflexivity. Qed.

Lemma names_no_open :
  forallb (fun kv : str * N => no_char inf_generic_open (fst kv)) inf_type_names = true
  /\ forallb (fun kv : str * N => no_char inf_generic_open (fst kv)) inf_inner_type_names = true.
Proof. split; vm_compute; reflexivity. Qed.

Lemma lookup_outer :
  lookup inf_type_names [] = Some 0 /\ lookup inf_type_names s_str = Some 0
  /\ lookup inf_type_names s_int = Some 1 /\ lookup inf_type_names s_float = Some 2
  /\ lookup inf_type_names s_bool = Some 3 /\ lookup inf_type_names s_list = Some 4
  /\ lookup inf_type_names inf_generic_name = Some 5.
Proof. repeat split; vm_compute; reflexivity. Qed.

Lemma lookup_inner :
  lookup inf_inner_type_names s_str = Some 0
  /\ lookup inf_inner_type_names s_int = Some 1 /\ lookup inf_inner_type_names s_float = Some 2
  /\ lookup inf_inner_type_names s_bool = Some 3 /\ lookup inf_inner_type_names s_list = Some 4
  /\ lookup inf_inner_type_names inf_generic_name = Some 5.
Proof. repeat split; vm_compute; reflexivity. Qed.

Lemma bool_words : str_to_bool s_True = true /\ str_to_bool s_False = false.
Proof. split; vm_compute; reflexivity. Qed.

Lemma no_seps_app a b : no_seps (a ++ b) = no_seps a && no_seps b.
Proof.
  unfold no_seps. rewrite !no_char_app.
  destruct (no_char HS a), (no_char HS b), (no_char AS a), (no_char AS b), (no_char DS a), (no_char DS b); reflexivity.
Qed.

Lemma nows_app a b : nows (a ++ b) = nows a && nows b.
Proof. apply forallb_app. Qed.

(* ------------------------------------------------------------------ annotations *)
Lemma render_ann_props a :
  no_seps (render_ann a) = true /\ nows (render_ann a) = true.
Proof.
  pose proof basic_names_ok_true as T. unfold basic_names_ok in T.
  cbn [forallb] in T. repeat (apply andb_prop in T; destruct T as [T ?]).
  induction a as [| | | | | |b [IH1 IH2]]; cbn [render_ann];
    try (split; assumption).
  change (inf_generic_name ++ inf_generic_open :: render_ann b ++ [inf_generic_close])
    with (inf_generic_name ++ [inf_generic_open] ++ render_ann b ++ [inf_generic_close]).
  rewrite !no_seps_app, !nows_app, IH1, IH2.
  repeat match goal with H : ?x = true |- context [?x] => rewrite H end.
  split; reflexivity.
Qed.

Lemma lookup_none_char {T} (tbl : list (str * T)) c k :
  forallb (fun kv : str * T => no_char c (fst kv)) tbl = true -> mem_char c k = true ->
  lookup tbl k = None.
Proof.
  intros Ht Hk. induction tbl as [|[k' v] r IH]; [reflexivity|]. cbn in Ht.
  apply andb_prop in Ht. destruct Ht as [Hk' Hr]. cbn [lookup].
  destruct (str_eqb k' k) eqn:E; [|apply IH, Hr].
  apply str_eqb_eq in E. subst k'. unfold no_char in Hk'. rewrite Hk in Hk'. discriminate.
Qed.

Lemma drop_prefix_app p s : drop_prefix p (p ++ s) = Some s.
Proof. induction p as [|a p IH]; cbn; [reflexivity|]. rewrite N.eqb_refl. exact IH. Qed.

Lemma generic_inner_render r :
  generic_inner (inf_generic_name ++ inf_generic_open :: r ++ [inf_generic_close]) = Some r.
Proof.
  unfold generic_inner.
  change (inf_generic_name ++ inf_generic_open :: r ++ [inf_generic_close])
    with (inf_generic_name ++ [inf_generic_open] ++ (r ++ [inf_generic_close])).
  rewrite app_assoc, drop_prefix_app, rev_app_distr. cbn [rev app].
  rewrite N.eqb_refl, rev_involutive. reflexivity.
Qed.

Lemma generic_has_open r :
  mem_char inf_generic_open (inf_generic_name ++ inf_generic_open :: r) = true.
Proof. rewrite mem_char_app. cbn [mem_char]. rewrite N.eqb_refl, orb_true_r. reflexivity. Qed.

Lemma inner_type_render b : forall fuel, (length (render_ann b) < fuel)%nat ->
  inner_type fuel (render_ann b) = Ok (ty_of_ann b).
Proof.
  destruct lookup_inner as (L1 & L2 & L3 & L4 & L5 & L6).
  induction b as [| | | | | |b IH]; intros fuel Hf;
    try (destruct fuel; cbn [inner_type render_ann];
         first [rewrite L1|rewrite L2|rewrite L3|rewrite L4|rewrite L5|rewrite L6]; reflexivity).
  destruct fuel as [|f]; [inversion Hf|].
  cbn [render_ann inner_type].
  rewrite (lookup_none_char _ inf_generic_open) by (first [apply names_no_open|apply generic_has_open]).
  rewrite generic_inner_render, IH; [reflexivity|].
  cbn [render_ann] in Hf. rewrite app_length in Hf. cbn [length] in Hf. rewrite app_length in Hf. lia.
Qed.

Lemma type_from_string_render a : type_from_string (render_ann a) = Ok (ty_of_ann a).
Proof.
  destruct lookup_outer as (_ & L1 & L2 & L3 & L4 & L5 & L6).
  destruct a as [| | | | | |b]; unfold type_from_string; cbn [render_ann];
    try (first [rewrite L1|rewrite L2|rewrite L3|rewrite L4|rewrite L5|rewrite L6]; reflexivity).
  rewrite (lookup_none_char _ inf_generic_open) by (first [apply names_no_open|apply generic_has_open]).
  rewrite generic_inner_render, inner_type_render; [reflexivity|lia].
Qed.

Lemma gvt_ann_none a : get_value_for_type (ty_of_ann a) None = Ok (zero_of_ann a).
Proof. destruct a; reflexivity. Qed.

(* ------------------------------------------------------------------ one annotated column *)
Lemma tfs_empty : type_from_string [] = Ok TStr.
Proof. unfold type_from_string. destruct lookup_outer as (L0 & _). rewrite L0. reflexivity. Qed.

(* what the proofs use about the texts a leaf is rendered with *)
Lemma leaf_type_text l :
  match type_text l with
  | Some t => no_seps t = true /\ nows t = true /\ type_from_string t = Ok (fst (denote_leaf l))
  | None => fst (denote_leaf l) = TStr
  end.
Proof.
  pose proof basic_names_ok_true as T. unfold basic_names_ok in T.
  cbn [forallb] in T. repeat (apply andb_prop in T; destruct T as [T ?]).
  destruct l as [[|] d|d|d|d|a]; cbn [type_text denote_leaf fst];
    try reflexivity;
    try (split; [assumption|split; [assumption|]]).
  - exact (type_from_string_render AStr).
  - exact (type_from_string_render AInt).
  - exact (type_from_string_render AFloat).
  - exact (type_from_string_render ABool).
  - destruct (render_ann_props a) as [P1 P2]. split; [exact P1|split; [exact P2|apply type_from_string_render]].
Qed.

Lemma leaf_ok_full_of l : leaf_ok l = true -> leaf_ok_full l = true.
Proof.
  destruct l as [e [d|]|[z|]|[d|]|[b|]|a]; cbn [leaf_ok leaf_ok_full]; intros H; try reflexivity.
  - apply andb_prop in H. destruct H as [H He]. apply andb_prop in H. destruct H as [Hs _].
    rewrite Hs, He. reflexivity.
  - apply andb_prop in H. destruct H as [H _]. exact H.
Qed.

Lemma leaf_default_text l : leaf_ok_full l = true ->
  match default_text l with
  | Some d => stripped d = true
              /\ (type_text l = None -> no_char AS d = true)
              /\ get_value_for_type (fst (denote_leaf l)) (Some d) = Ok (snd (denote_leaf l))
  | None => get_value_for_type (fst (denote_leaf l)) None = Ok (snd (denote_leaf l))
  end.
Proof.
  destruct l as [e [d|]|[z|]|[d|]|[b|]|a]; cbn [leaf_ok_full default_text denote_leaf fst snd option_map];
    intros Hok; try reflexivity.
  - (* str with default *)
    apply andb_prop in Hok. destruct Hok as [Hs He].
    split; [exact Hs|split; [|reflexivity]].
    destruct e; cbn [type_text]; [discriminate|]. intros _. exact He.
  - (* int *)
    split; [apply nows_stripped, str_of_Z_nows|].
    split; [discriminate|]. cbn [get_value_for_type]. rewrite py_int_str_of_Z. reflexivity.
  - (* float *)
    apply andb_prop in Hok. destruct Hok as [Hf Hs].
    split; [exact Hs|split; [discriminate|]].
    cbn [get_value_for_type]. rewrite Hf. reflexivity.
  - (* bool *)
    pose proof basic_names_ok_true as T. unfold basic_names_ok in T.
    cbn [forallb] in T. repeat (apply andb_prop in T; destruct T as [T ?]).
    destruct bool_words as [BT BF].
    destruct b.
    + split; [apply nows_stripped; assumption|].
      split; [discriminate|]. cbn [get_value_for_type]. rewrite BT. reflexivity.
    + split; [apply nows_stripped; assumption|].
      split; [discriminate|]. cbn [get_value_for_type]. rewrite BF. reflexivity.
  - apply gvt_ann_none.
Qed.

(* in the family of the headline theorem a written default has no header separator *)
Lemma leaf_default_nohs l : leaf_ok l = true ->
  match default_text l with Some d => no_char HS d = true | None => True end.
Proof.
  pose proof basic_names_ok_true as T. unfold basic_names_ok in T.
  cbn [forallb] in T. repeat (apply andb_prop in T; destruct T as [T ?]).
  destruct l as [e [d|]|[z|]|[d|]|[b|]|a]; cbn [leaf_ok default_text option_map]; intros Hok; try exact I.
  - apply andb_prop in Hok. destruct Hok as [Hok _]. apply andb_prop in Hok. tauto.
  - unfold str_of_Z. destruct (z <? 0)%Z.
    + rewrite no_char_cons. rewrite digits_no_char; [|apply str_of_N_digit_chars|vm_compute; reflexivity].
      vm_compute. reflexivity.
    + apply digits_no_char; [apply str_of_N_digit_chars|vm_compute; reflexivity].
  - apply andb_prop in Hok. destruct Hok as [_ Hn].
    unfold no_seps in Hn. apply andb_prop in Hn. destruct Hn as [Hn _]. apply andb_prop in Hn. tauto.
  - assert (HT : no_seps s_True = true) by assumption.
    assert (HF : no_seps s_False = true) by assumption.
    destruct b; [unfold no_seps in HT; apply andb_prop in HT; destruct HT as [HT _]; apply andb_prop in HT; tauto|].
    unfold no_seps in HF. apply andb_prop in HF. destruct HF as [HF _]. apply andb_prop in HF. tauto.
Qed.

Lemma no_seps_proj s : no_seps s = true ->
  no_char HS s = true /\ no_char AS s = true /\ no_char DS s = true.
Proof.
  unfold no_seps. intros H. apply andb_prop in H. destruct H as [H H3].
  apply andb_prop in H. destruct H as [H1 H2]. auto.
Qed.

Lemma ws_no_seps w : all_ws w = true -> no_seps w = true.
Proof.
  intros H. unfold no_seps.
  rewrite (all_ws_no_char _ _ hdr_plain H), (all_ws_no_char _ _ ann_plain H), (all_ws_no_char _ _ dflt_plain H).
  reflexivity.
Qed.

Lemma nows_all_stripped s : nows s = true -> stripped s = true.
Proof. apply nows_stripped. Qed.

Lemma leaf_header_parse p n l :
  pads_ok p = true -> leaf_ok_full l = true -> name_ok n = true ->
  let h := render_leaf p n l in
  get_field_name h = n /\ parse_header_annotations h = Ok (denote_leaf l).
Proof.
  intros Hp Hl Hn h.
  unfold pads_ok in Hp. repeat (apply andb_prop in Hp; destruct Hp as [Hp ?]).
  rename Hp into W0, H3 into W1, H2 into W2, H1 into W3, H0 into W4, H into W5.
  unfold name_ok in Hn. apply andb_prop in Hn. destruct Hn as [Nn Ns].
  set (head := p0 p ++ n ++ p1 p).
  assert (Hhead : no_seps head = true).
  { unfold head. rewrite !no_seps_app, Nn, (ws_no_seps _ W0), (ws_no_seps _ W1). reflexivity. }
  destruct (no_seps_proj _ Hhead) as (HhH & HhA & HhD).
  assert (Hstrip : strip head = n) by (apply strip_padded; assumption).
  pose proof (leaf_type_text l) as TT. pose proof (leaf_default_text l Hl) as DT.
  subst h. unfold render_leaf, get_field_name, parse_header_annotations, infer_type, infer_default_value.
  destruct (type_text l) as [t|]; destruct (default_text l) as [d|].
  - (* type and default *)
    destruct TT as (Tn & Tw & Tt). destruct DT as (Ds & _ & Dv).
    set (tp := p2 p ++ t ++ p3 p). set (dp := p4 p ++ d ++ p5 p).
    assert (Htp : no_seps tp = true).
    { unfold tp. rewrite !no_seps_app, Tn, (ws_no_seps _ W2), (ws_no_seps _ W3). reflexivity. }
    destruct (no_seps_proj _ Htp) as (TpH & TpA & TpD).
    assert (Stp : strip tp = t) by (unfold tp; apply strip_padded; auto using nows_all_stripped).
    assert (Sdp : strip dp = d) by (unfold dp; apply strip_padded; assumption).
    assert (E : p0 p ++ n ++ p1 p ++ (AS :: tp) ++ DS :: dp = head ++ AS :: (tp ++ DS :: dp))
      by (unfold head; repeat (rewrite <- ?app_assoc; cbn [app]); reflexivity).
    rewrite !E. clear E. clearbody head tp dp.
    split.
    + rewrite before_app by exact HhA. rewrite before_none by exact HhD. exact Hstrip.
    + rewrite split_first_app by exact HhA. rewrite before_app by exact TpD.
      rewrite Stp, Tt.
      replace (head ++ AS :: tp ++ DS :: dp) with ((head ++ AS :: tp) ++ DS :: dp)
        by (rewrite <- app_assoc; reflexivity).
      rewrite split_first_app
        by (rewrite no_char_app, no_char_cons, HhD, sep_ad, TpD; reflexivity).
      rewrite Sdp, Dv.
      destruct (denote_leaf l). reflexivity.
  - (* type only *)
    destruct TT as (Tn & Tw & Tt).
    set (tp := p2 p ++ t ++ p3 p).
    assert (Htp : no_seps tp = true).
    { unfold tp. rewrite !no_seps_app, Tn, (ws_no_seps _ W2), (ws_no_seps _ W3). reflexivity. }
    destruct (no_seps_proj _ Htp) as (TpH & TpA & TpD).
    assert (Stp : strip tp = t) by (unfold tp; apply strip_padded; auto using nows_all_stripped).
    assert (E : p0 p ++ n ++ p1 p ++ (AS :: tp) ++ [] = head ++ AS :: tp)
      by (unfold head; rewrite app_nil_r; repeat (rewrite <- ?app_assoc; cbn [app]); reflexivity).
    rewrite !E. clear E. clearbody head tp.
    split.
    + rewrite before_app by exact HhA. rewrite before_none by exact HhD. exact Hstrip.
    + rewrite split_first_app by exact HhA. rewrite before_none by exact TpD.
      rewrite Stp, Tt.
      rewrite split_first_none
        by (rewrite no_char_app, no_char_cons, HhD, sep_ad; exact TpD).
      rewrite DT. destruct (denote_leaf l). reflexivity.
  - (* default only: the default must not contain the annotation separator *)
    destruct DT as (Ds & Da & Dv). specialize (Da eq_refl).
    set (dp := p4 p ++ d ++ p5 p).
    assert (HdpA : no_char AS dp = true).
    { unfold dp. rewrite !no_char_app, Da, (all_ws_no_char _ _ ann_plain W4), (all_ws_no_char _ _ ann_plain W5). reflexivity. }
    assert (Sdp : strip dp = d) by (unfold dp; apply strip_padded; assumption).
    assert (E : p0 p ++ n ++ p1 p ++ [] ++ DS :: dp = head ++ DS :: dp)
      by (unfold head; repeat (rewrite <- ?app_assoc; cbn [app]); reflexivity).
    rewrite !E. clear E. clearbody head dp.
    assert (HA : no_char AS (head ++ DS :: dp) = true)
      by (rewrite no_char_app, no_char_cons, HhA, sep_da, HdpA; reflexivity).
    split.
    + rewrite (before_none AS) by exact HA. rewrite before_app by exact HhD. exact Hstrip.
    + rewrite (split_first_none AS) by exact HA. rewrite tfs_empty.
      rewrite split_first_app by exact HhD. rewrite Sdp.
      rewrite TT in Dv. rewrite Dv. rewrite <- TT. destruct (denote_leaf l). reflexivity.
  - (* plain column *)
    assert (E : p0 p ++ n ++ p1 p ++ [] ++ [] = head)
      by (unfold head; rewrite !app_nil_r; reflexivity).
    rewrite !E. clear E. clearbody head.
    split.
    + rewrite (before_none AS) by exact HhA. rewrite (before_none DS) by exact HhD. exact Hstrip.
    + rewrite (split_first_none AS) by exact HhA. rewrite (split_first_none DS) by exact HhD. rewrite tfs_empty.
      rewrite TT in DT. rewrite DT. rewrite <- TT. destruct (denote_leaf l). reflexivity.
Qed.

(* in the family of the headline theorem a rendered plain column has no header separator at all *)
Lemma leaf_header_nohs p n l :
  pads_ok p = true -> leaf_ok l = true -> name_ok n = true -> no_char HS (render_leaf p n l) = true.
Proof.
  intros Hp Hl Hn.
  unfold pads_ok in Hp. repeat (apply andb_prop in Hp; destruct Hp as [Hp ?]).
  rename Hp into W0, H3 into W1, H2 into W2, H1 into W3, H0 into W4, H into W5.
  unfold name_ok in Hn. apply andb_prop in Hn. destruct Hn as [Nn _].
  apply no_seps_proj in Nn. destruct Nn as (Nh & _ & _).
  pose proof (leaf_type_text l) as TT. pose proof (leaf_default_nohs l Hl) as DH.
  unfold render_leaf. rewrite !no_char_app, Nh.
  rewrite (all_ws_no_char _ _ hdr_plain W0), (all_ws_no_char _ _ hdr_plain W1). cbn [andb].
  apply andb_true_intro. split.
  - destruct (type_text l) as [t|]; [|reflexivity]. destruct TT as (Tn & _ & _).
    apply no_seps_proj in Tn. destruct Tn as (Th & _ & _).
    rewrite no_char_cons, !no_char_app, sep_ah, Th.
    rewrite (all_ws_no_char _ _ hdr_plain W2), (all_ws_no_char _ _ hdr_plain W3). reflexivity.
  - destruct (default_text l) as [d|]; [|reflexivity].
    rewrite no_char_cons, !no_char_app, sep_dh, DH.
    rewrite (all_ws_no_char _ _ hdr_plain W4), (all_ws_no_char _ _ hdr_plain W5). reflexivity.
Qed.

(* ------------------------------------------------------------------ is a header nested? *)
Lemma mem_char_lstrip c s : is_ws c = false -> mem_char c (lstrip s) = mem_char c s.
Proof.
  intros Hc. induction s as [|x s IH]; [reflexivity|]. cbn [lstrip mem_char].
  destruct (is_ws x) eqn:Ex; [|reflexivity]. rewrite IH.
  destruct (x =? c) eqn:E; [apply N.eqb_eq in E; subst; congruence|reflexivity].
Qed.

Lemma mem_char_rstrip c s : is_ws c = false -> mem_char c (rstrip s) = mem_char c s.
Proof.
  intros Hc. induction s as [|x s IH]; [reflexivity|]. rewrite rstrip_cons. cbn [mem_char].
  rewrite <- IH. destruct (rstrip s) as [|y t].
  - cbn [mem_char]. destruct (is_ws x) eqn:Ex; [|cbn [mem_char]; reflexivity].
    cbn [mem_char]. destruct (x =? c) eqn:E; [apply N.eqb_eq in E; subst; congruence|reflexivity].
  - reflexivity.
Qed.

Lemma mem_char_strip c s : is_ws c = false -> mem_char c (strip s) = mem_char c s.
Proof. intros Hc. unfold strip. rewrite mem_char_rstrip, mem_char_lstrip by exact Hc. reflexivity. Qed.

Lemma before_cons_ne (c x : char) (s : str) : (x =? c) = false -> before c (x :: s) = x :: before c s.
Proof.
  intros H. unfold before. cbn [split_first]. rewrite H.
  destruct (split_first c s) as [[a b]|]; reflexivity.
Qed.

Lemma before_keeps_prefix (c : char) (a : str) (x : char) (s : str) :
  no_char c a = true -> (x =? c) = false -> before c (a ++ x :: s) = a ++ x :: before c s.
Proof.
  intros Ha Hx. induction a as [|y a IH]; cbn [app].
  - apply before_cons_ne, Hx.
  - rewrite no_char_cons in Ha. apply andb_prop in Ha. destruct Ha as [Hy Ha]. apply negb_true_iff in Hy.
    rewrite before_cons_ne by exact Hy. rewrite (IH Ha). reflexivity.
Qed.

(* a name followed by the header separator is nested under both behaviours *)
Lemma is_nested_prefixed b n sub : no_seps n = true -> is_nested b (prefix_field n sub) = true.
Proof.
  intros Hn. destruct (no_seps_proj _ Hn) as (Nh & Na & Nd).
  unfold is_nested, prefix_field. destruct b.
  - unfold get_field_name. rewrite mem_char_strip by (apply sep_plain_not_ws, hdr_plain).
    rewrite (before_keeps_prefix AS n HS sub Na sep_ha).
    rewrite (before_keeps_prefix DS n HS _ Nd sep_hd).
    rewrite mem_char_app. cbn [mem_char]. rewrite N.eqb_refl, orb_true_r. reflexivity.
  - rewrite mem_char_app. cbn [mem_char]. rewrite N.eqb_refl, orb_true_r. reflexivity.
Qed.

Lemma hsplit_prefixed b n sub : no_seps n = true -> hsplit b (prefix_field n sub) = Some (n, sub).
Proof.
  intros Hn. unfold hsplit. rewrite is_nested_prefixed by exact Hn.
  unfold prefix_field. apply split_first_app. apply no_seps_proj in Hn. tauto.
Qed.

(* a rendered plain column is not nested: under the field-name behaviour for every default,
   under the whole-header behaviour when the default has no header separator *)
Lemma leaf_header p n l b :
  pads_ok p = true -> leaf_ok_full l = true -> name_ok n = true ->
  (b = true \/ leaf_ok l = true) ->
  let h := render_leaf p n l in
  hsplit b h = None /\ get_field_name h = n /\ parse_header_annotations h = Ok (denote_leaf l).
Proof.
  intros Hp Hl Hn Hb h. destruct (leaf_header_parse p n l Hp Hl Hn) as [Hg Hpa]. fold h in Hg, Hpa.
  split; [|split; assumption].
  unfold hsplit, is_nested. destruct b.
  - rewrite Hg. unfold name_ok in Hn. apply andb_prop in Hn. destruct Hn as [Nn _].
    apply no_seps_proj in Nn. destruct Nn as (Nh & _ & _). unfold no_char in Nh.
    apply negb_true_iff in Nh. rewrite Nh. reflexivity.
  - destruct Hb as [Hb|Hb]; [discriminate|].
    pose proof (leaf_header_nohs p n l Hp Hb Hn) as Hh. fold h in Hh. unfold no_char in Hh.
    apply negb_true_iff in Hh. rewrite Hh. reflexivity.
Qed.
