(* E2 / C09 — the short header `message_text` and a `type` cell with surrounding whitespace.
   Follows the tree through the probed constant cx_sw_strip of the regenerated flow row model
   (translator/tables_row.py: _probe_strip).  Facts and witnesses only. *)
From Coq Require Import List NArith ZArith Bool Lia Arith String Ascii.
From RPFT Require Import Base.Sexp Base.PyStr Base.PyStrFacts Base.Result Base.ODict Gen.Tables Cell.Cell
  Row.Ty Row.RowParse Row.FlowRow Row.ParseFold Row.Encodes Row.EncodesFacts Row.FlowHeaderFacts Row.EncodesExamples.
Import ListNotations.
Local Open Scope N_scope.

(* a string of str.strip() whitespace *)
Definition all_ws (s : str) : bool := forallb is_ws s.

Lemma lstrip_ws_app w s : all_ws w = true -> lstrip (w ++ s) = lstrip s.
Proof.
  induction w as [|c w IH]; cbn; [reflexivity|]. rewrite andb_true_iff. intros [Hc Hw].
  rewrite Hc. apply IH, Hw.
Qed.

Lemma rstrip_ws w : all_ws w = true -> rstrip w = [].
Proof.
  induction w as [|c w IH]; cbn; [reflexivity|]. rewrite andb_true_iff. intros [Hc Hw].
  rewrite (IH Hw), Hc. reflexivity.
Qed.

Lemma rstrip_app_ws s w : all_ws w = true -> rstrip (s ++ w) = rstrip s.
Proof.
  intros Hw. induction s as [|c s IH]; cbn; [apply rstrip_ws, Hw|]. rewrite IH. reflexivity.
Qed.

(* str.strip() removes any run of whitespace characters on either side *)
Lemma strip_pad w1 s w2 : all_ws w1 = true -> all_ws w2 = true -> strip (w1 ++ s ++ w2) = strip s.
Proof.
  intros H1 H2. unfold strip. rewrite lstrip_ws_app by exact H1.
  induction s as [|c s IH].
  - cbn [app lstrip]. replace (lstrip w2) with (lstrip (w2 ++ [])) by (rewrite app_nil_r; reflexivity).
    rewrite lstrip_ws_app by exact H2. reflexivity.
  - cbn [app lstrip]. destruct (is_ws c); [exact IH|]. change (c :: s ++ w2) with ((c :: s) ++ w2).
    apply rstrip_app_ws. exact H2.
Qed.

Lemma oget_app_none_str {V} (a b : list (str * V)) k : oget str_eqb a k = None -> oget str_eqb (a ++ b) k = oget str_eqb b k.
Proof.
  induction a as [|[k' v'] r IH]; cbn [oget app]; [reflexivity|].
  destruct (str_eqb k' k); [discriminate|exact IH].
Qed.

(* ----
   The row parser strips the `type` cell (so `" send_message"` IS the row type send_message under the long
   header).  Whether the short header `message_text` is looked up under the stripped cell too is a PROBED
   constant of the regenerated table (cx_sw_strip): false on a tree that reads the raw cell (finding
   short-header-with-padded-type-cell), true on the repaired tree.  The statement below is DECIDED by it. *)
Definition flow_padded_short : list (str * str) :=
  [(s!"type", s!" send_message"); (s!"message_text", s!"hi"); (s!"from", s!"start")].
Definition flow_padded_long : list (str * str) :=
  [(s!"type", s!" send_message"); (s!"mainarg_message_text", s!"hi"); (s!"from", s!"start")].
Definition flow_unpadded_short : list (str * str) :=
  [(s!"type", s!"send_message"); (s!"message_text", s!"hi"); (s!"from", s!"start")].

(* short header = long header, the row type being the `type` cell UP TO str.strip() *)
Definition short_header_any_padding_full : Prop :=
  forall cells cells', same_row (option_map strip (oget str_eqb cells (cx_sw_column flow_cx))) cells cells' ->
                       flow_parse cells = flow_parse cells'.

Lemma short_header_any_padding_holds : cx_sw_strip flow_cx = true -> short_header_any_padding_full.
Proof.
  intros E cells cells' H. apply short_long_layouts.
  assert (Hk : row_type_key cells = option_map strip (oget str_eqb cells (cx_sw_column flow_cx))).
  { unfold row_type_key, sw_key. rewrite E. destruct (oget str_eqb cells (cx_sw_column flow_cx)); reflexivity. }
  rewrite Hk. exact H.
Qed.

Lemma padded_rows_same_row :
  same_row (option_map strip (oget str_eqb flow_padded_short (cx_sw_column flow_cx))) flow_padded_short flow_padded_long.
Proof. vm_compute. same_row_tac. Qed.

(* on a tree that reads the raw cell: KeyError, whatever else the tables say *)
Lemma padded_short_raw : cx_sw_strip flow_cx = false -> flow_parse flow_padded_short = Err EKey.
Proof.
  intros E. unfold flow_parse, parse_row. change (rm_ctx flow_row_model) with flow_ctx.
  assert (H1 : ctx_h2f flow_ctx flow_padded_short s!"type" = Ok s!"type") by (vm_compute; reflexivity).
  assert (H2 : ctx_h2f flow_ctx flow_padded_short s!"message_text" = Err EKey).
  { change s!"message_text" with (cx_sw_header flow_cx).
    apply (message_text_header_unknown flow_padded_short s!" send_message"); [vm_compute; reflexivity|].
    unfold sw_key. rewrite E. vm_compute. reflexivity. }
  unfold rekey. unfold flow_padded_short at 2. cbn [foldM fst snd]. rewrite H1. cbn [bind]. rewrite H2. reflexivity.
Qed.

Lemma padded_long_ok : is_ok (flow_parse flow_padded_long) = true /\ flow_parse flow_padded_long = flow_parse flow_unpadded_short.
Proof. split; vm_compute; reflexivity. Qed.

Theorem short_header_any_padding_decided :
  if cx_sw_strip flow_cx then short_header_any_padding_full else ~ short_header_any_padding_full.
Proof.
  destruct (cx_sw_strip flow_cx) eqn:E.
  - apply short_header_any_padding_holds. exact E.
  - intros H. pose proof (H _ _ padded_rows_same_row) as Hs. rewrite (padded_short_raw E) in Hs.
    destruct padded_long_ok as [Hok _]. rewrite <- Hs in Hok. discriminate.
Qed.

(* the witness rows themselves: the padded row under the long header always parses, to the row of the
   unpadded `type` cell; under the short header it does so too iff the cell is stripped, and is a KeyError
   otherwise *)
Example padded_type_witness :
  is_ok (flow_parse flow_padded_long) = true
  /\ flow_parse flow_padded_long = flow_parse flow_unpadded_short
  /\ flow_parse flow_padded_short = if cx_sw_strip flow_cx then flow_parse flow_padded_long else Err EKey.
Proof.
  destruct padded_long_ok as [H1 H2]. split; [exact H1|]. split; [exact H2|].
  destruct (cx_sw_strip flow_cx) eqn:E.
  - apply (short_header_any_padding_holds E). exact padded_rows_same_row.
  - exact (padded_short_raw E).
Qed.

(* ANY whitespace before and after ANY row type of the table: on a tree that strips, the short header
   `message_text` and the long form it stands for give the same row (whatever the other cells are) *)
Theorem padded_type_any_whitespace w1 w2 rt f v pre post :
  cx_sw_strip flow_cx = true ->
  all_ws w1 = true -> all_ws w2 = true ->
  oget str_eqb (cx_sw_table flow_cx) rt = Some f ->
  oget str_eqb pre (cx_sw_column flow_cx) = None ->
  let ty_cell := (cx_sw_column flow_cx, w1 ++ rt ++ w2) in
  flow_parse (pre ++ ty_cell :: (cx_sw_header flow_cx, v) :: post) = flow_parse (pre ++ ty_cell :: (f, v) :: post).
Proof.
  intros E H1 H2 Hf Hpre ty_cell. apply short_long_layouts.
  assert (Hstr : strip (w1 ++ rt ++ w2) = rt).
  { rewrite (strip_pad w1 rt w2 H1 H2). apply (table_keys_stripped rt f). apply oget_in. exact Hf. }
  assert (Hk : row_type_key (pre ++ ty_cell :: (cx_sw_header flow_cx, v) :: post) = Some rt).
  { unfold row_type_key. rewrite (oget_app_none_str _ _ _ Hpre). unfold ty_cell. cbn [oget]. rewrite str_eqb_refl.
    cbn [option_map]. unfold sw_key. rewrite E. f_equal. exact Hstr. }
  rewrite Hk. unfold same_row. apply Forall2_app.
  - clear. induction pre as [|c pre IH]; constructor; [split; [reflexivity|apply HE_same]|exact IH].
  - constructor; [split; [reflexivity|apply HE_same]|]. constructor.
    + split; [reflexivity|]. apply (HE_main_long (Some rt) rt f); [reflexivity|exact Hf].
    + clear. induction post as [|c post IH]; constructor; [split; [reflexivity|apply HE_same]|exact IH].
Qed.

Example padded_type_any_whitespace_nonvacuous :
  all_ws s!"  " = true /\ all_ws [9; 160; 12288] = true
  /\ oget str_eqb (cx_sw_table flow_cx) s!"go_to" = Some s!"mainarg_destination_row_ids"
  /\ is_ok (flow_parse ([(s!"row_id", s!"7")] ++ (s!"type", s!"  " ++ s!"go_to" ++ [9; 160; 12288])
                         :: (s!"mainarg_destination_row_ids", s!"3") :: [(s!"from", s!"start")])) = true.
Proof. repeat split; vm_compute; reflexivity. Qed.

