(* E2 — how RowParser's column loop acts on ONE slot of the output tree.
   The column loop (parse_cols) folds find_assign over the columns.  The facts here say that the
   final content of a slot (a field of a dict, an element of a list) depends only on the
   SUBSEQUENCE of columns that address it:
     fold_model : dict   — slot k sees exactly [sub_key k cols]
     fold_list  : list   — slot i sees exactly [sub_idx i cols], provided first occurrences of the
                           indices come in order (the parser's `assert len(output_field) == index`)
   Everything about column permutations in C09 rests on these two lemmas. *)
From Coq Require Import List NArith ZArith Bool Lia Arith.
From RPFT Require Import Base.Sexp Base.PyStr Base.PyStrFacts Base.Result Base.ODict Gen.Tables Cell.Cell
  Row.Ty Row.RowParse.
Import ListNotations.
Local Open Scope N_scope.

(* a column after header processing: the path that is still to be walked + the cell *)
Definition col := (list str * cellv)%type.

Definition slot (d : dict) (k : str) : out :=
  match dget d k with Some x => x | None => ONone end.

(* what one column does to the slot it addresses (cur = present content, ONone = nothing yet) *)
Definition slot_step (ct : ty) (cur : out) (pc : col) : res out :=
  match fst pc with
  | [] => leaf_assign ct (snd pc) cur
  | _ :: _ => find_assign (fst pc) ct (init_slot ct cur) (snd pc)
  end.

Definition fold_slot (ct : ty) (cols : list col) (cur : out) : res out :=
  foldM (slot_step ct) cols cur.

(* the column loop at a node of type t *)
Definition fa (t : ty) (o : out) (pc : col) : res out := find_assign (fst pc) t o (snd pc).

Definition field_ty (fields : list field) (k : str) : option ty :=
  field_lookup (fun tf _ => tf) fields k.

(* ---- generic ---- *)
Lemma foldM_app {E S X} (f : X -> S -> result E X) l1 l2 a :
  foldM f (l1 ++ l2) a = match foldM f l1 a with Ok b => foldM f l2 b | Err e => Err e end.
Proof.
  revert a. induction l1 as [|x l1 IH]; intros a; cbn; [reflexivity|].
  destruct (f a x); [apply IH|reflexivity].
Qed.

Lemma str_eqb_spec a b : str_eqb a b = true <-> a = b.
Proof. apply str_eqb_eq. Qed.

Lemma str_eqb_sym a b : str_eqb a b = str_eqb b a.
Proof.
  destruct (str_eqb a b) eqn:E1; destruct (str_eqb b a) eqn:E2; try reflexivity.
  - apply str_eqb_eq in E1. subst. rewrite str_eqb_refl in E2. discriminate.
  - apply str_eqb_eq in E2. subst. rewrite str_eqb_refl in E1. discriminate.
Qed.

Lemma dget_dset_same d k v : dget (dset d k v) k = Some v.
Proof. apply (oget_oset_same str_eqb str_eqb_spec). Qed.

Lemma dget_dset_other d k v k2 : k2 <> k -> dget (dset d k v) k2 = dget d k2.
Proof. apply (oget_oset_other str_eqb str_eqb_spec). Qed.

Lemma slot_dset_same d k v : slot (dset d k v) k = v.
Proof. unfold slot. rewrite dget_dset_same. reflexivity. Qed.

Lemma slot_dset_other d k v k2 : k2 <> k -> slot (dset d k v) k2 = slot d k2.
Proof. intros H. unfold slot. rewrite dget_dset_other by exact H. reflexivity. Qed.

(* ---- one step at a model node ---- *)
Lemma find_assign_model name rest fields h2f f2h d c ct :
  field_ty fields (remap_get h2f name) = Some ct ->
  find_assign (name :: rest) (TModel fields h2f f2h) (ODict d) c =
  (do new <- slot_step ct (slot d (remap_get h2f name)) (rest, c);
   Ok (ODict (dset d (remap_get h2f name) new))).
Proof.
  intros H. unfold field_ty in H. cbn [find_assign]. rewrite H.
  unfold slot_step, slot. cbn [fst snd]. destruct rest; reflexivity.
Qed.

(* the columns that address key k, with the head of their path removed *)
Fixpoint sub_key (h2f : remap) (k : str) (cols : list col) : list col :=
  match cols with
  | [] => []
  | (name :: rest, c) :: r =>
    if str_eqb (remap_get h2f name) k then (rest, c) :: sub_key h2f k r else sub_key h2f k r
  | ([], _) :: r => sub_key h2f k r
  end.

(* every column names a field of the model *)
Definition heads_ok (fields : list field) (h2f : remap) (cols : list col) : Prop :=
  Forall (fun pc : col => match fst pc with
                          | name :: _ => field_ty fields (remap_get h2f name) <> None
                          | [] => False
                          end) cols.

Lemma fold_model fields h2f f2h cols : forall d,
  heads_ok fields h2f cols ->
  (forall k ct, field_ty fields k = Some ct ->
                exists o, fold_slot ct (sub_key h2f k cols) (slot d k) = Ok o) ->
  exists d',
    foldM (fa (TModel fields h2f f2h)) cols (ODict d) = Ok (ODict d')
    /\ (forall k ct, field_ty fields k = Some ct ->
                     fold_slot ct (sub_key h2f k cols) (slot d k) = Ok (slot d' k))
    /\ (forall k, sub_key h2f k cols = [] -> dget d' k = dget d k)
    /\ (forall k, sub_key h2f k cols <> [] -> dget d' k = Some (slot d' k)).
Proof.
  induction cols as [|[p c] cols IH]; intros d Hh Hs.
  - exists d. cbn. repeat split; try reflexivity. intros k Hk. congruence.
  - inversion Hh as [|x l Hhd Htl]; subst. cbn [fst] in Hhd.
    destruct p as [|name rest]; [contradiction|].
    set (key := remap_get h2f name) in *.
    destruct (field_ty fields key) as [ct|] eqn:Ect; [|congruence].
    destruct (Hs key ct Ect) as [ofin Hfin].
    cbn [sub_key] in Hfin. fold key in Hfin. rewrite str_eqb_refl in Hfin.
    unfold fold_slot in Hfin. cbn [foldM] in Hfin.
    destruct (slot_step ct (slot d key) (rest, c)) as [new|e] eqn:Estep; [|discriminate].
    assert (Hs' : forall k ct0, field_ty fields k = Some ct0 ->
              exists o, fold_slot ct0 (sub_key h2f k cols) (slot (dset d key new) k) = Ok o).
    { intros k ct0 Hk. destruct (str_eqb key k) eqn:Ek.
      - apply str_eqb_eq in Ek. subst k. rewrite slot_dset_same.
        assert (ct0 = ct) by congruence. subst ct0. exists ofin. exact Hfin.
      - assert (k <> key) by (intros ->; rewrite str_eqb_refl in Ek; discriminate).
        rewrite slot_dset_other by assumption.
        destruct (Hs k ct0 Hk) as [o Ho]. cbn [sub_key] in Ho. fold key in Ho. rewrite Ek in Ho.
        exists o. exact Ho. }
    destruct (IH (dset d key new) Htl Hs') as [d' [Hf [Hsl [Hemp Hne]]]].
    exists d'. split; [|split; [|split]].
    + cbn [foldM]. unfold fa at 1. cbn [fst snd].
      rewrite (find_assign_model name rest fields h2f f2h d c ct Ect). fold key.
      rewrite Estep. cbn [bind]. exact Hf.
    + intros k ct0 Hk. cbn [sub_key]. fold key. destruct (str_eqb key k) eqn:Ek.
      * apply str_eqb_eq in Ek. subst k. assert (ct0 = ct) by congruence. subst ct0.
        unfold fold_slot. cbn [foldM]. rewrite Estep.
        specialize (Hsl key ct Ect). rewrite slot_dset_same in Hsl. exact Hsl.
      * assert (k <> key) by (intros ->; rewrite str_eqb_refl in Ek; discriminate).
        specialize (Hsl k ct0 Hk). rewrite slot_dset_other in Hsl by assumption. exact Hsl.
    + intros k Hk. cbn [sub_key] in Hk. fold key in Hk. destruct (str_eqb key k) eqn:Ek; [discriminate|].
      assert (k <> key) by (intros ->; rewrite str_eqb_refl in Ek; discriminate).
      rewrite (Hemp k Hk). apply dget_dset_other. assumption.
    + intros k Hk. cbn [sub_key] in Hk. fold key in Hk. destruct (str_eqb key k) eqn:Ek.
      * apply str_eqb_eq in Ek. subst k.
        destruct (sub_key h2f key cols) eqn:Esub.
        -- rewrite (Hemp key Esub). rewrite dget_dset_same. unfold slot. rewrite (Hemp key Esub).
           rewrite dget_dset_same. reflexivity.
        -- apply Hne. rewrite Esub. discriminate.
      * apply Hne. exact Hk.
Qed.

(* ---- one step at a list node ---- *)
Definition head_idx (name : str) : option nat :=
  match parse_int name with
  | Some z => if (1 <=? z)%Z then Some (Z.to_nat (z - 1)) else None
  | None => None
  end.

Lemma set_nth_length {X} k (x : X) l : length (set_nth k x l) = length l.
Proof. revert k. induction l as [|y l IH]; intros [|k]; cbn; try reflexivity. rewrite IH. reflexivity. Qed.

Lemma nth_set_nth_same {X} k (x : X) l d : (k < length l)%nat -> nth k (set_nth k x l) d = x.
Proof.
  revert k. induction l as [|y l IH]; intros [|k] H; cbn in *; try lia; [reflexivity|].
  apply IH. lia.
Qed.

Lemma nth_set_nth_other {X} k j (x : X) l d : j <> k -> nth j (set_nth k x l) d = nth j l d.
Proof.
  revert k j. induction l as [|y l IH]; intros [|k] [|j] H; cbn; try reflexivity; try congruence.
  apply IH. congruence.
Qed.

Lemma set_nth_same {X} k (l : list X) d : set_nth k (nth k l d) l = l.
Proof.
  revert k. induction l as [|y l IH]; intros [|k]; cbn; try reflexivity. rewrite IH. reflexivity.
Qed.

Lemma locate_index_old l name i :
  head_idx name = Some i -> (i < length l)%nat -> locate_index l name = Ok (l, Some i).
Proof.
  unfold head_idx, locate_index. intros H Hi.
  destruct (parse_int name) as [z|]; [|discriminate].
  destruct (1 <=? z)%Z eqn:E1; [|discriminate]. injection H as <-.
  apply Z.leb_le in E1.
  destruct (Z.of_nat (length l) <=? z - 1)%Z eqn:E2; [apply Z.leb_le in E2; lia|].
  destruct (0 <=? z - 1)%Z eqn:E3; [reflexivity|apply Z.leb_gt in E3; lia].
Qed.

Lemma locate_index_new l name :
  head_idx name = Some (length l) -> locate_index l name = Ok (l ++ [ONone], Some (length l)).
Proof.
  unfold head_idx, locate_index. intros H.
  destruct (parse_int name) as [z|]; [|discriminate].
  destruct (1 <=? z)%Z eqn:E1; [|discriminate]. injection H as H.
  apply Z.leb_le in E1.
  destruct (Z.of_nat (length l) <=? z - 1)%Z eqn:E2; [|apply Z.leb_gt in E2; lia].
  destruct (Z.of_nat (length l) =? z - 1)%Z eqn:E3; [reflexivity|apply Z.eqb_neq in E3; lia].
Qed.

Lemma find_assign_list_at name rest t l l' k c :
  is_list_ty t = true ->
  locate_index l name = Ok (l', Some k) -> (k < length l')%nat ->
  find_assign (name :: rest) t (OList l) c =
  (do new <- slot_step (child_ty t) (nth k l' ONone) (rest, c); Ok (OList (set_nth k new l'))).
Proof.
  intros Ht Hloc Hk.
  assert (Hgoal :
    (do lk <- locate_index l name;
     let l0 := fst lk in
     match rest with
     | [] => do r <- assign_value (child_ty t) (leaf_value (child_ty t) c);
             match r, snd lk with
             | None, _ => Ok (OList l0)
             | Some v, Some k0 => Ok (OList (set_nth k0 v l0))
             | Some _, None => Err EIndex
             end
     | _ :: _ => match snd lk with
                 | None => Err EIndex
                 | Some k0 => do new <- find_assign rest (child_ty t) (init_slot (child_ty t) (nth k0 l0 ONone)) c;
                              Ok (OList (set_nth k0 new l0))
                 end
     end) =
    (do new <- slot_step (child_ty t) (nth k l' ONone) (rest, c); Ok (OList (set_nth k new l')))).
  { rewrite Hloc. cbn [bind fst snd]. unfold slot_step. cbn [fst snd].
    destruct rest as [|r1 rest'].
    - unfold leaf_assign. destruct (assign_value (child_ty t) (leaf_value (child_ty t) c)) as [[o|]|e]; cbn [bind]; try reflexivity.
      rewrite set_nth_same. reflexivity.
    - reflexivity. }
  destruct t; try discriminate; cbn [find_assign]; exact Hgoal.
Qed.

(* the columns that address element i (0-based), head removed *)
Definition onat_eqb (a : option nat) (i : nat) : bool :=
  match a with Some j => Nat.eqb j i | None => false end.

Fixpoint sub_idx (i : nat) (cols : list col) : list col :=
  match cols with
  | [] => []
  | (name :: rest, c) :: r =>
    if onat_eqb (head_idx name) i then (rest, c) :: sub_idx i r else sub_idx i r
  | ([], _) :: r => sub_idx i r
  end.

(* first occurrences of the indices come in order: scanning with current length m, a column
   addresses an existing element or exactly the next one.  Result: the final length. *)
Fixpoint idx_scan (m : nat) (cols : list col) : option nat :=
  match cols with
  | [] => Some m
  | (name :: _, _) :: r =>
    match head_idx name with
    | Some i => if Nat.ltb i m then idx_scan m r else if Nat.eqb i m then idx_scan (S m) r else None
    | None => None
    end
  | ([], _) :: _ => None
  end.

Lemma idx_scan_ge cols : forall m n, idx_scan m cols = Some n -> (m <= n)%nat.
Proof.
  induction cols as [|[p c] cols IH]; intros m n H; cbn [idx_scan] in H.
  - injection H as <-. lia.
  - destruct p as [|name rest]; [discriminate|].
    destruct (head_idx name) as [i|]; [|discriminate].
    destruct (Nat.ltb i m); [apply IH, H|].
    destruct (Nat.eqb i m); [apply IH in H; lia|discriminate].
Qed.

Lemma nth_app_none (l : list out) i : (length l <= i)%nat -> nth i (l ++ [ONone]) ONone = ONone.
Proof.
  intros H. destruct (Nat.eq_dec i (length l)) as [->|Hne].
  - rewrite app_nth2 by lia. rewrite Nat.sub_diag. reflexivity.
  - apply nth_overflow. rewrite app_length. cbn. lia.
Qed.

Lemma nth_app_onone (l : list out) i : nth i (l ++ [ONone]) ONone = nth i l ONone.
Proof.
  destruct (Nat.lt_ge_cases i (length l)) as [H|H].
  - apply app_nth1. exact H.
  - rewrite nth_app_none by exact H. symmetry. apply nth_overflow. exact H.
Qed.

Lemma fold_list t cols : is_list_ty t = true -> forall l n,
  idx_scan (length l) cols = Some n ->
  (forall i, (i < n)%nat -> exists o, fold_slot (child_ty t) (sub_idx i cols) (nth i l ONone) = Ok o) ->
  exists l',
    foldM (fa t) cols (OList l) = Ok (OList l') /\ length l' = n
    /\ (forall i, (i < n)%nat -> fold_slot (child_ty t) (sub_idx i cols) (nth i l ONone) = Ok (nth i l' ONone)).
Proof.
  intros Ht. induction cols as [|[p c] cols IH]; intros l n Hscan Hs.
  - cbn in Hscan. injection Hscan as <-. exists l. cbn. repeat split; reflexivity.
  - cbn [idx_scan] in Hscan. destruct p as [|name rest]; [discriminate|].
    destruct (head_idx name) as [i|] eqn:Ehd; [|discriminate].
    (* common continuation once the located list l0 (same slots as l) and index i are known *)
    assert (Hcommon : forall l0,
      (i < length l0)%nat -> (forall j, nth j l0 ONone = nth j l ONone) ->
      locate_index l name = Ok (l0, Some i) ->
      idx_scan (length l0) cols = Some n ->
      exists l', foldM (fa t) ((name :: rest, c) :: cols) (OList l) = Ok (OList l') /\ length l' = n
        /\ (forall j, (j < n)%nat -> fold_slot (child_ty t) (sub_idx j ((name :: rest, c) :: cols)) (nth j l ONone)
                                    = Ok (nth j l' ONone))).
    { intros l0 Hi Hsame Hloc Hscan0.
      assert (Hin : (i < n)%nat) by (apply idx_scan_ge in Hscan0; lia).
      destruct (Hs i Hin) as [ofin Hfin]. cbn [sub_idx] in Hfin. rewrite Ehd in Hfin.
      cbn [onat_eqb] in Hfin. rewrite Nat.eqb_refl in Hfin. unfold fold_slot in Hfin. cbn [foldM] in Hfin.
      destruct (slot_step (child_ty t) (nth i l ONone) (rest, c)) as [new|e] eqn:Estep; [|discriminate].
      set (l1 := set_nth i new l0).
      assert (Hlen1 : length l1 = length l0) by apply set_nth_length.
      assert (Hs1 : forall j, (j < n)%nat ->
                exists o, fold_slot (child_ty t) (sub_idx j cols) (nth j l1 ONone) = Ok o).
      { intros j Hj. destruct (Nat.eq_dec j i) as [->|Hne].
        - unfold l1. rewrite nth_set_nth_same by exact Hi. exists ofin. exact Hfin.
        - unfold l1. rewrite nth_set_nth_other by exact Hne. rewrite Hsame.
          destruct (Hs j Hj) as [o Ho]. cbn [sub_idx] in Ho. rewrite Ehd in Ho. cbn [onat_eqb] in Ho.
          replace (Nat.eqb i j) with false in Ho by (symmetry; apply Nat.eqb_neq; congruence).
          exists o. exact Ho. }
      rewrite <- Hlen1 in Hscan0.
      destruct (IH l1 n Hscan0 Hs1) as [l' [Hf [Hlen Hsl]]].
      exists l'. split; [|split; [exact Hlen|]].
      - cbn [foldM]. unfold fa at 1. cbn [fst snd].
        rewrite (find_assign_list_at name rest t l l0 i c Ht Hloc Hi).
        rewrite Hsame. rewrite Estep. cbn [bind]. exact Hf.
      - intros j Hj. cbn [sub_idx]. rewrite Ehd. cbn [onat_eqb].
        destruct (Nat.eq_dec j i) as [->|Hne].
        + rewrite Nat.eqb_refl. unfold fold_slot. cbn [foldM]. rewrite Estep.
          specialize (Hsl i Hj). unfold l1 in Hsl. rewrite nth_set_nth_same in Hsl by exact Hi. exact Hsl.
        + replace (Nat.eqb i j) with false by (symmetry; apply Nat.eqb_neq; congruence).
          specialize (Hsl j Hj). unfold l1 in Hsl. rewrite nth_set_nth_other in Hsl by exact Hne.
          rewrite Hsame in Hsl. exact Hsl. }
    destruct (Nat.ltb i (length l)) eqn:Elt.
    + apply Nat.ltb_lt in Elt.
      apply (Hcommon l Elt (fun j => eq_refl) (locate_index_old l name i Ehd Elt) Hscan).
    + destruct (Nat.eqb i (length l)) eqn:Eeq; [|discriminate]. apply Nat.eqb_eq in Eeq. subst i.
      apply (Hcommon (l ++ [ONone])).
      * rewrite app_length. cbn. lia.
      * intros j. apply nth_app_onone.
      * apply locate_index_new. exact Ehd.
      * rewrite app_length. cbn. rewrite Nat.add_1_r. exact Hscan.
Qed.

(* ---- mapR ---- *)
Lemma mapR_nth {E X T} (f : X -> result E T) (l : list X) (vs : list T) dx dv :
  length l = length vs ->
  (forall i, (i < length vs)%nat -> f (nth i l dx) = Ok (nth i vs dv)) ->
  mapR f l = Ok vs.
Proof.
  revert vs. induction l as [|x l IH]; intros [|v vs] Hlen H; cbn in *; try discriminate; [reflexivity|].
  rewrite (H O) by lia. rewrite (IH vs); [reflexivity|lia|].
  intros i Hi. apply (H (S i)). lia.
Qed.

Lemma mapR_Forall2 {E X T} (f : X -> result E T) (l : list X) (vs : list T) :
  Forall2 (fun x v => f x = Ok v) l vs -> mapR f l = Ok vs.
Proof. induction 1 as [|x v l vs H _ IH]; cbn; [reflexivity|]. rewrite H, IH. reflexivity. Qed.
