(* E2 / C09 — short and long flow-sheet headers (FlowRowModel.header_name_to_field_name_with_context).
   Finite facts over the REGENERATED tables (Gen/Tables.v -> Row/FlowRow.v: flow_ctx), lifted to
   all rows: a short header and the long form it stands for re-key identically, whatever the
   rest of the row is; hence rows that differ only by short/long spelling parse identically. *)
From Coq Require Import List NArith ZArith Bool Lia.
From RPFT Require Import Base.Sexp Base.PyStr Base.PyStrFacts Base.Result Base.ODict Gen.Tables Cell.Cell
  Row.Ty Row.RowParse Row.RekeyFacts Row.FlowRow Row.ParseFold Row.Encodes Row.EncodesFacts.
Import ListNotations.
Local Open Scope N_scope.

Definition empty_cx : ctxremap := Build_ctxremap [] [] [] [] false.
Definition flow_cx : ctxremap := match flow_ctx with Some c => c | None => empty_cx end.

(* a long form is a fixed point of the re-keying: it is neither a short header nor the
   row-type dependent header *)
Definition long_fixed (cx : ctxremap) (l : str) : bool :=
  match oget str_eqb (cx_basic cx) l with
  | None => negb (str_eqb l (cx_sw_header cx))
  | Some _ => false
  end.

(* the domain of the finite proof: EVERY entry of the regenerated tables
   (cx_basic: short header -> long form; cx_sw_table: row type -> field for `message_text`),
   and the column the row type is read from *)
Definition short_long_ok : bool :=
  match flow_ctx with
  | Some cx =>
    forallb (fun sl => long_fixed cx (snd sl)) (cx_basic cx)
    && forallb (fun rf => long_fixed cx (snd rf)) (cx_sw_table cx)
    && long_fixed cx (cx_sw_column cx)
    && negb (is_nil (cx_basic cx)) && negb (is_nil (cx_sw_table cx))
    (* the row-type dependent header is not itself a short header *)
    && negb (ocontains str_eqb (cx_basic cx) (cx_sw_header cx))
    (* no long form is the column the row type is read from *)
    && forallb (fun sl => negb (str_eqb (snd sl) (cx_sw_column cx))) (cx_basic cx)
    && forallb (fun rf => negb (str_eqb (snd rf) (cx_sw_column cx))) (cx_sw_table cx)
    (* the row types of the table carry no surrounding whitespace themselves *)
    && forallb (fun rf => str_eqb (strip (fst rf)) (fst rf)) (cx_sw_table cx)
  | None => false
  end.

Lemma short_long_ok_true : short_long_ok = true.
Proof. vm_compute. reflexivity. Qed.

Lemma flow_ctx_some : flow_ctx = Some flow_cx.
Proof. vm_compute. reflexivity. Qed.

Lemma long_fixed_h2f cx cells l : long_fixed cx l = true -> ctx_h2f (Some cx) cells l = Ok l.
Proof.
  unfold long_fixed, ctx_h2f. destruct (oget str_eqb (cx_basic cx) l); [discriminate|].
  destruct (str_eqb l (cx_sw_header cx)); [discriminate|reflexivity].
Qed.

Lemma tables_facts :
  (forall s l, In (s, l) (cx_basic flow_cx) -> long_fixed flow_cx l = true)
  /\ (forall r f, In (r, f) (cx_sw_table flow_cx) -> long_fixed flow_cx f = true)
  /\ long_fixed flow_cx (cx_sw_column flow_cx) = true
  /\ oget str_eqb (cx_basic flow_cx) (cx_sw_header flow_cx) = None
  /\ (forall s l, In (s, l) (cx_basic flow_cx) -> str_eqb l (cx_sw_column flow_cx) = false)
  /\ (forall r f, In (r, f) (cx_sw_table flow_cx) -> str_eqb f (cx_sw_column flow_cx) = false).
Proof.
  pose proof short_long_ok_true as H. unfold short_long_ok in H.
  rewrite flow_ctx_some in H.
  apply andb_prop in H; destruct H as [H _].
  apply andb_prop in H; destruct H as [H H8]. apply andb_prop in H; destruct H as [H H7].
  apply andb_prop in H; destruct H as [H H6]. apply andb_prop in H; destruct H as [H H5].
  apply andb_prop in H; destruct H as [H H4]. apply andb_prop in H; destruct H as [H H3].
  apply andb_prop in H; destruct H as [H1 H2].
  split; [|split; [|split; [|split; [|split]]]].
  - intros s l Hin. rewrite forallb_forall in H1. apply (H1 (s, l) Hin).
  - intros r f Hin. rewrite forallb_forall in H2. apply (H2 (r, f) Hin).
  - exact H3.
  - unfold ocontains in H6. destruct (oget str_eqb (cx_basic flow_cx) (cx_sw_header flow_cx)); [discriminate|reflexivity].
  - intros s l Hin. rewrite forallb_forall in H7. specialize (H7 (s, l) Hin). cbn [snd] in H7.
    destruct (str_eqb l (cx_sw_column flow_cx)); [discriminate|reflexivity].
  - intros r f Hin. rewrite forallb_forall in H8. specialize (H8 (r, f) Hin). cbn [snd] in H8.
    destruct (str_eqb f (cx_sw_column flow_cx)); [discriminate|reflexivity].
Qed.

(* 4a. a short header and its long form re-key identically, in every row (hence for every row type) *)
Theorem short_long_headers cells short long :
  oget str_eqb (cx_basic flow_cx) short = Some long ->
  ctx_h2f flow_ctx cells short = Ok long /\ ctx_h2f flow_ctx cells long = Ok long.
Proof.
  intros H. rewrite flow_ctx_some. split.
  - unfold ctx_h2f. rewrite H. reflexivity.
  - apply long_fixed_h2f. apply (proj1 tables_facts short long). apply oget_in. exact H.
Qed.

(* the row types of the table are their own lookup keys, on either tree *)
Lemma table_keys_stripped r f : In (r, f) (cx_sw_table flow_cx) -> strip r = r.
Proof.
  pose proof short_long_ok_true as H. unfold short_long_ok in H. rewrite flow_ctx_some in H.
  apply andb_prop in H; destruct H as [_ H]. rewrite forallb_forall in H.
  intros Hin. specialize (H (r, f) Hin). cbn [fst] in H. apply str_eqb_eq in H. exact H.
Qed.

Lemma sw_key_table r f : oget str_eqb (cx_sw_table flow_cx) r = Some f -> sw_key flow_cx r = r.
Proof.
  intros H. unfold sw_key. destruct (cx_sw_strip flow_cx); [|reflexivity].
  apply (table_keys_stripped r f). apply oget_in. exact H.
Qed.

(* 4b. `message_text` stands for the main argument of the row's type: for EVERY row type of the table.
   [sw_key flow_cx rt] is the text the row-type cell is looked up under: the cell itself on a tree
   that reads it raw, the stripped cell on a tree that reads it as the row parser does *)
Theorem message_text_header cells rt f :
  oget str_eqb cells (cx_sw_column flow_cx) = Some rt ->
  oget str_eqb (cx_sw_table flow_cx) (sw_key flow_cx rt) = Some f ->
  ctx_h2f flow_ctx cells (cx_sw_header flow_cx) = Ok f /\ ctx_h2f flow_ctx cells f = Ok f.
Proof.
  intros Hrt Hf. rewrite flow_ctx_some. destruct tables_facts as [_ [Hsw [_ [Hnb _]]]]. split.
  - unfold ctx_h2f. rewrite Hnb, str_eqb_refl, Hrt, Hf. reflexivity.
  - apply long_fixed_h2f. apply (Hsw (sw_key flow_cx rt) f). apply oget_in. exact Hf.
Qed.

(* ... and a row type that is not in the table (under the key it is looked up with) is a KeyError *)
Lemma message_text_header_unknown cells rt :
  oget str_eqb cells (cx_sw_column flow_cx) = Some rt ->
  oget str_eqb (cx_sw_table flow_cx) (sw_key flow_cx rt) = None ->
  ctx_h2f flow_ctx cells (cx_sw_header flow_cx) = Err EKey.
Proof.
  intros Hrt Hf. rewrite flow_ctx_some. destruct tables_facts as [_ [_ [_ [Hnb _]]]].
  unfold ctx_h2f. rewrite Hnb, str_eqb_refl, Hrt, Hf. reflexivity.
Qed.

(* ---- rows that differ only in the spelling of headers ---- *)
Inductive hdr_equiv (rt : option str) : str -> str -> Prop :=
| HE_same h : hdr_equiv rt h h
| HE_short_long s l : oget str_eqb (cx_basic flow_cx) s = Some l -> hdr_equiv rt s l
| HE_long_short s l : oget str_eqb (cx_basic flow_cx) s = Some l -> hdr_equiv rt l s
| HE_short_short s s' l :
    oget str_eqb (cx_basic flow_cx) s = Some l -> oget str_eqb (cx_basic flow_cx) s' = Some l -> hdr_equiv rt s s'
| HE_main_long r f :
    rt = Some r -> oget str_eqb (cx_sw_table flow_cx) r = Some f -> hdr_equiv rt (cx_sw_header flow_cx) f
| HE_long_main r f :
    rt = Some r -> oget str_eqb (cx_sw_table flow_cx) r = Some f -> hdr_equiv rt f (cx_sw_header flow_cx).

(* the row type a row is re-keyed under *)
Definition row_type_key (cells : list (str * str)) : option str :=
  option_map (sw_key flow_cx) (oget str_eqb cells (cx_sw_column flow_cx)).

Lemma ctx_h2f_ext cx cells cells' h :
  oget str_eqb cells (cx_sw_column cx) = oget str_eqb cells' (cx_sw_column cx) ->
  ctx_h2f (Some cx) cells h = ctx_h2f (Some cx) cells' h.
Proof. intros H. unfold ctx_h2f. rewrite H. reflexivity. Qed.

Lemma hdr_equiv_h2f cells cells' h h' :
  oget str_eqb cells' (cx_sw_column flow_cx) = oget str_eqb cells (cx_sw_column flow_cx) ->
  hdr_equiv (row_type_key cells) h h' ->
  ctx_h2f flow_ctx cells h = ctx_h2f flow_ctx cells' h'.
Proof.
  intros Hty HE. unfold row_type_key in HE.
  destruct (oget str_eqb cells (cx_sw_column flow_cx)) as [rt0|] eqn:Ert0; cbn [option_map] in HE.
  2:{ inversion HE as [h0|s l Hs|s l Hs|s s' l Hs Hs'|r f Hr Hf|r f Hr Hf]; subst; try discriminate.
      - rewrite flow_ctx_some. apply ctx_h2f_ext. rewrite Hty, Ert0. reflexivity.
      - rewrite (proj1 (short_long_headers cells h h' Hs)), (proj2 (short_long_headers cells' h h' Hs)). reflexivity.
      - rewrite (proj2 (short_long_headers cells h' h Hs)), (proj1 (short_long_headers cells' h' h Hs)). reflexivity.
      - rewrite (proj1 (short_long_headers cells h l Hs)), (proj1 (short_long_headers cells' h' l Hs')). reflexivity. } inversion HE as [h0|s l Hs|s l Hs|s s' l Hs Hs'|r f Hr Hf|r f Hr Hf]; subst.
  - rewrite flow_ctx_some. apply ctx_h2f_ext. rewrite Hty, Ert0. reflexivity.
  - rewrite (proj1 (short_long_headers cells h h' Hs)), (proj2 (short_long_headers cells' h h' Hs)). reflexivity.
  - rewrite (proj2 (short_long_headers cells h' h Hs)), (proj1 (short_long_headers cells' h' h Hs)). reflexivity.
  - rewrite (proj1 (short_long_headers cells h l Hs)), (proj1 (short_long_headers cells' h' l Hs')). reflexivity.
  - injection Hr as Hr. rewrite <- Hr in Hf.
    rewrite (proj1 (message_text_header cells rt0 h' Ert0 Hf)).
    rewrite (proj2 (message_text_header cells' rt0 h' Hty Hf)). reflexivity.
  - injection Hr as Hr. rewrite <- Hr in Hf.
    rewrite (proj2 (message_text_header cells rt0 h Ert0 Hf)).
    rewrite (proj1 (message_text_header cells' rt0 h Hty Hf)). reflexivity.
Qed.

(* an equivalent spelling never touches the column the row type is read from *)
Lemma hdr_equiv_type rt h h' :
  hdr_equiv rt h h' -> str_eqb h (cx_sw_column flow_cx) = str_eqb h' (cx_sw_column flow_cx).
Proof.
  destruct tables_facts as [Hb [Hsw [Hty [Hnb [Hbl Hswl]]]]].
  assert (Hshort : forall s l, oget str_eqb (cx_basic flow_cx) s = Some l -> str_eqb s (cx_sw_column flow_cx) = false).
  { intros s l Hs. destruct (str_eqb s (cx_sw_column flow_cx)) eqn:E; [|reflexivity].
    apply str_eqb_eq in E. subst s. unfold long_fixed in Hty. rewrite Hs in Hty. discriminate. }
  assert (Hmain : str_eqb (cx_sw_header flow_cx) (cx_sw_column flow_cx) = false).
  { unfold long_fixed in Hty. destruct (oget str_eqb (cx_basic flow_cx) (cx_sw_column flow_cx)); [discriminate|].
    rewrite str_eqb_sym. destruct (str_eqb (cx_sw_column flow_cx) (cx_sw_header flow_cx)); [discriminate|reflexivity]. }
  intros HE. inversion HE as [h0|s l Hs|s l Hs|s s' l Hs Hs'|r f Hr Hf|r f Hr Hf]; subst.
  - reflexivity.
  - rewrite (Hshort _ _ Hs), (Hbl h h' (oget_in _ _ _ Hs)). reflexivity.
  - rewrite (Hshort _ _ Hs), (Hbl h' h (oget_in _ _ _ Hs)). reflexivity.
  - rewrite (Hshort _ _ Hs), (Hshort _ _ Hs'). reflexivity.
  - rewrite Hmain, (Hswl r h' (oget_in _ _ _ Hf)). reflexivity.
  - rewrite Hmain, (Hswl r h (oget_in _ _ _ Hf)). reflexivity.
Qed.

Definition same_row (rt : option str) (cells cells' : list (str * str)) : Prop :=
  Forall2 (fun a b : str * str => snd a = snd b /\ hdr_equiv rt (fst a) (fst b)) cells cells'.

Lemma same_row_type rt cells cells' :
  same_row rt cells cells' ->
  oget str_eqb cells' (cx_sw_column flow_cx) = oget str_eqb cells (cx_sw_column flow_cx).
Proof.
  induction 1 as [|[h x] [h' x'] l l' [Hv HE] _ IH]; [reflexivity|]. cbn [fst snd] in *. subst x'.
  cbn [oget]. rewrite (hdr_equiv_type rt h h' HE). rewrite IH. reflexivity.
Qed.

Lemma rekey_congr (F F' : str -> res str) l l' : 
  Forall2 (fun a b : str * str => snd a = snd b /\ F (fst a) = F' (fst b)) l l' ->
  forall acc,
  foldM (fun acc kv => do k <- F (fst kv); Ok (rekey_put acc k (snd kv))) l acc =
  foldM (fun acc kv => do k <- F' (fst kv); Ok (rekey_put acc k (snd kv))) l' acc.
Proof.
  induction 1 as [|a b l l' [Hv HF] _ IH]; intros acc; [reflexivity|].
  cbn [foldM]. rewrite HF, Hv. destruct (F' (fst b)); cbn [bind]; [apply IH|reflexivity].
Qed.

(* 4c. two rows that differ only in short/long spelling of headers (cells in the same order,
   same contents) are re-keyed to the same row, hence parse to the same result — for EVERY
   row, well-formed or not *)
Theorem short_long_rekey cells cells' :
  same_row (row_type_key cells) cells cells' ->
  rekey flow_ctx cells = rekey flow_ctx cells'.
Proof.
  intros H. unfold rekey. apply rekey_congr.
  pose proof (same_row_type _ _ _ H) as Hty.
  eapply Forall2_impl; [|exact H]. cbn beta. intros a b [Hv HE]. split; [exact Hv|].
  apply hdr_equiv_h2f; assumption.
Qed.

Theorem short_long_layouts cells cells' :
  same_row (row_type_key cells) cells cells' ->
  flow_parse cells = flow_parse cells'.
Proof.
  intros H. unfold flow_parse, parse_row. change (rm_ctx flow_row_model) with flow_ctx.
  rewrite (short_long_rekey cells cells' H). reflexivity.
Qed.
