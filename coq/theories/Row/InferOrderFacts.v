(* C18 — facts about [infer] on ARBITRARY header lists (not only rendered ones):
   the fuel of [infer] always suffices; the first loop of model_from_headers_rec treats plain
   and dotted columns independently, so the inferred model depends only on (the plain columns
   in order, the order of first appearance of the dotted prefixes, the sub-headers of each
   prefix in order); the field order of an inferred class follows first occurrence.
   Proofs only; the definitions here are descriptions used in the statements. *)
From Coq Require Import List NArith ZArith Bool Lia ZifyBool.
From RPFT Require Import Base.Sexp Base.PyStr Base.Result Base.ODict Gen.Tables
  Row.InferTy Row.Infer Row.InferFacts Row.InferMainFacts.
Import ListNotations.
Local Open Scope N_scope.

(* ================================================================== 1. fuel *)
Lemma drop_prefix_length p : forall s r, drop_prefix p s = Some r -> length s = (length p + length r)%nat.
Proof.
  induction p as [|a p IH]; intros s r; cbn [drop_prefix].
  - intros H. inversion H. reflexivity.
  - destruct s as [|b s]; [discriminate|]. destruct (a =? b); [|discriminate].
    intros H. cbn [length]. rewrite (IH _ _ H). reflexivity.
Qed.

Lemma generic_inner_length s i : generic_inner s = Some i -> (length i < length s)%nat.
Proof.
  unfold generic_inner. destruct (drop_prefix _ s) as [r|] eqn:E; [|discriminate].
  apply drop_prefix_length in E. destruct (rev r) as [|c m] eqn:Er; [discriminate|].
  destruct (c =? inf_generic_close); [|discriminate]. intros H. inversion H; subst i.
  rewrite rev_length. apply (f_equal (@length char)) in Er. rewrite rev_length in Er. cbn [length] in Er. lia.
Qed.

Lemma inner_type_fuel fuel : forall s, (length s < fuel)%nat -> inner_type fuel s <> Err EOutOfFuel.
Proof.
  induction fuel as [|f IH]; intros s Hs; [lia|]. cbn [inner_type].
  destruct (lookup inf_inner_type_names s); [discriminate|].
  destruct (generic_inner s) as [i|] eqn:E; [|discriminate].
  apply generic_inner_length in E.
  specialize (IH i ltac:(lia)). destruct (inner_type f i) as [t|e]; [discriminate|]. congruence.
Qed.

Lemma type_from_string_fuel s : type_from_string s <> Err EOutOfFuel.
Proof.
  unfold type_from_string. destruct (lookup inf_type_names s); [discriminate|].
  destruct (generic_inner s) as [i|]; [|discriminate].
  pose proof (inner_type_fuel (S (length i)) i ltac:(lia)) as H.
  destruct (inner_type (S (length i)) i) as [t|e]; [discriminate|]. congruence.
Qed.

Lemma get_value_for_type_fuel t v : get_value_for_type t v <> Err EOutOfFuel.
Proof.
  destruct t; cbn [get_value_for_type]; try discriminate; destruct v as [s|]; try discriminate.
  - destruct (py_int s); discriminate.
  - destruct (is_float_lit s); discriminate.
Qed.

Lemma parse_header_annotations_fuel h : parse_header_annotations h <> Err EOutOfFuel.
Proof.
  unfold parse_header_annotations, infer_type, infer_default_value.
  set (ts := match split_first AS h with Some (_, suffix) => _ | None => _ end).
  assert (Hts : ts <> Err EOutOfFuel).
  { subst ts. destruct (split_first AS h) as [[a b]|]; apply type_from_string_fuel. }
  destruct ts as [t|e]; [|congruence].
  destruct (split_first DS h) as [[a b]|].
  - pose proof (get_value_for_type_fuel t (Some (strip b))) as H.
    destruct (get_value_for_type t (Some (strip b))); [discriminate|congruence].
  - pose proof (get_value_for_type_fuel t None) as H.
    destruct (get_value_for_type t None); [discriminate|congruence].
Qed.

Lemma foldM_err {E S A} (P : E -> Prop) (f : A -> S -> result E A) l :
  (forall a x e, In x l -> f a x = Err e -> P e) -> forall a e, foldM f l a = Err e -> P e.
Proof.
  induction l as [|x l IH]; intros Hf a e; cbn [foldM]; [discriminate|].
  destruct (f a x) as [a'|e'] eqn:Efx.
  - apply IH. intros a0 x0 e0 Hin. apply Hf. right. exact Hin.
  - intros H. inversion H; subst. apply (Hf a x e (or_introl eq_refl) Efx).
Qed.

(* ------------------------------------------------------------------ either behaviour of the tree *)
Lemma mem_char_before c c' s : mem_char c (before c' s) = true -> mem_char c s = true.
Proof.
  induction s as [|x s IH]; [intros H; exact H|]. unfold before in *. cbn [split_first].
  destruct (x =? c') eqn:E; [cbn; discriminate|].
  destruct (split_first c' s) as [[a r]|]; cbn [mem_char] in *.
  - destruct (x =? c); [reflexivity|]. cbn [orb]. exact IH.
  - intros H. exact H.
Qed.

Lemma mem_char_split_first c s : mem_char c s = true -> exists a r, split_first c s = Some (a, r).
Proof.
  induction s as [|x s IH]; cbn [mem_char split_first]; [discriminate|].
  destruct (x =? c); [intros _; eexists; eexists; reflexivity|]. cbn [orb]. intros H.
  destruct (IH H) as (a & r & ->). eexists; eexists; reflexivity.
Qed.

Lemma is_nested_in_header bn h : is_nested bn h = true -> mem_char HS h = true.
Proof.
  unfold is_nested. destruct bn; [|intros H; exact H]. unfold get_field_name.
  rewrite mem_char_strip by (apply sep_plain_not_ws, hdr_plain).
  intros H. apply mem_char_before in H. apply mem_char_before in H. exact H.
Qed.

Lemma hsplit_some bn h a r : hsplit bn h = Some (a, r) -> split_first HS h = Some (a, r).
Proof. unfold hsplit. destruct (is_nested bn h); [intros H; exact H|discriminate]. Qed.

Lemma hsplit_nested bn h : is_nested bn h = match hsplit bn h with Some _ => true | None => false end.
Proof.
  unfold hsplit. destruct (is_nested bn h) eqn:E; [|reflexivity].
  destruct (mem_char_split_first _ _ (is_nested_in_header bn h E)) as (a & r & ->). reflexivity.
Qed.

Section Behaviour.
Variable bn : bool.
Notation step := (step_at bn).
Notation infer_rec := (infer_rec_at bn).
Notation infer := (infer_at bn).

Lemma step_fuel acc h : step acc h <> Err EOutOfFuel.
Proof.
  destruct acc as [F C]. unfold step_at. destruct (hsplit bn h) as [[a b]|]; [discriminate|].
  pose proof (parse_header_annotations_fuel h) as H.
  destruct (parse_header_annotations h); [discriminate|congruence].
Qed.

(* every list of sub-headers collected by the first loop is strictly shorter than the longest header *)
Definition subs_below (M : nat) (C : sdict (list str)) : Prop :=
  Forall (fun kl : str * list str => (max_len (snd kl) < M)%nat) C.

Lemma sget_Forall {T} (Q : T -> Prop) (C : sdict T) k v :
  Forall (fun kl : str * T => Q (snd kl)) C -> sget C k = Some v -> Q v.
Proof.
  unfold sget. induction C as [|[k' v'] C IH]; cbn [oget]; [discriminate|]. intros HF.
  inversion HF as [|? ? Hv HC]; subst. destruct (str_eqb k' k).
  - intros H. inversion H; subst. exact Hv.
  - apply IH, HC.
Qed.

Lemma sset_Forall {T} (Q : T -> Prop) (C : sdict T) k v :
  Forall (fun kl : str * T => Q (snd kl)) C -> Q v -> Forall (fun kl : str * T => Q (snd kl)) (sset C k v).
Proof.
  unfold sset. induction C as [|[k' v'] C IH]; cbn [oset]; intros HF Hv.
  - constructor; [exact Hv|constructor].
  - inversion HF as [|? ? Hv' HC]; subst. destruct (str_eqb k' k); constructor; auto.
Qed.

Lemma max_len_snoc l h : max_len (l ++ [h]) = Nat.max (max_len l) (length h).
Proof. rewrite max_len_app. unfold max_len at 2. cbn [fold_right]. lia. Qed.

Lemma step_subs_below M F C h F' C' :
  (length h <= M)%nat -> subs_below M C -> step (F, C) h = Ok (F', C') -> subs_below M C'.
Proof.
  intros Hh HC. unfold step_at. destruct (hsplit bn h) as [[a b]|] eqn:E.
  - intros H. inversion H; subst. apply hsplit_some, split_first_length in E.
    apply (sset_Forall (fun l => (max_len l < M)%nat)); [exact HC|]. rewrite max_len_snoc.
    assert (Hold : (max_len match sget C a with Some l => l | None => [] end < M)%nat).
    { destruct (sget C a) as [l|] eqn:Eg; [apply (sget_Forall (fun l => (max_len l < M)%nat) C a l HC Eg)|].
      cbn. lia. }
    lia.
  - destruct (parse_header_annotations h); [|discriminate]. intros H. inversion H; subst. exact HC.
Qed.

Lemma length_le_max_len hs h : In h hs -> (length h <= max_len hs)%nat.
Proof.
  induction hs as [|x hs IH]; [intros []|]. unfold max_len in *. cbn [fold_right].
  intros [->|H]; [lia|]. specialize (IH H). lia.
Qed.

Lemma fold_step_subs_below M hs : forall F C F' C',
  (forall h, In h hs -> (length h <= M)%nat) -> subs_below M C ->
  foldM step hs (F, C) = Ok (F', C') -> subs_below M C'.
Proof.
  induction hs as [|h hs IH]; intros F C F' C' Hl HC; cbn [foldM].
  - intros H. inversion H; subst. exact HC.
  - destruct (step (F, C) h) as [[F1 C1]|e] eqn:E; [|discriminate].
    apply IH; [intros h' Hin; apply Hl; right; exact Hin|].
    apply (step_subs_below M F C h F1 C1); [apply Hl; left; reflexivity|exact HC|exact E].
Qed.

Lemma py_setitem_err out k v e : py_setitem out k v = Err e -> e = EIndex.
Proof. unfold py_setitem. destruct (_ || _)%bool; [|discriminate]. intros H. inversion H. reflexivity. Qed.

Lemma finish_fuel F : finish F <> Err EOutOfFuel.
Proof.
  unfold finish. destruct (rev (int_entries F)) as [|[z [t d]] r]; [discriminate|].
  destruct (dict_to_list _) as [l|e] eqn:E; [discriminate|].
  unfold dict_to_list in E.
  apply (foldM_err (fun e => e = EIndex)) in E; [subst e; discriminate|].
  intros a x e0 _. apply py_setitem_err.
Qed.

Lemma infer_rec_fuel fuel : forall hs, (max_len hs < fuel)%nat -> infer_rec fuel hs <> Err EOutOfFuel.
Proof.
  induction fuel as [|f IH]; intros hs Hf; [lia|]. cbn [infer_rec_at].
  destruct (foldM step hs ([], [])) as [[F C]|e] eqn:E1.
  - assert (HC : subs_below (max_len hs) C).
    { apply (fold_step_subs_below (max_len hs) hs [] [] F C); [apply length_le_max_len|constructor|exact E1]. }
    match goal with |- context [foldM ?g C F] => destruct (foldM g C F) as [F'|e] eqn:E2 end.
    + apply finish_fuel.
    + intros H. inversion H; subst e.
      apply (foldM_err (fun e => e <> EOutOfFuel)) in E2; [congruence|].
      intros a [k l] e Hin. cbn [snd fst]. unfold subs_below in HC. rewrite Forall_forall in HC.
      specialize (HC _ Hin). cbn [snd] in HC.
      specialize (IH l ltac:(lia)). destruct (infer_rec f l); [discriminate|]. congruence.
  - intros H. inversion H; subst e.
    apply (foldM_err (fun e => e <> EOutOfFuel)) in E1; [congruence|].
    intros a x e _ Hs Heq. subst e. exact (step_fuel a x Hs).
Qed.

(* the fuel of [infer] suffices on every header list whatsoever *)
Theorem infer_at_never_out_of_fuel hs : infer hs <> Err EOutOfFuel.
Proof. unfold infer_at. apply infer_rec_fuel. lia. Qed.

(* ================================================================== 2. plain and dotted columns are independent *)
Notation is_dotted := (is_nested bn).
Notation plain_of := (Infer.plain_of bn).
Notation dotted_of := (Infer.dotted_of bn).
Notation stable_partition := (Infer.stable_partition bn).
Notation pairs_of := (Infer.pairs_of bn).

Definition step_plain (F : sdict model) (h : str) : result ierr (sdict model) :=
  match parse_header_annotations h with
  | Err e => Err e
  | Ok m => Ok (sset F (get_field_name h) m)
  end.
Definition add_pair (C : sdict (list str)) (p : str * str) : sdict (list str) :=
  sset C (fst p) ((match sget C (fst p) with Some l => l | None => [] end) ++ [snd p]).

Lemma split_first_dotted h : is_dotted h = match hsplit bn h with Some _ => true | None => false end.
Proof. apply hsplit_nested. Qed.

Lemma fold_step_split hs : forall F C,
  foldM step hs (F, C)
  = match foldM step_plain (plain_of hs) F with
    | Err e => Err e
    | Ok F' => Ok (F', fold_left add_pair (pairs_of hs) C)
    end.
Proof.
  induction hs as [|h hs IH]; intros F C; [reflexivity|].
  cbn [foldM]. unfold plain_of, pairs_of. cbn [filter flat_map]. fold (plain_of hs). fold (pairs_of hs).
  rewrite split_first_dotted. unfold step_at at 1.
  destruct (hsplit bn h) as [[a b]|] eqn:E; cbn [negb app].
  - rewrite IH. cbn [fold_left]. reflexivity.
  - cbn [foldM].
    change (step_plain F h) with (match parse_header_annotations h with
                                  | Err e => @Err ierr (sdict model) e
                                  | Ok m => Ok (sset F (get_field_name h) m)
                                  end).
    destruct (parse_header_annotations h) as [m|e]; [|reflexivity].
    apply IH.
Qed.

Lemma max_len_partition hs : max_len hs = Nat.max (max_len (plain_of hs)) (max_len (dotted_of hs)).
Proof.
  induction hs as [|h hs IH]; [reflexivity|]. unfold plain_of, dotted_of. cbn [filter].
  fold (plain_of hs). fold (dotted_of hs).
  destruct (is_dotted h); cbn [negb]; unfold max_len in *; cbn [fold_right]; lia.
Qed.

Lemma pairs_of_dotted hs : pairs_of (dotted_of hs) = pairs_of hs.
Proof.
  induction hs as [|h hs IH]; [reflexivity|]. unfold dotted_of, pairs_of. cbn [filter flat_map].
  fold (dotted_of hs). fold (pairs_of hs). rewrite split_first_dotted.
  destruct (hsplit bn h) as [[a b]|] eqn:E.
  - cbn [flat_map]. rewrite E. fold (pairs_of (dotted_of hs)). rewrite IH. reflexivity.
  - exact IH.
Qed.

(* the inferred model is a function of the plain columns (in order) and the dotted columns (in order) *)
Theorem infer_plain_dotted hs1 hs2 :
  plain_of hs1 = plain_of hs2 -> dotted_of hs1 = dotted_of hs2 -> infer hs1 = infer hs2.
Proof.
  intros Hp Hd. unfold infer_at. rewrite (max_len_partition hs1), (max_len_partition hs2), Hp, Hd.
  cbn [infer_rec_at]. rewrite !fold_step_split, Hp.
  rewrite <- (pairs_of_dotted hs1), <- (pairs_of_dotted hs2), Hd. reflexivity.
Qed.

Lemma filter_filter_same {A} (f : A -> bool) l : filter f (filter f l) = filter f l.
Proof.
  induction l as [|x l IH]; [reflexivity|]. cbn [filter]. destruct (f x) eqn:E; [|exact IH].
  cbn [filter]. rewrite E, IH. reflexivity.
Qed.

Lemma filter_filter_neg {A} (f : A -> bool) l : filter f (filter (fun x => negb (f x)) l) = [].
Proof.
  induction l as [|x l IH]; [reflexivity|]. cbn [filter]. destruct (f x) eqn:E; cbn [negb]; [exact IH|].
  cbn [filter]. rewrite E. exact IH.
Qed.

Lemma filter_neg_filter {A} (f : A -> bool) l : filter (fun x => negb (f x)) (filter f l) = [].
Proof.
  induction l as [|x l IH]; [reflexivity|]. cbn [filter]. destruct (f x) eqn:E; [|exact IH].
  cbn [filter]. rewrite E. exact IH.
Qed.

Theorem infer_partition hs : infer (stable_partition hs) = infer hs.
Proof.
  apply infer_plain_dotted; unfold stable_partition, plain_of, dotted_of; rewrite filter_app.
  - rewrite (filter_filter_same (fun h => negb (is_dotted h))), filter_neg_filter, app_nil_r. reflexivity.
  - rewrite filter_filter_neg, filter_filter_same. reflexivity.
Qed.

(* ================================================================== 3. any sufficient fuel gives the same answer *)
Lemma foldM_ext_in {E S A} (f g : A -> S -> result E A) l :
  (forall a x, In x l -> f a x = g a x) -> forall a, foldM f l a = foldM g l a.
Proof.
  induction l as [|x l IH]; intros H a; [reflexivity|]. cbn [foldM].
  rewrite (H a x (or_introl eq_refl)). destruct (g a x); [|reflexivity].
  apply IH. intros a0 x0 Hin. apply H. right. exact Hin.
Qed.

Lemma infer_rec_fuel_irrelevant f1 : forall f2 hs,
  (max_len hs < f1)%nat -> (max_len hs < f2)%nat -> infer_rec f1 hs = infer_rec f2 hs.
Proof.
  induction f1 as [|f1 IH]; intros f2 hs H1 H2; [lia|]. destruct f2 as [|f2]; [lia|].
  cbn [infer_rec_at]. destruct (foldM step hs ([], [])) as [[F C]|e] eqn:E1; [|reflexivity].
  assert (HC : subs_below (max_len hs) C).
  { apply (fold_step_subs_below (max_len hs) hs [] [] F C); [apply length_le_max_len|constructor|exact E1]. }
  match goal with
  | |- match foldM ?g1 C F with _ => _ end = match foldM ?g2 C F with _ => _ end =>
    rewrite (foldM_ext_in g1 g2 C); [reflexivity|]
  end.
  intros a [k l] Hin. cbn [fst snd]. unfold subs_below in HC. rewrite Forall_forall in HC.
  specialize (HC _ Hin). cbn [snd] in HC. rewrite (IH f2 l) by lia. reflexivity.
Qed.

Lemma infer_any_fuel hs fuel : (max_len hs < fuel)%nat -> infer hs = infer_rec fuel hs.
Proof. intros H. unfold infer_at. apply infer_rec_fuel_irrelevant; lia. Qed.

(* ================================================================== 4. what the dotted columns contribute *)
Notation prefixes := (Infer.prefixes bn).
Notation subs_of := (Infer.subs_of bn).

Lemma str_eqb_neq a b : a <> b -> str_eqb a b = false.
Proof. intros H. destruct (str_eqb a b) eqn:E; [apply str_eqb_eq in E; contradiction|reflexivity]. Qed.

Lemma str_in_sget {T} (d : sdict T) k : str_in k (map fst d) = match sget d k with Some _ => true | None => false end.
Proof.
  unfold sget. induction d as [|[k' v] d IH]; [reflexivity|]. cbn [map fst str_in oget].
  destruct (str_eqb k' k); [reflexivity|]. exact IH.
Qed.

Lemma keys_sset {T} (d : sdict T) k v : map fst (sset d k v) = add_key (map fst d) k.
Proof.
  unfold add_key. rewrite str_in_sget. destruct (sget d k) eqn:E.
  - apply (okeys_oset_in str_eqb). unfold sget in E. congruence.
  - apply (okeys_oset_new str_eqb). exact E.
Qed.

Lemma keys_add_pairs ps : forall C, map fst (fold_left add_pair ps C) = add_keys (map fst C) (map fst ps).
Proof.
  induction ps as [|p ps IH]; intros C; [reflexivity|]. cbn [fold_left map]. unfold add_keys. cbn [fold_left].
  rewrite IH. unfold add_pair. rewrite keys_sset. reflexivity.
Qed.

Definition lookup_spec (C : sdict (list str)) (ps : list (str * str)) (k : str) : option (list str) :=
  match sget C k with
  | Some l => Some (l ++ subs_for k ps)
  | None => match subs_for k ps with [] => None | l => Some l end
  end.

Lemma sget_add_pairs ps : forall C k, sget (fold_left add_pair ps C) k = lookup_spec C ps k.
Proof.
  induction ps as [|[a b] ps IH]; intros C k.
  - unfold lookup_spec, subs_for. cbn [fold_left filter map]. destruct (sget C k); [rewrite app_nil_r|]; reflexivity.
  - cbn [fold_left]. rewrite IH. unfold lookup_spec, add_pair, subs_for. cbn [fst snd filter].
    destruct (str_eqb a k) eqn:E.
    + apply str_eqb_eq in E. subst a. unfold sget, sset.
      rewrite (oget_oset_same str_eqb str_eqb_eq). cbn [map snd].
      destruct (oget str_eqb C k); [rewrite <- app_assoc|]; reflexivity.
    + unfold sget, sset. rewrite (oget_oset_other str_eqb str_eqb_eq)
        by (intros ->; rewrite str_eqb_refl in E; discriminate).
      reflexivity.
Qed.

Lemma nodup_add_pairs ps : forall C, NoDup (map fst C) -> NoDup (map fst (fold_left add_pair ps C)).
Proof.
  induction ps as [|p ps IH]; intros C H; [exact H|]. cbn [fold_left]. apply IH.
  unfold add_pair, sset. apply (oset_nodup str_eqb str_eqb_eq). exact H.
Qed.

Lemma sdict_ext {T} (d1 : sdict T) : forall d2,
  NoDup (map fst d1) -> map fst d1 = map fst d2 -> (forall k, sget d1 k = sget d2 k) -> d1 = d2.
Proof.
  induction d1 as [|[k v] d1 IH]; intros [|[k2 v2] d2] Hnd Hk Hg; try discriminate; [reflexivity|].
  cbn [map fst] in Hk. inversion Hk as [[Hk1 Hk2]]. subst k2.
  cbn [map fst] in Hnd. inversion Hnd as [|? ? Hnotin Hnd']; subst.
  pose proof (Hg k) as Hgk. unfold sget in Hgk. cbn [oget] in Hgk. rewrite str_eqb_refl in Hgk.
  inversion Hgk; subst v2. f_equal. apply IH; [exact Hnd'|exact Hk2|].
  intros k'. destruct (str_eqb k k') eqn:E.
  - apply str_eqb_eq in E. subst k'.
    assert (H1 : sget d1 k = None) by (apply sget_none_notin; exact Hnotin).
    assert (H2 : sget d2 k = None) by (apply sget_none_notin; rewrite <- Hk2; exact Hnotin).
    rewrite H1, H2. reflexivity.
  - specialize (Hg k'). unfold sget in *. cbn [oget] in Hg. rewrite E in Hg. exact Hg.
Qed.

(* the dictionary of sub-headers is determined by the order of first appearance of the
   prefixes and by the sub-headers of each prefix in order *)
Lemma complex_determined ps1 ps2 :
  first_occ (map fst ps1) = first_occ (map fst ps2) ->
  (forall k, subs_for k ps1 = subs_for k ps2) ->
  fold_left add_pair ps1 [] = fold_left add_pair ps2 [].
Proof.
  intros Hk Hs. apply sdict_ext.
  - apply nodup_add_pairs. constructor.
  - rewrite !keys_add_pairs. exact Hk.
  - intros k. rewrite !sget_add_pairs. unfold lookup_spec. rewrite Hs. reflexivity.
Qed.

(* the full-strength order fact: the inferred model is a function of
   (the plain columns in order, the dotted prefixes in order of first appearance,
    the sub-headers of each prefix in order) *)
Theorem infer_partition_invariant hs1 hs2 :
  plain_of hs1 = plain_of hs2 ->
  prefixes hs1 = prefixes hs2 ->
  (forall k, subs_of k hs1 = subs_of k hs2) ->
  infer hs1 = infer hs2.
Proof.
  intros Hp Hk Hs.
  rewrite (infer_any_fuel hs1 (S (Nat.max (max_len hs1) (max_len hs2)))) by lia.
  rewrite (infer_any_fuel hs2 (S (Nat.max (max_len hs1) (max_len hs2)))) by lia.
  cbn [infer_rec_at]. rewrite !fold_step_split, Hp.
  rewrite (complex_determined (pairs_of hs1) (pairs_of hs2) Hk Hs). reflexivity.
Qed.

(* ================================================================== 5. field order follows first occurrence *)
Lemma in_add_keys l : forall seen x, In x (add_keys seen l) <-> In x seen \/ In x l.
Proof.
  induction l as [|y l IH]; intros seen x; cbn [add_keys fold_left]; [cbn; tauto|].
  fold (add_keys (add_key seen y) l). rewrite IH. unfold add_key.
  destruct (str_in y seen) eqn:E.
  - apply str_in_In in E. cbn [In]. split; [tauto|]. intros [H|[H|H]]; subst; tauto.
  - rewrite in_app_iff. cbn [In]. tauto.
Qed.

Lemma add_keys_app seen l1 l2 : add_keys seen (l1 ++ l2) = add_keys (add_keys seen l1) l2.
Proof. unfold add_keys. apply fold_left_app. Qed.

Lemma add_keys_add_key acc seen x : add_keys acc (add_key seen x) = add_key (add_keys acc seen) x.
Proof.
  unfold add_key at 1. destruct (str_in x seen) eqn:E.
  - apply str_in_In in E. unfold add_key.
    assert (H : In x (add_keys acc seen)) by (apply in_add_keys; right; exact E).
    apply str_in_In in H. rewrite H. reflexivity.
  - rewrite add_keys_app. reflexivity.
Qed.

Lemma add_keys_absorb l : forall acc seen, add_keys acc (add_keys seen l) = add_keys (add_keys acc seen) l.
Proof.
  induction l as [|x l IH]; intros acc seen; [reflexivity|].
  change (add_keys seen (x :: l)) with (add_keys (add_key seen x) l).
  rewrite IH, add_keys_add_key. reflexivity.
Qed.

Lemma add_keys_first_occ acc l : add_keys acc (first_occ l) = add_keys acc l.
Proof. unfold first_occ. rewrite add_keys_absorb. reflexivity. Qed.

Lemma keys_step_plain l : forall F F',
  foldM step_plain l F = Ok F' -> map fst F' = add_keys (map fst F) (map get_field_name l).
Proof.
  induction l as [|h l IH]; intros F F'; cbn [foldM].
  - intros H. inversion H. reflexivity.
  - unfold step_plain at 1. destruct (parse_header_annotations h) as [m|e]; [|discriminate].
    intros H. rewrite (IH _ _ H), keys_sset. reflexivity.
Qed.

Lemma keys_children f C : forall F F',
  foldM (child_step bn f) C F = Ok F' -> map fst F' = add_keys (map fst F) (map fst C).
Proof.
  induction C as [|[k l] C IH]; intros F F'; cbn [foldM].
  - intros H. inversion H. reflexivity.
  - unfold child_step at 1. cbn [fst snd]. destruct (infer_rec f l) as [m|e]; [|discriminate].
    intros H. rewrite (IH _ _ H), keys_sset. reflexivity.
Qed.

Lemma finish_class F fields d : finish F = Ok (TRec fields, d) -> fields = F.
Proof.
  unfold finish. destruct (rev (int_entries F)) as [|[z [t dd]] r].
  - intros H. inversion H. reflexivity.
  - destruct (dict_to_list _); discriminate.
Qed.

(* when a class is inferred, its fields are: the names of the plain columns in order of
   first occurrence, then the dotted prefixes in order of first occurrence (a prefix that
   is also the name of a plain column keeps the position of the plain column) *)
Theorem infer_field_order hs fields d :
  infer hs = Ok (TRec fields, d) ->
  map fst fields = first_occ (map get_field_name (plain_of hs) ++ map fst (pairs_of hs)).
Proof.
  unfold infer_at. cbn [infer_rec_at]. rewrite fold_step_split.
  destruct (foldM step_plain (plain_of hs) []) as [F|e] eqn:E1; [|discriminate].
  match goal with |- context [foldM ?g ?C F] => change (foldM g C F) with (foldM (child_step bn (max_len hs)) C F) end.
  destruct (foldM (child_step bn (max_len hs)) _ F) as [F'|e] eqn:E2; [|discriminate].
  intros H. apply finish_class in H. subst fields.
  etransitivity; [apply (keys_children _ _ _ _ E2)|].
  rewrite (keys_step_plain _ _ _ E1), keys_add_pairs.
  cbn [map]. unfold first_occ at 1. rewrite add_keys_app. fold (first_occ (map fst (pairs_of hs))).
  rewrite add_keys_first_occ. reflexivity.
Qed.

End Behaviour.

(* ================================================================== 6. the tree at hand *)
Theorem infer_never_out_of_fuel hs : Infer.infer hs <> Err EOutOfFuel.
Proof. apply infer_at_never_out_of_fuel. Qed.
