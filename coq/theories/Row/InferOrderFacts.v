(* C18 — facts about [infer] on ARBITRARY header lists (not only rendered ones):
   the fuel of [infer] always suffices; the first loop of model_from_headers_rec treats plain
   and dotted columns independently, so the inferred model depends only on (the plain columns
   in order, the order of first appearance of the dotted prefixes, the sub-headers of each
   prefix in order); the field order of an inferred class follows first occurrence.
   Proofs only; the definitions here are descriptions used in the statements. *)
From Coq Require Import List NArith ZArith Bool Lia ZifyBool.
From RPFT Require Import Base.Sexp Base.PyStr Base.Result Base.ODict Gen.Tables
  Row.InferTy Row.Infer Row.InferFacts Row.InferMainFacts.
Import ListNotations.
Local Open Scope N_scope.

(* ================================================================== 1. fuel *)
Lemma drop_prefix_length p : forall s r, drop_prefix p s = Some r -> length s = (length p + length r)%nat.
Proof.
  induction p as [|a p IH]; intros s r; cbn [drop_prefix].
  - intros H. inversion H. reflexivity.
  - destruct s as [|b s]; [discriminate|]. destruct (a =? b); [|discriminate].
    intros H. cbn [length]. rewrite (IH _ _ H). reflexivity.
Qed.

Lemma generic_inner_length s i : generic_inner s = Some i -> (length i < length s)%nat.
Proof.
  unfold generic_inner. destruct (drop_prefix _ s) as [r|] eqn:E; [|discriminate].
  apply drop_prefix_length in E. destruct (rev r) as [|c m] eqn:Er; [discriminate|].
  destruct (c =? inf_generic_close); [|discriminate]. intros H. inversion H; subst i.
  rewrite rev_length. apply (f_equal (@length char)) in Er. rewrite rev_length in Er. cbn [length] in Er. lia.
Qed.

Lemma inner_type_fuel fuel : forall s, (length s < fuel)%nat -> inner_type fuel s <> Err EOutOfFuel.
Proof.
  induction fuel as [|f IH]; intros s Hs; [lia|]. cbn [inner_type].
  destruct (lookup inf_inner_type_names s); [discriminate|].
  destruct (generic_inner s) as [i|] eqn:E; [|discriminate].
  apply generic_inner_length in E.
  specialize (IH i ltac:(lia)). destruct (inner_type f i) as [t|e]; [discriminate|]. congruence.
Qed.

Lemma type_from_string_fuel s : type_from_string s <> Err EOutOfFuel.
Proof.
  unfold type_from_string. destruct (lookup inf_type_names s); [discriminate|].
  destruct (generic_inner s) as [i|]; [|discriminate].
  pose proof (inner_type_fuel (S (length i)) i ltac:(lia)) as H.
  destruct (inner_type (S (length i)) i) as [t|e]; [discriminate|]. congruence.
Qed.

Lemma get_value_for_type_fuel t v : get_value_for_type t v <> Err EOutOfFuel.
Proof.
  destruct t; cbn [get_value_for_type]; try discriminate; destruct v as [s|]; try discriminate.
  - destruct (py_int s); discriminate.
  - destruct (is_float_lit s); discriminate.
Qed.

Lemma parse_header_annotations_fuel h : parse_header_annotations h <> Err EOutOfFuel.
Proof.
  unfold parse_header_annotations, infer_type, infer_default_value.
  set (ts := match split_first AS h with Some (_, suffix) => _ | None => _ end).
  assert (Hts : ts <> Err EOutOfFuel).
  { subst ts. destruct (split_first AS h) as [[a b]|]; apply type_from_string_fuel. }
  destruct ts as [t|e]; [|congruence].
  destruct (split_first DS h) as [[a b]|].
  - pose proof (get_value_for_type_fuel t (Some (strip b))) as H.
    destruct (get_value_for_type t (Some (strip b))); [discriminate|congruence].
  - pose proof (get_value_for_type_fuel t None) as H.
    destruct (get_value_for_type t None); [discriminate|congruence].
Qed.

Lemma foldM_err {E S A} (P : E -> Prop) (f : A -> S -> result E A) l :
  (forall a x e, In x l -> f a x = Err e -> P e) -> forall a e, foldM f l a = Err e -> P e.
Proof.
  induction l as [|x l IH]; intros Hf a e; cbn [foldM]; [discriminate|].
  destruct (f a x) as [a'|e'] eqn:Efx.
  - apply IH. intros a0 x0 e0 Hin. apply Hf. right. exact Hin.
  - intros H. inversion H; subst. apply (Hf a x e (or_introl eq_refl) Efx).
Qed.

Lemma step_fuel acc h : step acc h <> Err EOutOfFuel.
Proof.
  destruct acc as [F C]. unfold step. destruct (split_first HS h) as [[a b]|]; [discriminate|].
  pose proof (parse_header_annotations_fuel h) as H.
  destruct (parse_header_annotations h); [discriminate|congruence].
Qed.

(* every list of sub-headers collected by the first loop is strictly shorter than the longest header *)
Definition subs_below (M : nat) (C : sdict (list str)) : Prop :=
  Forall (fun kl : str * list str => (max_len (snd kl) < M)%nat) C.

Lemma sget_Forall {T} (Q : T -> Prop) (C : sdict T) k v :
  Forall (fun kl : str * T => Q (snd kl)) C -> sget C k = Some v -> Q v.
Proof.
  unfold sget. induction C as [|[k' v'] C IH]; cbn [oget]; [discriminate|]. intros HF.
  inversion HF as [|? ? Hv HC]; subst. destruct (str_eqb k' k).
  - intros H. inversion H; subst. exact Hv.
  - apply IH, HC.
Qed.

Lemma sset_Forall {T} (Q : T -> Prop) (C : sdict T) k v :
  Forall (fun kl : str * T => Q (snd kl)) C -> Q v -> Forall (fun kl : str * T => Q (snd kl)) (sset C k v).
Proof.
  unfold sset. induction C as [|[k' v'] C IH]; cbn [oset]; intros HF Hv.
  - constructor; [exact Hv|constructor].
  - inversion HF as [|? ? Hv' HC]; subst. destruct (str_eqb k' k); constructor; auto.
Qed.

Lemma max_len_snoc l h : max_len (l ++ [h]) = Nat.max (max_len l) (length h).
Proof. rewrite max_len_app. unfold max_len at 2. cbn [fold_right]. lia. Qed.

Lemma step_subs_below M F C h F' C' :
  (length h <= M)%nat -> subs_below M C -> step (F, C) h = Ok (F', C') -> subs_below M C'.
Proof.
  intros Hh HC. unfold step. destruct (split_first HS h) as [[a b]|] eqn:E.
  - intros H. inversion H; subst. apply split_first_length in E.
    apply (sset_Forall (fun l => (max_len l < M)%nat)); [exact HC|]. rewrite max_len_snoc.
    assert (Hold : (max_len match sget C a with Some l => l | None => [] end < M)%nat).
    { destruct (sget C a) as [l|] eqn:Eg; [apply (sget_Forall (fun l => (max_len l < M)%nat) C a l HC Eg)|].
      cbn. lia. }
    lia.
  - destruct (parse_header_annotations h); [|discriminate]. intros H. inversion H; subst. exact HC.
Qed.

Lemma length_le_max_len hs h : In h hs -> (length h <= max_len hs)%nat.
Proof.
  induction hs as [|x hs IH]; [intros []|]. unfold max_len in *. cbn [fold_right].
  intros [->|H]; [lia|]. specialize (IH H). lia.
Qed.

Lemma fold_step_subs_below M hs : forall F C F' C',
  (forall h, In h hs -> (length h <= M)%nat) -> subs_below M C ->
  foldM step hs (F, C) = Ok (F', C') -> subs_below M C'.
Proof.
  induction hs as [|h hs IH]; intros F C F' C' Hl HC; cbn [foldM].
  - intros H. inversion H; subst. exact HC.
  - destruct (step (F, C) h) as [[F1 C1]|e] eqn:E; [|discriminate].
    apply IH; [intros h' Hin; apply Hl; right; exact Hin|].
    apply (step_subs_below M F C h F1 C1); [apply Hl; left; reflexivity|exact HC|exact E].
Qed.

Lemma py_setitem_err out k v e : py_setitem out k v = Err e -> e = EIndex.
Proof. unfold py_setitem. destruct (_ || _)%bool; [|discriminate]. intros H. inversion H. reflexivity. Qed.

Lemma finish_fuel F : finish F <> Err EOutOfFuel.
Proof.
  unfold finish. destruct (rev (int_entries F)) as [|[z [t d]] r]; [discriminate|].
  destruct (dict_to_list _) as [l|e] eqn:E; [discriminate|].
  unfold dict_to_list in E.
  apply (foldM_err (fun e => e = EIndex)) in E; [subst e; discriminate|].
  intros a x e0 _. apply py_setitem_err.
Qed.

Lemma infer_rec_fuel fuel : forall hs, (max_len hs < fuel)%nat -> infer_rec fuel hs <> Err EOutOfFuel.
Proof.
  induction fuel as [|f IH]; intros hs Hf; [lia|]. cbn [infer_rec].
  destruct (foldM step hs ([], [])) as [[F C]|e] eqn:E1.
  - assert (HC : subs_below (max_len hs) C).
    { apply (fold_step_subs_below (max_len hs) hs [] [] F C); [apply length_le_max_len|constructor|exact E1]. }
    match goal with |- context [foldM ?g C F] => destruct (foldM g C F) as [F'|e] eqn:E2 end.
    + apply finish_fuel.
    + intros H. inversion H; subst e.
      apply (foldM_err (fun e => e <> EOutOfFuel)) in E2; [congruence|].
      intros a [k l] e Hin. cbn [snd fst]. unfold subs_below in HC. rewrite Forall_forall in HC.
      specialize (HC _ Hin). cbn [snd] in HC.
      specialize (IH l ltac:(lia)). destruct (infer_rec f l); [discriminate|]. congruence.
  - intros H. inversion H; subst e.
    apply (foldM_err (fun e => e <> EOutOfFuel)) in E1; [congruence|].
    intros a x e _ Hs Heq. subst e. exact (step_fuel a x Hs).
Qed.

(* the fuel of [infer] suffices on every header list whatsoever *)
Theorem infer_never_out_of_fuel hs : infer hs <> Err EOutOfFuel.
Proof. unfold infer. apply infer_rec_fuel. lia. Qed.

(* ================================================================== 2. plain and dotted columns are independent *)
Definition is_dotted (h : str) : bool := mem_char HS h.
Definition plain_of (hs : list str) : list str := filter (fun h => negb (is_dotted h)) hs.
Definition dotted_of (hs : list str) : list str := filter is_dotted hs.
(* the header list with the plain columns moved to the front, both groups in their order *)
Definition stable_partition (hs : list str) : list str := plain_of hs ++ dotted_of hs.

(* (prefix, sub-header) of every dotted column, in column order *)
Definition pairs_of (hs : list str) : list (str * str) :=
  flat_map (fun h => match split_first HS h with Some p => [p] | None => [] end) hs.

Definition step_plain (F : sdict model) (h : str) : result ierr (sdict model) :=
  match parse_header_annotations h with
  | Err e => Err e
  | Ok m => Ok (sset F (get_field_name h) m)
  end.
Definition add_pair (C : sdict (list str)) (p : str * str) : sdict (list str) :=
  sset C (fst p) ((match sget C (fst p) with Some l => l | None => [] end) ++ [snd p]).

Lemma split_first_dotted h : is_dotted h = match split_first HS h with Some _ => true | None => false end.
Proof.
  unfold is_dotted. induction h as [|x h IH]; cbn [mem_char split_first]; [reflexivity|].
  destruct (x =? HS); [reflexivity|]. cbn [orb]. rewrite IH.
  destruct (split_first HS h) as [[a b]|]; reflexivity.
Qed.

Lemma fold_step_split hs : forall F C,
  foldM step hs (F, C)
  = match foldM step_plain (plain_of hs) F with
    | Err e => Err e
    | Ok F' => Ok (F', fold_left add_pair (pairs_of hs) C)
    end.
Proof.
  induction hs as [|h hs IH]; intros F C; [reflexivity|].
  cbn [foldM]. unfold plain_of, pairs_of. cbn [filter flat_map]. fold (plain_of hs). fold (pairs_of hs).
  rewrite split_first_dotted. unfold step at 1.
  destruct (split_first HS h) as [[a b]|] eqn:E; cbn [negb app].
  - rewrite IH. cbn [fold_left]. reflexivity.
  - cbn [foldM].
    change (step_plain F h) with (match parse_header_annotations h with
                                  | Err e => @Err ierr (sdict model) e
                                  | Ok m => Ok (sset F (get_field_name h) m)
                                  end).
    destruct (parse_header_annotations h) as [m|e]; [|reflexivity].
    apply IH.
Qed.

Lemma max_len_partition hs : max_len hs = Nat.max (max_len (plain_of hs)) (max_len (dotted_of hs)).
Proof.
  induction hs as [|h hs IH]; [reflexivity|]. unfold plain_of, dotted_of. cbn [filter].
  fold (plain_of hs). fold (dotted_of hs).
  destruct (is_dotted h); cbn [negb]; unfold max_len in *; cbn [fold_right]; lia.
Qed.

Lemma pairs_of_dotted hs : pairs_of (dotted_of hs) = pairs_of hs.
Proof.
  induction hs as [|h hs IH]; [reflexivity|]. unfold dotted_of, pairs_of. cbn [filter flat_map].
  fold (dotted_of hs). fold (pairs_of hs). rewrite split_first_dotted.
  destruct (split_first HS h) as [[a b]|] eqn:E.
  - cbn [flat_map]. rewrite E. fold (pairs_of (dotted_of hs)). rewrite IH. reflexivity.
  - exact IH.
Qed.

(* the inferred model is a function of the plain columns (in order) and the dotted columns (in order) *)
Theorem infer_plain_dotted hs1 hs2 :
  plain_of hs1 = plain_of hs2 -> dotted_of hs1 = dotted_of hs2 -> infer hs1 = infer hs2.
Proof.
  intros Hp Hd. unfold infer. rewrite (max_len_partition hs1), (max_len_partition hs2), Hp, Hd.
  cbn [infer_rec]. rewrite !fold_step_split, Hp.
  rewrite <- (pairs_of_dotted hs1), <- (pairs_of_dotted hs2), Hd. reflexivity.
Qed.

Lemma filter_filter_same {A} (f : A -> bool) l : filter f (filter f l) = filter f l.
Proof.
  induction l as [|x l IH]; [reflexivity|]. cbn [filter]. destruct (f x) eqn:E; [|exact IH].
  cbn [filter]. rewrite E, IH. reflexivity.
Qed.

Lemma filter_filter_neg {A} (f : A -> bool) l : filter f (filter (fun x => negb (f x)) l) = [].
Proof.
  induction l as [|x l IH]; [reflexivity|]. cbn [filter]. destruct (f x) eqn:E; cbn [negb]; [exact IH|].
  cbn [filter]. rewrite E. exact IH.
Qed.

Lemma filter_neg_filter {A} (f : A -> bool) l : filter (fun x => negb (f x)) (filter f l) = [].
Proof.
  induction l as [|x l IH]; [reflexivity|]. cbn [filter]. destruct (f x) eqn:E; [|exact IH].
  cbn [filter]. rewrite E. exact IH.
Qed.

Theorem infer_partition hs : infer (stable_partition hs) = infer hs.
Proof.
  apply infer_plain_dotted; unfold stable_partition, plain_of, dotted_of; rewrite filter_app.
  - rewrite (filter_filter_same (fun h => negb (is_dotted h))), filter_neg_filter, app_nil_r. reflexivity.
  - rewrite filter_filter_neg, filter_filter_same. reflexivity.
Qed.
