(* E2 — the re-keying step of parse_row (data_rekeyed[k] = v, or — repaired tree — `continue` for a blank
   cell of a field that already has one).  Facts that hold whatever the probed constant
   rekey_blank_keeps is; the statements decided by it are in Row/BlankAliasFacts.v. *)
From Coq Require Import List NArith Bool.
From RPFT Require Import Base.Sexp Base.PyStr Base.PyStrFacts Base.Result Base.ODict Gen.Tables Cell.Cell
  Row.Ty Row.RowParse.
Import ListNotations.
Local Open Scope N_scope.

Lemma oset_absent_get {V} (d : list (str * V)) k v : oget str_eqb d k = None -> oset str_eqb d k v = d ++ [(k, v)].
Proof.
  induction d as [|[k' v'] r IH]; cbn [oget oset app]; [reflexivity|].
  destruct (str_eqb k' k); [discriminate|]. intros H. rewrite (IH H). reflexivity.
Qed.

Lemma oget_notin {V} (d : list (str * V)) k : ~ In k (map fst d) -> oget str_eqb d k = None.
Proof.
  induction d as [|[k' v'] r IH]; cbn [oget map fst]; [reflexivity|]. intros H.
  destruct (str_eqb k' k) eqn:E; [apply str_eqb_eq in E; exfalso; apply H; left; exact E|].
  apply IH. intros Hin. apply H. right. exact Hin.
Qed.

(* a header whose field has no cell yet: the cell is appended, on either tree *)
Lemma rekey_put_new_get acc k v : oget str_eqb acc k = None -> rekey_put acc k v = acc ++ [(k, v)].
Proof.
  intros H. unfold rekey_put, ocontains. rewrite H. rewrite andb_false_r. apply oset_absent_get, H.
Qed.

Lemma rekey_put_new acc k v : ~ In k (map fst acc) -> rekey_put acc k v = acc ++ [(k, v)].
Proof. intros H. apply rekey_put_new_get, oget_notin, H. Qed.

(* a non-blank cell is assigned, on either tree *)
Lemma rekey_put_nonblank acc k c v : rekey_put acc k (c :: v) = oset str_eqb acc k (c :: v).
Proof. unfold rekey_put. cbn [is_nil]. rewrite !andb_false_r. reflexivity. Qed.

(* the keys never change order, and no key is ever removed *)
Lemma rekey_put_keys acc k v :
  map fst (rekey_put acc k v) = if ocontains str_eqb acc k then map fst acc else map fst acc ++ [k].
Proof.
  assert (Hset : map fst (oset str_eqb acc k v) = if ocontains str_eqb acc k then map fst acc else map fst acc ++ [k]).
  { unfold ocontains. induction acc as [|[k' v'] r IH]; cbn [oset oget map fst app]; [reflexivity|].
    destruct (str_eqb k' k) eqn:E; cbn [map fst]; [reflexivity|]. rewrite IH.
    destruct (oget str_eqb r k); reflexivity. }
  unfold rekey_put. destruct (rekey_blank_keeps && ocontains str_eqb acc k && is_nil v) eqn:E; [|exact Hset].
  apply andb_true_iff in E as [E _]. apply andb_true_iff in E as [_ E]. rewrite E. reflexivity.
Qed.
