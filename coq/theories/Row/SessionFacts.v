(* E2 — facts about sessions (Row/Session.v): the outcome of every operation of a session is the
   pure function of the class description and the arguments (no history), the round trip holds
   at every point of every session for every class of the family (derived ones included), and a
   derived class is judged against ITS OWN defaults. *)
From Coq Require Import List NArith ZArith Bool Lia.
From RPFT Require Import Base.Sexp Base.PyStr Base.PyStrFacts Base.Result Base.ODict Cell.Cell Row.Ty Row.Layout
  Row.RowParse Row.RowUnparse Row.RoundTrip Row.RoundTripFacts Row.Session.
Import ListNotations.
Local Open Scope N_scope.

(* ---- history independence ---------------------------------------------------------------- *)
Lemma step_result cls st o : snd (step cls st o) = op_result cls o.
Proof.
  unfold step, op_result.
  destruct (class_of cls (op_class o)) as [root|]; [|reflexivity].
  destruct o as [k v T X|k cells|k v T|k]; cbn [snd]; try reflexivity.
  unfold round_trip.
  destruct (unparse_row root v T []) as [cells|e]; reflexivity.
Qed.

(* whatever the registers hold when the session starts *)
Theorem run_from_pure cls ops : forall st, run_from cls st ops = map (op_result cls) ops.
Proof.
  induction ops as [|o r IH]; intros st; [reflexivity|].
  cbn [run_from map].
  pose proof (step_result cls st o) as Hs.
  destruct (step cls st o) as [st' x]. cbn [snd] in Hs. subst x.
  rewrite IH. reflexivity.
Qed.

Corollary session_initial_state_irrelevant cls ops st : run_from cls st ops = map (op_result cls) ops.
Proof. apply run_from_pure. Qed.

Theorem session_history_independent fam ops :
  run_session fam ops = map (op_result (classes fam)) ops.
Proof. unfold run_session. apply run_from_pure. Qed.

(* the result of an operation does not depend on what was run before it, nor on what follows *)
Corollary session_step_in_isolation fam before o after :
  nth_error (run_session fam (before ++ o :: after)) (length before)
  = Some (op_result (classes fam) o).
Proof.
  rewrite session_history_independent, map_app.
  rewrite nth_error_app2; rewrite map_length; [|lia].
  rewrite Nat.sub_diag. reflexivity.
Qed.

Corollary session_same_as_fresh fam before o after :
  nth_error (run_session fam (before ++ o :: after)) (length before)
  = nth_error (run_session fam [o]) 0.
Proof.
  rewrite session_step_in_isolation.
  rewrite session_history_independent. reflexivity.
Qed.

(* ---- the round trip, at any point of any session, for any class of the family ---------- *)
Theorem session_roundtrip fam before k v targets after root :
  class_of (classes fam) k = Some root ->
  row_dom root v targets = true ->
  nth_error (run_session fam (before ++ OpRound k v targets :: after)) (length before)
  = Some (RValue (Ok v)).
Proof.
  intros Hc Hd.
  rewrite session_step_in_isolation.
  unfold op_result. cbn [op_class]. rewrite Hc.
  destruct (row_roundtrip_total root v targets Hd) as [cells [Hu Hp]].
  unfold round_trip. rewrite Hu. cbn [bind]. rewrite Hp. reflexivity.
Qed.

(* ---- derived classes: pydantic's field collection ------------------------------------------ *)
Definition fd (t : ty) (d : option value) : ty * option value := (t, d).

Lemma set_field_lookup_same fs n t d :
  field_lookup fd (set_field fs (n, (t, d))) n = Some (t, d).
Proof.
  induction fs as [|[n' [t' d']] r IH]; cbn [set_field field_lookup f_name fst].
  - rewrite str_eqb_refl. reflexivity.
  - destruct (str_eqb n' n) eqn:E; cbn [field_lookup].
    + rewrite str_eqb_refl. reflexivity.
    + rewrite E. exact IH.
Qed.

Lemma set_field_lookup_other fs n t d m :
  m <> n -> field_lookup fd (set_field fs (n, (t, d))) m = field_lookup fd fs m.
Proof.
  intros Hne.
  induction fs as [|[n' [t' d']] r IH]; cbn [set_field field_lookup f_name fst].
  - rewrite (str_eqb_neq n m) by congruence. reflexivity.
  - destruct (str_eqb n' n) eqn:E; cbn [field_lookup].
    + apply str_eqb_eq in E. subst n'.
      rewrite (str_eqb_neq n m) by congruence. reflexivity.
    + destruct (str_eqb n' m); [reflexivity|exact IH].
Qed.

(* a field the class body does not mention is the parent's *)
Lemma derive_fields_inherited over : forall fs m,
  ~ In m (map f_name over) ->
  field_lookup fd (fold_left set_field over fs) m = field_lookup fd fs m.
Proof.
  induction over as [|[n [t d]] r IH]; intros fs m Hn; [reflexivity|].
  cbn [fold_left]. cbn [map f_name fst In] in Hn.
  rewrite IH by tauto.
  apply set_field_lookup_other. intros ->. tauto.
Qed.

(* a field the class body declares has the type and default written THERE, whatever the parent says *)
Lemma derive_fields_own over : forall fs n t d,
  NoDup (map f_name over) -> In (n, (t, d)) over ->
  field_lookup fd (fold_left set_field over fs) n = Some (t, d).
Proof.
  induction over as [|[n' [t' d']] r IH]; intros fs n t d Hnd Hin; [contradiction|].
  cbn [fold_left]. cbn [map f_name fst] in Hnd. inversion Hnd as [|x l Hnotin Hnd']; subst.
  destruct Hin as [Heq|Hin].
  - inversion Heq; subst.
    rewrite derive_fields_inherited by exact Hnotin.
    apply set_field_lookup_same.
  - apply IH; assumption.
Qed.

(* field order: the parent's names in the parent's order, then the new names *)
Lemma set_field_names fs f :
  map f_name (set_field fs f)
  = if existsb (str_eqb (f_name f)) (map f_name fs) then map f_name fs else map f_name fs ++ [f_name f].
Proof.
  induction fs as [|g r IH]; cbn [set_field map existsb app]; [reflexivity|].
  destruct (str_eqb (f_name g) (f_name f)) eqn:E.
  - apply str_eqb_eq in E. rewrite E, str_eqb_refl. cbn [orb map]. reflexivity.
  - assert (E' : str_eqb (f_name f) (f_name g) = false).
    { destruct (str_eqb (f_name f) (f_name g)) eqn:E2; [|reflexivity].
      apply str_eqb_eq in E2. rewrite E2, str_eqb_refl in E. discriminate. }
    rewrite E'. cbn [orb map]. rewrite IH.
    destruct (existsb (str_eqb (f_name f)) (map f_name r)); reflexivity.
Qed.

Lemma derive_names_prefix over : forall fs,
  exists extra, map f_name (fold_left set_field over fs) = map f_name fs ++ extra.
Proof.
  induction over as [|f r IH]; intros fs; cbn [fold_left].
  - exists []. rewrite app_nil_r. reflexivity.
  - destruct (IH (set_field fs f)) as [extra He]. rewrite He, set_field_names.
    destruct (existsb (str_eqb (f_name f)) (map f_name fs)).
    + exists extra. reflexivity.
    + exists (f_name f :: extra). rewrite <- app_assoc. reflexivity.
Qed.

(* ---- resolution of a family ------------------------------------------------------------------ *)
Lemma resolve_from_app ds : forall earlier,
  exists rest, resolve_from earlier ds = earlier ++ rest /\ length rest = length ds.
Proof.
  induction ds as [|d r IH]; intros earlier; cbn [resolve_from].
  - exists []. rewrite app_nil_r. split; reflexivity.
  - destruct (IH (earlier ++ [resolve1 earlier d])) as [rest [He Hl]].
    exists (resolve1 earlier d :: rest). rewrite He, <- app_assoc. cbn [app length]. split; [reflexivity|lia].
Qed.

Lemma nth_error_firstn_lt {X} (l : list X) : forall n i, (i < n)%nat -> nth_error (firstn n l) i = nth_error l i.
Proof.
  induction l as [|x r IH]; intros n i Hlt.
  - rewrite firstn_nil. reflexivity.
  - destruct n as [|n]; [lia|]. destruct i as [|i]; cbn [firstn nth_error]; [reflexivity|].
    apply IH. lia.
Qed.

(* class j of the family is its declaration resolved against the classes BEFORE it: neither the
   later classes nor its siblings enter *)
Lemma resolve_from_nth ds : forall earlier j d,
  nth_error ds j = Some d ->
  nth_error (resolve_from earlier ds) (length earlier + j)
  = Some (resolve1 (firstn (length earlier + j) (resolve_from earlier ds)) d).
Proof.
  induction ds as [|d0 r IH]; intros earlier j d Hj; [destruct j; discriminate|].
  cbn [resolve_from].
  destruct j as [|j]; cbn [nth_error] in Hj.
  - inversion Hj; subst d0. rewrite Nat.add_0_r.
    destruct (resolve_from_app r (earlier ++ [resolve1 earlier d])) as [rest [He _]].
    rewrite He, <- app_assoc. cbn [app].
    rewrite nth_error_app2 by lia. rewrite Nat.sub_diag. cbn [nth_error].
    rewrite firstn_app, firstn_all, Nat.sub_diag. cbn [firstn]. rewrite app_nil_r. reflexivity.
  - specialize (IH (earlier ++ [resolve1 earlier d0]) j d Hj).
    rewrite app_length in IH. cbn [length] in IH.
    replace (length earlier + 1 + j)%nat with (length earlier + S j)%nat in IH by lia.
    exact IH.
Qed.

Lemma classes_nth fam k d :
  nth_error fam k = Some d ->
  nth_error (classes fam) k = Some (resolve1 (firstn k (classes fam)) d).
Proof. intros H. unfold classes. apply (resolve_from_nth fam [] k d H). Qed.

(* the statement about classes of a family: a derived class has, for every field its body
   declares, the type and default written in ITS body, and the parent's for the others *)
Theorem derived_class_own_default fam k p over h g pfs ph pg n t d :
  nth_error fam k = Some (DDerive p over h g) ->
  class_of (classes fam) p = Some (TModel pfs ph pg) ->
  (p < k)%nat ->
  NoDup (map f_name over) -> In (n, (t, d)) over ->
  exists fs h' g', class_of (classes fam) k = Some (TModel fs h' g')
                   /\ field_lookup fd fs n = Some (t, d)
                   /\ (forall m, ~ In m (map f_name over) -> field_lookup fd fs m = field_lookup fd pfs m).
Proof.
  intros Hk Hp Hlt Hnd Hin.
  unfold class_of in *. rewrite (classes_nth fam k _ Hk).
  cbn [resolve1]. rewrite nth_error_firstn_lt by exact Hlt.
  destruct (nth_error (classes fam) p) as [[pt|]|]; try discriminate.
  inversion Hp; subst pt. cbn [derive].
  eexists _, _, _. split; [reflexivity|]. split.
  - apply derive_fields_own; assumption.
  - intros m Hm. apply derive_fields_inherited. exact Hm.
Qed.
