(* E2 — C07-3: the order of the columns does not matter, as long as the columns of one list
   first appear by increasing index.  The row written for an in-domain instance, its columns
   permuted in any such way, parses to the instance.  No axioms. *)
From Coq Require Import List NArith ZArith Bool Lia ZifyBool Arith Permutation.
From RPFT Require Import Base.Sexp Base.PyStr Base.PyStrFacts Base.Result Base.ODict Gen.Tables
  Cell.Cell Cell.CellFacts Row.Ty Row.Layout Row.RowParse Row.RowUnparse Row.TextFacts Row.RoundTrip
  Row.RoundTripFacts Row.CtxRoundTripFacts Row.RoundTripExamples.
Import ListNotations.
Local Open Scope N_scope.

(* ---- vocabulary ------------------------------------------------------------------------------------ *)
(* the columns that go through the component c, with that component removed *)
Fixpoint proj (c : str) (cs : cols) : cols :=
  match cs with
  | [] => []
  | (p, s) :: r =>
    match p with
    | h :: rest => if str_eqb h c then (rest, s) :: proj c r else proj c r
    | [] => proj c r
    end
  end.

Definition head_of (ps : list str * str) : str := hd [] (fst ps).
Definition idx (i : nat) : str := print_nat (S i).

(* the indices of a list appear in increasing order of first occurrence: n = how many are known *)
Fixpoint list_scan (n : nat) (hs : list str) : option nat :=
  match hs with
  | [] => Some n
  | h :: r =>
    if existsb (fun j => str_eqb h (idx j)) (seq 0 n) then list_scan n r
    else if str_eqb h (idx n) then list_scan (S n) r
    else None
  end.

Definition is_leaf_cols (cs : cols) : bool := forallb (fun ps => is_nil (fst ps)) cs.

Fixpoint cols_ordered (t : ty) (cs : cols) {struct t} : bool :=
  if is_leaf_cols cs then true
  else
    match t with
    | TList t' =>
      match list_scan 0 (map head_of cs) with
      | Some n => forallb (fun i => cols_ordered t' (proj (idx i) cs)) (seq 0 n)
      | None => false
      end
    | TUList =>
      match list_scan 0 (map head_of cs) with Some _ => true | None => false end
    | TModel fields _ f2h =>
      (fix go (fds : list field) : bool :=
         match fds with
         | [] => true
         | (n, (tf, _)) :: r => cols_ordered tf (proj (remap_get f2h n) cs) && go r
         end) fields
    | _ => true
    end.

(* ---- projections ------------------------------------------------------------------------------------ *)
Lemma proj_app c a b : proj c (a ++ b) = proj c a ++ proj c b.
Proof.
  induction a as [|[p s] r IH]; [reflexivity|]. cbn [app proj]. destruct p as [|h rest]; [exact IH|].
  destruct (str_eqb h c); [cbn [app]; rewrite IH; reflexivity|exact IH].
Qed.

Lemma proj_prefix_same c cs : proj c (prefix_cols c cs) = cs.
Proof.
  induction cs as [|[p s] r IH]; [reflexivity|]. cbn [prefix_cols map proj fst snd]. rewrite str_eqb_refl.
  unfold prefix_cols in IH. rewrite IH. reflexivity.
Qed.

Lemma proj_prefix_other c h cs : h <> c -> proj c (prefix_cols h cs) = [].
Proof.
  intros Hne. induction cs as [|[p s] r IH]; [reflexivity|]. cbn [prefix_cols map proj fst snd].
  rewrite (str_eqb_neq h c Hne). exact IH.
Qed.

Lemma proj_perm c a b : Permutation a b -> Permutation (proj c a) (proj c b).
Proof.
  induction 1 as [|[p s] a b H IH|[p s] [q u] a|a b c' H1 IH1 H2 IH2].
  - constructor.
  - cbn [proj]. destruct p as [|h rest]; [exact IH|]. destruct (str_eqb h c); [constructor; exact IH|exact IH].
  - cbn [proj]. destruct p as [|h rest]; destruct q as [|h2 rest2]; try reflexivity;
      destruct (str_eqb h c); try destruct (str_eqb h2 c); try reflexivity. apply perm_swap.
  - eapply perm_trans; eassumption.
Qed.

Lemma proj_none c cs : (forall ps, In ps cs -> head_of ps <> c) -> proj c cs = [].
Proof.
  induction cs as [|[p s] r IH]; intros H; [reflexivity|]. cbn [proj]. destruct p as [|h rest].
  - apply IH. intros ps Hps. apply H. right. exact Hps.
  - assert (h <> c) by (apply (H (h :: rest, s)); left; reflexivity).
    rewrite (str_eqb_neq h c) by assumption. apply IH. intros ps Hps. apply H. right. exact Hps.
Qed.

(* ---- list nodes --------------------------------------------------------------------------------------- *)
Lemma set_nth_nth {X} (l : list X) i d : set_nth i (nth i l d) l = l.
Proof.
  revert i. induction l as [|x r IH]; intros [|i]; cbn [set_nth nth]; try reflexivity. rewrite IH. reflexivity.
Qed.

Lemma set_nth_length {X} (l : list X) i x : length (set_nth i x l) = length l.
Proof. revert i. induction l as [|y r IH]; intros [|i]; cbn [set_nth length]; try reflexivity. rewrite IH. reflexivity. Qed.

Lemma nth_set_nth_same {X} (l : list X) i x d : (i < length l)%nat -> nth i (set_nth i x l) d = x.
Proof.
  revert i. induction l as [|y r IH]; intros [|i] H; cbn [length] in H; try lia; cbn [set_nth nth]; [reflexivity|].
  apply IH. lia.
Qed.

Lemma nth_set_nth_other {X} (l : list X) i j x d : i <> j -> nth j (set_nth i x l) d = nth j l d.
Proof.
  revert i j. induction l as [|y r IH]; intros [|i] [|j] H; cbn [set_nth nth]; try reflexivity; try congruence.
  apply IH. congruence.
Qed.

Lemma locate_index_at l i :
  (i < length l)%nat -> locate_index l (idx i) = Ok (l, Some i).
Proof.
  intros Hl. unfold locate_index, idx. rewrite parse_int_print_nat.
  replace ((Z.of_nat (length l) <=? Z.of_nat (S i) - 1)%Z) with false by lia.
  replace ((0 <=? Z.of_nat (S i) - 1)%Z) with true by lia.
  replace (Z.to_nat (Z.of_nat (S i) - 1)) with i by lia. reflexivity.
Qed.

Lemma find_assign_list_at t l i rest c :
  is_list_ty t = true -> (i < length l)%nat ->
  find_assign (idx i :: rest) t (OList l) c =
  do new <- put (child_ty t) rest c (nth i l ONone); Ok (OList (set_nth i new l)).
Proof.
  intros Ht Hl.
  assert (G : find_assign (idx i :: rest) t (OList l) c =
              do lk <- locate_index l (idx i);
              match rest with
              | [] => do r <- assign_value (child_ty t) (leaf_value (child_ty t) c);
                      match r, snd lk with
                      | None, _ => Ok (OList (fst lk))
                      | Some v, Some k => Ok (OList (set_nth k v (fst lk)))
                      | Some _, None => Err EIndex
                      end
              | _ :: _ => match snd lk with
                          | None => Err EIndex
                          | Some k => do new <- find_assign rest (child_ty t) (init_slot (child_ty t) (nth k (fst lk) ONone)) c;
                                      Ok (OList (set_nth k new (fst lk)))
                          end
              end).
  { destruct t; try discriminate; reflexivity. }
  rewrite G, (locate_index_at l i Hl). cbn [bind fst snd]. unfold put. destruct rest as [|r1 rr].
  - unfold leaf_assign. destruct (assign_value (child_ty t) (leaf_value (child_ty t) c)) as [[o|]|e]; cbn [bind];
      [reflexivity|rewrite set_nth_nth; reflexivity|reflexivity].
  - reflexivity.
Qed.

Lemma existsb_idx h n : existsb (fun j => str_eqb h (idx j)) (seq 0 n) = true <-> exists j, (j < n)%nat /\ h = idx j.
Proof.
  rewrite existsb_exists. split.
  - intros [j [Hj E]]. apply in_seq in Hj. apply str_eqb_eq in E. exists j. split; [lia|exact E].
  - intros [j [Hj E]]. exists j. split; [apply in_seq; lia|apply str_eqb_eq, E].
Qed.

Lemma idx_inj a b : idx a = idx b -> a = b.
Proof. unfold idx. intros H. apply print_nat_inj in H. lia. Qed.

(* the list after the columns cs: element i is what its own columns make of its slot *)
Lemma fill_list_proj t : is_list_ty t = true -> forall cs l0 n,
  (forall ps, In ps cs -> exists i rest, fst ps = idx i :: rest) ->
  list_scan (length l0) (map head_of cs) = Some n ->
  (forall i, (i < n)%nat -> exists x, puts (child_ty t) (proj (idx i) cs) (nth i l0 ONone) = Ok x) ->
  exists l, fill t cs (OList l0) = Ok (OList l) /\ length l = n
            /\ forall i x, (i < n)%nat -> puts (child_ty t) (proj (idx i) cs) (nth i l0 ONone) = Ok x -> nth i l ONone = x.
Proof.
  intros Ht. induction cs as [|[p s] r IH]; intros l0 n Hheads Hscan Hok.
  - cbn [map list_scan] in Hscan. injection Hscan as <-. exists l0. split; [reflexivity|]. split; [reflexivity|].
    intros i x _ Hx. cbn [proj puts foldM] in Hx. unfold puts in Hx. cbn [foldM] in Hx. injection Hx as <-. reflexivity.
  - destruct (Hheads (p, s) (or_introl eq_refl)) as (i0 & rest & Hp). cbn [fst] in Hp. subst p.
    assert (Hheads' : forall ps, In ps r -> exists i rest0, fst ps = idx i :: rest0) by (intros ps Hps; apply Hheads; right; exact Hps).
    cbn [map list_scan head_of fst hd] in Hscan.
    (* the slot this column goes to, and the list once the slot exists *)
    assert (Hcase : exists l1, (i0 < length l1)%nat
              /\ list_scan (length l1) (map head_of r) = Some n
              /\ (forall j, nth j l1 ONone = nth j l0 ONone)
              /\ find_assign (idx i0 :: rest) t (OList l0) (Raw s) =
                 do new <- put (child_ty t) rest (Raw s) (nth i0 l0 ONone); Ok (OList (set_nth i0 new l1))).
    { destruct (existsb (fun j => str_eqb (idx i0) (idx j)) (seq 0 (length l0))) eqn:Eex.
      - apply existsb_idx in Eex as (j & Hj & E). apply idx_inj in E. subst j.
        exists l0. repeat split; [exact Hj|exact Hscan|apply find_assign_list_at; assumption].
      - destruct (str_eqb (idx i0) (idx (length l0))) eqn:Enew; [|discriminate].
        apply str_eqb_eq, idx_inj in Enew. subst i0.
        exists (l0 ++ [ONone]). rewrite app_length. cbn [length]. repeat split; [lia|rewrite Nat.add_1_r; exact Hscan| |].
        + intros j. destruct (Nat.lt_ge_cases j (length l0)) as [Hlt|Hge].
          * rewrite app_nth1 by exact Hlt. reflexivity.
          * rewrite (nth_overflow l0) by exact Hge.
            destruct (Nat.eq_dec j (length l0)) as [->|Hne]; [rewrite nth_last; reflexivity|].
            rewrite nth_overflow; [reflexivity|]. rewrite app_length. cbn [length]. lia.
        + rewrite (nth_overflow l0) by lia. unfold idx.
          rewrite (find_assign_list_new t l0 (length l0) rest (Raw s) Ht eq_refl).
          destruct (put (child_ty t) rest (Raw s) ONone) as [new|e]; cbn [bind]; [rewrite set_nth_last|]; reflexivity. }
    destruct Hcase as (l1 & Hi0 & Hscan1 & Hnth1 & Hstep).
    (* n is at least the number of known slots *)
    assert (Hmono : forall hs a b, list_scan a hs = Some b -> (a <= b)%nat).
    { clear. induction hs as [|h r IH]; intros a b H; cbn [list_scan] in H; [injection H as <-; lia|].
      destruct (existsb _ _); [apply IH, H|]. destruct (str_eqb _ _); [|discriminate]. apply IH in H. lia. }
    pose proof (Hmono _ _ _ Hscan1) as Hn1.
    destruct (Hok i0 ltac:(lia)) as (x0 & Hx0).
    cbn [proj] in Hx0. rewrite str_eqb_refl in Hx0. unfold puts in Hx0. cbn [foldM fst snd] in Hx0.
    destruct (put (child_ty t) rest (Raw s) (nth i0 l0 ONone)) as [new|e] eqn:Eput; [|discriminate].
    fold (puts (child_ty t) (proj (idx i0) r) new) in Hx0.
    destruct (IH (set_nth i0 new l1) n Hheads') as (l & Hfill & Hlen & Hnth).
    { rewrite set_nth_length. exact Hscan1. }
    { intros i Hi. destruct (Nat.eq_dec i i0) as [->|Hne].
      - rewrite nth_set_nth_same by exact Hi0. exists x0. exact Hx0.
      - rewrite nth_set_nth_other by congruence. rewrite Hnth1.
        destruct (Hok i Hi) as (x & Hx). cbn [proj] in Hx.
        rewrite (str_eqb_neq (idx i0) (idx i)) in Hx by (intros E; apply idx_inj in E; congruence). exists x. exact Hx. }
    exists l. split; [|split; [exact Hlen|]].
    + unfold fill. cbn [foldM fst snd]. rewrite Hstep. cbn [bind]. exact Hfill.
    + intros i x Hi Hx. apply Hnth; [exact Hi|]. destruct (Nat.eq_dec i i0) as [->|Hne].
      * rewrite nth_set_nth_same by exact Hi0. cbn [proj] in Hx. rewrite str_eqb_refl in Hx.
        unfold puts in Hx. cbn [foldM fst snd] in Hx. rewrite Eput in Hx. exact Hx.
      * rewrite nth_set_nth_other by congruence. rewrite Hnth1. cbn [proj] in Hx.
        rewrite (str_eqb_neq (idx i0) (idx i)) in Hx by (intros E; apply idx_inj in E; congruence). exact Hx.
Qed.

(* ---- model nodes --------------------------------------------------------------------------------------- *)
Definition cur_of (d : dict) (k : str) : out := match dget d k with Some x => x | None => ONone end.

Lemma dget_dset_other d k v k2 : k2 <> k -> dget (dset d k v) k2 = dget d k2.
Proof. apply (oget_oset_other str_eqb str_eqb_spec). Qed.

Definition heads (cs : cols) : list str := map head_of cs.

Lemma proj_not_head c cs : ~ In c (heads cs) -> proj c cs = [].
Proof.
  intros H. apply proj_none. intros ps Hps E. apply H. unfold heads. rewrite <- E. apply in_map, Hps.
Qed.

Definition str_dec : forall a b : str, {a = b} + {a <> b} := list_eq_dec N.eq_dec.

Lemma fill_model_proj fields h2f f2h : forall cs d0,
  paths_nonempty cs ->
  (forall h, In h (heads cs) -> exists ct, field_lookup (fun tf _ => tf) fields (remap_get h2f h) = Some ct) ->
  (forall a b, In a (heads cs) -> In b (heads cs) -> remap_get h2f a = remap_get h2f b -> a = b) ->
  (forall h ct, In h (heads cs) -> field_lookup (fun tf _ => tf) fields (remap_get h2f h) = Some ct ->
                exists x, puts ct (proj h cs) (cur_of d0 (remap_get h2f h)) = Ok x) ->
  exists d, fill (TModel fields h2f f2h) cs (ODict d0) = Ok (ODict d)
    /\ (forall h ct x, In h (heads cs) -> field_lookup (fun tf _ => tf) fields (remap_get h2f h) = Some ct ->
          puts ct (proj h cs) (cur_of d0 (remap_get h2f h)) = Ok x -> cur_of d (remap_get h2f h) = x)
    /\ (forall k, (forall h, In h (heads cs) -> remap_get h2f h <> k) -> dget d k = dget d0 k).
Proof.
  induction cs as [|[p s] r IH]; intros d0 Hpne Hlook Hinj Hok.
  - exists d0. split; [reflexivity|]. split; [intros h ct x []|reflexivity].
  - inversion Hpne as [|? ? Hp1 Hp2]; subst. cbn [fst] in Hp1. destruct p as [|h0 rest]; [congruence|].
    cbn [heads map head_of fst hd] in Hlook, Hinj, Hok |- *. fold (heads r) in Hlook, Hinj, Hok |- *.
    set (k := remap_get h2f h0) in *.
    destruct (Hlook h0 (or_introl eq_refl)) as (ct & Hlk). fold k in Hlk.
    destruct (Hok h0 ct (or_introl eq_refl) Hlk) as (x0 & Hx0).
    cbn [proj] in Hx0. rewrite str_eqb_refl in Hx0. fold k in Hx0.
    unfold puts in Hx0. cbn [foldM fst snd] in Hx0.
    destruct (put ct rest (Raw s) (cur_of d0 k)) as [new|e] eqn:Eput; [|discriminate].
    fold (puts ct (proj h0 r) new) in Hx0.
    assert (Hcur1 : cur_of (dset d0 k new) k = new) by (unfold cur_of; rewrite dget_dset_same; reflexivity).
    assert (Hkey : forall h, In h (heads r) -> h <> h0 -> remap_get h2f h <> k).
    { intros h Hh Hne E. apply Hne. apply Hinj; [right; exact Hh|left; reflexivity|exact E]. }
    destruct (IH (dset d0 k new) Hp2) as (d & Hfill & Hsame & Hother).
    { intros h Hh. apply Hlook. right. exact Hh. }
    { intros a b Ha Hb. apply Hinj; right; assumption. }
    { intros h ct' Hh Hlk'. destruct (str_dec h h0) as [->|Hne].
      - fold k in Hlk' |- *. rewrite Hcur1. assert (ct' = ct) by congruence. subst ct'. exists x0. exact Hx0.
      - unfold cur_of. rewrite dget_dset_other by (apply Hkey; assumption). fold (cur_of d0 (remap_get h2f h)).
        destruct (Hok h ct' (or_intror Hh) Hlk') as (x & Hx). cbn [proj] in Hx.
        rewrite (str_eqb_neq h0 h) in Hx by congruence. exists x. exact Hx. }
    exists d. split; [|split].
    + unfold fill. cbn [foldM fst snd]. rewrite (find_assign_model h0 rest fields h2f f2h d0 (Raw s) ct Hlk).
      fold k. fold (cur_of d0 k). rewrite Eput. cbn [bind]. exact Hfill.
    + intros h ct' x Hh Hlk' Hx. destruct (str_dec h h0) as [->|Hne].
      * fold k in Hlk', Hx |- *. assert (ct' = ct) by congruence. subst ct'.
        cbn [proj] in Hx. rewrite str_eqb_refl in Hx. unfold puts in Hx. cbn [foldM fst snd] in Hx. rewrite Eput in Hx.
        fold (puts ct (proj h0 r) new) in Hx.
        destruct (in_dec str_dec h0 (heads r)) as [Hin|Hnin].
        -- apply (Hsame h0 ct x Hin Hlk). fold k. rewrite Hcur1. exact Hx.
        -- rewrite (proj_not_head h0 r Hnin) in Hx. unfold puts in Hx. cbn [foldM] in Hx. injection Hx as <-.
           unfold cur_of. rewrite Hother; [rewrite dget_dset_same; reflexivity|].
           intros h' Hh'. apply Hkey; [exact Hh'|]. intros ->. contradiction.
      * destruct Hh as [Hh|Hh]; [congruence|].
        cbn [proj] in Hx. rewrite (str_eqb_neq h0 h) in Hx by congruence.
        apply (Hsame h ct' x Hh Hlk'). unfold cur_of. rewrite dget_dset_other by (apply Hkey; assumption). exact Hx.
    + intros k' Hk'. rewrite Hother; [|intros h Hh; apply Hk'; right; exact Hh].
      apply dget_dset_other. intros ->. apply (Hk' h0); [left; reflexivity|reflexivity].
Qed.

Lemma prefix_cols_in_inv h cs ps : In ps (prefix_cols h cs) -> exists rest s, ps = (h :: rest, s) /\ In (rest, s) cs.
Proof.
  unfold prefix_cols. intros H. apply in_map_iff in H as [[p s] [<- Hin]]. exists p, s. split; [reflexivity|exact Hin].
Qed.

(* ---- what list_scan accepts ----------------------------------------------------------------------- *)
Lemma list_scan_spec hs : forall n0 n,
  list_scan n0 hs = Some n ->
  (n0 <= n)%nat
  /\ (forall h, In h hs -> exists i, (i < n)%nat /\ h = idx i)
  /\ (forall i, (n0 <= i < n)%nat -> In (idx i) hs).
Proof.
  induction hs as [|h r IH]; intros n0 n H; cbn [list_scan] in H.
  - injection H as <-. repeat split; [lia|intros h []|intros i Hi; lia].
  - destruct (existsb (fun j => str_eqb h (idx j)) (seq 0 n0)) eqn:Eex.
    + destruct (IH n0 n H) as (H1 & H2 & H3). repeat split; [exact H1| |intros i Hi; right; apply H3, Hi].
      intros h' [<-|Hh']; [|apply H2, Hh']. apply existsb_idx in Eex as (j & Hj & E). exists j. split; [lia|exact E].
    + destruct (str_eqb h (idx n0)) eqn:En; [|discriminate]. apply str_eqb_eq in En. subst h.
      destruct (IH (S n0) n H) as (H1 & H2 & H3). repeat split; [lia| |].
      * intros h' [<-|Hh']; [exists n0; split; [lia|reflexivity]|apply H2, Hh'].
      * intros i Hi. destruct (Nat.eq_dec i n0) as [->|Hne]; [left; reflexivity|right; apply H3; lia].
Qed.

Lemma mapR_by_nth {X} (f : out -> res X) (dx : X) : forall (l' : list out) (l : list X),
  length l' = length l ->
  (forall i, (i < length l)%nat -> f (nth i l' ONone) = Ok (nth i l dx)) ->
  mapR f l' = Ok l.
Proof.
  induction l' as [|o r IH]; intros [|x l] Hlen H; cbn [length] in Hlen; try lia; [reflexivity|].
  pose proof (H 0%nat ltac:(cbn; lia)) as H0. cbn [nth] in H0. cbn [mapR]. rewrite H0. rewrite (IH l); [reflexivity|lia|].
  intros i Hi. apply (H (S i)). cbn [length]. lia.
Qed.

(* ---- the columns of a spread list, by element -------------------------------------------------------- *)
Section ListCols.
  Variable tgt : list str -> bool.

  Lemma elems_cols_spec t' comps : forall l k gs,
    dom_elems tgt t' comps k l = true ->
    mapRi (fun i e => let c := print_nat (S i) in
                      rmap (prefix_cols c) (unparse_rec tgt noexc t' e (comps ++ [c]))) k l = Ok gs ->
    (forall ps, In ps (concat gs) -> exists i rest, fst ps = idx i :: rest /\ (k <= i < k + length l)%nat)
    /\ (forall j e, nth_error l j = Some e ->
          exists cs, cs <> [] /\ proj (idx (k + j)) (concat gs) = cs
                     /\ unparse_rec tgt noexc t' e (comps ++ [idx (k + j)]) = Ok cs
                     /\ dom tgt t' e (comps ++ [idx (k + j)]) = true).
  Proof.
    induction l as [|e r IH]; intros k gs Hd Hg.
    - injection Hg as <-. split; [intros ps []|intros [|j] e0 H; discriminate].
    - apply mapRi_ok_inv in Hg as (y & yr & Hy & Hyr & ->). cbv beta zeta in Hy.
      apply rmap_ok_inv in Hy as (cs & Hcs & ->).
      cbn [dom_elems] in Hd. cbv zeta in Hd. apply andb_true_iff in Hd as [Hd Hd3]. apply andb_true_iff in Hd as [Hw Hd2].
      destruct (IH (S k) yr Hd3 Hyr) as (A & B). cbn [concat length]. split.
      + intros ps Hps. apply in_app_or in Hps as [Hps|Hps].
        * apply prefix_cols_in_inv in Hps as (rest & s & -> & _). exists k, rest. split; [reflexivity|lia].
        * destruct (A ps Hps) as (i & rest & E & Hi). exists i, rest. split; [exact E|lia].
      + intros [|j] e0 He0; cbn [nth_error] in He0.
        * injection He0 as <-. rewrite Nat.add_0_r. exists cs. split; [apply (writes_inv tgt _ _ _ _ Hw Hcs)|].
          split; [|split; [exact Hcs|exact Hd2]].
          rewrite proj_app. fold (idx k). rewrite proj_prefix_same.
          rewrite (proj_none (idx k) (concat yr)); [apply app_nil_r|].
          intros ps Hps E. destruct (A ps Hps) as (i & rest & Ep & Hi). unfold head_of in E. rewrite Ep in E. cbn [hd] in E.
          apply idx_inj in E. lia.
        * destruct (B j e0 He0) as (cs0 & H1 & H2 & H3 & H4). replace (k + S j)%nat with (S k + j)%nat by lia.
          exists cs0. split; [exact H1|]. split; [|split; assumption].
          rewrite proj_app. fold (idx k). rewrite proj_prefix_other; [exact H2|]. intros E. apply idx_inj in E. lia.
  Qed.

  Lemma ulist_cols_spec comps : forall l k gs,
    forallb (fun e => match e with VStr s => trimmedb s | _ => false end) l = true ->
    mapRi (fun i e => let c := print_nat (S i) in
                      rmap (prefix_cols c) (unparse_u tgt noexc e (comps ++ [c]))) k l = Ok gs ->
    (forall ps, In ps (concat gs) -> exists i rest, fst ps = idx i :: rest /\ (k <= i < k + length l)%nat)
    /\ (forall j e, nth_error l j = Some e ->
          exists s, e = VStr s /\ trimmedb s = true /\ proj (idx (k + j)) (concat gs) = [([], s)]).
  Proof.
    induction l as [|e r IH]; intros k gs Hd Hg.
    - injection Hg as <-. split; [intros ps []|intros [|j] e0 H; discriminate].
    - apply mapRi_ok_inv in Hg as (y & yr & Hy & Hyr & ->). cbv beta zeta in Hy.
      cbn [forallb] in Hd. apply andb_true_iff in Hd as [Hs Hd3]. destruct e as [s| | | | |]; try discriminate.
      cbn [unparse_u noexc rmap] in Hy. injection Hy as <-.
      destruct (IH (S k) yr Hd3 Hyr) as (A & B). cbn [concat length]. split.
      + intros ps Hps. apply in_app_or in Hps as [Hps|Hps].
        * destruct Hps as [<-|[]]. exists k, []. split; [reflexivity|lia].
        * destruct (A ps Hps) as (i & rest & E & Hi). exists i, rest. split; [exact E|lia].
      + intros [|j] e0 He0; cbn [nth_error] in He0.
        * injection He0 as <-. rewrite Nat.add_0_r. exists s. split; [reflexivity|]. split; [exact Hs|].
          rewrite proj_app. fold (idx k). cbn [proj]. rewrite str_eqb_refl.
          rewrite (proj_none (idx k) (concat yr)); [reflexivity|].
          intros ps Hps E. destruct (A ps Hps) as (i & rest & Ep & Hi). unfold head_of in E. rewrite Ep in E. cbn [hd] in E.
          apply idx_inj in E. lia.
        * destruct (B j e0 He0) as (s0 & H1 & H2 & H3). replace (k + S j)%nat with (S k + j)%nat by lia.
          exists s0. split; [exact H1|]. split; [exact H2|].
          rewrite proj_app. fold (idx k). cbn [proj]. rewrite (str_eqb_neq (idx k) (idx (S k + j))); [exact H3|].
          intros E. apply idx_inj in E. lia.
  Qed.
End ListCols.

(* ---- the columns of a spread model, by field ------------------------------------------------------------ *)
Section ModelCols.
  Variable tgt : list str -> bool.

  (* a written (non-default) field and what its columns are *)
  Definition field_cols_ok (h2f f2h : remap) (comps : list str) (n : str) (tf : ty) (v' : value) (cs : cols) : Prop :=
    let h := remap_get f2h n in
    cs <> [] /\ remap_get h2f h = n
    /\ ((n = h /\ unparse_rec tgt noexc tf v' (comps ++ [h]) = Ok cs /\ dom tgt tf v' (comps ++ [h]) = true)
        \/ (exists s, cs = [([], s)] /\ write_text tf v' = Ok s
                      /\ (if is_basic_ty tf then basic_ok tf v' else packed_ok tf v') = true)).

  Lemma fields_cols_spec h2f f2h comps : forall fds fs gs,
    NoDup (map f_name fds) ->
    dom_fields tgt h2f f2h comps fds fs = true ->
    unparse_fields tgt f2h comps fds fs = Ok gs ->
    (forall ps, In ps (concat gs) ->
       fst ps <> [] /\ In (remap_get h2f (head_of ps)) (map f_name fds)
       /\ remap_get f2h (remap_get h2f (head_of ps)) = head_of ps)
    /\ (forall n tf d v', In ((n, (tf, d)), (n, v')) (combine fds fs) -> is_default d v' = false ->
          field_cols_ok h2f f2h comps n tf v' (proj (remap_get f2h n) (concat gs)))
    /\ (forall n tf d v', In ((n, (tf, d)), (n, v')) (combine fds fs) -> is_default d v' = true ->
          forall ps, In ps (concat gs) -> remap_get h2f (head_of ps) <> n).
  Proof.
    induction fds as [|[n [tf d]] r IH]; intros [|[n' v'] fs'] gs Hnd Hd Hu; cbn [dom_fields unparse_fields] in *; try discriminate.
    - injection Hu as <-. repeat split; try (intros ps []); intros; contradiction.
    - apply andb_true_iff in Hd as [Hd Hd3]. apply andb_true_iff in Hd as [Hn Hd2].
      rewrite Hn in Hu. cbn [negb] in Hu. apply str_eqb_eq in Hn. subst n'.
      cbn [map f_name fst] in Hnd. inversion Hnd as [|? ? Hnot Hnd']; subst. cbn [combine].
      destruct (is_default d v') eqn:Ed.
      + destruct (IH fs' gs Hnd' Hd3 Hu) as (A & B & C). split; [|split].
        * intros ps Hps. destruct (A ps Hps) as (A1 & A2 & A3). split; [exact A1|split; [right; exact A2|exact A3]].
        * intros n0 tf0 d0 v0 [Heq|Hin] Hdef; [injection Heq; intros; subst; congruence|apply (B n0 tf0 d0 v0 Hin Hdef)].
        * intros n0 tf0 d0 v0 [Heq|Hin] Hdef ps Hps; [|apply (C n0 tf0 d0 v0 Hin Hdef ps Hps)].
          injection Heq; intros; subst. destruct (A ps Hps) as (_ & A2 & _). intros E. rewrite E in A2. contradiction.
      + cbv zeta in Hd2, Hu. set (h := remap_get f2h n) in *.
        apply andb_true_iff in Hd2 as [Hd2 Hc]. apply andb_true_iff in Hd2 as [Hh Hk]. apply str_eqb_eq in Hk.
        apply bind_ok_inv in Hu as (here & Hhere & Hu). apply bind_ok_inv in Hu as (rr & Hr & Hu). injection Hu as <-.
        destruct (IH fs' rr Hnd' Hd3 Hr) as (A & B & C).
        assert (Hgrp : exists cs, here = prefix_cols h cs /\ field_cols_ok h2f f2h comps n tf v' cs).
        { unfold field_cols_ok. fold h. destruct (str_eqb n h) eqn:Enh.
          - apply andb_true_iff in Hc as [Hw Hdm]. apply rmap_ok_inv in Hhere as (cs & Hcs & ->).
            exists cs. split; [reflexivity|]. split; [apply (writes_inv tgt _ _ _ _ Hw Hcs)|]. split; [exact Hk|].
            left. apply str_eqb_eq in Enh. repeat split; assumption.
          - cbn [noexc] in Hhere. apply bind_ok_inv in Hhere as (s & Hs & Hhere). injection Hhere as <-.
            exists [([], s)]. split; [reflexivity|]. split; [discriminate|]. split; [exact Hk|].
            right. exists s. repeat split; assumption. }
        destruct Hgrp as (cs & -> & Hfc). cbn [concat].
        assert (Hrest_none : proj h (concat rr) = []).
        { apply proj_none. intros ps Hps E. destruct (A ps Hps) as (_ & A2 & _). rewrite E, Hk in A2. contradiction. }
        split; [|split].
        * intros ps Hps. apply in_app_or in Hps as [Hps|Hps].
          -- apply prefix_cols_in_inv in Hps as (rest & s & -> & _). unfold head_of. cbn [fst hd]. rewrite Hk.
             split; [discriminate|split; [left; reflexivity|reflexivity]].
          -- destruct (A ps Hps) as (A1 & A2 & A3). split; [exact A1|split; [right; exact A2|exact A3]].
        * intros n0 tf0 d0 v0 [Heq|Hin] Hdef.
          -- injection Heq; intros; subst n0 tf0 d0 v0. fold h. rewrite proj_app, proj_prefix_same, Hrest_none, app_nil_r. exact Hfc.
          -- pose proof (B n0 tf0 d0 v0 Hin Hdef) as Hb. rewrite proj_app.
             rewrite proj_prefix_other; [exact Hb|].
             intros E. destruct Hb as (_ & Hk0 & _). assert (En : n = n0) by (rewrite <- Hk, <- Hk0; f_equal; exact E).
             apply Hnot. rewrite En. pose proof (in_combine_l _ _ _ _ Hin) as Hin2.
             apply (in_map f_name) in Hin2. exact Hin2.
        * intros n0 tf0 d0 v0 [Heq|Hin] Hdef ps Hps; [injection Heq; intros; congruence|].
          apply in_app_or in Hps as [Hps|Hps]; [|apply (C n0 tf0 d0 v0 Hin Hdef ps Hps)].
          apply prefix_cols_in_inv in Hps as (rest & s & -> & _). unfold head_of. cbn [fst hd]. rewrite Hk.
          intros En. apply Hnot. rewrite En. pose proof (in_combine_l _ _ _ _ Hin) as Hin2.
          apply (in_map f_name) in Hin2. exact Hin2.
  Qed.
End ModelCols.

(* ---- small facts ------------------------------------------------------------------------------------ *)
Lemma proj_nonnil_in c cs : proj c cs <> [] -> exists ps, In ps cs /\ head_of ps = c /\ fst ps <> [].
Proof.
  induction cs as [|[p s] r IH]; cbn [proj]; [congruence|]. intros H.
  destruct p as [|h rest].
  - destruct (IH H) as (ps & Hin & E). exists ps. split; [right; exact Hin|exact E].
  - destruct (str_eqb h c) eqn:E.
    + apply str_eqb_eq in E. exists (h :: rest, s). split; [left; reflexivity|]. split; [exact E|discriminate].
    + destruct (IH H) as (ps & Hin & E2). exists ps. split; [right; exact Hin|exact E2].
Qed.

Lemma is_leaf_cols_false cs : cs <> [] -> paths_nonempty cs -> is_leaf_cols cs = false.
Proof.
  intros Hne Hp. destruct cs as [|[p s] r]; [congruence|]. inversion Hp as [|? ? Hp1 _]; subst. cbn [fst] in Hp1.
  unfold is_leaf_cols. cbn [forallb fst]. destruct p; [congruence|reflexivity].
Qed.

Lemma perm_singleton {X} (x : X) l : Permutation [x] l -> l = [x].
Proof. apply Permutation_length_1_inv. Qed.

Lemma paths_nonempty_perm a b : Permutation a b -> paths_nonempty a -> paths_nonempty b.
Proof. intros H. unfold paths_nonempty. apply Permutation_Forall, H. Qed.

Lemma names_ok_perm a b : Permutation a b -> names_ok a -> names_ok b.
Proof. intros H. unfold names_ok. apply Permutation_Forall, H. Qed.

Lemma field_lookup_name {A} (f : ty -> option value -> A) fields n :
  In n (map f_name fields) -> exists tf d, In (n, (tf, d)) fields.
Proof.
  intros H. apply in_map_iff in H as [[n0 [tf d]] [E Hin]]. cbn [f_name fst] in E. subst n0. exists tf, d. exact Hin.
Qed.

Lemma dget_filter_not_none (d : dict) k :
  dget d k <> Some ONone -> dget (filter not_none d) k = dget d k.
Proof.
  unfold dget. induction d as [|[k0 x0] r IH]; intros H; [reflexivity|]. cbn [oget] in H. cbn [filter oget].
  destruct (str_eqb k0 k) eqn:E.
  - assert (not_none (k0, x0) = true) by (unfold not_none; cbn [snd]; destruct x0; try reflexivity; congruence).
    rewrite H0. cbn [oget]. rewrite E. reflexivity.
  - destruct (not_none (k0, x0)); [cbn [oget]; rewrite E|]; apply IH, H.
Qed.

(* validate_fields from what the dict holds for each field *)
Definition field_read (d : dict) (n : str) (tf : ty) (dflt : option value) (v' : value) : Prop :=
  (is_default dflt v' = true /\ dget d n = None)
  \/ (exists o, dget d n = Some o /\ validate tf o = Ok v').

Lemma validate_fields_read d : forall fds fs,
  map f_name fds = map fst fs ->
  (forall n tf dflt v', In ((n, (tf, dflt)), (n, v')) (combine fds fs) -> field_read d n tf dflt v') ->
  validate_fields d fds = Ok fs.
Proof.
  induction fds as [|[n [tf dflt]] r IH]; intros [|[n' v'] fs'] Hn H; try discriminate; [reflexivity|].
  cbn [map f_name fst] in Hn. injection Hn as <- Hn. cbn [combine] in H. cbn [validate_fields].
  destruct (H n tf dflt v' (or_introl eq_refl)) as [[Hdef Hg]|(o & Hg & Hv)]; rewrite Hg.
  - rewrite (is_default_eq dflt v' Hdef). cbn [bind]. rewrite (IH fs' Hn); [reflexivity|].
    intros n0 tf0 d0 v0 Hin. apply H. right. exact Hin.
  - rewrite Hv. cbn [bind]. rewrite (IH fs' Hn); [reflexivity|].
    intros n0 tf0 d0 v0 Hin. apply H. right. exact Hin.
Qed.

Lemma field_read_filter d n tf dflt v' : field_read d n tf dflt v' -> field_read (filter not_none d) n tf dflt v'.
Proof.
  intros [[Hdef Hg]|(o & Hg & Hv)].
  - left. split; [exact Hdef|]. rewrite dget_filter_not_none; [exact Hg|]. rewrite Hg. discriminate.
  - right. exists o. split; [|exact Hv]. rewrite dget_filter_not_none; [exact Hg|]. rewrite Hg.
    intros E. injection E as ->. rewrite validate_none in Hv. discriminate.
Qed.

Lemma dom_fields_names tgt h2f f2h comps : forall fds fs,
  dom_fields tgt h2f f2h comps fds fs = true -> map f_name fds = map fst fs.
Proof.
  induction fds as [|[n [tf d]] r IH]; intros [|[n' v'] fs'] H; cbn [dom_fields] in H; try discriminate; [reflexivity|].
  apply andb_true_iff in H as [H H3]. apply andb_true_iff in H as [H1 _]. apply str_eqb_eq in H1. subst.
  cbn [map f_name fst]. f_equal. apply IH, H3.
Qed.

Lemma combine_same_name (fds : list field) (fs : list (str * value)) :
  map f_name fds = map fst fs ->
  forall n tf d, In (n, (tf, d)) fds -> exists v', In ((n, (tf, d)), (n, v')) (combine fds fs).
Proof.
  revert fs. induction fds as [|[n0 [tf0 d0]] r IH]; intros [|[n' v'] fs'] Hn n tf d Hin; try discriminate; [destruct Hin|].
  cbn [map f_name fst] in Hn. injection Hn as <- Hn. cbn [combine]. destruct Hin as [Heq|Hin].
  - injection Heq as -> -> ->. exists v'. left. reflexivity.
  - destruct (IH fs' Hn n tf d Hin) as (v0 & H0). exists v0. right. exact H0.
Qed.

(* ---- the induction ------------------------------------------------------------------------------------- *)
Section OrdFix.
  Variable f2h : remap.
  Variable cs : cols.
  Fixpoint ord_fields (fds : list field) : bool :=
    match fds with
    | [] => true
    | (n, (tf, _)) :: r => cols_ordered tf (proj (remap_get f2h n) cs) && ord_fields r
    end.
End OrdFix.

Lemma cols_ordered_unfold t cs :
  cols_ordered t cs =
  if is_leaf_cols cs then true
  else match t with
       | TList t' =>
         match list_scan 0 (map head_of cs) with
         | Some n => forallb (fun i => cols_ordered t' (proj (idx i) cs)) (seq 0 n)
         | None => false
         end
       | TUList => match list_scan 0 (map head_of cs) with Some _ => true | None => false end
       | TModel fields _ f2h => ord_fields f2h cs fields
       | _ => true
       end.
Proof. destruct t; reflexivity. Qed.

Lemma ord_fields_in f2h cs fds n tf d :
  ord_fields f2h cs fds = true -> In (n, (tf, d)) fds -> cols_ordered tf (proj (remap_get f2h n) cs) = true.
Proof.
  induction fds as [|[n0 [tf0 d0]] r IH]; [intros _ []|]. cbn [ord_fields]. intros H Hin.
  apply andb_true_iff in H as [H1 H2]. destruct Hin as [Heq|Hin]; [injection Heq as -> -> ->; exact H1|apply IH; assumption].
Qed.

Section Ordered.
  Variable tgt : list str -> bool.

  Definition child_ord (t : ty) : Prop :=
    forall v comps cs cs',
      dom tgt t v comps = true -> unparse_rec tgt noexc t v comps = Ok cs -> cs <> [] ->
      Permutation cs cs' -> cols_ordered t cs' = true ->
      exists o, puts t cs' ONone = Ok o /\ validate t o = Ok v.

  Lemma ord_leaf t v comps cs cs' :
    is_basic_ty t || tgt comps = true ->
    dom tgt t v comps = true -> unparse_rec tgt noexc t v comps = Ok cs -> Permutation cs cs' ->
    exists o, puts t cs' ONone = Ok o /\ validate t o = Ok v.
  Proof.
    intros Hl Hd Hu Hp. destruct (child_leaf tgt t v comps cs Hl Hd Hu) as [Hput _].
    pose proof Hu as Hu'. rewrite unparse_rec_unfold, Hl in Hu'. apply bind_ok_inv in Hu' as (s & _ & Hu'). injection Hu' as <-.
    apply perm_singleton in Hp. subst cs'. exists (enc t v). split; [exact Hput|apply (validate_enc tgt t v comps Hd)].
  Qed.

  (* a spread model: the dict the (reordered) columns build *)
  Lemma model_read fields h2f f2h comps fs gs cs' :
    Forall (fun f => child_ord (f_ty f)) fields ->
    NoDup (map f_name fields) ->
    dom_fields tgt h2f f2h comps fields fs = true ->
    unparse_fields tgt f2h comps fields fs = Ok gs ->
    Permutation (concat gs) cs' ->
    ord_fields f2h cs' fields = true ->
    exists d, fill (TModel fields h2f f2h) cs' (ODict []) = Ok (ODict d)
      /\ forall n tf dflt v', In ((n, (tf, dflt)), (n, v')) (combine fields fs) -> field_read d n tf dflt v'.
  Proof.
    intros IH Hnd Hd Hu Hperm Hord.
    destruct (fields_cols_spec tgt h2f f2h comps fields fs gs Hnd Hd Hu) as (A & B & C).
    set (cs := concat gs) in *.
    assert (Hin' : forall ps, In ps cs' -> In ps cs) by (intros ps Hps; apply (Permutation_in _ (Permutation_sym Hperm) Hps)).
    assert (Hheads' : forall h, In h (heads cs') -> exists ps, In ps cs /\ head_of ps = h).
    { intros h Hh. unfold heads in Hh. apply in_map_iff in Hh as (ps & E & Hps). exists ps. split; [apply Hin', Hps|exact E]. }
    pose proof (dom_fields_names tgt h2f f2h comps fields fs Hd) as Hnames.
    (* every written field reads back from its own columns, in whatever admissible order *)
    assert (Hfield : forall n tf dflt v', In ((n, (tf, dflt)), (n, v')) (combine fields fs) -> is_default dflt v' = false ->
               exists o, puts tf (proj (remap_get f2h n) cs') ONone = Ok o /\ validate tf o = Ok v'
                         /\ proj (remap_get f2h n) cs <> [] /\ remap_get h2f (remap_get f2h n) = n).
    { intros n tf dflt v' Hin Hdef. destruct (B n tf dflt v' Hin Hdef) as (Hne & Hk & Hcase).
      pose proof (proj_perm (remap_get f2h n) _ _ Hperm) as Hpp. fold cs in Hpp.
      pose proof (in_combine_l _ _ _ _ Hin) as Hinf.
      destruct Hcase as [(Hsame & Hcs & Hdm)|(s & Hcs & Hw & Hleaf)].
      - rewrite Forall_forall in IH. specialize (IH _ Hinf). cbn [f_ty fst snd] in IH.
        destruct (IH v' _ _ _ Hdm Hcs Hne Hpp (ord_fields_in f2h cs' fields n tf dflt Hord Hinf)) as (o & Ho & Hv).
        exists o. repeat split; assumption.
      - rewrite Hcs in Hpp. apply perm_singleton in Hpp. rewrite Hpp. exists (enc tf v').
        split; [unfold puts; cbn [foldM fst snd put]; rewrite (leaf_ok tf v' s ONone Hleaf Hw); reflexivity|].
        split; [|split; [exact Hne|exact Hk]].
        destruct (is_basic_ty tf) eqn:Hb; [apply validate_basic|apply validate_packed]; assumption. }
    (* the head of a column determines its field *)
    assert (Hhead_field : forall h, In h (heads cs') ->
               exists n tf dflt v', In ((n, (tf, dflt)), (n, v')) (combine fields fs) /\ is_default dflt v' = false
                                   /\ remap_get h2f h = n /\ remap_get f2h n = h).
    { intros h Hh. destruct (Hheads' h Hh) as (ps & Hps & <-). destruct (A ps Hps) as (_ & A2 & A3).
      destruct (field_lookup_name (fun tf _ => tf) fields _ A2) as (tf & dflt & Hf).
      destruct (combine_same_name fields fs Hnames _ tf dflt Hf) as (v' & Hc).
      exists (remap_get h2f (head_of ps)), tf, dflt, v'. split; [exact Hc|]. split; [|split; [reflexivity|exact A3]].
      destruct (is_default dflt v') eqn:Ed; [|reflexivity]. exfalso. apply (C _ tf dflt v' Hc Ed ps Hps). reflexivity. }
    destruct (fill_model_proj fields h2f f2h cs' []) as (d & Hfill & Hsame & Hother).
    - apply (paths_nonempty_perm _ _ Hperm). apply Forall_forall. intros ps Hps. apply (A ps Hps).
    - intros h Hh. destruct (Hhead_field h Hh) as (n & tf & dflt & v' & Hc & _ & Hk & _).
      exists tf. rewrite Hk. apply (field_lookup_in (fun tf0 _ => tf0) fields n tf dflt Hnd (in_combine_l _ _ _ _ Hc)).
    - intros a b Ha Hb E. destruct (Hhead_field a Ha) as (na & _ & _ & _ & _ & _ & Hka & Hfa).
      destruct (Hhead_field b Hb) as (nb & _ & _ & _ & _ & _ & Hkb & Hfb). rewrite <- Hfa, <- Hfb. f_equal. congruence.
    - intros h ct Hh Hlk. destruct (Hhead_field h Hh) as (n & tf & dflt & v' & Hc & Hdef & Hk & Hf).
      destruct (Hfield n tf dflt v' Hc Hdef) as (o & Ho & _). rewrite Hk in Hlk |- *.
      rewrite (field_lookup_in (fun tf0 _ => tf0) fields n tf dflt Hnd (in_combine_l _ _ _ _ Hc)) in Hlk. injection Hlk as <-.
      exists o. rewrite <- Hf. exact Ho.
    - exists d. split; [exact Hfill|]. intros n tf dflt v' Hc. unfold field_read.
      destruct (is_default dflt v') eqn:Hdef.
      + left. split; [reflexivity|]. rewrite Hother; [reflexivity|].
        intros h Hh. destruct (Hheads' h Hh) as (ps & Hps & <-). apply (C n tf dflt v' Hc Hdef ps Hps).
      + right. destruct (Hfield n tf dflt v' Hc Hdef) as (o & Ho & Hv & Hne & Hk). exists o. split; [|exact Hv].
        set (h := remap_get f2h n) in *.
        assert (Hh : In h (heads cs')).
        { destruct (proj_nonnil_in h cs Hne) as (ps & Hps & E & _). unfold heads. rewrite <- E. apply in_map.
          apply (Permutation_in _ Hperm Hps). }
        pose proof (field_lookup_in (fun tf0 _ => tf0) fields n tf dflt Hnd (in_combine_l _ _ _ _ Hc)) as Hlk.
        rewrite <- Hk in Hlk. pose proof (Hsame h tf o Hh Hlk Ho) as Hcur. rewrite Hk in Hcur.
        unfold cur_of in Hcur. destruct (dget d n) as [x|]; [congruence|].
        subst o. rewrite validate_none in Hv. discriminate.
  Qed.

  Lemma validate_model_read fields h2f f2h d fs :
    map f_name fields = map fst fs ->
    (forall n tf dflt v', In ((n, (tf, dflt)), (n, v')) (combine fields fs) -> field_read d n tf dflt v') ->
    validate (TModel fields h2f f2h) (ODict d) = Ok (VModel fs).
  Proof. intros Hn H. rewrite validate_model, (validate_fields_read d fields fs Hn H). reflexivity. Qed.

  Theorem ordered_ok : forall t, child_ord t.
  Proof.
    induction t as [| | | | |t' IH|fields h2f f2h IH] using ty_ind'; intros v comps cs cs' Hd Hu Hne Hperm Hord;
      try (apply (ord_leaf _ v comps cs cs'); [reflexivity|exact Hd|exact Hu|exact Hperm]);
      (destruct (tgt comps) eqn:Et;
       [apply (ord_leaf _ v comps cs cs'); [cbn; rewrite Et; reflexivity|exact Hd|exact Hu|exact Hperm]|]);
      pose proof Hd as Hd0; rewrite unparse_rec_unfold in Hu; rewrite dom_unfold in Hd; cbn [is_basic_ty orb] in Hu, Hd;
      rewrite Et in Hu, Hd.
    - (* bare list *)
      destruct v as [| | | |l|]; try discriminate. apply rmap_ok_inv in Hu as (gs & Hgs & ->).
      destruct (ulist_cols_spec tgt comps l 0 gs Hd Hgs) as (A & B). cbn [Nat.add] in A, B.
      assert (Hpne : paths_nonempty cs').
      { apply (paths_nonempty_perm _ _ Hperm). apply Forall_forall. intros ps Hps. destruct (A ps Hps) as (i & rest & E & _).
        rewrite E. discriminate. }
      assert (Hne' : cs' <> []) by (intros ->; apply Permutation_sym, Permutation_nil in Hperm; contradiction).
      rewrite cols_ordered_unfold, (is_leaf_cols_false cs' Hne' Hpne) in Hord.
      destruct (list_scan 0 (map head_of cs')) as [n|] eqn:Escan; [|discriminate].
      destruct (list_scan_spec _ _ _ Escan) as (_ & S2 & S3).
      assert (Hn : n = length l).
      { apply Nat.le_antisymm.
        - destruct n as [|n']; [lia|]. pose proof (S3 n' ltac:(lia)) as Hin. apply in_map_iff in Hin as (ps & E & Hps).
          apply (Permutation_in _ (Permutation_sym Hperm)) in Hps. destruct (A ps Hps) as (i & rest & Ep & Hi).
          unfold head_of in E. rewrite Ep in E. cbn [hd] in E. apply idx_inj in E. lia.
        - destruct (length l) as [|m] eqn:El; [lia|].
          destruct (nth_error l m) as [e|] eqn:Ee; [|apply nth_error_None in Ee; lia].
          destruct (B m e Ee) as (s & _ & _ & Hpr).
          destruct (proj_nonnil_in (idx m) (concat gs)) as (ps & Hps & E & _); [rewrite Hpr; discriminate|].
          apply (Permutation_in _ Hperm) in Hps. destruct (S2 (head_of ps) (in_map head_of _ _ Hps)) as (i & Hi & E2).
          rewrite E in E2. apply idx_inj in E2. lia. }
      destruct (fill_list_proj TUList eq_refl cs' [] n) as (l' & Hfill & Hlen & Hnth).
      + intros ps Hps. apply (Permutation_in _ (Permutation_sym Hperm)) in Hps. destruct (A ps Hps) as (i & rest & E & _). eauto.
      + exact Escan.
      + intros i Hi. destruct (nth_error l i) as [e|] eqn:Ee; [|apply nth_error_None in Ee; lia].
        destruct (B i e Ee) as (s & -> & Hs & Hpr). pose proof (proj_perm (idx i) _ _ Hperm) as Hpp. rewrite Hpr in Hpp.
        apply perm_singleton in Hpp. rewrite Hpp. cbn [child_ty]. exists (OStr s). destruct i; reflexivity || idtac.
        all: unfold puts; cbn [foldM fst snd put nth]; unfold leaf_assign, leaf_value;
          cbn [is_list_ty is_model_ty orb assign_value bind]; rewrite (trimmedb_strip s Hs); reflexivity.
      + exists (OList l'). split; [rewrite puts_fresh_list; [exact Hfill|reflexivity|exact Hpne|exact Hne']|].
        cbn [validate]. rewrite (mapR_by_nth out_to_value (VStr []) l' l); [reflexivity|lia|].
        intros i Hi. destruct (nth_error l i) as [e|] eqn:Ee; [|apply nth_error_None in Ee; lia].
        destruct (B i e Ee) as (s & -> & Hs & Hpr). rewrite (nth_error_nth l i (VStr []) Ee).
        rewrite (Hnth i (OStr s)); [reflexivity|lia|].
        pose proof (proj_perm (idx i) _ _ Hperm) as Hpp. rewrite Hpr in Hpp. apply perm_singleton in Hpp. rewrite Hpp.
        cbn [child_ty]. replace (nth i [] ONone) with ONone by (destruct i; reflexivity).
        unfold puts; cbn [foldM fst snd put]; unfold leaf_assign, leaf_value;
          cbn [is_list_ty is_model_ty orb assign_value bind]; rewrite (trimmedb_strip s Hs); reflexivity.
    - (* typed list *)
      destruct v as [| | | |l|]; try discriminate. apply rmap_ok_inv in Hu as (gs & Hgs & ->).
      destruct (elems_cols_spec tgt t' comps l 0 gs Hd Hgs) as (A & B). cbn [Nat.add] in A, B.
      assert (Hpne : paths_nonempty cs').
      { apply (paths_nonempty_perm _ _ Hperm). apply Forall_forall. intros ps Hps. destruct (A ps Hps) as (i & rest & E & _).
        rewrite E. discriminate. }
      assert (Hne' : cs' <> []) by (intros ->; apply Permutation_sym, Permutation_nil in Hperm; contradiction).
      rewrite cols_ordered_unfold, (is_leaf_cols_false cs' Hne' Hpne) in Hord.
      destruct (list_scan 0 (map head_of cs')) as [n|] eqn:Escan; [|discriminate].
      destruct (list_scan_spec _ _ _ Escan) as (_ & S2 & S3).
      assert (Hn : n = length l).
      { apply Nat.le_antisymm.
        - destruct n as [|n']; [lia|]. pose proof (S3 n' ltac:(lia)) as Hin. apply in_map_iff in Hin as (ps & E & Hps).
          apply (Permutation_in _ (Permutation_sym Hperm)) in Hps. destruct (A ps Hps) as (i & rest & Ep & Hi).
          unfold head_of in E. rewrite Ep in E. cbn [hd] in E. apply idx_inj in E. lia.
        - destruct (length l) as [|m] eqn:El; [lia|].
          destruct (nth_error l m) as [e|] eqn:Ee; [|apply nth_error_None in Ee; lia].
          destruct (B m e Ee) as (cs0 & Hne0 & Hpr & _).
          destruct (proj_nonnil_in (idx m) (concat gs)) as (ps & Hps & E & _); [rewrite Hpr; exact Hne0|].
          apply (Permutation_in _ Hperm) in Hps. destruct (S2 (head_of ps) (in_map head_of _ _ Hps)) as (i & Hi & E2).
          rewrite E in E2. apply idx_inj in E2. lia. }
      (* every element reads back from its own columns *)
      assert (Helem : forall i e, nth_error l i = Some e ->
                exists o, puts t' (proj (idx i) cs') ONone = Ok o /\ validate t' o = Ok e).
      { intros i e Ee. destruct (B i e Ee) as (cs0 & Hne0 & Hpr & Hcs0 & Hdm).
        pose proof (proj_perm (idx i) _ _ Hperm) as Hpp. rewrite Hpr in Hpp.
        apply (IH e _ cs0 _ Hdm Hcs0 Hne0 Hpp).
        rewrite forallb_forall in Hord. apply Hord. apply in_seq.
        assert (i < length l)%nat by (apply nth_error_Some; congruence). lia. }
      destruct (fill_list_proj (TList t') eq_refl cs' [] n) as (l' & Hfill & Hlen & Hnth).
      + intros ps Hps. apply (Permutation_in _ (Permutation_sym Hperm)) in Hps. destruct (A ps Hps) as (i & rest & E & _). eauto.
      + exact Escan.
      + intros i Hi. destruct (nth_error l i) as [e|] eqn:Ee; [|apply nth_error_None in Ee; lia].
        destruct (Helem i e Ee) as (o & Ho & _). cbn [child_ty]. exists o.
        replace (nth i [] ONone) with ONone by (destruct i; reflexivity). exact Ho.
      + exists (OList l'). split; [rewrite puts_fresh_list; [exact Hfill|reflexivity|exact Hpne|exact Hne']|].
        cbn [validate]. rewrite (mapR_by_nth (validate t') (VStr []) l' l); [reflexivity|lia|].
        intros i Hi. destruct (nth_error l i) as [e|] eqn:Ee; [|apply nth_error_None in Ee; lia].
        destruct (Helem i e Ee) as (o & Ho & Hv). rewrite (nth_error_nth l i (VStr []) Ee).
        rewrite (Hnth i o); [exact Hv|lia|]. cbn [child_ty].
        replace (nth i [] ONone) with ONone by (destruct i; reflexivity). exact Ho.
    - (* model *)
      destruct v as [| | | | |fs]; try discriminate. apply rmap_ok_inv in Hu as (gs & Hgs & ->).
      apply andb_true_iff in Hd as [Hnames Hd]. apply nodup_str_NoDup in Hnames.
      assert (Hpne : paths_nonempty cs').
      { apply (paths_nonempty_perm _ _ Hperm). apply Forall_forall. intros ps Hps.
        destruct (fields_cols_spec tgt h2f f2h comps fields fs gs Hnames Hd Hgs) as (A & _). apply (A ps Hps). }
      assert (Hne' : cs' <> []) by (intros ->; apply Permutation_sym, Permutation_nil in Hperm; contradiction).
      rewrite cols_ordered_unfold, (is_leaf_cols_false cs' Hne' Hpne) in Hord.
      destruct (model_read fields h2f f2h comps fs gs cs' IH Hnames Hd Hgs Hperm Hord) as (d & Hfill & Hread).
      exists (ODict d). split; [rewrite puts_fresh_model; [exact Hfill|reflexivity|exact Hpne|exact Hne']|].
      apply validate_model_read; [apply (dom_fields_names tgt h2f f2h comps), Hd|exact Hread].
  Qed.
End Ordered.

(* ---- the row ---------------------------------------------------------------------------------------------- *)
(* the columns of a sheet row as paths: the header split at "." *)
Definition cols_of_cells (cells : list (str * str)) : cols :=
  map (fun kv => (split_char c_dot (fst kv), snd kv)) cells.

Lemma cells_of_cols_of_cells cells : cells_of (cols_of_cells cells) = cells.
Proof.
  unfold cells_of, cols_of_cells. rewrite map_map. cbn [fst snd].
  rewrite <- (map_id cells) at 2. apply map_ext. intros [k s]. cbn [fst snd]. unfold header_of.
  rewrite join_split_char. reflexivity.
Qed.

Lemma cols_of_cells_of cs : paths_nonempty cs -> names_ok cs -> cols_of_cells (cells_of cs) = cs.
Proof.
  intros Hp Hn. unfold cells_of, cols_of_cells. rewrite map_map. cbn [fst snd].
  rewrite <- (map_id cs) at 2. apply map_ext_in. intros [p s] Hin. cbn [fst snd]. f_equal.
  unfold paths_nonempty, names_ok in *. rewrite Forall_forall in Hp, Hn. specialize (Hp _ Hin). specialize (Hn _ Hin).
  cbn [fst] in Hp, Hn. unfold header_of. apply split_join_char; [exact Hp|].
  rewrite Forall_forall in *. intros c Hc. specialize (Hn c Hc). apply name_ok_inv in Hn. tauto.
Qed.

Lemma ord_fields_nil f2h fds : ord_fields f2h [] fds = true.
Proof. induction fds as [|[n [tf d]] r IH]; [reflexivity|]. cbn [ord_fields proj]. rewrite IH. destruct tf; reflexivity. Qed.

(* C07-3 *)
Theorem header_order_irrelevant root v targets cells cells' :
  row_dom root v targets = true ->
  unparse_row root v targets [] = Ok cells ->
  Permutation cells cells' ->
  cols_ordered root (cols_of_cells cells') = true ->
  parse_row {| rm_ty := root; rm_ctx := None |} cells' = Ok v.
Proof.
  intros Hd Hu Hperm Hord.
  assert (Hshape : exists fields h2f f2h fs, root = TModel fields h2f f2h /\ v = VModel fs).
  { unfold row_dom in Hd. apply andb_true_iff in Hd as [Hm Hd]. destruct root as [| | | | | |fields h2f f2h]; try discriminate.
    rewrite dom_unfold in Hd. cbn [is_basic_ty] in Hd. replace (matches_headers targets []) with false in Hd by reflexivity.
    destruct v as [| | | | |fs]; try discriminate. exists fields, h2f, f2h, fs. split; reflexivity. }
  destruct Hshape as (fields & h2f & f2h & fs & -> & ->).
  destruct (root_written fields h2f f2h fs targets cells Hd Hu) as (gs & -> & Hgs & Hdf & Hnames & Hnd & _ & F2 & F3).
  set (tgt := matches_headers targets) in *. set (cs := concat gs) in *. set (cs' := cols_of_cells cells') in *.
  assert (Hpcs : Permutation cs cs').
  { rewrite <- (cols_of_cells_of cs F2 F3). unfold cs', cols_of_cells. apply Permutation_map, Hperm. }
  pose proof (paths_nonempty_perm _ _ Hpcs F2) as F2'. pose proof (names_ok_perm _ _ Hpcs F3) as F3'.
  assert (Hcells' : cells' = cells_of cs') by (symmetry; apply cells_of_cols_of_cells).
  assert (Hnd' : NoDup (map fst cells')) by (apply (Permutation_NoDup (Permutation_map fst Hperm) Hnd)).
  pose proof (nodup_str_NoDup _ Hnames) as Hnames'.
  assert (Hordf : ord_fields f2h cs' fields = true).
  { destruct cs' as [|c0 cr] eqn:Ecs; [apply ord_fields_nil|].
    rewrite cols_ordered_unfold, (is_leaf_cols_false (c0 :: cr) ltac:(discriminate) F2') in Hord. exact Hord. }
  destruct (model_read tgt fields h2f f2h [] fs gs cs'
              (proj2 (Forall_forall _ _) (fun f _ => ordered_ok tgt (f_ty f))) Hnames' Hdf Hgs Hpcs Hordf) as (d & Hfill & Hread).
  unfold parse_row. cbn [rm_ctx rm_ty]. rewrite (rekey_none _ Hnd'). cbn [bind].
  rewrite expand_no_star.
  - rewrite Hcells', (parse_cols_fill _ _ _ F2' F3'), Hfill. cbn [bind].
    apply validate_model_read; [apply (dom_fields_names tgt h2f f2h []), Hdf|].
    intros n tf dflt v' Hin. apply field_read_filter, Hread, Hin.
  - rewrite Hcells'. unfold cells_of. apply Forall_forall. intros kv Hin. apply in_map_iff in Hin as [ps [<- Hps]]. cbn [fst].
    apply header_no_star. unfold names_ok in F3'. rewrite Forall_forall in F3'. apply F3', Hps.
Qed.

(* ---- a decision procedure for Permutation on concrete cell lists (for the Examples) ------------------ *)
Section IsPerm.
  Context {X : Type}.
  Variable eqb : X -> X -> bool.
  Hypothesis eqb_eq : forall a b, eqb a b = true -> a = b.

  Fixpoint remove_first (x : X) (l : list X) : option (list X) :=
    match l with
    | [] => None
    | y :: r => if eqb x y then Some r
                else match remove_first x r with Some r' => Some (y :: r') | None => None end
    end.

  Fixpoint is_perm (l l' : list X) : bool :=
    match l with
    | [] => is_nil l'
    | x :: r => match remove_first x l' with Some l'' => is_perm r l'' | None => false end
    end.

  Lemma remove_first_perm x l l' : remove_first x l = Some l' -> Permutation l (x :: l').
  Proof.
    revert l'. induction l as [|y r IH]; intros l' H; cbn [remove_first] in H; [discriminate|].
    destruct (eqb x y) eqn:E.
    - apply eqb_eq in E. subst y. injection H as <-. reflexivity.
    - destruct (remove_first x r) as [r'|]; [|discriminate]. injection H as <-.
      eapply perm_trans; [apply perm_skip, (IH r' eq_refl)|apply perm_swap].
  Qed.

  Lemma is_perm_sound l : forall l', is_perm l l' = true -> Permutation l l'.
  Proof.
    induction l as [|x r IH]; intros l' H; cbn [is_perm] in H.
    - destruct l'; [constructor|discriminate].
    - destruct (remove_first x l') as [l''|] eqn:E; [|discriminate].
      eapply perm_trans; [apply perm_skip, (IH l'' H)|apply Permutation_sym, (remove_first_perm _ _ _ E)].
  Qed.
End IsPerm.

Definition cell_eqb (a b : str * str) : bool := str_eqb (fst a) (fst b) && str_eqb (snd a) (snd b).
Lemma cell_eqb_eq a b : cell_eqb a b = true -> a = b.
Proof.
  destruct a, b. unfold cell_eqb. cbn [fst snd]. intros H. apply andb_true_iff in H as [H1 H2].
  apply str_eqb_eq in H1. apply str_eqb_eq in H2. subst. reflexivity.
Qed.

(* the example row of Row/RoundTripExamples.v with its columns shuffled (d.1 before d.2, u.1 before u.2) *)
Definition ex_cells_shuffled : list (str * str) :=
  [([104; 100; 114], [107; 59; 118; 124; 122; 59]); ([99; 46; 121], [45; 53]); ([100; 46; 49], [120; 59; 113; 124]); ([117; 46; 49], [120; 32; 121]); ([97], [104; 124; 105; 59; 92]);
   ([100; 46; 50], [121; 59; 55; 124]); ([103], [70; 97; 108; 115; 101]); ([99; 46; 120], [113]); ([117; 46; 50], 97 :: 10 :: [98]); ([101], [45; 50; 46; 50; 53]);
   ([98], [49; 124; 92; 59; 32; 50; 124] ++ 233 :: [97])].

Lemma ex_shuffled_hyps :
  Permutation ex_cells ex_cells_shuffled /\ cols_ordered ex_ty (cols_of_cells ex_cells_shuffled) = true.
Proof.
  split; [apply (is_perm_sound cell_eqb cell_eqb_eq); vm_compute; reflexivity|vm_compute; reflexivity].
Qed.

(* without the ordering condition the statement is false: u.2 before u.1 *)
Definition ex_cells_bad_order : list (str * str) :=
  [([97], [104; 124; 105; 59; 92]); ([98], [49; 124; 92; 59; 32; 50; 124] ++ 233 :: [97]); ([99; 46; 120], [113]); ([99; 46; 121], [45; 53]); ([100; 46; 49], [120; 59; 113; 124]); ([100; 46; 50], [121; 59; 55; 124]);
   ([101], [45; 50; 46; 50; 53]); ([103], [70; 97; 108; 115; 101]); ([117; 46; 50], 97 :: 10 :: [98]); ([117; 46; 49], [120; 32; 121]); ([104; 100; 114], [107; 59; 118; 124; 122; 59])].

Lemma header_order_unrestricted_refuted :
  Permutation ex_cells ex_cells_bad_order
  /\ cols_ordered ex_ty (cols_of_cells ex_cells_bad_order) = false
  /\ parse_row {| rm_ty := ex_ty; rm_ctx := None |} ex_cells_bad_order = Err EAssert.
Proof.
  split; [apply (is_perm_sound cell_eqb cell_eqb_eq); vm_compute; reflexivity|split; vm_compute; reflexivity].
Qed.
