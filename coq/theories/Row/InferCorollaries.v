(* C18 — corollaries of the headline theorem, the decision of the full-strength default
   clause, and the non-vacuity witnesses quoted in props/C18.v. *)
From Coq Require Import List NArith ZArith Bool Lia.
From RPFT Require Import Base.Sexp Base.PyStr Base.Result Gen.Tables
  Row.InferTy Row.Infer Row.InferFacts Row.InferMainFacts Row.InferOrderFacts.
Import ListNotations.
Local Open Scope N_scope.

(* ---- every row parses under the inferred model as under the denoted model: whatever the
   row parser is (any function of the model and the row) *)
Lemma inferred_parses_same (R Row : Type) (parse_row : model -> Row -> R) sc row :
  wf_schema sc = true ->
  rmap (fun m => parse_row m row) (infer (headers_of sc)) = Ok (parse_row (denote sc) row).
Proof. intros H. rewrite (infer_headers_of sc H). reflexivity. Qed.

(* ---- the inferred structure does not depend on cell contents: by type *)
Lemma content_independent (t1 t2 : data_table) : dt_headers t1 = dt_headers t2 -> sheet_model t1 = sheet_model t2.
Proof. unfold sheet_model. intros ->. reflexivity. Qed.

Lemma sheet_model_of_schema sc rows :
  wf_schema sc = true -> sheet_model (mk_table (headers_of sc) rows) = Ok (fst (denote sc)).
Proof.
  intros H. unfold sheet_model, model_from_headers. cbn [dt_headers].
  rewrite (infer_headers_of sc H). destruct (denote sc). reflexivity.
Qed.

(* ---- witnesses *)
Definition nm (c : N) : str := [c].
Definition lf (l : leaf) : sty := SLeaf no_pads l.
Definition ex_pads : pads := mk_pads [32] [32; 9] [32] [32] [32] [32; 32].

(* a  b.x:int=-12  b.y.1.p:bool=True  b.y.1.q.1:float=1e3  b.y.1.q.2:float  b.y.2.p:bool
   b.z:List[List[int]]  c.1:str=hi  c.2  c.3:int=7  d.1.1:int d.1.2:int=3 d.2.1  e=x=1
   (depth 4, padded annotations, lists of records, lists of lists, a default containing '=') *)
Definition ex_deep : schema :=
  [ (nm 97, lf (LStr false None));
    (nm 98, SRec [ (nm 120, SLeaf ex_pads (LInt (Some (-12)%Z)));
                   (nm 121, SSpread [ SRec [(nm 112, lf (LBool (Some true)));
                                            (nm 113, SSpread [lf (LFloat (Some [49; 101; 51])); lf (LFloat None)])];
                                      SRec [(nm 112, lf (LBool None))] ]);
                   (nm 122, lf (LAnn (AList (AList AInt)))) ]);
    (nm 99, SSpread [SLeaf ex_pads (LStr true (Some [104; 105])); lf (LStr false None); lf (LInt (Some 7%Z))]);
    (nm 100, SSpread [SSpread [lf (LInt None); lf (LInt (Some 3%Z))]; SSpread [lf (LStr false None)]]);
    (nm 101, SLeaf ex_pads (LStr false (Some [120; 61; 49]))) ].

Lemma ex_deep_wf : wf_schema ex_deep = true.
Proof. vm_compute. reflexivity. Qed.

Lemma ex_deep_headers : length (headers_of ex_deep) = 14%nat /\ In [32; 101; 32; 9; 61; 32; 120; 61; 49; 32; 32] (headers_of ex_deep).
Proof. vm_compute. split; [reflexivity|]. repeat (first [left; reflexivity|right]). Qed.

(* a deeper chain a.1.b.1.c.1.d.1.e:int=5 (depth 9) *)
Fixpoint ex_chain (n : nat) : sty :=
  match n with
  | O => lf (LInt (Some 5%Z))
  | S k => SRec [(nm 98, SSpread [ex_chain k])]
  end.
Lemma ex_chain_wf : wf_schema [(nm 97, ex_chain 4)] = true.
Proof. vm_compute. reflexivity. Qed.

(* the order facts are about something: a list where the partition moves columns
   (no annotation contains a period: the same under both behaviours) *)
Definition ex_mixed : list str := [[98; 46; 120]; [97]; [99; 46; 49]; [98; 46; 121]; [100; 58; 105; 110; 116]].
Lemma ex_mixed_moves bn :
  stable_partition bn ex_mixed <> ex_mixed /\ prefixes bn ex_mixed = [[98]; [99]]
  /\ subs_of bn [98] ex_mixed = [[120]; [121]] /\ exists m, infer_at bn ex_mixed = Ok m.
Proof.
  destruct bn.
  - split; [vm_compute; discriminate|]. split; [vm_compute; reflexivity|]. split; [vm_compute; reflexivity|].
    eexists. vm_compute. reflexivity.
  - split; [vm_compute; discriminate|]. split; [vm_compute; reflexivity|]. split; [vm_compute; reflexivity|].
    eexists. vm_compute. reflexivity.
Qed.

Lemma ex_mixed_class bn : exists fields d, infer_at bn ex_mixed = Ok (TRec fields, d).
Proof. destruct bn; eexists; eexists; vm_compute; reflexivity. Qed.

(* ---- the default clause at full strength: x:float=1.5 *)
Definition ex_dot : schema := [(nm 120, lf (LFloat (Some [49; 46; 53])))].

Lemma ex_dot_full : wf_schema_full ex_dot = true /\ wf_schema ex_dot = false.
Proof. split; vm_compute; reflexivity. Qed.

(* the headline over the full family, for the behaviour [bn] *)
Definition headline_full_at (bn : bool) : Prop :=
  forall sc, wf_schema_full sc = true -> infer_at bn (headers_of sc) = Ok (denote sc).

(* looking for the separator in the field name only (the repaired code): it holds *)
Lemma headline_full_by_name : headline_full_at true.
Proof. exact infer_by_name_headers_of_full. Qed.

(* looking for it in the whole header (the code with the defect): refuted by x:float=1.5 *)
Lemma headline_full_whole_header_refuted : ~ headline_full_at false.
Proof.
  intros H. specialize (H ex_dot (proj1 ex_dot_full)). vm_compute in H. discriminate.
Qed.

(* the two behaviours differ exactly there: x:float=1.5 is one float column with default 1.5
   for the first, a field named "x:float=1" holding a list for the second *)
Lemma ex_dot_by_name : infer_at true (headers_of ex_dot) = Ok (TRec [(nm 120, (TFloat, VFloat [49; 46; 53]))], VRec [(nm 120, VFloat [49; 46; 53])]).
Proof. vm_compute. reflexivity. Qed.

Lemma ex_dot_whole_header :
  exists t d, infer_at false (headers_of ex_dot) = Ok (TRec [([120; 58; 102; 108; 111; 97; 116; 61; 49], (TList t, d))], VRec [([120; 58; 102; 108; 111; 97; 116; 61; 49], d)]).
Proof. eexists. eexists. vm_compute. reflexivity. Qed.

(* decided for the tree at hand *)
Definition headline_full : Prop :=
  forall sc, wf_schema_full sc = true -> infer (headers_of sc) = Ok (denote sc).

Lemma dot_default_decided : if inf_nested_by_field_name then headline_full else ~ headline_full.
Proof.
  unfold headline_full, infer. destruct inf_nested_by_field_name.
  - exact headline_full_by_name.
  - exact headline_full_whole_header_refuted.
Qed.

(* ---- the hypothesis on the order of first appearance of the prefixes cannot be dropped, not
   even "up to the order of the fields": 1.a 2.b:int  vs  2.b:int 1.a  have the same plain
   columns and the same sub-headers under every prefix, but the element type of an inferred list
   is the type of the LAST integer-keyed entry *)
Definition ex_swap1 : list str := [[49; 46; 97]; [50; 46; 98; 58; 105; 110; 116]].
Definition ex_swap2 : list str := [[50; 46; 98; 58; 105; 110; 116]; [49; 46; 97]].

Lemma prefix_order_matters bn :
  plain_of bn ex_swap1 = plain_of bn ex_swap2
  /\ (forall k, subs_of bn k ex_swap1 = subs_of bn k ex_swap2)
  /\ infer_at bn ex_swap1 = Ok (TList (TRec [([98], (TInt, VInt 0))]), VList [VRec [([97], VStr [])]; VRec [([98], VInt 0)]])
  /\ infer_at bn ex_swap2 = Ok (TList (TRec [([97], (TStr, VStr []))]), VList [VRec [([97], VStr [])]; VRec [([98], VInt 0)]]).
Proof.
  assert (P1 : pairs_of bn ex_swap1 = [([49], [97]); ([50], [98; 58; 105; 110; 116])]) by (destruct bn; vm_compute; reflexivity).
  assert (P2 : pairs_of bn ex_swap2 = [([50], [98; 58; 105; 110; 116]); ([49], [97])]) by (destruct bn; vm_compute; reflexivity).
  split; [destruct bn; vm_compute; reflexivity|]. split.
  - intros k. unfold subs_of. rewrite P1, P2. unfold subs_for. cbn [filter fst snd map].
    destruct (str_eqb [49] k) eqn:E1; [apply str_eqb_eq in E1; subst k; reflexivity|].
    destruct (str_eqb [50] k); reflexivity.
  - split; destruct bn; vm_compute; reflexivity.
Qed.
