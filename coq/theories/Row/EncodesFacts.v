(* E2 / C09 — every way of writing a value parses to that value (facts about Row/Encodes.v). *)
From Coq Require Import List NArith ZArith Bool Lia Arith.
From RPFT Require Import Base.Sexp Base.PyStr Base.PyStrFacts Base.Result Base.ODict Gen.Tables Cell.Cell
  Row.Ty Row.RowParse Row.ParseFold Row.Encodes.
Import ListNotations.
Local Open Scope N_scope.

(* ================================================================== unfolding the nested fixpoints *)
Section AssignModel.
  Variable av : ty -> nv -> res (option out).
  Variables (fields : list field) (h2f : remap).
  Definition by_name (k : str) (e : nv) : res (option out) :=
    match field_lookup (fun tf _ => av tf e) fields k with Some r => r | None => Err ENoField end.
  Fixpoint args_go (es : list nv) (i : nat) (d : dict) : res dict :=
    match es with
    | [] => Ok d
    | e :: r =>
      match as_kwarg fields h2f e with
      | Some (key, xv) => do o <- by_name key xv; args_go r (S i) (dset_opt d key o)
      | None =>
        match field_nth (fun n tf => (n, av tf e)) fields i with
        | None => Err EIndex
        | Some (n, ro) => do o <- ro; args_go r (S i) (dset_opt d n o)
        end
      end
    end.
  Definition assign_model (x : nv) : res (option out) :=
    match as_kwarg fields h2f (Lst (entries_of x)) with
    | Some (key, xv) => do r <- by_name key xv; Ok (Some (ODict (dset_opt [] key r)))
    | None => do d <- args_go (entries_of x) O []; Ok (Some (ODict d))
    end.
End AssignModel.

Lemma assign_value_model fields h2f f2h x :
  assign_value (TModel fields h2f f2h) x = assign_model assign_value fields h2f x.
Proof. destruct x; reflexivity. Qed.

Fixpoint validate_fields (d : dict) (fs : list field) : res (list (str * value)) :=
  match fs with
  | [] => Ok []
  | (n, (tf, dflt)) :: r =>
    do v <- match dget d n with
            | Some o' => validate tf o'
            | None => match dflt with Some dv => Ok dv | None => Err EValidation end
            end;
    do vs <- validate_fields d r; Ok ((n, v) :: vs)
  end.

Lemma validate_model fields h2f f2h d :
  validate (TModel fields h2f f2h) (ODict d) = rmap VModel (validate_fields d fields).
Proof.
  cbn [validate]. f_equal. induction fields as [|[n [tf dflt]] r IH]; [reflexivity|].
  cbn [validate_fields]. rewrite <- IH. reflexivity.
Qed.

(* ================================================================== field tables *)
Lemma field_lookup_map {A} (f : ty -> option value -> A) fields k :
  field_lookup f fields k =
  match field_lookup (fun t d => (t, d)) fields k with Some (t, d) => Some (f t d) | None => None end.
Proof.
  induction fields as [|[n [t d]] r IH]; cbn; [reflexivity|]. destruct (str_eqb n k); [reflexivity|exact IH].
Qed.

Lemma field_ty_lookup {A} (f : ty -> option value -> A) fields k tf :
  field_ty fields k = Some tf -> exists d, field_lookup f fields k = Some (f tf d).
Proof.
  unfold field_ty. rewrite (field_lookup_map (fun tf _ => tf)), (field_lookup_map f).
  destruct (field_lookup (fun t d => (t, d)) fields k) as [[t d]|]; [|discriminate].
  intros H. injection H as <-. exists d. reflexivity.
Qed.

Lemma field_ty_none {A} (f : ty -> option value -> A) fields k :
  field_ty fields k = None -> field_lookup f fields k = None.
Proof.
  unfold field_ty. rewrite (field_lookup_map (fun tf _ => tf)), (field_lookup_map f).
  destruct (field_lookup (fun t d => (t, d)) fields k) as [[t d]|]; [discriminate|reflexivity].
Qed.

Lemma has_field_ty fields k : has_field fields k = true <-> field_ty fields k <> None.
Proof.
  unfold has_field. destruct (field_ty fields k) as [tf|] eqn:E.
  - destruct (field_ty_lookup (fun _ _ => tt) fields k tf E) as [d ->]. split; [discriminate|reflexivity].
  - rewrite (field_ty_none (fun _ _ => tt) fields k E). split; [discriminate|congruence].
Qed.

Lemma field_nth_map {A} (g : str -> ty -> A) fields i :
  field_nth g fields i = match field_at fields i with Some (n, t) => Some (g n t) | None => None end.
Proof.
  unfold field_at. revert i. induction fields as [|[n [t d]] r IH]; intros i; cbn; [reflexivity|].
  destruct i; [reflexivity|apply IH].
Qed.

Lemma field_ty_in fields n t d :
  NoDup (map f_name fields) -> In (n, (t, d)) fields -> field_ty fields n = Some t.
Proof.
  unfold field_ty. induction fields as [|[n' [t' d']] r IH]; intros Hnd Hin; [destruct Hin|].
  cbn in Hnd. inversion Hnd as [|x l Hni Hnd']; subst. cbn [field_lookup].
  destruct Hin as [Heq|Hin].
  - injection Heq as -> -> ->. rewrite str_eqb_refl. reflexivity.
  - destruct (str_eqb n' n) eqn:E.
    + apply str_eqb_eq in E. subst n'. exfalso. apply Hni.
      apply (in_map f_name) in Hin. exact Hin.
    + apply IH; assumption.
Qed.

Lemma by_name_ty av fields k e tf : field_ty fields k = Some tf -> by_name av fields k e = av tf e.
Proof. intros H. unfold by_name. destruct (field_ty_lookup (fun tf _ => av tf e) fields k tf H) as [d ->]. reflexivity. Qed.

(* ================================================================== dictionaries built by a run of sets *)
Definition dset_all (outs : list (str * out)) (d : dict) : dict :=
  fold_left (fun d ko => dset d (fst ko) (snd ko)) outs d.

Lemma dset_all_notin outs : forall d n, ~ In n (map fst outs) -> dget (dset_all outs d) n = dget d n.
Proof.
  induction outs as [|[k o] r IH]; intros d n Hn; cbn; [reflexivity|].
  cbn in Hn. unfold dset_all in IH. rewrite IH by tauto. apply dget_dset_other. intros ->. tauto.
Qed.

Lemma dset_all_in outs : forall d n o, NoDup (map fst outs) -> In (n, o) outs -> dget (dset_all outs d) n = Some o.
Proof.
  induction outs as [|[k o'] r IH]; intros d n o Hnd Hin; [destruct Hin|].
  cbn in Hnd. inversion Hnd as [|x l Hni Hnd']; subst. cbn [dset_all fold_left fst snd].
  destruct Hin as [Heq|Hin].
  - injection Heq as -> ->. fold (dset_all r (dset d n o)). rewrite dset_all_notin by exact Hni.
    apply dget_dset_same.
  - apply IH; assumption.
Qed.

Lemma oget_in {V} (l : list (str * V)) n v : oget str_eqb l n = Some v -> In (n, v) l.
Proof.
  induction l as [|[k x] r IH]; cbn; [discriminate|]. destruct (str_eqb k n) eqn:E.
  - apply str_eqb_eq in E. subst. intros H. injection H as ->. left. reflexivity.
  - intros H. right. apply IH, H.
Qed.

Lemma oget_none_keys {V} (l : list (str * V)) n : oget str_eqb l n = None -> ~ In n (map fst l).
Proof. intros H. apply (oget_none_notin str_eqb str_eqb_spec) in H. exact H. Qed.

(* ================================================================== EncNv: one cell *)
Definition nv_ok (t : ty) (v : value) (x : nv) : Prop :=
  exists o, assign_value t x = Ok (Some o) /\ validate t o = Ok v.

Definition elem_assign (t : ty) (e : nv) : res out := do r <- assign_value t e; Ok (or_none r).

Definition nvs_ok (t : ty) (vs : list value) (xs : list nv) : Prop :=
  exists outs, mapR (elem_assign t) xs = Ok outs /\ mapR (validate t) outs = Ok vs.

(* the relation between what the entries wrote and what they stand for *)
Definition arg_rel (fields : list field) (ko : str * out) (kv : str * value) : Prop :=
  fst ko = fst kv /\ exists tf, field_ty fields (fst kv) = Some tf /\ validate tf (snd ko) = Ok (snd kv).

Definition args_ok (fields : list field) (h2f : remap) (i : nat) (es : list nv) (asg : list (str * value)) : Prop :=
  exists outs, (forall d, args_go assign_value fields h2f es i d = Ok (dset_all outs d))
               /\ Forall2 (arg_rel fields) outs asg.

Lemma nv_to_out_value x : out_to_value (nv_to_out x) = Ok (nv_value x).
Proof.
  revert x. fix IH 1. intros [s|l]; cbn [nv_to_out out_to_value nv_value]; [reflexivity|].
  assert (H : mapR out_to_value (map nv_to_out l) = Ok (map nv_value l)).
  { induction l as [|x l IHl]; cbn; [reflexivity|]. rewrite (IH x), IHl. reflexivity. }
  rewrite H. reflexivity.
Qed.

Lemma assign_list t x :
  assign_value (TList t) x =
  (do outs <- mapR (elem_assign t) (match x with Lst l => l | Str [] => [] | Str _ => [x] end);
   Ok (Some (OList outs))).
Proof. reflexivity. Qed.

Lemma Forall2_keys fields outs asg : Forall2 (arg_rel fields) outs asg -> map fst outs = map fst asg.
Proof. induction 1 as [|ko kv outs asg [H _] _ IH]; cbn; [reflexivity|]. rewrite H, IH. reflexivity. Qed.

Lemma Forall2_in_r {X Y} (R : X -> Y -> Prop) l1 l2 y : Forall2 R l1 l2 -> In y l2 -> exists x, In x l1 /\ R x y.
Proof.
  induction 1 as [|a b l1 l2 H _ IH]; intros Hin; [destruct Hin|].
  destruct Hin as [->|Hin]; [exists a; split; [left; reflexivity|exact H]|].
  destruct (IH Hin) as [x [Hx HR]]. exists x. split; [right; exact Hx|exact HR].
Qed.

(* the dict the entries build agrees with the (field, value) list they stand for *)
Lemma args_dict fields outs asg n :
  Forall2 (arg_rel fields) outs asg -> NoDup (map fst asg) ->
  match oget str_eqb asg n with
  | Some v => exists o tf, dget (dset_all outs []) n = Some o /\ field_ty fields n = Some tf /\ validate tf o = Ok v
  | None => dget (dset_all outs []) n = None
  end.
Proof.
  intros HF Hnd. pose proof (Forall2_keys _ _ _ HF) as Hk.
  destruct (oget str_eqb asg n) as [v|] eqn:E.
  - apply oget_in in E. destruct (Forall2_in_r _ _ _ _ HF E) as [[k o] [Hin [Hfst [tf [Hty Hval]]]]].
    cbn [fst snd] in *. subst k. exists o, tf. split; [|split; assumption].
    apply dset_all_in; [rewrite Hk; exact Hnd|exact Hin].
  - apply oget_none_keys in E. rewrite dset_all_notin by (rewrite Hk; exact E). reflexivity.
Qed.

Lemma validate_fields_fill fields0 d asg :
  NoDup (map f_name fields0) ->
  (forall n, match oget str_eqb asg n with
             | Some v => exists o tf, dget d n = Some o /\ field_ty fields0 n = Some tf /\ validate tf o = Ok v
             | None => dget d n = None
             end) ->
  forall fields fs, incl fields fields0 -> fill fields asg = Some fs -> validate_fields d fields = Ok fs.
Proof.
  intros Hnd Hd. induction fields as [|[n [tf dflt]] r IH]; intros fs Hincl Hfill; cbn in Hfill.
  - injection Hfill as <-. reflexivity.
  - cbn [validate_fields].
    assert (Hty : field_ty fields0 n = Some tf).
    { apply (field_ty_in fields0 n tf dflt Hnd). apply Hincl. left. reflexivity. }
    specialize (Hd n).
    destruct (oget str_eqb asg n) as [v|] eqn:E.
    + destruct (fill r asg) as [vs|] eqn:Ef; [|discriminate]. injection Hfill as <-.
      destruct Hd as [o [tf' [Hget [Hty' Hval]]]]. rewrite Hget.
      assert (tf' = tf) by congruence. subst tf'. rewrite Hval. cbn [bind].
      rewrite (IH vs); [reflexivity| |reflexivity]. intros f Hf. apply Hincl. right. exact Hf.
    + rewrite Hd. destruct dflt as [dv|]; [|discriminate].
      destruct (fill r asg) as [vs|] eqn:Ef; [|discriminate]. injection Hfill as <-. cbn [bind].
      rewrite (IH vs); [reflexivity| |reflexivity]. intros f Hf. apply Hincl. right. exact Hf.
Qed.

Lemma as_kwarg_pair fields h2f k xv tf :
  field_ty fields (remap_get h2f k) = Some tf ->
  as_kwarg fields h2f (Lst [Str k; xv]) = Some (remap_get h2f k, xv).
Proof.
  intros H. unfold as_kwarg. replace (has_field fields (remap_get h2f k)) with true; [reflexivity|].
  symmetry. apply has_field_ty. congruence.
Qed.

Lemma field_at_in fields i n tf : field_at fields i = Some (n, tf) -> exists d, In (n, (tf, d)) fields.
Proof.
  unfold field_at. revert i. induction fields as [|[n' [t' d']] fr IH]; intros i Hat; cbn in Hat; [discriminate|].
  destruct i as [|i].
  - injection Hat as -> ->. exists d'. left. reflexivity.
  - destruct (IH i Hat) as [d Hd]. exists d. right. exact Hd.
Qed.

Lemma field_at_ty fields i n tf :
  NoDup (map f_name fields) -> field_at fields i = Some (n, tf) -> field_ty fields n = Some tf.
Proof. intros Hnd Hat. destruct (field_at_in fields i n tf Hat) as [d Hd]. apply (field_ty_in fields n tf d Hnd Hd). Qed.

Theorem encnv_sound :
  (forall t v x, EncNv t v x -> nv_ok t v x)
  /\ (forall t vs xs, EncNvs t vs xs -> nvs_ok t vs xs)
  /\ (forall fields h2f i es asg, EncArgs fields h2f i es asg ->
      NoDup (map f_name fields) -> args_ok fields h2f i es asg).
Proof.
  apply EncNv_mutind.
  - (* str *) intros s. exists (OStr s). split; reflexivity.
  - (* int *) intros s z H. exists (OInt z). cbn. rewrite H. split; reflexivity.
  - (* float *) intros s f H. exists (OFloat f). cbn. rewrite H. split; reflexivity.
  - (* bool *) intros s H. exists (OBool (str_to_bool (strip s))). cbn [assign_value].
    destruct (strip s) eqn:E; [congruence|]. split; reflexivity.
  - (* ulist *) intros l. exists (OList (map nv_to_out l)). split; [reflexivity|].
    cbn [validate]. pose proof (nv_to_out_value (Lst l)) as H. cbn [nv_to_out out_to_value nv_value] in H.
    exact H.
  - (* ulist scalar *) intros s. exists (OList [OStr s]). split; reflexivity.
  - (* list empty *) intros t. exists (OList []). split; reflexivity.
  - (* list scalar *) intros t v s Hs _ [o [Ha Hv]]. exists (OList [o]). split.
    + rewrite assign_list. destruct s as [|c s]; [congruence|]. cbn [mapR]. unfold elem_assign at 1.
      rewrite Ha. reflexivity.
    + cbn [validate mapR]. rewrite Hv. reflexivity.
  - (* list *) intros t vs xs _ [outs [Ha Hv]]. exists (OList outs). split.
    + rewrite assign_list. rewrite Ha. reflexivity.
    + cbn [validate]. rewrite Hv. reflexivity.
  - (* model: one pair *)
    intros fields h2f f2h x k xv key tf v fs Hnd Hent Hkey Hty _ [o [Ha Hv]] Hfill. subst key.
    exists (ODict (dset [] (remap_get h2f k) o)). split.
    + rewrite assign_value_model. unfold assign_model. rewrite Hent.
      rewrite (as_kwarg_pair fields h2f k xv tf Hty).
      rewrite (by_name_ty assign_value fields _ xv tf Hty), Ha. reflexivity.
    + rewrite validate_model.
      rewrite (validate_fields_fill fields (dset [] (remap_get h2f k) o) [(remap_get h2f k, v)] Hnd) with (fs := fs);
        [reflexivity| |apply incl_refl|exact Hfill].
      intros n. cbn [oget]. destruct (str_eqb (remap_get h2f k) n) eqn:E.
      * apply str_eqb_eq in E. subst n. exists o, tf. split; [apply dget_dset_same|split; assumption].
      * apply dget_dset_other. intros ->. rewrite str_eqb_refl in E. discriminate.
  - (* model: entries *)
    intros fields h2f f2h x asg fs Hnd Hnk _ IHa Hnda Hfill. destruct (IHa Hnd) as [outs [Hgo HF]].
    exists (ODict (dset_all outs [])). split.
    + rewrite assign_value_model. unfold assign_model. rewrite Hnk, Hgo. reflexivity.
    + rewrite validate_model.
      rewrite (validate_fields_fill fields (dset_all outs []) asg Hnd) with (fs := fs);
        [reflexivity| |apply incl_refl|exact Hfill].
      intros n. apply args_dict; assumption.
  - (* nvs nil *) intros t. exists []. split; reflexivity.
  - (* nvs cons *) intros t v x vs xs _ [o [Ha Hv]] _ [outs [Hm Hvs]]. exists (o :: outs). split.
    + cbn [mapR]. unfold elem_assign at 1. rewrite Ha. cbn [bind or_none]. rewrite Hm. reflexivity.
    + cbn [mapR]. rewrite Hv, Hvs. reflexivity.
  - (* args nil *) intros fields h2f i _. exists []. split; [intros d; reflexivity|constructor].
  - (* args kw *)
    intros fields h2f i k xv key tf v r asg Hkey Hty _ [o [Ha Hv]] _ IHa Hnd. destruct (IHa Hnd) as [outs [Hgo HF]]. subst key.
    exists ((remap_get h2f k, o) :: outs). split.
    + intros d. cbn [args_go]. rewrite (as_kwarg_pair fields h2f k xv tf Hty).
      rewrite (by_name_ty assign_value fields _ xv tf Hty), Ha. cbn [bind dset_opt]. rewrite Hgo. reflexivity.
    + constructor; [|exact HF]. split; [reflexivity|]. exists tf. split; assumption.
  - (* args pos *)
    intros fields h2f i e n tf v r asg Hnk Hat _ [o [Ha Hv]] _ IHa Hnd. destruct (IHa Hnd) as [outs [Hgo HF]].
    pose proof (field_at_ty fields i n tf Hnd Hat) as Hty.
    exists ((n, o) :: outs). split.
    + intros d. cbn [args_go]. rewrite Hnk. rewrite field_nth_map, Hat. rewrite Ha. cbn [bind dset_opt].
      rewrite Hgo. reflexivity.
    + constructor; [|exact HF]. split; [reflexivity|]. exists tf. split; assumption.
Qed.
