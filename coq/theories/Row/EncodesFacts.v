(* E2 / C09 — every way of writing a value parses to that value (facts about Row/Encodes.v). *)
From Coq Require Import List NArith ZArith Bool Lia Arith.
From RPFT Require Import Base.Sexp Base.PyStr Base.PyStrFacts Base.Result Base.ODict Gen.Tables Cell.Cell
  Row.Ty Row.RowParse Row.ParseFold Row.Encodes.
Import ListNotations.
Local Open Scope N_scope.

(* ================================================================== unfolding the nested fixpoints *)
Section AssignModel.
  Variable av : ty -> nv -> res (option out).
  Variables (fields : list field) (h2f : remap).
  Definition by_name (k : str) (e : nv) : res (option out) :=
    match field_lookup (fun tf _ => av tf e) fields k with Some r => r | None => Err ENoField end.
  Fixpoint args_go (es : list nv) (i : nat) (d : dict) : res dict :=
    match es with
    | [] => Ok d
    | e :: r =>
      match as_kwarg fields h2f e with
      | Some (key, xv) => do o <- by_name key xv; args_go r (S i) (dset_opt d key o)
      | None =>
        match field_nth (fun n tf => (n, av tf e)) fields i with
        | None => Err EIndex
        | Some (n, ro) => do o <- ro; args_go r (S i) (dset_opt d n o)
        end
      end
    end.
  Definition assign_model (x : nv) : res (option out) :=
    match as_kwarg fields h2f (Lst (entries_of x)) with
    | Some (key, xv) => do r <- by_name key xv; Ok (Some (ODict (dset_opt [] key r)))
    | None => do d <- args_go (entries_of x) O []; Ok (Some (ODict d))
    end.
End AssignModel.

Lemma assign_value_model fields h2f f2h x :
  assign_value (TModel fields h2f f2h) x = assign_model assign_value fields h2f x.
Proof. destruct x; reflexivity. Qed.

Fixpoint validate_fields (d : dict) (fs : list field) : res (list (str * value)) :=
  match fs with
  | [] => Ok []
  | (n, (tf, dflt)) :: r =>
    do v <- match dget d n with
            | Some o' => validate tf o'
            | None => match dflt with Some dv => Ok dv | None => Err EValidation end
            end;
    do vs <- validate_fields d r; Ok ((n, v) :: vs)
  end.

Lemma validate_model fields h2f f2h d :
  validate (TModel fields h2f f2h) (ODict d) = rmap VModel (validate_fields d fields).
Proof.
  cbn [validate]. f_equal. induction fields as [|[n [tf dflt]] r IH]; [reflexivity|].
  cbn [validate_fields]. rewrite <- IH. reflexivity.
Qed.

(* ================================================================== field tables *)
Lemma field_lookup_map {A} (f : ty -> option value -> A) fields k :
  field_lookup f fields k =
  match field_lookup (fun t d => (t, d)) fields k with Some (t, d) => Some (f t d) | None => None end.
Proof.
  induction fields as [|[n [t d]] r IH]; cbn; [reflexivity|]. destruct (str_eqb n k); [reflexivity|exact IH].
Qed.

Lemma field_ty_lookup {A} (f : ty -> option value -> A) fields k tf :
  field_ty fields k = Some tf -> exists d, field_lookup f fields k = Some (f tf d).
Proof.
  unfold field_ty. rewrite (field_lookup_map (fun tf _ => tf)), (field_lookup_map f).
  destruct (field_lookup (fun t d => (t, d)) fields k) as [[t d]|]; [|discriminate].
  intros H. injection H as <-. exists d. reflexivity.
Qed.

Lemma field_ty_none {A} (f : ty -> option value -> A) fields k :
  field_ty fields k = None -> field_lookup f fields k = None.
Proof.
  unfold field_ty. rewrite (field_lookup_map (fun tf _ => tf)), (field_lookup_map f).
  destruct (field_lookup (fun t d => (t, d)) fields k) as [[t d]|]; [discriminate|reflexivity].
Qed.

Lemma has_field_ty fields k : has_field fields k = true <-> field_ty fields k <> None.
Proof.
  unfold has_field. destruct (field_ty fields k) as [tf|] eqn:E.
  - destruct (field_ty_lookup (fun _ _ => tt) fields k tf E) as [d ->]. split; [discriminate|reflexivity].
  - rewrite (field_ty_none (fun _ _ => tt) fields k E). split; [discriminate|congruence].
Qed.

Lemma field_nth_map {A} (g : str -> ty -> A) fields i :
  field_nth g fields i = match field_at fields i with Some (n, t) => Some (g n t) | None => None end.
Proof.
  unfold field_at. revert i. induction fields as [|[n [t d]] r IH]; intros i; cbn; [reflexivity|].
  destruct i; [reflexivity|apply IH].
Qed.

Lemma field_ty_in fields n t d :
  NoDup (map f_name fields) -> In (n, (t, d)) fields -> field_ty fields n = Some t.
Proof.
  unfold field_ty. induction fields as [|[n' [t' d']] r IH]; intros Hnd Hin; [destruct Hin|].
  cbn in Hnd. inversion Hnd as [|x l Hni Hnd']; subst. cbn [field_lookup].
  destruct Hin as [Heq|Hin].
  - injection Heq as -> -> ->. rewrite str_eqb_refl. reflexivity.
  - destruct (str_eqb n' n) eqn:E.
    + apply str_eqb_eq in E. subst n'. exfalso. apply Hni.
      apply (in_map f_name) in Hin. exact Hin.
    + apply IH; assumption.
Qed.

Lemma by_name_ty av fields k e tf : field_ty fields k = Some tf -> by_name av fields k e = av tf e.
Proof. intros H. unfold by_name. destruct (field_ty_lookup (fun tf _ => av tf e) fields k tf H) as [d ->]. reflexivity. Qed.

(* ================================================================== dictionaries built by a run of sets *)
Definition dset_all (outs : list (str * out)) (d : dict) : dict :=
  fold_left (fun d ko => dset d (fst ko) (snd ko)) outs d.

Lemma dset_all_notin outs : forall d n, ~ In n (map fst outs) -> dget (dset_all outs d) n = dget d n.
Proof.
  induction outs as [|[k o] r IH]; intros d n Hn; cbn; [reflexivity|].
  cbn in Hn. unfold dset_all in IH. rewrite IH by tauto. apply dget_dset_other. intros ->. tauto.
Qed.

Lemma dset_all_in outs : forall d n o, NoDup (map fst outs) -> In (n, o) outs -> dget (dset_all outs d) n = Some o.
Proof.
  induction outs as [|[k o'] r IH]; intros d n o Hnd Hin; [destruct Hin|].
  cbn in Hnd. inversion Hnd as [|x l Hni Hnd']; subst. cbn [dset_all fold_left fst snd].
  destruct Hin as [Heq|Hin].
  - injection Heq as -> ->. fold (dset_all r (dset d n o)). rewrite dset_all_notin by exact Hni.
    apply dget_dset_same.
  - apply IH; assumption.
Qed.

Lemma oget_in {V} (l : list (str * V)) n v : oget str_eqb l n = Some v -> In (n, v) l.
Proof.
  induction l as [|[k x] r IH]; cbn; [discriminate|]. destruct (str_eqb k n) eqn:E.
  - apply str_eqb_eq in E. subst. intros H. injection H as ->. left. reflexivity.
  - intros H. right. apply IH, H.
Qed.

Lemma oget_none_keys {V} (l : list (str * V)) n : oget str_eqb l n = None -> ~ In n (map fst l).
Proof. intros H. apply (oget_none_notin str_eqb str_eqb_spec) in H. exact H. Qed.

(* ================================================================== EncNv: one cell *)
Definition nv_ok (t : ty) (v : value) (x : nv) : Prop :=
  exists o, assign_value t x = Ok (Some o) /\ validate t o = Ok v.

Definition elem_assign (t : ty) (e : nv) : res out := do r <- assign_value t e; Ok (or_none r).

Definition nvs_ok (t : ty) (vs : list value) (xs : list nv) : Prop :=
  exists outs, mapR (elem_assign t) xs = Ok outs /\ mapR (validate t) outs = Ok vs.

(* the relation between what the entries wrote and what they stand for *)
Definition arg_rel (fields : list field) (ko : str * out) (kv : str * value) : Prop :=
  fst ko = fst kv /\ exists tf, field_ty fields (fst kv) = Some tf /\ validate tf (snd ko) = Ok (snd kv).

Definition args_ok (fields : list field) (h2f : remap) (i : nat) (es : list nv) (asg : list (str * value)) : Prop :=
  exists outs, (forall d, args_go assign_value fields h2f es i d = Ok (dset_all outs d))
               /\ Forall2 (arg_rel fields) outs asg.

Lemma nv_to_out_value x : out_to_value (nv_to_out x) = Ok (nv_value x).
Proof.
  revert x. fix IH 1. intros [s|l]; cbn [nv_to_out out_to_value nv_value]; [reflexivity|].
  assert (H : mapR out_to_value (map nv_to_out l) = Ok (map nv_value l)).
  { induction l as [|x l IHl]; cbn; [reflexivity|]. rewrite (IH x), IHl. reflexivity. }
  rewrite H. reflexivity.
Qed.

Lemma assign_list t x :
  assign_value (TList t) x =
  (do outs <- mapR (elem_assign t) (match x with Lst l => l | Str [] => [] | Str _ => [x] end);
   Ok (Some (OList outs))).
Proof. reflexivity. Qed.

Lemma Forall2_keys fields outs asg : Forall2 (arg_rel fields) outs asg -> map fst outs = map fst asg.
Proof. induction 1 as [|ko kv outs asg [H _] _ IH]; cbn; [reflexivity|]. rewrite H, IH. reflexivity. Qed.

Lemma Forall2_in_r {X Y} (R : X -> Y -> Prop) l1 l2 y : Forall2 R l1 l2 -> In y l2 -> exists x, In x l1 /\ R x y.
Proof.
  induction 1 as [|a b l1 l2 H _ IH]; intros Hin; [destruct Hin|].
  destruct Hin as [->|Hin]; [exists a; split; [left; reflexivity|exact H]|].
  destruct (IH Hin) as [x [Hx HR]]. exists x. split; [right; exact Hx|exact HR].
Qed.

(* the dict the entries build agrees with the (field, value) list they stand for *)
Lemma args_dict fields outs asg n :
  Forall2 (arg_rel fields) outs asg -> NoDup (map fst asg) ->
  match oget str_eqb asg n with
  | Some v => exists o tf, dget (dset_all outs []) n = Some o /\ field_ty fields n = Some tf /\ validate tf o = Ok v
  | None => dget (dset_all outs []) n = None
  end.
Proof.
  intros HF Hnd. pose proof (Forall2_keys _ _ _ HF) as Hk.
  destruct (oget str_eqb asg n) as [v|] eqn:E.
  - apply oget_in in E. destruct (Forall2_in_r _ _ _ _ HF E) as [[k o] [Hin [Hfst [tf [Hty Hval]]]]].
    cbn [fst snd] in *. subst k. exists o, tf. split; [|split; assumption].
    apply dset_all_in; [rewrite Hk; exact Hnd|exact Hin].
  - apply oget_none_keys in E. rewrite dset_all_notin by (rewrite Hk; exact E). reflexivity.
Qed.

Lemma validate_fields_fill fields0 d asg :
  NoDup (map f_name fields0) ->
  (forall n, match oget str_eqb asg n with
             | Some v => exists o tf, dget d n = Some o /\ field_ty fields0 n = Some tf /\ validate tf o = Ok v
             | None => dget d n = None
             end) ->
  forall fields fs, incl fields fields0 -> fill fields asg = Some fs -> validate_fields d fields = Ok fs.
Proof.
  intros Hnd Hd. induction fields as [|[n [tf dflt]] r IH]; intros fs Hincl Hfill; cbn in Hfill.
  - injection Hfill as <-. reflexivity.
  - cbn [validate_fields].
    assert (Hty : field_ty fields0 n = Some tf).
    { apply (field_ty_in fields0 n tf dflt Hnd). apply Hincl. left. reflexivity. }
    specialize (Hd n).
    destruct (oget str_eqb asg n) as [v|] eqn:E.
    + destruct (fill r asg) as [vs|] eqn:Ef; [|discriminate]. injection Hfill as <-.
      destruct Hd as [o [tf' [Hget [Hty' Hval]]]]. rewrite Hget.
      assert (tf' = tf) by congruence. subst tf'. rewrite Hval. cbn [bind].
      rewrite (IH vs); [reflexivity| |reflexivity]. intros f Hf. apply Hincl. right. exact Hf.
    + rewrite Hd. destruct dflt as [dv|]; [|discriminate].
      destruct (fill r asg) as [vs|] eqn:Ef; [|discriminate]. injection Hfill as <-. cbn [bind].
      rewrite (IH vs); [reflexivity| |reflexivity]. intros f Hf. apply Hincl. right. exact Hf.
Qed.

Lemma as_kwarg_pair fields h2f k xv tf :
  field_ty fields (remap_get h2f k) = Some tf ->
  as_kwarg fields h2f (Lst [Str k; xv]) = Some (remap_get h2f k, xv).
Proof.
  intros H. unfold as_kwarg. replace (has_field fields (remap_get h2f k)) with true; [reflexivity|].
  symmetry. apply has_field_ty. congruence.
Qed.

Lemma field_at_in fields i n tf : field_at fields i = Some (n, tf) -> exists d, In (n, (tf, d)) fields.
Proof.
  unfold field_at. revert i. induction fields as [|[n' [t' d']] fr IH]; intros i Hat; cbn in Hat; [discriminate|].
  destruct i as [|i].
  - injection Hat as -> ->. exists d'. left. reflexivity.
  - destruct (IH i Hat) as [d Hd]. exists d. right. exact Hd.
Qed.

Lemma field_at_ty fields i n tf :
  NoDup (map f_name fields) -> field_at fields i = Some (n, tf) -> field_ty fields n = Some tf.
Proof. intros Hnd Hat. destruct (field_at_in fields i n tf Hat) as [d Hd]. apply (field_ty_in fields n tf d Hnd Hd). Qed.

Theorem encnv_sound :
  (forall t v x, EncNv t v x -> nv_ok t v x)
  /\ (forall t vs xs, EncNvs t vs xs -> nvs_ok t vs xs)
  /\ (forall fields h2f i es asg, EncArgs fields h2f i es asg ->
      NoDup (map f_name fields) -> args_ok fields h2f i es asg).
Proof.
  apply EncNv_mutind.
  - (* str *) intros s. exists (OStr s). split; reflexivity.
  - (* int *) intros s z H. exists (OInt z). cbn. rewrite H. split; reflexivity.
  - (* float *) intros s f H. exists (OFloat f). cbn. rewrite H. split; reflexivity.
  - (* bool *) intros s H. exists (OBool (str_to_bool (strip s))). cbn [assign_value].
    destruct (strip s) eqn:E; [congruence|]. split; reflexivity.
  - (* ulist *) intros l. exists (OList (map nv_to_out l)). split; [reflexivity|].
    cbn [validate]. pose proof (nv_to_out_value (Lst l)) as H. cbn [nv_to_out out_to_value nv_value] in H.
    exact H.
  - (* ulist scalar *) intros s. exists (OList [OStr s]). split; reflexivity.
  - (* list empty *) intros t. exists (OList []). split; reflexivity.
  - (* list scalar *) intros t v s Hs _ [o [Ha Hv]]. exists (OList [o]). split.
    + rewrite assign_list. destruct s as [|c s]; [congruence|]. cbn [mapR]. unfold elem_assign at 1.
      rewrite Ha. reflexivity.
    + cbn [validate mapR]. rewrite Hv. reflexivity.
  - (* list *) intros t vs xs _ [outs [Ha Hv]]. exists (OList outs). split.
    + rewrite assign_list. rewrite Ha. reflexivity.
    + cbn [validate]. rewrite Hv. reflexivity.
  - (* model: one pair *)
    intros fields h2f f2h x k xv key tf v fs Hnd Hent Hkey Hty _ [o [Ha Hv]] Hfill. subst key.
    exists (ODict (dset [] (remap_get h2f k) o)). split.
    + rewrite assign_value_model. unfold assign_model. rewrite Hent.
      rewrite (as_kwarg_pair fields h2f k xv tf Hty).
      rewrite (by_name_ty assign_value fields _ xv tf Hty), Ha. reflexivity.
    + rewrite validate_model.
      rewrite (validate_fields_fill fields (dset [] (remap_get h2f k) o) [(remap_get h2f k, v)] Hnd) with (fs := fs);
        [reflexivity| |apply incl_refl|exact Hfill].
      intros n. cbn [oget]. destruct (str_eqb (remap_get h2f k) n) eqn:E.
      * apply str_eqb_eq in E. subst n. exists o, tf. split; [apply dget_dset_same|split; assumption].
      * apply dget_dset_other. intros ->. rewrite str_eqb_refl in E. discriminate.
  - (* model: entries *)
    intros fields h2f f2h x asg fs Hnd Hnk _ IHa Hnda Hfill. destruct (IHa Hnd) as [outs [Hgo HF]].
    exists (ODict (dset_all outs [])). split.
    + rewrite assign_value_model. unfold assign_model. rewrite Hnk, Hgo. reflexivity.
    + rewrite validate_model.
      rewrite (validate_fields_fill fields (dset_all outs []) asg Hnd) with (fs := fs);
        [reflexivity| |apply incl_refl|exact Hfill].
      intros n. apply args_dict; assumption.
  - (* nvs nil *) intros t. exists []. split; reflexivity.
  - (* nvs cons *) intros t v x vs xs _ [o [Ha Hv]] _ [outs [Hm Hvs]]. exists (o :: outs). split.
    + cbn [mapR]. unfold elem_assign at 1. rewrite Ha. cbn [bind or_none]. rewrite Hm. reflexivity.
    + cbn [mapR]. rewrite Hv, Hvs. reflexivity.
  - (* args nil *) intros fields h2f i _. exists []. split; [intros d; reflexivity|constructor].
  - (* args kw *)
    intros fields h2f i k xv key tf v r asg Hkey Hty _ [o [Ha Hv]] _ IHa Hnd. destruct (IHa Hnd) as [outs [Hgo HF]]. subst key.
    exists ((remap_get h2f k, o) :: outs). split.
    + intros d. cbn [args_go]. rewrite (as_kwarg_pair fields h2f k xv tf Hty).
      rewrite (by_name_ty assign_value fields _ xv tf Hty), Ha. cbn [bind dset_opt]. rewrite Hgo. reflexivity.
    + constructor; [|exact HF]. split; [reflexivity|]. exists tf. split; assumption.
  - (* args pos *)
    intros fields h2f i e n tf v r asg Hnk Hat _ [o [Ha Hv]] _ IHa Hnd. destruct (IHa Hnd) as [outs [Hgo HF]].
    pose proof (field_at_ty fields i n tf Hnd Hat) as Hty.
    exists ((n, o) :: outs). split.
    + intros d. cbn [args_go]. rewrite Hnk. rewrite field_nth_map, Hat. rewrite Ha. cbn [bind dset_opt].
      rewrite Hgo. reflexivity.
    + constructor; [|exact HF]. split; [reflexivity|]. exists tf. split; assumption.
Qed.

(* ================================================================== Enc: one slot *)
Definition slot_ok (t : ty) (v : value) (cols : list col) : Prop :=
  exists o, fold_slot t cols ONone = Ok o /\ validate t o = Ok v.

Definition paths_ne (cols : list col) : Prop := Forall (fun pc : col => fst pc <> []) cols.

Lemma fa_shape t o pc o' : fa t o pc = Ok o' -> o' <> ONone.
Proof.
  unfold fa. destruct pc as [p c]. cbn [fst snd]. destruct p as [|name rest]; [discriminate|].
  destruct t; cbn [find_assign]; try discriminate; unfold bind;
  repeat (first [discriminate | (intros H; injection H as <-; discriminate)
                | match goal with |- context[match ?x with _ => _ end] => destruct x end]).
Qed.

Lemma init_slot_fix t o : o <> ONone -> init_slot t o = o.
Proof. destruct o; try reflexivity. congruence. Qed.

Lemma slot_step_fa t o pc : fst pc <> [] -> slot_step t o pc = fa t (init_slot t o) pc.
Proof. unfold slot_step, fa. destruct (fst pc); [congruence|reflexivity]. Qed.

Lemma fold_slot_fa t cols : paths_ne cols -> forall o, o <> ONone -> fold_slot t cols o = foldM (fa t) cols o.
Proof.
  induction 1 as [|pc r Hp _ IH]; intros o Ho; [reflexivity|].
  unfold fold_slot. cbn [foldM]. rewrite (slot_step_fa t o pc Hp), (init_slot_fix t o Ho).
  destruct (fa t o pc) as [o'|e] eqn:E; [|reflexivity]. apply IH. apply (fa_shape t o pc o' E).
Qed.

Lemma fold_slot_spread t cols o :
  paths_ne cols -> cols <> [] -> fold_slot t cols o = foldM (fa t) cols (init_slot t o).
Proof.
  intros Hp Hne. destruct cols as [|pc r]; [congruence|]. inversion Hp as [|x l Hpc Hr]; subst.
  unfold fold_slot. cbn [foldM]. rewrite (slot_step_fa t o pc Hpc).
  destruct (fa t (init_slot t o) pc) as [o'|e] eqn:E; [|reflexivity].
  apply (fold_slot_fa t r Hr). apply (fa_shape _ _ _ _ E).
Qed.

Lemma heads_ok_paths fields h2f cols : heads_ok fields h2f cols -> paths_ne cols.
Proof.
  unfold heads_ok, paths_ne. apply Forall_impl. intros [p c]. cbn [fst]. destruct p; [tauto|discriminate].
Qed.

Lemma idx_scan_paths cols : forall m n, idx_scan m cols = Some n -> paths_ne cols.
Proof.
  induction cols as [|[p c] r IH]; intros m n H; [constructor|]. cbn [idx_scan] in H.
  destruct p as [|name rest]; [discriminate|]. constructor; [discriminate|].
  destruct (head_idx name) as [i|]; [|discriminate].
  destruct (Nat.ltb i m); [apply (IH _ _ H)|]. destruct (Nat.eqb i m); [apply (IH _ _ H)|discriminate].
Qed.

Lemma validate_none t : validate t ONone = Err EValidation.
Proof. destruct t; reflexivity. Qed.

Lemma validate_str_out o v : validate TStr o = Ok v -> out_to_value o = Ok v.
Proof. destruct o; cbn; try discriminate. tauto. Qed.

Lemma validate_list_ty t l vs :
  is_list_ty t = true -> length l = length vs ->
  (forall i, (i < length vs)%nat -> validate (child_ty t) (nth i l ONone) = Ok (nth i vs (VStr []))) ->
  validate t (OList l) = Ok (VList vs).
Proof.
  intros Ht Hlen H. destruct t; try discriminate; cbn [validate child_ty] in *.
  - rewrite (mapR_nth out_to_value l vs ONone (VStr []) Hlen); [reflexivity|].
    intros i Hi. apply validate_str_out. apply H, Hi.
  - rewrite (mapR_nth (validate t) l vs ONone (VStr []) Hlen); [reflexivity|exact H].
Qed.

Lemma Forall2_impl {X Y} (R1 R2 : X -> Y -> Prop) l1 l2 :
  (forall a b, R1 a b -> R2 a b) -> Forall2 R1 l1 l2 -> Forall2 R2 l1 l2.
Proof. intros H. induction 1; constructor; auto. Qed.

Lemma Forall2_with_in {X Y} (R : X -> Y -> Prop) l1 l2 :
  Forall2 R l1 l2 -> Forall2 (fun a b => In a l1 /\ R a b) l1 l2.
Proof.
  induction 1 as [|a b l1 l2 H _ IH]; constructor.
  - split; [left; reflexivity|exact H].
  - eapply Forall2_impl; [|exact IH]. cbn. intros x y [Hin HR]. split; [right; exact Hin|exact HR].
Qed.

Lemma Forall2_in_l {X Y} (R : X -> Y -> Prop) l1 l2 x : Forall2 R l1 l2 -> In x l1 -> exists y, In y l2 /\ R x y.
Proof.
  induction 1 as [|a b l1 l2 H _ IH]; intros Hin; [destruct Hin|].
  destruct Hin as [->|Hin]; [exists b; split; [left; reflexivity|exact H]|].
  destruct (IH Hin) as [y [Hy HR]]. exists y. split; [right; exact Hy|exact HR].
Qed.

Lemma field_ty_in_inv fields k ct : field_ty fields k = Some ct -> exists d, In (k, (ct, d)) fields.
Proof.
  unfold field_ty. induction fields as [|[n [t d]] r IH]; cbn; [discriminate|].
  destruct (str_eqb n k) eqn:E.
  - apply str_eqb_eq in E. subst. intros H. injection H as ->. exists d. left. reflexivity.
  - intros H. destruct (IH H) as [d' Hd]. exists d'. right. exact Hd.
Qed.

Lemma validate_fields_F2 d fields fs :
  Forall2 (fun (f : field) (nv : str * value) =>
             fst nv = f_name f /\
             match dget d (f_name f) with
             | Some o => validate (f_ty f) o = Ok (snd nv)
             | None => f_default f = Some (snd nv)
             end) fields fs ->
  validate_fields d fields = Ok fs.
Proof.
  induction 1 as [|[n [tf dflt]] [n' v] fields fs [Hn Hv] _ IH]; [reflexivity|].
  cbn [fst snd f_name f_ty f_default] in *. subst n'. cbn [validate_fields].
  destruct (dget d n) as [o|].
  - rewrite Hv. cbn [bind]. rewrite IH. reflexivity.
  - rewrite Hv. cbn [bind]. rewrite IH. reflexivity.
Qed.

Definition EncP (t : ty) (d : option value) (v : value) (cols : list col) : Prop :=
  (cols = [] -> d = Some v) /\ (cols <> [] -> slot_ok t v cols).
Definition FieldsP (h2f : remap) (cols : list col) (fields : list field) (fs : list (str * value)) : Prop :=
  Forall2 (fun (f : field) (nv : str * value) =>
             fst nv = f_name f /\ EncP (f_ty f) (f_default f) (snd nv) (sub_key h2f (f_name f) cols)) fields fs.
Definition ElemsP (ct : ty) (cols : list col) (i : nat) (vs : list value) : Prop :=
  forall j, (j < length vs)%nat ->
            sub_idx (i + j) cols <> [] /\ slot_ok ct (nth j vs (VStr [])) (sub_idx (i + j) cols).

Theorem enc_sound :
  (forall t d v cols, Enc t d v cols -> EncP t d v cols)
  /\ (forall h2f cols fields fs, EncFields h2f cols fields fs -> FieldsP h2f cols fields fs)
  /\ (forall ct cols i vs, EncElems ct cols i vs -> ElemsP ct cols i vs).
Proof.
  apply Enc_mutind.
  - (* default *) intros t v. split; [reflexivity|congruence].
  - (* one cell *) intros t d v c Hnv. split; [discriminate|]. intros _.
    destruct (proj1 encnv_sound t v _ Hnv) as [o [Ha Hv]]. exists o. split; [|exact Hv].
    unfold fold_slot, slot_step. cbn [foldM fst snd]. unfold leaf_assign. rewrite Ha. reflexivity.
  - (* list spread *)
    intros t d vs cols Ht Hne Hscan _ HE. split; [congruence|]. intros _.
    pose proof (idx_scan_paths cols _ _ Hscan) as Hp.
    assert (Hs : forall i, (i < length vs)%nat ->
              exists o, fold_slot (child_ty t) (sub_idx i cols) (nth i (@nil out) ONone) = Ok o).
    { intros i Hi. destruct (HE i Hi) as [_ [o [Hf _]]]. exists o.
      replace (nth i (@nil out) ONone) with ONone by (destruct i; reflexivity). exact Hf. }
    destruct (fold_list t cols Ht [] (length vs) Hscan Hs) as [l' [Hf [Hlen Hsl]]].
    exists (OList l'). split.
    + rewrite (fold_slot_spread t cols ONone Hp Hne).
      replace (init_slot t ONone) with (OList []) by (destruct t; try discriminate; reflexivity).
      exact Hf.
    + apply (validate_list_ty t l' vs Ht Hlen). intros i Hi.
      destruct (HE i Hi) as [_ [o [Hfo Hvo]]]. specialize (Hsl i Hi).
      replace (nth i (@nil out) ONone) with ONone in Hsl by (destruct i; reflexivity).
      cbn [Nat.add] in Hfo. rewrite Hfo in Hsl. injection Hsl as <-. exact Hvo.
  - (* model spread *)
    intros fields h2f f2h d fs cols Hne Hnd Hh _ HF. split; [congruence|]. intros _.
    pose proof (heads_ok_paths _ _ _ Hh) as Hp.
    assert (Hs : forall k ct, field_ty fields k = Some ct ->
              exists o, fold_slot ct (sub_key h2f k cols) (slot [] k) = Ok o).
    { intros k ct Hk. destruct (field_ty_in_inv fields k ct Hk) as [dk Hin].
      destruct (Forall2_in_l _ _ _ _ HF Hin) as [[n v] [_ [_ [_ HP]]]].
      cbn [f_name f_ty f_default fst snd] in HP.
      destruct (sub_key h2f k cols) eqn:Esub; [exists ONone; reflexivity|].
      destruct HP as [o [Ho _]]; [discriminate|]. exists o. exact Ho. }
    destruct (fold_model fields h2f f2h cols [] Hh Hs) as [d' [Hf [Hsl [Hemp Hpre]]]].
    exists (ODict d'). split.
    + rewrite (fold_slot_spread _ cols ONone Hp Hne). exact Hf.
    + rewrite validate_model. rewrite (validate_fields_F2 d' fields fs); [reflexivity|].
      apply Forall2_with_in in HF. eapply Forall2_impl; [|exact HF]. cbn beta.
      intros [n [tf dflt]] [n' v] [Hin [Hn [HPe HPn]]]. cbn [f_name f_ty f_default fst snd] in *.
      split; [exact Hn|].
      pose proof (field_ty_in fields n tf dflt Hnd Hin) as Hty.
      destruct (sub_key h2f n cols) eqn:Esub.
      * rewrite (Hemp n Esub). cbn. apply HPe. reflexivity.
      * assert (Hne' : sub_key h2f n cols <> []) by (rewrite Esub; discriminate).
        rewrite (Hpre n Hne'). rewrite <- Esub in HPn. destruct (HPn Hne') as [o [Hfo Hvo]].
        specialize (Hsl n tf Hty). unfold slot at 1 in Hsl. cbn [dget oget] in Hsl.
        rewrite Hfo in Hsl. injection Hsl as <-. exact Hvo.
  - (* fields nil *) intros h2f cols. constructor.
  - (* fields cons *) intros h2f cols n t d v fields fs _ HP _ HF. constructor; [|exact HF].
    split; [reflexivity|exact HP].
  - (* elems nil *) intros ct cols i j Hj. cbn in Hj. lia.
  - (* elems cons *) intros ct cols i v vs Hne _ HP _ HE j Hj. destruct j as [|j].
    + rewrite Nat.add_0_r. split; [exact Hne|]. apply HP. exact Hne.
    + replace (i + S j)%nat with (S i + j)%nat by lia. cbn [nth]. apply HE. cbn in Hj. lia.
Qed.

(* ================================================================== Encodes: a sheet row *)
Lemma foldM_map {E S X Y} (f : X -> Y -> result E X) (g : S -> Y) l a :
  foldM f (map g l) a = foldM (fun a x => f a (g x)) l a.
Proof. revert a. induction l as [|x l IH]; intros a; cbn; [reflexivity|]. destruct (f a (g x)); [apply IH|reflexivity]. Qed.

Lemma foldM_ext {E S X} (f g : X -> S -> result E X) l a :
  (forall a x, f a x = g a x) -> foldM f l a = foldM g l a.
Proof. intros H. revert a. induction l as [|x l IH]; intros a; cbn; [reflexivity|]. rewrite H. destruct (g a x); [apply IH|reflexivity]. Qed.

Lemma split_char_ne sep s : split_char sep s <> [].
Proof.
  induction s as [|c r IH]; cbn; [discriminate|]. destruct (c =? sep); [discriminate|].
  destruct (split_char sep r); discriminate.
Qed.

Lemma cols_of_paths data : paths_ne (cols_of data).
Proof.
  unfold cols_of, paths_ne. apply Forall_forall. intros pc Hin. apply in_map_iff in Hin.
  destruct Hin as [kc [<- _]]. cbn [fst]. apply split_char_ne.
Qed.

Lemma parse_cols_cols_of root data o :
  parse_cols root (flat_map (expand_cell (star_lengths data)) data) o = foldM (fa root) (cols_of data) o.
Proof. unfold parse_cols, cols_of. rewrite foldM_map. apply foldM_ext. intros a x. reflexivity. Qed.

Lemma dget_filter_some d k o : dget d k = Some o -> o <> ONone -> dget (filter not_none d) k = Some o.
Proof.
  unfold dget. induction d as [|[k' o'] r IH]; cbn [oget]; [discriminate|]. intros H Ho.
  destruct (str_eqb k' k) eqn:E.
  - injection H as ->. cbn [filter]. replace (not_none (k', o)) with true by (destruct o; try reflexivity; congruence).
    cbn [oget]. rewrite E. reflexivity.
  - cbn [filter]. destruct (not_none (k', o')); [cbn [oget]; rewrite E|]; apply IH; assumption.
Qed.

Lemma dget_filter_none d k : dget d k = None -> dget (filter not_none d) k = None.
Proof.
  unfold dget. induction d as [|[k' o'] r IH]; cbn [oget]; [reflexivity|]. intros H.
  destruct (str_eqb k' k) eqn:E; [discriminate|].
  cbn [filter]. destruct (not_none (k', o')); [cbn [oget]; rewrite E|]; apply IH; assumption.
Qed.

Lemma validate_fields_filter d fields fs :
  validate_fields d fields = Ok fs -> validate_fields (filter not_none d) fields = Ok fs.
Proof.
  revert fs. induction fields as [|[n [tf dflt]] r IH]; intros fs H; [exact H|].
  cbn [validate_fields] in *.
  destruct (dget d n) as [o|] eqn:Eg.
  - destruct (validate tf o) as [v|e] eqn:Ev; [|discriminate].
    assert (Ho : o <> ONone) by (intros ->; rewrite validate_none in Ev; discriminate).
    rewrite (dget_filter_some d n o Eg Ho), Ev. cbn [bind] in *.
    destruct (validate_fields d r) as [vs|e]; [|discriminate]. rewrite (IH vs eq_refl). exact H.
  - rewrite (dget_filter_none d n Eg).
    destruct dflt as [dv|]; [|discriminate]. cbn [bind] in *.
    destruct (validate_fields d r) as [vs|e]; [|discriminate]. rewrite (IH vs eq_refl). exact H.
Qed.

(* 1. every way of writing the row parses to the value *)
Theorem encodes_parse rm v cells : Encodes rm v cells -> parse_row rm cells = Ok v.
Proof.
  intros [data Hm Hrk HE]. unfold parse_row. rewrite Hrk. cbn [bind].
  rewrite parse_cols_cols_of.
  destruct (proj1 enc_sound _ _ _ _ HE) as [Hemp Hne].
  assert (Hcols : cols_of data <> []) by (intros H; specialize (Hemp H); discriminate).
  destruct (Hne Hcols) as [o [Hf Hv]].
  rewrite (fold_slot_spread _ _ ONone (cols_of_paths data) Hcols) in Hf.
  destruct (rm_ty rm) as [| | | | | |fields h2f f2h] eqn:Et; try discriminate.
  cbn [init_slot is_list_ty is_model_ty] in Hf. rewrite Hf. cbn [bind].
  destruct o as [| | | | | |d]; try (cbn in Hv; discriminate).
  rewrite validate_model in *. destruct (validate_fields d fields) as [fs|e] eqn:Evf; [|discriminate].
  rewrite (validate_fields_filter d fields fs Evf). exact Hv.
Qed.

(* 2. the parse depends on the value only, not on the layout *)
Theorem layout_independent rm v c1 c2 : Encodes rm v c1 -> Encodes rm v c2 -> parse_row rm c1 = parse_row rm c2.
Proof. intros H1 H2. rewrite (encodes_parse _ _ _ H1), (encodes_parse _ _ _ H2). reflexivity. Qed.
