(* C04, finding webhook-body-shadowed — the row the EXPORTER writes for a call_webhook node (E2's model of
   unparse_row on the regenerated FlowRowModel, Row/WebhookHeadersFacts.v: hook_row), padded with the blank
   `message_text` cell it gets in a sheet in which another row has a main argument, read back by E2's
   model of parse_row.  Decided by the probed constant rekey_blank_keeps (Row/BlankAliasFacts.v). *)
From Coq Require Import List NArith ZArith Bool String Ascii.
From RPFT Require Import Base.Sexp Base.PyStr Base.PyStrFacts Base.Result Base.ODict Gen.Tables
  Cell.Cell Row.Ty Row.Layout Row.RowParse Row.RowUnparse Row.FlowRow Row.RoundTrip Row.FlowRowFacts
  Row.WebhookHeadersFacts Row.EncodesExamples Row.BlankAliasFacts.
Import ListNotations.
Local Open Scope N_scope.

(* the exported cells, then the blank cell of the sheet's message_text column *)
Definition padded_with_message_text (cells : list (str * str)) : list (str * str) := cells ++ [(w_header, [])].

Definition hook_export_statement (b : bool) : Prop :=
  match flow_unparse (hook_row []) false with
  | Ok cells =>
      oget str_eqb cells s!"webhook.body" = Some s!"b" /\ oget str_eqb cells w_header = None
      /\ parse_row_with b flow_row_model cells = Ok (hook_row [])
      /\ (if b then parse_row_with b flow_row_model (padded_with_message_text cells) = Ok (hook_row [])
          else is_ok (parse_row_with b flow_row_model (padded_with_message_text cells)) = true
               /\ body_of (parse_row_with b flow_row_model (padded_with_message_text cells)) = Some [])
  | Err _ => False
  end.

Lemma hook_export_any b : hook_export_statement b.
Proof. destruct b; vm_compute; repeat split; reflexivity. Qed.

(* the body "b" of the exported call_webhook row survives the padded sheet row iff the tree keeps the
   earlier value of a field against a later blank cell *)
Theorem webhook_export_padded_witness :
  match flow_unparse (hook_row []) false with
  | Ok cells =>
      oget str_eqb cells s!"webhook.body" = Some s!"b" /\ oget str_eqb cells w_header = None
      /\ flow_parse cells = Ok (hook_row [])
      /\ (if rekey_blank_keeps then flow_parse (padded_with_message_text cells) = Ok (hook_row [])
          else is_ok (flow_parse (padded_with_message_text cells)) = true
               /\ body_of (flow_parse (padded_with_message_text cells)) = Some [])
  | Err _ => False
  end.
Proof.
  unfold flow_parse. pose proof (hook_export_any rekey_blank_keeps) as H. unfold hook_export_statement in H.
  destruct (flow_unparse (hook_row []) false) as [cells|e]; [|exact H].
  rewrite !parse_row_with_probe. exact H.
Qed.
