(* E2 — model of RowParser.unparse_row (unparse_row_recurse, write_to_output_dict,
   to_nested_list, is_default_value).  Definitions only.  Column paths are produced relative
   to the value being written; the caller prepends its own component (the Python carries the
   absolute prefix string; the two are the same list of columns). *)
From Coq Require Import List NArith ZArith Bool.
From RPFT Require Import Base.Sexp Base.PyStr Base.Result Base.ODict Gen.Tables Cell.Cell Row.Ty Row.Layout.
Import ListNotations.
Local Open Scope N_scope.

Definition s_True : str := [84; 114; 117; 101].
Definition s_False : str := [70; 97; 108; 115; 101].

(* str(value) of a basic value: what ends up in the cell (write_to_output_dict stores the
   object itself, the sheet export / parse_as_string applies str()) *)
Definition basic_text (t : ty) (v : value) : res str :=
  match t, v with
  | TStr, VStr s => Ok s
  | TInt, VInt z => Ok (print_Z z)
  | TFloat, VFloat s => Ok s
  | TBool, VBool b => Ok (if b then s_True else s_False)
  | _, _ => Err EShape
  end.

Definition is_basic_ty (t : ty) : bool :=
  match t with TStr | TInt | TFloat | TBool => true | _ => false end.

(* contents of a bare list: strings and lists (what the parser can put there) *)
Fixpoint to_nv_u (v : value) : res nv :=
  match v with
  | VStr s => Ok (Str s)
  | VList l => rmap Lst (mapR to_nv_u l)
  | _ => Err EUnsupported
  end.

(* to_nested_list; basic leaves are given as the text join_from_lists will emit for them
   (escape_string for str, str() for int/float/bool — which escape_string leaves alone) *)
Fixpoint to_nv (t : ty) (v : value) {struct t} : res nv :=
  match t, v with
  | TUList, VList l => rmap Lst (mapR to_nv_u l)
  | TList t', VList l => rmap Lst (mapR (to_nv t') l)
  | TModel fields _ _, VModel fs =>
    rmap Lst
      ((fix go (fds : list field) (fs : list (str * value)) : res (list nv) :=
          match fds, fs with
          | [], [] => Ok []
          | (n, (tf, d)) :: fds', (n', v') :: fs' =>
            if negb (str_eqb n n') then Err EShape
            else if is_default d v' then go fds' fs'
            else do x <- to_nv tf v'; do r <- go fds' fs'; Ok (Lst [Str n; x] :: r)
          | _, _ => Err EShape
          end) fields fs)
  | _, _ => rmap Str (basic_text t v)
  end.

Definition join_cell (x : nv) : res str :=
  match join_from_lists 0 x with Some s => Ok s | None => Err EJoin end.

(* write_to_output_dict: a basic value as it is, anything else through to_nested_list + join *)
Definition write_text (t : ty) (v : value) : res str :=
  if is_basic_ty t then basic_text t v else do x <- to_nv t v; join_cell x.

Definition cols := list (list str * str).
Definition prefix_cols (c : str) (l : cols) : cols := map (fun ps => (c :: fst ps, snd ps)) l.

Section Unparse.
  (* matches_headers against target_headers / excluded_headers, on the absolute prefix *)
  Variables tgt exc : list str -> bool.

  (* a bare list's contents, written without type information *)
  Fixpoint unparse_u (v : value) (comps : list str) {struct v} : res cols :=
    if exc comps then Ok [] else
    match v with
    | VStr s => Ok [([], s)]
    | VList l =>
      if tgt comps then do x <- to_nv_u v; do s <- join_cell x; Ok [([], s)]
      else rmap (@concat _)
             (mapRi (fun i e => let c := print_nat (S i) in
                                rmap (prefix_cols c) (unparse_u e (comps ++ [c]))) O l)
    | _ => Err EUnsupported
    end.

  Fixpoint unparse_rec (t : ty) (v : value) (comps : list str) {struct t} : res cols :=
    if exc comps then Ok [] else
    if is_basic_ty t || tgt comps then do s <- write_text t v; Ok [([], s)]
    else
      match t, v with
      | TList t', VList l =>
        rmap (@concat _)
             (mapRi (fun i e => let c := print_nat (S i) in
                                rmap (prefix_cols c) (unparse_rec t' e (comps ++ [c]))) O l)
      | TUList, VList l =>
        rmap (@concat _)
             (mapRi (fun i e => let c := print_nat (S i) in
                                rmap (prefix_cols c) (unparse_u e (comps ++ [c]))) O l)
      | TModel fields _ f2h, VModel fs =>
        rmap (@concat _)
          ((fix go (fds : list field) (fs : list (str * value)) : res (list cols) :=
              match fds, fs with
              | [], [] => Ok []
              | (n, (tf, d)) :: fds', (n', v') :: fs' =>
                if negb (str_eqb n n') then Err EShape
                else if is_default d v' then go fds' fs'
                else
                  let h := remap_get f2h n in
                  do here <- (if str_eqb n h then rmap (prefix_cols h) (unparse_rec tf v' (comps ++ [h]))
                              else if exc (comps ++ [h]) then Ok []
                              else do s <- write_text tf v'; Ok [([h], s)]);
                  do r <- go fds' fs'; Ok (here :: r)
              | _, _ => Err EShape
              end) fields fs)
      | _, _ => Err EShape
      end.
End Unparse.

Fixpoint nodup_str (l : list str) : bool :=
  match l with
  | [] => true
  | x :: r => negb (existsb (str_eqb x) r) && nodup_str r
  end.

Definition unparse_row (root : ty) (v : value) (targets excluded : list str) : res (list (str * str)) :=
  do cs <- unparse_rec (matches_headers targets) (matches_headers excluded) root v [];
  let cells := map (fun ps => (header_of (fst ps), snd ps)) cs in
  if nodup_str (map fst cells) then Ok cells else Err EDupKey.
