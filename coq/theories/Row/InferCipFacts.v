(* C18, histories — facts about the registry state machine Row/InferCip.v: what ONE long-lived
   ContentIndexParser registers does not depend on what it processed before, except through
   the registry itself (a registered name wins).
     get_sheet_history_independent   a load of an unregistered sheet gives the same sheet in any
                                     two states (up to the identity of the class)
     fresh_load_denotes              ... and, for the header row of a schema of the family, the
                                     denoted model, whatever the state
     scan_all_sound                  invariant of every reachable state: every registered
                                     inferred model is sheet_model of the header row of the sheet
                                     named as its source (a function of that header row alone);
                                     the same class object never stands for two structures
     scan_loads_pure                 plain loads of distinct sheets: run = map of the pure load
     scan_all_content_independent    two workbooks with the same header rows: same outcomes *)
From Coq Require Import List NArith ZArith Bool Lia PeanoNat.
From RPFT Require Import Base.Sexp Base.PyStr Base.ODict Base.Result Gen.Tables
  Row.InferTy Row.Infer Row.InferFacts Row.InferMainFacts Row.InferCorollaries Row.InferCip.
Import ListNotations.

Definition obs_load (r : result cerr (dsheet * nat)) : result cerr (mobs * list str) :=
  rmap (fun dn : dsheet * nat => obs_sheet (fst dn)) r.

(* ---- the stamp only names the class *)
Lemma load_fresh_obs ev n n' name dm : obs_load (load_fresh ev n name dm) = obs_load (load_fresh ev n' name dm).
Proof.
  unfold obs_load, load_fresh.
  destruct (user_model ev dm) as [[[u reads]|]|e]; [| |reflexivity].
  - destruct (wb_get ev name); [|reflexivity]. destruct (str_in name reads); reflexivity.
  - destruct (wb_get ev name) as [ws|]; [|reflexivity].
    destruct (sheet_model (ws_table ws)); [|reflexivity]. destruct (ws_inferred_ok ws); reflexivity.
Qed.

Lemma get_sheet_unregistered ev st n name dm :
  oget str_eqb (reg st) name = None -> get_sheet ev st n name dm = load_fresh ev n name dm.
Proof. intros H. unfold get_sheet. rewrite H. reflexivity. Qed.

Lemma get_sheet_history_independent ev st1 st2 n1 n2 name dm :
  oget str_eqb (reg st1) name = None -> oget str_eqb (reg st2) name = None ->
  obs_load (get_sheet ev st1 n1 name dm) = obs_load (get_sheet ev st2 n2 name dm).
Proof.
  intros H1 H2. rewrite (get_sheet_unregistered _ _ _ _ _ H1), (get_sheet_unregistered _ _ _ _ _ H2).
  apply load_fresh_obs.
Qed.

(* ---- with the headline theorem: the model-less sheet whose header row renders a schema *)
Lemma fresh_load_denotes ev st n name dm sc rows :
  wf_schema sc = true ->
  oget str_eqb (reg st) name = None ->
  wb_get ev name = Some (mk_wsheet (mk_table (headers_of sc) rows) true) ->
  user_model ev dm = Ok None ->
  get_sheet ev st n name dm = Ok (mk_dsheet (RInferred n name (fst (denote sc))) [name], S n).
Proof.
  intros Hwf Hreg Hwb Hum. rewrite (get_sheet_unregistered _ _ _ _ _ Hreg).
  unfold load_fresh. rewrite Hum, Hwb. cbn [ws_table ws_inferred_ok].
  rewrite (sheet_model_of_schema sc rows Hwf). reflexivity.
Qed.

(* the whole index row: `data_sheet, name` on any state where [name] is not registered *)
Lemma step_load_denotes ev st name sc rows :
  wf_schema sc = true ->
  oget str_eqb (reg st) name = None ->
  wb_get ev name = Some (mk_wsheet (mk_table (headers_of sc) rows) true) ->
  exists st', step ev st (load_row name) = Ok st'
    /\ oget str_eqb (reg st') name = Some (mk_dsheet (RInferred (next_stamp st) name (fst (denote sc))) [name]).
Proof.
  intros Hwf Hreg Hwb.
  assert (Hum : user_model ev [] = Ok None) by (unfold user_model; destruct (e_module ev); reflexivity).
  eexists. split.
  - unfold step, op_result, load_row. cbn [dr_sheet_names dr_op_type dr_data_model dr_new_name is_empty].
    unfold op_concat. cbn [concat_loop].
    rewrite (fresh_load_denotes ev st (next_stamp st) name [] sc rows Hwf Hreg Hwb Hum).
    cbn [ds_model ds_srcs app]. reflexivity.
  - cbn [reg]. unfold target. cbn [dr_new_name dr_sheet_names is_empty hd].
    apply (oget_oset_same str_eqb str_eqb_eq).
Qed.

(* ---- the invariant of the reachable states *)
Definition has_user (ev : env) (u : str) : Prop :=
  exists mods reads, e_module ev = Some mods /\ oget str_eqb mods u = Some reads.

Definition inferred_from (ev : env) (src : str) (t : ty) : Prop :=
  exists ws, wb_get ev src = Some ws /\ sheet_model (ws_table ws) = Ok t.

Definition model_sound (ev : env) (bound : nat) (m : rmodel) : Prop :=
  match m with
  | RUser u => has_user ev u
  | RInferred k src t => (k < bound)%nat /\ inferred_from ev src t
  end.

Definition registered_model (st : state) (m : rmodel) : Prop :=
  exists name d, oget str_eqb (reg st) name = Some d /\ ds_model d = m.

Definition reg_sound (ev : env) (st : state) : Prop :=
  (forall m, registered_model st m -> model_sound ev (next_stamp st) m)
  /\ (forall k s1 t1 s2 t2, registered_model st (RInferred k s1 t1) -> registered_model st (RInferred k s2 t2) ->
                            s1 = s2 /\ t1 = t2).

Lemma model_sound_mono ev b b' m : (b <= b')%nat -> model_sound ev b m -> model_sound ev b' m.
Proof. intros Hle. destruct m; cbn; [tauto|]. intros [H1 H2]. split; [lia|exact H2]. Qed.

(* where the model of a produced sheet comes from: the registry, or created now with a stamp in [lo, hi) *)
Definition origin (ev : env) (st : state) (lo hi : nat) (m : rmodel) : Prop :=
  registered_model st m
  \/ match m with
     | RUser u => has_user ev u
     | RInferred k src t => (lo <= k < hi)%nat /\ inferred_from ev src t
     end.

Lemma origin_mono ev st lo hi hi' m : (hi <= hi')%nat -> origin ev st lo hi m -> origin ev st lo hi' m.
Proof.
  intros Hle [H|H]; [left; exact H|right]. destruct m; [exact H|]. destruct H as [H1 H2]. split; [lia|exact H2].
Qed.

Lemma user_model_some ev dm u reads : user_model ev dm = Ok (Some (u, reads)) -> has_user ev u.
Proof.
  unfold user_model. destruct (e_module ev) as [mods|] eqn:Em; [|discriminate].
  destruct (is_empty dm); [discriminate|]. destruct (oget str_eqb mods dm) as [r|] eqn:Eg; [|discriminate].
  intros H. injection H as <- <-. exists mods, r. split; [exact Em|exact Eg].
Qed.

Lemma load_fresh_origin ev st n name dm d n' :
  load_fresh ev n name dm = Ok (d, n') -> (n <= n')%nat /\ origin ev st n n' (ds_model d).
Proof.
  unfold load_fresh. destruct (user_model ev dm) as [[[u reads]|]|e] eqn:Eu; [| |discriminate].
  - destruct (wb_get ev name); [|discriminate]. destruct (str_in name reads); [|discriminate].
    intros H. injection H as <- <-. split; [lia|]. right. cbn. apply (user_model_some _ _ _ _ Eu).
  - destruct (wb_get ev name) as [ws|] eqn:Ew; [|discriminate].
    destruct (sheet_model (ws_table ws)) as [m|] eqn:Em; [|discriminate].
    destruct (ws_inferred_ok ws); [|discriminate].
    intros H. injection H as <- <-. split; [lia|]. right. cbn. split; [lia|]. exists ws. split; assumption.
Qed.

Lemma get_sheet_origin ev st n name dm d n' :
  get_sheet ev st n name dm = Ok (d, n') -> (n <= n')%nat /\ origin ev st n n' (ds_model d).
Proof.
  unfold get_sheet. destruct (oget str_eqb (reg st) name) as [d0|] eqn:Eg.
  - intros H. injection H as <- <-. split; [lia|]. left. exists name, d0. split; [exact Eg|reflexivity].
  - apply load_fresh_origin.
Qed.

Lemma concat_loop_origin ev st dm lo : forall names srcs um n srcs' um' n',
  (lo <= n)%nat ->
  (forall m, um = Some m -> origin ev st lo n m) ->
  concat_loop ev st names dm srcs um n = Ok (srcs', um', n') ->
  (n <= n')%nat /\ (forall m, um' = Some m -> origin ev st lo n' m).
Proof.
  induction names as [|name rest IH]; intros srcs um n srcs' um' n' Hlo Hum; cbn [concat_loop].
  - intros H. injection H as <- <- <-. split; [lia|exact Hum].
  - destruct (get_sheet ev st n name dm) as [[d n1]|e] eqn:Eg; [|discriminate].
    destruct (get_sheet_origin _ _ _ _ _ _ _ Eg) as [Hle Hor].
    destruct (match um with Some m => negb (rmodel_same m (ds_model d)) | None => false end); [discriminate|].
    intros H. apply IH in H.
    + destruct H as [H1 H2]. split; [lia|exact H2].
    + lia.
    + intros m Hm. injection Hm as <-. destruct Hor as [Hr|Hf]; [left; exact Hr|right].
      destruct (ds_model d); [exact Hf|]. destruct Hf as [Hk Hi]. split; [lia|exact Hi].
Qed.

Lemma op_result_origin ev st r d n' :
  op_result ev st r = Ok (d, n') ->
  (next_stamp st <= n')%nat /\ origin ev st (next_stamp st) n' (ds_model d).
Proof.
  assert (Hconcat : forall names dm, op_concat ev st names dm = Ok (d, n') ->
                                     (next_stamp st <= n')%nat /\ origin ev st (next_stamp st) n' (ds_model d)).
  { intros names dm. unfold op_concat.
    destruct (concat_loop ev st names dm [] None (next_stamp st)) as [[[srcs um] n1]|e] eqn:Ec; [|discriminate].
    destruct um as [m|]; [|discriminate]. intros H. injection H as <- <-.
    apply concat_loop_origin with (lo := next_stamp st) in Ec; [|lia|discriminate].
    destruct Ec as [H1 H2]. split; [exact H1|]. cbn [ds_model]. apply H2. reflexivity. }
  assert (Hkeep : forall name dm, op_keep ev st name dm = Ok (d, n') ->
                                  (next_stamp st <= n')%nat /\ origin ev st (next_stamp st) n' (ds_model d)).
  { intros name dm. unfold op_keep. apply get_sheet_origin. }
  unfold op_result. destruct (dr_sheet_names r) as [|first rest]; [discriminate|].
  destruct (is_empty (dr_op_type r)); [apply Hconcat|].
  destruct (is_empty (dr_new_name r)); [discriminate|].
  destruct (str_eqb (dr_op_type r) dop_word_concat); [apply Hconcat|].
  destruct (str_eqb (dr_op_type r) dop_word_filter); [apply Hkeep|].
  destruct (str_eqb (dr_op_type r) dop_word_sort); [apply Hkeep|discriminate].
Qed.

Lemma registered_after_set st k d n' m :
  registered_model (mk_state (oset str_eqb (reg st) k d) n') m ->
  ds_model d = m \/ registered_model st m.
Proof.
  intros [name [d0 [Hg Hm]]]. cbn [reg] in Hg.
  destruct (str_eqb k name) eqn:E.
  - apply str_eqb_eq in E. subst name. rewrite (oget_oset_same str_eqb str_eqb_eq) in Hg.
    injection Hg as <-. left. exact Hm.
  - right. exists name, d0. split; [|exact Hm].
    rewrite (oget_oset_other str_eqb str_eqb_eq) in Hg; [exact Hg|].
    intros ->. rewrite str_eqb_refl in E. discriminate.
Qed.

Lemma step_sound ev st r st' : reg_sound ev st -> step ev st r = Ok st' -> reg_sound ev st'.
Proof.
  intros [Hs Hu]. unfold step. destruct (op_result ev st r) as [[d n']|e] eqn:Eo; [|discriminate].
  intros H. injection H as <-. destruct (op_result_origin _ _ _ _ _ Eo) as [Hle Hor].
  assert (Hnew : model_sound ev n' (ds_model d)).
  { destruct Hor as [Hr|Hf].
    - apply (model_sound_mono ev (next_stamp st)); [exact Hle|]. apply Hs, Hr.
    - destruct (ds_model d); cbn; [exact Hf|]. destruct Hf as [Hk Hi]. split; [lia|exact Hi]. }
  split.
  - intros m Hm. cbn [next_stamp]. apply registered_after_set in Hm. destruct Hm as [<-|Hm]; [exact Hnew|].
    apply (model_sound_mono ev (next_stamp st)); [exact Hle|]. apply Hs, Hm.
  - intros k s1 t1 s2 t2 H1 H2.
    apply registered_after_set in H1. apply registered_after_set in H2.
    (* the new model is an old one, or its stamp is not below next_stamp st *)
    assert (Hcase : forall s t s' t', ds_model d = RInferred k s t -> registered_model st (RInferred k s' t') -> s = s' /\ t = t').
    { intros s t s' t' Hd Hold. destruct Hor as [Hr|Hf].
      - rewrite Hd in Hr. apply (Hu k s t s' t' Hr Hold).
      - rewrite Hd in Hf. destruct Hf as [Hk _]. apply Hs in Hold. cbn in Hold. lia. }
    destruct H1 as [H1|H1], H2 as [H2|H2].
    + rewrite H1 in H2. injection H2 as <- <-. split; reflexivity.
    + apply (Hcase s1 t1 s2 t2 H1 H2).
    + destruct (Hcase s2 t2 s1 t1 H2 H1) as [-> ->]. split; reflexivity.
    + apply (Hu k s1 t1 s2 t2 H1 H2).
Qed.

Lemma init_sound ev : reg_sound ev init_state.
Proof.
  split.
  - intros m [name [d [H _]]]. cbn in H. discriminate.
  - intros k s1 t1 s2 t2 [name [d [H _]]]. cbn in H. discriminate.
Qed.

Definition outcome_sound (ev : env) (o : result cerr state) : Prop :=
  match o with Ok st => reg_sound ev st | Err _ => True end.

Lemma scan_all_sound_from ev rows : forall st, reg_sound ev st -> Forall (outcome_sound ev) (scan_all ev rows st).
Proof.
  induction rows as [|r rest IH]; intros st Hst; cbn [scan_all]; [constructor|].
  destruct (step ev st r) as [st'|e] eqn:Es.
  - assert (Hst' := step_sound _ _ _ _ Hst Es). constructor; [exact Hst'|apply IH, Hst'].
  - constructor; [exact I|apply IH, Hst].
Qed.

Lemma scan_all_sound ev rows : Forall (outcome_sound ev) (scan_all ev rows init_state).
Proof. apply scan_all_sound_from, init_sound. Qed.

Lemma run_sound ev rows st : run ev rows init_state = Ok st -> reg_sound ev st.
Proof.
  unfold run. assert (H := init_sound ev). revert H. generalize init_state.
  induction rows as [|r rest IH]; intros st0 H0; cbn [foldM].
  - intros H. injection H as <-. exact H0.
  - destruct (step ev st0 r) as [st1|e] eqn:Es; [|discriminate]. apply IH, (step_sound _ _ _ _ H0 Es).
Qed.

(* what the invariant says about one registered sheet, spelled out *)
Lemma sound_registered_inferred ev st name d k src t :
  reg_sound ev st -> oget str_eqb (reg st) name = Some d -> ds_model d = RInferred k src t ->
  exists ws, wb_get ev src = Some ws /\ sheet_model (ws_table ws) = Ok t.
Proof.
  intros [Hs _] Hg Hm. assert (H : registered_model st (RInferred k src t)) by (exists name, d; split; assumption).
  apply Hs in H. destruct H as [_ H]. exact H.
Qed.

(* ---- plain loads of distinct sheets: the run is the map of the pure load *)
Fixpoint outcomes (rows : list dsrow) (os : list (result cerr state)) : list (result cerr (mobs * list str)) :=
  match rows, os with
  | r :: rs, o :: os' => registered r o :: outcomes rs os'
  | _, _ => []
  end.

Lemma step_load_row ev st name :
  oget str_eqb (reg st) name = None ->
  match step ev st (load_row name) with
  | Ok st' => (forall other, other <> name -> oget str_eqb (reg st') other = oget str_eqb (reg st) other)
              /\ registered (load_row name) (Ok st') = pure_load ev name
  | Err e => pure_load ev name = Err e
  end.
Proof.
  intros Hreg. unfold step, op_result, load_row.
  cbn [dr_sheet_names dr_op_type dr_data_model dr_new_name is_empty]. unfold op_concat. cbn [concat_loop].
  rewrite (get_sheet_unregistered _ _ _ _ _ Hreg).
  assert (Hobs := load_fresh_obs ev (next_stamp st) 0 name []). unfold obs_load in Hobs. unfold pure_load.
  destruct (load_fresh ev (next_stamp st) name []) as [[d n1]|e] eqn:El.
  - cbn [ds_model ds_srcs app]. split.
    + intros other Hne. cbn [reg]. unfold target. cbn [dr_new_name dr_sheet_names is_empty hd].
      apply (oget_oset_other str_eqb str_eqb_eq). exact Hne.
    + unfold registered. cbn [reg]. unfold target. cbn [dr_new_name dr_sheet_names is_empty hd].
      rewrite (oget_oset_same str_eqb str_eqb_eq). rewrite <- Hobs. cbn [rmap fst].
      unfold obs_sheet. cbn [ds_model ds_srcs]. reflexivity.
  - rewrite <- Hobs. reflexivity.
Qed.

Lemma scan_loads_pure_from ev names : forall st,
  NoDup names -> (forall n, In n names -> oget str_eqb (reg st) n = None) ->
  outcomes (map load_row names) (scan_all ev (map load_row names) st) = map (pure_load ev) names.
Proof.
  induction names as [|name rest IH]; intros st Hnd Hun; [reflexivity|].
  cbn [map scan_all]. inversion Hnd as [|x l Hnotin Hnd']; subst.
  assert (Hs := step_load_row ev st name (Hun name (or_introl eq_refl))).
  destruct (step ev st (load_row name)) as [st'|e] eqn:Es.
  - destruct Hs as [Hother Hreg]. cbn [outcomes map]. rewrite Hreg. f_equal. apply IH; [exact Hnd'|].
    intros n Hn. rewrite Hother; [apply Hun; right; exact Hn|]. intros ->. contradiction.
  - cbn [outcomes map registered]. rewrite Hs. f_equal. apply IH; [exact Hnd'|]. intros n Hn. apply Hun. right. exact Hn.
Qed.

Lemma scan_loads_pure ev names :
  NoDup names ->
  outcomes (map load_row names) (scan_all ev (map load_row names) init_state) = map (pure_load ev) names.
Proof. intros H. apply scan_loads_pure_from; [exact H|]. intros n _. reflexivity. Qed.

(* ---- the rows of the workbook are not consulted (beyond the readability flags, which are inputs) *)
Lemma oget_map_snd {V W} (f : V -> W) (l : list (str * V)) k :
  oget str_eqb (map (fun nv : str * V => (fst nv, f (snd nv))) l) k = option_map f (oget str_eqb l k).
Proof.
  induction l as [|[k' v] l IH]; [reflexivity|]. cbn [map oget fst snd].
  destruct (str_eqb k' k); [reflexivity|exact IH].
Qed.

Lemma load_fresh_headers ev1 ev2 n name dm :
  env_headers ev1 = env_headers ev2 -> load_fresh ev1 n name dm = load_fresh ev2 n name dm.
Proof.
  unfold env_headers. intros H. injection H as Hs Hm.
  unfold load_fresh, user_model. rewrite Hm.
  assert (Hw : option_map (fun w => (dt_headers (ws_table w), ws_inferred_ok w)) (wb_get ev1 name)
               = option_map (fun w => (dt_headers (ws_table w), ws_inferred_ok w)) (wb_get ev2 name)).
  { unfold wb_get. rewrite <- !oget_map_snd. rewrite Hs. reflexivity. }
  destruct (wb_get ev1 name) as [w1|], (wb_get ev2 name) as [w2|]; cbn [option_map] in Hw; try discriminate.
  - injection Hw as Hh Hok. unfold sheet_model. rewrite Hh, Hok. reflexivity.
  - reflexivity.
Qed.

Lemma get_sheet_headers ev1 ev2 st n name dm :
  env_headers ev1 = env_headers ev2 -> get_sheet ev1 st n name dm = get_sheet ev2 st n name dm.
Proof. intros H. unfold get_sheet. destruct (oget str_eqb (reg st) name); [reflexivity|apply load_fresh_headers, H]. Qed.

Lemma concat_loop_headers ev1 ev2 st dm : env_headers ev1 = env_headers ev2 ->
  forall names srcs um n, concat_loop ev1 st names dm srcs um n = concat_loop ev2 st names dm srcs um n.
Proof.
  intros H. induction names as [|name rest IH]; intros srcs um n; [reflexivity|]. cbn [concat_loop].
  rewrite (get_sheet_headers ev1 ev2 st n name dm H).
  destruct (get_sheet ev2 st n name dm) as [[d n1]|e]; [|reflexivity].
  destruct (match um with Some m => negb (rmodel_same m (ds_model d)) | None => false end); [reflexivity|apply IH].
Qed.

Lemma step_headers ev1 ev2 st r : env_headers ev1 = env_headers ev2 -> step ev1 st r = step ev2 st r.
Proof.
  intros H. unfold step, op_result, op_concat, op_keep.
  destruct (dr_sheet_names r) as [|first rest] eqn:En; [reflexivity|].
  rewrite !(concat_loop_headers ev1 ev2 st _ H), !(get_sheet_headers ev1 ev2 st _ _ _ H). reflexivity.
Qed.

Lemma scan_all_content_independent ev1 ev2 rows : env_headers ev1 = env_headers ev2 ->
  forall st, scan_all ev1 rows st = scan_all ev2 rows st.
Proof.
  intros H. induction rows as [|r rest IH]; intros st; [reflexivity|]. cbn [scan_all].
  rewrite (step_headers ev1 ev2 st r H). destruct (step ev2 st r); rewrite IH; reflexivity.
Qed.

Local Open Scope N_scope.
(* ---- a witness: one parser reads two model-less sheets with the same column names, the second without the
   annotations of the first, then the first again under a new name and an unreadable third one in between *)
Definition ex_hist_env : env :=
  mk_env [ ([97], mk_wsheet (mk_table [[73; 68]; [110; 58; 105; 110; 116; 61; 51]] []) true);      (* a: ID, n:int=3 *)
           ([98], mk_wsheet (mk_table [[73; 68]; [110]] []) true);                                  (* b: ID, n *)
           ([99], mk_wsheet (mk_table [[73; 68]; [110; 58; 105; 110; 116]] []) false) ]             (* c: ID, n:int; a bad row *)
         None.
Definition ex_hist_rows : list dsrow :=
  [load_row [97]; load_row [99]; load_row [98]; mk_dsrow [[97]] [122] [] dop_word_filter; load_row [122]].

Definition ex_int3 : ty := TRec [([73; 68], (TStr, VStr [])); ([110], (TInt, VInt 3%Z))].
Definition ex_str : ty := TRec [([73; 68], (TStr, VStr [])); ([110], (TStr, VStr []))].

Lemma ex_hist_outcomes :
  outcomes ex_hist_rows (scan_all ex_hist_env ex_hist_rows init_state)
  = [ Ok (OInferred [97] ex_int3, [[97]]); Err CRows; Ok (OInferred [98] ex_str, [[98]]);
      Ok (OInferred [97] ex_int3, [[97]]); Ok (OInferred [97] ex_int3, [[97]]) ].
Proof. vm_compute. reflexivity. Qed.
