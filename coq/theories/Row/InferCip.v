(* C18, histories — the data-sheet registry of ONE long-lived
   rpft.parsers.creation.contentindexparser.ContentIndexParser, with the row model of every
   registered data sheet (definitions only; facts in Row/InferCipFacts.v).

   The property says "the headers alone determine the row structure".  The functions of
   model_inference.py are pure, but the object that calls them lives for a whole run and
   legitimately keeps state: [self.data_sheets] (a name that is registered wins over the
   sheet of that name in the workbook; an operation registers its result under new_name).
   This file mirrors that state machine as coded:

     _process_data_sheet      step          _get_data_sheet        get_sheet
     _get_new_data_sheet      load_fresh    _data_sheets_concat    concat_loop / op_concat
     _data_sheets_filter/sort op_keep (the row model and the sources are kept)

   and says WHICH model every registered sheet carries: the user's class [RUser name]
   (getattr(user_models_module, name)) or a class inferred by model_from_headers
   [RInferred stamp src m]: [stamp] is the identity of the class object (every inference
   creates a new class; `user_model is not data_sheet.row_model` in _data_sheets_concat compares
   identities), [src] the name of the sheet whose header row was read, [m] = the structure
   [sheet_model] gives for that header row.

   Rows are not modelled (Row/Infer.v, sheet_model).  Whether the rows of a sheet can be read
   under a model is an INPUT of the state machine: [ws_inferred_ok] (under the model inferred
   from the sheet's own headers) and the list of sheets a user model reads; the harness
   determines both in isolation (fresh RowParser / CellParser).  Filter and sort expressions
   are assumed to evaluate (the generators use total expressions that keep every row).

   The shape follows Index/DataOps.v (C11), which abstracts the models to their identities;
   here the identity comes with the inferred structure and its provenance.  The operation
   words come from the regenerated Gen/Tables.v. *)
From Coq Require Import List NArith Bool.
From RPFT Require Import Base.Sexp Base.PyStr Base.ODict Base.Result Gen.Tables Row.InferTy Row.Infer.
Import ListNotations.

(* every LOGGER.critical site / uncaught exception of the mirrored functions *)
Inductive cerr :=
| CNoSheetName      (* "at least one sheet_name has to be specified" *)
| CNoNewName        (* "If an operation is applied to a data_sheet, a new_name has to be provided" *)
| CUnknownOp        (* 'Unknown operation "..."' *)
| CSheetNotFound    (* ParserError("Sheet not found") from _get_sheet_or_die *)
| CUndefinedModel   (* 'Undefined data_model_name' *)
| CModelMismatch    (* "Cannot concatenate data_sheets with different underlying models" *)
| CInfer (e : ierr) (* model_from_headers raises *)
| CRows.            (* a row of the sheet cannot be read under the model (input, see above) *)

Inductive rmodel :=
| RUser (name : str)
| RInferred (stamp : nat) (src : str) (m : ty).

(* `a is b` on row-model classes *)
Definition rmodel_same (a b : rmodel) : bool :=
  match a, b with
  | RUser x, RUser y => str_eqb x y
  | RInferred x _ _, RInferred y _ _ => Nat.eqb x y
  | _, _ => false
  end.

(* a registered DataSheet: its row_model and the sheets its rows were read from (in the order
   of reading, with repetitions) *)
Record dsheet := mk_dsheet { ds_model : rmodel; ds_srcs : list str }.

(* a sheet of the workbook *)
Record wsheet := mk_wsheet {
  ws_table : data_table;
  ws_inferred_ok : bool      (* every row is readable under the model inferred from the headers *)
}.

Record env := mk_env {
  e_sheets : list (str * wsheet);                  (* the reader: sheet name -> sheet *)
  e_module : option (list (str * list str))        (* user_models_module: None = not given;
                                                      model name -> the sheets it reads *)
}.

Record state := mk_state {
  reg : list (str * dsheet);    (* self.data_sheets: insertion ordered, set keeps the position *)
  next_stamp : nat              (* number of classes inferred so far by this parser *)
}.

Definition init_state : state := mk_state [] 0.

(* one data_sheet row of a content index *)
Record dsrow := mk_dsrow {
  dr_sheet_names : list str;
  dr_new_name : str;
  dr_data_model : str;
  dr_op_type : str
}.

Definition is_empty (s : str) : bool := match s with [] => true | _ => false end.

Section Cip.
Variable ev : env.

Definition wb_get (name : str) : option wsheet := oget str_eqb (e_sheets ev) name.

(* `if self.user_models_module and data_model_name: getattr(...)`: None = infer *)
Definition user_model (dm : str) : result cerr (option (str * list str)) :=
  match e_module ev with
  | None => Ok None
  | Some mods =>
    if is_empty dm then Ok None
    else match oget str_eqb mods dm with
         | Some reads => Ok (Some (dm, reads))
         | None => Err CUndefinedModel
         end
  end.

(* _get_new_data_sheet; [n] = classes inferred so far *)
Definition load_fresh (n : nat) (name dm : str) : result cerr (dsheet * nat) :=
  match user_model dm with
  | Err e => Err e
  | Ok um =>
    match wb_get name with
    | None => Err CSheetNotFound
    | Some ws =>
      match um with
      | Some (u, reads) =>
        if str_in name reads then Ok (mk_dsheet (RUser u) [name], n) else Err CRows
      | None =>
        match sheet_model (ws_table ws) with
        | Err e => Err (CInfer e)
        | Ok m => if ws_inferred_ok ws then Ok (mk_dsheet (RInferred n name m) [name], S n)
                  else Err CRows
        end
      end
    end
  end.

(* _get_data_sheet: a registered sheet wins (data_model is then ignored) *)
Definition get_sheet (st : state) (n : nat) (name dm : str) : result cerr (dsheet * nat) :=
  match oget str_eqb (reg st) name with
  | Some d => Ok (d, n)
  | None => load_fresh n name dm
  end.

(* _data_sheets_concat *)
Fixpoint concat_loop (st : state) (names : list str) (dm : str) (srcs : list str) (um : option rmodel) (n : nat)
  : result cerr (list str * option rmodel * nat) :=
  match names with
  | [] => Ok (srcs, um, n)
  | name :: rest =>
    match get_sheet st n name dm with
    | Err e => Err e
    | Ok (d, n') =>
      if match um with Some m => negb (rmodel_same m (ds_model d)) | None => false end
      then Err CModelMismatch
      else concat_loop st rest dm (srcs ++ ds_srcs d) (Some (ds_model d)) n'
    end
  end.

Definition op_concat (st : state) (names : list str) (dm : str) : result cerr (dsheet * nat) :=
  match concat_loop st names dm [] None (next_stamp st) with
  | Err e => Err e
  | Ok (srcs, Some m, n) => Ok (mk_dsheet m srcs, n)
  | Ok (_, None, _) => Err CNoSheetName   (* unreachable: names is checked non-empty before *)
  end.

(* _data_sheets_filter / _data_sheets_sort: DataSheet(new rows, data_sheet.row_model) *)
Definition op_keep (st : state) (name dm : str) : result cerr (dsheet * nat) :=
  get_sheet st (next_stamp st) name dm.

Definition op_result (st : state) (r : dsrow) : result cerr (dsheet * nat) :=
  match dr_sheet_names r with
  | [] => Err CNoSheetName
  | first :: _ =>
    if is_empty (dr_op_type r) then op_concat st (dr_sheet_names r) (dr_data_model r)
    else if is_empty (dr_new_name r) then Err CNoNewName
    else if str_eqb (dr_op_type r) dop_word_concat then op_concat st (dr_sheet_names r) (dr_data_model r)
    else if str_eqb (dr_op_type r) dop_word_filter then op_keep st first (dr_data_model r)
    else if str_eqb (dr_op_type r) dop_word_sort then op_keep st first (dr_data_model r)
    else Err CUnknownOp
  end.

(* new_name = row.new_name or sheet_names[0] *)
Definition target (r : dsrow) : str :=
  if is_empty (dr_new_name r) then hd [] (dr_sheet_names r) else dr_new_name r.

(* _process_data_sheet: self.data_sheets[new_name] = data_sheet *)
Definition step (st : state) (r : dsrow) : result cerr state :=
  match op_result st r with
  | Err e => Err e
  | Ok (d, n) => Ok (mk_state (oset str_eqb (reg st) (target r) d) n)
  end.

(* a content index = its data_sheet rows in order; the constructor stops at the first error *)
Definition run (rows : list dsrow) (st : state) : result cerr state := foldM step rows st.

(* the long-lived object driven row by row: a failed row leaves the object as it was (the
   exception leaves _process_data_sheet before anything is registered) and the next row is
   processed by the same object.  The outcome of every row. *)
Fixpoint scan_all (rows : list dsrow) (st : state) : list (result cerr state) :=
  match rows with
  | [] => []
  | r :: rest =>
    match step st r with
    | Err e => Err e :: scan_all rest st
    | Ok st' => Ok st' :: scan_all rest st'
    end
  end.

End Cip.

(* ---- what the theorems say about a registered sheet, without the identity of the class *)
Inductive mobs := OUser (name : str) | OInferred (src : str) (m : ty).
Definition obs_model (m : rmodel) : mobs :=
  match m with RUser u => OUser u | RInferred _ src t => OInferred src t end.
Definition obs_sheet (d : dsheet) : mobs * list str := (obs_model (ds_model d), ds_srcs d).

(* a row that loads one sheet without a data model and without an operation *)
Definition load_row (name : str) : dsrow := mk_dsrow [name] [] [] [].

(* the same load done by a parser that has done nothing before *)
Definition pure_load (ev : env) (name : str) : result cerr (mobs * list str) :=
  rmap (fun dn : dsheet * nat => obs_sheet (fst dn)) (load_fresh ev 0 name []).

(* the sheet a successful row registered *)
Definition registered (r : dsrow) (o : result cerr state) : result cerr (mobs * list str) :=
  match o with
  | Err e => Err e
  | Ok st => match oget str_eqb (reg st) (target r) with
             | Some d => Ok (obs_sheet d)
             | None => Err CNoSheetName   (* unreachable *)
             end
  end.

(* headers and flags of a workbook, without the rows *)
Definition env_headers (ev : env) : list (str * (list str * bool)) * option (list (str * list str)) :=
  (map (fun nw : str * wsheet => (fst nw, (dt_headers (ws_table (snd nw)), ws_inferred_ok (snd nw)))) (e_sheets ev),
   e_module ev).
