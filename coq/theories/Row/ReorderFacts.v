(* E2 / C09 — column order.  Columns that belong to different fields may come in any order:
   Enc only looks at the subsequences sub_key k cols, so any rearrangement that keeps, for every
   top-level field, the relative order of ITS columns leaves the row value unchanged. *)
From Coq Require Import List NArith ZArith Bool Lia Arith.
From RPFT Require Import Base.Sexp Base.PyStr Base.PyStrFacts Base.Result Base.ODict Gen.Tables Cell.Cell
  Row.Ty Row.RowParse Row.ParseFold Row.Encodes Row.EncodesFacts Row.HeaderFacts Row.StarFacts.
Import ListNotations.
Local Open Scope N_scope.

Lemma EncFields_ext h2f cols cols' fields fs :
  (forall k, sub_key h2f k cols' = sub_key h2f k cols) ->
  EncFields h2f cols fields fs -> EncFields h2f cols' fields fs.
Proof.
  intros Hk H. remember h2f as r eqn:Er. remember cols as c eqn:Ec.
  induction H as [|h c0 n t d v fields fs HE _ IH]; subst; [apply FieldsNil|].
  apply FieldsCons; [rewrite Hk; exact HE|apply IH; [reflexivity|reflexivity|exact Hk]].
Qed.

Lemma sub_key_head_in h2f cols name rest c :
  In (name :: rest, c) cols -> sub_key h2f (remap_get h2f name) cols <> [].
Proof.
  induction cols as [|[p c0] r IH]; intros Hin; [destruct Hin|]. destruct Hin as [Heq|Hin].
  - injection Heq as -> ->. cbn [sub_key]. rewrite str_eqb_refl. discriminate.
  - cbn [sub_key]. destruct p as [|n0 r0]; [apply IH, Hin|].
    destruct (str_eqb (remap_get h2f n0) (remap_get h2f name)); [discriminate|apply IH, Hin].
Qed.

Lemma sub_key_nonempty_head h2f k cols :
  sub_key h2f k cols <> [] -> exists name rest c, In (name :: rest, c) cols /\ remap_get h2f name = k.
Proof.
  induction cols as [|[p c0] r IH]; intros H; [cbn in H; congruence|]. cbn [sub_key] in H.
  destruct p as [|n0 r0].
  - destruct (IH H) as [name [rest [c [Hin Hk]]]]. exists name, rest, c. split; [right; exact Hin|exact Hk].
  - destruct (str_eqb (remap_get h2f n0) k) eqn:E.
    + apply str_eqb_eq in E. exists n0, r0, c0. split; [left; reflexivity|exact E].
    + destruct (IH H) as [name [rest [c [Hin Hk]]]]. exists name, rest, c. split; [right; exact Hin|exact Hk].
Qed.

(* slot level: a record spread over columns, re-arranged *)
Theorem enc_reorder fields h2f f2h d v cols cols' :
  Enc (TModel fields h2f f2h) d v cols -> paths_ne cols -> cols <> [] ->
  paths_ne cols' -> cols' <> [] ->
  (forall k, sub_key h2f k cols' = sub_key h2f k cols) ->
  Enc (TModel fields h2f f2h) d v cols'.
Proof.
  intros HE Hp Hne Hp' Hne' Hk. inversion HE as [t0 v0|t0 d0 v0 c HNv|t0 d0 vs c0 Hl|fs0 h0 g0 d0 fs c0 Hc Hnd Hh HF]; subst.
  - congruence.
  - inversion Hp as [|x l Hx _]; subst. cbn in Hx. congruence.
  - discriminate.
  - apply EncModelSpread; [exact Hne'|exact Hnd| |apply (EncFields_ext h2f cols cols' fields fs Hk HF)].
    unfold heads_ok. apply Forall_forall. intros [p c] Hin. cbn [fst].
    unfold paths_ne in Hp'. rewrite Forall_forall in Hp'. specialize (Hp' _ Hin). cbn [fst] in Hp'.
    destruct p as [|name rest]; [congruence|].
    pose proof (sub_key_head_in h2f cols' name rest c Hin) as H1. rewrite Hk in H1.
    destruct (sub_key_nonempty_head h2f _ cols H1) as [name' [rest' [c' [Hin' Hk']]]].
    unfold heads_ok in Hh. rewrite Forall_forall in Hh. specialize (Hh _ Hin'). cbn [fst] in Hh.
    rewrite Hk' in Hh. exact Hh.
Qed.

(* row level *)
Theorem encodes_reorder rm fields h2f f2h v cells cells' data data' :
  rm_ty rm = TModel fields h2f f2h ->
  rekey (rm_ctx rm) cells = Ok data -> Enc (rm_ty rm) None v (cols_of data) ->
  rekey (rm_ctx rm) cells' = Ok data' ->
  (forall k, sub_key h2f k (cols_of data') = sub_key h2f k (cols_of data)) ->
  Encodes rm v cells'.
Proof.
  intros Ht Hrk HE Hrk' Hk.
  assert (Hne : cols_of data <> []).
  { intros Hnil. destruct (proj1 enc_sound _ _ _ _ HE) as [Hemp _]. specialize (Hemp Hnil). discriminate. }
  assert (Hne' : cols_of data' <> []).
  { intros Hnil. pose proof (cols_of_paths data) as Hp. destruct (cols_of data) as [|[p c] r] eqn:E; [congruence|].
    inversion Hp as [|x l Hx _]; subst. cbn [fst] in Hx. destruct p as [|name rest]; [congruence|].
    pose proof (sub_key_head_in h2f ((name :: rest, c) :: r) name rest c (or_introl eq_refl)) as H1.
    rewrite <- Hk, Hnil in H1. cbn in H1. congruence. }
  apply (Encodes_intro rm v cells' data'); [rewrite Ht; reflexivity|exact Hrk'|].
  rewrite Ht in *. apply (enc_reorder fields h2f f2h None v (cols_of data) (cols_of data') HE);
    [apply cols_of_paths|exact Hne|apply cols_of_paths|exact Hne'|exact Hk].
Qed.

(* ---- the generator of all such rearrangements: swapping two neighbouring columns of different
   top-level fields, in a row without `*` columns and without header context ---- *)
Definition top_key (h2f : remap) (h : str) : str := remap_get h2f (hd [] (header_path h)).

Definition star_free (cells : list (str * str)) : bool := forallb (fun kv => negb (has_star (fst kv))) cells.

Lemma cols_of_star_free cells :
  star_free cells = true -> cols_of cells = map (fun kv => (header_path (fst kv), Raw (snd kv))) cells.
Proof.
  unfold cols_of. generalize (star_lengths cells) as lens. intros lens.
  induction cells as [|[k x] r IH]; intros H; [reflexivity|]. cbn [star_free forallb fst] in H.
  apply andb_prop in H. destruct H as [Hk Hr]. cbn [flat_map map]. unfold expand_cell at 1. cbn [fst snd].
  destruct (has_star k); [discriminate|]. cbn [app map fst snd]. f_equal. apply IH, Hr.
Qed.

Lemma sub_key_one h2f k h x :
  sub_key h2f k [(header_path h, Raw x)] = if str_eqb (top_key h2f h) k then [(tl (header_path h), Raw x)] else [].
Proof.
  unfold top_key. pose proof (split_char_ne c_dot (get_field_name h)) as Hne. unfold header_path.
  destruct (split_char c_dot (get_field_name h)) as [|name rest]; [congruence|]. cbn [sub_key hd tl].
  destruct (str_eqb (remap_get h2f name) k); reflexivity.
Qed.

Lemma sub_key_swap h2f k pre a b post :
  top_key h2f (fst a) <> top_key h2f (fst b) ->
  let f := fun kv : str * str => (header_path (fst kv), Raw (snd kv)) in
  sub_key h2f k (map f (pre ++ b :: a :: post)) = sub_key h2f k (map f (pre ++ a :: b :: post)).
Proof.
  intros Hne f. rewrite !map_app. cbn [map]. rewrite !sub_key_app. f_equal.
  change (f b :: f a :: map f post) with ([f b] ++ [f a] ++ map f post).
  change (f a :: f b :: map f post) with ([f a] ++ [f b] ++ map f post).
  rewrite !sub_key_app, !app_assoc. f_equal. unfold f. rewrite !sub_key_one.
  destruct (str_eqb (top_key h2f (fst a)) k) eqn:Ea; destruct (str_eqb (top_key h2f (fst b)) k) eqn:Eb; try reflexivity.
  apply str_eqb_eq in Ea. apply str_eqb_eq in Eb. congruence.
Qed.

Theorem swap_columns rm fields h2f f2h v pre a b post :
  rm_ty rm = TModel fields h2f f2h -> rm_ctx rm = None ->
  NoDup (map fst (pre ++ a :: b :: post)) -> star_free (pre ++ a :: b :: post) = true ->
  top_key h2f (fst a) <> top_key h2f (fst b) ->
  Encodes rm v (pre ++ a :: b :: post) ->
  Encodes rm v (pre ++ b :: a :: post)
  /\ parse_row rm (pre ++ b :: a :: post) = parse_row rm (pre ++ a :: b :: post).
Proof.
  intros Ht Hc Hnd Hsf Hne HE.
  assert (Hperm : Permutation.Permutation (pre ++ a :: b :: post) (pre ++ b :: a :: post))
    by (apply Permutation.Permutation_app_head, Permutation.perm_swap).
  assert (Hnd' : NoDup (map fst (pre ++ b :: a :: post))).
  { eapply Permutation.Permutation_NoDup; [|exact Hnd]. apply Permutation.Permutation_map. exact Hperm. }
  assert (Hsf' : star_free (pre ++ b :: a :: post) = true).
  { unfold star_free in *. rewrite forallb_app in *. cbn [forallb] in *.
    apply andb_prop in Hsf. destruct Hsf as [H1 H2]. apply andb_prop in H2. destruct H2 as [H2 H3].
    apply andb_prop in H3. destruct H3 as [H3 H4]. rewrite H1, H2, H3, H4. reflexivity. }
  destruct HE as [data Hm Hrk HEnc]. rewrite Hc in Hrk. rewrite (rekey_none _ Hnd) in Hrk. injection Hrk as <-.
  assert (HE' : Encodes rm v (pre ++ b :: a :: post)).
  { apply (encodes_reorder rm fields h2f f2h v (pre ++ a :: b :: post) (pre ++ b :: a :: post)
                           (pre ++ a :: b :: post) (pre ++ b :: a :: post) Ht).
    - rewrite Hc. apply rekey_none, Hnd.
    - exact HEnc.
    - rewrite Hc. apply rekey_none, Hnd'.
    - intros k. rewrite (cols_of_star_free _ Hsf), (cols_of_star_free _ Hsf'). apply sub_key_swap. exact Hne. }
  split; [exact HE'|].
  rewrite (encodes_parse _ _ _ HE').
  symmetry. apply encodes_parse. apply (Encodes_intro rm v _ (pre ++ a :: b :: post)); [exact Hm| |exact HEnc].
  rewrite Hc. apply rekey_none, Hnd.
Qed.
