(* E2 — facts about the row codec. *)
From Coq Require Import List NArith ZArith Bool Lia.
From RPFT Require Import Base.Sexp Base.PyStr Base.Result Base.ODict Gen.Tables Cell.Cell Cell.CellFacts
  Row.Ty Row.Layout Row.RowParse Row.RowUnparse Row.FlowRow.
Import ListNotations.
Local Open Scope N_scope.

(* the regenerated separator constants are the ones the model is written with *)
Definition row_tables_ok : bool :=
  (hdr_sep =? c_dot) && (ann_sep =? c_colon) && (dflt_sep =? c_eq).

Lemma row_tables_ok_true : row_tables_ok = true.
Proof. vm_compute. reflexivity. Qed.
