(* E2 — a concrete session for the non-vacuity Examples of the session theorems of C07:

     class Question(ParserModel):           class FollowUp(Question):
         ID: str = ""                           attempts: int = 1
         text: str = ""                         required: bool = False
         attempts: int = 3                      weight: float = 0.5
         required: bool = True                  parent: str = ""
         weight: float = 1.0
         choices: List[str] = []

   history: a Question is written and read, then FollowUp(attempts=3, ...) — whose `attempts` equals
   the default of the BASE class but not its own — is written, and written + read.
   Definitions + facts by computation. *)
From Coq Require Import List NArith ZArith Bool String Ascii.
From RPFT Require Import Base.Sexp Base.PyStr Base.Result Gen.Tables Cell.Cell Row.Ty Row.Layout
  Row.RowParse Row.RowUnparse Row.RoundTrip Row.Session.
Import ListNotations.
Local Open Scope N_scope.

Definition s (x : string) : str := List.map (fun a => N.of_nat (nat_of_ascii a)) (list_ascii_of_string x).

Definition ex_question : ty :=
  TModel [(s "ID", (TStr, Some (VStr [])));
          (s "text", (TStr, Some (VStr [])));
          (s "attempts", (TInt, Some (VInt 3)));
          (s "required", (TBool, Some (VBool true)));
          (s "weight", (TFloat, Some (VFloat (s "1.0"))));
          (s "choices", (TList TStr, Some (VList [])))] [] [].

Definition ex_followup_body : list field :=
  [(s "attempts", (TInt, Some (VInt 1)));
   (s "required", (TBool, Some (VBool false)));
   (s "weight", (TFloat, Some (VFloat (s "0.5"))));
   (s "parent", (TStr, Some (VStr [])))].

Definition ex_family : list decl := [DRoot ex_question; DDerive 0 ex_followup_body None None].

(* what pydantic collects for FollowUp: the base's fields in the base's order with the new
   defaults in place, the new field last *)
Definition ex_followup : ty :=
  TModel [(s "ID", (TStr, Some (VStr [])));
          (s "text", (TStr, Some (VStr [])));
          (s "attempts", (TInt, Some (VInt 1)));
          (s "required", (TBool, Some (VBool false)));
          (s "weight", (TFloat, Some (VFloat (s "0.5"))));
          (s "choices", (TList TStr, Some (VList [])));
          (s "parent", (TStr, Some (VStr [])))] [] [].

Definition ex_q1 : value :=
  VModel [(s "ID", VStr (s "q1")); (s "text", VStr (s "How are you?")); (s "attempts", VInt 3);
          (s "required", VBool true); (s "weight", VFloat (s "1.0"));
          (s "choices", VList [VStr (s "good"); VStr (s "a|b")])].

(* attempts, required and weight hold the BASE class's defaults *)
Definition ex_f2 : value :=
  VModel [(s "ID", VStr (s "f2")); (s "text", VStr (s "Really?")); (s "attempts", VInt 3);
          (s "required", VBool true); (s "weight", VFloat (s "1.0"));
          (s "choices", VList []); (s "parent", VStr (s "q1"))].

Definition ex_ops : list op :=
  [OpRound 0 ex_q1 [s "choices"]; OpUnparse 1 ex_f2 [] []; OpNewParser 0; OpRound 1 ex_f2 []].

Definition ex_f2_cells : list (str * str) :=
  [(s "ID", s "f2"); (s "text", s "Really?"); (s "attempts", s "3"); (s "required", s "True");
   (s "weight", s "1.0"); (s "parent", s "q1")].

Lemma ex_classes : classes ex_family = [Some ex_question; Some ex_followup].
Proof. vm_compute. reflexivity. Qed.

Lemma ex_followup_class : class_of (classes ex_family) 1 = Some ex_followup.
Proof. vm_compute. reflexivity. Qed.

Lemma ex_followup_in_domain : row_dom ex_followup ex_f2 [] = true.
Proof. vm_compute. reflexivity. Qed.

Lemma ex_followup_hyps : class_of (classes ex_family) 1 = Some ex_followup /\ row_dom ex_followup ex_f2 [] = true.
Proof. exact (conj ex_followup_class ex_followup_in_domain). Qed.

Lemma ex_question_in_domain : row_dom ex_question ex_q1 [s "choices"] = true.
Proof. vm_compute. reflexivity. Qed.

(* the whole session: the cells of the derived instance keep the three values that equal the
   base class's defaults, and it is read back unchanged *)
Lemma ex_session_run :
  run_session ex_family ex_ops
  = [RValue (Ok ex_q1); RCells (Ok ex_f2_cells); RDone; RValue (Ok ex_f2)].
Proof. vm_compute. reflexivity. Qed.
