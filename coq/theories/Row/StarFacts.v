(* E2 / C09 — `*` columns.
   star_len_spec      the implied list length of a `*` prefix is max(1, lengths of the list-valued
                      sibling `*` columns) — independent of the column order
   star_columns_enc   the columns a group of `p.*.g` cells expands to are a way of writing (Enc) the
                      list of records whose element i takes, for every column g, the i-th value of
                      that column if it has one and the field default otherwise
   asterisk_broadcast a `*` cell holding ONE value puts that value into EVERY element of the implied
                      list *)
From Coq Require Import List NArith ZArith Bool Lia Arith Permutation.
From RPFT Require Import Base.Sexp Base.PyStr Base.PyStrFacts Base.Result Base.ODict Gen.Tables Cell.Cell
  Row.Ty Row.RowParse Row.ParseFold Row.Encodes Row.EncodesFacts Row.HeaderFacts.
Import ListNotations.
Local Open Scope N_scope.

(* ================================================================== the implied length *)
Definition star_lens_of (p : str) (cells : list (str * str)) : list nat :=
  flat_map (fun kv : str * str =>
              if has_star (fst kv) && str_eqb (star_prefix (fst kv)) p
              then match cell_parse (snd kv) with Lst l => [length l] | Str _ => [] end
              else []) cells.

Definition max_from (m : nat) (l : list nat) : nat := fold_left Nat.max l m.

Definition star_step (acc : list (str * nat)) (kv : str * str) : list (str * nat) :=
  if has_star (fst kv) then
    match cell_parse (snd kv) with
    | Lst l => let p := star_prefix (fst kv) in
               oset str_eqb acc p (Nat.max (star_len acc p) (length l))
    | Str _ => acc
    end
  else acc.

Lemma star_lengths_fold cells : star_lengths cells = fold_left star_step cells [].
Proof. reflexivity. Qed.

Lemma star_len_oset acc p' n p :
  star_len (oset str_eqb acc p' n) p = if str_eqb p' p then n else star_len acc p.
Proof.
  unfold star_len. destruct (str_eqb p' p) eqn:E.
  - apply str_eqb_eq in E. subst. rewrite (oget_oset_same str_eqb str_eqb_spec). reflexivity.
  - rewrite (oget_oset_other str_eqb str_eqb_spec); [reflexivity|].
    intros ->. rewrite str_eqb_refl in E. discriminate.
Qed.

Lemma star_len_fold cells p : forall acc,
  star_len (fold_left star_step cells acc) p = max_from (star_len acc p) (star_lens_of p cells).
Proof.
  induction cells as [|[k v] r IH]; intros acc; [reflexivity|].
  cbn [fold_left star_lens_of flat_map]. rewrite IH. unfold star_step. cbn [fst snd].
  destruct (has_star k); cbn [andb]; [|reflexivity].
  destruct (cell_parse v) as [s|l].
  - destruct (str_eqb (star_prefix k) p); reflexivity.
  - rewrite star_len_oset. destruct (str_eqb (star_prefix k) p) eqn:E; [|reflexivity].
    apply str_eqb_eq in E. subst p. unfold max_from. cbn [app fold_left]. reflexivity.
Qed.

(* length = max over sibling `*` columns (and at least 1) *)
Theorem star_len_spec cells p :
  star_len (star_lengths cells) p = max_from 1 (star_lens_of p cells).
Proof. rewrite star_lengths_fold, star_len_fold. reflexivity. Qed.

Lemma max_from_ge l : forall m, (m <= max_from m l)%nat.
Proof. induction l as [|x l IH]; intros m; cbn; [lia|]. specialize (IH (Nat.max m x)). unfold max_from in *. lia. Qed.

Lemma max_from_in l x : forall m, In x l -> (x <= max_from m l)%nat.
Proof.
  induction l as [|y l IH]; intros m Hin; [destruct Hin|]. cbn. destruct Hin as [->|Hin].
  - pose proof (max_from_ge l (Nat.max m x)). unfold max_from in *. lia.
  - apply IH, Hin.
Qed.

Lemma max_from_perm l1 l2 m : Permutation l1 l2 -> max_from m l1 = max_from m l2.
Proof.
  intros H. revert m. induction H as [|x l l' _ IH|x y l|l l' l'' _ IH1 _ IH2]; intros m; cbn.
  - reflexivity.
  - apply IH.
  - unfold max_from. cbn. f_equal. lia.
  - rewrite IH1. apply IH2.
Qed.

(* ================================================================== what a `*` cell expands to *)
Definition star_numbered (k : str) (xs : list nv) : list (str * cellv) :=
  map (fun ie : nat * nv => (replace1 c_star (print_nat (S (fst ie))) k, Parsed (snd ie))) (number_from O xs).

Lemma expand_star_list lens k v l :
  has_star k = true -> cell_parse v = Lst l -> expand_cell lens (k, v) = star_numbered k l.
Proof. intros Hk Hv. unfold expand_cell. cbn [fst snd]. rewrite Hk, Hv. reflexivity. Qed.

Lemma expand_star_scalar lens k v s :
  has_star k = true -> cell_parse v = Str s ->
  expand_cell lens (k, v) = star_numbered k (repeat (Str s) (star_len lens (star_prefix k))).
Proof. intros Hk Hv. unfold expand_cell. cbn [fst snd]. rewrite Hk, Hv. reflexivity. Qed.

(* ================================================================== `*` columns as a way of writing *)
(* one `*` column of a list of records: the header's last component g and its per-element cells *)
Record starcol := { sc_name : str; sc_xs : list nv }.

Definition star_col_cols (from : nat) (sc : starcol) : list col :=
  map (fun ie : nat * nv => ([print_nat (S (fst ie)); sc_name sc], Parsed (snd ie))) (number_from from (sc_xs sc)).

Definition star_cols (scs : list starcol) : list col := flat_map (star_col_cols O) scs.

Lemma sub_idx_app i a b : sub_idx i (a ++ b) = sub_idx i a ++ sub_idx i b.
Proof.
  induction a as [|[p c] a IH]; [reflexivity|]. cbn [app sub_idx]. destruct p as [|name rest]; [exact IH|].
  destruct (onat_eqb (head_idx name) i); cbn [app]; rewrite IH; reflexivity.
Qed.

Lemma sub_key_app h2f k a b : sub_key h2f k (a ++ b) = sub_key h2f k a ++ sub_key h2f k b.
Proof.
  induction a as [|[p c] a IH]; [reflexivity|]. cbn [app sub_key]. destruct p as [|name rest]; [exact IH|].
  destruct (str_eqb (remap_get h2f name) k); cbn [app]; rewrite IH; reflexivity.
Qed.

Lemma idx_scan_app a : forall m b,
  idx_scan m (a ++ b) = match idx_scan m a with Some m' => idx_scan m' b | None => None end.
Proof.
  induction a as [|[p c] a IH]; intros m b; [reflexivity|]. cbn [app idx_scan].
  destruct p as [|name rest]; [reflexivity|]. destruct (head_idx name) as [i|]; [|reflexivity].
  destruct (Nat.ltb i m); [apply IH|]. destruct (Nat.eqb i m); [apply IH|reflexivity].
Qed.

Definition nth_from (from i : nat) (xs : list nv) : option nv :=
  if Nat.leb from i then nth_error xs (i - from) else None.

Lemma sub_idx_star_col g xs : forall from i,
  sub_idx i (star_col_cols from {| sc_name := g; sc_xs := xs |}) =
  match nth_from from i xs with Some x => [([g], Parsed x)] | None => [] end.
Proof.
  unfold star_col_cols, nth_from. cbn [sc_name sc_xs].
  induction xs as [|x xs IH]; intros from i.
  - cbn. destruct (Nat.leb from i); [destruct (i - from)%nat; reflexivity|reflexivity].
  - cbn [number_from map sub_idx fst snd]. rewrite head_idx_print. cbn [onat_eqb]. rewrite IH.
    destruct (Nat.eqb from i) eqn:E.
    + apply Nat.eqb_eq in E. subst i. rewrite Nat.leb_refl, Nat.sub_diag. cbn [nth_error].
      replace (Nat.leb (S from) from) with false by (symmetry; apply Nat.leb_gt; lia). reflexivity.
    + apply Nat.eqb_neq in E. destruct (Nat.leb from i) eqn:E1.
      * apply Nat.leb_le in E1. replace (Nat.leb (S from) i) with true by (symmetry; apply Nat.leb_le; lia).
        replace (i - from)%nat with (S (i - S from)) by lia. reflexivity.
      * apply Nat.leb_gt in E1. replace (Nat.leb (S from) i) with false by (symmetry; apply Nat.leb_gt; lia). reflexivity.
Qed.

Lemma idx_scan_star_col g xs : forall from m, (from <= m)%nat ->
  idx_scan m (star_col_cols from {| sc_name := g; sc_xs := xs |}) = Some (Nat.max m (from + length xs)).
Proof.
  unfold star_col_cols. cbn [sc_name sc_xs].
  induction xs as [|x xs IH]; intros from m Hle.
  - cbn. f_equal. lia.
  - cbn [number_from map idx_scan fst snd length]. rewrite head_idx_print.
    destruct (Nat.ltb from m) eqn:E.
    + apply Nat.ltb_lt in E. rewrite IH by lia. f_equal. lia.
    + apply Nat.ltb_ge in E. assert (from = m) by lia. subst m. rewrite Nat.eqb_refl.
      rewrite IH by lia. f_equal. lia.
Qed.

Definition elem_cols (i : nat) (scs : list starcol) : list col :=
  flat_map (fun sc => match nth_error (sc_xs sc) i with Some x => [([sc_name sc], Parsed x)] | None => [] end) scs.

Lemma sub_idx_star_cols i scs : sub_idx i (star_cols scs) = elem_cols i scs.
Proof.
  unfold star_cols, elem_cols. induction scs as [|[g xs] r IH]; [reflexivity|].
  cbn [flat_map]. rewrite sub_idx_app, IH, sub_idx_star_col. unfold nth_from. cbn [Nat.leb sc_xs sc_name].
  rewrite Nat.sub_0_r. reflexivity.
Qed.

Definition star_n (scs : list starcol) : nat := max_from O (map (fun sc => length (sc_xs sc)) scs).

Lemma idx_scan_star_cols scs : forall m,
  idx_scan m (star_cols scs) = Some (max_from m (map (fun sc => length (sc_xs sc)) scs)).
Proof.
  unfold star_cols. induction scs as [|[g xs] r IH]; intros m; [reflexivity|].
  cbn [flat_map map]. rewrite idx_scan_app, idx_scan_star_col by lia. rewrite IH. reflexivity.
Qed.

(* the cell column g of a record contributes to element i *)
Definition star_key (h2f : remap) (sc : starcol) : str := remap_get h2f (sc_name sc).

Definition star_arg (h2f : remap) (scs : list starcol) (k : str) (i : nat) : option nv :=
  match find (fun sc => str_eqb (star_key h2f sc) k) scs with
  | Some sc => nth_error (sc_xs sc) i
  | None => None
  end.

Lemma sub_key_elem_cols_notin h2f k i scs :
  ~ In k (map (star_key h2f) scs) -> sub_key h2f k (elem_cols i scs) = [].
Proof.
  unfold elem_cols. induction scs as [|sc r IH]; intros Hn; [reflexivity|].
  cbn [flat_map]. rewrite sub_key_app. cbn [map In] in Hn. rewrite IH by tauto. rewrite app_nil_r.
  destruct (nth_error (sc_xs sc) i); [|reflexivity]. cbn [sub_key].
  replace (str_eqb (remap_get h2f (sc_name sc)) k) with false; [reflexivity|].
  symmetry. apply str_eqb_neq. intros H. apply Hn. left. exact H.
Qed.

Lemma sub_key_elem_cols h2f k i scs :
  NoDup (map (star_key h2f) scs) ->
  sub_key h2f k (elem_cols i scs) =
  match star_arg h2f scs k i with Some x => [([], Parsed x)] | None => [] end.
Proof.
  unfold star_arg. induction scs as [|sc r IH]; intros Hnd; [reflexivity|].
  cbn [map] in Hnd. inversion Hnd as [|x l Hni Hnd']; subst.
  unfold elem_cols. cbn [flat_map find]. rewrite sub_key_app. fold (elem_cols i r).
  destruct (str_eqb (star_key h2f sc) k) eqn:E.
  - apply str_eqb_eq in E. subst k. rewrite (sub_key_elem_cols_notin h2f _ i r Hni), app_nil_r.
    destruct (nth_error (sc_xs sc) i); [|reflexivity]. cbn [sub_key]. fold (star_key h2f sc).
    rewrite str_eqb_refl. reflexivity.
  - rewrite (IH Hnd'). replace (sub_key h2f k _) with (@nil col); [reflexivity|].
    destruct (nth_error (sc_xs sc) i); [|reflexivity]. cbn [sub_key]. fold (star_key h2f sc). rewrite E. reflexivity.
Qed.

(* building the list-walking derivations from pointwise facts *)
Lemma build_elems ct cols vs : forall i,
  (forall j, (j < length vs)%nat ->
             sub_idx (i + j) cols <> [] /\ Enc ct None (nth j vs (VStr [])) (sub_idx (i + j) cols)) ->
  EncElems ct cols i vs.
Proof.
  induction vs as [|v vs IH]; intros i H; [apply ElemsNil|].
  destruct (H O) as [Hne HE]; [cbn; lia|]. rewrite Nat.add_0_r in Hne, HE. cbn [nth] in HE.
  apply ElemsCons; [exact Hne|exact HE|]. apply IH. intros j Hj.
  replace (S i + j)%nat with (i + S j)%nat by lia. apply (H (S j)). cbn. lia.
Qed.

Lemma build_fields h2f cols fields fs :
  Forall2 (fun (f : field) (nv : str * value) =>
             fst nv = f_name f /\ Enc (f_ty f) (f_default f) (snd nv) (sub_key h2f (f_name f) cols)) fields fs ->
  EncFields h2f cols fields fs.
Proof.
  induction 1 as [|[n [t d]] [n' v] fields fs [Hn HE] _ IH]; [apply FieldsNil|].
  cbn [fst snd f_name f_ty f_default] in *. subst n'. apply FieldsCons; assumption.
Qed.

(* element i of the list a `*` group stands for: field by field, the i-th value of the column that
   addresses the field if there is one, the default otherwise *)
Definition star_elem_spec (sfields : list field) (sh2f : remap) (scs : list starcol) (i : nat)
           (fs : list (str * value)) : Prop :=
  Forall2 (fun (f : field) (nv : str * value) =>
             fst nv = f_name f /\
             match star_arg sh2f scs (f_name f) i with
             | Some x => EncNv (f_ty f) (snd nv) x
             | None => f_default f = Some (snd nv)
             end) sfields fs.

Lemma max_from_witness l : forall m i, (m <= i)%nat -> (i < max_from m l)%nat -> exists x, In x l /\ (i < x)%nat.
Proof.
  induction l as [|y l IH]; intros m i Hm Hi; [cbn in Hi; lia|]. cbn in Hi.
  destruct (Nat.lt_ge_cases i y) as [Hy|Hy]; [exists y; split; [left; reflexivity|exact Hy]|].
  destruct (IH (Nat.max m y) i) as [x [Hx Hlt]]; [lia|exact Hi|]. exists x. split; [right; exact Hx|exact Hlt].
Qed.

Theorem star_columns_enc sfields sh2f sf2h d scs vs :
  NoDup (map f_name sfields) ->
  NoDup (map (star_key sh2f) scs) ->
  (forall sc, In sc scs -> field_ty sfields (star_key sh2f sc) <> None) ->
  length vs = star_n scs -> (0 < star_n scs)%nat ->
  (forall i, (i < star_n scs)%nat ->
             exists fs, nth i vs (VStr []) = VModel fs /\ star_elem_spec sfields sh2f scs i fs) ->
  Enc (TList (TModel sfields sh2f sf2h)) d (VList vs) (star_cols scs).
Proof.
  intros Hnd Hndk Hfld Hlen Hpos Hspec.
  assert (Hscan : idx_scan O (star_cols scs) = Some (length vs)).
  { rewrite idx_scan_star_cols. rewrite Hlen. reflexivity. }
  assert (Hne : forall i, (i < star_n scs)%nat -> elem_cols i scs <> []).
  { intros i Hi. unfold star_n in Hi.
    destruct (max_from_witness _ O i (Nat.le_0_l _) Hi) as [x [Hx Hlt]].
    apply in_map_iff in Hx. destruct Hx as [sc [<- Hsc]].
    unfold elem_cols. intros Hnil.
    assert (Hall : forall sc0, In sc0 scs -> nth_error (sc_xs sc0) i = None).
    { clear -Hnil. induction scs as [|s r IH]; intros sc0 Hin; [destruct Hin|].
      cbn [flat_map] in Hnil. apply app_eq_nil in Hnil. destruct Hnil as [H1 H2].
      destruct Hin as [->|Hin]; [|apply IH; assumption].
      destruct (nth_error (sc_xs sc0) i); [discriminate|reflexivity]. }
    specialize (Hall sc Hsc). apply nth_error_None in Hall. lia. }
  apply EncListSpread.
  - reflexivity.
  - intros Hnil. apply (Hne O Hpos). rewrite <- sub_idx_star_cols, Hnil. reflexivity.
  - exact Hscan.
  - cbn [child_ty]. apply build_elems. intros j Hj. cbn [Nat.add]. rewrite Hlen in Hj.
    rewrite sub_idx_star_cols. split; [apply Hne, Hj|].
    destruct (Hspec j Hj) as [fs [Hnth Hfs]]. rewrite Hnth.
    apply EncModelSpread.
    + apply Hne, Hj.
    + exact Hnd.
    + unfold heads_ok, elem_cols. apply Forall_forall. intros pc Hin. apply in_flat_map in Hin.
      destruct Hin as [sc [Hsc Hpc]]. destruct (nth_error (sc_xs sc) j); [|destruct Hpc].
      destruct Hpc as [<-|[]]. cbn [fst]. apply (Hfld sc Hsc).
    + apply build_fields. eapply Forall2_impl; [|exact Hfs]. cbn beta.
      intros f nv [Hn Hv]. split; [exact Hn|].
      rewrite (sub_key_elem_cols sh2f (f_name f) j scs Hndk).
      destruct (star_arg sh2f scs (f_name f) j) as [x|].
      * apply EncCell. cbn [leaf_value]. exact Hv.
      * rewrite Hv. apply EncDefault.
Qed.

(* 3. a `*` column holding ONE value x (expanded to the implied length n = star_n, the max over the
      sibling columns) gives EVERY element i < n of the list the value x denotes in its field *)
Theorem asterisk_broadcast sfields sh2f scs sc x :
  NoDup (map (star_key sh2f) scs) ->
  In sc scs -> sc_xs sc = repeat x (star_n scs) ->
  forall i fs, (i < star_n scs)%nat -> star_elem_spec sfields sh2f scs i fs ->
  forall f, In f sfields -> f_name f = star_key sh2f sc ->
  exists v, In (f_name f, v) fs /\ EncNv (f_ty f) v x.
Proof.
  intros Hndk Hsc Hxs i fs Hi Hspec f Hf Hname.
  destruct (Forall2_in_l _ _ _ _ Hspec Hf) as [[n v] [Hin [Hn Hv]]]. cbn [fst snd] in *. subst n.
  exists v. split; [exact Hin|].
  assert (Harg : star_arg sh2f scs (f_name f) i = Some x).
  { unfold star_arg. rewrite Hname.
    assert (Hfind : find (fun sc0 => str_eqb (star_key sh2f sc0) (star_key sh2f sc)) scs = Some sc).
    { clear -Hndk Hsc. induction scs as [|s r IH]; [destruct Hsc|].
      cbn [map] in Hndk. inversion Hndk as [|y l Hni Hnd']; subst. cbn [find].
      destruct Hsc as [->|Hin]; [rewrite str_eqb_refl; reflexivity|].
      destruct (str_eqb (star_key sh2f s) (star_key sh2f sc)) eqn:E; [|apply IH; assumption].
      apply str_eqb_eq in E. exfalso. apply Hni. rewrite E. apply in_map. exact Hin. }
    rewrite Hfind, Hxs. apply nth_error_repeat. exact Hi. }
  rewrite Harg in Hv. exact Hv.
Qed.

(* ================================================================== a row of `p.*.g` cells, parsed *)
Record starcell := { st_g : str; st_txt : str }.

Definition star_data (p : str) (cs : list starcell) : list (str * str) :=
  map (fun c => (star_header p (st_g c), st_txt c)) cs.

(* the implied length of the group: max(1, lengths of its list-valued cells) — star_len_spec *)
Definition group_len (p : str) (cs : list starcell) : nat :=
  star_len (star_lengths (star_data p cs)) (p ++ [c_dot]).

Definition star_xs (n : nat) (c : starcell) : list nv :=
  match cell_parse (st_txt c) with Lst l => l | Str s => repeat (Str s) n end.

Definition star_scs (n : nat) (cs : list starcell) : list starcol :=
  map (fun c => {| sc_name := st_g c; sc_xs := star_xs n c |}) cs.

Definition under (p : str) (cols : list col) : list col := map (fun pc : col => (p :: fst pc, snd pc)) cols.

Lemma cols_of_star_data p cs :
  clean p = true -> Forall (fun c => clean (st_g c) = true) cs ->
  cols_of (star_data p cs) = under p (star_cols (star_scs (group_len p cs) cs)).
Proof.
  intros Hp Hcs. unfold cols_of, group_len. set (lens := star_lengths (star_data p cs)). clearbody lens.
  unfold under, star_cols. induction Hcs as [|c cs Hg _ IH]; [reflexivity|].
  cbn [star_data map flat_map star_scs]. fold (star_data p cs). fold (star_scs (star_len lens (p ++ [c_dot])) cs).
  rewrite !map_app, IH. f_equal.
  assert (Hexp : expand_cell lens (star_header p (st_g c), st_txt c) =
                 star_numbered (star_header p (st_g c)) (star_xs (star_len lens (p ++ [c_dot])) c)).
  { unfold star_xs. destruct (cell_parse (st_txt c)) as [s|l] eqn:E.
    - rewrite (expand_star_scalar lens _ _ s (star_header_has_star _ _) E), (star_header_prefix p _ Hp). reflexivity.
    - apply (expand_star_list lens _ _ l (star_header_has_star _ _) E). }
  rewrite Hexp. unfold star_numbered, star_col_cols. cbn [sc_name sc_xs]. rewrite !map_map.
  apply map_ext. intros [i x]. cbn [fst snd]. rewrite (star_header_path p (st_g c) i Hp Hg). reflexivity.
Qed.

Lemma sub_key_under h2f k p cols :
  sub_key h2f k (under p cols) = if str_eqb (remap_get h2f p) k then cols else [].
Proof.
  unfold under. induction cols as [|[rest c] r IH]; [destruct (str_eqb _ _); reflexivity|].
  cbn [map sub_key fst snd]. rewrite IH. destruct (str_eqb (remap_get h2f p) k); reflexivity.
Qed.

Lemma star_header_inj p g g' : star_header p g = star_header p g' -> g = g'.
Proof. unfold star_header. intros H. apply app_inv_head in H. apply app_inv_head in H. exact H. Qed.

Lemma star_data_nodup p cs : NoDup (map st_g cs) -> NoDup (map fst (star_data p cs)).
Proof.
  unfold star_data. rewrite map_map. cbn [fst]. induction cs as [|c cs IH]; intros H; [constructor|].
  cbn [map] in *. inversion H as [|x l Hni Hnd]; subst. constructor; [|apply IH, Hnd].
  intros Hin. apply Hni. apply in_map_iff in Hin. destruct Hin as [c' [Heq Hc']].
  apply star_header_inj in Heq. rewrite <- Heq. apply in_map. exact Hc'.
Qed.

(* the row value: the list field holds vs, every other field its default *)
Definition group_row_spec (fields : list field) (pk : str) (vs : list value) (fs : list (str * value)) : Prop :=
  Forall2 (fun (f : field) (nv : str * value) =>
             fst nv = f_name f /\
             if str_eqb (f_name f) pk then snd nv = VList vs else f_default f = Some (snd nv)) fields fs.

Theorem star_group_encodes fields h2f f2h p cs sfields sh2f sf2h vs fs :
  let scs := star_scs (group_len p cs) cs in
  clean p = true -> Forall (fun c => clean (st_g c) = true) cs -> NoDup (map st_g cs) ->
  NoDup (map f_name fields) ->
  field_ty fields (remap_get h2f p) = Some (TList (TModel sfields sh2f sf2h)) ->
  NoDup (map f_name sfields) -> NoDup (map (star_key sh2f) scs) ->
  (forall sc, In sc scs -> field_ty sfields (star_key sh2f sc) <> None) ->
  length vs = star_n scs -> (0 < star_n scs)%nat ->
  (forall i, (i < star_n scs)%nat ->
             exists efs, nth i vs (VStr []) = VModel efs /\ star_elem_spec sfields sh2f scs i efs) ->
  group_row_spec fields (remap_get h2f p) vs fs ->
  Encodes {| rm_ty := TModel fields h2f f2h; rm_ctx := None |} (VModel fs) (star_data p cs).
Proof.
  intros scs Hp Hcs Hndg Hnd Hpty Hsnd Hndk Hfld Hlen Hpos Hspec Hrow.
  apply (Encodes_intro _ _ _ (star_data p cs)); [reflexivity| |].
  - cbn [rm_ctx]. apply rekey_none. apply star_data_nodup. exact Hndg.
  - cbn [rm_ty]. rewrite (cols_of_star_data p cs Hp Hcs). fold scs.
    pose proof (star_columns_enc sfields sh2f sf2h None scs vs Hsnd Hndk Hfld Hlen Hpos Hspec) as HE.
    assert (Hne : star_cols scs <> []).
    { intros Hnil. destruct (proj1 enc_sound _ _ _ _ HE) as [Hemp _]. specialize (Hemp Hnil). discriminate. }
    apply EncModelSpread.
    + unfold under. destruct (star_cols scs); [congruence|discriminate].
    + exact Hnd.
    + unfold heads_ok, under. apply Forall_forall. intros pc Hin. apply in_map_iff in Hin.
      destruct Hin as [pc' [<- _]]. cbn [fst]. rewrite Hpty. discriminate.
    + apply build_fields. pose proof (Forall2_with_in _ _ _ Hrow) as Hrow'.
      eapply Forall2_impl; [|exact Hrow']. cbn beta.
      intros f nv [Hin [Hn Hv]]. split; [exact Hn|]. rewrite sub_key_under. rewrite (str_eqb_sym (remap_get h2f p)).
      destruct (str_eqb (f_name f) (remap_get h2f p)) eqn:E.
      * apply str_eqb_eq in E.
        assert (Hty : f_ty f = TList (TModel sfields sh2f sf2h)).
        { destruct f as [n [t d]]. cbn [f_name f_ty fst snd] in *. subst n.
          pose proof (field_ty_in fields _ t d Hnd Hin) as H1. congruence. }
        rewrite Hty, Hv.
        apply (star_columns_enc sfields sh2f sf2h (f_default f) scs vs Hsnd Hndk Hfld Hlen Hpos Hspec).
      * rewrite Hv. apply EncDefault.
Qed.

(* ---- the implied length of the group, in terms of its cells ---- *)
Definition list_lens (cs : list starcell) : list nat :=
  flat_map (fun c => match cell_parse (st_txt c) with Lst l => [length l] | Str _ => [] end) cs.

Lemma star_lens_of_group p cs : clean p = true -> star_lens_of (p ++ [c_dot]) (star_data p cs) = list_lens cs.
Proof.
  intros Hp. unfold star_lens_of, star_data, list_lens. induction cs as [|c cs IH]; [reflexivity|].
  cbn [map flat_map fst snd]. rewrite IH, star_header_has_star, (star_header_prefix p _ Hp), str_eqb_refl. reflexivity.
Qed.

(* length = max over the sibling `*` columns that hold lists (at least 1) ... *)
Theorem group_len_spec p cs : clean p = true -> group_len p cs = max_from 1 (list_lens cs).
Proof. intros Hp. unfold group_len. rewrite star_len_spec, (star_lens_of_group p cs Hp). reflexivity. Qed.

(* ... whatever the order of the columns *)
Theorem group_len_order p cs cs' : clean p = true -> Permutation cs cs' -> group_len p cs = group_len p cs'.
Proof.
  intros Hp H. rewrite !group_len_spec by exact Hp. apply max_from_perm. unfold list_lens.
  induction H as [|x l l' _ IH|x y l|l l' l'' _ IH1 _ IH2]; cbn [flat_map].
  - constructor.
  - apply Permutation_app_head, IH.
  - rewrite !app_assoc. apply Permutation_app_tail, Permutation_app_comm.
  - eapply Permutation_trans; eassumption.
Qed.

Lemma max_from_le l b : forall m, (m <= b)%nat -> (forall x, In x l -> (x <= b)%nat) -> (max_from m l <= b)%nat.
Proof.
  induction l as [|y l IH]; intros m Hm H; [exact Hm|]. cbn. apply IH.
  - specialize (H y (or_introl eq_refl)). lia.
  - intros x Hx. apply H. right. exact Hx.
Qed.

(* with a single-value cell in the group, the list the group stands for has exactly the implied length *)
Lemma star_n_group p cs c s :
  clean p = true -> In c cs -> cell_parse (st_txt c) = Str s ->
  star_n (star_scs (group_len p cs) cs) = group_len p cs.
Proof.
  intros Hp Hc Hs. set (n := group_len p cs). unfold star_n, star_scs. rewrite map_map. cbn [sc_xs].
  apply Nat.le_antisymm.
  - apply max_from_le; [lia|]. intros x Hx. apply in_map_iff in Hx. destruct Hx as [c' [<- Hc']].
    unfold star_xs. destruct (cell_parse (st_txt c')) as [s'|l] eqn:E.
    + rewrite repeat_length. lia.
    + unfold n. rewrite (group_len_spec p cs Hp). apply max_from_in. unfold list_lens. apply in_flat_map.
      exists c'. split; [exact Hc'|]. rewrite E. left. reflexivity.
  - apply max_from_in. apply in_map_iff. exists c. split; [|exact Hc].
    unfold star_xs. rewrite Hs. apply repeat_length.
Qed.

(* 3'. the whole statement at the level of parse_row: a row of `p.*.g` cells parses to the row whose
   list field p has group_len elements (= max over the sibling list-valued cells, at least 1, in any
   column order), and a cell holding ONE value s gives EVERY element the value s denotes *)
Theorem asterisk_broadcast_row fields h2f f2h p cs sfields sh2f sf2h vs fs c s :
  let scs := star_scs (group_len p cs) cs in
  clean p = true -> Forall (fun c => clean (st_g c) = true) cs -> NoDup (map st_g cs) ->
  NoDup (map f_name fields) ->
  field_ty fields (remap_get h2f p) = Some (TList (TModel sfields sh2f sf2h)) ->
  NoDup (map f_name sfields) -> NoDup (map (star_key sh2f) scs) ->
  (forall sc, In sc scs -> field_ty sfields (star_key sh2f sc) <> None) ->
  length vs = group_len p cs ->
  (forall i, (i < group_len p cs)%nat ->
             exists efs, nth i vs (VStr []) = VModel efs /\ star_elem_spec sfields sh2f scs i efs) ->
  group_row_spec fields (remap_get h2f p) vs fs ->
  In c cs -> cell_parse (st_txt c) = Str s ->
  parse_row {| rm_ty := TModel fields h2f f2h; rm_ctx := None |} (star_data p cs) = Ok (VModel fs)
  /\ group_len p cs = max_from 1 (list_lens cs)
  /\ forall i f, (i < group_len p cs)%nat -> In f sfields -> f_name f = remap_get sh2f (st_g c) ->
                 exists efs v, nth i vs (VStr []) = VModel efs /\ In (f_name f, v) efs /\ EncNv (f_ty f) v (Str s).
Proof.
  intros scs Hp Hcs Hndg Hnd Hpty Hsnd Hndk Hfld Hlen Hspec Hrow Hc Hs.
  pose proof (star_n_group p cs c s Hp Hc Hs) as Hn. fold scs in Hn.
  assert (Hpos : (0 < star_n scs)%nat).
  { rewrite Hn, (group_len_spec p cs Hp). pose proof (max_from_ge (list_lens cs) 1). lia. }
  split; [|split].
  - apply encodes_parse.
    assert (H1 : length vs = star_n scs) by (rewrite Hn; exact Hlen).
    assert (H2 : forall i, (i < star_n scs)%nat ->
                 exists efs, nth i vs (VStr []) = VModel efs /\ star_elem_spec sfields sh2f scs i efs)
      by (rewrite Hn; exact Hspec).
    exact (star_group_encodes fields h2f f2h p cs sfields sh2f sf2h vs fs Hp Hcs Hndg Hnd Hpty Hsnd Hndk Hfld H1 Hpos H2 Hrow).
  - apply group_len_spec, Hp.
  - intros i f Hi Hf Hname. destruct (Hspec i Hi) as [efs [Hnth Hes]].
    set (sc := {| sc_name := st_g c; sc_xs := star_xs (group_len p cs) c |}).
    assert (Hsc : In sc scs) by (unfold scs, star_scs; apply in_map_iff; exists c; split; [reflexivity|exact Hc]).
    assert (Hxs : sc_xs sc = repeat (Str s) (star_n scs)).
    { unfold sc. cbn [sc_xs]. unfold star_xs. rewrite Hs, Hn. reflexivity. }
    rewrite <- Hn in Hi.
    destruct (asterisk_broadcast sfields sh2f scs sc (Str s) Hndk Hsc Hxs i efs Hi Hes f Hf Hname) as [v [Hin Hv]].
    exists efs, v. split; [exact Hnth|]. split; assumption.
Qed.
