(* E2 — facts about the text layer of the row codec: decimal text of integers and indices,
   the float fragment, trimmed strings, header paths (join on "." / split on "."),
   get_field_name.  No axioms. *)
From Coq Require Import List NArith ZArith Bool Lia ZifyBool Arith Decimal DecimalZ DecimalPos DecimalNat.
From RPFT Require Import Base.Sexp Base.PyStr Base.PyStrFacts Base.Result Gen.Tables Cell.Cell Cell.CellFacts
  Row.Ty Row.Layout Row.RowParse Row.RowUnparse.
Import ListNotations.
Local Open Scope N_scope.

(* ------------------------------------------------------------------ trimmed strings *)
Definition nows (s : str) : bool := forallb (fun c => negb (is_ws c)) s.

(* first and last character are not whitespace (or the string is empty) *)
Definition trimmedb (s : str) : bool :=
  match s with
  | [] => true
  | c :: r => negb (is_ws c) && negb (is_ws (last s c))
  end.

Lemma rstrip_last_nonws s c :
  s <> [] -> is_ws (last s c) = false -> rstrip s = s.
Proof.
  induction s as [|a r IH]; [congruence|]. intros _ Hl.
  destruct r as [|b r'].
  - cbn in Hl. cbn. rewrite Hl. reflexivity.
  - assert (E : rstrip (b :: r') = b :: r') by (apply IH; [discriminate|exact Hl]).
    change (rstrip (a :: b :: r')) with
      (match rstrip (b :: r') with [] => if is_ws a then [] else [a] | t => a :: t end).
    rewrite E. reflexivity.
Qed.

Lemma trimmedb_strip s : trimmedb s = true -> strip s = s.
Proof.
  destruct s as [|c r]; [reflexivity|]. unfold trimmedb. intros H.
  apply andb_true_iff in H as [H1 H2]. apply negb_true_iff in H1. apply negb_true_iff in H2.
  unfold strip. cbn [lstrip]. rewrite H1. apply (rstrip_last_nonws _ c); [discriminate|exact H2].
Qed.

Lemma strip_trimmedb s : strip s = s -> trimmedb s = true.
Proof.
  destruct s as [|c r]; [reflexivity|]. intros H. unfold trimmedb.
  assert (H1 : is_ws c = false).
  { destruct (is_ws c) eqn:E; [|reflexivity]. exfalso.
    unfold strip in H. cbn [lstrip] in H. rewrite E in H.
    assert (Hlen : (length (rstrip (lstrip r)) <= length r)%nat).
    { clear. transitivity (length (lstrip r)).
      - generalize (lstrip r). intros s. induction s as [|a s IH]; [cbn; lia|].
        cbn [rstrip]. destruct (rstrip s); [destruct (is_ws a); cbn; lia|cbn in *; lia].
      - induction r as [|a r IH]; [cbn; lia|]. cbn [lstrip]. destruct (is_ws a); cbn in *; lia. }
    rewrite H in Hlen. cbn in Hlen. lia. }
  rewrite H1. cbn [negb andb].
  unfold strip in H. cbn [lstrip] in H. rewrite H1 in H.
  (* rstrip s = s with s nonempty: the last character is not whitespace *)
  assert (G : forall s d, s <> [] -> rstrip s = s -> is_ws (last s d) = false).
  { clear. induction s as [|a s IH]; [congruence|]. intros d _ E.
    destruct s as [|b s'].
    - cbn in E. cbn. destruct (is_ws a); [discriminate|reflexivity].
    - change (rstrip (a :: b :: s')) with
        (match rstrip (b :: s') with [] => if is_ws a then [] else [a] | t => a :: t end) in E.
      destruct (rstrip (b :: s')) as [|x t] eqn:E2.
      + destruct (is_ws a); discriminate.
      + injection E as E. change (last (a :: b :: s') d) with (last (b :: s') d).
        apply IH; [discriminate|congruence]. }
  rewrite (G (c :: r) c); [reflexivity|discriminate|exact H].
Qed.

Lemma nows_trimmedb s : nows s = true -> trimmedb s = true.
Proof.
  destruct s as [|c r]; [reflexivity|]. intros H. unfold trimmedb.
  unfold nows in H. rewrite forallb_forall in H.
  rewrite (H c) by (left; reflexivity).
  rewrite (H (last (c :: r) c)); [reflexivity|]. apply last_In. discriminate.
Qed.

Lemma strip_idem_trim s : trimmedb s = true -> strip (strip s) = strip s.
Proof. intros H. rewrite (trimmedb_strip s H). apply trimmedb_strip, H. Qed.

(* ------------------------------------------------------------------ decimal text *)
Definition is_digit (c : char) : bool := (48 <=? c) && (c <=? 57).
Definition numch (c : char) : bool := is_digit c || (c =? c_minus).

Lemma uint_to_str_digits u : forallb is_digit (uint_to_str u) = true.
Proof. induction u; cbn [uint_to_str forallb]; try reflexivity; rewrite IHu; reflexivity. Qed.

Lemma str_to_uint_to_str u : str_to_uint (uint_to_str u) = Some u.
Proof.
  induction u; cbn [uint_to_str str_to_uint]; try reflexivity; rewrite IHu; reflexivity.
Qed.

Lemma digit_nows c : is_digit c = true -> is_ws c = false.
Proof. unfold is_digit, is_ws. intros H. lia. Qed.

Lemma numch_nows c : numch c = true -> is_ws c = false.
Proof. unfold numch, is_digit, is_ws, c_minus. intros H. lia. Qed.

Lemma forallb_impl {X} (p q : X -> bool) l :
  (forall x, p x = true -> q x = true) -> forallb p l = true -> forallb q l = true.
Proof.
  intros H. induction l as [|x r IH]; [reflexivity|]. cbn. intros E.
  apply andb_true_iff in E as [E1 E2]. rewrite (H _ E1), (IH E2). reflexivity.
Qed.

Lemma numch_str_nows s : forallb numch s = true -> nows s = true.
Proof.
  apply forallb_impl. intros c H. rewrite (numch_nows c H). reflexivity.
Qed.

Lemma print_Z_numch z : forallb numch (print_Z z) = true.
Proof.
  unfold print_Z. destruct (Z.to_int z) as [u|u].
  - apply (forallb_impl is_digit); [|apply uint_to_str_digits]. intros c H. unfold numch. rewrite H. reflexivity.
  - cbn [forallb]. unfold numch at 1. rewrite N.eqb_refl, orb_true_r. cbn [andb].
    apply (forallb_impl is_digit); [|apply uint_to_str_digits]. intros c H. unfold numch. rewrite H. reflexivity.
Qed.

Lemma print_nat_digits n : forallb is_digit (print_nat n) = true.
Proof. apply uint_to_str_digits. Qed.

Lemma print_nat_numch n : forallb numch (print_nat n) = true.
Proof.
  apply (forallb_impl is_digit); [|apply print_nat_digits]. intros c H. unfold numch. rewrite H. reflexivity.
Qed.

Lemma uint_to_str_nil u : uint_to_str u = [] -> u = Nil.
Proof. destruct u; cbn; try discriminate. reflexivity. Qed.

Lemma strip_numch s : forallb numch s = true -> strip s = s.
Proof. intros H. apply trimmedb_strip, nows_trimmedb, numch_str_nows, H. Qed.

Lemma digits_head_not_sign c r :
  forallb is_digit (c :: r) = true -> (c =? c_minus) = false /\ (c =? c_plus) = false.
Proof.
  cbn. intros H. apply andb_true_iff in H as [H _]. unfold is_digit, c_minus, c_plus in *. lia.
Qed.

Lemma parse_int_print_Z z : parse_int (print_Z z) = Some z.
Proof.
  unfold parse_int. rewrite (strip_numch _ (print_Z_numch z)).
  transitivity (Some (Z.of_int (Z.to_int z))); [|rewrite DecimalZ.of_to; reflexivity].
  unfold print_Z.
  destruct (Z.to_int z) as [u|u] eqn:E.
  - assert (Hne : u <> Nil).
    { destruct z; cbn in E; try discriminate; injection E as <-; [discriminate|apply Unsigned.to_uint_nonnil]. }
    destruct (uint_to_str u) as [|c r] eqn:Eu; [apply uint_to_str_nil in Eu; contradiction|].
    pose proof (uint_to_str_digits u) as Hd. rewrite Eu in Hd.
    destruct (digits_head_not_sign c r Hd) as [H1 H2]. rewrite H1, H2.
    rewrite <- Eu, str_to_uint_to_str. reflexivity.
  - rewrite N.eqb_refl.
    assert (Hne : u <> Nil).
    { destruct z; cbn in E; try discriminate. injection E as <-. apply Unsigned.to_uint_nonnil. }
    destruct (uint_to_str u) as [|c r] eqn:Eu; [apply uint_to_str_nil in Eu; contradiction|].
    rewrite <- Eu, str_to_uint_to_str. reflexivity.
Qed.

(* Nat.of_uint and Pos.of_uint agree *)
Lemma pos_of_uint_acc_nat d : forall acc,
  Pos.to_nat (Pos.of_uint_acc d acc) = Nat.of_uint_acc d (Pos.to_nat acc).
Proof.
  induction d; intros acc; cbn [Pos.of_uint_acc Nat.of_uint_acc]; try reflexivity;
    rewrite IHd; f_equal; rewrite Nat.tail_mul_spec; lia.
Qed.

Lemma pos_of_uint_nat d : N.to_nat (Pos.of_uint d) = Nat.of_uint d.
Proof.
  unfold Nat.of_uint.
  induction d; cbn [Pos.of_uint Nat.of_uint_acc]; try reflexivity;
    try (cbn [N.to_nat]; rewrite pos_of_uint_acc_nat; reflexivity).
  exact IHd.
Qed.

Lemma Z_of_uint_to_uint n : Z.of_uint (Nat.to_uint n) = Z.of_nat n.
Proof.
  unfold Z.of_uint.
  pose proof (pos_of_uint_nat (Nat.to_uint n)) as H. rewrite DecimalNat.Unsigned.of_to in H. lia.
Qed.

Lemma nat_to_uint_nonnil n : Nat.to_uint n <> Nil.
Proof.
  intros E. pose proof (DecimalNat.Unsigned.to_of (Nat.to_uint n)) as H.
  rewrite DecimalNat.Unsigned.of_to in H.
  (* Nat.to_uint n is normalised: unorm never returns Nil *)
  rewrite E in H at 2. cbn in H. rewrite E in H. discriminate.
Qed.

Lemma parse_int_print_nat n : parse_int (print_nat n) = Some (Z.of_nat n).
Proof.
  unfold parse_int. rewrite (strip_numch _ (print_nat_numch n)). unfold print_nat.
  destruct (uint_to_str (Nat.to_uint n)) as [|c r] eqn:Eu.
  - apply uint_to_str_nil in Eu. exfalso. exact (nat_to_uint_nonnil n Eu).
  - pose proof (uint_to_str_digits (Nat.to_uint n)) as Hd. rewrite Eu in Hd.
    destruct (digits_head_not_sign c r Hd) as [H1 H2]. rewrite H1, H2.
    rewrite <- Eu, str_to_uint_to_str. cbn [Z.of_int]. rewrite Z_of_uint_to_uint. reflexivity.
Qed.

Lemma print_nat_nonnil n : print_nat n <> [].
Proof. intros E. apply uint_to_str_nil in E. exact (nat_to_uint_nonnil n E). Qed.

Lemma print_nat_inj a b : print_nat a = print_nat b -> a = b.
Proof.
  intros E. pose proof (parse_int_print_nat a) as Ha. rewrite E, parse_int_print_nat in Ha.
  injection Ha as Ha. lia.
Qed.

(* ------------------------------------------------------------------ temporary character / table facts *)
(* what the proofs need to know about the regenerated constants.  The temporary character of cleanse exists only
   in trees that un-escape in three replace passes (Gen/Tables.v: cleanse_tmp = Some t); when it exists it must
   not occur in any text the row codec prints (digits, '-', '.', True, False). *)
Definition tmp_not_printed (t : char) : bool :=
  negb (numch t) && negb (t =? c_dot) && negb (mem_char t s_True) && negb (mem_char t s_False).

Definition row_text_tables_ok : bool :=
  match cleanse_tmp with Some t => tmp_not_printed t | None => true end
  && (hdr_sep =? c_dot) && (ann_sep =? c_colon) && (dflt_sep =? c_eq).

Lemma row_text_tables_ok_true : row_text_tables_ok = true.
Proof. vm_compute. reflexivity. Qed.

Lemma tmp_not_printed_true t : cleanse_tmp = Some t -> tmp_not_printed t = true.
Proof.
  intros E. pose proof row_text_tables_ok_true as H. unfold row_text_tables_ok in H. rewrite E in H.
  apply andb_true_iff in H as [H _]. apply andb_true_iff in H as [H _]. apply andb_true_iff in H as [H _]. exact H.
Qed.

Lemma tmp_not_numch t : cleanse_tmp = Some t -> numch t = false.
Proof.
  intros E. pose proof (tmp_not_printed_true t E) as H. unfold tmp_not_printed in H.
  repeat (apply andb_true_iff in H; destruct H as [H ?]). apply negb_true_iff in H. exact H.
Qed.

Lemma tmp_not_dot t : cleanse_tmp = Some t -> (t =? c_dot) = false.
Proof.
  intros E. pose proof (tmp_not_printed_true t E) as H. unfold tmp_not_printed in H.
  repeat (apply andb_true_iff in H; destruct H as [H ?]).
  match goal with X : negb (t =? c_dot) = true |- _ => apply negb_true_iff in X; exact X end.
Qed.

Lemma tmp_free_True : str_ok s_True = true.
Proof.
  unfold str_ok. destruct cleanse_tmp as [t|] eqn:E; [|reflexivity].
  pose proof (tmp_not_printed_true t E) as H. unfold tmp_not_printed in H.
  repeat (apply andb_true_iff in H; destruct H as [H ?]).
  match goal with X : negb (mem_char t s_True) = true |- _ => exact X end.
Qed.

Lemma tmp_free_False : str_ok s_False = true.
Proof.
  unfold str_ok. destruct cleanse_tmp as [t|] eqn:E; [|reflexivity].
  pose proof (tmp_not_printed_true t E) as H. unfold tmp_not_printed in H.
  repeat (apply andb_true_iff in H; destruct H as [H ?]).
  match goal with X : negb (mem_char t s_False) = true |- _ => exact X end.
Qed.

Lemma mem_char_forallb c p s :
  p c = false -> forallb p s = true -> mem_char c s = false.
Proof.
  intros Hc. induction s as [|x r IH]; [reflexivity|]. cbn. intros H.
  apply andb_true_iff in H as [H1 H2]. rewrite (IH H2), orb_false_r.
  destruct (x =? c) eqn:E; [|reflexivity]. apply N.eqb_eq in E. subst. congruence.
Qed.

Lemma tmp_free_print_Z z : str_ok (print_Z z) = true.
Proof.
  unfold str_ok. destruct cleanse_tmp as [t|] eqn:E; [|reflexivity]. apply negb_true_iff.
  apply (mem_char_forallb _ numch); [apply (tmp_not_numch t E)|apply print_Z_numch].
Qed.

(* ------------------------------------------------------------------ floats *)
Lemma split_char_nonempty c s : split_char c s <> [].
Proof.
  destruct s as [|x r]; [discriminate|]. cbn [split_char].
  destruct (x =? c); [discriminate|]. destruct (split_char c r); discriminate.
Qed.

Lemma join_split_char c s : join_char c (split_char c s) = s.
Proof.
  induction s as [|x r IH]; [reflexivity|]. cbn [split_char].
  pose proof (split_char_nonempty c r) as Hne.
  destruct (split_char c r) as [|h t] eqn:E2; [congruence|].
  destruct (x =? c) eqn:E.
  - apply N.eqb_eq in E. subst x.
    change (join_char c ([] :: h :: t)) with (c :: join_char c (h :: t)). rewrite IH. reflexivity.
  - destruct t as [|h2 t2].
    + cbn [join_char] in *. rewrite IH. reflexivity.
    + change (join_char c ((x :: h) :: h2 :: t2)) with (x :: (h ++ c :: join_char c (h2 :: t2))).
      change (join_char c (h :: h2 :: t2)) with (h ++ c :: join_char c (h2 :: t2)) in IH.
      rewrite IH. reflexivity.
Qed.

Definition floatch (c : char) : bool := is_digit c || (c =? c_minus) || (c =? c_dot).

Lemma floatch_nows c : floatch c = true -> is_ws c = false.
Proof. unfold floatch, is_digit, is_ws, c_minus, c_dot. intros H. lia. Qed.

Lemma forallb_app_iff {X} (p : X -> bool) a b : forallb p (a ++ b) = forallb p a && forallb p b.
Proof. induction a as [|x r IH]; [reflexivity|]. cbn. rewrite IH, andb_assoc. reflexivity. Qed.

Lemma float_canon_chars s : float_canon s = true -> forallb floatch s = true.
Proof.
  unfold float_canon. intros H.
  set (body := match s with c :: r => if c =? c_minus then r else s | [] => s end) in *.
  assert (Hb : forallb floatch body = true).
  { pose proof (join_split_char c_dot body) as J.
    destruct (split_char c_dot body) as [|d [|f [|x y]]]; try discriminate.
    repeat (apply andb_true_iff in H; destruct H as [H ?]).
    rewrite <- J. cbn [join_char]. rewrite forallb_app_iff. cbn [forallb].
    apply andb_true_iff. split; [|apply andb_true_iff; split].
    - apply (forallb_impl (fun c => (48 <=? c) && (c <=? 57))); [|exact H].
      intros c Hc. unfold floatch, is_digit. rewrite Hc. reflexivity.
    - unfold floatch. rewrite N.eqb_refl, orb_true_r. reflexivity.
    - match goal with X : all_digits f = true |- _ =>
        apply (forallb_impl (fun c => (48 <=? c) && (c <=? 57))); [|exact X] end.
      intros c Hc. unfold floatch, is_digit. rewrite Hc. reflexivity. }
  subst body. destruct s as [|c r]; [reflexivity|].
  destruct (c =? c_minus) eqn:E; [|exact Hb].
  cbn [forallb]. rewrite Hb, andb_true_r. unfold floatch. rewrite E, orb_true_r. reflexivity.
Qed.

Lemma float_canon_strip s : float_canon s = true -> strip s = s.
Proof.
  intros H. apply trimmedb_strip, nows_trimmedb.
  apply (forallb_impl floatch); [|apply float_canon_chars, H].
  intros c Hc. rewrite (floatch_nows c Hc). reflexivity.
Qed.

Lemma parse_float_canon s : float_canon s = true -> parse_float s = Some s.
Proof. intros H. unfold parse_float. rewrite (float_canon_strip s H), H. reflexivity. Qed.

Lemma tmp_not_floatch t : cleanse_tmp = Some t -> floatch t = false.
Proof.
  intros E. unfold floatch. pose proof (tmp_not_numch t E) as H. unfold numch in H. rewrite H, (tmp_not_dot t E). reflexivity.
Qed.

Lemma tmp_free_float s : float_canon s = true -> str_ok s = true.
Proof.
  intros H. unfold str_ok. destruct cleanse_tmp as [t|] eqn:E; [|reflexivity]. apply negb_true_iff.
  apply (mem_char_forallb _ floatch); [apply (tmp_not_floatch t E)|apply float_canon_chars, H].
Qed.

(* ------------------------------------------------------------------ header paths *)
Lemma split_char_none c s : mem_char c s = false -> split_char c s = [s].
Proof.
  induction s as [|x r IH]; [reflexivity|]. cbn. intros H.
  apply orb_false_iff in H as [H1 H2]. rewrite H1, (IH H2). reflexivity.
Qed.

Lemma split_char_app c a b :
  mem_char c a = false ->
  split_char c (a ++ c :: b) = a :: split_char c b.
Proof.
  induction a as [|x r IH]; cbn.
  - intros _. rewrite N.eqb_refl. reflexivity.
  - intros H. apply orb_false_iff in H as [H1 H2]. rewrite H1, (IH H2). reflexivity.
Qed.

Lemma split_join_char c comps :
  comps <> [] -> Forall (fun p => mem_char c p = false) comps ->
  split_char c (join_char c comps) = comps.
Proof.
  induction comps as [|p r IH]; [congruence|]. intros _ H. inversion H as [|? ? Hp Hr]; subst.
  destruct r as [|q r']; [cbn [join_char]; apply split_char_none, Hp|].
  change (join_char c (p :: q :: r')) with (p ++ c :: join_char c (q :: r')).
  rewrite split_char_app by exact Hp. f_equal. apply IH; [discriminate|exact Hr].
Qed.

(* a name the parser reads back as itself: non-empty, trimmed, none of . : = * *)
Definition name_ok (n : str) : bool :=
  negb (is_nil n) && trimmedb n
  && negb (mem_char c_dot n) && negb (mem_char c_colon n) && negb (mem_char c_eq n) && negb (mem_char c_star n).

Lemma name_ok_inv n : name_ok n = true ->
  n <> [] /\ trimmedb n = true /\ mem_char c_dot n = false /\ mem_char c_colon n = false
  /\ mem_char c_eq n = false /\ mem_char c_star n = false.
Proof.
  unfold name_ok. intros H. repeat (apply andb_true_iff in H; destruct H as [H ?]).
  repeat match goal with X : negb _ = true |- _ => apply negb_true_iff in X end.
  repeat split; try assumption. destruct n; [discriminate|discriminate].
Qed.

Lemma print_nat_name_ok n : name_ok (print_nat n) = true.
Proof.
  unfold name_ok. pose proof (print_nat_digits n) as Hd.
  assert (G : forall c, is_digit c = false -> mem_char c (print_nat n) = false)
    by (intros c Hc; apply (mem_char_forallb _ is_digit); assumption).
  rewrite (G c_dot), (G c_colon), (G c_eq), (G c_star) by reflexivity.
  rewrite (nows_trimmedb _ (numch_str_nows _ (print_nat_numch n))).
  pose proof (print_nat_nonnil n). destruct (print_nat n); [congruence|reflexivity].
Qed.

Lemma mem_char_app c a b : mem_char c (a ++ b) = mem_char c a || mem_char c b.
Proof. induction a as [|x r IH]; [reflexivity|]. cbn. rewrite IH, orb_assoc. reflexivity. Qed.

Lemma mem_char_join c sep comps :
  (c =? sep) = false -> Forall (fun p => mem_char c p = false) comps ->
  mem_char c (join_char sep comps) = false.
Proof.
  intros Hs. induction comps as [|p r IH]; [reflexivity|]. intros H.
  inversion H as [|? ? Hp Hr]; subst. destruct r as [|q r']; [exact Hp|].
  change (join_char sep (p :: q :: r')) with (p ++ sep :: join_char sep (q :: r')).
  rewrite mem_char_app, Hp. cbn [mem_char orb]. rewrite N.eqb_sym, Hs. apply IH, Hr.
Qed.

Lemma last_app_cons {X} (a : list X) x b d : last (a ++ x :: b) d = last (x :: b) d.
Proof.
  induction a as [|y r IH]; [reflexivity|]. rewrite <- app_comm_cons.
  destruct (r ++ x :: b) as [|z l] eqn:E; [destruct r; discriminate|]. exact IH.
Qed.

Lemma trimmedb_join comps :
  comps <> [] -> Forall (fun p => name_ok p = true) comps ->
  trimmedb (join_char c_dot comps) = true.
Proof.
  intros Hne Hall.
  assert (Hlast : forall l d, l <> [] -> Forall (fun p => name_ok p = true) l ->
            join_char c_dot l <> [] /\ is_ws (last (join_char c_dot l) d) = false).
  { clear. induction l as [|p r IH]; [congruence|]. intros d _ H.
    inversion H as [|? ? Hp Hr]; subst. apply name_ok_inv in Hp as (Hn & Ht & _).
    destruct r as [|q r'].
    - cbn [join_char]. split; [exact Hn|]. destruct p as [|c p']; [congruence|].
      unfold trimmedb in Ht. apply andb_true_iff in Ht as [_ Ht]. apply negb_true_iff in Ht.
      rewrite (last_indep _ d c) by discriminate. exact Ht.
    - change (join_char c_dot (p :: q :: r')) with (p ++ c_dot :: join_char c_dot (q :: r')).
      split; [destruct p; discriminate|]. rewrite last_app_cons.
      destruct (IH d ltac:(discriminate) Hr) as [Hj Hl].
      destruct (join_char c_dot (q :: r')) as [|y t] eqn:E; [congruence|]. exact Hl. }
  destruct comps as [|p r]; [congruence|].
  inversion Hall as [|? ? Hp Hr]; subst.
  destruct (Hlast (p :: r) 0 Hne Hall) as [Hj Hl].
  destruct (join_char c_dot (p :: r)) as [|c s] eqn:E; [congruence|].
  unfold trimmedb. rewrite (last_indep _ c 0) by discriminate. rewrite Hl.
  apply name_ok_inv in Hp as (Hn & Ht & _). destruct p as [|c' p']; [congruence|].
  assert (c = c').
  { destruct r as [|q r']; cbn [join_char] in E; [injection E as -> _; reflexivity|].
    cbn [app] in E. injection E as -> _. reflexivity. }
  subst c'. unfold trimmedb in Ht. apply andb_true_iff in Ht as [Ht _]. rewrite Ht. reflexivity.
Qed.

(* the path a written header is read back as *)
Lemma header_path_roundtrip comps :
  comps <> [] -> Forall (fun p => name_ok p = true) comps ->
  split_char c_dot (get_field_name (header_of comps)) = comps.
Proof.
  intros Hne Hall. unfold get_field_name, header_of.
  assert (F : forall c, (c =? c_dot) = false -> (forall p, name_ok p = true -> mem_char c p = false) ->
              mem_char c (join_char c_dot comps) = false).
  { intros c Hc Hp. apply mem_char_join; [exact Hc|].
    rewrite Forall_forall in *. intros p Hin. apply Hp, Hall, Hin. }
  rewrite (split_char_none c_colon) by (apply F; [reflexivity|intros p Hp; apply name_ok_inv in Hp; tauto]).
  cbn [hd].
  rewrite (split_char_none c_eq) by (apply F; [reflexivity|intros p Hp; apply name_ok_inv in Hp; tauto]).
  cbn [hd]. rewrite (trimmedb_strip _ (trimmedb_join comps Hne Hall)).
  apply split_join_char; [exact Hne|].
  rewrite Forall_forall in *. intros p Hin. specialize (Hall p Hin). apply name_ok_inv in Hall. tauto.
Qed.

Lemma header_no_star comps :
  Forall (fun p => name_ok p = true) comps -> has_star (header_of comps) = false.
Proof.
  intros Hall. unfold has_star, header_of. apply mem_char_join; [reflexivity|].
  rewrite Forall_forall in *. intros p Hin. specialize (Hall p Hin). apply name_ok_inv in Hall. tauto.
Qed.

Lemma header_of_inj a b :
  a <> [] -> b <> [] ->
  Forall (fun p => name_ok p = true) a -> Forall (fun p => name_ok p = true) b ->
  header_of a = header_of b -> a = b.
Proof.
  intros Ha Hb Fa Fb E.
  rewrite <- (header_path_roundtrip a Ha Fa), <- (header_path_roundtrip b Hb Fb), E. reflexivity.
Qed.
