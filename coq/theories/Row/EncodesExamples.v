(* E2 / C09 — concrete rows: non-vacuity of the Encodes theorems, and the witnesses that show
   where layout DOES matter in the faithful model (refutations of the unrestricted claims). *)
From Coq Require Import List NArith ZArith Bool Lia Arith String Ascii.
From RPFT Require Import Base.Sexp Base.PyStr Base.PyStrFacts Base.Result Base.ODict Gen.Tables Cell.Cell Cell.CellFacts
  Row.Ty Row.RowParse Row.FlowRow Row.ParseFold Row.Encodes Row.EncodesFacts Row.FlowHeaderFacts Row.HeaderFacts
  Row.StarFacts Row.ReorderFacts.
Import ListNotations.
Local Open Scope N_scope.

(* string literals as code point lists (examples only) *)
Definition S_ (x : string) : str := map N_of_ascii (list_ascii_of_string x).
Arguments S_ x%string.
Notation "'s!' x" := (S_ x) (at level 0, x at level 0).

(* ---- building derivations on concrete data ---- *)
Ltac side := first [ reflexivity | discriminate | (vm_compute; reflexivity) | (vm_compute; discriminate) ].
Ltac nodup := vm_compute; repeat constructor; cbn; intuition discriminate.

Ltac enc_nv :=
  vm_compute;
  lazymatch goal with
  | |- EncNv TStr _ _ => apply NvStr
  | |- EncNv TInt _ _ => apply NvInt; vm_compute; reflexivity
  | |- EncNv TFloat _ _ => apply NvFloat; vm_compute; reflexivity
  | |- EncNv TBool _ (Str ?s) =>
    first [ refine (NvBool s _) | (change (EncNv TBool (VBool (str_to_bool (strip s))) (Str s)); apply NvBool) ];
    vm_compute; discriminate
  | |- EncNv TUList _ (Lst ?l) => apply (NvUList l)
  | |- EncNv TUList _ (Str ?s) => apply (NvUListScalar s)
  | |- EncNv (TList _) _ (Str []) => apply NvListEmpty
  | |- EncNv (TList _) _ (Str _) => apply NvListScalar; [discriminate|enc_nv]
  | |- EncNv (TList _) _ (Lst _) => apply NvList; repeat (apply NvsCons; [enc_nv|]); apply NvsNil
  | |- EncNv (TModel _ _ _) _ _ =>
    first [ eapply NvModelPair; [nodup|vm_compute; reflexivity|reflexivity|vm_compute; reflexivity|enc_nv|vm_compute; reflexivity]
          | eapply NvModelArgs; [nodup|vm_compute; reflexivity|vm_compute; enc_args|nodup|vm_compute; reflexivity] ]
  end
with enc_args :=
  lazymatch goal with
  | |- EncArgs _ _ _ [] _ => apply ArgsNil
  | |- EncArgs _ _ _ (_ :: _) _ =>
    first [ eapply ArgsKw; [reflexivity|vm_compute; reflexivity|enc_nv|enc_args]
          | eapply ArgsPos; [vm_compute; reflexivity|vm_compute; reflexivity|enc_nv|enc_args] ]
  end.

Ltac enc :=
  vm_compute;
  lazymatch goal with
  | |- Enc _ (Some _) _ [] => apply EncDefault
  | |- Enc _ _ _ [([], _)] => apply EncCell; enc_nv
  | |- Enc (TModel _ _ _) _ _ _ =>
    apply EncModelSpread; [discriminate|nodup|repeat constructor; vm_compute; discriminate|enc_fields]
  | |- Enc _ _ (VList _) _ =>
    apply EncListSpread; [reflexivity|discriminate|vm_compute; reflexivity|vm_compute; enc_elems]
  end
with enc_fields :=
  lazymatch goal with
  | |- EncFields _ _ [] [] => apply FieldsNil
  | |- EncFields _ _ (_ :: _) (_ :: _) => apply FieldsCons; [enc|enc_fields]
  end
with enc_elems :=
  lazymatch goal with
  | |- EncElems _ _ _ [] => apply ElemsNil
  | |- EncElems _ _ _ (_ :: _) => apply ElemsCons; [vm_compute; discriminate|enc|enc_elems]
  end.

Ltac encodes data :=
  apply (Encodes_intro _ _ _ data); [reflexivity|vm_compute; reflexivity|enc].

(* ---- a family of nested models ---- *)
(* class M: x: str; y: str = "d"          class E: a: str = ""; b: int = 0; flag: bool = False
   class R: a: str; l: List[int] = []; m: M; es: List[E] = []; u: list = []  *)
Definition tM : ty := TModel [(s!"x", (TStr, None)); (s!"y", (TStr, Some (VStr s!"d")))] [] [].
Definition tE : ty := TModel [(s!"a", (TStr, Some (VStr []))); (s!"b", (TInt, Some (VInt 0)));
                              (s!"flag", (TBool, Some (VBool false)))] [] [].
Definition tR : ty :=
  TModel [(s!"a", (TStr, None)); (s!"l", (TList TInt, Some (VList []))); (s!"m", (tM, None));
          (s!"es", (TList tE, Some (VList []))); (s!"u", (TUList, Some (VList [])))] [] [].
Definition rmR : rowmodel := {| rm_ty := tR; rm_ctx := None |}.

Definition vE (a : string) (b : Z) (f : bool) : value :=
  VModel [(s!"a", VStr (S_ a)); (s!"b", VInt b); (s!"flag", VBool f)].
Definition vR : value :=
  VModel [(s!"a", VStr s!"hello"); (s!"l", VList [VInt 1; VInt 2]);
          (s!"m", VModel [(s!"x", VStr s!"foo"); (s!"y", VStr s!"d")]);
          (s!"es", VList [vE "p" 7 true; vE "q" 7 false]); (s!"u", VList [])].

(* layout 1: everything spread, columns of different fields and of different list elements interleaved *)
Definition cells_spread : list (str * str) :=
  [(s!"l.1", s!"1"); (s!"es.1.a", s!"p"); (s!"m.x", s!"foo"); (s!"es.2.a", s!"q"); (s!"l.2", s!" 2");
   (s!"es.1.flag", s!"true"); (s!"a", s!"hello"); (s!"es.2.b", s!"7"); (s!"es.1.b", s!"7")].
(* layout 2: packed cells: list with `;`, record as key;value pairs in any order, list of records positionally *)
Definition cells_packed : list (str * str) :=
  [(s!"a", s!"hello"); (s!"l", s!"1;2"); (s!"m", s!"y;d|x;foo"); (s!"es", s!"p;7;true|q;7")].
(* layout 3: record positionally, list with `|`, list of records as `*` columns with one broadcast value *)
Definition cells_star : list (str * str) :=
  [(s!"m", s!"foo"); (s!"es.*.b", s!"7"); (s!"a", s!"hello"); (s!"es.*.a", s!"p|q"); (s!"l", s!"1|2");
   (s!"es.1.flag", s!"TRUE")].

Lemma encodes_spread : Encodes rmR vR cells_spread.
Proof. encodes cells_spread. Qed.
Lemma encodes_packed : Encodes rmR vR cells_packed.
Proof. encodes cells_packed. Qed.
Lemma encodes_star : Encodes rmR vR cells_star.
Proof. encodes cells_star. Qed.

(* the three layouts are three different cell lists ... *)
Example layouts_differ : cells_spread <> cells_packed /\ cells_packed <> cells_star /\ cells_spread <> cells_star.
Proof. repeat split; vm_compute; discriminate. Qed.

(* ... that satisfy the hypotheses of encodes_parse / layout_independent *)
Example encodes_parse_nonvacuous :
  Encodes rmR vR cells_spread /\ Encodes rmR vR cells_packed /\ Encodes rmR vR cells_star
  /\ cells_spread <> cells_packed /\ cells_packed <> cells_star /\ cells_spread <> cells_star
  /\ parse_row rmR cells_star = Ok vR.
Proof.
  split; [exact encodes_spread|]. split; [exact encodes_packed|]. split; [exact encodes_star|].
  split; [apply layouts_differ|]. split; [apply layouts_differ|]. split; [apply layouts_differ|].
  apply encodes_parse. exact encodes_star.
Qed.

(* ---- flow rows: short and long headers ---- *)
Definition flow_short : list (str * str) :=
  [(s!"row_id", s!"1"); (s!"type", s!"send_message"); (s!"from", s!"start"); (s!"condition", s!"a|b");
   (s!"condition_var", s!"@x"); (s!"message_text", s!"hi"); (s!"_nodeId", s!"n1")].
Definition flow_long : list (str * str) :=
  [(s!"row_id", s!"1"); (s!"type", s!"send_message"); (s!"edges.*.from_", s!"start");
   (s!"edges.*.condition.value", s!"a|b"); (s!"edges.*.condition.variable", s!"@x");
   (s!"mainarg_message_text", s!"hi"); (s!"node_uuid", s!"n1")].
Definition flow_mixed : list (str * str) :=
  [(s!"row_id", s!"1"); (s!"type", s!"send_message"); (s!"from", s!"start");
   (s!"condition_value", s!"a|b"); (s!"condition_variable", s!"@x");
   (s!"mainarg_message_text", s!"hi"); (s!"_nodeId", s!"n1")].

Ltac same_row_tac :=
  repeat (apply Forall2_cons; [split; [reflexivity|];
    first [ apply HE_same
          | apply HE_short_long; vm_compute; reflexivity
          | apply HE_long_short; vm_compute; reflexivity
          | (eapply HE_short_short; vm_compute; reflexivity)
          | (eapply HE_main_long; vm_compute; reflexivity)
          | (eapply HE_long_main; vm_compute; reflexivity) ] |]); apply Forall2_nil.

Example short_long_nonvacuous :
  same_row (oget str_eqb flow_short (cx_sw_column flow_cx)) flow_short flow_long
  /\ same_row (oget str_eqb flow_short (cx_sw_column flow_cx)) flow_short flow_mixed
  /\ flow_short <> flow_long
  /\ is_ok (flow_parse flow_short) = true
  /\ flow_parse flow_short = flow_parse flow_long.
Proof.
  assert (H1 : same_row (oget str_eqb flow_short (cx_sw_column flow_cx)) flow_short flow_long) by same_row_tac.
  split; [exact H1|]. split; [same_row_tac|]. split; [vm_compute; discriminate|].
  split; [vm_compute; reflexivity|]. apply short_long_layouts. exact H1.
Qed.

(* a short header exists and has a long form; every row type has a main argument *)
Example short_long_headers_nonvacuous :
  oget str_eqb (cx_basic flow_cx) s!"condition_var" = Some s!"edges.*.condition.variable"
  /\ oget str_eqb (cx_basic flow_cx) s!"from" = Some s!"edges.*.from_"
  /\ oget str_eqb (cx_sw_table flow_cx) s!"send_message" = Some s!"mainarg_message_text"
  /\ cx_sw_header flow_cx = s!"message_text" /\ cx_sw_column flow_cx = s!"type".
Proof. repeat split; vm_compute; reflexivity. Qed.

(* the flow row in a layout with `*` columns (short headers) and in one with indexed columns is an
   instance of Encodes for the regenerated flow model too *)
Definition flow_indexed : list (str * str) :=
  [(s!"edges.1.condition.value", s!"a"); (s!"row_id", s!"1"); (s!"edges.1.from", s!"start");
   (s!"type", s!"send_message"); (s!"edges.2.from", s!"start"); (s!"edges.1.condition.variable", s!"@x");
   (s!"edges.2.condition", s!"b;@x"); (s!"node_uuid", s!"n1"); (s!"mainarg_message_text", s!"hi")].

Definition flow_value : value :=
  ltac:(let x := eval vm_compute in (flow_parse flow_short) in match x with Ok ?v => exact v end).

Lemma flow_encodes_short : Encodes flow_row_model flow_value flow_short.
Proof.
  eapply (Encodes_intro _ _ _); [reflexivity|vm_compute; reflexivity|]. enc.
Qed.
Lemma flow_encodes_indexed : Encodes flow_row_model flow_value flow_indexed.
Proof.
  eapply (Encodes_intro _ _ _); [reflexivity|vm_compute; reflexivity|]. enc.
Qed.

Example flow_layout_independent_nonvacuous :
  Encodes flow_row_model flow_value flow_short /\ Encodes flow_row_model flow_value flow_indexed
  /\ flow_short <> flow_indexed /\ flow_parse flow_short = flow_parse flow_indexed.
Proof.
  split; [exact flow_encodes_short|]. split; [exact flow_encodes_indexed|]. split; [vm_compute; discriminate|].
  apply (layout_independent flow_row_model flow_value); [exact flow_encodes_short|exact flow_encodes_indexed].
Qed.

(* ================================================================== where layout DOES matter *)
(* class AB: a: str = ""; b: str = ""        class RAB: m: AB = AB() *)
Definition tAB : ty := TModel [(s!"a", (TStr, Some (VStr []))); (s!"b", (TStr, Some (VStr [])))] [] [].
Definition vAB0 : value := VModel [(s!"a", VStr []); (s!"b", VStr [])].
Definition rmAB : rowmodel := {| rm_ty := TModel [(s!"m", (tAB, Some vAB0))] [] []; rm_ctx := None |}.
Definition rowAB (a b : str) : value := VModel [(s!"m", VModel [(s!"a", VStr a); (s!"b", VStr b)])].

(* the record (a, b) spread over two columns / packed positionally in one cell *)
Definition ab_spread (a b : str) : list (str * str) := [(s!"m.a", a); (s!"m.b", b)].
Definition ab_positional (a b : str) : list (str * str) := [(s!"m", a ++ [sep0] ++ b)].

(* plain text: nothing the cell syntax or str.strip() reacts to *)
Definition plain (x : str) : bool :=
  negb (is_nil x) && forallb (fun c => negb (is_special c) && negb (is_ws c)
                                   && match cleanse_tmp with Some t => negb (c =? t) | None => true end) x.

(* the unrestricted claim: a two-field record may always be packed positionally *)
Definition positional_is_spread_full : Prop :=
  forall a b, plain a = true -> plain b = true ->
              parse_row rmAB (ab_positional a b) = parse_row rmAB (ab_spread a b).

(* FALSE of the faithful model: when the first value is the NAME of a field, the two-entry cell
   is read as ONE key;value pair (try_assign_as_kwarg on the whole value) *)
Theorem positional_is_spread_refuted : ~ positional_is_spread_full.
Proof.
  intros H. specialize (H s!"b" s!"x" eq_refl eq_refl). vm_compute in H. discriminate.
Qed.

(* what the two layouts give for the witness (replayed on the real RowParser by harness/c09.py) *)
Example positional_flip_witness :
  parse_row rmAB (ab_spread s!"b" s!"x") = Ok (rowAB s!"b" s!"x")
  /\ parse_row rmAB (ab_positional s!"b" s!"x") = Ok (rowAB [] s!"x").
Proof. split; vm_compute; reflexivity. Qed.

(* the same flip for ONE entry of a longer positional record: a list-valued positional argument
   whose first element is a field name.   class TN: tags: List[str] = []; n: str = "" *)
Definition tTN : ty := TModel [(s!"tags", (TList TStr, Some (VList []))); (s!"n", (TStr, Some (VStr [])))] [] [].
Definition rmTN : rowmodel :=
  {| rm_ty := TModel [(s!"m", (tTN, Some (VModel [(s!"tags", VList []); (s!"n", VStr [])])))] [] []; rm_ctx := None |}.
Definition rowTN (tags : list str) (n : str) : value :=
  VModel [(s!"m", VModel [(s!"tags", VList (map VStr tags)); (s!"n", VStr n)])].

Example positional_entry_flip_witness :
  parse_row rmTN [(s!"m.tags.1", s!"n"); (s!"m.tags.2", s!"x"); (s!"m.n", s!"foo")] = Ok (rowTN [s!"n"; s!"x"] s!"foo")
  /\ parse_row rmTN [(s!"m", s!"n;x|foo")] = Ok (rowTN [] s!"foo")
  /\ parse_row rmTN [(s!"m", s!"q;x|foo")] = Ok (rowTN [s!"q"; s!"x"] s!"foo").
Proof. repeat split; vm_compute; reflexivity. Qed.

(* ---- the positive half: positional = spread whenever the first value is not a field name ---- *)
Definition no_ws (x : str) : bool := forallb (fun c => negb (is_ws c)) x.

Lemma lstrip_no_ws x : no_ws x = true -> lstrip x = x.
Proof. destruct x as [|c r]; [reflexivity|]. cbn. intros H. apply andb_prop in H. destruct H as [H _]. destruct (is_ws c); [discriminate|reflexivity]. Qed.

Lemma rstrip_no_ws x : no_ws x = true -> rstrip x = x.
Proof.
  induction x as [|c r IH]; [reflexivity|]. cbn [no_ws forallb]. intros H. apply andb_prop in H. destruct H as [Hc Hr].
  cbn [rstrip]. rewrite (IH Hr). destruct r; [|reflexivity]. destruct (is_ws c); [discriminate|reflexivity].
Qed.

Lemma strip_no_ws x : no_ws x = true -> strip x = x.
Proof. intros H. unfold strip. rewrite (lstrip_no_ws x H). apply rstrip_no_ws, H. Qed.

Lemma escape_plain x : forallb (fun c => negb (is_special c)) x = true -> escape x = x.
Proof.
  induction x as [|c r IH]; [reflexivity|]. cbn [forallb]. intros H. apply andb_prop in H. destruct H as [Hc Hr].
  cbn [escape]. destruct (is_special c); [discriminate|]. rewrite (IH Hr). reflexivity.
Qed.

Lemma plain_parts x : plain x = true ->
  x <> [] /\ no_ws x = true /\ forallb (fun c => negb (is_special c)) x = true /\ str_ok x = true.
Proof.
  unfold plain, str_ok. intros H. apply andb_prop in H. destruct H as [Hne Hall].
  split; [destruct x; [discriminate|discriminate]|].
  clear Hne. induction x as [|c r IH]; [repeat split; destruct cleanse_tmp; reflexivity|].
  cbn [forallb] in Hall. apply andb_prop in Hall. destruct Hall as [Hc Hr].
  apply andb_prop in Hc. destruct Hc as [Hc H3]. apply andb_prop in Hc. destruct Hc as [H1 H2].
  destruct (IH Hr) as [I1 [I2 I3]]. cbn [no_ws forallb]. unfold no_ws in I1. rewrite I1, I2, H1, H2.
  destruct cleanse_tmp as [t|]; [|repeat split; reflexivity].
  cbn [mem_char]. apply negb_true_iff in H3. apply negb_true_iff in I3. rewrite H3, I3. repeat split; reflexivity.
Qed.

Lemma cell_parse_pair a b :
  plain a = true -> plain b = true -> cell_parse (a ++ [sep0] ++ b) = Lst [Str a; Str b].
Proof.
  intros Ha Hb. destruct (plain_parts a Ha) as [Ha0 [Ha1 [Ha2 Ha3]]]. destruct (plain_parts b Hb) as [Hb0 [Hb1 [Hb2 Hb3]]].
  assert (Hw : wfb (Lst [Str a; Str b]) = true).
  { cbn [wfb is_nil negb last_ok last nonblank forallb elem_ok andb]. rewrite Ha3, Hb3.
    destruct b; [congruence|reflexivity]. }
  destruct (list_roundtrip _ Hw) as [txt [Hj Hs]].
  assert (Hl : lastne [a; b]).
  { intros _. cbn [last]. exact Hb0. }
  change (Lst [Str a; Str b]) with (Lst (map Str [a; b])) in Hj.
  rewrite (join_strs 0 sep0 [a; b] eq_refl Hl) in Hj. cbn [map joinP join_char] in Hj.
  rewrite (escape_plain a Ha2), (escape_plain b Hb2) in Hj.
  injection Hj as <-. unfold cell_parse.
  assert (Hnw : no_ws (a ++ [sep0] ++ b) = true).
  { unfold no_ws. rewrite !forallb_app. unfold no_ws in Ha1, Hb1. rewrite Ha1, Hb1. cbn [forallb app]. rewrite ws_sep0. reflexivity. }
  rewrite (strip_no_ws _ Hnw). cbn [app] in *. rewrite Hs. cbn [trim map].
  rewrite (strip_no_ws a Ha1), (strip_no_ws b Hb1). reflexivity.
Qed.

Definition fieldsAB : list field := [(s!"a", (TStr, Some (VStr []))); (s!"b", (TStr, Some (VStr [])))].

Lemma encodes_ab_positional a b :
  plain a = true -> plain b = true -> has_field fieldsAB a = false ->
  Encodes rmAB (rowAB a b) (ab_positional a b).
Proof.
  intros Ha Hb Hnf.
  apply (Encodes_intro _ _ _ (ab_positional a b)); [reflexivity|reflexivity|].
  change (cols_of (ab_positional a b)) with [([s!"m"], Raw (a ++ [sep0] ++ b))].
  apply EncModelSpread; [discriminate|nodup|repeat constructor; vm_compute; discriminate|].
  apply FieldsCons; [|apply FieldsNil].
  change (sub_key [] s!"m" [([s!"m"], Raw (a ++ [sep0] ++ b))]) with [(@nil str, Raw (a ++ [sep0] ++ b))].
  apply EncCell. change (leaf_value tAB (Raw (a ++ [sep0] ++ b))) with (cell_parse (a ++ [sep0] ++ b)).
  rewrite (cell_parse_pair a b Ha Hb).
  apply (NvModelArgs fieldsAB [] [] (Lst [Str a; Str b]) [(s!"a", VStr a); (s!"b", VStr b)]).
  - nodup.
  - cbn [entries_of as_kwarg remap_get oget]. rewrite Hnf. reflexivity.
  - cbn [entries_of]. eapply ArgsPos; [reflexivity|reflexivity|apply NvStr|].
    eapply ArgsPos; [reflexivity|reflexivity|apply NvStr|]. apply ArgsNil.
  - nodup.
  - reflexivity.
Qed.

Lemma encodes_ab_spread a b :
  plain a = true -> plain b = true -> Encodes rmAB (rowAB a b) (ab_spread a b).
Proof.
  intros Ha Hb. destruct (plain_parts a Ha) as [_ [Ha1 _]]. destruct (plain_parts b Hb) as [_ [Hb1 _]].
  apply (Encodes_intro _ _ _ (ab_spread a b)); [reflexivity|reflexivity|].
  change (cols_of (ab_spread a b)) with [([s!"m"; s!"a"], Raw a); ([s!"m"; s!"b"], Raw b)].
  apply EncModelSpread; [discriminate|nodup|repeat constructor; vm_compute; discriminate|].
  apply FieldsCons; [|apply FieldsNil].
  change (sub_key [] s!"m" [([s!"m"; s!"a"], Raw a); ([s!"m"; s!"b"], Raw b)]) with [([s!"a"], Raw a); ([s!"b"], Raw b)].
  apply EncModelSpread; [discriminate|nodup|repeat constructor; vm_compute; discriminate|].
  apply FieldsCons; [|apply FieldsCons; [|apply FieldsNil]].
  - change (sub_key [] s!"a" [([s!"a"], Raw a); ([s!"b"], Raw b)]) with [(@nil str, Raw a)].
    apply EncCell. change (leaf_value TStr (Raw a)) with (Str (strip a)). rewrite (strip_no_ws a Ha1). apply NvStr.
  - change (sub_key [] s!"b" [([s!"a"], Raw a); ([s!"b"], Raw b)]) with [(@nil str, Raw b)].
    apply EncCell. change (leaf_value TStr (Raw b)) with (Str (strip b)). rewrite (strip_no_ws b Hb1). apply NvStr.
Qed.

(* for ALL plain texts a, b: the positional cell and the two spread columns parse alike — provided
   a is not the name of a field of the record *)
Theorem positional_is_spread_partial a b :
  plain a = true -> plain b = true -> has_field fieldsAB a = false ->
  parse_row rmAB (ab_positional a b) = parse_row rmAB (ab_spread a b).
Proof.
  intros Ha Hb Hnf.
  apply (layout_independent rmAB (rowAB a b)); [apply encodes_ab_positional|apply encodes_ab_spread]; assumption.
Qed.

Example positional_is_spread_nonvacuous :
  plain s!"c" = true /\ plain s!"x" = true /\ has_field fieldsAB s!"c" = false
  /\ parse_row rmAB (ab_positional s!"c" s!"x") = Ok (rowAB s!"c" s!"x").
Proof. repeat split; vm_compute; reflexivity. Qed.

(* ================================================================== `*` groups *)
(* class G: a: str = ""; b: str = ""; t: str = "d"     class RG: id: str = ""; p: List[G] = [] *)
Definition gfields : list field :=
  [(s!"a", (TStr, Some (VStr []))); (s!"b", (TStr, Some (VStr []))); (s!"t", (TStr, Some (VStr s!"d")))].
Definition rgfields : list field :=
  [(s!"id", (TStr, Some (VStr []))); (s!"p", (TList (TModel gfields [] []), Some (VList [])))].
Definition vG (a b t : string) : value := VModel [(s!"a", VStr (S_ a)); (s!"b", VStr (S_ b)); (s!"t", VStr (S_ t))].

(* longest list first, a SHORTER list later, then a cell holding one (non-default) value *)
Definition gcells : list starcell :=
  [ {| st_g := s!"a"; st_txt := s!"x|y|z" |}; {| st_g := s!"b"; st_txt := s!"u|v" |}; {| st_g := s!"t"; st_txt := s!"k" |} ].
Definition gvs : list value := [vG "x" "u" "k"; vG "y" "v" "k"; vG "z" "" "k"].
Definition gfs : list (str * value) := [(s!"id", VStr []); (s!"p", VList gvs)].

Example asterisk_broadcast_nonvacuous :
  star_data s!"p" gcells = [(s!"p.*.a", s!"x|y|z"); (s!"p.*.b", s!"u|v"); (s!"p.*.t", s!"k")]
  /\ group_len s!"p" gcells = 3%nat
  /\ parse_row {| rm_ty := TModel rgfields [] []; rm_ctx := None |} (star_data s!"p" gcells) = Ok (VModel gfs)
  /\ forall i f, (i < group_len s!"p" gcells)%nat -> In f gfields -> f_name f = s!"t" ->
                 exists efs v, nth i gvs (VStr []) = VModel efs /\ In (f_name f, v) efs /\ EncNv (f_ty f) v (Str s!"k").
Proof.
  split; [vm_compute; reflexivity|]. split; [vm_compute; reflexivity|].
  assert (H := asterisk_broadcast_row rgfields [] [] s!"p" gcells gfields [] [] gvs gfs
                 {| st_g := s!"t"; st_txt := s!"k" |} s!"k").
  cbv zeta in H.
  destruct H as [Hparse [_ Hb]].
  - reflexivity.
  - repeat constructor.
  - nodup.
  - nodup.
  - vm_compute. reflexivity.
  - nodup.
  - nodup.
  - vm_compute. intros sc [<-|[<-|[<-|[]]]]; vm_compute; discriminate.
  - vm_compute. reflexivity.
  - replace (group_len s!"p" gcells) with 3%nat by (vm_compute; reflexivity).
    intros i Hi. destruct i as [|[|[|i]]]; [| | |lia]; eexists; (split; [reflexivity|]);
      unfold star_elem_spec; vm_compute;
      repeat (apply Forall2_cons; [split; [reflexivity|first [reflexivity|apply NvStr]]|]); apply Forall2_nil.
  - unfold group_row_spec. vm_compute.
    repeat (apply Forall2_cons; [split; reflexivity|]). apply Forall2_nil.
  - right. right. left. reflexivity.
  - vm_compute. reflexivity.
  - split; [exact Hparse|]. intros i f Hi Hf Hname. apply (Hb i f Hi Hf). rewrite Hname. reflexivity.
Qed.

(* the same flip for the MIXED layout (one positional entry + one key;value pair): the two-entry
   cell `n|n;5` is read as the single pair  n = [n, 5].   class AN: a: str = ""; n: int = 0 *)
Definition tAN : ty := TModel [(s!"a", (TStr, Some (VStr []))); (s!"n", (TInt, Some (VInt 0)))] [] [].
Definition rmAN : rowmodel :=
  {| rm_ty := TModel [(s!"m", (tAN, Some (VModel [(s!"a", VStr []); (s!"n", VInt 0)])))] [] []; rm_ctx := None |}.

Example positional_mixed_flip_witness :
  parse_row rmAN [(s!"m.a", s!"n"); (s!"m.n", s!"5")] = Ok (VModel [(s!"m", VModel [(s!"a", VStr s!"n"); (s!"n", VInt 5)])])
  /\ parse_row rmAN [(s!"m", s!"n|n;5")] = Err EValue
  /\ parse_row rmAN [(s!"m", s!"q|n;5")] = Ok (VModel [(s!"m", VModel [(s!"a", VStr s!"q"); (s!"n", VInt 5)])]).
Proof. repeat split; vm_compute; reflexivity. Qed.

(* the short headers the property names, paired with the long forms their NAMES say
   (condition_X <-> edges.*.condition.X, ...): the regenerated table agrees *)
Definition named_short_headers : list (str * str) :=
  [(s!"from", s!"edges.*.from_"); (s!"condition", s!"edges.*.condition.value");
   (s!"condition_value", s!"edges.*.condition.value"); (s!"condition_var", s!"edges.*.condition.variable");
   (s!"condition_variable", s!"edges.*.condition.variable"); (s!"condition_type", s!"edges.*.condition.type");
   (s!"condition_name", s!"edges.*.condition.name"); (s!"_nodeId", s!"node_uuid"); (s!"_ui_type", s!"ui_type");
   (s!"_ui_position", s!"ui_position")].

Example named_short_headers_ok :
  forall short long, In (short, long) named_short_headers ->
    forall cells, ctx_h2f flow_ctx cells short = Ok long /\ ctx_h2f flow_ctx cells long = Ok long.
Proof.
  assert (H : forallb (fun sl => match oget str_eqb (cx_basic flow_cx) (fst sl) with
                                 | Some l => str_eqb l (snd sl) | None => false end) named_short_headers = true)
    by (vm_compute; reflexivity).
  rewrite forallb_forall in H. intros short long Hin cells. specialize (H _ Hin). cbn [fst snd] in H.
  destruct (oget str_eqb (cx_basic flow_cx) short) as [l|] eqn:E; [|discriminate].
  apply str_eqb_eq in H. subst l. apply short_long_headers. exact E.
Qed.

(* swapping two neighbouring columns of different fields *)
Example swap_columns_nonvacuous :
  let a := (s!"l.1", s!"1") in let b := (s!"es.1.a", s!"p") in
  let post := tl (tl cells_spread) in
  cells_spread = [] ++ a :: b :: post
  /\ NoDup (map fst ([] ++ a :: b :: post)) /\ star_free ([] ++ a :: b :: post) = true
  /\ top_key [] (fst a) <> top_key [] (fst b)
  /\ Encodes rmR vR ([] ++ a :: b :: post)
  /\ parse_row rmR ([] ++ b :: a :: post) = Ok vR.
Proof.
  cbv zeta. split; [reflexivity|]. split; [nodup|]. split; [vm_compute; reflexivity|].
  split; [vm_compute; discriminate|]. split; [exact encodes_spread|].
  apply encodes_parse.
  refine (proj1 (swap_columns rmR _ [] [] vR [] _ _ _ eq_refl eq_refl _ _ _ encodes_spread)).
  - nodup.
  - vm_compute. reflexivity.
  - vm_compute. discriminate.
Qed.

(* ---- the projection lemmas and the `*` lemmas have satisfiable hypotheses ---- *)
Definition fxy : list field := [(s!"x", (TStr, None)); (s!"y", (TStr, Some (VStr s!"d")))].
Definition cols_xy : list col := [([s!"y"], Raw s!"bar"); ([s!"x"], Raw s!"foo"); ([s!"y"], Raw s!"baz")].

Example fold_model_nonvacuous :
  heads_ok fxy [] cols_xy
  /\ (forall k ct, field_ty fxy k = Some ct ->
                   exists o, fold_slot ct (sub_key [] k cols_xy) (slot [] k) = Ok o)
  /\ foldM (fa (TModel fxy [] [])) cols_xy (ODict []) = Ok (ODict [(s!"y", OStr s!"baz"); (s!"x", OStr s!"foo")]).
Proof.
  split; [repeat constructor; vm_compute; discriminate|]. split; [|vm_compute; reflexivity].
  intros k ct H. unfold field_ty, fxy in H. cbn [field_lookup] in H.
  unfold cols_xy. cbn [sub_key remap_get oget].
  destruct (str_eqb s!"x" k) eqn:Ex; destruct (str_eqb s!"y" k) eqn:Ey.
  - apply str_eqb_eq in Ex. apply str_eqb_eq in Ey. subst k. vm_compute in Ey. discriminate.
  - injection H as <-. eexists. vm_compute. reflexivity.
  - injection H as <-. eexists. vm_compute. reflexivity.
  - discriminate.
Qed.

Definition cols_12 : list col := [([s!"1"], Raw s!"a"); ([s!"2"], Raw s!"b"); ([s!"1"], Raw s!"c")].

Example fold_list_nonvacuous :
  idx_scan (List.length (@nil out)) cols_12 = Some 2%nat
  /\ (forall i, (i < 2)%nat -> exists o, fold_slot (child_ty (TList TStr)) (sub_idx i cols_12) (nth i (@nil out) ONone) = Ok o)
  /\ foldM (fa (TList TStr)) cols_12 (OList []) = Ok (OList [OStr s!"c"; OStr s!"b"]).
Proof.
  split; [vm_compute; reflexivity|]. split; [|vm_compute; reflexivity].
  intros i Hi. destruct i as [|[|i]]; [| |lia]; eexists; vm_compute; reflexivity.
Qed.

Example group_len_order_nonvacuous :
  clean s!"p" = true /\ Permutation.Permutation gcells (rev gcells) /\ gcells <> rev gcells
  /\ group_len s!"p" gcells = 3%nat /\ group_len s!"p" (rev gcells) = 3%nat.
Proof.
  split; [reflexivity|]. split; [apply Permutation.Permutation_rev|]. split; [vm_compute; discriminate|].
  split; vm_compute; reflexivity.
Qed.

Example star_columns_enc_nonvacuous :
  let scs := star_scs 3 gcells in
  NoDup (map f_name gfields) /\ NoDup (map (star_key []) scs)
  /\ (forall sc, In sc scs -> field_ty gfields (star_key [] sc) <> None)
  /\ List.length gvs = star_n scs /\ (0 < star_n scs)%nat
  /\ (forall i, (i < star_n scs)%nat -> exists fs, nth i gvs (VStr []) = VModel fs /\ star_elem_spec gfields [] scs i fs)
  /\ Enc (TList (TModel gfields [] [])) None (VList gvs) (star_cols scs).
Proof.
  cbv zeta.
  assert (H1 : NoDup (map f_name gfields)) by nodup.
  assert (H2 : NoDup (map (star_key []) (star_scs 3 gcells))) by nodup.
  assert (H3 : forall sc, In sc (star_scs 3 gcells) -> field_ty gfields (star_key [] sc) <> None).
  { vm_compute. intros sc [<-|[<-|[<-|[]]]]; vm_compute; discriminate. }
  assert (H4 : List.length gvs = star_n (star_scs 3 gcells)) by (vm_compute; reflexivity).
  assert (H5 : (0 < star_n (star_scs 3 gcells))%nat) by (vm_compute; lia).
  assert (H6 : forall i, (i < star_n (star_scs 3 gcells))%nat ->
                 exists fs, nth i gvs (VStr []) = VModel fs /\ star_elem_spec gfields [] (star_scs 3 gcells) i fs).
  { replace (star_n (star_scs 3 gcells)) with 3%nat by (vm_compute; reflexivity).
    intros i Hi. destruct i as [|[|[|i]]]; [| | |lia]; eexists; (split; [reflexivity|]);
      unfold star_elem_spec; vm_compute;
      repeat (apply Forall2_cons; [split; [reflexivity|first [reflexivity|apply NvStr]]|]); apply Forall2_nil. }
  repeat (split; [assumption|]).
  apply star_columns_enc; assumption.
Qed.
