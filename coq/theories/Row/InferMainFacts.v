(* C18 — the headline theorem: for every well-formed schema of the family, of any nesting
   depth and size, the model inferred from the rendered headers is the model the schema
   denotes ([infer_headers_of]).  Proofs only; definitions that appear here are auxiliary
   descriptions of intermediate states of model_from_headers_rec (the two dictionaries after
   the first loop) and are not part of any statement in props/. *)
From Coq Require Import List NArith ZArith Bool Lia ZifyBool.
From RPFT Require Import Base.Sexp Base.PyStr Base.Result Base.ODict Gen.Tables
  Row.InferTy Row.Infer Row.InferFacts.
Import ListNotations.
Local Open Scope N_scope.

(* ------------------------------------------------------------------ a nested induction principle *)
Section StyInd.
  Variable P : sty -> Prop.
  Hypothesis Hleaf : forall p l, P (SLeaf p l).
  Hypothesis Hspread : forall es, Forall P es -> P (SSpread es).
  Hypothesis Hrec : forall fs, Forall (fun nt : str * sty => P (snd nt)) fs -> P (SRec fs).

  Fixpoint sty_ind' (s : sty) : P s :=
    match s with
    | SLeaf p l => Hleaf p l
    | SSpread es =>
      Hspread es ((fix go (l : list sty) : Forall P l :=
                     match l with
                     | [] => Forall_nil _
                     | e :: r => Forall_cons e (sty_ind' e) (go r)
                     end) es)
    | SRec fs =>
      Hrec fs ((fix go (l : list (str * sty)) : Forall (fun nt : str * sty => P (snd nt)) l :=
                  match l with
                  | [] => Forall_nil _
                  | nt :: r => Forall_cons nt (sty_ind' (snd nt)) (go r)
                  end) fs)
    end.
End StyInd.

(* ------------------------------------------------------------------ generic list / result facts *)
Lemma foldM_app {E S A} (f : A -> S -> result E A) l1 l2 a :
  foldM f (l1 ++ l2) a = match foldM f l1 a with Err e => Err e | Ok a' => foldM f l2 a' end.
Proof.
  revert a. induction l1 as [|x l1 IH]; intros a; cbn [app foldM]; [reflexivity|].
  destruct (f a x); [apply IH|reflexivity].
Qed.

Lemma str_in_In k l : str_in k l = true <-> In k l.
Proof.
  induction l as [|x l IH]; cbn; [split; [discriminate|tauto]|].
  rewrite orb_true_iff, IH, str_eqb_eq. tauto.
Qed.

Lemma nodup_names_NoDup l : nodup_names l = true -> NoDup l.
Proof.
  induction l as [|x l IH]; cbn; [constructor|]. rewrite andb_true_iff. intros [Hx Hl].
  constructor; [|apply IH, Hl]. intros Hin. apply str_in_In in Hin. rewrite Hin in Hx. discriminate.
Qed.

(* ------------------------------------------------------------------ string-keyed dictionaries *)
Lemma sget_none_notin {T} (d : sdict T) k : sget d k = None <-> ~ In k (map fst d).
Proof. apply (oget_none_notin str_eqb str_eqb_eq). Qed.

Lemma sset_new {T} (d : sdict T) k v : sget d k = None -> sset d k v = d ++ [(k, v)].
Proof.
  unfold sget, sset. induction d as [|[k' v'] r IH]; cbn; [reflexivity|].
  destruct (str_eqb k' k); [discriminate|]. intros H. rewrite (IH H). reflexivity.
Qed.

Lemma sget_app_none {T} (d l : sdict T) k : sget d k = None -> sget (d ++ l) k = sget l k.
Proof.
  unfold sget. induction d as [|[k' v'] r IH]; cbn; [reflexivity|].
  destruct (str_eqb k' k); [discriminate|]. exact IH.
Qed.

Lemma sset_app_none {T} (d l : sdict T) k v : sget d k = None -> sset (d ++ l) k v = d ++ sset l k v.
Proof.
  unfold sget, sset. induction d as [|[k' v'] r IH]; cbn; [reflexivity|].
  destruct (str_eqb k' k); [discriminate|]. intros H. rewrite (IH H). reflexivity.
Qed.

Lemma sget_snoc_other {T} (d : sdict T) k v x : x <> k -> sget d x = None -> sget (d ++ [(k, v)]) x = None.
Proof.
  intros Hne H. rewrite sget_app_none by exact H. unfold sget. cbn.
  destruct (str_eqb k x) eqn:E; [apply str_eqb_eq in E; congruence|reflexivity].
Qed.

(* ------------------------------------------------------------------ the first loop *)
Lemma name_ok_no_hs n : name_ok n = true -> no_char HS n = true.
Proof.
  unfold name_ok. intros H. apply andb_prop in H. destruct H as [H _].
  apply no_seps_proj in H. tauto.
Qed.

Lemma step_leaf F C p n l :
  pads_ok p = true -> leaf_ok l = true -> name_ok n = true ->
  step (F, C) (render_leaf p n l) = Ok (sset F n (denote_leaf l), C).
Proof.
  intros Hp Hl Hn. destruct (leaf_header p n l Hp Hl Hn) as (H1 & H2 & H3).
  unfold step. rewrite H1, H3, H2. reflexivity.
Qed.

Lemma step_dotted F C n sub :
  no_char HS n = true ->
  step (F, C) (prefix_field n sub)
  = Ok (F, sset C n ((match sget C n with Some l => l | None => [] end) ++ [sub])).
Proof.
  intros Hn. unfold step, prefix_field. rewrite split_first_app by exact Hn. reflexivity.
Qed.

Lemma fold_dotted_more F C n l hs :
  no_char HS n = true -> sget C n = None ->
  foldM step (map (prefix_field n) hs) (F, C ++ [(n, l)]) = Ok (F, C ++ [(n, l ++ hs)]).
Proof.
  intros Hn HC. revert l. induction hs as [|h hs IH]; intros l; cbn [map foldM].
  - rewrite app_nil_r. reflexivity.
  - rewrite step_dotted by exact Hn. rewrite sget_app_none by exact HC.
    rewrite sset_app_none by exact HC. unfold sget, sset. cbn [oget oset].
    rewrite str_eqb_refl. rewrite IH. rewrite <- app_assoc. reflexivity.
Qed.

Lemma fold_dotted F C n hs :
  no_char HS n = true -> sget C n = None -> hs <> [] ->
  foldM step (map (prefix_field n) hs) (F, C) = Ok (F, C ++ [(n, hs)]).
Proof.
  intros Hn HC Hne. destruct hs as [|h hs]; [congruence|]. cbn [map foldM].
  rewrite step_dotted by exact Hn. rewrite HC. rewrite sset_new by exact HC. cbn [app].
  apply (fold_dotted_more F C n [h] hs Hn HC).
Qed.

(* the headers of a dotted field are its sub-headers behind the field name *)
Lemma spread_go i es :
  (fix go (i : N) (es : list sty) : list str :=
     match es with
     | [] => []
     | e :: r => headers_of_field (str_of_N i) e ++ go (i + 1) r
     end) i es = headers_of_fields (numbered i es).
Proof.
  revert i. induction es as [|e r IH]; intros i; [reflexivity|].
  cbn [numbered]. unfold headers_of_fields. cbn [flat_map fst snd]. rewrite IH. reflexivity.
Qed.

Lemma headers_of_field_dotted n s :
  is_leafb s = false -> headers_of_field n s = map (prefix_field n) (subs s).
Proof.
  destruct s as [p l|es|fs]; cbn [is_leafb]; [discriminate| |]; intros _.
  - cbn [headers_of_field]. rewrite spread_go. reflexivity.
  - reflexivity.
Qed.

Lemma headers_of_fields_cons n s cs :
  headers_of_fields ((n, s) :: cs) = headers_of_field n s ++ headers_of_fields cs.
Proof. reflexivity. Qed.

(* every well-formed schema renders to at least one header *)
Lemma headers_of_field_nonempty s : wf_sty s = true -> forall n, headers_of_field n s <> [].
Proof.
  induction s as [p l|es IH|fs IH] using sty_ind'; intros Hwf n.
  - discriminate.
  - rewrite headers_of_field_dotted by reflexivity. cbn [wf_sty] in Hwf.
    apply andb_prop in Hwf. destruct Hwf as [Hwf Hall]. apply andb_prop in Hwf. destruct Hwf as [Hne _].
    destruct es as [|e r]; [discriminate|]. unfold subs. cbn [children numbered].
    rewrite headers_of_fields_cons. cbn [forallb] in Hall. apply andb_prop in Hall. destruct Hall as [He _].
    inversion IH as [|? ? IHe _]; subst. specialize (IHe He (str_of_N 1)).
    destruct (headers_of_field (str_of_N 1) e); [congruence|discriminate].
  - rewrite headers_of_field_dotted by reflexivity. cbn [wf_sty] in Hwf.
    apply andb_prop in Hwf. destruct Hwf as [Hwf Hall]. apply andb_prop in Hwf. destruct Hwf as [Hwf _].
    apply andb_prop in Hwf. destruct Hwf as [Hne _].
    destruct fs as [|[n0 s0] r]; [discriminate|]. unfold subs. cbn [children].
    rewrite headers_of_fields_cons. cbn [forallb snd] in Hall. apply andb_prop in Hall. destruct Hall as [He _].
    inversion IH as [|? ? IHe _]; subst. cbn [snd] in IHe. specialize (IHe He n0).
    destruct (headers_of_field n0 s0); [congruence|discriminate].
Qed.

Lemma subs_nonempty s : wf_sty s = true -> is_leafb s = false -> subs s <> [].
Proof.
  intros Hwf Hl Hs. apply (headers_of_field_nonempty s Hwf []).
  rewrite headers_of_field_dotted by exact Hl. rewrite Hs. reflexivity.
Qed.

(* the two dictionaries after the first loop *)
Definition leaf_part (cs : list (str * sty)) : sdict model :=
  flat_map (fun nt : str * sty =>
              match snd nt with SLeaf _ l => [(fst nt, denote_leaf l)] | _ => [] end) cs.
Definition cplx_part (cs : list (str * sty)) : sdict (list str) :=
  flat_map (fun nt : str * sty => if is_leafb (snd nt) then [] else [(fst nt, subs (snd nt))]) cs.
Definition cplx_models (cs : list (str * sty)) : sdict model :=
  flat_map (fun nt : str * sty => if is_leafb (snd nt) then [] else [(fst nt, denote_sty (snd nt))]) cs.

Definition child_ok (nt : str * sty) : Prop := name_ok (fst nt) = true /\ wf_sty (snd nt) = true.

Lemma fold_step_fields cs : Forall child_ok cs -> NoDup (map fst cs) ->
  forall F C,
    (forall x, In x (map fst cs) -> sget F x = None /\ sget C x = None) ->
    foldM step (headers_of_fields cs) (F, C) = Ok (F ++ leaf_part cs, C ++ cplx_part cs).
Proof.
  induction cs as [|[n s] cs IH]; intros Hok Hnd F C Hfresh.
  - cbn. rewrite !app_nil_r. reflexivity.
  - inversion Hok as [|? ? [Hn Hwf] Hok']; subst. cbn [fst snd] in Hn, Hwf.
    cbn [map fst] in Hnd. inversion Hnd as [|? ? Hnotin Hnd']; subst.
    destruct (Hfresh n (or_introl eq_refl)) as [HF HC].
    rewrite headers_of_fields_cons, foldM_app.
    destruct s as [p l|es|fs].
    + (* a plain column *)
      cbn [wf_sty] in Hwf. apply andb_prop in Hwf. destruct Hwf as [Hp Hl].
      cbn [headers_of_field foldM]. rewrite step_leaf by assumption.
      rewrite sset_new by exact HF. rewrite IH; [|exact Hok'|exact Hnd'|].
      * unfold leaf_part, cplx_part. cbn [flat_map snd fst is_leafb app].
        rewrite <- app_assoc. reflexivity.
      * intros x Hx. destruct (Hfresh x (or_intror Hx)) as [HFx HCx]. split; [|exact HCx].
        apply sget_snoc_other; [|exact HFx]. intros ->. contradiction.
    + rewrite headers_of_field_dotted by reflexivity.
      rewrite fold_dotted; [|apply name_ok_no_hs, Hn|exact HC|apply subs_nonempty; [exact Hwf|reflexivity]].
      rewrite IH; [|exact Hok'|exact Hnd'|].
      * unfold leaf_part, cplx_part. cbn [flat_map snd fst is_leafb app].
        rewrite <- app_assoc. reflexivity.
      * intros x Hx. destruct (Hfresh x (or_intror Hx)) as [HFx HCx]. split; [exact HFx|].
        apply sget_snoc_other; [|exact HCx]. intros ->. contradiction.
    + rewrite headers_of_field_dotted by reflexivity.
      rewrite fold_dotted; [|apply name_ok_no_hs, Hn|exact HC|apply subs_nonempty; [exact Hwf|reflexivity]].
      rewrite IH; [|exact Hok'|exact Hnd'|].
      * unfold leaf_part, cplx_part. cbn [flat_map snd fst is_leafb app].
        rewrite <- app_assoc. reflexivity.
      * intros x Hx. destruct (Hfresh x (or_intror Hx)) as [HFx HCx]. split; [exact HFx|].
        apply sget_snoc_other; [|exact HCx]. intros ->. contradiction.
Qed.

(* ------------------------------------------------------------------ the second loop *)
Definition child_step (f : nat) (fs : sdict model) (c : str * list str) : result ierr (sdict model) :=
  match infer_rec f (snd c) with
  | Err e => Err e
  | Ok m => Ok (sset fs (fst c) m)
  end.

Lemma fold_children f cs :
  (forall nt, In nt cs -> is_leafb (snd nt) = false -> infer_rec f (subs (snd nt)) = Ok (denote_sty (snd nt))) ->
  forall F,
    (forall nt, In nt cs -> is_leafb (snd nt) = false -> sget F (fst nt) = None) ->
    NoDup (map fst cs) ->
    foldM (child_step f) (cplx_part cs) F = Ok (F ++ cplx_models cs).
Proof.
  induction cs as [|[n s] cs IH]; intros Hrec F Hfresh Hnd.
  - cbn. rewrite app_nil_r. reflexivity.
  - cbn [map fst] in Hnd. inversion Hnd as [|? ? Hnotin Hnd']; subst.
    unfold cplx_part, cplx_models. cbn [flat_map fst snd].
    destruct (is_leafb s) eqn:El; cbn [app].
    + apply IH; [|intros nt Hin; apply Hfresh; right; exact Hin|exact Hnd'].
      intros nt Hin. apply Hrec. right. exact Hin.
    + cbn [foldM]. unfold child_step at 1. cbn [fst snd].
      pose proof (Hrec (n, s) (or_introl eq_refl) El) as Hr. cbn [snd] in Hr. rewrite Hr.
      pose proof (Hfresh (n, s) (or_introl eq_refl) El) as Hfr. cbn [fst] in Hfr.
      rewrite sset_new by exact Hfr.
      fold (cplx_part cs). fold (cplx_models cs).
      rewrite IH; [rewrite <- app_assoc; reflexivity| | |exact Hnd'].
      * intros nt Hin. apply Hrec. right. exact Hin.
      * intros nt Hin Hl. apply sget_snoc_other.
        -- intros E. apply Hnotin. rewrite <- E. apply in_map, Hin.
        -- apply Hfresh; [right; exact Hin|exact Hl].
Qed.

Lemma leaf_part_keys cs x : In x (map fst (leaf_part cs)) -> exists p l, In (x, SLeaf p l) cs.
Proof.
  induction cs as [|[n s] cs IH]; cbn; [tauto|].
  destruct s as [p l|es|fs]; cbn.
  - intros [<-|H]; [exists p, l; left; reflexivity|].
    destruct (IH H) as (p' & l' & Hin). exists p', l'. right. exact Hin.
  - intros H. destruct (IH H) as (p' & l' & Hin). exists p', l'. right. exact Hin.
  - intros H. destruct (IH H) as (p' & l' & Hin). exists p', l'. right. exact Hin.
Qed.

Lemma nodup_fst_functional {A B} (l : list (A * B)) k v1 v2 :
  NoDup (map fst l) -> In (k, v1) l -> In (k, v2) l -> v1 = v2.
Proof.
  induction l as [|[a b] l IH]; cbn; [tauto|]. intros Hnd H1 H2.
  inversion Hnd as [|? ? Hnotin Hnd']; subst.
  destruct H1 as [H1|H1], H2 as [H2|H2].
  - congruence.
  - inversion H1; subst. exfalso. apply Hnotin. change k with (fst (k, v2)). apply in_map, H2.
  - inversion H2; subst. exfalso. apply Hnotin. change k with (fst (k, v1)). apply in_map, H1.
  - apply IH; assumption.
Qed.

Lemma leaf_first_parts cs :
  leaf_first (map (fun nt : str * sty => (fst nt, is_leafb (snd nt), denote_sty (snd nt))) cs)
  = leaf_part cs ++ cplx_models cs.
Proof.
  unfold leaf_first. f_equal.
  - induction cs as [|[n s] cs IH]; [reflexivity|]. cbn [map filter fst snd].
    destruct s as [p l|es|fs]; cbn [is_leafb]; unfold leaf_part; cbn [flat_map fst snd app map];
      fold (leaf_part cs); rewrite <- IH; reflexivity.
  - induction cs as [|[n s] cs IH]; [reflexivity|]. cbn [map filter fst snd].
    destruct s as [p l|es|fs]; cbn [is_leafb negb]; unfold cplx_models; cbn [flat_map fst snd app map is_leafb];
      fold (cplx_models cs); rewrite <- IH; reflexivity.
Qed.

(* one level of model_from_headers_rec on the rendered headers of named children *)
Lemma infer_rec_level f cs :
  Forall child_ok cs -> NoDup (map fst cs) ->
  (forall nt, In nt cs -> is_leafb (snd nt) = false -> infer_rec f (subs (snd nt)) = Ok (denote_sty (snd nt))) ->
  infer_rec (S f) (headers_of_fields cs)
  = finish (leaf_first (map (fun nt : str * sty => (fst nt, is_leafb (snd nt), denote_sty (snd nt))) cs)).
Proof.
  intros Hok Hnd Hrec. cbn [infer_rec].
  assert (H0 : foldM step (headers_of_fields cs) ([], []) = Ok (leaf_part cs, cplx_part cs)).
  { apply (fold_step_fields cs Hok Hnd [] []). intros; split; reflexivity. }
  rewrite H0. clear H0. change (foldM _ (cplx_part cs) (leaf_part cs)) with (foldM (child_step f) (cplx_part cs) (leaf_part cs)).
  rewrite (fold_children f cs Hrec (leaf_part cs)); [rewrite leaf_first_parts; reflexivity| |exact Hnd].
  intros [n s] Hin Hl. cbn [fst snd] in *. apply sget_none_notin. intros Hk.
  destruct (leaf_part_keys cs n Hk) as (p & l & Hin').
  pose proof (nodup_fst_functional cs n _ _ Hnd Hin Hin') as E. subst s. discriminate.
Qed.
