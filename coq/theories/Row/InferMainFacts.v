(* C18 — the headline theorem: for every well-formed schema of the family, of any nesting
   depth and size, the model inferred from the rendered headers is the model the schema
   denotes ([infer_headers_of]).  Proofs only; definitions that appear here are auxiliary
   descriptions of intermediate states of model_from_headers_rec (the two dictionaries after
   the first loop) and are not part of any statement in props/. *)
From Coq Require Import List NArith ZArith Bool Lia ZifyBool.
From RPFT Require Import Base.Sexp Base.PyStr Base.Result Base.ODict Gen.Tables
  Row.InferTy Row.Infer Row.InferFacts.
Import ListNotations.
Local Open Scope N_scope.

(* ------------------------------------------------------------------ a nested induction principle *)
Section StyInd.
  Variable P : sty -> Prop.
  Hypothesis Hleaf : forall p l, P (SLeaf p l).
  Hypothesis Hspread : forall es, Forall P es -> P (SSpread es).
  Hypothesis Hrec : forall fs, Forall (fun nt : str * sty => P (snd nt)) fs -> P (SRec fs).

  Fixpoint sty_ind' (s : sty) : P s :=
    match s with
    | SLeaf p l => Hleaf p l
    | SSpread es =>
      Hspread es ((fix go (l : list sty) : Forall P l :=
                     match l with
                     | [] => Forall_nil _
                     | e :: r => Forall_cons e (sty_ind' e) (go r)
                     end) es)
    | SRec fs =>
      Hrec fs ((fix go (l : list (str * sty)) : Forall (fun nt : str * sty => P (snd nt)) l :=
                  match l with
                  | [] => Forall_nil _
                  | nt :: r => Forall_cons nt (sty_ind' (snd nt)) (go r)
                  end) fs)
    end.
End StyInd.

(* ------------------------------------------------------------------ generic list / result facts *)
Lemma foldM_app {E S A} (f : A -> S -> result E A) l1 l2 a :
  foldM f (l1 ++ l2) a = match foldM f l1 a with Err e => Err e | Ok a' => foldM f l2 a' end.
Proof.
  revert a. induction l1 as [|x l1 IH]; intros a; cbn [app foldM]; [reflexivity|].
  destruct (f a x); [apply IH|reflexivity].
Qed.

Lemma str_in_In k l : str_in k l = true <-> In k l.
Proof.
  induction l as [|x l IH]; cbn; [split; [discriminate|tauto]|].
  rewrite orb_true_iff, IH, str_eqb_eq. tauto.
Qed.

Lemma nodup_names_NoDup l : nodup_names l = true -> NoDup l.
Proof.
  induction l as [|x l IH]; cbn; [constructor|]. rewrite andb_true_iff. intros [Hx Hl].
  constructor; [|apply IH, Hl]. intros Hin. apply str_in_In in Hin. rewrite Hin in Hx. discriminate.
Qed.

(* ------------------------------------------------------------------ string-keyed dictionaries *)
Lemma sget_none_notin {T} (d : sdict T) k : sget d k = None <-> ~ In k (map fst d).
Proof. apply (oget_none_notin str_eqb str_eqb_eq). Qed.

Lemma sset_new {T} (d : sdict T) k v : sget d k = None -> sset d k v = d ++ [(k, v)].
Proof.
  unfold sget, sset. induction d as [|[k' v'] r IH]; cbn; [reflexivity|].
  destruct (str_eqb k' k); [discriminate|]. intros H. rewrite (IH H). reflexivity.
Qed.

Lemma sget_app_none {T} (d l : sdict T) k : sget d k = None -> sget (d ++ l) k = sget l k.
Proof.
  unfold sget. induction d as [|[k' v'] r IH]; cbn; [reflexivity|].
  destruct (str_eqb k' k); [discriminate|]. exact IH.
Qed.

Lemma sset_app_none {T} (d l : sdict T) k v : sget d k = None -> sset (d ++ l) k v = d ++ sset l k v.
Proof.
  unfold sget, sset. induction d as [|[k' v'] r IH]; cbn; [reflexivity|].
  destruct (str_eqb k' k); [discriminate|]. intros H. rewrite (IH H). reflexivity.
Qed.

Lemma sget_snoc_other {T} (d : sdict T) k v x : x <> k -> sget d x = None -> sget (d ++ [(k, v)]) x = None.
Proof.
  intros Hne H. rewrite sget_app_none by exact H. unfold sget. cbn.
  destruct (str_eqb k x) eqn:E; [apply str_eqb_eq in E; congruence|reflexivity].
Qed.

(* ------------------------------------------------------------------ both behaviours, both families
   [bn]: where the header separator is looked for (Infer.is_nested); [lok]: what is asked of a
   plain column.  Either the separator is looked for in the field name only, or a written
   default has no header separator. *)
Section Behaviour.
Variable bn : bool.
Variable lok : leaf -> bool.
Hypothesis lok_full : forall l, lok l = true -> leaf_ok_full l = true.
Hypothesis lok_nested : forall l, lok l = true -> bn = true \/ leaf_ok l = true.
Notation step := (step_at bn).
Notation infer_rec := (infer_rec_at bn).
Notation infer := (infer_at bn).
Notation wf_sty := (wf_sty_gen lok).
Notation wf_schema := (wf_schema_gen lok).

(* ------------------------------------------------------------------ the first loop *)
Lemma name_ok_no_hs n : name_ok n = true -> no_seps n = true.
Proof. unfold name_ok. intros H. apply andb_prop in H. tauto. Qed.

Lemma step_leaf F C p n l :
  pads_ok p = true -> lok l = true -> name_ok n = true ->
  step (F, C) (render_leaf p n l) = Ok (sset F n (denote_leaf l), C).
Proof.
  intros Hp Hl Hn.
  destruct (leaf_header p n l bn Hp (lok_full l Hl) Hn (lok_nested l Hl)) as (H1 & H2 & H3).
  unfold step_at. rewrite H1, H3, H2. reflexivity.
Qed.

Lemma step_dotted F C n sub :
  no_seps n = true ->
  step (F, C) (prefix_field n sub)
  = Ok (F, sset C n ((match sget C n with Some l => l | None => [] end) ++ [sub])).
Proof.
  intros Hn. unfold step_at. rewrite hsplit_prefixed by exact Hn. reflexivity.
Qed.

Lemma fold_dotted_more F C n l hs :
  no_seps n = true -> sget C n = None ->
  foldM step (map (prefix_field n) hs) (F, C ++ [(n, l)]) = Ok (F, C ++ [(n, l ++ hs)]).
Proof.
  intros Hn HC. revert l. induction hs as [|h hs IH]; intros l; cbn [map foldM].
  - rewrite app_nil_r. reflexivity.
  - rewrite step_dotted by exact Hn. rewrite sget_app_none by exact HC.
    rewrite sset_app_none by exact HC. unfold sget, sset. cbn [oget oset].
    rewrite str_eqb_refl. rewrite IH. rewrite <- app_assoc. reflexivity.
Qed.

Lemma fold_dotted F C n hs :
  no_seps n = true -> sget C n = None -> hs <> [] ->
  foldM step (map (prefix_field n) hs) (F, C) = Ok (F, C ++ [(n, hs)]).
Proof.
  intros Hn HC Hne. destruct hs as [|h hs]; [congruence|]. cbn [map foldM].
  rewrite step_dotted by exact Hn. rewrite HC. rewrite sset_new by exact HC. cbn [app].
  apply (fold_dotted_more F C n [h] hs Hn HC).
Qed.

(* the headers of a dotted field are its sub-headers behind the field name *)
Lemma spread_go i es :
  (fix go (i : N) (es : list sty) : list str :=
     match es with
     | [] => []
     | e :: r => headers_of_field (str_of_N i) e ++ go (i + 1) r
     end) i es = headers_of_fields (numbered i es).
Proof.
  revert i. induction es as [|e r IH]; intros i; [reflexivity|].
  cbn [numbered]. unfold headers_of_fields. cbn [flat_map fst snd]. rewrite IH. reflexivity.
Qed.

Lemma headers_of_field_dotted n s :
  is_leafb s = false -> headers_of_field n s = map (prefix_field n) (subs s).
Proof.
  destruct s as [p l|es|fs]; cbn [is_leafb]; [discriminate| |]; intros _.
  - cbn [headers_of_field]. rewrite spread_go. reflexivity.
  - reflexivity.
Qed.

Lemma headers_of_fields_cons n s cs :
  headers_of_fields ((n, s) :: cs) = headers_of_field n s ++ headers_of_fields cs.
Proof. reflexivity. Qed.

(* every well-formed schema renders to at least one header *)
Lemma headers_of_field_nonempty s : wf_sty s = true -> forall n, headers_of_field n s <> [].
Proof.
  induction s as [p l|es IH|fs IH] using sty_ind'; intros Hwf n.
  - discriminate.
  - rewrite headers_of_field_dotted by reflexivity. cbn [wf_sty_gen] in Hwf.
    apply andb_prop in Hwf. destruct Hwf as [Hwf Hall]. apply andb_prop in Hwf. destruct Hwf as [Hne _].
    destruct es as [|e r]; [discriminate|]. unfold subs. cbn [children numbered].
    rewrite headers_of_fields_cons. cbn [forallb] in Hall. apply andb_prop in Hall. destruct Hall as [He _].
    inversion IH as [|? ? IHe _]; subst. specialize (IHe He (str_of_N 1)).
    destruct (headers_of_field (str_of_N 1) e); [congruence|discriminate].
  - rewrite headers_of_field_dotted by reflexivity. cbn [wf_sty_gen] in Hwf.
    apply andb_prop in Hwf. destruct Hwf as [Hwf Hall]. apply andb_prop in Hwf. destruct Hwf as [Hwf _].
    apply andb_prop in Hwf. destruct Hwf as [Hne _].
    destruct fs as [|[n0 s0] r]; [discriminate|]. unfold subs. cbn [children].
    rewrite headers_of_fields_cons. cbn [forallb snd] in Hall. apply andb_prop in Hall. destruct Hall as [He _].
    inversion IH as [|? ? IHe _]; subst. cbn [snd] in IHe. specialize (IHe He n0).
    destruct (headers_of_field n0 s0); [congruence|discriminate].
Qed.

Lemma subs_nonempty s : wf_sty s = true -> is_leafb s = false -> subs s <> [].
Proof.
  intros Hwf Hl Hs. apply (headers_of_field_nonempty s Hwf []).
  rewrite headers_of_field_dotted by exact Hl. rewrite Hs. reflexivity.
Qed.

(* the two dictionaries after the first loop *)
Definition leaf_part (cs : list (str * sty)) : sdict model :=
  flat_map (fun nt : str * sty =>
              match snd nt with SLeaf _ l => [(fst nt, denote_leaf l)] | _ => [] end) cs.
Definition cplx_part (cs : list (str * sty)) : sdict (list str) :=
  flat_map (fun nt : str * sty => if is_leafb (snd nt) then [] else [(fst nt, subs (snd nt))]) cs.
Definition cplx_models (cs : list (str * sty)) : sdict model :=
  flat_map (fun nt : str * sty => if is_leafb (snd nt) then [] else [(fst nt, denote_sty (snd nt))]) cs.

Definition child_ok (nt : str * sty) : Prop := name_ok (fst nt) = true /\ wf_sty (snd nt) = true.

Lemma fold_step_fields cs : Forall child_ok cs -> NoDup (map fst cs) ->
  forall F C,
    (forall x, In x (map fst cs) -> sget F x = None /\ sget C x = None) ->
    foldM step (headers_of_fields cs) (F, C) = Ok (F ++ leaf_part cs, C ++ cplx_part cs).
Proof.
  induction cs as [|[n s] cs IH]; intros Hok Hnd F C Hfresh.
  - cbn. rewrite !app_nil_r. reflexivity.
  - inversion Hok as [|? ? [Hn Hwf] Hok']; subst. cbn [fst snd] in Hn, Hwf.
    cbn [map fst] in Hnd. inversion Hnd as [|? ? Hnotin Hnd']; subst.
    destruct (Hfresh n (or_introl eq_refl)) as [HF HC].
    rewrite headers_of_fields_cons, foldM_app.
    destruct s as [p l|es|fs].
    + (* a plain column *)
      cbn [wf_sty_gen] in Hwf. apply andb_prop in Hwf. destruct Hwf as [Hp Hl].
      cbn [headers_of_field foldM]. rewrite step_leaf by assumption.
      rewrite sset_new by exact HF. rewrite IH; [|exact Hok'|exact Hnd'|].
      * unfold leaf_part, cplx_part. cbn [flat_map snd fst is_leafb app].
        rewrite <- app_assoc. reflexivity.
      * intros x Hx. destruct (Hfresh x (or_intror Hx)) as [HFx HCx]. split; [|exact HCx].
        apply sget_snoc_other; [|exact HFx]. intros ->. contradiction.
    + rewrite headers_of_field_dotted by reflexivity.
      rewrite fold_dotted; [|apply name_ok_no_hs, Hn|exact HC|apply subs_nonempty; [exact Hwf|reflexivity]].
      rewrite IH; [|exact Hok'|exact Hnd'|].
      * unfold leaf_part, cplx_part. cbn [flat_map snd fst is_leafb app].
        rewrite <- app_assoc. reflexivity.
      * intros x Hx. destruct (Hfresh x (or_intror Hx)) as [HFx HCx]. split; [exact HFx|].
        apply sget_snoc_other; [|exact HCx]. intros ->. contradiction.
    + rewrite headers_of_field_dotted by reflexivity.
      rewrite fold_dotted; [|apply name_ok_no_hs, Hn|exact HC|apply subs_nonempty; [exact Hwf|reflexivity]].
      rewrite IH; [|exact Hok'|exact Hnd'|].
      * unfold leaf_part, cplx_part. cbn [flat_map snd fst is_leafb app].
        rewrite <- app_assoc. reflexivity.
      * intros x Hx. destruct (Hfresh x (or_intror Hx)) as [HFx HCx]. split; [exact HFx|].
        apply sget_snoc_other; [|exact HCx]. intros ->. contradiction.
Qed.

(* ------------------------------------------------------------------ the second loop *)
Definition child_step (f : nat) (fs : sdict model) (c : str * list str) : result ierr (sdict model) :=
  match infer_rec f (snd c) with
  | Err e => Err e
  | Ok m => Ok (sset fs (fst c) m)
  end.

Lemma fold_children f cs :
  (forall nt, In nt cs -> is_leafb (snd nt) = false -> infer_rec f (subs (snd nt)) = Ok (denote_sty (snd nt))) ->
  forall F,
    (forall nt, In nt cs -> is_leafb (snd nt) = false -> sget F (fst nt) = None) ->
    NoDup (map fst cs) ->
    foldM (child_step f) (cplx_part cs) F = Ok (F ++ cplx_models cs).
Proof.
  induction cs as [|[n s] cs IH]; intros Hrec F Hfresh Hnd.
  - cbn. rewrite app_nil_r. reflexivity.
  - cbn [map fst] in Hnd. inversion Hnd as [|? ? Hnotin Hnd']; subst.
    unfold cplx_part, cplx_models. cbn [flat_map fst snd].
    destruct (is_leafb s) eqn:El; cbn [app].
    + apply IH; [|intros nt Hin; apply Hfresh; right; exact Hin|exact Hnd'].
      intros nt Hin. apply Hrec. right. exact Hin.
    + cbn [foldM]. unfold child_step at 1. cbn [fst snd].
      pose proof (Hrec (n, s) (or_introl eq_refl) El) as Hr. cbn [snd] in Hr. rewrite Hr.
      pose proof (Hfresh (n, s) (or_introl eq_refl) El) as Hfr. cbn [fst] in Hfr.
      rewrite sset_new by exact Hfr.
      fold (cplx_part cs). fold (cplx_models cs).
      rewrite IH; [rewrite <- app_assoc; reflexivity| | |exact Hnd'].
      * intros nt Hin. apply Hrec. right. exact Hin.
      * intros nt Hin Hl. apply sget_snoc_other.
        -- intros E. apply Hnotin. rewrite <- E. apply in_map, Hin.
        -- apply Hfresh; [right; exact Hin|exact Hl].
Qed.

Lemma leaf_part_keys cs x : In x (map fst (leaf_part cs)) -> exists p l, In (x, SLeaf p l) cs.
Proof.
  induction cs as [|[n s] cs IH]; cbn; [tauto|].
  destruct s as [p l|es|fs]; cbn.
  - intros [<-|H]; [exists p, l; left; reflexivity|].
    destruct (IH H) as (p' & l' & Hin). exists p', l'. right. exact Hin.
  - intros H. destruct (IH H) as (p' & l' & Hin). exists p', l'. right. exact Hin.
  - intros H. destruct (IH H) as (p' & l' & Hin). exists p', l'. right. exact Hin.
Qed.

Lemma nodup_fst_functional {A B} (l : list (A * B)) k v1 v2 :
  NoDup (map fst l) -> In (k, v1) l -> In (k, v2) l -> v1 = v2.
Proof.
  induction l as [|[a b] l IH]; cbn; [tauto|]. intros Hnd H1 H2.
  inversion Hnd as [|? ? Hnotin Hnd']; subst.
  destruct H1 as [H1|H1], H2 as [H2|H2].
  - congruence.
  - inversion H1; subst. exfalso. apply Hnotin. change k with (fst (k, v2)). apply in_map, H2.
  - inversion H2; subst. exfalso. apply Hnotin. change k with (fst (k, v1)). apply in_map, H1.
  - apply IH; assumption.
Qed.

Lemma leaf_first_parts cs :
  leaf_first (map (fun nt : str * sty => (fst nt, is_leafb (snd nt), denote_sty (snd nt))) cs)
  = leaf_part cs ++ cplx_models cs.
Proof.
  unfold leaf_first. f_equal.
  - induction cs as [|[n s] cs IH]; [reflexivity|]. cbn [map filter fst snd].
    destruct s as [p l|es|fs]; cbn [is_leafb]; unfold leaf_part; cbn [flat_map fst snd app map];
      fold (leaf_part cs); rewrite <- IH; reflexivity.
  - induction cs as [|[n s] cs IH]; [reflexivity|]. cbn [map filter fst snd].
    destruct s as [p l|es|fs]; cbn [is_leafb negb]; unfold cplx_models; cbn [flat_map fst snd app map is_leafb];
      fold (cplx_models cs); rewrite <- IH; reflexivity.
Qed.

(* one level of model_from_headers_rec on the rendered headers of named children *)
Lemma infer_rec_level f cs :
  Forall child_ok cs -> NoDup (map fst cs) ->
  (forall nt, In nt cs -> is_leafb (snd nt) = false -> infer_rec f (subs (snd nt)) = Ok (denote_sty (snd nt))) ->
  infer_rec (S f) (headers_of_fields cs)
  = finish (leaf_first (map (fun nt : str * sty => (fst nt, is_leafb (snd nt), denote_sty (snd nt))) cs)).
Proof.
  intros Hok Hnd Hrec. cbn [infer_rec_at].
  assert (H0 : foldM step (headers_of_fields cs) ([], []) = Ok (leaf_part cs, cplx_part cs)).
  { apply (fold_step_fields cs Hok Hnd [] []). intros; split; reflexivity. }
  rewrite H0. clear H0. change (foldM _ (cplx_part cs) (leaf_part cs)) with (foldM (child_step f) (cplx_part cs) (leaf_part cs)).
  rewrite (fold_children f cs Hrec (leaf_part cs)); [rewrite leaf_first_parts; reflexivity| |exact Hnd].
  intros [n s] Hin Hl. cbn [fst snd] in *. apply sget_none_notin. intros Hk.
  destruct (leaf_part_keys cs n Hk) as (p & l & Hin').
  pose proof (nodup_fst_functional cs n _ _ Hnd Hin Hin') as E. subst s. discriminate.
Qed.

(* ------------------------------------------------------------------ finish: a class *)
Lemma int_entries_nil F : (forall k, In k (map fst F) -> py_int k = None) -> int_entries F = [].
Proof.
  induction F as [|[k m] F IH]; intros H; [reflexivity|]. cbn [int_entries].
  rewrite (H k) by (left; reflexivity). apply IH. intros k' Hk'. apply H. right. exact Hk'.
Qed.

Lemma default_of_fields_map F :
  default_of_fields F = map (fun f : str * model => (fst f, snd (snd f))) F.
Proof. induction F as [|[k [t d]] F IH]; [reflexivity|]. cbn. rewrite IH. reflexivity. Qed.

Lemma finish_rec F : (forall k, In k (map fst F) -> py_int k = None) -> finish F = Ok (rec_model F).
Proof.
  intros H. unfold finish. rewrite (int_entries_nil F H). cbn [rev].
  rewrite default_of_fields_map. reflexivity.
Qed.

Lemma leaf_first_keys {T} (l : list (str * bool * T)) k :
  In k (map fst (leaf_first l)) -> In k (map (fun x => fst (fst x)) l).
Proof.
  unfold leaf_first. rewrite map_app, in_app_iff, !map_map. cbn [fst].
  intros [H|H]; apply in_map_iff in H; destruct H as (x & <- & Hx); apply filter_In in Hx;
    apply in_map_iff; exists x; tauto.
Qed.

(* ------------------------------------------------------------------ finish: an index-spread list *)
Fixpoint zfrom {T} (z : Z) (ms : list T) : list (Z * T) :=
  match ms with
  | [] => []
  | m :: r => (z, m) :: zfrom (z + 1)%Z r
  end.

Lemma int_entries_numbered (g : sty -> model) i es :
  int_entries (map (fun nt : str * sty => (fst nt, g (snd nt))) (numbered i es))
  = zfrom (Z.of_N i - 1)%Z (map g es).
Proof.
  revert i. induction es as [|e r IH]; intros i; [reflexivity|].
  cbn [numbered map int_entries fst snd zfrom]. rewrite py_int_str_of_N. f_equal.
  rewrite IH. f_equal. lia.
Qed.

Lemma filter_all {A} (f : A -> bool) l : forallb f l = true -> filter f l = l.
Proof.
  induction l as [|x l IH]; cbn; [reflexivity|]. rewrite andb_true_iff. intros [Hx Hl].
  rewrite Hx, (IH Hl). reflexivity.
Qed.

Lemma filter_none {A} (f : A -> bool) l : forallb (fun x => negb (f x)) l = true -> filter f l = [].
Proof.
  induction l as [|x l IH]; cbn; [reflexivity|]. rewrite andb_true_iff. intros [Hx Hl].
  apply negb_true_iff in Hx. rewrite Hx. apply IH, Hl.
Qed.

Lemma forallb_ext' {A} (f g : A -> bool) l : (forall x, f x = g x) -> forallb f l = forallb g l.
Proof. intros H. induction l as [|x l IH]; cbn; [reflexivity|]. rewrite H, IH. reflexivity. Qed.

Lemma leaf_first_homog {T} (l : list (str * bool * T)) :
  forallb (fun x => snd (fst x)) l = true \/ forallb (fun x => negb (snd (fst x))) l = true ->
  leaf_first l = map (fun x => (fst (fst x), snd x)) l.
Proof.
  unfold leaf_first. intros [H|H].
  - rewrite (filter_all _ l H). rewrite (filter_none (fun x => negb (snd (fst x))) l).
    + apply app_nil_r.
    + rewrite <- H. apply forallb_ext'. intros x. apply negb_involutive.
  - rewrite (filter_none _ l H). rewrite (filter_all _ l H). reflexivity.
Qed.

Lemma forallb_map' {A B} (f : B -> bool) (g : A -> B) l : forallb f (map g l) = forallb (fun x => f (g x)) l.
Proof. induction l as [|x l IH]; cbn; [reflexivity|]. rewrite IH. reflexivity. Qed.

Lemma spread_leaf_first i es :
  forallb is_leafb es = true \/ forallb (fun e => negb (is_leafb e)) es = true ->
  leaf_first (map (fun nt : str * sty => (fst nt, is_leafb (snd nt), denote_sty (snd nt))) (numbered i es))
  = map (fun nt : str * sty => (fst nt, denote_sty (snd nt))) (numbered i es).
Proof.
  intros H. rewrite leaf_first_homog.
  - rewrite map_map. reflexivity.
  - rewrite !forallb_map'. cbn [fst snd]. destruct H as [H|H]; [left|right]; revert i;
      induction es as [|e r IH]; intros i; try reflexivity; cbn [numbered forallb snd] in *;
      apply andb_prop in H; destruct H as [He Hr]; rewrite He; cbn [andb]; apply IH, Hr.
Qed.

Lemma last_zfrom {T} (ms : list T) z z0 m0 : snd (last (zfrom z ms) (z0, m0)) = last ms m0.
Proof.
  revert z. induction ms as [|m r IH]; intros z; [reflexivity|].
  destruct r as [|m' r']; [reflexivity|].
  change (zfrom z (m :: m' :: r')) with ((z, m) :: zfrom (z + 1)%Z (m' :: r')).
  change (last ((z, m) :: zfrom (z + 1)%Z (m' :: r')) (z0, m0))
    with (last (zfrom (z + 1)%Z (m' :: r')) (z0, m0)).
  rewrite IH. reflexivity.
Qed.

Lemma rev_head_last {A} (l : list A) a r d : rev l = a :: r -> last l d = a.
Proof.
  intros H. apply (f_equal (@rev A)) in H. rewrite rev_involutive in H. subst l.
  cbn [rev]. apply last_last.
Qed.

Lemma zoset_new {V} (D : list (Z * V)) k v : ~ In k (map fst D) -> oset Z.eqb D k v = D ++ [(k, v)].
Proof.
  induction D as [|[k' v'] D IH]; cbn; [reflexivity|]. intros H.
  destruct (Z.eqb k' k) eqn:E; [apply Z.eqb_eq in E; tauto|]. rewrite IH by tauto. reflexivity.
Qed.

Lemma fold_defaults ms : forall z (D : list (Z * dv)),
  (forall k, In k (map fst D) -> (k < z)%Z) ->
  fold_left (fun d (e : Z * model) => oset Z.eqb d (fst e) (snd (snd e))) (zfrom z ms) D
  = D ++ zfrom z (map snd ms).
Proof.
  induction ms as [|m r IH]; intros z D HD; cbn [zfrom map fold_left]; [rewrite app_nil_r; reflexivity|].
  cbn [fst snd]. rewrite zoset_new by (intros Hin; specialize (HD z Hin); lia).
  rewrite IH; [rewrite <- app_assoc; reflexivity|].
  intros k Hk. rewrite map_app, in_app_iff in Hk. destruct Hk as [Hk|[Hk|[]]].
  - specialize (HD k Hk). lia.
  - cbn in Hk. lia.
Qed.

Lemma max_fold_zfrom (r : list dv) : forall z k, k = (z - 1)%Z ->
  fold_left (fun m (kv : Z * dv) => Z.max m (fst kv)) (zfrom z r) k = (z - 1 + Z.of_nat (length r))%Z.
Proof.
  induction r as [|d r IH]; intros z k Hk; cbn [zfrom fold_left length fst]; [lia|].
  rewrite (IH (z + 1)%Z); lia.
Qed.

Lemma set_nth_app {T} (pre : list T) x rest v : set_nth (length pre) (pre ++ x :: rest) v = pre ++ v :: rest.
Proof. induction pre as [|a pre IH]; cbn; [reflexivity|]. rewrite IH. reflexivity. Qed.

Lemma setitems ds : forall pre,
  foldM (fun out (kv : Z * dv) => py_setitem out (fst kv) (snd kv))
        (zfrom (Z.of_nat (length pre)) ds) (pre ++ repeat VNone (length ds))
  = Ok (pre ++ ds).
Proof.
  induction ds as [|d r IH]; intros pre; cbn [zfrom foldM length repeat fst snd]; [reflexivity|].
  unfold py_setitem. rewrite app_length. cbn [length].
  destruct (Z.of_nat (length pre) <? 0)%Z eqn:E1; [lia|].
  destruct ((Z.of_nat (length pre) <? 0)%Z || (Z.of_nat (length pre + S (length (repeat VNone (length r)))) <=? Z.of_nat (length pre))%Z) eqn:E2; [lia|].
  rewrite Nat2Z.id, set_nth_app.
  replace (Z.of_nat (length pre) + 1)%Z with (Z.of_nat (length (pre ++ [d]))) by (rewrite app_length; cbn [length]; lia).
  replace (pre ++ d :: repeat VNone (length r)) with ((pre ++ [d]) ++ repeat VNone (length r))
    by (rewrite <- app_assoc; reflexivity).
  rewrite IH. rewrite <- app_assoc. reflexivity.
Qed.

Lemma dict_to_list_zfrom ds : ds <> [] -> dict_to_list (zfrom 0%Z ds) = Ok ds.
Proof.
  destruct ds as [|d r]; [congruence|]. intros _. unfold dict_to_list.
  cbn [zfrom max_key]. rewrite (max_fold_zfrom r (0 + 1)%Z 0%Z) by lia.
  replace (Z.to_nat (0 + 1 - 1 + Z.of_nat (length r) + 1)) with (length (d :: r)) by (cbn [length]; lia).
  exact (setitems (d :: r) []).
Qed.

Lemma finish_list F ms :
  ms <> [] -> int_entries F = zfrom 0%Z ms ->
  finish F = Ok (TList (fst (last ms (TStr, VNone))), VList (map snd ms)).
Proof.
  intros Hne HF. unfold finish. rewrite HF.
  destruct (rev (zfrom 0%Z ms)) as [|[z [t d]] r] eqn:E.
  - apply (f_equal (@rev (Z * model))) in E. rewrite rev_involutive in E. cbn in E.
    destruct ms; [congruence|discriminate].
  - pose proof (rev_head_last _ _ _ (0%Z, (TStr, VNone)) E) as HL.
    apply (f_equal snd) in HL. rewrite last_zfrom in HL. cbn [snd] in HL.
    match goal with
    | |- context [fold_left ?g (zfrom 0%Z ms) []] =>
      replace (fold_left g (zfrom 0%Z ms) []) with (zfrom 0%Z (map snd ms))
        by (symmetry; apply (fold_defaults ms 0%Z []); intros k [])
    end.
    rewrite dict_to_list_zfrom by (destruct ms; [congruence|discriminate]).
    unfold model in *. rewrite HL. reflexivity.
Qed.

(* ------------------------------------------------------------------ fuel: sub-headers are shorter *)
Lemma max_len_app a b : max_len (a ++ b) = Nat.max (max_len a) (max_len b).
Proof.
  induction a as [|h a IH]; [reflexivity|]. cbn [app]. unfold max_len in *. cbn [fold_right].
  rewrite IH. lia.
Qed.

Lemma max_len_prefixed n hs : hs <> [] -> (max_len hs < max_len (map (prefix_field n) hs))%nat.
Proof.
  induction hs as [|h hs IH]; [congruence|]. intros _. unfold max_len in *. cbn [map fold_right].
  unfold prefix_field at 1. rewrite app_length. cbn [length].
  destruct hs as [|h' r]; [cbn; lia|]. specialize (IH ltac:(discriminate)). lia.
Qed.

Lemma max_len_child cs n s :
  In (n, s) cs -> is_leafb s = false -> subs s <> [] ->
  (max_len (subs s) < max_len (headers_of_fields cs))%nat.
Proof.
  intros Hin Hl Hne. induction cs as [|[n' s'] cs IH]; [destruct Hin|].
  rewrite headers_of_fields_cons, max_len_app. destruct Hin as [E|Hin].
  - inversion E; subst. rewrite headers_of_field_dotted by exact Hl.
    pose proof (max_len_prefixed n (subs s) Hne). lia.
  - specialize (IH Hin). lia.
Qed.

(* ------------------------------------------------------------------ the children of an index-spread list *)
Lemma is_digit_not_sep c : sep_plain c = true -> is_digit c = false.
Proof.
  unfold sep_plain. destruct (is_digit c); [|reflexivity].
  destruct (is_ws c); cbn [andb negb]; discriminate.
Qed.

Lemma str_of_N_name_ok i : name_ok (str_of_N i) = true.
Proof.
  unfold name_ok, no_seps.
  rewrite !digits_no_char by
    (first [apply str_of_N_digit_chars
           |apply is_digit_not_sep, hdr_plain|apply is_digit_not_sep, ann_plain|apply is_digit_not_sep, dflt_plain]).
  cbn [andb]. apply nows_stripped, str_of_N_nows.
Qed.

Lemma numbered_child_ok i es : forallb wf_sty es = true -> Forall child_ok (numbered i es).
Proof.
  revert i. induction es as [|e r IH]; intros i H; [constructor|]. cbn [forallb] in H.
  apply andb_prop in H. destruct H as [He Hr]. cbn [numbered]. constructor; [|apply IH, Hr].
  split; [apply str_of_N_name_ok|exact He].
Qed.

Lemma numbered_keys {T} i (es : list T) k : In k (map fst (numbered i es)) -> exists j, i <= j /\ k = str_of_N j.
Proof.
  revert i. induction es as [|e r IH]; intros i; cbn; [tauto|]. intros [<-|H].
  - exists i. split; [lia|reflexivity].
  - destruct (IH (i + 1) H) as (j & Hj & ->). exists j. split; [lia|reflexivity].
Qed.

Lemma numbered_nodup {T} i (es : list T) : NoDup (map fst (numbered i es)).
Proof.
  revert i. induction es as [|e r IH]; intros i; cbn; constructor; [|apply IH].
  intros H. destruct (numbered_keys _ _ _ H) as (j & Hj & E). apply str_of_N_inj in E. lia.
Qed.

Lemma numbered_in {T} i (es : list T) nt : In nt (numbered i es) -> In (snd nt) es.
Proof.
  revert i. induction es as [|e r IH]; intros i; cbn; [tauto|].
  intros [<-|H]; [left; reflexivity|right; apply (IH _ H)].
Qed.

Lemma map_snd_numbered {T U} (g : T -> U) i (es : list T) :
  map (fun nt : str * T => g (snd nt)) (numbered i es) = map g es.
Proof. revert i. induction es as [|e r IH]; intros i; cbn; [reflexivity|]. rewrite IH. reflexivity. Qed.

(* ------------------------------------------------------------------ the main induction *)
Lemma field_name_ok_name n : field_name_ok n = true -> name_ok n = true.
Proof. unfold field_name_ok. intros H. apply andb_prop in H. tauto. Qed.

Lemma field_name_ok_noint n : field_name_ok n = true -> py_int n = None.
Proof.
  unfold field_name_ok. intros H. apply andb_prop in H. destruct H as [_ H].
  destruct (py_int n); [discriminate|reflexivity].
Qed.

Lemma fields_child_ok (fs : list (str * sty)) :
  forallb (fun nt : str * sty => field_name_ok (fst nt)) fs = true ->
  forallb (fun nt : str * sty => wf_sty (snd nt)) fs = true ->
  Forall child_ok fs.
Proof.
  rewrite !forallb_forall. intros H1 H2. apply Forall_forall. intros nt Hin.
  split; [apply field_name_ok_name, H1, Hin|apply H2, Hin].
Qed.

(* a record level: named children, none of which looks like an integer *)
Lemma infer_rec_fields f (fs : list (str * sty)) :
  forallb (fun nt : str * sty => field_name_ok (fst nt)) fs = true ->
  nodup_names (map fst fs) = true ->
  forallb (fun nt : str * sty => wf_sty (snd nt)) fs = true ->
  (forall nt, In nt fs -> is_leafb (snd nt) = false -> infer_rec f (subs (snd nt)) = Ok (denote_sty (snd nt))) ->
  infer_rec (S f) (headers_of_fields fs) = Ok (denote_sty (SRec fs)).
Proof.
  intros Hn Hd Hw Hrec.
  rewrite infer_rec_level; [|apply fields_child_ok; assumption|apply nodup_names_NoDup, Hd|exact Hrec].
  cbn [denote_sty]. apply finish_rec. intros k Hk. apply leaf_first_keys in Hk.
  rewrite map_map in Hk. cbn [fst] in Hk. apply in_map_iff in Hk. destruct Hk as (nt & <- & Hin).
  apply field_name_ok_noint. rewrite forallb_forall in Hn. apply Hn, Hin.
Qed.

Lemma infer_rec_subs s :
  wf_sty s = true -> is_leafb s = false ->
  forall fuel, (max_len (subs s) < fuel)%nat -> infer_rec fuel (subs s) = Ok (denote_sty s).
Proof.
  induction s as [p l|es IH|fs IH] using sty_ind'; intros Hwf Hl fuel Hfuel; [discriminate| |].
  - (* f.1 f.2 ... *)
    destruct fuel as [|f]; [lia|]. cbn [wf_sty_gen] in Hwf.
    apply andb_prop in Hwf. destruct Hwf as [Hwf Hall]. apply andb_prop in Hwf. destruct Hwf as [Hne Hhom].
    unfold subs in *. cbn [children] in *.
    rewrite infer_rec_level; [|apply numbered_child_ok, Hall|apply numbered_nodup|].
    + rewrite spread_leaf_first by (apply orb_prop, Hhom).
      cbn [denote_sty]. erewrite finish_list.
      * reflexivity.
      * destruct es; [discriminate|discriminate].
      * rewrite (int_entries_numbered denote_sty 1 es). reflexivity.
    + intros nt Hin Hlnt. pose proof (numbered_in _ _ _ Hin) as Hine.
      rewrite Forall_forall in IH. rewrite forallb_forall in Hall.
      apply (IH _ Hine (Hall _ Hine) Hlnt).
      assert (Hlt : (max_len (subs (snd nt)) < max_len (headers_of_fields (numbered 1 es)))%nat).
      { destruct nt as [n s]. apply (max_len_child _ n s Hin Hlnt).
        apply subs_nonempty; [apply (Hall _ Hine)|exact Hlnt]. }
      unfold subs in Hlt. lia.
  - (* f.a f.b ... *)
    destruct fuel as [|f]; [lia|]. cbn [wf_sty_gen] in Hwf.
    apply andb_prop in Hwf. destruct Hwf as [Hwf Hall]. apply andb_prop in Hwf. destruct Hwf as [Hwf Hnd].
    apply andb_prop in Hwf. destruct Hwf as [Hne Hnames].
    unfold subs in *. cbn [children] in *.
    apply infer_rec_fields; try assumption.
    intros nt Hin Hlnt. rewrite Forall_forall in IH. rewrite forallb_forall in Hall.
    apply (IH _ Hin (Hall _ Hin) Hlnt).
    assert (Hlt : (max_len (subs (snd nt)) < max_len (headers_of_fields fs))%nat).
    { destruct nt as [n s]. apply (max_len_child _ n s Hin Hlnt).
      apply subs_nonempty; [apply (Hall _ Hin)|exact Hlnt]. }
    unfold subs in Hlt. lia.
Qed.

(* the headline, for either behaviour and either family *)
Lemma infer_headers_of_gen sc : wf_schema sc = true -> infer (headers_of sc) = Ok (denote sc).
Proof.
  intros Hwf. unfold wf_schema_gen in Hwf.
  apply andb_prop in Hwf. destruct Hwf as [Hwf Hall]. apply andb_prop in Hwf. destruct Hwf as [Hnames Hnd].
  unfold infer_at, headers_of, denote. apply infer_rec_fields; try assumption.
  intros [n s] Hin Hl. cbn [snd] in *. rewrite forallb_forall in Hall.
  pose proof (Hall _ Hin) as Hws. cbn [snd] in Hws.
  apply infer_rec_subs; [exact Hws|exact Hl|].
  apply (max_len_child sc n s Hin Hl). apply subs_nonempty; assumption.
Qed.

End Behaviour.

(* ------------------------------------------------------------------ the headline theorem *)
(* the family whose defaults have no header separator: whatever the tree does *)
Theorem infer_at_headers_of b sc : wf_schema sc = true -> infer_at b (headers_of sc) = Ok (denote sc).
Proof.
  apply (infer_headers_of_gen b leaf_ok).
  - apply leaf_ok_full_of.
  - intros l H. right. exact H.
Qed.

Theorem infer_headers_of sc : wf_schema sc = true -> infer (headers_of sc) = Ok (denote sc).
Proof. apply infer_at_headers_of. Qed.

(* the full family (a default may contain the header separator): the behaviour that looks for
   the separator in the field name only *)
Theorem infer_by_name_headers_of_full sc :
  wf_schema_full sc = true -> infer_at true (headers_of sc) = Ok (denote sc).
Proof.
  apply (infer_headers_of_gen true leaf_ok_full).
  - intros l H. exact H.
  - intros l H. left. reflexivity.
Qed.
