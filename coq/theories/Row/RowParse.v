(* E2 — model of RowParser.parse_row (rpft/parsers/common/rowparser.py), definitions only.
   Mirrors: get_field_name, the header re-keying with row context, the asterisk pre-pass,
   find_entry (placeholders, index assertion), assign_value (keyword-vs-positional decoding,
   scalar wrapping, ""->[], bool decoding), the final None filter and what pydantic-v1
   construction does on the trees the parser can hand it. *)
From Coq Require Import List NArith ZArith Bool.
From RPFT Require Import Base.Sexp Base.PyStr Base.Result Base.ODict Gen.Tables Cell.Cell Row.Ty.
Import ListNotations.
Local Open Scope N_scope.

Definition dict := list (str * out).
Definition dget (d : dict) (k : str) : option out := oget str_eqb d k.
Definition dset (d : dict) (k : str) (v : out) : dict := oset str_eqb d k v.

(* CellParser.parse / parse_as_string with no template in the cell (context None, or empty
   context and no "{"): strip, then split *)
Definition cell_parse (s : str) : nv := split_into_lists (strip s).

(* get_field_name: strip annotation and default, then whitespace *)
Definition get_field_name (s : str) : str :=
  strip (hd [] (split_char c_eq (hd [] (split_char c_colon s)))).

(* ---- assign_value ---------------------------------------------------------------- *)
Fixpoint nv_to_out (x : nv) : out :=
  match x with Str s => OStr s | Lst l => OList (map nv_to_out l) end.

Definition s_false : str := [102; 97; 108; 115; 101].
Definition str_to_bool (s : str) : bool := negb (str_eqb (lower s) s_false).

Definition is_nil {X} (l : list X) : bool := match l with [] => true | _ => false end.

Definition or_none (r : option out) : out := match r with Some o => o | None => ONone end.
Definition dset_opt (d : dict) (k : str) (r : option out) : dict :=
  match r with Some o => dset d k o | None => d end.

(* try_assign_as_kwarg's test: a 2-element list whose first entry is a string naming
   (after header_name_to_field_name) a field of the model *)
Definition as_kwarg (fields : list field) (h2f : remap) (x : nv) : option (str * nv) :=
  match x with
  | Lst [Str k; xv] => let key := remap_get h2f k in
                       if has_field fields key then Some (key, xv) else None
  | _ => None
  end.

(* Result: Ok None = "not assigned at all" (blank string for a bool) *)
Fixpoint assign_value (t : ty) (x : nv) {struct t} : res (option out) :=
  match t with
  | TStr => match x with
            | Str s => Ok (Some (OStr s))
            | Lst _ => Err EUnsupported           (* str(list): Python's repr, not modelled *)
            end
  | TInt => match x with
            | Str s => match parse_int s with Some z => Ok (Some (OInt z)) | None => Err EValue end
            | Lst _ => Err EValue
            end
  | TFloat => match x with
              | Str s => match parse_float s with Some f => Ok (Some (OFloat f)) | None => Err EUnsupported end
              | Lst _ => Err EValue
              end
  | TBool => match x with
             | Str s => match strip s with
                        | [] => Ok None
                        | st => Ok (Some (OBool (str_to_bool st)))
                        end
             | Lst l => Ok (Some (OBool (negb (is_nil l))))
             end
  | TUList => match x with
              | Lst l => Ok (Some (OList (map nv_to_out l)))
              | Str s => Ok (Some (OList [OStr s]))
              end
  | TList t' =>
    let entries := match x with Lst l => l | Str [] => [] | Str _ => [x] end in
    do outs <- mapR (fun e => do r <- assign_value t' e; Ok (or_none r)) entries;
    Ok (Some (OList outs))
  | TModel fields h2f _ =>
    let entries := match x with Lst l => l | Str _ => [x] end in
    let by_name (k : str) (e : nv) : res (option out) :=
        match field_lookup (fun tf _ => assign_value tf e) fields k with
        | Some r => r | None => Err ENoField end in
    match as_kwarg fields h2f (Lst entries) with
    | Some (key, xv) => do r <- by_name key xv; Ok (Some (ODict (dset_opt [] key r)))
    | None =>
      let fix go (es : list nv) (i : nat) (d : dict) : res dict :=
          match es with
          | [] => Ok d
          | e :: r =>
            match as_kwarg fields h2f e with
            | Some (key, xv) => do o <- by_name key xv; go r (S i) (dset_opt d key o)
            | None =>
              match field_nth (fun n tf => (n, assign_value tf e)) fields i with
              | None => Err EIndex
              | Some (n, ro) => do o <- ro; go r (S i) (dset_opt d n o)
              end
            end
          end in
      do d <- go entries O []; Ok (Some (ODict d))
    end
  end.

(* ---- find_entry + assign_value along a header path ----------------------------------- *)
Inductive cellv := Raw (s : str) | Parsed (x : nv).

Definition leaf_value (t : ty) (c : cellv) : nv :=
  match c with
  | Parsed x => x
  | Raw s => if is_list_ty t || is_model_ty t then cell_parse s else Str (strip s)
  end.

(* new content of the slot (cur = what is there now) *)
Definition leaf_assign (t : ty) (c : cellv) (cur : out) : res out :=
  do r <- assign_value t (leaf_value t c); Ok (match r with Some o => o | None => cur end).

Definition init_slot (t : ty) (cur : out) : out :=
  match cur with
  | ONone => if is_list_ty t then OList [] else if is_model_ty t then ODict [] else ONone
  | _ => cur
  end.

Fixpoint set_nth {X} (k : nat) (x : X) (l : list X) : list X :=
  match l, k with
  | [], _ => []
  | _ :: r, O => x :: r
  | y :: r, S j => y :: set_nth j x r
  end.

(* index = int(field_name) - 1; append a placeholder when index = len (assert otherwise);
   a negative index addresses from the end as Python does.  None = IndexError on use. *)
Definition locate_index (l : list out) (name : str) : res (list out * option nat) :=
  match parse_int name with
  | None => Err EValue
  | Some z =>
    let idx := (z - 1)%Z in
    let n := Z.of_nat (length l) in
    if (n <=? idx)%Z then
      if (n =? idx)%Z then Ok (l ++ [ONone], Some (length l)) else Err EAssert
    else if (0 <=? idx)%Z then Ok (l, Some (Z.to_nat idx))
    else if (0 <=? n + idx)%Z then Ok (l, Some (Z.to_nat (n + idx)))
    else Ok (l, None)
  end.

Fixpoint find_assign (path : list str) (t : ty) (o : out) (c : cellv) {struct path} : res out :=
  match path with
  | [] => Err EShape
  | name :: rest =>
    match t with
    | TList _ | TUList =>
      let ct := child_ty t in
      match o with
      | OList l =>
        do lk <- locate_index l name;
        let l' := fst lk in
        match rest with
        | [] =>
          (* terminal: assign_value(field, key, ...) *)
          do r <- assign_value ct (leaf_value ct c);
          match r, snd lk with
          | None, _ => Ok (OList l')
          | Some v, Some k => Ok (OList (set_nth k v l'))
          | Some _, None => Err EIndex
          end
        | _ :: _ =>
          match snd lk with
          | None => Err EIndex
          | Some k =>
            do new <- find_assign rest ct (init_slot ct (nth k l' ONone)) c;
            Ok (OList (set_nth k new l'))
          end
        end
      | _ => Err EShape
      end
    | TModel fields h2f _ =>
      match o with
      | ODict d =>
        let key := remap_get h2f name in
        match field_lookup (fun tf _ => tf) fields key with
        | None => Err ENoField
        | Some ct =>
          let cur := match dget d key with Some x => x | None => ONone end in
          do new <- match rest with
                    | [] => leaf_assign ct c cur
                    | _ :: _ => find_assign rest ct (init_slot ct cur) c
                    end;
          Ok (ODict (dset d key new))
        end
      | _ => Err EShape
      end
    | _ => Err EAssert
    end
  end.

(* parse_entry *)
Definition parse_entry (root : ty) (o : out) (column : str) (c : cellv) : res out :=
  find_assign (split_char c_dot (get_field_name column)) root o c.

(* ---- header re-keying with row context -------------------------------------------- *)
(* the key the row-type cell is looked up under: the raw cell, or the cell as the row parser
   itself reads it (stripped) — which of the two the tree does is a probed constant *)
Definition sw_key (cx : ctxremap) (rt : str) : str := if cx_sw_strip cx then strip rt else rt.

Definition ctx_h2f (cx : option ctxremap) (cells : list (str * str)) (k : str) : res str :=
  match cx with
  | None => Ok k
  | Some cx =>
    match oget str_eqb (cx_basic cx) k with
    | Some f => Ok f
    | None =>
      if str_eqb k (cx_sw_header cx) then
        match oget str_eqb cells (cx_sw_column cx) with
        | None => Err EKey
        | Some rt => match oget str_eqb (cx_sw_table cx) (sw_key cx rt) with
                     | Some f => Ok f
                     | None => Err EKey
                     end
        end
      else Ok k
    end
  end.

(* data_rekeyed[k] = v.  Several headers may denote one field (in a call_webhook row `webhook.body` and
   `message_text` do): on the repaired tree a BLANK cell does not overwrite what an earlier header of the
   same field said (`if k in data_rekeyed and v == "": continue`); on the tree with the finding
   webhook-body-shadowed the last cell wins whatever it holds.  Which of the two the tree does is the
   PROBED constant rekey_blank_keeps (translator/tables_rowfix.py). *)
Definition rekey_put (acc : list (str * str)) (k v : str) : list (str * str) :=
  if rekey_blank_keeps && ocontains str_eqb acc k && is_nil v then acc else oset str_eqb acc k v.

Definition rekey (cx : option ctxremap) (cells : list (str * str)) : res (list (str * str)) :=
  foldM (fun acc kv => do k <- ctx_h2f cx cells (fst kv); Ok (rekey_put acc k (snd kv))) cells [].

(* ---- the asterisk pre-pass ---------------------------------------------------------- *)
Definition has_star (k : str) : bool := mem_char c_star k.
Definition star_prefix (k : str) : str := hd [] (split_char c_star k).

Definition star_len (lens : list (str * nat)) (p : str) : nat :=
  match oget str_eqb lens p with Some n => n | None => 1%nat end.

Definition star_lengths (cells : list (str * str)) : list (str * nat) :=
  fold_left (fun acc kv =>
               if has_star (fst kv) then
                 match cell_parse (snd kv) with
                 | Lst l => let p := star_prefix (fst kv) in
                            oset str_eqb acc p (Nat.max (star_len acc p) (length l))
                 | Str _ => acc
                 end
               else acc) cells [].

Fixpoint number_from {X} (i : nat) (l : list X) : list (nat * X) :=
  match l with [] => [] | x :: r => (i, x) :: number_from (S i) r end.

(* the (column, value) entries one cell stands for *)
Definition expand_cell (lens : list (str * nat)) (kv : str * str) : list (str * cellv) :=
  let k := fst kv in
  if has_star k then
    let elems := match cell_parse (snd kv) with
                 | Lst l => l
                 | Str s => repeat (Str s) (star_len lens (star_prefix k))
                 end in
    map (fun ie => (replace1 c_star (print_nat (S (fst ie))) k, Parsed (snd ie))) (number_from O elems)
  else [(k, Raw (snd kv))].

(* ---- pydantic construction on the parser's output ------------------------------------ *)
Fixpoint out_to_value (o : out) : res value :=
  match o with
  | OStr s => Ok (VStr s)
  | OList l => rmap VList (mapR out_to_value l)
  | _ => Err EShape
  end.

Fixpoint validate (t : ty) (o : out) {struct t} : res value :=
  match t, o with
  | TStr, OStr s => Ok (VStr s)
  | TInt, OInt z => Ok (VInt z)
  | TFloat, OFloat s => Ok (VFloat s)
  | TBool, OBool b => Ok (VBool b)
  | TUList, OList l => rmap VList (mapR out_to_value l)
  | TList t', OList l => rmap VList (mapR (validate t') l)
  | TModel fields _ _, ODict d =>
    rmap VModel
      ((fix go (fs : list field) : res (list (str * value)) :=
          match fs with
          | [] => Ok []
          | (n, (tf, dflt)) :: r =>
            do v <- match dget d n with
                    | Some o' => validate tf o'
                    | None => match dflt with Some dv => Ok dv | None => Err EValidation end
                    end;
            do vs <- go r; Ok ((n, v) :: vs)
          end) fields)
  | _, _ => Err EValidation
  end.

Definition not_none (kv : str * out) : bool := match snd kv with ONone => false | _ => true end.

(* ---- parse_row -------------------------------------------------------------------------- *)
Definition parse_cols (root : ty) (cols : list (str * cellv)) (o : out) : res out :=
  foldM (fun o kc => parse_entry root o (fst kc) (snd kc)) cols o.

Definition parse_row (rm : rowmodel) (cells : list (str * str)) : res value :=
  do data <- rekey (rm_ctx rm) cells;
  let lens := star_lengths data in
  do o <- parse_cols (rm_ty rm) (flat_map (expand_cell lens) data) (ODict []);
  match o with
  | ODict d => validate (rm_ty rm) (ODict (filter not_none d))
  | _ => Err EShape
  end.
