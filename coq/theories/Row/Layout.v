(* E2 — column layouts: RowParser.matches_headers as the prefix-regex it really is
   ("^" + header with "." -> "\." and "*" -> "[^.]+", re.match, no "$").  Definitions only.
   Modelled fragment: headers made of literal characters, "." and "*" (no other regex
   metacharacter) — what target_headers/excluded_headers are documented to contain. *)
From Coq Require Import List NArith Bool.
From RPFT Require Import Base.Sexp Base.PyStr Row.Ty.
Import ListNotations.
Local Open Scope N_scope.

Inductive tok := TLit (c : char) | TStar.

Definition compile_header (h : str) : list tok :=
  map (fun c => if c =? c_star then TStar else TLit c) h.

(* does some prefix of s match p?  TStar = one or more characters other than "." *)
Fixpoint rmatch (p : list tok) (s : str) {struct p} : bool :=
  match p with
  | [] => true
  | TLit c :: p' => match s with x :: s' => (x =? c) && rmatch p' s' | [] => false end
  | TStar :: p' =>
    (fix star (s : str) : bool :=
       match s with
       | [] => false
       | x :: s' => if x =? c_dot then false else (rmatch p' s' || star s')
       end) s
  end.

(* prefix as its list of components: the Python string is "." + ".".join(comps), trimmed of
   its leading "." before matching; the empty prefix (the row itself) never matches *)
Definition header_of (comps : list str) : str := join_char c_dot comps.

Definition matches_headers (headers : list str) (comps : list str) : bool :=
  match comps with
  | [] => false
  | _ => existsb (fun h => rmatch (compile_header h) (header_of comps)) headers
  end.
