(* E2 — ONE RowParser object working through the rows of a sheet (definitions only).

   SheetParser hands every row of a sheet to the same RowParser (and through it to the same CellParser),
   so what a row parses to must not depend on the rows parsed before it.  The state machine of that
   object:

     rp_state   what the object holds: self.model, self.cell_parser (the state of Cell/CellSession.v) and
                self.output — the ONE attribute parse_row assigns; "Gets reinitialized with each call to
                parse_row" (rowparser.py): the step below starts from the empty dict whatever is there;
     rp_step    parse_row on one row: the model instance (or the error) and the object afterwards;
     rp_run     the rows of a sheet in order.

   rp_output is the dict parse_row leaves in self.output when its column loop completes
   (`self.output = {k: v for k, v in self.output.items() if v is not None}`); None stands for "no row parsed
   yet" and for whatever partial dict a row that raised left behind (nothing reads it). *)
From Coq Require Import List NArith Bool.
From RPFT Require Import Base.Sexp Base.PyStr Base.Result Gen.Tables Cell.Cell Cell.CellSession
  Row.Ty Row.Layout Row.RowParse.
Import ListNotations.
Local Open Scope N_scope.

Record rp_state := mk_rp {
  rp_rm : rowmodel;              (* self.model (+ its header remap) *)
  rp_cell : cp_state;            (* self.cell_parser *)
  rp_output : option out         (* self.output *)
}.

(* RowParser(model, CellParser()) *)
Definition rp_init (rm : rowmodel) : rp_state := mk_rp rm cp_init None.

(* what parse_row leaves in self.output *)
Definition row_output (rm : rowmodel) (cells : list (str * str)) : option out :=
  match (do data <- rekey (rm_ctx rm) cells;
         parse_cols (rm_ty rm) (flat_map (expand_cell (star_lengths data)) data) (ODict [])) with
  | Ok (ODict d) => Some (ODict (filter not_none d))
  | _ => None
  end.

Definition rp_step (st : rp_state) (cells : list (str * str)) : rp_state * res value :=
  (mk_rp (rp_rm st) (rp_cell st) (row_output (rp_rm st) cells), parse_row (rp_rm st) cells).

Fixpoint rp_run (st : rp_state) (rows : list (list (str * str))) : rp_state * list (res value) :=
  match rows with
  | [] => (st, [])
  | cells :: r =>
    let (st1, x) := rp_step st cells in
    let (st2, xs) := rp_run st1 r in
    (st2, x :: xs)
  end.
