(* E2 / C09 — header syntax: decimal list indices, dotted paths, `*` replacement, and the
   identity of the context-free re-keying on rows without duplicate headers. *)
From Coq Require Import List NArith ZArith Bool Lia Arith Decimal DecimalNat DecimalPos.
From RPFT Require Import Base.Sexp Base.PyStr Base.PyStrFacts Base.Result Base.ODict Gen.Tables Cell.Cell
  Row.Ty Row.RowParse Row.RekeyFacts Row.ParseFold Row.Encodes Row.EncodesFacts.
Import ListNotations.
Local Open Scope N_scope.

(* ---- str(i) / int(s) ---- *)
Definition is_digit (c : char) : bool := (48 <=? c) && (c <=? 57).

Lemma uint_to_str_digits u : forallb is_digit (uint_to_str u) = true.
Proof. induction u; cbn [uint_to_str forallb]; try reflexivity; rewrite IHu; reflexivity. Qed.

Lemma str_to_uint_print u : str_to_uint (uint_to_str u) = Some u.
Proof. induction u; cbn [uint_to_str str_to_uint]; try reflexivity; rewrite IHu; reflexivity. Qed.

Lemma digit_not_ws c : is_digit c = true -> is_ws c = false.
Proof.
  unfold is_digit, is_ws. intros H. apply andb_prop in H. destruct H as [H1 H2].
  apply N.leb_le in H1. apply N.leb_le in H2.
  repeat match goal with
         | |- context[(?a <=? ?b)] => let E := fresh in destruct (N.leb_spec a b) as [E|E]; try lia
         | |- context[(?a =? ?b)] => let E := fresh in destruct (N.eqb_spec a b) as [E|E]; try lia
         end; reflexivity.
Qed.

Lemma digits_no_ws x : forallb is_digit x = true -> forallb (fun c => negb (is_ws c)) x = true.
Proof.
  induction x as [|c r IH]; [reflexivity|]. cbn [forallb]. intros H. apply andb_prop in H. destruct H as [Hc Hr].
  rewrite (digit_not_ws c Hc), (IH Hr). reflexivity.
Qed.

Lemma lstrip_noop x : forallb (fun c => negb (is_ws c)) x = true -> lstrip x = x.
Proof. destruct x as [|c r]; [reflexivity|]. cbn. intros H. apply andb_prop in H. destruct H as [H _]. destruct (is_ws c); [discriminate|reflexivity]. Qed.

Lemma rstrip_noop x : forallb (fun c => negb (is_ws c)) x = true -> rstrip x = x.
Proof.
  induction x as [|c r IH]; [reflexivity|]. cbn [forallb]. intros H. apply andb_prop in H. destruct H as [Hc Hr].
  cbn [rstrip]. rewrite (IH Hr). destruct r; [|reflexivity]. destruct (is_ws c); [discriminate|reflexivity].
Qed.

Lemma strip_noop x : forallb (fun c => negb (is_ws c)) x = true -> strip x = x.
Proof. intros H. unfold strip. rewrite (lstrip_noop x H). apply rstrip_noop, H. Qed.

Lemma of_lu_nat_N d : N.of_nat (DecimalNat.Unsigned.of_lu d) = DecimalPos.Unsigned.of_lu d.
Proof.
  induction d; cbn [DecimalNat.Unsigned.of_lu DecimalPos.Unsigned.of_lu]; try reflexivity;
  rewrite <- IHd; lia.
Qed.

Lemma Z_of_uint_nat u : Z.of_uint u = Z.of_nat (Nat.of_uint u).
Proof.
  unfold Z.of_uint. rewrite DecimalPos.Unsigned.of_uint_alt, DecimalNat.Unsigned.of_uint_alt.
  rewrite <- of_lu_nat_N. rewrite nat_N_Z. reflexivity.
Qed.

Lemma to_uint_not_nil n : Nat.to_uint n <> Nil.
Proof.
  intros H. assert (H2 : Nat.to_uint n = Nat.to_uint 0 \/ True) by tauto.
  pose proof (DecimalNat.Unsigned.to_of (Nat.to_uint n)) as Hn.
  rewrite DecimalNat.Unsigned.of_to in Hn. rewrite H in Hn at 2. cbn in Hn. rewrite H in Hn. discriminate.
Qed.

Theorem parse_int_print_nat n : parse_int (print_nat n) = Some (Z.of_nat n).
Proof.
  unfold parse_int, print_nat.
  pose proof (uint_to_str_digits (Nat.to_uint n)) as Hd.
  rewrite (strip_noop _ (digits_no_ws _ Hd)).
  destruct (uint_to_str (Nat.to_uint n)) as [|c r] eqn:E.
  - exfalso. apply (to_uint_not_nil n). destruct (Nat.to_uint n); try discriminate. reflexivity.
  - cbn [forallb] in Hd. apply andb_prop in Hd. destruct Hd as [Hc _].
    unfold is_digit in Hc. apply andb_prop in Hc. destruct Hc as [H1 H2]. apply N.leb_le in H1.
    replace (c =? c_minus) with false by (symmetry; apply N.eqb_neq; unfold c_minus; lia).
    replace (c =? c_plus) with false by (symmetry; apply N.eqb_neq; unfold c_plus; lia).
    rewrite <- E, str_to_uint_print. f_equal. cbn [Z.of_int].
    rewrite Z_of_uint_nat, DecimalNat.Unsigned.of_to. reflexivity.
Qed.

Theorem head_idx_print i : head_idx (print_nat (S i)) = Some i.
Proof.
  unfold head_idx. rewrite parse_int_print_nat.
  replace (1 <=? Z.of_nat (S i))%Z with true by (symmetry; apply Z.leb_le; lia).
  f_equal. lia.
Qed.

(* ---- re-keying without context is the identity on rows without duplicate headers ---- *)
Lemma oset_new {V} (d : list (str * V)) k v : oget str_eqb d k = None -> oset str_eqb d k v = d ++ [(k, v)].
Proof.
  induction d as [|[k' v'] r IH]; cbn; [reflexivity|]. destruct (str_eqb k' k); [discriminate|].
  intros H. rewrite (IH H). reflexivity.
Qed.

Lemma rekey_none_acc (all : list (str * str)) : forall (cells acc : list (str * str)),
  NoDup (map fst acc ++ map fst cells) ->
  foldM (fun (acc : list (str * str)) (kv : str * str) =>
           do k <- ctx_h2f None all (fst kv); Ok (rekey_put acc k (snd kv))) cells acc = Ok (acc ++ cells).
Proof.
  induction cells as [|[k v] r IH]; intros acc Hnd; cbn [foldM].
  - rewrite app_nil_r. reflexivity.
  - cbn [ctx_h2f bind fst snd]. rewrite rekey_put_new_get.
    + rewrite IH.
      * rewrite <- app_assoc. reflexivity.
      * rewrite map_app. cbn [map fst]. rewrite <- app_assoc. exact Hnd.
    + apply (oget_none_notin str_eqb str_eqb_spec). cbn [map fst] in Hnd.
      apply NoDup_remove_2 in Hnd. intros Hin. apply Hnd. apply in_or_app. left. exact Hin.
Qed.

Theorem rekey_none cells : NoDup (map fst cells) -> rekey None cells = Ok cells.
Proof. intros H. unfold rekey. apply (rekey_none_acc cells cells []). exact H. Qed.

(* ---- dotted headers ---- *)
(* a path component: none of the characters the header syntax reacts to *)
Definition clean (x : str) : bool :=
  forallb (fun c => negb (c =? c_dot) && negb (c =? c_colon) && negb (c =? c_eq) && negb (c =? c_star)
                    && negb (is_ws c)) x.

Lemma clean_app a b : clean (a ++ b) = clean a && clean b.
Proof. unfold clean. apply forallb_app. Qed.

Lemma clean_mem x c :
  clean x = true -> (c = c_dot \/ c = c_colon \/ c = c_eq \/ c = c_star) -> mem_char c x = false.
Proof.
  intros H Hc. induction x as [|y r IH]; [reflexivity|]. cbn [clean forallb] in H.
  apply andb_prop in H. destruct H as [Hy Hr]. cbn [mem_char]. rewrite (IH Hr).
  repeat (apply andb_prop in Hy; destruct Hy as [Hy ?]).
  destruct Hc as [ -> | [ -> | [ -> | -> ] ] ]; rewrite orb_false_r;
  match goal with H : negb (y =? ?k) = true |- (y =? ?k) = false => destruct (y =? k); [discriminate|reflexivity] end.
Qed.

Lemma clean_no_ws x : clean x = true -> forallb (fun c => negb (is_ws c)) x = true.
Proof.
  induction x as [|y r IH]; [reflexivity|]. cbn [clean forallb]. intros H. apply andb_prop in H. destruct H as [Hy Hr].
  apply andb_prop in Hy. destruct Hy as [_ Hw]. rewrite Hw. apply IH, Hr.
Qed.

Lemma digits_clean x : forallb is_digit x = true -> clean x = true.
Proof.
  induction x as [|c r IH]; [reflexivity|]. cbn [forallb clean]. intros H. apply andb_prop in H. destruct H as [Hc Hr].
  fold (clean r). rewrite (IH Hr), (digit_not_ws c Hc).
  unfold is_digit in Hc. apply andb_prop in Hc. destruct Hc as [H1 H2]. apply N.leb_le in H1. apply N.leb_le in H2.
  replace (c =? c_dot) with false by (symmetry; apply N.eqb_neq; unfold c_dot; lia).
  replace (c =? c_colon) with false by (symmetry; apply N.eqb_neq; unfold c_colon; lia).
  replace (c =? c_eq) with false by (symmetry; apply N.eqb_neq; unfold c_eq; lia).
  replace (c =? c_star) with false by (symmetry; apply N.eqb_neq; unfold c_star; lia).
  reflexivity.
Qed.

Lemma print_nat_clean n : clean (print_nat n) = true.
Proof. apply digits_clean. apply uint_to_str_digits. Qed.

Lemma mem_char_app c a b : mem_char c (a ++ b) = mem_char c a || mem_char c b.
Proof. induction a as [|x a IH]; [reflexivity|]. simpl. rewrite IH. apply orb_assoc. Qed.

Lemma split_char_none sep x : mem_char sep x = false -> split_char sep x = [x].
Proof.
  induction x as [|c r IH]; [reflexivity|]. cbn [mem_char split_char]. intros H. apply orb_false_elim in H.
  destruct H as [Hc Hr]. rewrite Hc, (IH Hr). reflexivity.
Qed.

Lemma split_char_app sep a b : mem_char sep a = false -> split_char sep (a ++ sep :: b) = a :: split_char sep b.
Proof.
  induction a as [|c r IH]; intros H.
  - cbn [Datatypes.app split_char]. rewrite N.eqb_refl. reflexivity.
  - cbn [mem_char] in H. apply orb_false_elim in H. destruct H as [Hc Hr].
    cbn [Datatypes.app split_char]. rewrite Hc, (IH Hr). reflexivity.
Qed.

Lemma replace1_none c new x : mem_char c x = false -> replace1 c new x = x.
Proof.
  induction x as [|y r IH]; [reflexivity|]. cbn [mem_char replace1]. intros H. apply orb_false_elim in H.
  destruct H as [Hc Hr]. rewrite Hc, (IH Hr). reflexivity.
Qed.

Lemma replace1_app' c new a b : replace1 c new (a ++ b) = replace1 c new a ++ replace1 c new b.
Proof.
  induction a as [|y r IH]; [reflexivity|]. cbn [Datatypes.app replace1]. destruct (y =? c); rewrite IH; [apply app_assoc|reflexivity].
Qed.

Lemma get_field_name_id x :
  mem_char c_colon x = false -> mem_char c_eq x = false ->
  forallb (fun c => negb (is_ws c)) x = true -> get_field_name x = x.
Proof.
  intros H1 H2 H3. unfold get_field_name.
  rewrite (split_char_none c_colon x H1). cbn [hd]. rewrite (split_char_none c_eq x H2). cbn [hd].
  apply strip_noop, H3.
Qed.

(* the header p.*.g of a `*` column and what its expansion for element i is *)
Definition star_header (p g : str) : str := p ++ [c_dot; c_star; c_dot] ++ g.

Lemma star_header_has_star p g : has_star (star_header p g) = true.
Proof. unfold has_star, star_header. rewrite mem_char_app. cbn. rewrite orb_true_r. reflexivity. Qed.

Lemma star_header_prefix p g : clean p = true -> star_prefix (star_header p g) = p ++ [c_dot].
Proof.
  intros Hp. unfold star_prefix, star_header.
  replace (p ++ [c_dot; c_star; c_dot] ++ g) with ((p ++ [c_dot]) ++ c_star :: c_dot :: g)
    by (rewrite <- app_assoc; reflexivity).
  rewrite split_char_app; [reflexivity|]. rewrite mem_char_app, (clean_mem p _ Hp (or_intror (or_intror (or_intror eq_refl)))).
  reflexivity.
Qed.

Lemma star_header_path p g i :
  clean p = true -> clean g = true ->
  header_path (replace1 c_star (print_nat (S i)) (star_header p g)) = [p; print_nat (S i); g].
Proof.
  intros Hp Hg. unfold star_header.
  pose proof (clean_mem p _ Hp (or_intror (or_intror (or_intror eq_refl)))) as Hps.
  pose proof (clean_mem g _ Hg (or_intror (or_intror (or_intror eq_refl)))) as Hgs.
  rewrite replace1_app', (replace1_none _ _ p Hps).
  change ([c_dot; c_star; c_dot] ++ g) with ([c_dot] ++ [c_star] ++ [c_dot] ++ g).
  rewrite !replace1_app', (replace1_none _ _ g Hgs).
  change (replace1 c_star (print_nat (S i)) [c_dot]) with [c_dot].
  replace (replace1 c_star (print_nat (S i)) [c_star]) with (print_nat (S i)) by (cbn; rewrite app_nil_r; reflexivity).
  set (ds := print_nat (S i)). pose proof (print_nat_clean (S i)) as Hd. fold ds in Hd.
  unfold header_path. rewrite get_field_name_id.
  - cbn [Datatypes.app]. rewrite split_char_app by (apply (clean_mem p _ Hp); left; reflexivity).
    rewrite split_char_app by (apply (clean_mem ds _ Hd); left; reflexivity).
    rewrite split_char_none by (apply (clean_mem g _ Hg); left; reflexivity). reflexivity.
  - rewrite !mem_char_app.
    rewrite (clean_mem p c_colon Hp) by tauto. rewrite (clean_mem ds c_colon Hd) by tauto.
    rewrite (clean_mem g c_colon Hg) by tauto. reflexivity.
  - rewrite !mem_char_app.
    rewrite (clean_mem p c_eq Hp) by tauto. rewrite (clean_mem ds c_eq Hd) by tauto.
    rewrite (clean_mem g c_eq Hg) by tauto. reflexivity.
  - rewrite !forallb_app. rewrite (clean_no_ws p Hp), (clean_no_ws ds Hd), (clean_no_ws g Hg). reflexivity.
Qed.
