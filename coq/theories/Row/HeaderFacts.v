(* E2 / C09 — header syntax: decimal list indices, dotted paths, `*` replacement, and the
   identity of the context-free re-keying on rows without duplicate headers. *)
From Coq Require Import List NArith ZArith Bool Lia Arith Decimal DecimalNat DecimalPos.
From RPFT Require Import Base.Sexp Base.PyStr Base.PyStrFacts Base.Result Base.ODict Gen.Tables Cell.Cell
  Row.Ty Row.RowParse Row.ParseFold Row.Encodes Row.EncodesFacts.
Import ListNotations.
Local Open Scope N_scope.

(* ---- str(i) / int(s) ---- *)
Definition is_digit (c : char) : bool := (48 <=? c) && (c <=? 57).

Lemma uint_to_str_digits u : forallb is_digit (uint_to_str u) = true.
Proof. induction u; cbn [uint_to_str forallb]; try reflexivity; rewrite IHu; reflexivity. Qed.

Lemma str_to_uint_print u : str_to_uint (uint_to_str u) = Some u.
Proof. induction u; cbn [uint_to_str str_to_uint]; try reflexivity; rewrite IHu; reflexivity. Qed.

Lemma digit_not_ws c : is_digit c = true -> is_ws c = false.
Proof.
  unfold is_digit, is_ws. intros H. apply andb_prop in H. destruct H as [H1 H2].
  apply N.leb_le in H1. apply N.leb_le in H2.
  repeat match goal with
         | |- context[(?a <=? ?b)] => let E := fresh in destruct (N.leb_spec a b) as [E|E]; try lia
         | |- context[(?a =? ?b)] => let E := fresh in destruct (N.eqb_spec a b) as [E|E]; try lia
         end; reflexivity.
Qed.

Lemma digits_no_ws x : forallb is_digit x = true -> forallb (fun c => negb (is_ws c)) x = true.
Proof.
  induction x as [|c r IH]; [reflexivity|]. cbn [forallb]. intros H. apply andb_prop in H. destruct H as [Hc Hr].
  rewrite (digit_not_ws c Hc), (IH Hr). reflexivity.
Qed.

Lemma lstrip_noop x : forallb (fun c => negb (is_ws c)) x = true -> lstrip x = x.
Proof. destruct x as [|c r]; [reflexivity|]. cbn. intros H. apply andb_prop in H. destruct H as [H _]. destruct (is_ws c); [discriminate|reflexivity]. Qed.

Lemma rstrip_noop x : forallb (fun c => negb (is_ws c)) x = true -> rstrip x = x.
Proof.
  induction x as [|c r IH]; [reflexivity|]. cbn [forallb]. intros H. apply andb_prop in H. destruct H as [Hc Hr].
  cbn [rstrip]. rewrite (IH Hr). destruct r; [|reflexivity]. destruct (is_ws c); [discriminate|reflexivity].
Qed.

Lemma strip_noop x : forallb (fun c => negb (is_ws c)) x = true -> strip x = x.
Proof. intros H. unfold strip. rewrite (lstrip_noop x H). apply rstrip_noop, H. Qed.

Lemma of_lu_nat_N d : N.of_nat (DecimalNat.Unsigned.of_lu d) = DecimalPos.Unsigned.of_lu d.
Proof.
  induction d; cbn [DecimalNat.Unsigned.of_lu DecimalPos.Unsigned.of_lu]; try reflexivity;
  rewrite <- IHd; lia.
Qed.

Lemma Z_of_uint_nat u : Z.of_uint u = Z.of_nat (Nat.of_uint u).
Proof.
  unfold Z.of_uint. rewrite DecimalPos.Unsigned.of_uint_alt, DecimalNat.Unsigned.of_uint_alt.
  rewrite <- of_lu_nat_N. rewrite nat_N_Z. reflexivity.
Qed.

Lemma to_uint_not_nil n : Nat.to_uint n <> Nil.
Proof.
  intros H. assert (H2 : Nat.to_uint n = Nat.to_uint 0 \/ True) by tauto.
  pose proof (DecimalNat.Unsigned.to_of (Nat.to_uint n)) as Hn.
  rewrite DecimalNat.Unsigned.of_to in Hn. rewrite H in Hn at 2. cbn in Hn. rewrite H in Hn. discriminate.
Qed.

Theorem parse_int_print_nat n : parse_int (print_nat n) = Some (Z.of_nat n).
Proof.
  unfold parse_int, print_nat.
  pose proof (uint_to_str_digits (Nat.to_uint n)) as Hd.
  rewrite (strip_noop _ (digits_no_ws _ Hd)).
  destruct (uint_to_str (Nat.to_uint n)) as [|c r] eqn:E.
  - exfalso. apply (to_uint_not_nil n). destruct (Nat.to_uint n); try discriminate. reflexivity.
  - cbn [forallb] in Hd. apply andb_prop in Hd. destruct Hd as [Hc _].
    unfold is_digit in Hc. apply andb_prop in Hc. destruct Hc as [H1 H2]. apply N.leb_le in H1.
    replace (c =? c_minus) with false by (symmetry; apply N.eqb_neq; unfold c_minus; lia).
    replace (c =? c_plus) with false by (symmetry; apply N.eqb_neq; unfold c_plus; lia).
    rewrite <- E, str_to_uint_print. f_equal. cbn [Z.of_int].
    rewrite Z_of_uint_nat, DecimalNat.Unsigned.of_to. reflexivity.
Qed.

Theorem head_idx_print i : head_idx (print_nat (S i)) = Some i.
Proof.
  unfold head_idx. rewrite parse_int_print_nat.
  replace (1 <=? Z.of_nat (S i))%Z with true by (symmetry; apply Z.leb_le; lia).
  f_equal. lia.
Qed.
