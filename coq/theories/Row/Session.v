(* E2 — sessions: a FAMILY of row-model classes (some written out, some derived from an earlier
   class of the family the way a Python subclass of a pydantic model is: inherited fields keep
   their place, a re-declared field replaces type and default in place, new fields are appended,
   the two renaming functions are inherited unless re-defined) and a SEQUENCE of operations run
   on the long-lived objects a real run shares: one RowParser per class, kept between operations.

   What the implementation keeps between two operations is the parser's two registers
   (RowParser.output, RowParser.output_dict); both are re-initialised at the start of each
   parse_row / unparse_row, and nothing is kept on the model classes.  The state machine below
   has exactly that: per class the result registers of its parser, overwritten by each step.

   Definitions only (facts: Row/SessionFacts.v). *)
From Coq Require Import List NArith ZArith Bool.
From RPFT Require Import Base.Sexp Base.PyStr Base.Result Base.ODict Cell.Cell Row.Ty Row.Layout Row.RowParse Row.RowUnparse.
Import ListNotations.
Local Open Scope N_scope.

(* ---- class declarations ------------------------------------------------------------------ *)
Inductive decl :=
| DRoot (t : ty)                                  (* class M(ParserModel): written out *)
| DDerive (parent : nat)                          (* class C(P): P = an EARLIER class of the family *)
          (over : list field)                     (* the annotated fields of the class body, in order *)
          (h2f f2h : option remap).               (* a re-defined renaming function; None = inherited *)

(* pydantic's field collection for a subclass: `fields = copy of the base's fields`, then
   `fields[name] = ...` for every annotation of the body: an existing name keeps its position *)
Fixpoint set_field (fs : list field) (f : field) : list field :=
  match fs with
  | [] => [f]
  | g :: r => if str_eqb (f_name g) (f_name f) then f :: r else g :: set_field r f
  end.

Definition derive (p : ty) (over : list field) (h2f f2h : option remap) : option ty :=
  match p with
  | TModel fs h g =>
    Some (TModel (fold_left set_field over fs)
                 (match h2f with Some h' => h' | None => h end)
                 (match f2h with Some g' => g' | None => g end))
  | _ => None
  end.

Definition resolve1 (earlier : list (option ty)) (d : decl) : option ty :=
  match d with
  | DRoot t => if is_model_ty t then Some t else None
  | DDerive p over h g =>
    match nth_error earlier p with
    | Some (Some pt) => derive pt over h g
    | _ => None
    end
  end.

Fixpoint resolve_from (earlier : list (option ty)) (ds : list decl) : list (option ty) :=
  match ds with
  | [] => earlier
  | d :: r => resolve_from (earlier ++ [resolve1 earlier d]) r
  end.

Definition classes (fam : list decl) : list (option ty) := resolve_from [] fam.

Definition class_of (cls : list (option ty)) (k : nat) : option ty :=
  match nth_error cls k with Some (Some t) => Some t | _ => None end.

(* ---- operations ---------------------------------------------------------------------------- *)
Inductive op :=
| OpUnparse (k : nat) (v : value) (targets excluded : list str)   (* parser_k.unparse_row(v, T, X) *)
| OpParse (k : nat) (cells : list (str * str))                    (* parser_k.parse_row(cells) *)
| OpRound (k : nat) (v : value) (targets : list str)              (* parser_k.parse_row(parser_k.unparse_row(v, T)) *)
| OpNewParser (k : nat).                                          (* parser_k = RowParser(class_k, same cell parser) *)

Inductive opres :=
| RCells (r : res (list (str * str)))
| RValue (r : res value)
| RDone
| RNoClass.

(* the pure meaning of an operation: a function of the class description and the arguments only *)
Definition op_class (o : op) : nat :=
  match o with OpUnparse k _ _ _ | OpParse k _ | OpRound k _ _ | OpNewParser k => k end.

Definition round_trip (root : ty) (v : value) (targets : list str) : res value :=
  do cells <- unparse_row root v targets [];
  parse_row {| rm_ty := root; rm_ctx := None |} cells.

Definition op_result (cls : list (option ty)) (o : op) : opres :=
  match class_of cls (op_class o) with
  | None => RNoClass
  | Some root =>
    match o with
    | OpUnparse _ v T X => RCells (unparse_row root v T X)
    | OpParse _ cells => RValue (parse_row {| rm_ty := root; rm_ctx := None |} cells)
    | OpRound _ v T => RValue (round_trip root v T)
    | OpNewParser _ => RDone
    end
  end.

(* ---- the state machine ------------------------------------------------------------------- *)
(* registers of one RowParser: what the last unparse_row left in output_dict, what the last
   parse_row returned.  A failed call leaves an unspecified partial value: None. *)
Record pregs := { pr_cells : option (list (str * str)); pr_value : option value }.
Definition pregs0 : pregs := {| pr_cells := None; pr_value := None |}.

Definition sstate := list (nat * pregs).         (* class index -> registers of its parser *)

Fixpoint regs_get (st : sstate) (k : nat) : pregs :=
  match st with
  | [] => pregs0
  | (k', r) :: rest => if Nat.eqb k' k then r else regs_get rest k
  end.

Fixpoint regs_set (st : sstate) (k : nat) (r : pregs) : sstate :=
  match st with
  | [] => [(k, r)]
  | (k', r') :: rest => if Nat.eqb k' k then (k', r) :: rest else (k', r') :: regs_set rest k r
  end.

Definition ok_opt {T} (r : res T) : option T := match r with Ok x => Some x | Err _ => None end.

(* one operation on the long-lived parser of its class.  unparse_row starts with
   `self.output_dict = {}`, parse_row with `self.output = {}`: the old register is dropped before
   anything is computed, the new value is stored afterwards. *)
Definition step (cls : list (option ty)) (st : sstate) (o : op) : sstate * opres :=
  let k := op_class o in
  match class_of cls k with
  | None => (st, RNoClass)
  | Some root =>
    let old := regs_get st k in
    match o with
    | OpUnparse _ v T X =>
      let cleared := {| pr_cells := None; pr_value := pr_value old |} in
      let r := unparse_row root v T X in
      (regs_set st k {| pr_cells := ok_opt r; pr_value := pr_value cleared |}, RCells r)
    | OpParse _ cells =>
      let cleared := {| pr_cells := pr_cells old; pr_value := None |} in
      let r := parse_row {| rm_ty := root; rm_ctx := None |} cells in
      (regs_set st k {| pr_cells := pr_cells cleared; pr_value := ok_opt r |}, RValue r)
    | OpRound _ v T =>
      let r1 := unparse_row root v T [] in
      match r1 with
      | Err e => (regs_set st k {| pr_cells := None; pr_value := pr_value old |}, RValue (Err e))
      | Ok cells =>
        let r2 := parse_row {| rm_ty := root; rm_ctx := None |} cells in
        (regs_set st k {| pr_cells := Some cells; pr_value := ok_opt r2 |}, RValue r2)
      end
    | OpNewParser _ => (regs_set st k pregs0, RDone)
    end
  end.

Fixpoint run_from (cls : list (option ty)) (st : sstate) (ops : list op) : list opres :=
  match ops with
  | [] => []
  | o :: r => let '(st', x) := step cls st o in x :: run_from cls st' r
  end.

Definition run_session (fam : list decl) (ops : list op) : list opres :=
  run_from (classes fam) [] ops.

(* ---- wire ------------------------------------------------------------------------------------ *)
Definition dec_field (x : sexp) : option field :=
  match x with
  | L [n; t; d] =>
    match dec_str n, dec_ty 64 t, dec_option (dec_value 64) d with
    | Some n', Some t', Some d' => Some (n', (t', d'))
    | _, _, _ => None
    end
  | _ => None
  end.

Definition dec_decl (x : sexp) : option decl :=
  match x with
  | L [A 0; t] => option_map DRoot (dec_ty 64 t)
  | L [A 1; A p; L over; h; g] =>
    match dec_list_aux dec_field over, dec_option dec_remap h, dec_option dec_remap g with
    | Some over', Some h', Some g' => Some (DDerive (N.to_nat p) over' h' g')
    | _, _, _ => None
    end
  | _ => None
  end.

Definition dec_strs' (x : sexp) : option (list str) := dec_list dec_str x.

Definition dec_op (x : sexp) : option op :=
  match x with
  | L [A 0; A k; v; t; e] =>
    match dec_value 64 v, dec_strs' t, dec_strs' e with
    | Some v', Some t', Some e' => Some (OpUnparse (N.to_nat k) v' t' e')
    | _, _, _ => None
    end
  | L [A 1; A k; c] => option_map (OpParse (N.to_nat k)) (dec_cells c)
  | L [A 2; A k; v; t] =>
    match dec_value 64 v, dec_strs' t with
    | Some v', Some t' => Some (OpRound (N.to_nat k) v' t')
    | _, _ => None
    end
  | L [A 3; A k] => Some (OpNewParser (N.to_nat k))
  | _ => None
  end.

Definition enc_opres (r : opres) : sexp :=
  match r with
  | RCells c => L [A 0; enc_res enc_cells c]
  | RValue v => L [A 1; enc_res enc_value v]
  | RDone => L [A 2]
  | RNoClass => L [A 3]
  end.

(* names and defaults of the fields of every class of the family, in field order (the harness
   compares them with the effective __fields__ of the real pydantic classes) *)
Definition enc_class_fields (c : option ty) : sexp :=
  match c with
  | Some (TModel fs _ _) =>
    L [A 1; L (map (fun f => L [enc_str (f_name f); enc_option enc_value (f_default f)]) fs)]
  | _ => L [A 0]
  end.
