(* C04, finding webhook-headers.  FlowContainer.to_row_data_sheet writes the headers of a call_webhook
   row (Webhook.headers: an untyped list of [name, value] pairs) either packed into ONE cell under
   webhook.headers (the repaired tree: "webhook.headers" is among the target headers) or SPREAD over
   webhook.headers.<i>.<j> columns, which RowParser.find_entry cannot descend into (the element type
   of an untyped list is not a model: AssertionError).  Which one is read from the regenerated export
   layout [flow_export_targets] (Gen/Tables.v); the probe [webhook_headers_packed] is its behavioural
   counterpart (translator/tables_c04.py).  Stated over E2's model of unparse_row / parse_row on the
   REGENERATED FlowRowModel (Row/FlowRow.v), i.e. over the very functions C07 proves the round trip for. *)
From Coq Require Import List NArith ZArith Bool.
From RPFT Require Import Base.Sexp Base.PyStr Base.PyStrFacts Base.Result Base.ODict Gen.Tables
  Cell.Cell Cell.CellFacts Row.Ty Row.Layout Row.RowParse Row.RowUnparse Row.FlowRow Row.RoundTrip Row.FlowRowFacts.
Import ListNotations.
Local Open Scope N_scope.

Definition s_webhook : str := [119; 101; 98; 104; 111; 111; 107].
Definition s_headers : str := [104; 101; 97; 100; 101; 114; 115].
Definition s_url : str := [117; 114; 108].
Definition s_method : str := [109; 101; 116; 104; 111; 100].
Definition s_body : str := [98; 111; 100; 121].
Definition s_webhook_headers : str := s_webhook ++ [46] ++ s_headers.

(* the Webhook sub-model of the regenerated row model, with its defaults *)
Definition webhook_fields : list field :=
  match oget str_eqb (map (fun f => (f_name f, f_ty f)) flow_fields) s_webhook with
  | Some (TModel fs _ _) => fs
  | _ => []
  end.
Definition webhook_defaults : list (str * value) :=
  map (fun f => (f_name f, match f_default f with Some d => d | None => VStr [] end)) webhook_fields.

Definition headers_value (hs : list (str * str)) : value := VList (map (fun kv => VList [VStr (fst kv); VStr (snd kv)]) hs).

(* a call_webhook row hanging off "start", with url, method, body, result name and the given headers *)
Definition hook_row (hs : list (str * str)) : value :=
  VModel (fset (fset (fset (fset (fset flow_defaults
    [114; 111; 119; 95; 105; 100] (VStr [49]))
    [116; 121; 112; 101] (VStr k_call_webhook))
    [101; 100; 103; 101; 115] (VList [VModel [([102; 114; 111; 109; 95], VStr [115; 116; 97; 114; 116]); ([99; 111; 110; 100; 105; 116; 105; 111; 110], ex_condition_default)]]))
    s_webhook (VModel (fset (fset (fset (fset webhook_defaults
       s_url (VStr [104; 116; 116; 112; 58; 47; 47; 120]))
       s_method (VStr [71; 69; 84]))
       s_headers (headers_value hs))
       s_body (VStr [98]))))
    [115; 97; 118; 101; 95; 110; 97; 109; 101] (VStr [114; 101; 115])).

(* k -> v and k2 -> "v;2" (a separator inside a value) *)
Definition w_headers : list (str * str) := [([107], [118]); ([107; 50], [118; 59; 50])].

Definition w_headers_cell : str := [107; 59; 118; 124; 107; 50; 59; 118; 92; 59; 50].   (* k;v|k2;v\;2 *)
Definition headers_cell (cells : list (str * str)) : option str := oget str_eqb cells s_webhook_headers.
Definition spread_cells (cells : list (str * str)) : list str :=
  map fst (filter (fun hc => starts_with (s_webhook_headers ++ [46]) (fst hc)) cells).

(* The witness, decided by the probe.  Packed: the row is inside the domain of C07's round-trip theorem,
   the headers travel in the one cell  k;v|k2;v\;2  and the cells read back as the row.  Spread: the row
   is outside that domain, four columns webhook.headers.<i>.<j> are written and the cells do not parse. *)
Lemma webhook_headers_witness :
  if webhook_headers_packed
  then flow_dom (hook_row w_headers) = true
       /\ match flow_unparse (hook_row w_headers) false with
          | Ok cells => headers_cell cells = Some w_headers_cell /\ spread_cells cells = []
                        /\ flow_parse cells = Ok (hook_row w_headers)
          | Err _ => False
          end
  else flow_dom (hook_row w_headers) = false
       /\ match flow_unparse (hook_row w_headers) false with
          | Ok cells => headers_cell cells = None /\ List.length (spread_cells cells) = 4%nat
                        /\ is_ok (flow_parse cells) = false
          | Err _ => False
          end.
Proof.
  destruct webhook_headers_packed eqn:E;
    first [ vm_compute; repeat split; reflexivity
          | exfalso; vm_compute in E; discriminate E ].
Qed.

(* the probe and the regenerated layout say the same *)
Lemma webhook_headers_probe_is_layout :
  webhook_headers_packed = existsb (str_eqb s_webhook_headers) flow_export_targets.
Proof. vm_compute. reflexivity. Qed.

(* For every list of headers: on a tree that packs them, a call_webhook row that lies in the domain of the
   row round trip (C07_flow_row_roundtrip: trimmed strings, the packed list within the two-level limit of
   the cell syntax) is written to cells that read back as the same row. *)
Theorem webhook_row_roundtrip hs :
  flow_dom (hook_row hs) = true ->
  exists cells, flow_unparse (hook_row hs) false = Ok cells /\ flow_parse cells = Ok (hook_row hs).
Proof. apply flow_row_roundtrip. Qed.

(* ... and at the level of the one cell (C08): the text written for a well-formed list of header pairs
   splits back into that list *)
Definition headers_nv (hs : list (str * str)) : nv := Lst (map (fun kv => Lst [Str (fst kv); Str (snd kv)]) hs).

Theorem webhook_headers_cell_roundtrip hs :
  wfb (headers_nv hs) = true ->
  exists txt, join_from_lists 0 (headers_nv hs) = Some txt /\ split_into_lists txt = trim (headers_nv hs).
Proof. apply list_roundtrip. Qed.
