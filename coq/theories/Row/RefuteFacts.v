(* E2 — the hypotheses of the round trip cannot be dropped: concrete instances outside
   [row_dom] that the (faithful) model does not read back.  Replayed on the real RowParser by
   harness/c07.py (probe "refutation witnesses").  All by computation. *)
From Coq Require Import List NArith ZArith Bool.
From RPFT Require Import Base.Sexp Base.PyStr Base.Result Gen.Tables Cell.Cell Row.Ty Row.Layout
  Row.RowParse Row.RowUnparse Row.TextFacts Row.RoundTrip.
Import ListNotations.
Local Open Scope N_scope.

(* ---- 1. an all-default model element inside a (spread) list writes no column ------------
   class Sub: x: str = ""        class M: a: str = ""; l: List[Sub] = []
   M(a="q", l=[Sub()])  ->  {"a": "q"}  ->  M(a="q", l=[])                                  *)
Definition r1_sub : ty := TModel [([120], (TStr, Some (VStr [])))] [] [].
Definition r1_ty : ty :=
  TModel [([97], (TStr, Some (VStr []))); ([108], (TList r1_sub, Some (VList [])))] [] [].
Definition r1_v : value :=
  VModel [([97], VStr [113]); ([108], VList [VModel [([120], VStr [])]])].
Definition r1_back : value :=
  VModel [([97], VStr [113]); ([108], VList [])].

Lemma all_default_in_list_refuted :
  row_dom r1_ty r1_v [] = false
  /\ unparse_row r1_ty r1_v [] [] = Ok [([97], [113])]
  /\ parse_row {| rm_ty := r1_ty; rm_ctx := None |} [([97], [113])] = Ok r1_back
  /\ r1_back <> r1_v.
Proof. repeat split; try (vm_compute; reflexivity). discriminate. Qed.

(* ---- 2. a blank value under a non-blank default in a packed model --------------------------
   class Sub: f: bool = True; a: str = "x"       class M: k: str = ""; s: Sub = Sub()
   M(k="q", s=Sub(a="")) with layout {"s"}  ->  {"k": "q", "s": "a;|"}  ->  M(k="q", s=Sub(a="x"))
   (the cell syntax cannot hold a trailing empty string: "a;" reads as ["a"], which is then
   decoded positionally)                                                                    *)
Definition r2_sub : ty :=
  TModel [([102], (TBool, Some (VBool true))); ([97], (TStr, Some (VStr [120])))] [] [].
Definition r2_subv (a : str) : value := VModel [([102], VBool true); ([97], VStr a)].
Definition r2_ty : ty :=
  TModel [([107], (TStr, Some (VStr []))); ([115], (r2_sub, Some (r2_subv [120])))] [] [].
Definition r2_v : value := VModel [([107], VStr [113]); ([115], r2_subv [])].
Definition r2_back : value := VModel [([107], VStr [113]); ([115], r2_subv [120])].
Definition r2_cells : list (str * str) := [([107], [113]); ([115], [97; 59; 124])].

(* the repaired join_from_lists keeps the empty last element of the pair: the cell is a;;| *)
Definition r2_cells_kept : list (str * str) := [([107], [113]); ([115], [97; 59; 59; 124])].

(* the READER is the same on either tree: a;| is the one-element list [a] (decoded positionally: the field
   returns to its default), a;;| is the pair [a, ""] *)
Lemma packed_blank_reader :
  parse_row {| rm_ty := r2_ty; rm_ctx := None |} r2_cells = Ok r2_back
  /\ parse_row {| rm_ty := r2_ty; rm_ctx := None |} r2_cells_kept = Ok r2_v
  /\ r2_back <> r2_v.
Proof. repeat split; try (vm_compute; reflexivity). discriminate. Qed.

(* DECIDED by the probed constant join_keeps_blank_last (translator/tables_rowfix.py): on the repaired tree the
   instance is inside the domain of the round-trip theorem, is written a;;| and comes back; on the tree with
   the finding it is outside the domain, is written a;| and comes back with the default *)
Lemma packed_blank_decided :
  if join_keeps_blank_last
  then row_dom r2_ty r2_v [[115]] = true
       /\ unparse_row r2_ty r2_v [[115]] [] = Ok r2_cells_kept
       /\ parse_row {| rm_ty := r2_ty; rm_ctx := None |} r2_cells_kept = Ok r2_v
  else row_dom r2_ty r2_v [[115]] = false
       /\ unparse_row r2_ty r2_v [[115]] [] = Ok r2_cells
       /\ parse_row {| rm_ty := r2_ty; rm_ctx := None |} r2_cells = Ok r2_back
       /\ r2_back <> r2_v.
Proof. vm_compute. repeat split; first [reflexivity | (intros H; discriminate H)]. Qed.

(* the same instance is inside the domain, and comes back, when the sub-model is spread *)
Lemma packed_blank_spread_ok :
  row_dom r2_ty r2_v [] = true
  /\ unparse_row r2_ty r2_v [] [] = Ok [([107], [113]); ([115; 46; 97], [])]
  /\ parse_row {| rm_ty := r2_ty; rm_ctx := None |} [([107], [113]); ([115; 46; 97], [])] = Ok r2_v.
Proof. repeat split; vm_compute; reflexivity. Qed.

(* ---- 3. an untrimmed string ------------------------------------------------------------------ *)
Definition r3_ty : ty := TModel [([97], (TStr, Some (VStr [])))] [] [].
Definition r3_v : value := VModel [([97], VStr [32; 113])].
Lemma untrimmed_refuted :
  row_dom r3_ty r3_v [] = false
  /\ unparse_row r3_ty r3_v [] [] = Ok [([97], [32; 113])]
  /\ parse_row {| rm_ty := r3_ty; rm_ctx := None |} [([97], [32; 113])] = Ok (VModel [([97], VStr [113])]).
Proof. repeat split; vm_compute; reflexivity. Qed.

(* ---- 4. beyond the two-level packing limit the row cannot even be written ---------------- *)
Definition r4_ty : ty := TModel [([108], (TList r1_sub, Some (VList [])))] [] [].
Definition r4_v : value := VModel [([108], VList [VModel [([120], VStr [113])]])].
Lemma packing_limit_refuted :
  row_dom r4_ty r4_v [[108]] = false
  /\ unparse_row r4_ty r4_v [[108]] [] = Err EJoin.
Proof. split; vm_compute; reflexivity. Qed.
