(* E2 / C09 — the relation "these columns are a way of writing value v of type t".
   Definitions only (facts: EncodesFacts.v).

   Three layers, as the row parser has them:
     EncNv   t v x      the parsed content x of ONE cell (nested lists of strings) denotes v:
                        packed lists, records packed positionally / as key;value pairs / mixed
     Enc     t d v cols the columns cols (path below the slot + cell) denote v at a slot of type t
                        whose default is d: one cell (packed), a list spread over `.1 .2 …`,
                        a record spread over `.a .b …`, nothing at all (the default) — closed
                        under every interleaving of the columns that keeps, for each list, the
                        FIRST column of element i+1 after the first column of element i
     Encodes rm v cells the cells of a sheet row (headers as written, `*` columns included) denote
                        the row value v.
   The side conditions under which a positional record is NOT read as key;value pairs are
   explicit premises (kw_free / as_kwarg … = None). *)
From Coq Require Import List NArith ZArith Bool.
From RPFT Require Import Base.Sexp Base.PyStr Base.Result Base.ODict Gen.Tables Cell.Cell
  Row.Ty Row.RowParse Row.ParseFold.
Import ListNotations.
Local Open Scope N_scope.

(* ------------------------------------------------------------------ one cell: EncNv *)
(* a bare `list` field keeps the nested lists of strings as they are *)
Fixpoint nv_value (x : nv) : value :=
  match x with Str s => VStr s | Lst l => VList (map nv_value l) end.

(* the entries a record cell consists of (assign_value: "an object specified via a single element") *)
Definition entries_of (x : nv) : list nv := match x with Lst l => l | Str _ => [x] end.

(* fields that got no argument take their default; a required field must get one *)
Fixpoint fill (fields : list field) (asg : list (str * value)) : option (list (str * value)) :=
  match fields with
  | [] => Some []
  | (n, (_, d)) :: r =>
    match (match oget str_eqb asg n with Some v => Some v | None => d end), fill r asg with
    | Some v, Some vs => Some ((n, v) :: vs)
    | _, _ => None
    end
  end.

Definition field_at (fields : list field) (i : nat) : option (str * ty) :=
  field_nth (fun n tf => (n, tf)) fields i.

Inductive EncNv : ty -> value -> nv -> Prop :=
| NvStr s : EncNv TStr (VStr s) (Str s)
| NvInt s z : parse_int s = Some z -> EncNv TInt (VInt z) (Str s)
| NvFloat s f : parse_float s = Some f -> EncNv TFloat (VFloat f) (Str s)
| NvBool s : strip s <> [] -> EncNv TBool (VBool (str_to_bool (strip s))) (Str s)
| NvUList l : EncNv TUList (VList (map nv_value l)) (Lst l)
| NvUListScalar s : EncNv TUList (VList [VStr s]) (Str s)
(* List[t]: "" is the empty list, a cell without separator is a one-element list *)
| NvListEmpty t : EncNv (TList t) (VList []) (Str [])
| NvListScalar t v s : s <> [] -> EncNv t v (Str s) -> EncNv (TList t) (VList [v]) (Str s)
| NvList t vs xs : EncNvs t vs xs -> EncNv (TList t) (VList vs) (Lst xs)
(* a record whose whole cell is ONE key;value pair *)
| NvModelPair fields h2f f2h x k xv key tf v fs :
    NoDup (map f_name fields) ->
    entries_of x = [Str k; xv] ->
    key = remap_get h2f k -> field_ty fields key = Some tf ->
    EncNv tf v xv ->
    fill fields [(key, v)] = Some fs ->
    EncNv (TModel fields h2f f2h) (VModel fs) x
(* a record as a sequence of positional entries and key;value pairs.
   Side condition: the cell as a whole is not read as one key;value pair, i.e. it is not a
   two-entry list whose first entry is a string naming a field. *)
| NvModelArgs fields h2f f2h x asg fs :
    NoDup (map f_name fields) ->
    as_kwarg fields h2f (Lst (entries_of x)) = None ->
    EncArgs fields h2f O (entries_of x) asg ->
    NoDup (map fst asg) ->
    fill fields asg = Some fs ->
    EncNv (TModel fields h2f f2h) (VModel fs) x
with EncNvs : ty -> list value -> list nv -> Prop :=
| NvsNil t : EncNvs t [] []
| NvsCons t v x vs xs : EncNv t v x -> EncNvs t vs xs -> EncNvs t (v :: vs) (x :: xs)
(* entry number i onwards; asg = the (field, value) pairs the entries assign, in order *)
with EncArgs : list field -> remap -> nat -> list nv -> list (str * value) -> Prop :=
| ArgsNil fields h2f i : EncArgs fields h2f i [] []
| ArgsKw fields h2f i k xv key tf v r asg :
    key = remap_get h2f k -> field_ty fields key = Some tf ->
    EncNv tf v xv ->
    EncArgs fields h2f (S i) r asg ->
    EncArgs fields h2f i (Lst [Str k; xv] :: r) ((key, v) :: asg)
(* a positional entry.  Side condition: it is not itself a two-entry list starting with a
   field name (that would be read as a key;value pair) *)
| ArgsPos fields h2f i e n tf v r asg :
    as_kwarg fields h2f e = None ->
    field_at fields i = Some (n, tf) ->
    EncNv tf v e ->
    EncArgs fields h2f (S i) r asg ->
    EncArgs fields h2f i (e :: r) ((n, v) :: asg).

Scheme EncNv_mind := Minimality for EncNv Sort Prop
  with EncNvs_mind := Minimality for EncNvs Sort Prop
  with EncArgs_mind := Minimality for EncArgs Sort Prop.
Combined Scheme EncNv_mutind from EncNv_mind, EncNvs_mind, EncArgs_mind.

(* ------------------------------------------------------------------ one slot: Enc *)
Inductive Enc : ty -> option value -> value -> list col -> Prop :=
(* no column at all: the field keeps its default *)
| EncDefault t v : Enc t (Some v) v []
(* one column that ends at this slot: the value packed in one cell *)
| EncCell t d v c : EncNv t v (leaf_value t c) -> Enc t d v [([], c)]
(* a list spread over columns `.1 … .n` (each element in turn any layout); columns of different
   elements may interleave as long as the first column of each element comes in index order *)
| EncListSpread t d vs cols :
    is_list_ty t = true -> cols <> [] ->
    idx_scan O cols = Some (length vs) ->
    EncElems (child_ty t) cols O vs ->
    Enc t d (VList vs) cols
(* a record spread over columns `.a .b …` (each field in turn any layout, or absent = default);
   columns of different fields may come in any order *)
| EncModelSpread fields h2f f2h d fs cols :
    cols <> [] -> NoDup (map f_name fields) -> heads_ok fields h2f cols ->
    EncFields h2f cols fields fs ->
    Enc (TModel fields h2f f2h) d (VModel fs) cols
with EncFields : remap -> list col -> list field -> list (str * value) -> Prop :=
| FieldsNil h2f cols : EncFields h2f cols [] []
| FieldsCons h2f cols n t d v fields fs :
    Enc t d v (sub_key h2f n cols) ->
    EncFields h2f cols fields fs ->
    EncFields h2f cols ((n, (t, d)) :: fields) ((n, v) :: fs)
with EncElems : ty -> list col -> nat -> list value -> Prop :=
| ElemsNil ct cols i : EncElems ct cols i []
| ElemsCons ct cols i v vs :
    sub_idx i cols <> [] ->
    Enc ct None v (sub_idx i cols) ->
    EncElems ct cols (S i) vs ->
    EncElems ct cols i (v :: vs).

Scheme Enc_mind := Minimality for Enc Sort Prop
  with EncFields_mind := Minimality for EncFields Sort Prop
  with EncElems_mind := Minimality for EncElems Sort Prop.
Combined Scheme Enc_mutind from Enc_mind, EncFields_mind, EncElems_mind.

(* ------------------------------------------------------------------ a sheet row: Encodes *)
(* header text -> path: strip `:annotation` / `=default` and blanks, split at "." *)
Definition header_path (h : str) : list str := split_char c_dot (get_field_name h).

(* the columns a row stands for: `*` cells expanded (per-element list, or one value broadcast
   to the length implied by the sibling `*` columns), headers split into paths *)
Definition cols_of (data : list (str * str)) : list col :=
  map (fun kc : str * cellv => (header_path (fst kc), snd kc))
      (flat_map (expand_cell (star_lengths data)) data).

Inductive Encodes (rm : rowmodel) (v : value) (cells : list (str * str)) : Prop :=
| Encodes_intro data :
    is_model_ty (rm_ty rm) = true ->
    rekey (rm_ctx rm) cells = Ok data ->      (* short flow headers -> long ones; identity without context *)
    Enc (rm_ty rm) None v (cols_of data) ->
    Encodes rm v cells.
