(* C18 — mirror of rpft/parsers/common/model_inference.py (and rowparser.get_field_name,
   str_to_bool), as coded.  Definitions only.

   Python                                   here
   ------                                   ----
   s.split(c, 1) when c in s                split_first c s
   s.split(c)[0]                            before c s
   get_field_name                           get_field_name
   type_from_string                         type_from_string   (table regenerated; List[..] by fuel)
   get_value_for_type                       get_value_for_type
   infer_type / infer_default_value         infer_type / infer_default_value
   parse_header_annotations                 parse_header_annotations
   represents_integer / int(field)          py_int
   dict_to_list                             dict_to_list
   model_from_headers_rec                   infer_rec_at (fuel) / infer_at; infer = the tree at hand
   model_from_headers                       model_from_headers

   Not modelled (the generators stay away, see design.d/C18.md): pydantic's own field-name
   rules (leading underscore, names shadowing BaseModel attributes), non-ASCII decimal digits
   in int()/float(), Python expression syntax inside List[...] other than NAME and List[...]
   (whitespace, parentheses, quotes), type names that pydoc.locate resolves to something
   outside the universe (they are [Err EUnknownType] here, "a type outside the universe" there). *)
From Coq Require Import List NArith ZArith Bool.
From RPFT Require Import Base.Sexp Base.PyStr Base.Result Base.ODict Gen.Tables Row.InferTy.
Import ListNotations.
Local Open Scope N_scope.

(* ---- string helpers *)
Fixpoint split_first (c : char) (s : str) : option (str * str) :=
  match s with
  | [] => None
  | x :: r =>
    if x =? c then Some ([], r)
    else match split_first c r with
         | Some (a, b) => Some (x :: a, b)
         | None => None
         end
  end.

Definition before (c : char) (s : str) : str :=
  match split_first c s with Some (a, _) => a | None => s end.

Definition get_field_name (h : str) : str :=
  strip (before inf_dflt_sep (before inf_ann_sep h)).

Fixpoint lookup {T} (tbl : list (str * T)) (k : str) : option T :=
  match tbl with
  | [] => None
  | (k', v) :: r => if str_eqb k' k then Some v else lookup r k
  end.

(* ---- int(): optional sign, ASCII digits, single underscores between digits, stripped *)
Definition is_digit (c : char) : bool := (48 <=? c) && (c <=? 57).
Inductive istate := IStart | IDigit | IUnder.

Fixpoint int_body (st : istate) (acc : Z) (s : str) : option Z :=
  match s with
  | [] => match st with IDigit => Some acc | _ => None end
  | c :: r =>
    if is_digit c then int_body IDigit (acc * 10 + Z.of_N (c - 48))%Z r
    else if c =? 95 then match st with IDigit => int_body IUnder acc r | _ => None end
    else None
  end.

Definition py_int (s : str) : option Z :=
  match strip s with
  | [] => None
  | c :: r =>
    if c =? 45 then option_map Z.opp (int_body IStart 0%Z r)
    else if c =? 43 then int_body IStart 0%Z r
    else int_body IStart 0%Z (c :: r)
  end.

(* ---- float(): recogniser only (the value stays a literal, see [VFloat]) *)
(* longest digit part (digits, single underscores between digits): (at least one digit?, rest) *)
Fixpoint eat_digits (st : istate) (s : str) : option (bool * str) :=
  match s with
  | [] => match st with IUnder => None | IDigit => Some (true, []) | IStart => Some (false, []) end
  | c :: r =>
    if is_digit c then eat_digits IDigit r
    else if c =? 95 then match st with IDigit => eat_digits IUnder r | _ => None end
    else match st with IUnder => None | IDigit => Some (true, s) | IStart => Some (false, s) end
  end.

Definition float_exponent (r : str) : bool :=   (* r = what follows the mantissa *)
  match r with
  | [] => true
  | c :: r' =>
    if (c =? 101) || (c =? 69) then
      let r'' := match r' with
                 | sg :: t => if (sg =? 43) || (sg =? 45) then t else r'
                 | [] => r'
                 end in
      match eat_digits IStart r'' with Some (true, []) => true | _ => false end
    else false
  end.

Definition float_number (s : str) : bool :=
  match eat_digits IStart s with
  | None => false
  | Some (d1, r1) =>
    match r1 with
    | c :: r2 =>
      if c =? 46 then
        match eat_digits IStart r2 with
        | None => false
        | Some (d2, r3) => (d1 || d2) && float_exponent r3
        end
      else d1 && float_exponent r1
    | [] => d1
    end
  end.

Definition s_inf : str := [105; 110; 102].
Definition s_infinity : str := [105; 110; 102; 105; 110; 105; 116; 121].
Definition s_nan : str := [110; 97; 110].

Definition is_float_lit (s : str) : bool :=
  let t := strip s in
  let body := match t with
              | c :: r => if (c =? 43) || (c =? 45) then r else t
              | [] => t
              end in
  let lw := lower body in
  str_eqb lw s_inf || str_eqb lw s_infinity || str_eqb lw s_nan || float_number body.

(* ---- str_to_bool *)
Definition str_to_bool (s : str) : bool :=
  negb (existsb (str_eqb (lower s)) inf_bool_false_words).

(* ---- type_from_string *)
Definition ty_of_tag (t : N) : ty :=
  match t with
  | 0 => TStr | 1 => TInt | 2 => TFloat | 3 => TBool | 4 => TUList | _ => TAnyList
  end.

(* s = G ++ "[" ++ inner ++ "]"  ->  Some inner *)
Fixpoint drop_prefix (p s : str) : option str :=
  match p, s with
  | [], _ => Some s
  | a :: p', b :: s' => if a =? b then drop_prefix p' s' else None
  | _ :: _, [] => None
  end.

Definition generic_inner (s : str) : option str :=
  match drop_prefix (inf_generic_name ++ [inf_generic_open]) s with
  | None => None
  | Some r =>
    match rev r with
    | c :: m => if c =? inf_generic_close then Some (rev m) else None
    | [] => None
    end
  end.

(* inside the brackets the string is a Python expression evaluated in the module's globals *)
Fixpoint inner_type (fuel : nat) (s : str) : result ierr ty :=
  match lookup inf_inner_type_names s with
  | Some t => Ok (ty_of_tag t)
  | None =>
    match fuel with
    | O => Err EOutOfFuel
    | S f =>
      match generic_inner s with
      | Some i => match inner_type f i with Ok t => Ok (TList t) | Err e => Err e end
      | None => Err EUnknownType
      end
    end
  end.

Definition type_from_string (s : str) : result ierr ty :=
  match lookup inf_type_names s with          (* "" -> str; pydoc.locate; the bare generic *)
  | Some t => Ok (ty_of_tag t)
  | None =>
    match generic_inner s with
    | Some i => match inner_type (S (length i)) i with Ok t => Ok (TList t) | Err e => Err e end
    | None => Err EUnknownType
    end
  end.

(* ---- get_value_for_type: list types and models ignore the written default *)
Fixpoint default_of_fields (fields : list (str * (ty * dv))) : list (str * dv) :=
  match fields with
  | [] => []
  | (n, (_, d)) :: r => (n, d) :: default_of_fields r
  end.

Definition get_value_for_type (t : ty) (v : option str) : result ierr dv :=
  match t with
  | TUList | TAnyList | TList _ => Ok (VList [])
  | TRec fields => Ok (VRec (default_of_fields fields))      (* type() *)
  | TStr => Ok (VStr (match v with Some s => s | None => [] end))
  | TInt =>
    match v with
    | None => Ok (VInt 0%Z)
    | Some s => match py_int s with Some z => Ok (VInt z) | None => Err EBadDefault end
    end
  | TFloat =>
    match v with
    | None => Ok (VFloat float_zero_lit)
    | Some s => if is_float_lit s then Ok (VFloat s) else Err EBadDefault
    end
  | TBool =>
    match v with
    | None => Ok (VBool false)
    | Some s => Ok (VBool (str_to_bool s))
    end
  end.

Definition infer_type (h : str) : result ierr ty :=
  match split_first inf_ann_sep h with
  | None => type_from_string []
  | Some (_, suffix) => type_from_string (strip (before inf_dflt_sep suffix))
  end.

Definition infer_default_value (t : ty) (h : str) : result ierr dv :=
  match split_first inf_dflt_sep h with
  | None => get_value_for_type t None
  | Some (_, suffix) => get_value_for_type t (Some (strip suffix))
  end.

Definition parse_header_annotations (h : str) : result ierr model :=
  match infer_type h with
  | Err e => Err e
  | Ok t => match infer_default_value t h with Err e => Err e | Ok d => Ok (t, d) end
  end.

(* ---- dict_to_list *)
Definition max_key (d : list (Z * dv)) : Z :=       (* max(dict.keys()); d non-empty *)
  match d with
  | [] => (-1)%Z
  | (k, _) :: r => fold_left (fun m kv => Z.max m (fst kv)) r k
  end.

Fixpoint set_nth {T} (n : nat) (l : list T) (v : T) : list T :=
  match l, n with
  | [], _ => []
  | _ :: r, O => v :: r
  | x :: r, S m => x :: set_nth m r v
  end.

(* out[k] = v with Python's negative indices *)
Definition py_setitem (out : list dv) (k : Z) (v : dv) : result ierr (list dv) :=
  let n := Z.of_nat (length out) in
  let i := if (k <? 0)%Z then (k + n)%Z else k in
  if ((i <? 0) || (n <=? i))%Z then Err EIndex else Ok (set_nth (Z.to_nat i) out v).

Definition dict_to_list (d : list (Z * dv)) : result ierr (list dv) :=
  foldM (fun out kv => py_setitem out (fst kv) (snd kv)) d
        (repeat VNone (Z.to_nat (max_key d + 1))).

(* ---- model_from_headers_rec *)
Definition sdict (T : Type) : Type := list (str * T).
Definition sget {T} (d : sdict T) (k : str) : option T := oget str_eqb d k.
Definition sset {T} (d : sdict T) (k : str) (v : T) : sdict T := oset str_eqb d k v.

(* Where the header separator is looked for.  [by_name = false]: in the whole header,
   annotations included (`if HEADER_FIELD_SEPARATOR in header`: the tree with the defect
   default-contains-dot).  [by_name = true]: in the field name only
   (`if HEADER_FIELD_SEPARATOR in get_field_name(header)`: the repaired tree).  The behaviour of
   the tree at hand is the regenerated constant [inf_nested_by_field_name] (probed by the
   translator); [step]/[infer_rec]/[infer] below are the mirror of the tree at hand, the
   [_at] functions mirror both. *)
Definition is_nested (by_name : bool) (h : str) : bool :=
  mem_char inf_hdr_sep (if by_name then get_field_name h else h).

(* field, subheader = header.split(HEADER_FIELD_SEPARATOR, 1) for a nested header *)
Definition hsplit (by_name : bool) (h : str) : option (str * str) :=
  if is_nested by_name h then split_first inf_hdr_sep h else None.

(* first loop: plain headers go to [fields], nested ones are grouped under their first segment *)
Definition step_at (by_name : bool) (acc : sdict model * sdict (list str)) (h : str)
  : result ierr (sdict model * sdict (list str)) :=
  let (fields, complex) := acc in
  match hsplit by_name h with
  | Some (field, sub) =>
    let old := match sget complex field with Some l => l | None => [] end in
    Ok (fields, sset complex field (old ++ [sub]))
  | None =>
    match parse_header_annotations h with
    | Err e => Err e
    | Ok m => Ok (sset fields (get_field_name h) m, complex)
    end
  end.

(* the integer-keyed entries of [fields], in dict order, as (index - 1, entry) *)
Fixpoint int_entries (fields : sdict model) : list (Z * model) :=
  match fields with
  | [] => []
  | (k, m) :: r =>
    match py_int k with
    | Some z => ((z - 1)%Z, m) :: int_entries r
    | None => int_entries r
    end
  end.

Definition finish (fields : sdict model) : result ierr model :=
  match rev (int_entries fields) with
  | [] => Ok (TRec fields, VRec (default_of_fields fields))
  | (_, (t, _)) :: _ =>
    (* the last integer-keyed entry gives the element type *)
    let defaults := fold_left (fun d e => oset Z.eqb d (fst e) (snd (snd e))) (int_entries fields) [] in
    match dict_to_list defaults with
    | Err e => Err e
    | Ok l => Ok (TList t, VList l)
    end
  end.

Fixpoint infer_rec_at (by_name : bool) (fuel : nat) (headers : list str) : result ierr model :=
  match fuel with
  | O => Err EOutOfFuel
  | S f =>
    match foldM (step_at by_name) headers ([], []) with
    | Err e => Err e
    | Ok (fields, complex) =>
      match foldM (fun (fs : sdict model) (c : str * list str) =>
                     match infer_rec_at by_name f (snd c) with
                     | Err e => Err e
                     | Ok m => Ok (sset fs (fst c) m)
                     end) complex fields with
      | Err e => Err e
      | Ok fields' => finish fields'
      end
    end
  end.

Definition max_len (hs : list str) : nat := fold_right (fun h m => Nat.max (length h) m) O hs.

Definition infer_at (by_name : bool) (headers : list str) : result ierr model :=
  infer_rec_at by_name (S (max_len headers)) headers.

(* the mirror of the tree at hand *)
Definition step := step_at inf_nested_by_field_name.
Definition infer_rec := infer_rec_at inf_nested_by_field_name.
Definition infer : list str -> result ierr model := infer_at inf_nested_by_field_name.

Definition model_from_headers (headers : list str) : result ierr ty :=
  match infer headers with Ok (t, _) => Ok t | Err e => Err e end.

(* ---- vocabulary of the order theorems (props/C18.v, 3) *)
Fixpoint str_in (k : str) (l : list str) : bool :=
  match l with [] => false | x :: r => str_eqb x k || str_in k r end.

Definition plain_of (bn : bool) (hs : list str) : list str := filter (fun h => negb (is_nested bn h)) hs.
Definition dotted_of (bn : bool) (hs : list str) : list str := filter (is_nested bn) hs.
(* the header list with the plain columns moved to the front, both groups in their order *)
Definition stable_partition (bn : bool) (hs : list str) : list str := plain_of bn hs ++ dotted_of bn hs.

(* (prefix, sub-header) of every nested column, in column order *)
Definition pairs_of (bn : bool) (hs : list str) : list (str * str) :=
  flat_map (fun h => match hsplit bn h with Some p => [p] | None => [] end) hs.

(* keys in order of first appearance *)
Definition add_key (seen : list str) (k : str) : list str := if str_in k seen then seen else seen ++ [k].
Definition add_keys (seen l : list str) : list str := fold_left add_key l seen.
Definition first_occ (l : list str) : list str := add_keys [] l.

(* the sub-headers of prefix [k], in column order *)
Definition subs_for (k : str) (ps : list (str * str)) : list str :=
  map snd (filter (fun p : str * str => str_eqb (fst p) k) ps).

Definition prefixes (bn : bool) (hs : list str) : list str := first_occ (map fst (pairs_of bn hs)).
Definition subs_of (bn : bool) (k : str) (hs : list str) : list str := subs_for k (pairs_of bn hs).

(* ---- the family of the theorems (hypotheses as boolean functions, so that the
   correspondence can evaluate them on the generated schemas) *)
Definition no_char (c : char) (s : str) : bool := negb (mem_char c s).
Definition no_seps (s : str) : bool :=
  no_char inf_hdr_sep s && no_char inf_ann_sep s && no_char inf_dflt_sep s.
(* strip s = s, in the elementary form: first and last character are not whitespace *)
Definition stripped (s : str) : bool :=
  match s with
  | [] => true
  | c :: _ => negb (is_ws c) && negb (is_ws (last s 0))
  end.
Definition all_ws (s : str) : bool := forallb is_ws s.

Definition name_ok (n : str) : bool := no_seps n && stripped n.
Definition field_name_ok (n : str) : bool :=
  name_ok n && match py_int n with None => true | Some _ => false end.

Definition pads_ok (p : pads) : bool :=
  all_ws (p0 p) && all_ws (p1 p) && all_ws (p2 p) && all_ws (p3 p) && all_ws (p4 p) && all_ws (p5 p).

Definition leaf_ok (l : leaf) : bool :=
  match l with
  | LStr e (Some d) =>
    stripped d && no_char inf_hdr_sep d && (e || no_char inf_ann_sep d)
  | LFloat (Some d) => is_float_lit d && stripped d && no_seps d
  | _ => true
  end.

Fixpoint nodup_names (l : list str) : bool :=
  match l with [] => true | x :: r => negb (str_in x r) && nodup_names r end.

Definition nonempty {T} (l : list T) : bool := match l with [] => false | _ => true end.

(* [lok]: what is asked of a plain column (see [leaf_ok], [leaf_ok_full]) *)
Fixpoint wf_sty_gen (lok : leaf -> bool) (s : sty) : bool :=
  match s with
  | SLeaf p l => pads_ok p && lok l
  | SSpread es =>
    nonempty es
    && (forallb is_leafb es || forallb (fun e => negb (is_leafb e)) es)
    && forallb (wf_sty_gen lok) es
  | SRec fs =>
    nonempty fs
    && forallb (fun nt : str * sty => field_name_ok (fst nt)) fs
    && nodup_names (map fst fs)
    && forallb (fun nt : str * sty => wf_sty_gen lok (snd nt)) fs
  end.

(* the top level may be empty (a sheet without columns gives an empty class) *)
Definition wf_schema_gen (lok : leaf -> bool) (sc : schema) : bool :=
  forallb (fun nt : str * sty => field_name_ok (fst nt)) sc
  && nodup_names (map fst sc)
  && forallb (fun nt : str * sty => wf_sty_gen lok (snd nt)) sc.

Definition wf_sty : sty -> bool := wf_sty_gen leaf_ok.
Definition wf_schema : schema -> bool := wf_schema_gen leaf_ok.

(* what the proofs need to know about the regenerated tables *)
Definition sep_plain (c : char) : bool :=
  negb (is_ws c) && negb (is_digit c) && negb (c =? 45) && negb (c =? 43) && negb (c =? 95)
  && no_char c s_str && no_char c s_int && no_char c s_float && no_char c s_bool
  && no_char c s_list && no_char c s_True && no_char c s_False
  && no_char c inf_generic_name && negb (c =? inf_generic_open) && negb (c =? inf_generic_close).

Definition tag_is (tbl : list (str * N)) (k : str) (t : N) : bool :=
  match lookup tbl k with Some t' => t' =? t | None => false end.

Definition infer_tables_ok : bool :=
  sep_plain inf_hdr_sep && sep_plain inf_ann_sep && sep_plain inf_dflt_sep
  && negb (inf_hdr_sep =? inf_ann_sep) && negb (inf_hdr_sep =? inf_dflt_sep)
  && negb (inf_ann_sep =? inf_dflt_sep)
  && tag_is inf_type_names [] 0
  && tag_is inf_type_names s_str 0 && tag_is inf_type_names s_int 1
  && tag_is inf_type_names s_float 2 && tag_is inf_type_names s_bool 3
  && tag_is inf_type_names s_list 4 && tag_is inf_type_names inf_generic_name 5
  && tag_is inf_inner_type_names s_str 0 && tag_is inf_inner_type_names s_int 1
  && tag_is inf_inner_type_names s_float 2 && tag_is inf_inner_type_names s_bool 3
  && tag_is inf_inner_type_names s_list 4 && tag_is inf_inner_type_names inf_generic_name 5
  (* no table name is itself of the form G[...] or contains a bracket *)
  && forallb (fun kv : str * N => no_char inf_generic_open (fst kv) && no_char inf_generic_close (fst kv)
                                  && stripped (fst kv)) inf_type_names
  && forallb (fun kv : str * N => no_char inf_generic_open (fst kv) && no_char inf_generic_close (fst kv))
             inf_inner_type_names
  && negb (inf_generic_open =? inf_generic_close)
  && forallb (fun c => negb (is_ws c)) (inf_generic_name ++ [inf_generic_open; inf_generic_close])
  (* str_to_bool: "True" -> True, "False" -> False *)
  && str_to_bool s_True && negb (str_to_bool s_False).

(* ---- the family at full strength: "f=v carries a default" read literally, i.e. WITHOUT the
   restriction that the default has no header separator (a period).  Everything else as in
   [leaf_ok]/[wf_sty]/[wf_schema].  The headline theorem is decided for this family in
   props/C18.v (it fails on the tree whose model_from_headers_rec looks for the header
   separator in the whole header, annotations included: finding default-contains-dot). *)
Definition leaf_ok_full (l : leaf) : bool :=
  match l with
  | LStr e (Some d) => stripped d && (e || no_char inf_ann_sep d)
  | LFloat (Some d) => is_float_lit d && stripped d
  | _ => true
  end.

Definition wf_sty_full : sty -> bool := wf_sty_gen leaf_ok_full.
Definition wf_schema_full : schema -> bool := wf_schema_gen leaf_ok_full.

(* ---- contentindexparser._get_new_data_sheet without a data_model: the row model of a data
   sheet is model_from_headers(sheet_name, data_table.headers); the rows are not an argument *)
Record data_table := mk_table { dt_headers : list str; dt_rows : list (list str) }.
Definition sheet_model (t : data_table) : result ierr ty := model_from_headers (dt_headers t).
