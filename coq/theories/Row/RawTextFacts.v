(* E2 / C09 — texts with backslashes that are NOT escape sequences (the regular expression ^\d+$, the path
   C:\temp): a cell that the parser splits (a packed list / record cell, a `*` column, hence the short flow headers
   from / condition / condition_var ...) reads such a text exactly as a cell that it does not split (f.1, m.a,
   edges.1.condition.value) — the escape character protects a backslash or a separator and nothing else.
   Facts only; the model is Cell/Cell.v (split_by_separator = segs, cleanse = unescape) and Row/RowParse.v. *)
From Coq Require Import List NArith Bool Lia Arith.
From RPFT Require Import Base.Sexp Base.PyStr Base.PyStrFacts Base.Result Base.ODict Gen.Tables Cell.Cell Cell.CellFacts
  Row.Ty Row.RowParse Row.ParseFold Row.Encodes Row.EncodesFacts Row.EncodesExamples.
Import ListNotations.
Local Open Scope N_scope.

(* ------------------------------------------------------------------ writings of a text inside a split cell *)
(* [Len s e]: the cell text e is a writing of the value s — a separator or backslash of s is written with the escape
   character in front (LenEsc); a backslash of s that stands before an ORDINARY character may be written as it is
   (LenRaw); every other character is written as it is (LenPlain).  [escape s] is the writing that escapes every
   backslash ([len_escape]); s itself is one whenever no backslash of s stands before a backslash or separator, s has no
   separator and does not end in a backslash ([len_self]). *)
Inductive Len : str -> str -> Prop :=
| LenNil : Len [] []
| LenPlain c s e : is_special c = false -> Len s e -> Len (c :: s) (c :: e)
| LenEsc c s e : is_special c = true -> Len s e -> Len (c :: s) (esc_char :: c :: e)
| LenRaw d s e : is_special d = false -> Len s e -> Len (esc_char :: d :: s) (esc_char :: d :: e).

(* the same when NOTHING follows the text in the cell: a backslash at the very end may also stand as it is *)
Definition LenEnd (s e : str) : Prop :=
  Len s e \/ exists s0 e0, Len s0 e0 /\ s = s0 ++ [esc_char] /\ e = e0 ++ [esc_char].

Lemma len_escape s : Len s (escape s).
Proof.
  induction s as [|c r IH]; [constructor|]. cbn [escape]. destruct (is_special c) eqn:E.
  - apply LenEsc; assumption.
  - apply LenPlain; assumption.
Qed.

(* a text free of separators whose backslashes all stand before ordinary characters is its own writing *)
Fixpoint raw_ok (s : str) : bool :=
  match s with
  | [] => true
  | c :: r =>
    if c =? esc_char then
      match r with
      | [] => false
      | d :: r' => negb (is_special d) && raw_ok r'
      end
    else negb (is_sep c) && raw_ok r
  end.

Lemma len_self s : raw_ok s = true -> Len s s.
Proof.
  assert (H : forall (n : nat) s, (length s <= n)%nat -> raw_ok s = true -> Len s s).
  { induction n as [|n IH]; intros [|c r] Hl Hr; try apply LenNil; cbn [length] in Hl; try lia.
    cbn [raw_ok] in Hr. destruct (c =? esc_char) eqn:Ec.
    - destruct r as [|d r']; [discriminate|]. apply andb_prop in Hr. destruct Hr as [Hd Hr'].
      apply N.eqb_eq in Ec. subst c. apply LenRaw; [apply negb_true_iff, Hd|].
      apply IH; [cbn [length] in Hl; lia|exact Hr'].
    - apply andb_prop in Hr. destruct Hr as [Hs Hr']. apply LenPlain.
      + unfold is_special. rewrite Ec. apply negb_true_iff in Hs. rewrite Hs. reflexivity.
      + apply IH; [lia|exact Hr']. }
  apply (H (length s)). apply le_n.
Qed.

Lemma not_special_parts c : is_special c = false -> (c =? esc_char) = false /\ (c =? sep0) = false /\ (c =? sep1) = false.
Proof.
  unfold is_special, is_sep. intros H. apply orb_false_elim in H as [H1 H2]. apply orb_false_elim in H2 as [H2 H3].
  repeat split; assumption.
Qed.

(* ---- cleanse gives the value back *)
Lemma len_unescape s e post : Len s e -> post = [] \/ post = [esc_char] -> unescape (e ++ post) = s ++ post.
Proof.
  intros H Hp. induction H as [|c s e Hc _ IH|c s e Hc _ IH|d s e Hd _ IH].
  - destruct Hp as [-> | ->]; reflexivity.
  - cbn [app]. destruct (not_special_parts c Hc) as [H1 _]. rewrite unescape_cons_plain by exact H1. rewrite IH. reflexivity.
  - cbn [app]. rewrite unescape_escaped by exact Hc. rewrite IH. reflexivity.
  - cbn [app]. rewrite unescape_esc_other by exact Hd. rewrite IH. reflexivity.
Qed.

Lemma lenend_unescape s e : LenEnd s e -> unescape e = s.
Proof.
  intros [H | (s0 & e0 & H & -> & ->)].
  - pose proof (len_unescape s e [] H (or_introl eq_refl)) as E. rewrite !app_nil_r in E. exact E.
  - apply (len_unescape s0 e0 [esc_char] H). right. reflexivity.
Qed.

(* ---- the scanner of split_by_separator passes over a writing as one block *)
Lemma len_closed sep s e : is_a_sep sep -> Len s e -> closed sep e.
Proof.
  intros Hsep H. induction H as [|c s e Hc _ IH|c s e Hc _ IH|d s e Hd _ IH].
  - apply closed_nil.
  - change (c :: e) with ([c] ++ e). apply closed_app; [|exact IH].
    destruct (not_special_parts c Hc) as [H1 [H2 H3]]. apply closed_plain; [exact H1|]. destruct Hsep; subst; assumption.
  - change (esc_char :: c :: e) with ([esc_char; c] ++ e). apply closed_app; [apply closed_escaped|exact IH].
  - change (esc_char :: d :: e) with ([esc_char; d] ++ e). apply closed_app; [apply closed_escaped|exact IH].
Qed.

Lemma lenend_segs sep s e : is_a_sep sep -> LenEnd s e -> segs sep e = [e].
Proof.
  intros Hsep [H | (s0 & e0 & H & _ & ->)].
  - apply closed_segs, (len_closed sep s e Hsep H).
  - destruct (len_closed sep s0 e0 Hsep H [esc_char]) as (h & t & E1 & E2).
    cbn [segs] in E1. rewrite N.eqb_refl in E1. injection E1 as <- <-. exact E2.
Qed.

Lemma lenend_split sep s e : is_a_sep sep -> LenEnd s e -> split_by_separator e sep = SStr e.
Proof. intros Hsep H. unfold split_by_separator. rewrite (lenend_segs sep s e Hsep H). reflexivity. Qed.

(* ---- outer whitespace: the texts of the statements carry none (decidable) *)
Definition trimmed (x : str) : bool :=
  match x with [] => true | c :: _ => negb (is_ws c) && negb (is_ws (last x c)) end.

Lemma rstrip_last x d : x <> [] -> is_ws (last x d) = false -> rstrip x = x.
Proof.
  induction x as [|c r IH]; [congruence|]. intros _ Hl. destruct r as [|c' r'].
  - cbn [last] in Hl. cbn [rstrip]. rewrite Hl. reflexivity.
  - change (last (c :: c' :: r') d) with (last (c' :: r') d) in Hl.
    change (rstrip (c :: c' :: r')) with (match rstrip (c' :: r') with [] => if is_ws c then [] else [c] | t => c :: t end).
    rewrite IH by (try discriminate; exact Hl). reflexivity.
Qed.

Lemma trimmed_strip x : trimmed x = true -> strip x = x.
Proof.
  destruct x as [|c r]; [reflexivity|]. unfold trimmed. intros H. apply andb_prop in H. destruct H as [H1 H2].
  apply negb_true_iff in H1. apply negb_true_iff in H2. unfold strip. cbn [lstrip]. rewrite H1.
  apply (rstrip_last (c :: r) c); [discriminate|exact H2].
Qed.

Lemma last_app_ne {X} (a b : list X) d : b <> [] -> last (a ++ b) d = last b d.
Proof.
  intros Hb. induction a as [|x a IH]; [reflexivity|]. cbn [app].
  destruct (a ++ b) as [|y l] eqn:E.
  - destruct a; [cbn in E; congruence|discriminate].
  - cbn [last]. exact IH.
Qed.

Lemma last_indep' {X} (l : list X) d d' : l <> [] -> last l d = last l d'.
Proof. induction l as [|x [|y r] IH]; intros H; [congruence|reflexivity|]. apply IH. discriminate. Qed.

Lemma trimmed_join sep a b : is_a_sep sep -> trimmed a = true -> trimmed b = true -> trimmed (a ++ [sep] ++ b) = true.
Proof.
  intros Hsep Ha Hb.
  assert (Hws : is_ws sep = false) by (destruct Hsep; subst; [apply ws_sep0|apply ws_sep1]).
  assert (Hlast : forall d, is_ws (last (a ++ [sep] ++ b) d) = false).
  { intros d. rewrite last_app_ne by (destruct b; discriminate). destruct b as [|c r].
    - cbn [app last]. exact Hws.
    - change ([sep] ++ c :: r) with (sep :: c :: r). change (last (sep :: c :: r) d) with (last (c :: r) d).
      unfold trimmed in Hb. apply andb_prop in Hb. destruct Hb as [_ H2]. apply negb_true_iff in H2.
      rewrite (last_indep' (c :: r) d c) by discriminate. exact H2. }
  destruct a as [|c r].
  - cbn [app]. unfold trimmed. rewrite Hws. cbn [negb andb]. specialize (Hlast sep). cbn [app] in Hlast. rewrite Hlast. reflexivity.
  - cbn [app]. unfold trimmed. unfold trimmed in Ha. apply andb_prop in Ha. destruct Ha as [H1 _]. rewrite H1. cbn [andb].
    specialize (Hlast c). cbn [app] in Hlast. rewrite Hlast. reflexivity.
Qed.

(* ---- cleanse on the trees whose cleanse parks escaped backslashes in a temporary character *)
Lemma cleanse_str_unescape e : str_ok e = true -> trimmed e = true -> cleanse_str e = unescape e.
Proof.
  intros Hok Ht. unfold cleanse_str, str_ok in *. rewrite (trimmed_strip e Ht).
  destruct cleanse_tmp as [t|] eqn:Et; [|reflexivity].
  destruct (cleanse_tmp_ok t Et) as [Htok _]. apply (phases_one_pass t Htok). apply negb_true_iff, Hok.
Qed.

(* ------------------------------------------------------------------ cells *)
(* ONE text in a cell that the parser splits: read as the text itself *)
Theorem cell_parse_raw_scalar s e :
  LenEnd s e -> str_ok e = true -> trimmed e = true -> cell_parse e = Str s.
Proof.
  intros H Hok Ht. unfold cell_parse. rewrite (trimmed_strip e Ht). unfold split_into_lists.
  rewrite (lenend_split sep0 s e (or_introl eq_refl) H). cbn [split_res_to_nv].
  rewrite (lenend_split sep1 s e (or_intror eq_refl) H). cbn [split_res_to_nv cleanse].
  rewrite (cleanse_str_unescape e Hok Ht), (lenend_unescape s e H). reflexivity.
Qed.

(* the text of the seed: a text that is its own writing (no separator, every backslash before an ordinary character)
   is read from a split cell as from an unsplit one *)
Corollary cell_parse_raw_self s :
  raw_ok s = true -> str_ok s = true -> trimmed s = true -> cell_parse s = Str (strip s).
Proof.
  intros Hr Hok Ht. rewrite (trimmed_strip s Ht). apply cell_parse_raw_scalar; [left; apply len_self, Hr|exact Hok|exact Ht].
Qed.

Lemma len_nil_inv s : Len s [] -> s = [].
Proof. intros H. inversion H. reflexivity. Qed.

Lemma lenend_nil_inv s : LenEnd s [] -> s = [].
Proof.
  intros [H | (s0 & e0 & _ & _ & E)]; [apply len_nil_inv, H|]. destruct e0; discriminate.
Qed.

(* TWO texts joined by a separator (either one): the list of the two values.  The first text is followed by the
   separator (Len), the second ends the cell (LenEnd) *)
Theorem cell_parse_raw_pair sep a b ea eb :
  is_a_sep sep -> Len a ea -> LenEnd b eb -> eb <> [] ->
  str_ok ea = true -> str_ok eb = true -> trimmed ea = true -> trimmed eb = true ->
  cell_parse (ea ++ [sep] ++ eb) = Lst [Str a; Str b].
Proof.
  intros Hsep Ha Hb Hne Hoa Hob Hta Htb. unfold cell_parse.
  rewrite (trimmed_strip _ (trimmed_join sep ea eb Hsep Hta Htb)).
  assert (Hsegs : forall sp, is_a_sep sp -> segs sp (ea ++ [sep] ++ eb)
                  = if sp =? sep then [ea; eb] else [ea ++ [sep] ++ eb]).
  { intros sp Hsp. destruct (len_closed sp a ea Hsp Ha ([sep] ++ eb)) as (h & t & E1 & E2). rewrite E2.
    cbn [app segs] in E1. rewrite (is_a_sep_ne_esc sep Hsep) in E1.
    rewrite (N.eqb_sym sep sp) in E1. destruct (sp =? sep) eqn:Es.
    - rewrite (lenend_segs sp b eb Hsp Hb) in E1. injection E1 as <- <-. rewrite app_nil_r. reflexivity.
    - rewrite (lenend_segs sp b eb Hsp Hb) in E1. injection E1 as <- <-. reflexivity. }
  assert (Hc : forall x y, LenEnd x y -> str_ok y = true -> trimmed y = true -> cleanse_str y = x).
  { intros x y H Hok Ht. rewrite (cleanse_str_unescape y Hok Ht). apply lenend_unescape, H. }
  assert (Hca : cleanse_str ea = a) by (apply Hc; [left; exact Ha|exact Hoa|exact Hta]).
  assert (Hcb : cleanse_str eb = b) by (apply Hc; assumption).
  assert (Hdl : drop_last_empty [ea; eb] = [ea; eb]).
  { cbn [drop_last_empty]. destruct eb; [congruence|reflexivity]. }
  unfold split_into_lists, split_by_separator.
  destruct Hsep as [-> | ->].
  - rewrite (Hsegs sep0 (or_introl eq_refl)), N.eqb_refl, Hdl. cbn [map].
    rewrite (closed_segs sep1 ea (len_closed sep1 a ea (or_intror eq_refl) Ha)).
    rewrite (lenend_segs sep1 b eb (or_intror eq_refl) Hb). cbn [split_res_to_nv cleanse map]. rewrite Hca, Hcb. reflexivity.
  - rewrite (Hsegs sep0 (or_introl eq_refl)), sep0_ne_sep1. cbn [split_res_to_nv].
    rewrite (Hsegs sep1 (or_intror eq_refl)), N.eqb_refl, Hdl. cbn [split_res_to_nv cleanse map]. rewrite Hca, Hcb. reflexivity.
Qed.

(* ------------------------------------------------------------------ rows *)
From Coq Require Import String Ascii.       (* the s!"…" literals of EncodesExamples *)
Local Open Scope N_scope.
Local Open Scope list_scope.
(* class RF: f: List[str] = [] *)
Definition rmF : rowmodel := {| rm_ty := TModel [(s!"f", (TList TStr, Some (VList [])))] [] []; rm_ctx := None |}.
Definition rowF (xs : list str) : value := VModel [(s!"f", VList (map VStr xs))].
(* the list [a; b] in ONE cell `f` (ea, eb: writings of a, b; sep: either separator) / spread over `f.1`, `f.2` *)
Definition f_packed (sep : char) (ea eb : str) : list (str * str) := [(s!"f", ea ++ [sep] ++ eb)].
Definition f_spread (a b : str) : list (str * str) := [(s!"f.1", a); (s!"f.2", b)].
(* the one-element list [a] as a cell without separator *)
Definition f_scalar (ea : str) : list (str * str) := [(s!"f", ea)].
Definition f_spread1 (a : str) : list (str * str) := [(s!"f.1", a)].

Lemma encodes_f_packed sep a b ea eb :
  is_a_sep sep -> Len a ea -> LenEnd b eb -> eb <> [] ->
  str_ok ea = true -> str_ok eb = true -> trimmed ea = true -> trimmed eb = true ->
  Encodes rmF (rowF [a; b]) (f_packed sep ea eb).
Proof.
  intros Hsep Ha Hb Hne Hoa Hob Hta Htb.
  apply (Encodes_intro _ _ _ (f_packed sep ea eb)); [reflexivity|reflexivity|].
  change (cols_of (f_packed sep ea eb)) with [([s!"f"], Raw (ea ++ [sep] ++ eb))].
  apply EncModelSpread; [discriminate|nodup|repeat constructor; vm_compute; discriminate|].
  apply FieldsCons; [|apply FieldsNil].
  change (sub_key [] s!"f" [([s!"f"], Raw (ea ++ [sep] ++ eb))]) with [(@nil str, Raw (ea ++ [sep] ++ eb))].
  apply EncCell. change (leaf_value (TList TStr) (Raw (ea ++ [sep] ++ eb))) with (cell_parse (ea ++ [sep] ++ eb)).
  rewrite (cell_parse_raw_pair sep a b ea eb Hsep Ha Hb Hne Hoa Hob Hta Htb).
  cbn [map]. apply NvList. apply NvsCons; [apply NvStr|]. apply NvsCons; [apply NvStr|]. apply NvsNil.
Qed.

Lemma encodes_f_spread a b : trimmed a = true -> trimmed b = true -> Encodes rmF (rowF [a; b]) (f_spread a b).
Proof.
  intros Ha Hb.
  apply (Encodes_intro _ _ _ (f_spread a b)); [reflexivity|reflexivity|].
  change (cols_of (f_spread a b)) with [([s!"f"; s!"1"], Raw a); ([s!"f"; s!"2"], Raw b)].
  apply EncModelSpread; [discriminate|nodup|repeat constructor; vm_compute; discriminate|].
  apply FieldsCons; [|apply FieldsNil].
  change (sub_key [] s!"f" [([s!"f"; s!"1"], Raw a); ([s!"f"; s!"2"], Raw b)]) with [([s!"1"], Raw a); ([s!"2"], Raw b)].
  cbn [map]. apply EncListSpread; [reflexivity|discriminate|vm_compute; reflexivity|].
  change (child_ty (TList TStr)) with TStr.
  apply ElemsCons.
  - change (sub_idx 0 [([s!"1"], Raw a); ([s!"2"], Raw b)]) with [(@nil str, Raw a)]. discriminate.
  - change (sub_idx 0 [([s!"1"], Raw a); ([s!"2"], Raw b)]) with [(@nil str, Raw a)].
    apply EncCell. change (leaf_value TStr (Raw a)) with (Str (strip a)). rewrite (trimmed_strip a Ha). apply NvStr.
  - apply ElemsCons.
    + change (sub_idx 1 [([s!"1"], Raw a); ([s!"2"], Raw b)]) with [(@nil str, Raw b)]. discriminate.
    + change (sub_idx 1 [([s!"1"], Raw a); ([s!"2"], Raw b)]) with [(@nil str, Raw b)].
      apply EncCell. change (leaf_value TStr (Raw b)) with (Str (strip b)). rewrite (trimmed_strip b Hb). apply NvStr.
    + apply ElemsNil.
Qed.

(* "a list given as f.1, f.2 or as one f cell with ;" for texts with backslashes: for ALL a, b and all their writings *)
Theorem raw_list_packed_is_spread sep a b ea eb :
  is_a_sep sep -> Len a ea -> LenEnd b eb -> eb <> [] ->
  str_ok ea = true -> str_ok eb = true -> trimmed ea = true -> trimmed eb = true -> trimmed a = true -> trimmed b = true ->
  parse_row rmF (f_packed sep ea eb) = Ok (rowF [a; b]) /\ parse_row rmF (f_spread a b) = Ok (rowF [a; b]).
Proof.
  intros Hsep Ha Hb Hne Hoa Hob Hta Htb Hsa Hsb. split.
  - apply encodes_parse. apply encodes_f_packed; assumption.
  - apply encodes_parse. apply encodes_f_spread; assumption.
Qed.

(* the seed's own case: the SAME cell texts under `f.1`, `f.2` and joined in one `f` cell — texts without separator
   whose backslashes stand before ordinary characters (^\d+$ ; \w+ \w+) *)
Corollary raw_list_same_texts sep a b :
  is_a_sep sep -> raw_ok a = true -> raw_ok b = true -> b <> [] ->
  str_ok a = true -> str_ok b = true -> trimmed a = true -> trimmed b = true ->
  parse_row rmF (f_packed sep a b) = parse_row rmF (f_spread a b).
Proof.
  intros Hsep Ha Hb Hne Hoa Hob Hta Htb.
  destruct (raw_list_packed_is_spread sep a b a b Hsep (len_self a Ha) (or_introl (len_self b Hb)) Hne Hoa Hob Hta Htb Hta Htb) as [E1 E2].
  rewrite E1, E2. reflexivity.
Qed.

(* the one-element list as a bare cell (also: the content of a `*` cell holding ONE value, asterisk_broadcast_row's
   premise [cell_parse (st_txt c) = Str s]) *)
Lemma encodes_f_scalar a ea :
  LenEnd a ea -> a <> [] -> str_ok ea = true -> trimmed ea = true -> Encodes rmF (rowF [a]) (f_scalar ea).
Proof.
  intros Ha Hne Hoa Hta.
  apply (Encodes_intro _ _ _ (f_scalar ea)); [reflexivity|reflexivity|].
  change (cols_of (f_scalar ea)) with [([s!"f"], Raw ea)].
  apply EncModelSpread; [discriminate|nodup|repeat constructor; vm_compute; discriminate|].
  apply FieldsCons; [|apply FieldsNil].
  change (sub_key [] s!"f" [([s!"f"], Raw ea)]) with [(@nil str, Raw ea)].
  apply EncCell. change (leaf_value (TList TStr) (Raw ea)) with (cell_parse ea).
  rewrite (cell_parse_raw_scalar a ea Ha Hoa Hta). cbn [map]. apply NvListScalar; [exact Hne|apply NvStr].
Qed.

Theorem raw_list_scalar_is_spread a ea :
  LenEnd a ea -> a <> [] -> str_ok ea = true -> trimmed ea = true -> trimmed a = true ->
  parse_row rmF (f_scalar ea) = Ok (rowF [a]) /\ parse_row rmF (f_spread1 a) = Ok (rowF [a]).
Proof.
  intros Ha Hne Hoa Hta Hsa. split.
  - apply encodes_parse, encodes_f_scalar; assumption.
  - apply encodes_parse.
    apply (Encodes_intro _ _ _ (f_spread1 a)); [reflexivity|reflexivity|].
    change (cols_of (f_spread1 a)) with [([s!"f"; s!"1"], Raw a)].
    apply EncModelSpread; [discriminate|nodup|repeat constructor; vm_compute; discriminate|].
    apply FieldsCons; [|apply FieldsNil].
    change (sub_key [] s!"f" [([s!"f"; s!"1"], Raw a)]) with [([s!"1"], Raw a)].
    cbn [map]. apply EncListSpread; [reflexivity|discriminate|vm_compute; reflexivity|].
    change (child_ty (TList TStr)) with TStr.
    apply ElemsCons; [change (sub_idx 0 [([s!"1"], Raw a)]) with [(@nil str, Raw a)]; discriminate| |apply ElemsNil].
    change (sub_idx 0 [([s!"1"], Raw a)]) with [(@nil str, Raw a)].
    apply EncCell. change (leaf_value TStr (Raw a)) with (Str (strip a)). rewrite (trimmed_strip a Hsa). apply NvStr.
Qed.

(* "a sub-record given as f.a, f.b or as one cell of positional entries": the record AB of EncodesExamples, texts with
   backslashes in any writing (the side condition on field names is positional_is_spread_partial's) *)
Theorem raw_record_positional_is_spread a b ea eb :
  Len a ea -> LenEnd b eb -> eb <> [] ->
  str_ok ea = true -> str_ok eb = true -> trimmed ea = true -> trimmed eb = true -> trimmed a = true -> trimmed b = true ->
  has_field fieldsAB a = false ->
  parse_row rmAB [(s!"m", ea ++ [sep0] ++ eb)] = Ok (rowAB a b) /\ parse_row rmAB (ab_spread a b) = Ok (rowAB a b).
Proof.
  intros Ha Hb Hne Hoa Hob Hta Htb Hsa Hsb Hnf. split.
  - apply encodes_parse.
    apply (Encodes_intro _ _ _ [(s!"m", ea ++ [sep0] ++ eb)]); [reflexivity|reflexivity|].
    change (cols_of [(s!"m", ea ++ [sep0] ++ eb)]) with [([s!"m"], Raw (ea ++ [sep0] ++ eb))].
    apply EncModelSpread; [discriminate|nodup|repeat constructor; vm_compute; discriminate|].
    apply FieldsCons; [|apply FieldsNil].
    change (sub_key [] s!"m" [([s!"m"], Raw (ea ++ [sep0] ++ eb))]) with [(@nil str, Raw (ea ++ [sep0] ++ eb))].
    apply EncCell. change (leaf_value tAB (Raw (ea ++ [sep0] ++ eb))) with (cell_parse (ea ++ [sep0] ++ eb)).
    rewrite (cell_parse_raw_pair sep0 a b ea eb (or_introl eq_refl) Ha Hb Hne Hoa Hob Hta Htb).
    apply (NvModelArgs fieldsAB [] [] (Lst [Str a; Str b]) [(s!"a", VStr a); (s!"b", VStr b)]).
    + nodup.
    + cbn [entries_of as_kwarg remap_get oget]. rewrite Hnf. reflexivity.
    + cbn [entries_of]. eapply ArgsPos; [reflexivity|reflexivity|apply NvStr|].
      eapply ArgsPos; [reflexivity|reflexivity|apply NvStr|]. apply ArgsNil.
    + nodup.
    + reflexivity.
  - apply encodes_parse.
    apply (Encodes_intro _ _ _ (ab_spread a b)); [reflexivity|reflexivity|].
    change (cols_of (ab_spread a b)) with [([s!"m"; s!"a"], Raw a); ([s!"m"; s!"b"], Raw b)].
    apply EncModelSpread; [discriminate|nodup|repeat constructor; vm_compute; discriminate|].
    apply FieldsCons; [|apply FieldsNil].
    change (sub_key [] s!"m" [([s!"m"; s!"a"], Raw a); ([s!"m"; s!"b"], Raw b)]) with [([s!"a"], Raw a); ([s!"b"], Raw b)].
    apply EncModelSpread; [discriminate|nodup|repeat constructor; vm_compute; discriminate|].
    apply FieldsCons; [|apply FieldsCons; [|apply FieldsNil]].
    + change (sub_key [] s!"a" [([s!"a"], Raw a); ([s!"b"], Raw b)]) with [(@nil str, Raw a)].
      apply EncCell. change (leaf_value TStr (Raw a)) with (Str (strip a)). rewrite (trimmed_strip a Hsa). apply NvStr.
    + change (sub_key [] s!"b" [([s!"a"], Raw a); ([s!"b"], Raw b)]) with [(@nil str, Raw b)].
      apply EncCell. change (leaf_value TStr (Raw b)) with (Str (strip b)). rewrite (trimmed_strip b Hsb). apply NvStr.
Qed.

(* ------------------------------------------------------------------ non-vacuity *)
(* ^\d+$ and \w+ \w+ (the seed's texts); C:\temp\ written C:\temp\\ in front of the separator and C:\temp\ at the end *)
Definition t_digits : str := s!"^\d+$".
Definition t_words : str := s!"\w+ \w+".
Definition t_path : str := s!"C:\temp\".

Example raw_texts_nonvacuous :
  raw_ok t_digits = true /\ raw_ok t_words = true /\ trimmed t_digits = true /\ trimmed t_words = true /\
  str_ok t_digits = true /\ str_ok t_words = true /\
  parse_row rmF (f_packed sep1 t_digits t_words) = Ok (rowF [t_digits; t_words]) /\
  parse_row rmF (f_spread t_digits t_words) = Ok (rowF [t_digits; t_words]) /\
  Len t_path s!"C:\temp\\" /\ LenEnd t_path t_path /\ raw_ok t_path = false /\
  parse_row rmF (f_packed sep0 s!"C:\temp\\" t_path) = Ok (rowF [t_path; t_path]) /\
  cell_parse t_digits = Str t_digits /\
  parse_row rmAB [(s!"m", t_digits ++ [sep0] ++ t_path)] = Ok (rowAB t_digits t_path).
Proof.
  assert (Hl : Len t_path s!"C:\temp\\").
  { change t_path with (s!"C:\temp" ++ [esc_char]). change (s!"C:\temp\\") with (s!"C:\temp" ++ [esc_char; esc_char]).
    assert (H0 : Len [esc_char] [esc_char; esc_char]) by (apply LenEsc; [reflexivity|apply LenNil]).
    assert (Happ : forall x y, Len x x -> Len y (y ++ [esc_char]) -> True) by (intros; exact I).
    clear Happ. repeat (first [apply LenPlain; [reflexivity|] | apply LenRaw; [reflexivity|]]). exact H0. }
  assert (He : LenEnd t_path t_path).
  { right. exists s!"C:\temp", s!"C:\temp". split; [apply len_self; reflexivity|split; reflexivity]. }
  repeat split; try reflexivity; try exact Hl; try exact He; vm_compute; reflexivity.
Qed.
