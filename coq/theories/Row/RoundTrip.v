(* E2 — the vocabulary of the round-trip theorems of C07: the tree the parser builds for an
   instance ([enc]), the domain of the statement ([dom] = representable + admissible under a
   layout) as an executable predicate, the packed-cell side conditions ([packed_ok]).
   Definitions only; the facts are in Row/RoundTripFacts.v. *)
From Coq Require Import List NArith ZArith Bool.
From RPFT Require Import Base.Sexp Base.PyStr Base.Result Base.ODict Gen.Tables Cell.Cell Cell.CellFacts
  Row.Ty Row.Layout Row.RowParse Row.RowUnparse Row.TextFacts.
Import ListNotations.
Local Open Scope N_scope.

Definition noexc (_ : list str) : bool := false.

(* ---- the parser's tree for an instance ------------------------------------------------ *)
Fixpoint enc_u (v : value) : out :=
  match v with
  | VStr s => OStr s
  | VList l => OList (map enc_u l)
  | _ => ONone
  end.

Fixpoint enc (t : ty) (v : value) {struct t} : out :=
  match t, v with
  | TStr, VStr s => OStr s
  | TInt, VInt z => OInt z
  | TFloat, VFloat s => OFloat s
  | TBool, VBool b => OBool b
  | TUList, VList l => OList (map enc_u l)
  | TList t', VList l => OList (map (enc t') l)
  | TModel fields _ _, VModel fs =>
    ODict ((fix go (fds : list field) (fs : list (str * value)) : list (str * out) :=
              match fds, fs with
              | (n, (tf, d)) :: fds', (_, v') :: fs' =>
                if is_default d v' then go fds' fs' else (n, enc tf v') :: go fds' fs'
              | _, _ => []
              end) fields fs)
  | _, _ => ONone
  end.

(* ---- basic values: text that reads back --------------------------------------------------- *)
Definition basic_ok (t : ty) (v : value) : bool :=
  match t, v with
  | TStr, VStr s => trimmedb s
  | TInt, VInt _ => true
  | TFloat, VFloat s => float_canon s
  | TBool, VBool _ => true
  | _, _ => false
  end.

Fixpoint nv_trimmed (x : nv) : bool :=
  match x with
  | Str s => trimmedb s
  | Lst l => forallb nv_trimmed l
  end.

(* ---- a value written into ONE cell (to_nested_list + join) reads back ------------------------
   the cell codec's domain ON THE TREE AT HAND (C08: wfb_tree — at most two list levels for the value at hand,
   lists non-empty, no U+0001 while cleanse has a temporary character, and — only on a tree whose
   join_from_lists does not keep an empty last element, Gen/Tables.v: join_keeps_blank_last — a list of two
   or more does not end in a blank string), every string
   trimmed, and the shape the positional/keyword decoder of assign_value inverts:
   a list of basics, a list of lists of basics, a bare list, or a model whose written
   (non-default) fields are basic and keep their name under header_name_to_field_name.
   An empty typed list is written "" and read back as []. *)
Fixpoint fields_packable (fds : list field) (h2f : remap) (fs : list (str * value)) : bool :=
  match fds, fs with
  | [], [] => true
  | (n, (tf, d)) :: fds', (n', v') :: fs' =>
    str_eqb n n'
    && (if is_default d v' then true
        else is_basic_ty tf && basic_ok tf v' && str_eqb (remap_get h2f n) n)
    && fields_packable fds' h2f fs'
  | _, _ => false
  end.

Definition elems_packable (t' : ty) (l : list value) : bool :=
  if is_basic_ty t' then forallb (basic_ok t') l
  else match t' with
       | TList b => is_basic_ty b
                    && forallb (fun e => match e with VList l2 => forallb (basic_ok b) l2 | _ => false end) l
       | _ => false
       end.

Definition nodup_names (fields : list field) : bool := nodup_str (map f_name fields).

Definition packed_ok (t : ty) (v : value) : bool :=
  match t, v with
  | TList _, VList [] => true
  | _, _ =>
    match to_nv t v with
    | Ok x =>
      wfb_tree x && nv_trimmed x &&
      match t, v with
      | TList t', VList l => elems_packable t' l
      | TUList, VList _ => true
      | TModel fds h2f _, VModel fs => nodup_names fds && fields_packable fds h2f fs
      | _, _ => false
      end
    | Err _ => false
    end
  end.

(* ---- the domain of the round trip under a layout ---------------------------------------------
   tgt = "this prefix is packed into one cell" (matches_headers targets).  No excluded headers. *)
Section Dom.
  Variable tgt : list str -> bool.

  (* the value writes at least one column at this prefix (an all-default model, an empty list
     write nothing: inside a list, or under a non-default default, they cannot come back) *)
  Definition writes (t : ty) (v : value) (comps : list str) : bool :=
    match unparse_rec tgt noexc t v comps with Ok (_ :: _) => true | _ => false end.

  Fixpoint dom (t : ty) (v : value) (comps : list str) {struct t} : bool :=
    if is_basic_ty t then basic_ok t v
    else if tgt comps then packed_ok t v
    else
      match t, v with
      | TList t', VList l =>
        (fix go (i : nat) (l : list value) : bool :=
           match l with
           | [] => true
           | e :: r => let c := comps ++ [print_nat (S i)] in
                       writes t' e c && dom t' e c && go (S i) r
           end) O l
      | TUList, VList l =>
        forallb (fun e => match e with VStr s => trimmedb s | _ => false end) l
      | TModel fields h2f f2h, VModel fs =>
        nodup_names fields &&
        (fix go (fds : list field) (fs : list (str * value)) : bool :=
           match fds, fs with
           | [], [] => true
           | (n, (tf, d)) :: fds', (n', v') :: fs' =>
             str_eqb n n'
             && (if is_default d v' then true
                 else
                   let h := remap_get f2h n in
                   name_ok h && str_eqb (remap_get h2f h) n
                   && (if str_eqb n h then writes tf v' (comps ++ [h]) && dom tf v' (comps ++ [h])
                       else if is_basic_ty tf then basic_ok tf v' else packed_ok tf v'))
             && go fds' fs'
           | _, _ => false
           end) fields fs
      | _, _ => false
      end.
End Dom.

(* the row-level statement's domain: the root is a model, spread (the empty prefix never
   matches a header) *)
Definition row_dom (root : ty) (v : value) (targets : list str) : bool :=
  is_model_ty root && dom (matches_headers targets) root v [].

(* ---- custom induction principles ---------------------------------------------------------------- *)
Section TyInd.
  Variable P : ty -> Prop.
  Hypothesis HStr : P TStr.
  Hypothesis HInt : P TInt.
  Hypothesis HFloat : P TFloat.
  Hypothesis HBool : P TBool.
  Hypothesis HUList : P TUList.
  Hypothesis HList : forall t, P t -> P (TList t).
  Hypothesis HModel : forall fields h2f f2h, Forall (fun f => P (f_ty f)) fields -> P (TModel fields h2f f2h).

  Fixpoint ty_ind' (t : ty) : P t :=
    match t with
    | TStr => HStr | TInt => HInt | TFloat => HFloat | TBool => HBool | TUList => HUList
    | TList t' => HList t' (ty_ind' t')
    | TModel fields h2f f2h =>
      HModel fields h2f f2h
        ((fix go (fs : list field) : Forall (fun f => P (f_ty f)) fs :=
            match fs with
            | [] => Forall_nil _
            | (n, (tf, d)) :: r => Forall_cons (n, (tf, d)) (ty_ind' tf) (go r)
            end) fields)
    end.
End TyInd.

Section ValueInd.
  Variable P : value -> Prop.
  Hypothesis HStr : forall s, P (VStr s).
  Hypothesis HInt : forall z, P (VInt z).
  Hypothesis HFloat : forall s, P (VFloat s).
  Hypothesis HBool : forall b, P (VBool b).
  Hypothesis HList : forall l, Forall P l -> P (VList l).
  Hypothesis HModel : forall fs, Forall (fun kv => P (snd kv)) fs -> P (VModel fs).

  Fixpoint value_ind' (v : value) : P v :=
    match v with
    | VStr s => HStr s | VInt z => HInt z | VFloat s => HFloat s | VBool b => HBool b
    | VList l =>
      HList l ((fix go (l : list value) : Forall P l :=
                  match l with [] => Forall_nil _ | x :: r => Forall_cons x (value_ind' x) (go r) end) l)
    | VModel fs =>
      HModel fs ((fix go (l : list (str * value)) : Forall (fun kv => P (snd kv)) l :=
                    match l with
                    | [] => Forall_nil _
                    | (k, x) :: r => Forall_cons (k, x) (value_ind' x) (go r)
                    end) fs)
    end.
End ValueInd.

Section NvInd.
  Variable P : nv -> Prop.
  Hypothesis HS : forall s, P (Str s).
  Hypothesis HL : forall l, Forall P l -> P (Lst l).
  Fixpoint nv_ind' (x : nv) : P x :=
    match x with
    | Str s => HS s
    | Lst l => HL l ((fix go (l : list nv) : Forall P l :=
                        match l with [] => Forall_nil _ | y :: r => Forall_cons y (nv_ind' y) (go r) end) l)
    end.
End NvInd.
