(* C18 — the small type universe of model inference, the schema family the theorems
   quantify over, its rendering to annotated headers ([headers_of]) and the explicit model
   a schema denotes ([denote]).  Definitions only.

   [ty]/[dv] describe what model_inference.model_from_headers_rec returns: a type
   (str/int/float/bool/list/typing.List/List[T]/a pydantic model class, given by its ordered
   fields with outer type and default) and a default value.  Model class *names* are not
   part of the universe (they are name.title()+field.title(), irrelevant to parsing). *)
From Coq Require Import List NArith ZArith Bool.
From RPFT Require Import Base.Sexp Base.PyStr Gen.Tables.
Import ListNotations.
Local Open Scope N_scope.

(* default values.  [VFloat lit] is the Python float denoted by the literal [lit]
   (float(lit)); [VNone] is the hole dict_to_list leaves at an index no header mentions. *)
Inductive dv :=
| VNone
| VStr (s : str)
| VInt (z : Z)
| VFloat (lit : str)
| VBool (b : bool)
| VList (l : list dv)
| VRec (fields : list (str * dv)).

Inductive ty :=
| TStr | TInt | TFloat | TBool
| TUList                     (* builtin list *)
| TAnyList                   (* typing.List, bare *)
| TList (t : ty)             (* typing.List[t] *)
| TRec (fields : list (str * (ty * dv))).   (* create_model(..., __base__=ParserModel, **fields) *)

Definition model : Type := ty * dv.

Inductive ierr :=
| EUnknownType        (* RowParserError / SyntaxError / ... from type_from_string *)
| EBadDefault         (* ValueError from int(v) / float(v) *)
| EIndex              (* IndexError in dict_to_list *)
| EOutOfFuel.         (* never accepted by a theorem; proved unreachable for [infer] *)

(* ---- types an annotation can express *)
Inductive ann := AStr | AInt | AFloat | ABool | AUList | AAnyList | AList (a : ann).

Fixpoint ty_of_ann (a : ann) : ty :=
  match a with
  | AStr => TStr | AInt => TInt | AFloat => TFloat | ABool => TBool
  | AUList => TUList | AAnyList => TAnyList | AList b => TList (ty_of_ann b)
  end.

(* type() for the types an annotation can express: "", 0, 0.0, False, [] *)
Definition float_zero_lit : str := [48; 46; 48].   (* "0.0" = repr(float()) *)
Definition zero_of_ann (a : ann) : dv :=
  match a with
  | AStr => VStr [] | AInt => VInt 0%Z | AFloat => VFloat float_zero_lit | ABool => VBool false
  | AUList | AAnyList | AList _ => VList []
  end.

(* ---- the schema family *)
(* whitespace padding of a leaf header:  p0 name p1 [: p2 type p3] [= p4 default p5] *)
Record pads := mk_pads { p0 : str; p1 : str; p2 : str; p3 : str; p4 : str; p5 : str }.
Definition no_pads : pads := mk_pads [] [] [] [] [] [].

Inductive leaf :=
| LStr (explicit : bool) (d : option str)   (* f | f:str | f=v | f:str=v *)
| LInt (d : option Z)                       (* f:int[=z] *)
| LFloat (d : option str)                   (* f:float[=lit] *)
| LBool (d : option bool)                   (* f:bool[=True|False] *)
| LAnn (a : ann).                           (* f:list, f:List, f:List[T] (no default) *)

Inductive sty :=
| SLeaf (p : pads) (l : leaf)
| SSpread (es : list sty)                   (* f.1 f.2 ... f.n *)
| SRec (fs : list (str * sty)).             (* f.a f.b ... *)

Definition schema : Type := list (str * sty).

Definition is_leafb (s : sty) : bool := match s with SLeaf _ _ => true | _ => false end.

(* ---- decimal rendering of numbers (str(n) of Python for an int) *)
Fixpoint digits_le (fuel : nat) (n : N) : list N :=   (* little endian *)
  match fuel with
  | O => []
  | S f => if n <? 10 then [n] else (n mod 10) :: digits_le f (n / 10)
  end.
Definition str_of_N (n : N) : str :=
  rev (map (fun d => 48 + d) (digits_le (S (N.to_nat (N.log2 n))) n)).
Definition str_of_Z (z : Z) : str :=
  if (z <? 0)%Z then 45 :: str_of_N (Z.to_N (Z.opp z)) else str_of_N (Z.to_N z).

(* ---- rendering *)
Definition s_str : str := [115; 116; 114].
Definition s_int : str := [105; 110; 116].
Definition s_float : str := [102; 108; 111; 97; 116].
Definition s_bool : str := [98; 111; 111; 108].
Definition s_list : str := [108; 105; 115; 116].
Definition s_True : str := [84; 114; 117; 101].
Definition s_False : str := [70; 97; 108; 115; 101].

Fixpoint render_ann (a : ann) : str :=
  match a with
  | AStr => s_str | AInt => s_int | AFloat => s_float | ABool => s_bool | AUList => s_list
  | AAnyList => inf_generic_name
  | AList b => inf_generic_name ++ inf_generic_open :: render_ann b ++ [inf_generic_close]
  end.

Definition type_text (l : leaf) : option str :=
  match l with
  | LStr false _ => None
  | LStr true _ => Some s_str
  | LInt _ => Some s_int
  | LFloat _ => Some s_float
  | LBool _ => Some s_bool
  | LAnn a => Some (render_ann a)
  end.

Definition default_text (l : leaf) : option str :=
  match l with
  | LStr _ d => d
  | LInt d => option_map str_of_Z d
  | LFloat d => d
  | LBool d => option_map (fun b : bool => if b then s_True else s_False) d
  | LAnn _ => None
  end.

Definition render_leaf (p : pads) (name : str) (l : leaf) : str :=
  p0 p ++ name ++ p1 p
  ++ match type_text l with Some t => inf_ann_sep :: p2 p ++ t ++ p3 p | None => [] end
  ++ match default_text l with Some d => inf_dflt_sep :: p4 p ++ d ++ p5 p | None => [] end.

Definition prefix_field (name : str) (h : str) : str := name ++ inf_hdr_sep :: h.

(* index-spread entries are the fields "1", "2", ... *)
Fixpoint numbered {T} (i : N) (es : list T) : list (str * T) :=
  match es with
  | [] => []
  | e :: r => (str_of_N i, e) :: numbered (i + 1) r
  end.

(* the headers of field [name] with schema [s] *)
Fixpoint headers_of_field (name : str) (s : sty) : list str :=
  match s with
  | SLeaf p l => [render_leaf p name l]
  | SSpread es =>
    map (prefix_field name)
        ((fix go (i : N) (es : list sty) : list str :=
            match es with
            | [] => []
            | e :: r => headers_of_field (str_of_N i) e ++ go (i + 1) r
            end) 1 es)
  | SRec fs =>
    map (prefix_field name)
        (flat_map (fun nt : str * sty => headers_of_field (fst nt) (snd nt)) fs)
  end.

Definition headers_of_fields (fs : list (str * sty)) : list str :=
  flat_map (fun nt : str * sty => headers_of_field (fst nt) (snd nt)) fs.

(* the named children of a dotted field, and the sub-headers grouped under it *)
Definition children (s : sty) : list (str * sty) :=
  match s with
  | SLeaf _ _ => []
  | SSpread es => numbered 1 es
  | SRec fs => fs
  end.
Definition subs (s : sty) : list str := headers_of_fields (children s).

Definition headers_of (sc : schema) : list str := headers_of_fields sc.

(* ---- the explicit model a schema denotes *)
Definition denote_leaf (l : leaf) : model :=
  match l with
  | LStr _ d => (TStr, VStr (match d with Some s => s | None => [] end))
  | LInt d => (TInt, VInt (match d with Some z => z | None => 0%Z end))
  | LFloat d => (TFloat, VFloat (match d with Some s => s | None => float_zero_lit end))
  | LBool d => (TBool, VBool (match d with Some b => b | None => false end))
  | LAnn a => (ty_of_ann a, zero_of_ann a)
  end.

Definition rec_model (fields : list (str * model)) : model :=
  (TRec fields, VRec (map (fun f : str * model => (fst f, snd (snd f))) fields)).

(* the inferred class lists the fields given by a plain column first (in column order),
   then the fields given by dotted columns (in order of first appearance) *)
Definition leaf_first {T} (l : list (str * bool * T)) : list (str * T) :=
  map (fun x => (fst (fst x), snd x)) (filter (fun x => snd (fst x)) l)
  ++ map (fun x => (fst (fst x), snd x)) (filter (fun x => negb (snd (fst x))) l).

Fixpoint denote_sty (s : sty) : model :=
  match s with
  | SLeaf _ l => denote_leaf l
  | SSpread es =>
    (* List[type of the last entry]; default = the entries' defaults in index order *)
    let ms := map denote_sty es in
    (TList (fst (last ms (TStr, VNone))), VList (map snd ms))
  | SRec fs =>
    rec_model (leaf_first (map (fun nt : str * sty => (fst nt, is_leafb (snd nt), denote_sty (snd nt))) fs))
  end.

Definition denote (sc : schema) : model := denote_sty (SRec sc).
