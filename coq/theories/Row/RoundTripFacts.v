(* E2 — the round-trip theorems of C07 (row codec): writing an instance as a row of cells
   and parsing the row again.  Induction over the model universe; packed leaves are
   discharged with the cell codec's round trip (Cell/CellFacts.v).  No axioms. *)
From Coq Require Import List NArith ZArith Bool Lia ZifyBool Arith.
From RPFT Require Import Base.Sexp Base.PyStr Base.PyStrFacts Base.Result Base.ODict Gen.Tables
  Cell.Cell Cell.CellFacts Row.Ty Row.Layout Row.RowParse Row.RowUnparse Row.TextFacts Row.RoundTrip.
Import ListNotations.
Local Open Scope N_scope.

(* ================================================================== A. generalities *)
Lemma foldM_app {E S A} (f : A -> S -> result E A) l1 l2 a :
  foldM f (l1 ++ l2) a = match foldM f l1 a with Ok a' => foldM f l2 a' | Err e => Err e end.
Proof.
  revert a. induction l1 as [|x r IH]; intros a; [reflexivity|].
  cbn [app foldM]. destruct (f a x); [apply IH|reflexivity].
Qed.

Lemma bind_ok {E S T} (r : result E S) (f : S -> result E T) v : r = Ok v -> bind r f = f v.
Proof. intros ->. reflexivity. Qed.

(* value_eqb decides equality *)
Lemma value_eqb_eq a : forall b, value_eqb a b = true -> a = b.
Proof.
  induction a as [s|z|s|x|l IH|fs IH] using value_ind'; intros b; destruct b; cbn [value_eqb]; try discriminate.
  - intros H. apply str_eqb_eq in H. subst. reflexivity.
  - intros H. apply Z.eqb_eq in H. subst. reflexivity.
  - intros H. apply str_eqb_eq in H. subst. reflexivity.
  - intros H. apply Bool.eqb_prop in H. subst. reflexivity.
  - rename l0 into m. intros H. f_equal. revert m H.
    induction IH as [|x l Hx Hl IHl]; intros [|y m]; try discriminate; [reflexivity|].
    intros H. apply andb_true_iff in H as [H1 H2]. f_equal; [apply Hx, H1|apply IHl, H2].
  - rename fs0 into m. intros H. f_equal. revert m H.
    induction IH as [|[k x] l Hx Hl IHl]; intros [|[k' y] m]; try discriminate; [reflexivity|].
    intros H. apply andb_true_iff in H as [H H3]. apply andb_true_iff in H as [H1 H2].
    apply str_eqb_eq in H1. subst k'. cbn [snd] in Hx. rewrite (Hx y H2). f_equal. apply IHl, H3.
Qed.

Lemma is_default_eq d v : is_default d v = true -> d = Some v.
Proof.
  unfold is_default. destruct d as [dv|]; [|discriminate]. intros H. apply value_eqb_eq in H. subst. reflexivity.
Qed.

(* dictionaries *)
Lemma str_eqb_spec a b : str_eqb a b = true <-> a = b.
Proof. apply str_eqb_eq. Qed.

Lemma dget_dset_same d k v : dget (dset d k v) k = Some v.
Proof. apply (oget_oset_same str_eqb str_eqb_spec). Qed.

Lemma dset_dset d k a b : dset (dset d k a) k b = dset d k b.
Proof.
  unfold dset. induction d as [|[k' v'] r IH]; cbn [oset].
  - rewrite str_eqb_refl. reflexivity.
  - destruct (str_eqb k' k) eqn:E; cbn [oset]; rewrite E; [reflexivity|]. rewrite IH. reflexivity.
Qed.

Lemma dset_absent d k v : dget d k = None -> dset d k v = d ++ [(k, v)].
Proof.
  unfold dget, dset. induction d as [|[k' v'] r IH]; cbn [oget oset app]; [reflexivity|].
  destruct (str_eqb k' k); [discriminate|]. intros H. rewrite (IH H). reflexivity.
Qed.

Lemma dget_app_none (d1 d2 : dict) k : dget d1 k = None -> dget (d1 ++ d2) k = dget d2 k.
Proof.
  unfold dget. induction d1 as [|[k' v'] r IH]; cbn [oget app]; [reflexivity|].
  destruct (str_eqb k' k); [discriminate|]. exact IH.
Qed.

Lemma dget_app_some (d1 d2 : dict) k x : dget d1 k = Some x -> dget (d1 ++ d2) k = Some x.
Proof.
  unfold dget. induction d1 as [|[k' v'] r IH]; cbn [oget app]; [discriminate|].
  destruct (str_eqb k' k); [intros H; exact H|]. exact IH.
Qed.

(* ================================================================== B. framing *)
(* what a column does to the slot of the field / list element it goes through *)
Definition put (ct : ty) (rest : list str) (c : cellv) (cur : out) : res out :=
  match rest with
  | [] => leaf_assign ct c cur
  | _ :: _ => find_assign rest ct (init_slot ct cur) c
  end.

Definition puts (ct : ty) (cs : cols) (cur : out) : res out :=
  foldM (fun cur ps => put ct (fst ps) (Raw (snd ps)) cur) cs cur.

Definition fill (t : ty) (cs : cols) (o : out) : res out :=
  foldM (fun o ps => find_assign (fst ps) t o (Raw (snd ps))) cs o.

Lemma find_assign_model name rest fields h2f f2h d c ct :
  field_lookup (fun tf _ => tf) fields (remap_get h2f name) = Some ct ->
  find_assign (name :: rest) (TModel fields h2f f2h) (ODict d) c =
  do new <- put ct rest c (match dget d (remap_get h2f name) with Some x => x | None => ONone end);
  Ok (ODict (dset d (remap_get h2f name) new)).
Proof.
  intros H. cbn [find_assign]. rewrite H. unfold put. destruct rest; reflexivity.
Qed.

Lemma set_nth_last {X} (l : list X) (a b : X) : set_nth (length l) b (l ++ [a]) = l ++ [b].
Proof. induction l as [|x r IH]; [reflexivity|]. cbn [length app set_nth]. rewrite IH. reflexivity. Qed.

Lemma nth_last {X} (l : list X) (a d : X) : nth (length l) (l ++ [a]) d = a.
Proof. induction l as [|x r IH]; [reflexivity|]. exact IH. Qed.

Lemma locate_index_last l cur i :
  length l = i ->
  locate_index (l ++ [cur]) (print_nat (S i)) = Ok (l ++ [cur], Some i).
Proof.
  intros Hl. unfold locate_index. rewrite parse_int_print_nat.
  rewrite app_length. cbn [length].
  replace ((Z.of_nat (length l + 1) <=? Z.of_nat (S i) - 1)%Z) with false by lia.
  replace ((0 <=? Z.of_nat (S i) - 1)%Z) with true by lia.
  replace (Z.to_nat (Z.of_nat (S i) - 1)) with i by lia. reflexivity.
Qed.

Lemma locate_index_new l i :
  length l = i ->
  locate_index l (print_nat (S i)) = Ok (l ++ [ONone], Some i).
Proof.
  intros Hl. unfold locate_index. rewrite parse_int_print_nat.
  replace ((Z.of_nat (length l) <=? Z.of_nat (S i) - 1)%Z) with true by lia.
  replace ((Z.of_nat (length l) =? Z.of_nat (S i) - 1)%Z) with true by lia.
  rewrite Hl. reflexivity.
Qed.

Lemma find_assign_list_cur t l cur i rest c :
  is_list_ty t = true -> length l = i ->
  find_assign (print_nat (S i) :: rest) t (OList (l ++ [cur])) c =
  do new <- put (child_ty t) rest c cur; Ok (OList (l ++ [new])).
Proof.
  intros Ht Hl.
  assert (G : find_assign (print_nat (S i) :: rest) t (OList (l ++ [cur])) c =
              do lk <- locate_index (l ++ [cur]) (print_nat (S i));
              match rest with
              | [] => do r <- assign_value (child_ty t) (leaf_value (child_ty t) c);
                      match r, snd lk with
                      | None, _ => Ok (OList (fst lk))
                      | Some v, Some k => Ok (OList (set_nth k v (fst lk)))
                      | Some _, None => Err EIndex
                      end
              | _ :: _ => match snd lk with
                          | None => Err EIndex
                          | Some k => do new <- find_assign rest (child_ty t) (init_slot (child_ty t) (nth k (fst lk) ONone)) c;
                                      Ok (OList (set_nth k new (fst lk)))
                          end
              end).
  { destruct t; try discriminate; reflexivity. }
  rewrite G, (locate_index_last l cur i Hl). cbn [bind fst snd]. subst i.
  rewrite nth_last. unfold put. destruct rest as [|r1 rr].
  - unfold leaf_assign. destruct (assign_value (child_ty t) (leaf_value (child_ty t) c)) as [[o|]|e]; cbn [bind];
      [rewrite set_nth_last|..]; reflexivity.
  - destruct (find_assign (r1 :: rr) (child_ty t) (init_slot (child_ty t) cur) c); cbn [bind];
      [rewrite set_nth_last|]; reflexivity.
Qed.

Lemma find_assign_list_new t l i rest c :
  is_list_ty t = true -> length l = i ->
  find_assign (print_nat (S i) :: rest) t (OList l) c =
  do new <- put (child_ty t) rest c ONone; Ok (OList (l ++ [new])).
Proof.
  intros Ht Hl. rewrite <- (find_assign_list_cur t l ONone i rest c Ht Hl).
  destruct t; try discriminate; cbn [find_assign];
    rewrite (locate_index_new l i Hl), (locate_index_last l ONone i Hl); reflexivity.
Qed.

(* the columns of one field: successive puts on the field's slot *)
Lemma fill_model_group fields h2f f2h h ct cs : forall d,
  field_lookup (fun tf _ => tf) fields (remap_get h2f h) = Some ct ->
  cs <> [] ->
  fill (TModel fields h2f f2h) (prefix_cols h cs) (ODict d) =
  do new <- puts ct cs (match dget d (remap_get h2f h) with Some x => x | None => ONone end);
  Ok (ODict (dset d (remap_get h2f h) new)).
Proof.
  intros d Hf. revert d. induction cs as [|[p s] r IH]; intros d Hne; [congruence|].
  unfold fill, puts, prefix_cols. cbn [map foldM fst snd].
  rewrite (find_assign_model h p fields h2f f2h d (Raw s) ct Hf).
  destruct (put ct p (Raw s) _) as [new|e]; cbn [bind]; [|reflexivity].
  destruct r as [|q r'].
  - reflexivity.
  - specialize (IH (dset d (remap_get h2f h) new) ltac:(discriminate)).
    unfold fill, puts, prefix_cols in IH. rewrite IH. rewrite dget_dset_same.
    match goal with |- bind ?X _ = bind ?X _ => destruct X as [n2|e2] end; cbn [bind]; [|reflexivity].
    rewrite dset_dset. reflexivity.
Qed.

Lemma fill_list_group_cur t cs : forall l cur i,
  is_list_ty t = true -> length l = i ->
  fill t (prefix_cols (print_nat (S i)) cs) (OList (l ++ [cur])) =
  do new <- puts (child_ty t) cs cur; Ok (OList (l ++ [new])).
Proof.
  induction cs as [|[p s] r IH]; intros l cur i Ht Hl; [reflexivity|].
  unfold fill, puts, prefix_cols. cbn [map foldM fst snd].
  rewrite (find_assign_list_cur t l cur i p (Raw s) Ht Hl).
  destruct (put (child_ty t) p (Raw s) cur) as [new|e]; cbn [bind]; [|reflexivity].
  apply (IH l new i Ht Hl).
Qed.

Lemma fill_list_group t cs l i :
  is_list_ty t = true -> length l = i -> cs <> [] ->
  fill t (prefix_cols (print_nat (S i)) cs) (OList l) =
  do new <- puts (child_ty t) cs ONone; Ok (OList (l ++ [new])).
Proof.
  intros Ht Hl Hne. destruct cs as [|[p s] r]; [congruence|].
  unfold fill, puts, prefix_cols. cbn [map foldM fst snd].
  rewrite (find_assign_list_new t l i p (Raw s) Ht Hl).
  destruct (put (child_ty t) p (Raw s) ONone) as [new|e]; cbn [bind]; [|reflexivity].
  apply (fill_list_group_cur t r l new i Ht Hl).
Qed.

Lemma fill_app t a b o :
  fill t (a ++ b) o = match fill t a o with Ok o' => fill t b o' | Err e => Err e end.
Proof. apply foldM_app. Qed.

(* a compound slot: after the first column it holds a list / dict, so init_slot is inert *)
Lemma find_assign_list_shape t p o c o' :
  is_list_ty t = true -> find_assign p t o c = Ok o' -> exists l, o' = OList l.
Proof.
  intros Ht H. destruct p as [|name rest]; [discriminate|].
  assert (G : exists X : res (list out), find_assign (name :: rest) t o c = do l <- X; Ok (OList l)).
  { destruct t; try discriminate; cbn [find_assign]; (destruct o; try (exists (Err EShape); reflexivity));
      (destruct (locate_index l name) as [lk|e]; [|exists (Err e); reflexivity]); cbn [bind];
      (destruct rest as [|r1 rr];
       [ destruct (assign_value _ _) as [[v|]|e]; cbn [bind];
         [destruct (snd lk); [eexists (Ok _); reflexivity|exists (Err EIndex); reflexivity]
         |eexists (Ok _); reflexivity|exists (Err e); reflexivity]
       | destruct (snd lk); [|exists (Err EIndex); reflexivity];
         destruct (find_assign (r1 :: rr) _ _ c) as [nw|e]; cbn [bind];
         [eexists (Ok _); reflexivity|exists (Err e); reflexivity] ]). }
  destruct G as [X G]. rewrite G in H. destruct X as [l|e]; [|discriminate].
  cbn [bind] in H. injection H as <-. eexists. reflexivity.
Qed.

Lemma find_assign_model_shape t p o c o' :
  is_model_ty t = true -> find_assign p t o c = Ok o' -> exists d, o' = ODict d.
Proof.
  intros Ht H. destruct p as [|name rest]; [discriminate|]. destruct t; try discriminate.
  cbn [find_assign] in H. destruct o; try discriminate.
  destruct (field_lookup _ fields _); [|discriminate].
  match type of H with bind ?X _ = _ => destruct X end; [|discriminate].
  cbn [bind] in H. injection H as <-. eexists. reflexivity.
Qed.

Definition paths_nonempty (cs : cols) : Prop := Forall (fun ps => fst ps <> []) cs.

Lemma puts_fill_list t cs : forall l,
  is_list_ty t = true -> paths_nonempty cs -> puts t cs (OList l) = fill t cs (OList l).
Proof.
  induction cs as [|[p s] r IH]; intros l Ht Hp; [reflexivity|].
  inversion Hp as [|? ? Hp1 Hp2]; subst. cbn [fst] in Hp1.
  unfold puts, fill. cbn [foldM fst snd]. unfold put. destruct p as [|n rest]; [congruence|].
  cbn [init_slot].
  destruct (find_assign (n :: rest) t (OList l) (Raw s)) as [o'|e] eqn:E; [|reflexivity].
  destruct (find_assign_list_shape _ _ _ _ _ Ht E) as [l' ->]. apply IH; assumption.
Qed.

Lemma puts_fill_model t cs : forall d,
  is_model_ty t = true -> paths_nonempty cs -> puts t cs (ODict d) = fill t cs (ODict d).
Proof.
  induction cs as [|[p s] r IH]; intros d Ht Hp; [reflexivity|].
  inversion Hp as [|? ? Hp1 Hp2]; subst. cbn [fst] in Hp1.
  unfold puts, fill. cbn [foldM fst snd]. unfold put. destruct p as [|n rest]; [congruence|].
  cbn [init_slot].
  destruct (find_assign (n :: rest) t (ODict d) (Raw s)) as [o'|e] eqn:E; [|reflexivity].
  destruct (find_assign_model_shape _ _ _ _ _ Ht E) as [d' ->]. apply IH; assumption.
Qed.

Lemma puts_fresh_list t cs :
  is_list_ty t = true -> paths_nonempty cs -> cs <> [] -> puts t cs ONone = fill t cs (OList []).
Proof.
  intros Ht Hp Hne. destruct cs as [|[p s] r]; [congruence|].
  inversion Hp as [|? ? Hp1 Hp2]; subst. cbn [fst] in Hp1.
  unfold puts, fill. cbn [foldM fst snd]. unfold put. destruct p as [|n rest]; [congruence|].
  replace (init_slot t ONone) with (OList []) by (cbn [init_slot]; rewrite Ht; reflexivity).
  destruct (find_assign (n :: rest) t (OList []) (Raw s)) as [o'|e] eqn:E; [|reflexivity].
  destruct (find_assign_list_shape _ _ _ _ _ Ht E) as [l' ->]. apply puts_fill_list; assumption.
Qed.

Lemma puts_fresh_model t cs :
  is_model_ty t = true -> paths_nonempty cs -> cs <> [] -> puts t cs ONone = fill t cs (ODict []).
Proof.
  intros Ht Hp Hne. destruct cs as [|[p s] r]; [congruence|].
  inversion Hp as [|? ? Hp1 Hp2]; subst. cbn [fst] in Hp1.
  unfold puts, fill. cbn [foldM fst snd]. unfold put. destruct p as [|n rest]; [congruence|].
  replace (init_slot t ONone) with (ODict []) by (destruct t; try discriminate; reflexivity).
  destruct (find_assign (n :: rest) t (ODict []) (Raw s)) as [o'|e] eqn:E; [|reflexivity].
  destruct (find_assign_model_shape _ _ _ _ _ Ht E) as [d' ->]. apply puts_fill_model; assumption.
Qed.

Lemma paths_nonempty_prefix c cs : paths_nonempty (prefix_cols c cs).
Proof. unfold paths_nonempty, prefix_cols. apply Forall_forall. intros ps Hin. apply in_map_iff in Hin as [x [<- _]]. discriminate. Qed.

Lemma paths_nonempty_concat gs : Forall paths_nonempty gs -> paths_nonempty (concat gs).
Proof.
  induction 1 as [|g r Hg Hr IH]; [constructor|]. cbn [concat]. apply Forall_app. split; assumption.
Qed.

(* ================================================================== C. named forms of the local fixpoints *)
Fixpoint to_nv_fields (fds : list field) (fs : list (str * value)) : res (list nv) :=
  match fds, fs with
  | [], [] => Ok []
  | (n, (tf, d)) :: fds', (n', v') :: fs' =>
    if negb (str_eqb n n') then Err EShape
    else if is_default d v' then to_nv_fields fds' fs'
    else do x <- to_nv tf v'; do r <- to_nv_fields fds' fs'; Ok (Lst [Str n; x] :: r)
  | _, _ => Err EShape
  end.

Lemma to_nv_model fields h2f f2h fs :
  to_nv (TModel fields h2f f2h) (VModel fs) = rmap Lst (to_nv_fields fields fs).
Proof. reflexivity. Qed.

Fixpoint enc_fields (fds : list field) (fs : list (str * value)) : list (str * out) :=
  match fds, fs with
  | (n, (tf, d)) :: fds', (_, v') :: fs' =>
    if is_default d v' then enc_fields fds' fs' else (n, enc tf v') :: enc_fields fds' fs'
  | _, _ => []
  end.

Lemma enc_model fields h2f f2h fs : enc (TModel fields h2f f2h) (VModel fs) = ODict (enc_fields fields fs).
Proof. reflexivity. Qed.

Section Named.
  Variable tgt : list str -> bool.

  Section UF.
    Variable f2h : remap.
    Variable comps : list str.
    Fixpoint unparse_fields (fds : list field) (fs : list (str * value)) : res (list cols) :=
      match fds, fs with
      | [], [] => Ok []
      | (n, (tf, d)) :: fds', (n', v') :: fs' =>
        if negb (str_eqb n n') then Err EShape
        else if is_default d v' then unparse_fields fds' fs'
        else
          let h := remap_get f2h n in
          do here <- (if str_eqb n h then rmap (prefix_cols h) (unparse_rec tgt noexc tf v' (comps ++ [h]))
                      else if noexc (comps ++ [h]) then Ok []
                      else do s <- write_text tf v'; Ok [([h], s)]);
          do r <- unparse_fields fds' fs'; Ok (here :: r)
      | _, _ => Err EShape
      end.
  End UF.

  Lemma unparse_rec_unfold t v comps :
    unparse_rec tgt noexc t v comps =
    if is_basic_ty t || tgt comps then do s <- write_text t v; Ok [([], s)]
    else
      match t, v with
      | TList t', VList l =>
        rmap (@concat _)
             (mapRi (fun i e => let c := print_nat (S i) in
                                rmap (prefix_cols c) (unparse_rec tgt noexc t' e (comps ++ [c]))) O l)
      | TUList, VList l =>
        rmap (@concat _)
             (mapRi (fun i e => let c := print_nat (S i) in
                                rmap (prefix_cols c) (unparse_u tgt noexc e (comps ++ [c]))) O l)
      | TModel fields _ f2h, VModel fs => rmap (@concat _) (unparse_fields f2h comps fields fs)
      | _, _ => Err EShape
      end.
  Proof. destruct t; reflexivity. Qed.

  Section DE.
    Variable t' : ty.
    Variable comps : list str.
    Fixpoint dom_elems (i : nat) (l : list value) : bool :=
      match l with
      | [] => true
      | e :: r => let c := comps ++ [print_nat (S i)] in
                  writes tgt t' e c && dom tgt t' e c && dom_elems (S i) r
      end.
  End DE.

  Section DF.
    Variables h2f f2h : remap.
    Variable comps : list str.
    Fixpoint dom_fields (fds : list field) (fs : list (str * value)) : bool :=
      match fds, fs with
      | [], [] => true
      | (n, (tf, d)) :: fds', (n', v') :: fs' =>
        str_eqb n n'
        && (if is_default d v' then true
            else
              let h := remap_get f2h n in
              name_ok h && str_eqb (remap_get h2f h) n
              && (if str_eqb n h then writes tgt tf v' (comps ++ [h]) && dom tgt tf v' (comps ++ [h])
                  else if is_basic_ty tf then basic_ok tf v' else packed_ok tf v'))
        && dom_fields fds' fs'
      | _, _ => false
      end.
  End DF.

  Lemma dom_unfold t v comps :
    dom tgt t v comps =
    if is_basic_ty t then basic_ok t v
    else if tgt comps then packed_ok t v
    else
      match t, v with
      | TList t', VList l => dom_elems t' comps O l
      | TUList, VList l => forallb (fun e => match e with VStr s => trimmedb s | _ => false end) l
      | TModel fields h2f f2h, VModel fs => nodup_names fields && dom_fields h2f f2h comps fields fs
      | _, _ => false
      end.
  Proof. destruct t; reflexivity. Qed.
End Named.

(* assign_value on a model: the positional/keyword loop *)
Definition by_name (fields : list field) (k : str) (e : nv) : res (option out) :=
  match field_lookup (fun tf _ => assign_value tf e) fields k with
  | Some r => r | None => Err ENoField end.

Section AG.
  Variable fields : list field.
  Variable h2f : remap.
  Fixpoint assign_go (es : list nv) (i : nat) (d : dict) : res dict :=
    match es with
    | [] => Ok d
    | e :: r =>
      match as_kwarg fields h2f e with
      | Some (key, xv) => do o <- by_name fields key xv; assign_go r (S i) (dset_opt d key o)
      | None =>
        match field_nth (fun n tf => (n, assign_value tf e)) fields i with
        | None => Err EIndex
        | Some (n, ro) => do o <- ro; assign_go r (S i) (dset_opt d n o)
        end
      end
    end.
End AG.

Lemma assign_value_model fields h2f f2h x :
  assign_value (TModel fields h2f f2h) x =
  let entries := match x with Lst l => l | Str _ => [x] end in
  match as_kwarg fields h2f (Lst entries) with
  | Some (key, xv) => do r <- by_name fields key xv; Ok (Some (ODict (dset_opt [] key r)))
  | None => do d <- assign_go fields h2f entries O []; Ok (Some (ODict d))
  end.
Proof. reflexivity. Qed.

Section VF.
  Variable d : dict.
  Fixpoint validate_fields (fs : list field) : res (list (str * value)) :=
    match fs with
    | [] => Ok []
    | (n, (tf, dflt)) :: r =>
      do v <- match dget d n with
              | Some o' => validate tf o'
              | None => match dflt with Some dv => Ok dv | None => Err EValidation end
              end;
      do vs <- validate_fields r; Ok ((n, v) :: vs)
    end.
End VF.

Lemma validate_model fields h2f f2h d :
  validate (TModel fields h2f f2h) (ODict d) = rmap VModel (validate_fields d fields).
Proof. reflexivity. Qed.
