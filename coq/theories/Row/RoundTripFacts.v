(* E2 — the round-trip theorems of C07 (row codec): writing an instance as a row of cells
   and parsing the row again.  Induction over the model universe; packed leaves are
   discharged with the cell codec's round trip (Cell/CellFacts.v).  No axioms. *)
From Coq Require Import List NArith ZArith Bool Lia ZifyBool Arith FinFun.
From RPFT Require Import Base.Sexp Base.PyStr Base.PyStrFacts Base.Result Base.ODict Gen.Tables
  Cell.Cell Cell.CellFacts Row.Ty Row.Layout Row.RowParse Row.RekeyFacts Row.RowUnparse Row.TextFacts Row.RoundTrip.
Import ListNotations.
Local Open Scope N_scope.

(* ================================================================== A. generalities *)
Lemma foldM_app {E S A} (f : A -> S -> result E A) l1 l2 a :
  foldM f (l1 ++ l2) a = match foldM f l1 a with Ok a' => foldM f l2 a' | Err e => Err e end.
Proof.
  revert a. induction l1 as [|x r IH]; intros a; [reflexivity|].
  cbn [app foldM]. destruct (f a x); [apply IH|reflexivity].
Qed.

Lemma bind_ok {E S T} (r : result E S) (f : S -> result E T) v : r = Ok v -> bind r f = f v.
Proof. intros ->. reflexivity. Qed.

(* value_eqb decides equality *)
Lemma value_eqb_eq a : forall b, value_eqb a b = true -> a = b.
Proof.
  induction a as [s|z|s|x|l IH|fs IH] using value_ind'; intros b; destruct b; cbn [value_eqb]; try discriminate.
  - intros H. apply str_eqb_eq in H. subst. reflexivity.
  - intros H. apply Z.eqb_eq in H. subst. reflexivity.
  - intros H. apply str_eqb_eq in H. subst. reflexivity.
  - intros H. apply Bool.eqb_prop in H. subst. reflexivity.
  - rename l0 into m. intros H. f_equal. revert m H.
    induction IH as [|x l Hx Hl IHl]; intros [|y m]; try discriminate; [reflexivity|].
    intros H. apply andb_true_iff in H as [H1 H2]. f_equal; [apply Hx, H1|apply IHl, H2].
  - rename fs0 into m. intros H. f_equal. revert m H.
    induction IH as [|[k x] l Hx Hl IHl]; intros [|[k' y] m]; try discriminate; [reflexivity|].
    intros H. apply andb_true_iff in H as [H H3]. apply andb_true_iff in H as [H1 H2].
    apply str_eqb_eq in H1. subst k'. cbn [snd] in Hx. rewrite (Hx y H2). f_equal. apply IHl, H3.
Qed.

Lemma is_default_eq d v : is_default d v = true -> d = Some v.
Proof.
  unfold is_default. destruct d as [dv|]; [|discriminate]. intros H. apply value_eqb_eq in H. subst. reflexivity.
Qed.

(* dictionaries *)
Lemma str_eqb_spec a b : str_eqb a b = true <-> a = b.
Proof. apply str_eqb_eq. Qed.

Lemma dget_dset_same d k v : dget (dset d k v) k = Some v.
Proof. apply (oget_oset_same str_eqb str_eqb_spec). Qed.

Lemma dset_dset d k a b : dset (dset d k a) k b = dset d k b.
Proof.
  unfold dset. induction d as [|[k' v'] r IH]; cbn [oset].
  - rewrite str_eqb_refl. reflexivity.
  - destruct (str_eqb k' k) eqn:E; cbn [oset]; rewrite E; [reflexivity|]. rewrite IH. reflexivity.
Qed.

Lemma dset_absent d k v : dget d k = None -> dset d k v = d ++ [(k, v)].
Proof.
  unfold dget, dset. induction d as [|[k' v'] r IH]; cbn [oget oset app]; [reflexivity|].
  destruct (str_eqb k' k); [discriminate|]. intros H. rewrite (IH H). reflexivity.
Qed.

Lemma dget_app_none (d1 d2 : dict) k : dget d1 k = None -> dget (d1 ++ d2) k = dget d2 k.
Proof.
  unfold dget. induction d1 as [|[k' v'] r IH]; cbn [oget app]; [reflexivity|].
  destruct (str_eqb k' k); [discriminate|]. exact IH.
Qed.

Lemma dget_app_some (d1 d2 : dict) k x : dget d1 k = Some x -> dget (d1 ++ d2) k = Some x.
Proof.
  unfold dget. induction d1 as [|[k' v'] r IH]; cbn [oget app]; [discriminate|].
  destruct (str_eqb k' k); [intros H; exact H|]. exact IH.
Qed.

(* ================================================================== B. framing *)
(* what a column does to the slot of the field / list element it goes through *)
Definition put (ct : ty) (rest : list str) (c : cellv) (cur : out) : res out :=
  match rest with
  | [] => leaf_assign ct c cur
  | _ :: _ => find_assign rest ct (init_slot ct cur) c
  end.

Definition puts (ct : ty) (cs : cols) (cur : out) : res out :=
  foldM (fun cur ps => put ct (fst ps) (Raw (snd ps)) cur) cs cur.

Definition fill (t : ty) (cs : cols) (o : out) : res out :=
  foldM (fun o ps => find_assign (fst ps) t o (Raw (snd ps))) cs o.

Lemma find_assign_model name rest fields h2f f2h d c ct :
  field_lookup (fun tf _ => tf) fields (remap_get h2f name) = Some ct ->
  find_assign (name :: rest) (TModel fields h2f f2h) (ODict d) c =
  do new <- put ct rest c (match dget d (remap_get h2f name) with Some x => x | None => ONone end);
  Ok (ODict (dset d (remap_get h2f name) new)).
Proof.
  intros H. cbn [find_assign]. rewrite H. unfold put. destruct rest; reflexivity.
Qed.

Lemma set_nth_last {X} (l : list X) (a b : X) : set_nth (length l) b (l ++ [a]) = l ++ [b].
Proof. induction l as [|x r IH]; [reflexivity|]. cbn [length app set_nth]. rewrite IH. reflexivity. Qed.

Lemma nth_last {X} (l : list X) (a d : X) : nth (length l) (l ++ [a]) d = a.
Proof. induction l as [|x r IH]; [reflexivity|]. exact IH. Qed.

Lemma locate_index_last l cur i :
  length l = i ->
  locate_index (l ++ [cur]) (print_nat (S i)) = Ok (l ++ [cur], Some i).
Proof.
  intros Hl. unfold locate_index. rewrite parse_int_print_nat.
  rewrite app_length. cbn [length].
  replace ((Z.of_nat (length l + 1) <=? Z.of_nat (S i) - 1)%Z) with false by lia.
  replace ((0 <=? Z.of_nat (S i) - 1)%Z) with true by lia.
  replace (Z.to_nat (Z.of_nat (S i) - 1)) with i by lia. reflexivity.
Qed.

Lemma locate_index_new l i :
  length l = i ->
  locate_index l (print_nat (S i)) = Ok (l ++ [ONone], Some i).
Proof.
  intros Hl. unfold locate_index. rewrite parse_int_print_nat.
  replace ((Z.of_nat (length l) <=? Z.of_nat (S i) - 1)%Z) with true by lia.
  replace ((Z.of_nat (length l) =? Z.of_nat (S i) - 1)%Z) with true by lia.
  rewrite Hl. reflexivity.
Qed.

Lemma find_assign_list_cur t l cur i rest c :
  is_list_ty t = true -> length l = i ->
  find_assign (print_nat (S i) :: rest) t (OList (l ++ [cur])) c =
  do new <- put (child_ty t) rest c cur; Ok (OList (l ++ [new])).
Proof.
  intros Ht Hl.
  assert (G : find_assign (print_nat (S i) :: rest) t (OList (l ++ [cur])) c =
              do lk <- locate_index (l ++ [cur]) (print_nat (S i));
              match rest with
              | [] => do r <- assign_value (child_ty t) (leaf_value (child_ty t) c);
                      match r, snd lk with
                      | None, _ => Ok (OList (fst lk))
                      | Some v, Some k => Ok (OList (set_nth k v (fst lk)))
                      | Some _, None => Err EIndex
                      end
              | _ :: _ => match snd lk with
                          | None => Err EIndex
                          | Some k => do new <- find_assign rest (child_ty t) (init_slot (child_ty t) (nth k (fst lk) ONone)) c;
                                      Ok (OList (set_nth k new (fst lk)))
                          end
              end).
  { destruct t; try discriminate; reflexivity. }
  rewrite G, (locate_index_last l cur i Hl). cbn [bind fst snd]. subst i.
  rewrite nth_last. unfold put. destruct rest as [|r1 rr].
  - unfold leaf_assign. destruct (assign_value (child_ty t) (leaf_value (child_ty t) c)) as [[o|]|e]; cbn [bind];
      [rewrite set_nth_last|..]; reflexivity.
  - destruct (find_assign (r1 :: rr) (child_ty t) (init_slot (child_ty t) cur) c); cbn [bind];
      [rewrite set_nth_last|]; reflexivity.
Qed.

Lemma find_assign_list_new t l i rest c :
  is_list_ty t = true -> length l = i ->
  find_assign (print_nat (S i) :: rest) t (OList l) c =
  do new <- put (child_ty t) rest c ONone; Ok (OList (l ++ [new])).
Proof.
  intros Ht Hl. rewrite <- (find_assign_list_cur t l ONone i rest c Ht Hl).
  destruct t; try discriminate; cbn [find_assign];
    rewrite (locate_index_new l i Hl), (locate_index_last l ONone i Hl); reflexivity.
Qed.

(* the columns of one field: successive puts on the field's slot *)
Lemma fill_model_group fields h2f f2h h ct cs : forall d,
  field_lookup (fun tf _ => tf) fields (remap_get h2f h) = Some ct ->
  cs <> [] ->
  fill (TModel fields h2f f2h) (prefix_cols h cs) (ODict d) =
  do new <- puts ct cs (match dget d (remap_get h2f h) with Some x => x | None => ONone end);
  Ok (ODict (dset d (remap_get h2f h) new)).
Proof.
  intros d Hf. revert d. induction cs as [|[p s] r IH]; intros d Hne; [congruence|].
  unfold fill, puts, prefix_cols. cbn [map foldM fst snd].
  rewrite (find_assign_model h p fields h2f f2h d (Raw s) ct Hf).
  destruct (put ct p (Raw s) _) as [new|e]; cbn [bind]; [|reflexivity].
  destruct r as [|q r'].
  - reflexivity.
  - specialize (IH (dset d (remap_get h2f h) new) ltac:(discriminate)).
    unfold fill, puts, prefix_cols in IH. rewrite IH. rewrite dget_dset_same.
    match goal with |- bind ?X _ = bind ?X _ => destruct X as [n2|e2] end; cbn [bind]; [|reflexivity].
    rewrite dset_dset. reflexivity.
Qed.

Lemma fill_list_group_cur t cs : forall l cur i,
  is_list_ty t = true -> length l = i ->
  fill t (prefix_cols (print_nat (S i)) cs) (OList (l ++ [cur])) =
  do new <- puts (child_ty t) cs cur; Ok (OList (l ++ [new])).
Proof.
  induction cs as [|[p s] r IH]; intros l cur i Ht Hl; [reflexivity|].
  unfold fill, puts, prefix_cols. cbn [map foldM fst snd].
  rewrite (find_assign_list_cur t l cur i p (Raw s) Ht Hl).
  destruct (put (child_ty t) p (Raw s) cur) as [new|e]; cbn [bind]; [|reflexivity].
  apply (IH l new i Ht Hl).
Qed.

Lemma fill_list_group t cs l i :
  is_list_ty t = true -> length l = i -> cs <> [] ->
  fill t (prefix_cols (print_nat (S i)) cs) (OList l) =
  do new <- puts (child_ty t) cs ONone; Ok (OList (l ++ [new])).
Proof.
  intros Ht Hl Hne. destruct cs as [|[p s] r]; [congruence|].
  unfold fill, puts, prefix_cols. cbn [map foldM fst snd].
  rewrite (find_assign_list_new t l i p (Raw s) Ht Hl).
  destruct (put (child_ty t) p (Raw s) ONone) as [new|e]; cbn [bind]; [|reflexivity].
  apply (fill_list_group_cur t r l new i Ht Hl).
Qed.

Lemma fill_app t a b o :
  fill t (a ++ b) o = match fill t a o with Ok o' => fill t b o' | Err e => Err e end.
Proof. apply foldM_app. Qed.

(* a compound slot: after the first column it holds a list / dict, so init_slot is inert *)
Lemma find_assign_list_shape t p o c o' :
  is_list_ty t = true -> find_assign p t o c = Ok o' -> exists l, o' = OList l.
Proof.
  intros Ht H. destruct p as [|name rest]; [discriminate|].
  assert (G : exists X : res (list out), find_assign (name :: rest) t o c = do l <- X; Ok (OList l)).
  { destruct t; try discriminate; cbn [find_assign]; (destruct o; try (exists (Err EShape); reflexivity));
      (destruct (locate_index l name) as [lk|e]; [|exists (Err e); reflexivity]); cbn [bind];
      (destruct rest as [|r1 rr];
       [ destruct (assign_value _ _) as [[v|]|e]; cbn [bind];
         [destruct (snd lk); [eexists (Ok _); reflexivity|exists (Err EIndex); reflexivity]
         |eexists (Ok _); reflexivity|exists (Err e); reflexivity]
       | destruct (snd lk); [|exists (Err EIndex); reflexivity];
         destruct (find_assign (r1 :: rr) _ _ c) as [nw|e]; cbn [bind];
         [eexists (Ok _); reflexivity|exists (Err e); reflexivity] ]). }
  destruct G as [X G]. rewrite G in H. destruct X as [l|e]; [|discriminate].
  cbn [bind] in H. injection H as <-. eexists. reflexivity.
Qed.

Lemma find_assign_model_shape t p o c o' :
  is_model_ty t = true -> find_assign p t o c = Ok o' -> exists d, o' = ODict d.
Proof.
  intros Ht H. destruct p as [|name rest]; [discriminate|]. destruct t; try discriminate.
  cbn [find_assign] in H. destruct o; try discriminate.
  destruct (field_lookup _ fields _); [|discriminate].
  match type of H with bind ?X _ = _ => destruct X end; [|discriminate].
  cbn [bind] in H. injection H as <-. eexists. reflexivity.
Qed.

Definition paths_nonempty (cs : cols) : Prop := Forall (fun ps => fst ps <> []) cs.

Lemma puts_fill_list t cs : forall l,
  is_list_ty t = true -> paths_nonempty cs -> puts t cs (OList l) = fill t cs (OList l).
Proof.
  induction cs as [|[p s] r IH]; intros l Ht Hp; [reflexivity|].
  inversion Hp as [|? ? Hp1 Hp2]; subst. cbn [fst] in Hp1.
  unfold puts, fill. cbn [foldM fst snd]. unfold put. destruct p as [|n rest]; [congruence|].
  cbn [init_slot].
  destruct (find_assign (n :: rest) t (OList l) (Raw s)) as [o'|e] eqn:E; [|reflexivity].
  destruct (find_assign_list_shape _ _ _ _ _ Ht E) as [l' ->]. apply IH; assumption.
Qed.

Lemma puts_fill_model t cs : forall d,
  is_model_ty t = true -> paths_nonempty cs -> puts t cs (ODict d) = fill t cs (ODict d).
Proof.
  induction cs as [|[p s] r IH]; intros d Ht Hp; [reflexivity|].
  inversion Hp as [|? ? Hp1 Hp2]; subst. cbn [fst] in Hp1.
  unfold puts, fill. cbn [foldM fst snd]. unfold put. destruct p as [|n rest]; [congruence|].
  cbn [init_slot].
  destruct (find_assign (n :: rest) t (ODict d) (Raw s)) as [o'|e] eqn:E; [|reflexivity].
  destruct (find_assign_model_shape _ _ _ _ _ Ht E) as [d' ->]. apply IH; assumption.
Qed.

Lemma puts_fresh_list t cs :
  is_list_ty t = true -> paths_nonempty cs -> cs <> [] -> puts t cs ONone = fill t cs (OList []).
Proof.
  intros Ht Hp Hne. destruct cs as [|[p s] r]; [congruence|].
  inversion Hp as [|? ? Hp1 Hp2]; subst. cbn [fst] in Hp1.
  unfold puts, fill. cbn [foldM fst snd]. unfold put. destruct p as [|n rest]; [congruence|].
  replace (init_slot t ONone) with (OList []) by (cbn [init_slot]; rewrite Ht; reflexivity).
  destruct (find_assign (n :: rest) t (OList []) (Raw s)) as [o'|e] eqn:E; [|reflexivity].
  destruct (find_assign_list_shape _ _ _ _ _ Ht E) as [l' ->]. apply puts_fill_list; assumption.
Qed.

Lemma puts_fresh_model t cs :
  is_model_ty t = true -> paths_nonempty cs -> cs <> [] -> puts t cs ONone = fill t cs (ODict []).
Proof.
  intros Ht Hp Hne. destruct cs as [|[p s] r]; [congruence|].
  inversion Hp as [|? ? Hp1 Hp2]; subst. cbn [fst] in Hp1.
  unfold puts, fill. cbn [foldM fst snd]. unfold put. destruct p as [|n rest]; [congruence|].
  replace (init_slot t ONone) with (ODict []) by (destruct t; try discriminate; reflexivity).
  destruct (find_assign (n :: rest) t (ODict []) (Raw s)) as [o'|e] eqn:E; [|reflexivity].
  destruct (find_assign_model_shape _ _ _ _ _ Ht E) as [d' ->]. apply puts_fill_model; assumption.
Qed.

Lemma paths_nonempty_prefix c cs : paths_nonempty (prefix_cols c cs).
Proof. unfold paths_nonempty, prefix_cols. apply Forall_forall. intros ps Hin. apply in_map_iff in Hin as [x [<- _]]. discriminate. Qed.

Lemma paths_nonempty_concat gs : Forall paths_nonempty gs -> paths_nonempty (concat gs).
Proof.
  induction 1 as [|g r Hg Hr IH]; [constructor|]. cbn [concat]. apply Forall_app. split; assumption.
Qed.

(* ================================================================== C. named forms of the local fixpoints *)
Fixpoint to_nv_fields (fds : list field) (fs : list (str * value)) : res (list nv) :=
  match fds, fs with
  | [], [] => Ok []
  | (n, (tf, d)) :: fds', (n', v') :: fs' =>
    if negb (str_eqb n n') then Err EShape
    else if is_default d v' then to_nv_fields fds' fs'
    else do x <- to_nv tf v'; do r <- to_nv_fields fds' fs'; Ok (Lst [Str n; x] :: r)
  | _, _ => Err EShape
  end.

Lemma to_nv_model fields h2f f2h fs :
  to_nv (TModel fields h2f f2h) (VModel fs) = rmap Lst (to_nv_fields fields fs).
Proof. reflexivity. Qed.

Fixpoint enc_fields (fds : list field) (fs : list (str * value)) : list (str * out) :=
  match fds, fs with
  | (n, (tf, d)) :: fds', (_, v') :: fs' =>
    if is_default d v' then enc_fields fds' fs' else (n, enc tf v') :: enc_fields fds' fs'
  | _, _ => []
  end.

Lemma enc_model fields h2f f2h fs : enc (TModel fields h2f f2h) (VModel fs) = ODict (enc_fields fields fs).
Proof. reflexivity. Qed.

Section Named.
  Variable tgt : list str -> bool.

  Section UF.
    Variable f2h : remap.
    Variable comps : list str.
    Fixpoint unparse_fields (fds : list field) (fs : list (str * value)) : res (list cols) :=
      match fds, fs with
      | [], [] => Ok []
      | (n, (tf, d)) :: fds', (n', v') :: fs' =>
        if negb (str_eqb n n') then Err EShape
        else if is_default d v' then unparse_fields fds' fs'
        else
          let h := remap_get f2h n in
          do here <- (if str_eqb n h then rmap (prefix_cols h) (unparse_rec tgt noexc tf v' (comps ++ [h]))
                      else if noexc (comps ++ [h]) then Ok []
                      else do s <- write_text tf v'; Ok [([h], s)]);
          do r <- unparse_fields fds' fs'; Ok (here :: r)
      | _, _ => Err EShape
      end.
  End UF.

  Lemma unparse_rec_unfold t v comps :
    unparse_rec tgt noexc t v comps =
    if is_basic_ty t || tgt comps then do s <- write_text t v; Ok [([], s)]
    else
      match t, v with
      | TList t', VList l =>
        rmap (@concat _)
             (mapRi (fun i e => let c := print_nat (S i) in
                                rmap (prefix_cols c) (unparse_rec tgt noexc t' e (comps ++ [c]))) O l)
      | TUList, VList l =>
        rmap (@concat _)
             (mapRi (fun i e => let c := print_nat (S i) in
                                rmap (prefix_cols c) (unparse_u tgt noexc e (comps ++ [c]))) O l)
      | TModel fields _ f2h, VModel fs => rmap (@concat _) (unparse_fields f2h comps fields fs)
      | _, _ => Err EShape
      end.
  Proof. destruct t; reflexivity. Qed.

  Section DE.
    Variable t' : ty.
    Variable comps : list str.
    Fixpoint dom_elems (i : nat) (l : list value) : bool :=
      match l with
      | [] => true
      | e :: r => let c := comps ++ [print_nat (S i)] in
                  writes tgt t' e c && dom tgt t' e c && dom_elems (S i) r
      end.
  End DE.

  Section DF.
    Variables h2f f2h : remap.
    Variable comps : list str.
    Fixpoint dom_fields (fds : list field) (fs : list (str * value)) : bool :=
      match fds, fs with
      | [], [] => true
      | (n, (tf, d)) :: fds', (n', v') :: fs' =>
        str_eqb n n'
        && (if is_default d v' then true
            else
              let h := remap_get f2h n in
              name_ok h && str_eqb (remap_get h2f h) n
              && (if str_eqb n h then writes tgt tf v' (comps ++ [h]) && dom tgt tf v' (comps ++ [h])
                  else if is_basic_ty tf then basic_ok tf v' else packed_ok tf v'))
        && dom_fields fds' fs'
      | _, _ => false
      end.
  End DF.

  Lemma dom_unfold t v comps :
    dom tgt t v comps =
    if is_basic_ty t then basic_ok t v
    else if tgt comps then packed_ok t v
    else
      match t, v with
      | TList t', VList l => dom_elems t' comps O l
      | TUList, VList l => forallb (fun e => match e with VStr s => trimmedb s | _ => false end) l
      | TModel fields h2f f2h, VModel fs => nodup_names fields && dom_fields h2f f2h comps fields fs
      | _, _ => false
      end.
  Proof. destruct t; reflexivity. Qed.
End Named.

(* assign_value on a model: the positional/keyword loop *)
Definition by_name (fields : list field) (k : str) (e : nv) : res (option out) :=
  match field_lookup (fun tf _ => assign_value tf e) fields k with
  | Some r => r | None => Err ENoField end.

Section AG.
  Variable fields : list field.
  Variable h2f : remap.
  Fixpoint assign_go (es : list nv) (i : nat) (d : dict) : res dict :=
    match es with
    | [] => Ok d
    | e :: r =>
      match as_kwarg fields h2f e with
      | Some (key, xv) => do o <- by_name fields key xv; assign_go r (S i) (dset_opt d key o)
      | None =>
        match field_nth (fun n tf => (n, assign_value tf e)) fields i with
        | None => Err EIndex
        | Some (n, ro) => do o <- ro; assign_go r (S i) (dset_opt d n o)
        end
      end
    end.
End AG.

Lemma assign_value_model fields h2f f2h x :
  assign_value (TModel fields h2f f2h) x =
  let entries := match x with Lst l => l | Str _ => [x] end in
  match as_kwarg fields h2f (Lst entries) with
  | Some (key, xv) => do r <- by_name fields key xv; Ok (Some (ODict (dset_opt [] key r)))
  | None => do d <- assign_go fields h2f entries O []; Ok (Some (ODict d))
  end.
Proof. reflexivity. Qed.

Section VF.
  Variable d : dict.
  Fixpoint validate_fields (fs : list field) : res (list (str * value)) :=
    match fs with
    | [] => Ok []
    | (n, (tf, dflt)) :: r =>
      do v <- match dget d n with
              | Some o' => validate tf o'
              | None => match dflt with Some dv => Ok dv | None => Err EValidation end
              end;
      do vs <- validate_fields r; Ok ((n, v) :: vs)
    end.
End VF.

Lemma validate_model fields h2f f2h d :
  validate (TModel fields h2f f2h) (ODict d) = rmap VModel (validate_fields d fields).
Proof. reflexivity. Qed.

(* ================================================================== D. leaves *)
(* a basic value's text reads back *)
Lemma basic_decode t v s :
  is_basic_ty t = true -> basic_ok t v = true -> basic_text t v = Ok s ->
  strip s = s /\ assign_value t (Str s) = Ok (Some (enc t v)).
Proof.
  intros Ht Hok Hs. destruct t; try discriminate; destruct v; try discriminate;
    cbn [basic_text basic_ok enc] in *; injection Hs as <-.
  - split; [apply trimmedb_strip, Hok|reflexivity].
  - split; [apply strip_numch, print_Z_numch|]. cbn [assign_value]. rewrite parse_int_print_Z. reflexivity.
  - split; [apply float_canon_strip, Hok|]. cbn [assign_value]. rewrite (parse_float_canon _ Hok). reflexivity.
  - destruct b; (split; [vm_compute; reflexivity|vm_compute; reflexivity]).
Qed.

Lemma to_nv_basic t v : is_basic_ty t = true -> to_nv t v = rmap Str (basic_text t v).
Proof. intros Ht. destruct t; try discriminate; destruct v; reflexivity. Qed.

Lemma leaf_basic t v s cur :
  is_basic_ty t = true -> basic_ok t v = true -> write_text t v = Ok s ->
  leaf_assign t (Raw s) cur = Ok (enc t v).
Proof.
  intros Ht Hok Hs. unfold write_text in Hs. rewrite Ht in Hs.
  destruct (basic_decode t v s Ht Hok Hs) as [H1 H2].
  unfold leaf_assign, leaf_value.
  replace (is_list_ty t || is_model_ty t) with false by (destruct t; try discriminate; reflexivity).
  rewrite H1, H2. reflexivity.
Qed.

(* ---- the joined text of trimmed strings is trimmed (so CellParser.parse's strip is inert) *)
Lemma trimmedb_app_sep a sep b :
  trimmedb a = true -> trimmedb b = true -> is_ws sep = false -> trimmedb (a ++ sep :: b) = true.
Proof.
  intros Ha Hb Hs.
  assert (Hl : forall d, is_ws (last (a ++ sep :: b) d) = false).
  { intros d. rewrite last_app_cons. destruct b as [|y b']; [exact Hs|].
    change (last (sep :: y :: b') d) with (last (y :: b') d).
    unfold trimmedb in Hb. apply andb_true_iff in Hb as [_ Hb]. apply negb_true_iff in Hb.
    rewrite (last_indep _ d y) by discriminate. exact Hb. }
  destruct a as [|x a'].
  - cbn [app]. unfold trimmedb. rewrite Hs. specialize (Hl sep). cbn [app] in Hl. rewrite Hl. reflexivity.
  - rewrite <- app_comm_cons. unfold trimmedb. rewrite app_comm_cons, Hl.
    unfold trimmedb in Ha. apply andb_true_iff in Ha as [Ha _]. rewrite Ha. reflexivity.
Qed.

Lemma trimmedb_join_char sep ps :
  is_ws sep = false -> Forall (fun p => trimmedb p = true) ps -> trimmedb (join_char sep ps) = true.
Proof.
  intros Hs. induction 1 as [|p r Hp Hr IH]; [reflexivity|].
  destruct r as [|q r']; [exact Hp|].
  change (join_char sep (p :: q :: r')) with (p ++ sep :: join_char sep (q :: r')).
  apply trimmedb_app_sep; assumption.
Qed.

Lemma trimmedb_escape s : trimmedb s = true -> trimmedb (escape s) = true.
Proof.
  intros H. apply strip_trimmedb. rewrite strip_escape_commute, (trimmedb_strip s H). reflexivity.
Qed.

Lemma sep_at_ws d sep : sep_at d = Some sep -> is_ws sep = false.
Proof.
  destruct d as [|[|d']]; cbn; intros H; try discriminate; injection H as <-; [apply ws_sep0|apply ws_sep1].
Qed.

Section JoinAll.
  Variable d : nat.
  Fixpoint join_all (l : list nv) : option (list str) :=
    match l with
    | [] => Some []
    | x :: r => match join_from_lists d x, join_all r with
                | Some a, Some t => Some (a :: t)
                | _, _ => None
                end
    end.
End JoinAll.

Lemma join_from_lists_Lst depth l :
  join_from_lists depth (Lst l) =
  match sep_at depth with
  | None => None
  | Some sep => match join_all (S depth) l with
                | None => None
                | Some ps => Some (join_parts sep ps)
                end
  end.
Proof. reflexivity. Qed.

Lemma trimmedb_join_parts sep ps :
  is_ws sep = false -> Forall (fun p => trimmedb p = true) ps -> trimmedb (join_parts sep ps) = true.
Proof.
  intros Hs Hall. destruct ps as [|p [|q r]].
  - unfold join_parts. cbn [ends_blank]. rewrite andb_false_r. reflexivity.
  - cbn [join_parts]. inversion Hall as [|? ? Hp _]; subst.
    apply (trimmedb_app_sep p sep []); [exact Hp|reflexivity|exact Hs].
  - unfold join_parts. destruct (join_keeps_blank_last && ends_blank (p :: q :: r)).
    + apply (trimmedb_app_sep (join_char sep (p :: q :: r)) sep []); [|reflexivity|exact Hs].
      apply trimmedb_join_char; assumption.
    + apply trimmedb_join_char; assumption.
Qed.

Lemma join_trimmed x : forall d txt,
  nv_trimmed x = true -> join_from_lists d x = Some txt -> trimmedb txt = true.
Proof.
  induction x as [s|l IH] using nv_ind'; intros d txt Ht Hj.
  - cbn [join_from_lists] in Hj. injection Hj as <-. rewrite escape_string_one_pass.
    apply trimmedb_escape. exact Ht.
  - rewrite join_from_lists_Lst in Hj. destruct (sep_at d) as [sep|] eqn:Es; [|discriminate].
    pose proof (sep_at_ws d sep Es) as Hws.
    assert (Hall : forall ps, join_all (S d) l = Some ps -> Forall (fun p => trimmedb p = true) ps).
    { cbn [nv_trimmed] in Ht. clear Hj. induction IH as [|x r Hx Hr IHr]; intros ps Hps.
      - injection Hps as <-. constructor.
      - cbn [join_all] in Hps. cbn [forallb] in Ht. apply andb_true_iff in Ht as [Ht1 Ht2].
        destruct (join_from_lists (S d) x) as [a|] eqn:Ea; [|discriminate].
        destruct (join_all (S d) r) as [t|] eqn:Et; [|discriminate]. injection Hps as <-.
        constructor; [apply (Hx (S d) a Ht1 Ea)|apply (IHr Ht2 t eq_refl)]. }
    destruct (join_all (S d) l) as [ps|]; [|discriminate]. specialize (Hall ps eq_refl).
    injection Hj as <-. apply trimmedb_join_parts; assumption.
Qed.

Lemma trim_trimmed x : nv_trimmed x = true -> trim x = x.
Proof.
  induction x as [s|l IH] using nv_ind'; intros H.
  - cbn [trim]. rewrite (trimmedb_strip s H). reflexivity.
  - cbn [trim]. f_equal. cbn [nv_trimmed] in H. induction IH as [|x r Hx Hr IHr]; [reflexivity|].
    cbn [forallb] in H. apply andb_true_iff in H as [H1 H2]. cbn [map]. rewrite (Hx H1), (IHr H2). reflexivity.
Qed.

(* C08's round trip, in the form the row parser uses it *)
Lemma cell_roundtrip x s :
  wfb_tree x = true -> nv_trimmed x = true -> join_cell x = Ok s -> cell_parse s = x.
Proof.
  intros Hw Ht Hj. unfold join_cell in Hj.
  destruct (list_roundtrip_tree x Hw) as [txt [J P]]. rewrite J in Hj. injection Hj as <-.
  unfold cell_parse. rewrite (trimmedb_strip txt (join_trimmed x 0 txt Ht J)), P. apply trim_trimmed, Ht.
Qed.

(* ---- decoding what to_nested_list wrote (assign_value on the parsed cell) *)
Lemma mapR_ok_inv {E X T} (f : X -> result E T) x r ys :
  mapR f (x :: r) = Ok ys -> exists y yr, f x = Ok y /\ mapR f r = Ok yr /\ ys = y :: yr.
Proof.
  cbn [mapR]. destruct (f x) as [y|e]; [|discriminate]. destruct (mapR f r) as [yr|e]; [|discriminate].
  intros H. injection H as <-. eauto.
Qed.

Lemma rmap_ok_inv {E S T} (f : S -> T) (r : result E S) y : rmap f r = Ok y -> exists x, r = Ok x /\ y = f x.
Proof. destruct r as [x|e]; [|discriminate]. intros H. injection H as <-. eauto. Qed.

Lemma bind_ok_inv {E S T} (r : result E S) (f : S -> result E T) y :
  bind r f = Ok y -> exists x, r = Ok x /\ f x = Ok y.
Proof. destruct r as [x|e]; [|discriminate]. intros H. eauto. Qed.

Definition assign_elem (t' : ty) (e : nv) : res out := do r <- assign_value t' e; Ok (or_none r).

Lemma assign_value_list t' l :
  assign_value (TList t') (Lst l) = do outs <- mapR (assign_elem t') l; Ok (Some (OList outs)).
Proof. reflexivity. Qed.

Lemma decode_basics t' : is_basic_ty t' = true -> forall l xs,
  forallb (basic_ok t') l = true -> mapR (to_nv t') l = Ok xs ->
  mapR (assign_elem t') xs = Ok (map (enc t') l).
Proof.
  intros Ht. induction l as [|v r IH]; intros xs Hok Hx.
  - injection Hx as <-. reflexivity.
  - apply mapR_ok_inv in Hx as (y & yr & Hy & Hr & ->).
    cbn [forallb] in Hok. apply andb_true_iff in Hok as [Hv Hok].
    rewrite (to_nv_basic t' v Ht) in Hy. apply rmap_ok_inv in Hy as (s & Hs & ->).
    destruct (basic_decode t' v s Ht Hv Hs) as [_ Hd].
    cbn [mapR map]. unfold assign_elem at 1. rewrite Hd. cbn [bind or_none]. rewrite (IH yr Hok Hr). reflexivity.
Qed.

Lemma decode_list_basics b l x :
  is_basic_ty b = true -> forallb (basic_ok b) l = true -> to_nv (TList b) (VList l) = Ok x ->
  assign_value (TList b) x = Ok (Some (enc (TList b) (VList l))).
Proof.
  intros Hb Hok Hx. cbn [to_nv] in Hx. apply rmap_ok_inv in Hx as (xs & Hxs & ->).
  rewrite assign_value_list, (decode_basics b Hb l xs Hok Hxs). reflexivity.
Qed.

Lemma decode_list_lists b : is_basic_ty b = true -> forall l xs,
  forallb (fun e => match e with VList l2 => forallb (basic_ok b) l2 | _ => false end) l = true ->
  mapR (to_nv (TList b)) l = Ok xs ->
  mapR (assign_elem (TList b)) xs = Ok (map (enc (TList b)) l).
Proof.
  intros Hb. induction l as [|v r IH]; intros xs Hok Hx.
  - injection Hx as <-. reflexivity.
  - apply mapR_ok_inv in Hx as (y & yr & Hy & Hr & ->).
    cbn [forallb] in Hok. apply andb_true_iff in Hok as [Hv Hok].
    destruct v as [| | | |l2|]; try discriminate.
    cbn [mapR map]. unfold assign_elem at 1. rewrite (decode_list_basics b l2 y Hb Hv Hy).
    cbn [bind or_none]. rewrite (IH yr Hok Hr). reflexivity.
Qed.

Lemma decode_u v : forall x, to_nv_u v = Ok x -> nv_to_out x = enc_u v.
Proof.
  induction v as [s|z|s|b|l IH|fs IH] using value_ind'; intros x Hx; try discriminate.
  - injection Hx as <-. reflexivity.
  - cbn [to_nv_u] in Hx. apply rmap_ok_inv in Hx as (xs & Hxs & ->). cbn [nv_to_out enc_u]. f_equal.
    revert xs Hxs. induction IH as [|v r Hv Hr IHr]; intros xs Hxs.
    + injection Hxs as <-. reflexivity.
    + apply mapR_ok_inv in Hxs as (y & yr & Hy & Hyr & ->). cbn [map]. rewrite (Hv y Hy), (IHr yr Hyr). reflexivity.
Qed.

(* models: key;value pairs *)
Lemma nodup_str_NoDup l : nodup_str l = true -> NoDup l.
Proof.
  induction l as [|x r IH]; [constructor|]. cbn [nodup_str]. intros H.
  apply andb_true_iff in H as [H1 H2]. constructor; [|apply IH, H2].
  apply negb_true_iff in H1. intros Hin. assert (existsb (str_eqb x) r = true); [|congruence].
  apply existsb_exists. exists x. split; [exact Hin|apply str_eqb_refl].
Qed.

Lemma field_lookup_in {A} (f : ty -> option value -> A) fields n tf d :
  NoDup (map f_name fields) -> In (n, (tf, d)) fields -> field_lookup f fields n = Some (f tf d).
Proof.
  induction fields as [|[n2 [t2 d2]] r IH]; [intros _ []|].
  cbn [map f_name fst]. intros Hnd Hin. inversion Hnd as [|? ? Hnot Hnd']; subst.
  cbn [field_lookup]. destruct Hin as [Heq|Hin].
  - injection Heq as -> -> ->. rewrite str_eqb_refl. reflexivity.
  - destruct (str_eqb n2 n) eqn:E; [|apply IH; assumption].
    apply str_eqb_eq in E. subst n2. exfalso. apply Hnot.
    apply in_map_iff. exists (n, (tf, d)). split; [reflexivity|exact Hin].
Qed.

Lemma to_nv_fields_shape fds : forall fs xs,
  to_nv_fields fds fs = Ok xs -> Forall (fun e => exists n x, e = Lst [Str n; x]) xs.
Proof.
  induction fds as [|[n [tf d]] r IH]; intros [|[n' v'] fs'] xs H; cbn [to_nv_fields] in H; try discriminate.
  - injection H as <-. constructor.
  - destruct (negb (str_eqb n n')); [discriminate|]. destruct (is_default d v'); [apply (IH fs' xs H)|].
    apply bind_ok_inv in H as (x & Hx & H). apply bind_ok_inv in H as (rr & Hr & H). injection H as <-.
    constructor; [eauto|apply (IH fs' rr Hr)].
Qed.

Lemma as_kwarg_pairs fields h2f xs :
  Forall (fun e => exists n x, e = Lst [Str n; x]) xs -> as_kwarg fields h2f (Lst xs) = None.
Proof.
  intros H. destruct xs as [|e1 r]; [reflexivity|].
  inversion H as [|? ? (n & x & ->) _]; subst. reflexivity.
Qed.

Lemma decode_fields fields h2f : NoDup (map f_name fields) -> forall fds fs xs i d0,
  (forall f, In f fds -> In f fields) ->
  NoDup (map f_name fds) ->
  (forall f, In f fds -> dget d0 (f_name f) = None) ->
  fields_packable fds h2f fs = true -> to_nv_fields fds fs = Ok xs ->
  assign_go fields h2f xs i d0 = Ok (d0 ++ enc_fields fds fs).
Proof.
  intros Hnd. induction fds as [|[n [tf d]] r IH]; intros [|[n' v'] fs'] xs i d0 Hsub Hnd2 Hfresh Hp Hx;
    cbn [fields_packable to_nv_fields] in *; try discriminate.
  - injection Hx as <-. cbn [assign_go enc_fields]. rewrite app_nil_r. reflexivity.
  - apply andb_true_iff in Hp as [Hp Hp3]. apply andb_true_iff in Hp as [Hp1 Hp2].
    rewrite Hp1 in Hx. cbn [negb] in Hx. cbn [map f_name fst] in Hnd2. inversion Hnd2 as [|? ? Hnot Hnd3]; subst.
    assert (Hsub' : forall f, In f r -> In f fields) by (intros f Hf; apply Hsub; right; exact Hf).
    cbn [enc_fields]. destruct (is_default d v') eqn:Ed.
    + apply (IH fs' xs i d0 Hsub' Hnd3); [intros f Hf; apply Hfresh; right; exact Hf|exact Hp3|exact Hx].
    + apply andb_true_iff in Hp2 as [Hp2 Hk]. apply andb_true_iff in Hp2 as [Hb Hok].
      apply str_eqb_eq in Hk.
      apply bind_ok_inv in Hx as (x & Hxv & Hx). apply bind_ok_inv in Hx as (rr & Hr & Hx). injection Hx as <-.
      rewrite (to_nv_basic tf v' Hb) in Hxv. apply rmap_ok_inv in Hxv as (s & Hs & ->).
      destruct (basic_decode tf v' s Hb Hok Hs) as [_ Hd].
      assert (Hin : In (n, (tf, d)) fields) by (apply Hsub; left; reflexivity).
      cbn [assign_go as_kwarg]. rewrite Hk. unfold has_field.
      rewrite (field_lookup_in (fun _ _ => tt) fields n tf d Hnd Hin).
      unfold by_name. rewrite (field_lookup_in (fun tf0 _ => assign_value tf0 (Str s)) fields n tf d Hnd Hin).
      rewrite Hd. cbn [bind dset_opt].
      assert (Hfn : dget d0 n = None) by (apply (Hfresh (n, (tf, d))); left; reflexivity).
      rewrite (dset_absent d0 n _ Hfn).
      rewrite (IH fs' rr (S i) (d0 ++ [(n, enc tf v')]) Hsub' Hnd3); [rewrite <- app_assoc; reflexivity| |exact Hp3|exact Hr].
      intros f Hf. rewrite dget_app_none by (apply Hfresh; right; exact Hf).
      unfold dget. cbn [oget]. destruct (str_eqb n (f_name f)) eqn:E; [|reflexivity].
      apply str_eqb_eq in E. exfalso. apply Hnot. rewrite E. apply in_map. exact Hf.
Qed.

Lemma decode_model fields h2f f2h fs x :
  nodup_names fields = true -> fields_packable fields h2f fs = true ->
  to_nv (TModel fields h2f f2h) (VModel fs) = Ok x ->
  assign_value (TModel fields h2f f2h) x = Ok (Some (enc (TModel fields h2f f2h) (VModel fs))).
Proof.
  intros Hnd Hp Hx. rewrite to_nv_model in Hx. apply rmap_ok_inv in Hx as (xs & Hxs & ->).
  apply nodup_str_NoDup in Hnd.
  rewrite assign_value_model. cbn zeta.
  rewrite (as_kwarg_pairs fields h2f xs (to_nv_fields_shape fields fs xs Hxs)).
  rewrite (decode_fields fields h2f Hnd fields fs xs O [] (fun f H => H) Hnd (fun f _ => eq_refl) Hp Hxs).
  rewrite enc_model. reflexivity.
Qed.

(* a compound value packed into one cell reads back *)
Lemma leaf_packed t v s cur :
  is_basic_ty t = false -> packed_ok t v = true -> write_text t v = Ok s ->
  leaf_assign t (Raw s) cur = Ok (enc t v).
Proof.
  intros Ht Hp Hs. unfold write_text in Hs. rewrite Ht in Hs.
  apply bind_ok_inv in Hs as (x & Hx & Hj).
  assert (Hlv : leaf_value t (Raw s) = cell_parse s).
  { unfold leaf_value. destruct t; try discriminate; reflexivity. }
  unfold leaf_assign. rewrite Hlv.
  assert (Hgen : wfb_tree x = true -> nv_trimmed x = true ->
                 assign_value t x = Ok (Some (enc t v)) ->
                 (do r <- assign_value t (cell_parse s); Ok match r with Some o => o | None => cur end) = Ok (enc t v)).
  { intros Hw Htr Ha. rewrite (cell_roundtrip x s Hw Htr Hj), Ha. reflexivity. }
  destruct t as [| | | | |t'|fields h2f f2h]; try discriminate; destruct v as [| | | |l|fs]; try discriminate.
  - (* bare list *)
    unfold packed_ok in Hp. rewrite Hx in Hp.
    apply andb_true_iff in Hp as [Hp _]. apply andb_true_iff in Hp as [Hw Htr].
    apply (Hgen Hw Htr). cbn [to_nv] in Hx. apply rmap_ok_inv in Hx as (xs & Hxs & ->).
    cbn [assign_value enc]. do 3 f_equal. clear -Hxs. revert xs Hxs.
    induction l as [|v r IH]; intros xs Hxs.
    + injection Hxs as <-. reflexivity.
    + apply mapR_ok_inv in Hxs as (y & yr & Hy & Hyr & ->). cbn [map].
      rewrite (decode_u v y Hy), (IH yr Hyr). reflexivity.
  - (* typed list *)
    destruct l as [|e l'].
    + cbn [to_nv mapR rmap] in Hx. injection Hx as <-. unfold join_cell in Hj. cbn in Hj. injection Hj as <-.
      reflexivity.
    + unfold packed_ok in Hp. rewrite Hx in Hp.
      apply andb_true_iff in Hp as [Hp He]. apply andb_true_iff in Hp as [Hw Htr].
      apply (Hgen Hw Htr). unfold elems_packable in He.
      destruct (is_basic_ty t') eqn:Hb.
      * apply decode_list_basics; assumption.
      * destruct t' as [| | | | |b|]; try discriminate. apply andb_true_iff in He as [Hb2 He].
        cbn [to_nv] in Hx. apply rmap_ok_inv in Hx as (xs & Hxs & ->).
        rewrite assign_value_list, (decode_list_lists b Hb2 (e :: l') xs He Hxs). reflexivity.
  - (* model *)
    unfold packed_ok in Hp. rewrite Hx in Hp.
    apply andb_true_iff in Hp as [Hp He]. apply andb_true_iff in Hp as [Hw Htr].
    apply andb_true_iff in He as [Hnd Hf].
    apply (Hgen Hw Htr). apply decode_model; assumption.
Qed.

Lemma leaf_ok t v s cur :
  (if is_basic_ty t then basic_ok t v else packed_ok t v) = true -> write_text t v = Ok s ->
  leaf_assign t (Raw s) cur = Ok (enc t v).
Proof.
  destruct (is_basic_ty t) eqn:Ht; intros H Hs; [apply leaf_basic|apply leaf_packed]; assumption.
Qed.

(* ================================================================== E. the induction over the model universe *)
Lemma mapRi_ok_inv {E X T} (g : nat -> X -> result E T) i x r ys :
  mapRi g i (x :: r) = Ok ys -> exists y yr, g i x = Ok y /\ mapRi g (S i) r = Ok yr /\ ys = y :: yr.
Proof.
  cbn [mapRi]. destruct (g i x) as [y|e]; [|discriminate]. destruct (mapRi g (S i) r) as [yr|e]; [|discriminate].
  intros H. injection H as <-. eauto.
Qed.

Definition names_ok (cs : cols) : Prop := Forall (fun ps => Forall (fun c => name_ok c = true) (fst ps)) cs.

Lemma names_ok_prefix c cs : name_ok c = true -> names_ok cs -> names_ok (prefix_cols c cs).
Proof.
  intros Hc H. unfold names_ok, prefix_cols. apply Forall_forall. intros ps Hin.
  apply in_map_iff in Hin as [x [<- Hx]]. cbn [fst]. constructor; [exact Hc|].
  unfold names_ok in H. rewrite Forall_forall in H. apply H, Hx.
Qed.

Lemma names_ok_concat gs : Forall names_ok gs -> names_ok (concat gs).
Proof.
  induction 1 as [|g r Hg Hr IH]; [constructor|]. cbn [concat]. apply Forall_app. split; assumption.
Qed.

Section Induction.
  Variable tgt : list str -> bool.

  Definition child_ok (t : ty) : Prop :=
    forall v comps cs,
      dom tgt t v comps = true -> unparse_rec tgt noexc t v comps = Ok cs -> cs <> [] ->
      puts t cs ONone = Ok (enc t v) /\ names_ok cs.

  Lemma writes_inv t v comps cs :
    writes tgt t v comps = true -> unparse_rec tgt noexc t v comps = Ok cs -> cs <> [].
  Proof. unfold writes. intros H E. rewrite E in H. destruct cs; [discriminate|discriminate]. Qed.

  (* leaf: the value is written into one cell *)
  Lemma child_leaf t v comps cs :
    is_basic_ty t || tgt comps = true ->
    dom tgt t v comps = true -> unparse_rec tgt noexc t v comps = Ok cs ->
    puts t cs ONone = Ok (enc t v) /\ names_ok cs.
  Proof.
    intros Hl Hd Hu. rewrite unparse_rec_unfold, Hl in Hu. apply bind_ok_inv in Hu as (s & Hs & Hu).
    injection Hu as <-. split; [|repeat constructor]. unfold puts. cbn [foldM fst snd put].
    rewrite (leaf_ok t v s ONone); [reflexivity| |exact Hs].
    rewrite dom_unfold in Hd. destruct (is_basic_ty t); [exact Hd|]. cbn [orb] in Hl. rewrite Hl in Hd. exact Hd.
  Qed.

  Lemma fill_list_elems t' comps : child_ok t' -> forall l i l0 gs,
    length l0 = i -> dom_elems tgt t' comps i l = true ->
    mapRi (fun i e => let c := print_nat (S i) in
                      rmap (prefix_cols c) (unparse_rec tgt noexc t' e (comps ++ [c]))) i l = Ok gs ->
    fill (TList t') (concat gs) (OList l0) = Ok (OList (l0 ++ map (enc t') l))
    /\ Forall paths_nonempty gs /\ Forall names_ok gs.
  Proof.
    intros IHt. induction l as [|e r IH]; intros i l0 gs Hl Hd Hg.
    - injection Hg as <-. cbn [concat map]. rewrite app_nil_r. repeat split; constructor.
    - apply mapRi_ok_inv in Hg as (y & yr & Hy & Hyr & ->). cbn zeta in Hy.
      apply rmap_ok_inv in Hy as (cs & Hcs & ->).
      cbn [dom_elems] in Hd. cbn zeta in Hd. apply andb_true_iff in Hd as [Hd Hd3]. apply andb_true_iff in Hd as [Hw Hd2].
      pose proof (writes_inv _ _ _ _ Hw Hcs) as Hne.
      destruct (IH (S i) (l0 ++ [enc t' e]) yr) as (F1 & F2 & F3);
        [rewrite app_length; cbn [length]; lia|exact Hd3|exact Hyr|].
      destruct (IHt e _ cs Hd2 Hcs Hne) as [Hput Hnm].
      cbn [concat]. split; [|split].
      + rewrite fill_app, (fill_list_group (TList t') cs l0 i eq_refl Hl Hne). cbn [child_ty].
        rewrite Hput. cbn [bind]. rewrite F1, <- app_assoc. reflexivity.
      + constructor; [apply paths_nonempty_prefix|exact F2].
      + constructor; [apply names_ok_prefix; [apply print_nat_name_ok|exact Hnm]|exact F3].
  Qed.

  Lemma fill_ulist_elems comps : forall l i l0 gs,
    length l0 = i ->
    forallb (fun e => match e with VStr s => trimmedb s | _ => false end) l = true ->
    mapRi (fun i e => let c := print_nat (S i) in
                      rmap (prefix_cols c) (unparse_u tgt noexc e (comps ++ [c]))) i l = Ok gs ->
    fill TUList (concat gs) (OList l0) = Ok (OList (l0 ++ map enc_u l))
    /\ Forall paths_nonempty gs /\ Forall names_ok gs.
  Proof.
    induction l as [|e r IH]; intros i l0 gs Hl Hd Hg.
    - injection Hg as <-. cbn [concat map]. rewrite app_nil_r. repeat split; constructor.
    - apply mapRi_ok_inv in Hg as (y & yr & Hy & Hyr & ->). cbn zeta in Hy.
      cbn [forallb] in Hd. apply andb_true_iff in Hd as [Hs Hd3].
      destruct e as [s| | | | |]; try discriminate.
      cbn [unparse_u noexc rmap] in Hy. injection Hy as <-.
      destruct (IH (S i) (l0 ++ [OStr s]) yr) as (F1 & F2 & F3);
        [rewrite app_length; cbn [length]; lia|exact Hd3|exact Hyr|].
      cbn [concat]. split; [|split].
      + change [([print_nat (S i)], s)] with (prefix_cols (print_nat (S i)) [([], s)]).
        rewrite fill_app, (fill_list_group TUList [([], s)] l0 i eq_refl Hl ltac:(discriminate)). cbn [child_ty].
        unfold puts. cbn [foldM fst snd put]. unfold leaf_assign, leaf_value. cbn [is_list_ty is_model_ty orb assign_value bind].
        rewrite (trimmedb_strip s Hs). rewrite F1, <- app_assoc. reflexivity.
      + constructor; [apply (paths_nonempty_prefix (print_nat (S i)) [([], s)])|exact F2].
      + constructor; [|exact F3]. apply (names_ok_prefix (print_nat (S i)) [([], s)]); [apply print_nat_name_ok|repeat constructor].
  Qed.

  Lemma fill_model_fields fields h2f f2h comps :
    NoDup (map f_name fields) -> forall fds,
    Forall (fun f => child_ok (f_ty f)) fds -> forall fs d0 gs,
    (forall f, In f fds -> In f fields) ->
    NoDup (map f_name fds) ->
    (forall f, In f fds -> dget d0 (f_name f) = None) ->
    dom_fields tgt h2f f2h comps fds fs = true ->
    unparse_fields tgt f2h comps fds fs = Ok gs ->
    fill (TModel fields h2f f2h) (concat gs) (ODict d0) = Ok (ODict (d0 ++ enc_fields fds fs))
    /\ Forall paths_nonempty gs /\ Forall names_ok gs.
  Proof.
    intros Hnd. induction 1 as [|[n [tf d]] r IHf _ IH]; intros [|[n' v'] fs'] d0 gs Hsub Hnd2 Hfresh Hd Hu;
      cbn [dom_fields unparse_fields] in *; try discriminate.
    - injection Hu as <-. cbn [concat enc_fields]. rewrite app_nil_r. repeat split; constructor.
    - apply andb_true_iff in Hd as [Hd Hd3]. apply andb_true_iff in Hd as [Hn Hd2].
      rewrite Hn in Hu. cbn [negb] in Hu. cbn [map f_name fst] in Hnd2. inversion Hnd2 as [|? ? Hnot Hnd3]; subst.
      assert (Hsub' : forall f, In f r -> In f fields) by (intros f Hf; apply Hsub; right; exact Hf).
      cbn [enc_fields]. destruct (is_default d v') eqn:Ed.
      + apply (IH fs' d0 gs Hsub' Hnd3); [intros f Hf; apply Hfresh; right; exact Hf|exact Hd3|exact Hu].
      + cbn zeta in Hd2, Hu. set (h := remap_get f2h n) in *.
        apply andb_true_iff in Hd2 as [Hd2 Hc]. apply andb_true_iff in Hd2 as [Hh Hk]. apply str_eqb_eq in Hk.
        apply bind_ok_inv in Hu as (here & Hhere & Hu). apply bind_ok_inv in Hu as (rr & Hr & Hu). injection Hu as <-.
        assert (Hin : In (n, (tf, d)) fields) by (apply Hsub; left; reflexivity).
        assert (Hlk : field_lookup (fun tf0 _ => tf0) fields (remap_get h2f h) = Some tf)
          by (rewrite Hk; apply (field_lookup_in (fun tf0 _ => tf0) fields n tf d Hnd Hin)).
        assert (Hfn : dget d0 n = None) by (apply (Hfresh (n, (tf, d))); left; reflexivity).
        (* the columns of this field, whichever way they were written *)
        assert (Hgrp : exists cs, here = prefix_cols h cs /\ cs <> [] /\ puts tf cs ONone = Ok (enc tf v') /\ names_ok cs).
        { cbn [f_ty fst snd] in IHf. destruct (str_eqb n h) eqn:Enh.
          - apply andb_true_iff in Hc as [Hw Hdm]. apply rmap_ok_inv in Hhere as (cs & Hcs & ->).
            exists cs. pose proof (writes_inv _ _ _ _ Hw Hcs) as Hne.
            destruct (IHf v' _ cs Hdm Hcs Hne) as [Hput Hnm]. repeat split; assumption.
          - cbn [noexc] in Hhere. apply bind_ok_inv in Hhere as (s & Hs & Hhere). injection Hhere as <-.
            exists [([], s)]. repeat split; [discriminate| |repeat constructor].
            unfold puts. cbn [foldM fst snd put]. rewrite (leaf_ok tf v' s ONone Hc Hs). reflexivity. }
        destruct Hgrp as (cs & -> & Hne & Hputs & Hnm).
        destruct (IH fs' (d0 ++ [(n, enc tf v')]) rr Hsub' Hnd3) as (F1 & F2 & F3); [|exact Hd3|exact Hr|].
        { intros f Hf. rewrite dget_app_none by (apply Hfresh; right; exact Hf).
          unfold dget. cbn [oget]. destruct (str_eqb n (f_name f)) eqn:E; [|reflexivity].
          apply str_eqb_eq in E. exfalso. apply Hnot. rewrite E. apply in_map. exact Hf. }
        cbn [concat]. split; [|split; [constructor; [apply paths_nonempty_prefix|exact F2]
                                      |constructor; [apply names_ok_prefix; assumption|exact F3]]].
        rewrite fill_app, (fill_model_group fields h2f f2h h tf cs d0 Hlk Hne).
        rewrite Hk, Hfn, Hputs. cbn [bind]. rewrite (dset_absent d0 n _ Hfn), F1, <- app_assoc. reflexivity.
  Qed.

  Theorem puts_enc : forall t, child_ok t.
  Proof.
    induction t as [| | | | |t' IH|fields h2f f2h IH] using ty_ind'; intros v comps cs Hd Hu Hne;
      try (apply (child_leaf _ v comps cs); [reflexivity|exact Hd|exact Hu]).
    - (* bare list *)
      destruct (tgt comps) eqn:Et; [apply (child_leaf _ v comps cs); [cbn; rewrite Et; reflexivity|exact Hd|exact Hu]|].
      rewrite unparse_rec_unfold in Hu. rewrite dom_unfold in Hd. cbn [is_basic_ty orb] in Hu, Hd. rewrite Et in Hu, Hd.
      destruct v as [| | | |l|]; try discriminate. apply rmap_ok_inv in Hu as (gs & Hgs & ->).
      destruct (fill_ulist_elems comps l O [] gs eq_refl Hd Hgs) as (F1 & F2 & F3).
      split; [|apply names_ok_concat, F3].
      rewrite puts_fresh_list; [exact F1|reflexivity|apply paths_nonempty_concat, F2|exact Hne].
    - (* typed list *)
      destruct (tgt comps) eqn:Et; [apply (child_leaf _ v comps cs); [cbn; rewrite Et; reflexivity|exact Hd|exact Hu]|].
      rewrite unparse_rec_unfold in Hu. rewrite dom_unfold in Hd. cbn [is_basic_ty orb] in Hu, Hd. rewrite Et in Hu, Hd.
      destruct v as [| | | |l|]; try discriminate. apply rmap_ok_inv in Hu as (gs & Hgs & ->).
      destruct (fill_list_elems t' comps IH l O [] gs eq_refl Hd Hgs) as (F1 & F2 & F3).
      split; [|apply names_ok_concat, F3].
      rewrite puts_fresh_list; [exact F1|reflexivity|apply paths_nonempty_concat, F2|exact Hne].
    - (* model *)
      destruct (tgt comps) eqn:Et; [apply (child_leaf _ v comps cs); [cbn; rewrite Et; reflexivity|exact Hd|exact Hu]|].
      rewrite unparse_rec_unfold in Hu. rewrite dom_unfold in Hd. cbn [is_basic_ty orb] in Hu, Hd. rewrite Et in Hu, Hd.
      destruct v as [| | | | |fs]; try discriminate. apply rmap_ok_inv in Hu as (gs & Hgs & ->).
      apply andb_true_iff in Hd as [Hnd Hd]. apply nodup_str_NoDup in Hnd.
      destruct (fill_model_fields fields h2f f2h comps Hnd fields IH fs [] gs (fun f H => H) Hnd (fun f _ => eq_refl) Hd Hgs)
        as (F1 & F2 & F3).
      split; [|apply names_ok_concat, F3].
      rewrite puts_fresh_model; [rewrite enc_model; exact F1|reflexivity|apply paths_nonempty_concat, F2|exact Hne].
  Qed.
End Induction.

(* ================================================================== F. pydantic construction gives the instance back *)
Fixpoint fields_valid (fds : list field) (fs : list (str * value)) : Prop :=
  match fds, fs with
  | [], [] => True
  | (n, (tf, d)) :: fds', (n', v') :: fs' =>
    n = n' /\ (is_default d v' = true \/ (is_default d v' = false /\ validate tf (enc tf v') = Ok v'))
    /\ fields_valid fds' fs'
  | _, _ => False
  end.

Lemma enc_fields_keys fds : forall fs k,
  ~ In k (map f_name fds) -> dget (enc_fields fds fs) k = None.
Proof.
  induction fds as [|[n [tf d]] r IH]; intros fs k Hk; [reflexivity|].
  destruct fs as [|[n' v'] fs']; [reflexivity|]. cbn [enc_fields].
  cbn [map f_name fst] in Hk.
  assert (Hr : ~ In k (map f_name r)) by (intros H; apply Hk; right; exact H).
  destruct (is_default d v'); [apply IH, Hr|].
  unfold dget. cbn [oget]. destruct (str_eqb n k) eqn:E; [|apply IH, Hr].
  apply str_eqb_eq in E. exfalso. apply Hk. left. exact E.
Qed.

Lemma validate_fields_enc fds : forall fs pre,
  NoDup (map f_name fds) ->
  (forall f, In f fds -> dget pre (f_name f) = None) ->
  fields_valid fds fs ->
  validate_fields (pre ++ enc_fields fds fs) fds = Ok fs.
Proof.
  induction fds as [|[n [tf d]] r IH]; intros [|[n' v'] fs'] pre Hnd Hfresh Hv; cbn [fields_valid] in Hv; try contradiction.
  - reflexivity.
  - destruct Hv as (<- & Hc & Hv). cbn [map f_name fst] in Hnd. inversion Hnd as [|? ? Hnot Hnd']; subst.
    assert (Hpn : dget pre n = None) by (apply (Hfresh (n, (tf, d))); left; reflexivity).
    cbn [validate_fields enc_fields]. destruct Hc as [Hdef|[Hdef Hval]]; rewrite Hdef.
    + rewrite (dget_app_none pre _ n Hpn), (enc_fields_keys r fs' n Hnot).
      rewrite (is_default_eq d v' Hdef). cbn [bind].
      rewrite (IH fs' pre Hnd'); [reflexivity| |exact Hv]. intros f Hf. apply Hfresh. right. exact Hf.
    + rewrite (dget_app_none pre _ n Hpn). unfold dget at 1. cbn [oget]. rewrite str_eqb_refl, Hval. cbn [bind].
      replace (pre ++ (n, enc tf v') :: enc_fields r fs') with ((pre ++ [(n, enc tf v')]) ++ enc_fields r fs')
        by (rewrite <- app_assoc; reflexivity).
      rewrite (IH fs' (pre ++ [(n, enc tf v')]) Hnd'); [reflexivity| |exact Hv].
      intros f Hf. rewrite dget_app_none by (apply Hfresh; right; exact Hf).
      unfold dget. cbn [oget]. destruct (str_eqb n (f_name f)) eqn:E; [|reflexivity].
      apply str_eqb_eq in E. exfalso. apply Hnot. rewrite E. apply in_map, Hf.
Qed.

Lemma validate_none t : validate t ONone = Err EValidation.
Proof. destruct t; reflexivity. Qed.

Lemma enc_fields_not_none fds : forall fs,
  fields_valid fds fs -> Forall (fun kv => not_none kv = true) (enc_fields fds fs).
Proof.
  induction fds as [|[n [tf d]] r IH]; intros [|[n' v'] fs'] Hv; cbn [fields_valid] in Hv; try contradiction; [constructor|].
  destruct Hv as (_ & Hc & Hv). cbn [enc_fields]. destruct Hc as [Hdef|[Hdef Hval]]; rewrite Hdef; [apply IH, Hv|].
  constructor; [|apply IH, Hv]. unfold not_none. cbn [snd].
  destruct (enc tf v') eqn:E; try reflexivity. rewrite validate_none in Hval. discriminate.
Qed.

Lemma validate_basic t v : is_basic_ty t = true -> basic_ok t v = true -> validate t (enc t v) = Ok v.
Proof. intros Ht Hok. destruct t; try discriminate; destruct v; try discriminate; reflexivity. Qed.

Lemma mapR_validate_basics t' l :
  is_basic_ty t' = true -> forallb (basic_ok t') l = true -> mapR (validate t') (map (enc t') l) = Ok l.
Proof.
  intros Ht. induction l as [|v r IH]; [reflexivity|]. cbn [forallb]. intros H.
  apply andb_true_iff in H as [H1 H2]. cbn [map mapR]. rewrite (validate_basic t' v Ht H1), (IH H2). reflexivity.
Qed.

Lemma out_to_value_enc_u v : forall x, to_nv_u v = Ok x -> out_to_value (enc_u v) = Ok v.
Proof.
  induction v as [s|z|s|b|l IH|fs IH] using value_ind'; intros x Hx; try discriminate; [reflexivity|].
  cbn [to_nv_u] in Hx. apply rmap_ok_inv in Hx as (xs & Hxs & _). cbn [enc_u out_to_value].
  assert (G : mapR out_to_value (map enc_u l) = Ok l); [|rewrite G; reflexivity].
  revert xs Hxs. induction IH as [|v r Hv Hr IHr]; intros xs Hxs; [reflexivity|].
  apply mapR_ok_inv in Hxs as (y & yr & Hy & Hyr & _). cbn [map mapR].
  rewrite (Hv y Hy), (IHr yr Hyr). reflexivity.
Qed.

Lemma fields_valid_packable fds h2f : forall fs,
  fields_packable fds h2f fs = true -> fields_valid fds fs.
Proof.
  induction fds as [|[n [tf d]] r IH]; intros [|[n' v'] fs'] H; cbn [fields_packable] in H; try discriminate; [exact I|].
  apply andb_true_iff in H as [H H3]. apply andb_true_iff in H as [H1 H2]. apply str_eqb_eq in H1.
  cbn [fields_valid]. split; [exact H1|]. split; [|apply IH, H3].
  destruct (is_default d v') eqn:Ed; [left; reflexivity|right]. split; [reflexivity|].
  apply andb_true_iff in H2 as [H2 _]. apply andb_true_iff in H2 as [Hb Hok]. apply validate_basic; assumption.
Qed.

Lemma validate_model_enc fields h2f f2h fs :
  nodup_names fields = true -> fields_valid fields fs ->
  validate (TModel fields h2f f2h) (enc (TModel fields h2f f2h) (VModel fs)) = Ok (VModel fs).
Proof.
  intros Hnd Hv. rewrite enc_model, validate_model.
  change (enc_fields fields fs) with ([] ++ enc_fields fields fs).
  rewrite (validate_fields_enc fields fs [] (nodup_str_NoDup _ Hnd) (fun f _ => eq_refl) Hv). reflexivity.
Qed.

Lemma validate_packed t v :
  is_basic_ty t = false -> packed_ok t v = true -> validate t (enc t v) = Ok v.
Proof.
  intros Ht Hp.
  destruct t as [| | | | |t'|fields h2f f2h]; try discriminate; destruct v as [| | | |l|fs]; try discriminate.
  - unfold packed_ok in Hp. destruct (to_nv TUList (VList l)) as [x|] eqn:Hx; [|discriminate].
    apply (out_to_value_enc_u (VList l) x). exact Hx.
  - destruct l as [|e l']; [reflexivity|].
    unfold packed_ok in Hp. destruct (to_nv (TList t') (VList (e :: l'))) as [x|] eqn:Hx; [|discriminate].
    apply andb_true_iff in Hp as [_ He]. unfold elems_packable in He. cbn [enc validate].
    destruct (is_basic_ty t') eqn:Hb.
    + rewrite (mapR_validate_basics t' (e :: l') Hb He). reflexivity.
    + destruct t' as [| | | | |b|]; try discriminate. apply andb_true_iff in He as [Hb2 He].
      assert (Hone : forall l2, forallb (basic_ok b) l2 = true ->
                       validate (TList b) (enc (TList b) (VList l2)) = Ok (VList l2)).
      { intros l2 H2. cbn [enc validate]. rewrite (mapR_validate_basics b l2 Hb2 H2). reflexivity. }
      assert (G : mapR (validate (TList b)) (map (enc (TList b)) (e :: l')) = Ok (e :: l')); [|rewrite G; reflexivity].
      revert He. generalize (e :: l'). intros l. induction l as [|v r IH]; [reflexivity|].
      cbn [forallb]. intros H. apply andb_true_iff in H as [H1 H2]. destruct v as [| | | |l2|]; try discriminate.
      cbn [map mapR]. rewrite (Hone l2 H1), (IH H2). reflexivity.
  - unfold packed_ok in Hp. destruct (to_nv (TModel fields h2f f2h) (VModel fs)) as [x|] eqn:Hx; [|discriminate].
    apply andb_true_iff in Hp as [_ He]. apply andb_true_iff in He as [Hnd Hf].
    apply validate_model_enc; [exact Hnd|apply (fields_valid_packable _ h2f), Hf].
Qed.

Section Validate.
  Variable tgt : list str -> bool.

  Theorem validate_enc : forall t v comps, dom tgt t v comps = true -> validate t (enc t v) = Ok v.
  Proof.
    induction t as [| | | | |t' IH|fields h2f f2h IH] using ty_ind'; intros v comps Hd;
      try (apply validate_basic; [reflexivity|exact Hd]);
      rewrite dom_unfold in Hd; cbn [is_basic_ty] in Hd;
      (destruct (tgt comps) eqn:Et; [apply validate_packed; [reflexivity|exact Hd]|]).
    - destruct v as [| | | |l|]; try discriminate. cbn [enc validate].
      assert (G : mapR out_to_value (map enc_u l) = Ok l); [|rewrite G; reflexivity].
      induction l as [|e r IHl]; [reflexivity|]. cbn [forallb] in Hd. apply andb_true_iff in Hd as [H1 H2].
      destruct e; try discriminate. cbn [map mapR enc_u out_to_value]. rewrite (IHl H2). reflexivity.
    - destruct v as [| | | |l|]; try discriminate. cbn [enc validate].
      assert (G : mapR (validate t') (map (enc t') l) = Ok l); [|rewrite G; reflexivity].
      revert Hd. generalize O. induction l as [|e r IHl]; intros i Hd; [reflexivity|].
      cbn [dom_elems] in Hd. cbn zeta in Hd. apply andb_true_iff in Hd as [Hd H3]. apply andb_true_iff in Hd as [_ H2].
      cbn [map mapR]. rewrite (IH e _ H2), (IHl (S i) H3). reflexivity.
    - destruct v as [| | | | |fs]; try discriminate. apply andb_true_iff in Hd as [Hnd Hd].
      apply validate_model_enc; [exact Hnd|]. clear Hnd. revert fs Hd.
      induction IH as [|[n [tf d]] r IHf _ IHr]; intros [|[n' v'] fs'] Hd; cbn [dom_fields] in Hd; try discriminate; [exact I|].
      apply andb_true_iff in Hd as [Hd H3]. apply andb_true_iff in Hd as [H1 H2]. apply str_eqb_eq in H1.
      cbn [fields_valid]. split; [exact H1|]. split; [|apply IHr, H3].
      destruct (is_default d v') eqn:Ed; [left; reflexivity|right]. split; [reflexivity|].
      cbn zeta in H2. apply andb_true_iff in H2 as [_ Hc]. cbn [f_ty fst snd] in IHf.
      destruct (str_eqb n (remap_get f2h n)).
      + apply andb_true_iff in Hc as [_ Hdm]. apply (IHf v' _ Hdm).
      + destruct (is_basic_ty tf) eqn:Hb; [apply validate_basic|apply validate_packed]; assumption.
  Qed.

  Lemma dom_fields_valid h2f f2h comps fds : forall fs,
    dom_fields tgt h2f f2h comps fds fs = true -> fields_valid fds fs.
  Proof.
    induction fds as [|[n [tf d]] r IHr]; intros [|[n' v'] fs'] Hd; cbn [dom_fields] in Hd; try discriminate; [exact I|].
    apply andb_true_iff in Hd as [Hd H3]. apply andb_true_iff in Hd as [H1 H2]. apply str_eqb_eq in H1.
    cbn [fields_valid]. split; [exact H1|]. split; [|apply IHr, H3].
    destruct (is_default d v') eqn:Ed; [left; reflexivity|right]. split; [reflexivity|].
    cbn zeta in H2. apply andb_true_iff in H2 as [_ Hc].
    destruct (str_eqb n (remap_get f2h n)).
    + apply andb_true_iff in Hc as [_ Hdm]. apply (validate_enc tf v' _ Hdm).
    + destruct (is_basic_ty tf) eqn:Hb; [apply validate_basic|apply validate_packed]; assumption.
  Qed.
End Validate.

(* ================================================================== G. the row *)
(* excluded headers: only the extension of the predicate matters *)
Lemma mapRi_ext {E X T} (g g' : nat -> X -> result E T) l :
  Forall (fun x => forall i, g i x = g' i x) l -> forall i, mapRi g i l = mapRi g' i l.
Proof.
  induction 1 as [|x r Hx Hr IH]; intros i; [reflexivity|]. cbn [mapRi]. rewrite Hx, IH. reflexivity.
Qed.

Lemma unparse_u_ext tgt exc exc' : (forall c, exc c = exc' c) ->
  forall v comps, unparse_u tgt exc v comps = unparse_u tgt exc' v comps.
Proof.
  intros Hx. induction v as [s|z|s|b|l IH|fs IH] using value_ind'; intros comps; cbn [unparse_u]; rewrite Hx; try reflexivity.
  destruct (exc' comps); [reflexivity|]. destruct (tgt comps); [reflexivity|]. f_equal.
  apply mapRi_ext. apply Forall_forall. intros e He i. rewrite Forall_forall in IH. rewrite (IH e He). reflexivity.
Qed.

Lemma unparse_rec_ext tgt exc exc' : (forall c, exc c = exc' c) ->
  forall t v comps, unparse_rec tgt exc t v comps = unparse_rec tgt exc' t v comps.
Proof.
  intros Hx. induction t as [| | | | |t' IH|fields h2f f2h IH] using ty_ind'; intros v comps;
    cbn [unparse_rec]; rewrite Hx; try reflexivity.
  - destruct (exc' comps); [reflexivity|]. destruct (is_basic_ty TUList || tgt comps); [reflexivity|].
    destruct v; try reflexivity. f_equal. apply mapRi_ext. apply Forall_forall. intros e He i.
    rewrite (unparse_u_ext tgt exc exc' Hx). reflexivity.
  - destruct (exc' comps); [reflexivity|]. destruct (is_basic_ty (TList t') || tgt comps); [reflexivity|].
    destruct v; try reflexivity. f_equal. apply mapRi_ext. apply Forall_forall. intros e He i.
    rewrite IH. reflexivity.
  - destruct (exc' comps); [reflexivity|]. destruct (is_basic_ty (TModel fields h2f f2h) || tgt comps); [reflexivity|].
    destruct v as [| | | | |fs]; try reflexivity. f_equal. revert fs.
    induction IH as [|[n [tf d]] r IHf _ IHr]; intros [|[n' v'] fs']; try reflexivity.
    destruct (negb (str_eqb n n')); [reflexivity|]. destruct (is_default d v'); [apply IHr|].
    cbn [f_ty fst snd] in IHf. rewrite IHf, Hx, IHr. reflexivity.
Qed.

Lemma matches_no_headers comps : matches_headers [] comps = false.
Proof. destruct comps; reflexivity. Qed.

(* header re-keying without row context: nothing changes when headers are distinct *)
Lemma oset_absent_str {V} (d : list (str * V)) k v : ~ In k (map fst d) -> oset str_eqb d k v = d ++ [(k, v)].
Proof.
  induction d as [|[k' v'] r IH]; cbn [oset map fst app]; [reflexivity|]. intros H.
  destruct (str_eqb k' k) eqn:E; [apply str_eqb_eq in E; exfalso; apply H; left; exact E|].
  rewrite IH; [reflexivity|]. intros Hin. apply H. right. exact Hin.
Qed.

Lemma rekey_none_gen cells : forall acc,
  NoDup (map fst (acc ++ cells)) ->
  foldM (fun acc kv => do k <- ctx_h2f None cells (fst kv); Ok (rekey_put acc k (snd kv))) cells acc
  = Ok (acc ++ cells).
Proof.
  generalize cells at 2. intros all. induction cells as [|[k v] r IH]; intros acc Hnd.
  - rewrite app_nil_r. reflexivity.
  - cbn [foldM ctx_h2f bind fst snd]. rewrite rekey_put_new.
    + rewrite IH; rewrite <- app_assoc; [reflexivity|exact Hnd].
    + rewrite map_app in Hnd. apply NoDup_remove_2 in Hnd. intros Hin. apply Hnd. apply in_or_app. left. exact Hin.
Qed.

Lemma rekey_none cells : NoDup (map fst cells) -> rekey None cells = Ok cells.
Proof. intros H. unfold rekey. apply (rekey_none_gen cells []). exact H. Qed.

Lemma expand_no_star lens cells :
  Forall (fun kv => has_star (fst kv) = false) cells ->
  flat_map (expand_cell lens) cells = map (fun kv => (fst kv, Raw (snd kv))) cells.
Proof.
  induction 1 as [|kv r Hk Hr IH]; [reflexivity|]. cbn [flat_map map]. unfold expand_cell at 1.
  rewrite Hk, IH. reflexivity.
Qed.

Definition cells_of (cs : cols) : list (str * str) := map (fun ps => (header_of (fst ps), snd ps)) cs.

Lemma parse_cols_fill root cs : forall o,
  paths_nonempty cs -> names_ok cs ->
  parse_cols root (map (fun kv => (fst kv, Raw (snd kv))) (cells_of cs)) o = fill root cs o.
Proof.
  induction cs as [|[p s] r IH]; intros o Hp Hn; [reflexivity|].
  inversion Hp as [|? ? Hp1 Hp2]; subst. inversion Hn as [|? ? Hn1 Hn2]; subst. cbn [fst] in Hp1, Hn1.
  unfold parse_cols, fill, cells_of. cbn [map foldM fst snd]. unfold parse_entry.
  rewrite (header_path_roundtrip p Hp1 Hn1).
  destruct (find_assign p root o (Raw s)) as [o'|e]; [|reflexivity]. apply IH; assumption.
Qed.

Lemma filter_all {X} (p : X -> bool) l : Forall (fun x => p x = true) l -> filter p l = l.
Proof. induction 1 as [|x r Hx Hr IH]; [reflexivity|]. cbn [filter]. rewrite Hx, IH. reflexivity. Qed.

(* C07-1: an instance inside the domain, written with the layout [targets] (no excluded
   headers), is read back as itself *)
Theorem row_roundtrip root v targets cells :
  row_dom root v targets = true ->
  unparse_row root v targets [] = Ok cells ->
  parse_row {| rm_ty := root; rm_ctx := None |} cells = Ok v.
Proof.
  intros Hd Hu. unfold row_dom in Hd. apply andb_true_iff in Hd as [Hm Hd].
  destruct root as [| | | | | |fields h2f f2h]; try discriminate. clear Hm.
  set (tgt := matches_headers targets) in *.
  unfold unparse_row in Hu. apply bind_ok_inv in Hu as (cs & Hcs & Hu).
  rewrite (unparse_rec_ext tgt (matches_headers []) noexc matches_no_headers) in Hcs.
  fold (cells_of cs) in Hu. destruct (nodup_str (map fst (cells_of cs))) eqn:Hnd; [|discriminate].
  injection Hu as <-. apply nodup_str_NoDup in Hnd.
  (* what was written *)
  rewrite unparse_rec_unfold in Hcs. rewrite dom_unfold in Hd. cbn [is_basic_ty orb] in Hcs, Hd.
  replace (tgt []) with false in Hcs, Hd by reflexivity.
  destruct v as [| | | | |fs]; try discriminate. apply rmap_ok_inv in Hcs as (gs & Hgs & ->).
  apply andb_true_iff in Hd as [Hnames Hd]. pose proof (nodup_str_NoDup _ Hnames) as Hnames'.
  destruct (fill_model_fields tgt fields h2f f2h [] Hnames' fields
              (proj2 (Forall_forall _ _) (fun f _ => puts_enc tgt (f_ty f))) fs [] gs
              (fun f H => H) Hnames' (fun f _ => eq_refl) Hd Hgs) as (F1 & F2 & F3).
  apply paths_nonempty_concat in F2. apply names_ok_concat in F3.
  (* parse *)
  unfold parse_row. cbn [rm_ctx rm_ty]. rewrite (rekey_none _ Hnd). cbn [bind].
  rewrite expand_no_star.
  - rewrite (parse_cols_fill _ _ _ F2 F3), F1. cbn [bind app].
    pose proof (dom_fields_valid tgt h2f f2h [] fields fs Hd) as Hv.
    rewrite (filter_all _ _ (enc_fields_not_none fields fs Hv)).
    rewrite <- (enc_model fields h2f f2h). apply validate_model_enc; assumption.
  - unfold cells_of. apply Forall_forall. intros kv Hin. apply in_map_iff in Hin as [ps [<- Hps]]. cbn [fst].
    apply header_no_star. unfold names_ok in F3. rewrite Forall_forall in F3. apply F3, Hps.
Qed.

(* ================================================================== H. inside the domain unparse_row succeeds *)
Lemma NoDup_nodup_str l : NoDup l -> nodup_str l = true.
Proof.
  induction 1 as [|x r Hx Hr IH]; [reflexivity|]. cbn [nodup_str]. rewrite IH, andb_true_r.
  apply negb_true_iff. destruct (existsb (str_eqb x) r) eqn:E; [|reflexivity].
  apply existsb_exists in E as [y [Hy E]]. apply str_eqb_eq in E. subst y. contradiction.
Qed.

Lemma NoDup_app_disjoint {X} (a b : list X) :
  NoDup a -> NoDup b -> (forall x, In x a -> ~ In x b) -> NoDup (a ++ b).
Proof.
  induction 1 as [|x r Hx Hr IH]; intros Hb Hd; [exact Hb|]. cbn [app]. constructor.
  - intros Hin. apply in_app_or in Hin as [Hin|Hin]; [contradiction|]. apply (Hd x); [left; reflexivity|exact Hin].
  - apply IH; [exact Hb|]. intros y Hy. apply Hd. right. exact Hy.
Qed.

Definition head_is (P : str -> Prop) (p : list str) : Prop := match p with [] => False | c :: _ => P c end.

Lemma NoDup_prefix c (cs : cols) : NoDup (map fst cs) -> NoDup (map fst (prefix_cols c cs)).
Proof.
  unfold prefix_cols. rewrite map_map. cbn [fst]. intros H.
  rewrite <- (map_map fst (cons c)). apply FinFun.Injective_map_NoDup; [|exact H].
  intros a b E. injection E as E. exact E.
Qed.

Lemma heads_prefix c (cs : cols) : Forall (fun p => head_is (eq c) p) (map fst (prefix_cols c cs)).
Proof.
  apply Forall_forall. intros p Hin. apply in_map_iff in Hin as [ps [<- Hps]].
  unfold prefix_cols in Hps. apply in_map_iff in Hps as [x [<- _]]. reflexivity.
Qed.

Lemma write_text_ok t v :
  (if is_basic_ty t then basic_ok t v else packed_ok t v) = true -> exists s, write_text t v = Ok s.
Proof.
  unfold write_text. destruct (is_basic_ty t) eqn:Hb; intros H.
  - destruct t; try discriminate; destruct v; try discriminate; eexists; reflexivity.
  - destruct t as [| | | | |t'|fields h2f f2h]; try discriminate; destruct v as [| | | |l|fs]; try discriminate.
    + unfold packed_ok in H. destruct (to_nv TUList (VList l)) as [x|]; [|discriminate].
      apply andb_true_iff in H as [H _]. apply andb_true_iff in H as [Hw _].
      destruct (list_roundtrip_tree x Hw) as [txt [J _]]. exists txt. cbn [bind]. unfold join_cell. rewrite J. reflexivity.
    + destruct l as [|e l']; [exists []; reflexivity|].
      unfold packed_ok in H. destruct (to_nv (TList t') (VList (e :: l'))) as [x|]; [|discriminate].
      apply andb_true_iff in H as [H _]. apply andb_true_iff in H as [Hw _].
      destruct (list_roundtrip_tree x Hw) as [txt [J _]]. exists txt. cbn [bind]. unfold join_cell. rewrite J. reflexivity.
    + unfold packed_ok in H. destruct (to_nv (TModel fields h2f f2h) (VModel fs)) as [x|]; [|discriminate].
      apply andb_true_iff in H as [H _]. apply andb_true_iff in H as [Hw _].
      destruct (list_roundtrip_tree x Hw) as [txt [J _]]. exists txt. cbn [bind]. unfold join_cell. rewrite J. reflexivity.
Qed.

Lemma mapRi_cons {E X T} (g : nat -> X -> result E T) i x r :
  mapRi g i (x :: r) = match g i x with
                       | Err e => Err e
                       | Ok y => match mapRi g (S i) r with Err e => Err e | Ok ys => Ok (y :: ys) end
                       end.
Proof. reflexivity. Qed.

Section Total.
  Variable tgt : list str -> bool.

  Definition total_ok (t : ty) : Prop :=
    forall v comps, dom tgt t v comps = true ->
      exists cs, unparse_rec tgt noexc t v comps = Ok cs /\ NoDup (map fst cs).

  Lemma writes_ok t v comps : writes tgt t v comps = true -> exists cs, unparse_rec tgt noexc t v comps = Ok cs.
  Proof. unfold writes. destruct (unparse_rec tgt noexc t v comps) as [cs|]; [eauto|discriminate]. Qed.

  Lemma total_leaf t v comps :
    is_basic_ty t || tgt comps = true -> dom tgt t v comps = true ->
    exists cs, unparse_rec tgt noexc t v comps = Ok cs /\ NoDup (map fst cs).
  Proof.
    intros Hl Hd. rewrite unparse_rec_unfold, Hl.
    destruct (write_text_ok t v) as [s Hs].
    { rewrite dom_unfold in Hd. destruct (is_basic_ty t); [exact Hd|]. cbn [orb] in Hl. rewrite Hl in Hd. exact Hd. }
    rewrite Hs. eexists. split; [reflexivity|]. repeat constructor. intros [].
  Qed.

  Lemma total_list_elems t' comps : total_ok t' -> forall l i,
    dom_elems tgt t' comps i l = true ->
    exists gs, mapRi (fun i e => let c := print_nat (S i) in
                                 rmap (prefix_cols c) (unparse_rec tgt noexc t' e (comps ++ [c]))) i l = Ok gs
      /\ NoDup (map fst (concat gs))
      /\ Forall (fun p => head_is (fun c => exists j, c = print_nat (S j) /\ (i <= j)%nat) p) (map fst (concat gs)).
  Proof.
    intros IHt. induction l as [|e r IH]; intros i Hd.
    - exists []. repeat split; constructor.
    - cbn [dom_elems] in Hd. cbn zeta in Hd. apply andb_true_iff in Hd as [Hd Hd3]. apply andb_true_iff in Hd as [_ Hd2].
      destruct (IHt e _ Hd2) as (cs & Hcs & Hnd). destruct (IH (S i) Hd3) as (gs & Hgs & Hnd2 & Hh).
      exists (prefix_cols (print_nat (S i)) cs :: gs). rewrite mapRi_cons, Hgs. cbv beta zeta. rewrite Hcs. cbn [rmap].
      split; [reflexivity|]. cbn [concat]. rewrite map_app. split.
      + apply NoDup_app_disjoint; [apply NoDup_prefix, Hnd|exact Hnd2|].
        intros p Hp Hq. pose proof (heads_prefix (print_nat (S i)) cs) as H1.
        rewrite Forall_forall in H1, Hh. specialize (H1 p Hp). specialize (Hh p Hq).
        destruct p as [|c p']; [contradiction|]. cbn [head_is] in H1, Hh. destruct Hh as (j & Hj & Hle).
        rewrite <- H1 in Hj. apply print_nat_inj in Hj. lia.
      + apply Forall_app. split.
        * pose proof (heads_prefix (print_nat (S i)) cs) as H1. rewrite Forall_forall in *.
          intros p Hp. specialize (H1 p Hp). destruct p; [contradiction|]. cbn [head_is] in *. exists i. split; [congruence|lia].
        * rewrite Forall_forall in *. intros p Hp. specialize (Hh p Hp). destruct p; [contradiction|]. cbn [head_is] in *.
          destruct Hh as (j & Hj & Hle). exists j. split; [exact Hj|lia].
  Qed.

  Lemma total_ulist_elems comps : forall l i,
    forallb (fun e => match e with VStr s => trimmedb s | _ => false end) l = true ->
    exists gs, mapRi (fun i e => let c := print_nat (S i) in
                                 rmap (prefix_cols c) (unparse_u tgt noexc e (comps ++ [c]))) i l = Ok gs
      /\ NoDup (map fst (concat gs))
      /\ Forall (fun p => head_is (fun c => exists j, c = print_nat (S j) /\ (i <= j)%nat) p) (map fst (concat gs)).
  Proof.
    induction l as [|e r IH]; intros i Hd.
    - exists []. repeat split; constructor.
    - cbn [forallb] in Hd. apply andb_true_iff in Hd as [He Hd3]. destruct e as [s| | | | |]; try discriminate.
      destruct (IH (S i) Hd3) as (gs & Hgs & Hnd2 & Hh).
      exists ([([print_nat (S i)], s)] :: gs). rewrite mapRi_cons, Hgs. cbv beta zeta. cbn [unparse_u noexc rmap].
      split; [reflexivity|]. cbn [concat app map fst]. split.
      + constructor; [|exact Hnd2]. intros Hq. rewrite Forall_forall in Hh. specialize (Hh _ Hq). cbn [head_is] in Hh.
        destruct Hh as (j & Hj & Hle). apply print_nat_inj in Hj. lia.
      + constructor; [cbn [head_is]; exists i; split; [reflexivity|lia]|].
        rewrite Forall_forall in *. intros p Hp. specialize (Hh p Hp). destruct p; [contradiction|]. cbn [head_is] in *.
        destruct Hh as (j & Hj & Hle). exists j. split; [exact Hj|lia].
  Qed.

  Lemma total_model_fields h2f f2h comps : forall fds,
    Forall (fun f => total_ok (f_ty f)) fds -> forall fs,
    NoDup (map f_name fds) ->
    dom_fields tgt h2f f2h comps fds fs = true ->
    exists gs, unparse_fields tgt f2h comps fds fs = Ok gs
      /\ NoDup (map fst (concat gs))
      /\ Forall (fun p => head_is (fun c => In (remap_get h2f c) (map f_name fds)) p) (map fst (concat gs)).
  Proof.
    induction 1 as [|[n [tf d]] r IHf _ IH]; intros [|[n' v'] fs'] Hnd Hd; cbn [dom_fields] in Hd; try discriminate.
    - exists []. repeat split; constructor.
    - apply andb_true_iff in Hd as [Hd Hd3]. apply andb_true_iff in Hd as [Hn Hd2].
      cbn [map f_name fst] in Hnd. inversion Hnd as [|? ? Hnot Hnd3]; subst.
      destruct (IH fs' Hnd3 Hd3) as (gs & Hgs & Hnd2 & Hh).
      assert (Hh' : Forall (fun p => head_is (fun c => In (remap_get h2f c) (map f_name ((n, (tf, d)) :: r))) p)
                           (map fst (concat gs))).
      { rewrite Forall_forall in *. intros p Hp. specialize (Hh p Hp). destruct p; [contradiction|]. right. exact Hh. }
      cbn [unparse_fields]. rewrite Hn. cbn [negb]. destruct (is_default d v') eqn:Ed.
      + exists gs. repeat split; assumption.
      + cbn zeta in Hd2 |- *. set (h := remap_get f2h n) in *.
        apply andb_true_iff in Hd2 as [Hd2 Hc]. apply andb_true_iff in Hd2 as [_ Hk]. apply str_eqb_eq in Hk.
        assert (Hgrp : exists cs, (if str_eqb n h then rmap (prefix_cols h) (unparse_rec tgt noexc tf v' (comps ++ [h]))
                                   else if noexc (comps ++ [h]) then Ok []
                                   else do s <- write_text tf v'; Ok [([h], s)]) = Ok (prefix_cols h cs)
                                  /\ NoDup (map fst cs)).
        { cbn [f_ty fst snd] in IHf. destruct (str_eqb n h).
          - apply andb_true_iff in Hc as [_ Hdm]. destruct (IHf v' _ Hdm) as (cs & Hcs & Hndc).
            exists cs. rewrite Hcs. split; [reflexivity|exact Hndc].
          - cbn [noexc]. destruct (write_text_ok tf v' Hc) as [s Hs]. rewrite Hs.
            exists [([], s)]. split; [reflexivity|]. repeat constructor. intros []. }
        destruct Hgrp as (cs & -> & Hndc). cbn [bind]. rewrite Hgs. cbn [bind].
        exists (prefix_cols h cs :: gs). split; [reflexivity|]. cbn [concat]. rewrite map_app. split.
        * apply NoDup_app_disjoint; [apply NoDup_prefix, Hndc|exact Hnd2|].
          intros p Hp Hq. pose proof (heads_prefix h cs) as H1.
          rewrite Forall_forall in H1, Hh. specialize (H1 p Hp). specialize (Hh p Hq).
          destruct p as [|c p']; [contradiction|]. cbn [head_is] in H1, Hh. subst c. rewrite Hk in Hh. contradiction.
        * apply Forall_app. split; [|exact Hh'].
          pose proof (heads_prefix h cs) as H1. rewrite Forall_forall in *.
          intros p Hp. specialize (H1 p Hp). destruct p; [contradiction|]. cbn [head_is] in *. left. rewrite <- H1. symmetry. exact Hk.
  Qed.

  Theorem unparse_total : forall t, total_ok t.
  Proof.
    induction t as [| | | | |t' IH|fields h2f f2h IH] using ty_ind'; intros v comps Hd;
      try (apply (total_leaf _ v comps); [reflexivity|exact Hd]);
      (destruct (tgt comps) eqn:Et; [apply (total_leaf _ v comps); [cbn; rewrite Et; reflexivity|exact Hd]|]);
      rewrite unparse_rec_unfold; rewrite dom_unfold in Hd; cbn [is_basic_ty orb] in Hd |- *; rewrite Et in Hd |- *.
    - destruct v as [| | | |l|]; try discriminate.
      destruct (total_ulist_elems comps l O Hd) as (gs & Hgs & Hnd & _). cbv beta zeta in Hgs. rewrite Hgs. eexists. split; [reflexivity|exact Hnd].
    - destruct v as [| | | |l|]; try discriminate.
      destruct (total_list_elems t' comps IH l O Hd) as (gs & Hgs & Hnd & _). cbv beta zeta in Hgs. rewrite Hgs. eexists. split; [reflexivity|exact Hnd].
    - destruct v as [| | | | |fs]; try discriminate. apply andb_true_iff in Hd as [Hnames Hd].
      destruct (total_model_fields h2f f2h comps fields IH fs (nodup_str_NoDup _ Hnames) Hd) as (gs & -> & Hnd & _).
      eexists. split; [reflexivity|exact Hnd].
  Qed.
End Total.

Lemma NoDup_map_inj_on {X Y} (f : X -> Y) l :
  (forall a b, In a l -> In b l -> f a = f b -> a = b) -> NoDup l -> NoDup (map f l).
Proof.
  intros Hinj. induction 1 as [|x r Hx Hr IH]; [constructor|]. cbn [map]. constructor.
  - intros Hin. apply in_map_iff in Hin as [y [Hy Hiny]].
    assert (y = x) by (apply Hinj; [right; exact Hiny|left; reflexivity|exact Hy]). subst y. contradiction.
  - apply IH. intros a b Ha Hb. apply Hinj; right; assumption.
Qed.

Lemma headers_nodup cs :
  paths_nonempty cs -> names_ok cs -> NoDup (map fst cs) -> NoDup (map fst (cells_of cs)).
Proof.
  intros Hp Hn Hnd. unfold cells_of. rewrite map_map. cbn [fst]. rewrite <- (map_map fst header_of).
  apply NoDup_map_inj_on; [|exact Hnd].
  unfold paths_nonempty, names_ok in *. rewrite Forall_forall in Hp, Hn.
  intros a b Ha Hb E. apply in_map_iff in Ha as [pa [<- Hpa]]. apply in_map_iff in Hb as [pb [<- Hpb]].
  apply header_of_inj; [apply Hp, Hpa|apply Hp, Hpb|apply Hn, Hpa|apply Hn, Hpb|exact E].
Qed.

(* C07-1, full form: inside the domain the row is written and read back as the instance *)
Theorem row_roundtrip_total root v targets :
  row_dom root v targets = true ->
  exists cells, unparse_row root v targets [] = Ok cells
                /\ parse_row {| rm_ty := root; rm_ctx := None |} cells = Ok v.
Proof.
  intros Hd.
  assert (Hu : exists cells, unparse_row root v targets [] = Ok cells).
  { unfold row_dom in Hd. apply andb_true_iff in Hd as [Hm Hd].
    destruct root as [| | | | | |fields h2f f2h]; try discriminate. clear Hm.
    set (tgt := matches_headers targets) in *.
    destruct (unparse_total tgt _ v [] Hd) as (cs & Hcs & Hnd).
    unfold unparse_row. rewrite (unparse_rec_ext tgt (matches_headers []) noexc matches_no_headers).
    fold tgt. rewrite Hcs. cbn [bind]. fold (cells_of cs).
    (* the same bookkeeping as in row_roundtrip, for the header check *)
    rewrite unparse_rec_unfold in Hcs. rewrite dom_unfold in Hd. cbn [is_basic_ty orb] in Hcs, Hd.
    replace (tgt []) with false in Hcs, Hd by reflexivity.
    destruct v as [| | | | |fs]; try discriminate. apply rmap_ok_inv in Hcs as (gs & Hgs & ->).
    apply andb_true_iff in Hd as [Hnames Hd]. pose proof (nodup_str_NoDup _ Hnames) as Hnames'.
    destruct (fill_model_fields tgt fields h2f f2h [] Hnames' fields
                (proj2 (Forall_forall _ _) (fun f _ => puts_enc tgt (f_ty f))) fs [] gs
                (fun f H => H) Hnames' (fun f _ => eq_refl) Hd Hgs) as (_ & F2 & F3).
    apply paths_nonempty_concat in F2. apply names_ok_concat in F3.
    rewrite (NoDup_nodup_str _ (headers_nodup _ F2 F3 Hnd)). eexists. reflexivity. }
  destruct Hu as [cells Hu]. exists cells. split; [exact Hu|]. apply (row_roundtrip root v targets cells Hd Hu).
Qed.

(* the bookkeeping of row_roundtrip, exported for the context-remap variant *)
Lemma root_written fields h2f f2h fs targets cells :
  row_dom (TModel fields h2f f2h) (VModel fs) targets = true ->
  unparse_row (TModel fields h2f f2h) (VModel fs) targets [] = Ok cells ->
  exists gs,
    cells = cells_of (concat gs)
    /\ unparse_fields (matches_headers targets) f2h [] fields fs = Ok gs
    /\ dom_fields (matches_headers targets) h2f f2h [] fields fs = true
    /\ nodup_names fields = true
    /\ NoDup (map fst cells)
    /\ fill (TModel fields h2f f2h) (concat gs) (ODict []) = Ok (ODict (enc_fields fields fs))
    /\ paths_nonempty (concat gs) /\ names_ok (concat gs).
Proof.
  intros Hd Hu. unfold row_dom in Hd. apply andb_true_iff in Hd as [_ Hd].
  set (tgt := matches_headers targets) in *.
  unfold unparse_row in Hu. apply bind_ok_inv in Hu as (cs & Hcs & Hu).
  rewrite (unparse_rec_ext tgt (matches_headers []) noexc matches_no_headers) in Hcs.
  fold (cells_of cs) in Hu. destruct (nodup_str (map fst (cells_of cs))) eqn:Hnd; [|discriminate].
  injection Hu as <-. apply nodup_str_NoDup in Hnd.
  rewrite unparse_rec_unfold in Hcs. rewrite dom_unfold in Hd. cbn [is_basic_ty orb] in Hcs, Hd.
  replace (tgt []) with false in Hcs, Hd by reflexivity.
  apply rmap_ok_inv in Hcs as (gs & Hgs & ->).
  apply andb_true_iff in Hd as [Hnames Hd]. pose proof (nodup_str_NoDup _ Hnames) as Hnames'.
  destruct (fill_model_fields tgt fields h2f f2h [] Hnames' fields
              (proj2 (Forall_forall _ _) (fun f _ => puts_enc tgt (f_ty f))) fs [] gs
              (fun f H => H) Hnames' (fun f _ => eq_refl) Hd Hgs) as (F1 & F2 & F3).
  exists gs. repeat split; try assumption; [apply paths_nonempty_concat, F2|apply names_ok_concat, F3].
Qed.
