(* E2 instantiated with the REGENERATED flow row model (Gen/Tables.v: flow_row_model_sexp,
   decoded here by computation), its remap tables and the export layout. Definitions only. *)
From Coq Require Import List NArith Bool.
From RPFT Require Import Base.Sexp Base.PyStr Base.Result Gen.Tables Row.Ty Row.Layout Row.RowParse Row.RowUnparse.
Import ListNotations.
Local Open Scope N_scope.

Definition flow_row_model_opt : option rowmodel := dec_rowmodel flow_row_model_sexp.

(* the decoded model as a closed term (fails to compile if the table does not decode) *)
Definition flow_row_model : rowmodel :=
  ltac:(let x := eval vm_compute in flow_row_model_opt in
        match x with Some ?m => exact m end).

Definition flow_ty : ty := rm_ty flow_row_model.
Definition flow_ctx : option ctxremap := rm_ctx flow_row_model.

Definition flow_fields : list field :=
  match flow_ty with TModel fs _ _ => fs | _ => [] end.
Definition flow_f2h : remap :=
  match flow_ty with TModel _ _ g => g | _ => [] end.

Definition flow_parse (cells : list (str * str)) : res value := parse_row flow_row_model cells.
Definition flow_unparse (v : value) (strip_uuids : bool) : res (list (str * str)) :=
  unparse_row flow_ty v flow_export_targets (if strip_uuids then flow_excluded_strip else flow_excluded_plain).
