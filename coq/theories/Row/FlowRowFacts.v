(* E2 — C07-2: the round trip for the REGENERATED flow row model (Gen/Tables.v) with the
   export layout FlowContainer.to_row_data_sheet passes (edges.*.condition packed), through the
   context remap of its row type; and the finite facts about the remap tables.  No axioms. *)
From Coq Require Import List NArith ZArith Bool.
From RPFT Require Import Base.Sexp Base.PyStr Base.PyStrFacts Base.Result Base.ODict Gen.Tables
  Cell.Cell Row.Ty Row.Layout Row.RowParse Row.RowUnparse Row.FlowRow Row.TextFacts Row.RoundTrip
  Row.RoundTripFacts Row.CtxRoundTripFacts.
Import ListNotations.
Local Open Scope N_scope.

Definition flow_cx : ctxremap :=
  match flow_ctx with Some c => c | None => Build_ctxremap [] [] [] [] false end.

(* the shape of the regenerated model the theorem is about (fails to compile otherwise) *)
Lemma flow_row_model_shape :
  flow_row_model = {| rm_ty := TModel flow_fields [] flow_f2h; rm_ctx := Some flow_cx |}.
Proof. vm_compute. reflexivity. Qed.

Lemma flow_excluded_plain_nil : flow_excluded_plain = [].
Proof. reflexivity. Qed.

Lemma flow_ctx_wf : ctx_wf flow_cx flow_fields flow_f2h = true.
Proof. vm_compute. reflexivity. Qed.

(* the domain: the row type is one of the known ones and the instance is representable +
   admissible for FlowRowModel read with the header table of that row type
   (row_dom, Row/RoundTrip.v) under the export targets *)
Definition flow_dom (v : value) : bool := ctx_row_dom flow_cx flow_fields flow_f2h v flow_export_targets.

Theorem flow_row_roundtrip v :
  flow_dom v = true ->
  exists cells, flow_unparse v false = Ok cells /\ flow_parse cells = Ok v.
Proof.
  intros Hd. unfold flow_unparse, flow_parse. cbn [negb]. rewrite flow_excluded_plain_nil.
  unfold flow_ty. rewrite flow_row_model_shape. cbn [rm_ty].
  apply (ctx_row_roundtrip flow_cx flow_fields flow_f2h flow_ctx_wf v flow_export_targets Hd).
Qed.

(* ---- the remap tables ------------------------------------------------------------------------- *)
(* long -> short -> long at the root: for every known row type, the header a field is written
   under is re-keyed to that field (the shared header message_text: to the main argument of the
   row type) *)
Definition flow_remap_ok : bool :=
  forallb (fun rf : str * str =>
    forallb (fun n =>
      let h := remap_get flow_f2h n in
      if str_eqb h (cx_sw_header flow_cx) && negb (str_eqb (snd rf) n) then true
      else match ctx_h2f (Some flow_cx) [(cx_sw_column flow_cx, fst rf)] h with
           | Ok k => str_eqb k n
           | Err _ => false
           end) (map f_name flow_fields)) (cx_sw_table flow_cx).

Lemma flow_remap_ok_true : flow_remap_ok = true.
Proof. vm_compute. reflexivity. Qed.

Theorem flow_remap_identity rt f n :
  In (rt, f) (cx_sw_table flow_cx) -> In n (map f_name flow_fields) ->
  (remap_get flow_f2h n = cx_sw_header flow_cx -> f = n) ->
  ctx_h2f (Some flow_cx) [(cx_sw_column flow_cx, rt)] (remap_get flow_f2h n) = Ok n.
Proof.
  intros Hrt Hn Hmain. pose proof flow_remap_ok_true as H. unfold flow_remap_ok in H.
  rewrite forallb_forall in H. specialize (H (rt, f) Hrt). rewrite forallb_forall in H. specialize (H n Hn).
  cbn [fst snd] in H. cbv zeta in H.
  destruct (str_eqb (remap_get flow_f2h n) (cx_sw_header flow_cx)) eqn:E.
  - apply str_eqb_eq in E. rewrite (Hmain E), str_eqb_refl in H. cbn [negb andb] in H.
    destruct (ctx_h2f _ _ _) as [k|]; [|discriminate]. apply str_eqb_eq in H. subst. reflexivity.
  - cbn [andb] in H. destruct (ctx_h2f _ _ _) as [k|]; [|discriminate]. apply str_eqb_eq in H. subst. reflexivity.
Qed.

(* every main-argument field is reachable: some row type selects it *)
Definition flow_mainargs_reachable : bool :=
  forallb (fun n => if str_eqb (remap_get flow_f2h n) (cx_sw_header flow_cx)
                    then existsb (fun rf : str * str => str_eqb (snd rf) n) (cx_sw_table flow_cx) else true)
          (map f_name flow_fields).
Lemma flow_mainargs_reachable_true : flow_mainargs_reachable = true.
Proof. vm_compute. reflexivity. Qed.

(* sub-models (Edge, Condition, Webhook, WhatsAppTemplating): header_name_to_field_name inverts
   field_name_to_header_name on every field *)
Fixpoint remaps_inverse (t : ty) : bool :=
  match t with
  | TList t' => remaps_inverse t'
  | TModel fields h2f f2h =>
    forallb (fun f : field => str_eqb (remap_get h2f (remap_get f2h (fst f))) (fst f)
                              && remaps_inverse (fst (snd f))) fields
  | _ => true
  end.
Lemma flow_submodel_remaps_inverse : forallb (fun f => remaps_inverse (f_ty f)) flow_fields = true.
Proof. vm_compute. reflexivity. Qed.

(* ---- a concrete flow row for the non-vacuity Example ------------------------------------------- *)
Definition fset (fs : list (str * value)) (k : str) (v : value) : list (str * value) := oset str_eqb fs k v.

Definition flow_defaults : list (str * value) :=
  map (fun f => (f_name f, match f_default f with Some d => d | None => VStr [] end)) flow_fields.

Definition ex_condition : value :=
  VModel [([118; 97; 108; 117; 101], VStr [97; 124; 98; 59; 99]); ([118; 97; 114; 105; 97; 98; 108; 101], VStr []); ([116; 121; 112; 101], VStr [104; 97; 115; 95; 97; 110; 121; 95; 119; 111; 114; 100]); ([110; 97; 109; 101], VStr [])].
Definition ex_condition_default : value :=
  VModel [([118; 97; 108; 117; 101], VStr []); ([118; 97; 114; 105; 97; 98; 108; 101], VStr []); ([116; 121; 112; 101], VStr []); ([110; 97; 109; 101], VStr [])].
Definition ex_flow_row : value :=
  VModel (fset (fset (fset (fset (fset (fset flow_defaults
    [114; 111; 119; 95; 105; 100] (VStr [50]))
    [116; 121; 112; 101] (VStr [115; 101; 110; 100; 95; 109; 101; 115; 115; 97; 103; 101]))
    [101; 100; 103; 101; 115] (VList [VModel [([102; 114; 111; 109; 95], VStr [49]); ([99; 111; 110; 100; 105; 116; 105; 111; 110], ex_condition)];
                    VModel [([102; 114; 111; 109; 95], VStr [115; 116; 97; 114; 116]); ([99; 111; 110; 100; 105; 116; 105; 111; 110], ex_condition_default)]]))
    [109; 97; 105; 110; 97; 114; 103; 95; 109; 101; 115; 115; 97; 103; 101; 95; 116; 101; 120; 116] (VStr ([104; 105; 59; 32; 116; 104; 101; 114; 101; 32; 92] ++ 10 :: 233 :: [33])))
    [99; 104; 111; 105; 99; 101; 115] (VList [VStr [121; 101; 115; 124; 110; 111]; VStr [109; 97; 121; 98; 101]]))
    [110; 111; 100; 101; 95; 117; 117; 105; 100] (VStr [97; 98; 99; 45; 49])).

Lemma ex_flow_in_domain : flow_dom ex_flow_row = true.
Proof. vm_compute. reflexivity. Qed.

(* what two of its cells look like (independent of the order of the fields in the source):
   the packed condition with its escapes, and the main argument under the shared header *)
Lemma ex_flow_cells :
  match flow_unparse ex_flow_row false with
  | Ok cells => (oget str_eqb cells [101; 100; 103; 101; 115; 46; 49; 46; 99; 111; 110; 100; 105; 116; 105; 111; 110], oget str_eqb cells [109; 101; 115; 115; 97; 103; 101; 95; 116; 101; 120; 116],
                 oget str_eqb cells [95; 110; 111; 100; 101; 73; 100], oget str_eqb cells [101; 100; 103; 101; 115; 46; 50; 46; 99; 111; 110; 100; 105; 116; 105; 111; 110])
  | Err _ => (None, None, None, None)
  end = (Some [118; 97; 108; 117; 101; 59; 97; 92; 124; 98; 92; 59; 99; 124; 116; 121; 112; 101; 59; 104; 97; 115; 95; 97; 110; 121; 95; 119; 111; 114; 100], Some ([104; 105; 59; 32; 116; 104; 101; 114; 101; 32; 92] ++ 10 :: 233 :: [33]), Some [97; 98; 99; 45; 49], None).
Proof. vm_compute. reflexivity. Qed.

(* outside the domain: a main argument of another row type is written under message_text and
   re-keyed to the wrong field *)
Definition ex_flow_wrong_mainarg : value :=
  match ex_flow_row with
  | VModel fs => VModel (fset (fset fs [109; 97; 105; 110; 97; 114; 103; 95; 109; 101; 115; 115; 97; 103; 101; 95; 116; 101; 120; 116] (VStr [])) [109; 97; 105; 110; 97; 114; 103; 95; 118; 97; 108; 117; 101] (VStr [118]))
  | v => v
  end.
Lemma flow_wrong_mainarg_refuted :
  flow_dom ex_flow_wrong_mainarg = false
  /\ match flow_unparse ex_flow_wrong_mainarg false with
     | Ok cells => match flow_parse cells with Ok v' => negb (value_eqb v' ex_flow_wrong_mainarg) | Err _ => true end
     | Err _ => true
     end = true.
Proof. split; vm_compute; reflexivity. Qed.

(* the hypotheses of flow_remap_identity are satisfiable: send_message / mainarg_message_text *)
Lemma existsb_In_str x l : existsb (str_eqb x) l = true -> In x l.
Proof.
  intros H. apply existsb_exists in H as [y [Hy E]]. apply str_eqb_eq in E. subst. exact Hy.
Qed.

Lemma existsb_In_pair a b (l : list (str * str)) :
  existsb (fun rf => str_eqb a (fst rf) && str_eqb b (snd rf)) l = true -> In (a, b) l.
Proof.
  intros H. apply existsb_exists in H as [[y z] [Hy E]]. apply andb_true_iff in E as [E1 E2].
  apply str_eqb_eq in E1. apply str_eqb_eq in E2. cbn [fst snd] in *. subst. exact Hy.
Qed.

Lemma flow_remap_identity_hyps :
  In ([115; 101; 110; 100; 95; 109; 101; 115; 115; 97; 103; 101], [109; 97; 105; 110; 97; 114; 103; 95; 109; 101; 115; 115; 97; 103; 101; 95; 116; 101; 120; 116]) (cx_sw_table flow_cx)
  /\ In [109; 97; 105; 110; 97; 114; 103; 95; 109; 101; 115; 115; 97; 103; 101; 95; 116; 101; 120; 116] (map f_name flow_fields)
  /\ remap_get flow_f2h [109; 97; 105; 110; 97; 114; 103; 95; 109; 101; 115; 115; 97; 103; 101; 95; 116; 101; 120; 116] = cx_sw_header flow_cx.
Proof.
  split; [|split].
  - apply existsb_In_pair. vm_compute. reflexivity.
  - apply existsb_In_str. vm_compute. reflexivity.
  - vm_compute. reflexivity.
Qed.
