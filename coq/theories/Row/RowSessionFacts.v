(* Facts about the RowParser state machine (Row/RowSession.v): a row parses to what the same row parses to
   on a new RowParser, whatever rows the object has parsed before; hence the statements of C09 hold at any
   point of any sheet. *)
From Coq Require Import List NArith Bool.
From RPFT Require Import Base.Sexp Base.PyStr Base.Result Gen.Tables Cell.Cell Cell.CellSession
  Row.Ty Row.Layout Row.RowParse Row.RowSession Row.Encodes Row.EncodesFacts Row.EncodesExamples.
Import ListNotations.

Lemma rp_run_model st rows : rp_rm (fst (rp_run st rows)) = rp_rm st /\ rp_cell (fst (rp_run st rows)) = rp_cell st.
Proof.
  revert st. induction rows as [|cells r IH]; intros st; cbn [rp_run].
  - split; reflexivity.
  - unfold rp_step. specialize (IH (mk_rp (rp_rm st) (rp_cell st) (row_output (rp_rm st) cells))).
    destruct (rp_run (mk_rp (rp_rm st) (rp_cell st) (row_output (rp_rm st) cells)) r) as [st2 xs].
    cbn [fst rp_rm rp_cell] in *. exact IH.
Qed.

(* the results of a run are the results of the pure function, row by row *)
Theorem rp_run_results st rows : snd (rp_run st rows) = map (parse_row (rp_rm st)) rows.
Proof.
  revert st. induction rows as [|cells r IH]; intros st; cbn [rp_run map].
  - reflexivity.
  - unfold rp_step. specialize (IH (mk_rp (rp_rm st) (rp_cell st) (row_output (rp_rm st) cells))).
    destruct (rp_run (mk_rp (rp_rm st) (rp_cell st) (row_output (rp_rm st) cells)) r) as [st2 xs].
    cbn [snd rp_rm] in *. rewrite IH. reflexivity.
Qed.

Lemma nth_error_mid {X} (pre : list X) x post : nth_error (pre ++ x :: post) (length pre) = Some x.
Proof. induction pre as [|a pre IH]; cbn [app length nth_error]; [reflexivity | exact IH]. Qed.

Theorem rp_history_independent st pre cells post :
  nth_error (snd (rp_run st (pre ++ cells :: post))) (length pre) = Some (parse_row (rp_rm st) cells).
Proof.
  rewrite rp_run_results, map_app. cbn [map].
  rewrite <- (map_length (parse_row (rp_rm st)) pre). apply nth_error_mid.
Qed.

(* what the object holds after a sheet depends on its last row only (self.output is reinitialised) *)
Theorem rp_state_after st rows cells :
  fst (rp_run st (rows ++ [cells])) = mk_rp (rp_rm st) (rp_cell st) (row_output (rp_rm st) cells).
Proof.
  revert st. induction rows as [|c r IH]; intros st.
  - reflexivity.
  - cbn [app rp_run]. unfold rp_step at 1.
    specialize (IH (mk_rp (rp_rm st) (rp_cell st) (row_output (rp_rm st) c))).
    destruct (rp_run (mk_rp (rp_rm st) (rp_cell st) (row_output (rp_rm st) c)) (r ++ [cells])) as [st2 xs].
    cbn [fst rp_rm rp_cell] in *. exact IH.
Qed.

(* C09 at any point of a sheet: a row that encodes v parses to v after any rows *)
Theorem encodes_parse_in_history rm pre post v cells :
  Encodes rm v cells ->
  nth_error (snd (rp_run (rp_init rm) (pre ++ cells :: post))) (length pre) = Some (Ok v).
Proof.
  intros H. rewrite rp_history_independent. cbn [rp_init rp_rm]. rewrite (encodes_parse rm v cells H). reflexivity.
Qed.

(* two layouts of one value, in two different sheets, at any positions: equal row models *)
Theorem layout_independent_in_history rm pre1 post1 pre2 post2 v c1 c2 :
  Encodes rm v c1 -> Encodes rm v c2 ->
  nth_error (snd (rp_run (rp_init rm) (pre1 ++ c1 :: post1))) (length pre1)
  = nth_error (snd (rp_run (rp_init rm) (pre2 ++ c2 :: post2))) (length pre2).
Proof. intros H1 H2. rewrite !(encodes_parse_in_history rm _ _ v) by assumption. reflexivity. Qed.

(* non-vacuity: three different layouts of one nested value as the rows of one sheet *)
Example sheet_nonvacuous :
  snd (rp_run (rp_init rmR) [cells_packed; cells_spread; cells_star]) = [Ok vR; Ok vR; Ok vR].
Proof.
  destruct encodes_parse_nonvacuous as (H1 & H2 & H3 & _).
  rewrite rp_run_results. cbn [map rp_init rp_rm].
  rewrite (encodes_parse _ _ _ H1), (encodes_parse _ _ _ H2), (encodes_parse _ _ _ H3). reflexivity.
Qed.
