(* E2 / C04 (finding webhook-body-shadowed), C09 — several headers of one row may denote the same field
   (in a call_webhook row `webhook.body` and the short header `message_text` do).  parse_row re-keys the
   headers into a dict; on the tree with the finding a later BLANK cell overwrites what an earlier header
   of the same field said (`data_rekeyed[k] = v`), on the repaired tree it does not
   (`if k in data_rekeyed and v == "": continue`).  The model (Row/RowParse.v: rekey_put) follows the tree
   through the PROBED constant rekey_blank_keeps (translator/tables_rowfix.py); the full statement
   "a blank cell under a header whose field already has a cell earlier in the row does not change what the
   row parses to" is DECIDED by it below.  Facts and witnesses only. *)
From Coq Require Import List NArith ZArith Bool Lia Arith String Ascii.
From RPFT Require Import Base.Sexp Base.PyStr Base.PyStrFacts Base.Result Base.ODict Gen.Tables Cell.Cell
  Row.Ty Row.RowParse Row.RekeyFacts Row.FlowRow Row.ParseFold Row.Encodes Row.EncodesFacts Row.FlowHeaderFacts
  Row.EncodesExamples.
Import ListNotations.
Local Open Scope N_scope.

(* ---- the model with the probed constant abstracted: parse_row is its instance at the constant -------- *)
Definition rekey_put_with (b : bool) (acc : list (str * str)) (k v : str) : list (str * str) :=
  if b && ocontains str_eqb acc k && is_nil v then acc else oset str_eqb acc k v.

Definition rekey_with (b : bool) (cx : option ctxremap) (cells : list (str * str)) : res (list (str * str)) :=
  foldM (fun acc kv => do k <- ctx_h2f cx cells (fst kv); Ok (rekey_put_with b acc k (snd kv))) cells [].

Definition parse_row_with (b : bool) (rm : rowmodel) (cells : list (str * str)) : res value :=
  do data <- rekey_with b (rm_ctx rm) cells;
  let lens := star_lengths data in
  do o <- parse_cols (rm_ty rm) (flat_map (expand_cell lens) data) (ODict []);
  match o with
  | ODict d => validate (rm_ty rm) (ODict (filter not_none d))
  | _ => Err EShape
  end.

Lemma parse_row_with_probe rm cells : parse_row rm cells = parse_row_with rekey_blank_keeps rm cells.
Proof. reflexivity. Qed.

(* ---- one step ---------------------------------------------------------------------------------------- *)
Lemma ocontains_in {V} (d : list (str * V)) k : ocontains str_eqb d k = true <-> In k (map fst d).
Proof.
  unfold ocontains. induction d as [|[k' v'] r IH]; cbn [oget map fst In].
  - split; [discriminate|intros []].
  - destruct (str_eqb k' k) eqn:E.
    + apply str_eqb_eq in E. split; [intros _; left; exact E|reflexivity].
    + rewrite IH. split; [intros H; right; exact H|].
      intros [H|H]; [subst k'; rewrite str_eqb_refl in E; discriminate|exact H].
Qed.

(* repaired tree: a blank cell of a field that already has a cell is skipped *)
Lemma rekey_put_blank_kept acc k :
  rekey_blank_keeps = true -> ocontains str_eqb acc k = true -> rekey_put acc k [] = acc.
Proof. intros E H. unfold rekey_put. rewrite E, H. reflexivity. Qed.

(* tree with the finding: it is assigned like any other cell *)
Lemma rekey_put_blank_overwrites acc k v : rekey_blank_keeps = false -> rekey_put acc k v = oset str_eqb acc k v.
Proof. intros E. unfold rekey_put. rewrite E. reflexivity. Qed.

(* on either tree a field that has a cell keeps having one *)
Lemma rekey_put_contains acc k' v k :
  ocontains str_eqb acc k = true \/ k' = k -> ocontains str_eqb (rekey_put acc k' v) k = true.
Proof.
  intros H. apply ocontains_in. rewrite rekey_put_keys.
  destruct (ocontains str_eqb acc k') eqn:E.
  - destruct H as [H|H]; [apply ocontains_in, H|subst k'; apply ocontains_in, E].
  - apply in_or_app. destruct H as [H|H]; [left; apply ocontains_in, H|right; left; exact H].
Qed.

(* ---- the fold ---------------------------------------------------------------------------------------- *)
Section Fold.
  Variable F : str -> res str.
  Definition rk_step (acc : list (str * str)) (kv : str * str) : res (list (str * str)) :=
    do k <- F (fst kv); Ok (rekey_put acc k (snd kv)).

  Lemma rk_foldM_app l1 l2 acc :
    foldM rk_step (l1 ++ l2) acc = match foldM rk_step l1 acc with Ok a => foldM rk_step l2 a | Err e => Err e end.
  Proof.
    revert acc. induction l1 as [|x l1 IH]; intros acc; cbn [app foldM]; [reflexivity|].
    destruct (rk_step acc x); [apply IH|reflexivity].
  Qed.

  Lemma rk_fold_contains k : forall l acc acc',
    ocontains str_eqb acc k = true \/ (exists h0 v0, In (h0, v0) l /\ F h0 = Ok k) ->
    foldM rk_step l acc = Ok acc' -> ocontains str_eqb acc' k = true.
  Proof.
    induction l as [|[h v] l IH]; intros acc acc' H Hf; cbn [foldM] in Hf.
    - injection Hf as <-. destruct H as [H|(h0 & v0 & [] & _)]. exact H.
    - unfold rk_step in Hf at 1. cbn [fst snd] in Hf. destruct (F h) as [k'|e] eqn:Eh; cbn [bind] in Hf; [|discriminate].
      apply (IH _ _ ) in Hf; [exact Hf|].
      destruct H as [H|(h0 & v0 & [Hin|Hin] & HF)].
      + left. apply rekey_put_contains. left. exact H.
      + injection Hin as -> ->. rewrite HF in Eh. injection Eh as ->. left. apply rekey_put_contains. right. reflexivity.
      + right. exists h0, v0. split; assumption.
  Qed.

  (* repaired tree: a blank cell whose field has a cell earlier in the row is inert *)
  Lemma rk_fold_blank_inert l1 l2 h k acc :
    rekey_blank_keeps = true ->
    F h = Ok k ->
    (exists h0 v0, In (h0, v0) l1 /\ F h0 = Ok k) ->
    foldM rk_step (l1 ++ (h, []) :: l2) acc = foldM rk_step (l1 ++ l2) acc.
  Proof.
    intros E Hh H0. rewrite !rk_foldM_app. destruct (foldM rk_step l1 acc) as [a|e] eqn:E1; [|reflexivity].
    cbn [foldM]. unfold rk_step at 1. cbn [fst snd]. rewrite Hh. cbn [bind].
    rewrite rekey_put_blank_kept; [reflexivity|exact E|].
    apply (rk_fold_contains k l1 acc a); [right; exact H0|exact E1].
  Qed.
End Fold.

Lemma oget_insert_other {V} (l1 l2 : list (str * V)) h v c :
  h <> c -> oget str_eqb (l1 ++ (h, v) :: l2) c = oget str_eqb (l1 ++ l2) c.
Proof.
  intros Hne. induction l1 as [|[k' v'] r IH]; cbn [app oget].
  - rewrite (str_eqb_neq _ _ Hne). reflexivity.
  - destruct (str_eqb k' c); [reflexivity|exact IH].
Qed.

(* the row-type cell the context remap looks at is the same in the two rows *)
Definition same_type_cell (cx : option ctxremap) (cells cells' : list (str * str)) : Prop :=
  match cx with
  | None => True
  | Some c => oget str_eqb cells (cx_sw_column c) = oget str_eqb cells' (cx_sw_column c)
  end.

Lemma ctx_h2f_same cx cells cells' x : same_type_cell cx cells cells' -> ctx_h2f cx cells x = ctx_h2f cx cells' x.
Proof. destruct cx as [c|]; [apply ctx_h2f_ext|reflexivity]. Qed.

Lemma foldM_ext_in {E S A} (f g : A -> S -> result E A) l :
  (forall a x, f a x = g a x) -> forall a, foldM f l a = foldM g l a.
Proof.
  intros H. induction l as [|x l IH]; intros a; cbn [foldM]; [reflexivity|].
  rewrite H. destruct (g a x); [apply IH|reflexivity].
Qed.

(* ---- rekey, any row model: repaired tree ---------------------------------------------------------- *)
Theorem rekey_blank_alias_inert cx l1 l2 h h0 v0 k :
  rekey_blank_keeps = true ->
  same_type_cell cx (l1 ++ (h, []) :: l2) (l1 ++ l2) ->
  In (h0, v0) l1 ->
  ctx_h2f cx (l1 ++ l2) h0 = Ok k ->
  ctx_h2f cx (l1 ++ l2) h = Ok k ->
  rekey cx (l1 ++ (h, []) :: l2) = rekey cx (l1 ++ l2).
Proof.
  intros E Hty Hin H0 Hh. unfold rekey.
  rewrite (foldM_ext_in _ (rk_step (ctx_h2f cx (l1 ++ l2))) (l1 ++ (h, []) :: l2)).
  2:{ intros a x. unfold rk_step. rewrite (ctx_h2f_same cx _ _ (fst x) Hty). reflexivity. }
  change (foldM (rk_step (ctx_h2f cx (l1 ++ l2))) (l1 ++ (h, []) :: l2) [] = foldM (rk_step (ctx_h2f cx (l1 ++ l2))) (l1 ++ l2) []).
  apply (rk_fold_blank_inert _ l1 l2 h k []); [exact E|exact Hh|].
  exists h0, v0. split; assumption.
Qed.

Theorem parse_blank_alias_inert rm l1 l2 h h0 v0 k :
  rekey_blank_keeps = true ->
  same_type_cell (rm_ctx rm) (l1 ++ (h, []) :: l2) (l1 ++ l2) ->
  In (h0, v0) l1 ->
  ctx_h2f (rm_ctx rm) (l1 ++ l2) h0 = Ok k ->
  ctx_h2f (rm_ctx rm) (l1 ++ l2) h = Ok k ->
  parse_row rm (l1 ++ (h, []) :: l2) = parse_row rm (l1 ++ l2).
Proof.
  intros E Hty Hin H0 Hh. unfold parse_row. rewrite (rekey_blank_alias_inert _ l1 l2 h h0 v0 k E Hty Hin H0 Hh). reflexivity.
Qed.

(* ---- the flow row model: the statement of the finding, decided ------------------------------------- *)
(* "in a row of the flow sheet, a blank cell under a header whose field already has a cell earlier in the
   row does not change what the row parses to" (the header is not the `type` column itself) *)
Definition blank_alias_inert_full : Prop :=
  forall l1 l2 h h0 v0 k,
    h <> cx_sw_column flow_cx ->
    In (h0, v0) l1 ->
    ctx_h2f flow_ctx (l1 ++ l2) h0 = Ok k ->
    ctx_h2f flow_ctx (l1 ++ l2) h = Ok k ->
    flow_parse (l1 ++ (h, []) :: l2) = flow_parse (l1 ++ l2).

Lemma flow_ctx_is_cx : flow_ctx = Some flow_cx.
Proof. vm_compute. reflexivity. Qed.

Lemma blank_alias_inert_holds : rekey_blank_keeps = true -> blank_alias_inert_full.
Proof.
  intros E l1 l2 h h0 v0 k Hne Hin H0 Hh. unfold flow_parse.
  apply (parse_blank_alias_inert flow_row_model l1 l2 h h0 v0 k E); [|exact Hin|exact H0|exact Hh].
  change (rm_ctx flow_row_model) with flow_ctx. rewrite flow_ctx_is_cx. cbn [same_type_cell].
  apply oget_insert_other. exact Hne.
Qed.

(* the row of the finding (findings.d/C04.json, webhook-body-shadowed): what the exporter writes for a
   call_webhook node in a sheet that also has a send_message row *)
Definition w_pre : list (str * str) :=
  [(s!"row_id", s!"2"); (s!"type", s!"call_webhook"); (s!"edges.1.from", s!"1");
   (s!"webhook.url", s!"http://hook/yes"); (s!"webhook.method", s!"PUT"); (s!"webhook.body", s!"body one")].
Definition w_post : list (str * str) := [(s!"save_name", s!"hook alpha")].
Definition w_header : str := s!"message_text".
Definition w_row_exported : list (str * str) := w_pre ++ (w_header, []) :: w_post.
Definition w_row_plain : list (str * str) := w_pre ++ w_post.

(* the body the parsed row carries *)
Definition body_of (r : res value) : option str :=
  match r with
  | Ok (VModel fs) =>
    match oget str_eqb fs s!"webhook" with
    | Some (VModel ws) => match oget str_eqb ws s!"body" with Some (VStr b) => Some b | _ => None end
    | _ => None
    end
  | _ => None
  end.

(* the premises of the full statement hold of the witness, on either tree *)
Lemma w_premises :
  w_header <> cx_sw_column flow_cx
  /\ In (s!"webhook.body", s!"body one") w_pre
  /\ ctx_h2f flow_ctx (w_pre ++ w_post) s!"webhook.body" = Ok s!"webhook.body"
  /\ ctx_h2f flow_ctx (w_pre ++ w_post) w_header = Ok s!"webhook.body".
Proof.
  split; [vm_compute; discriminate|]. split; [vm_compute; tauto|]. split; vm_compute; reflexivity.
Qed.

(* computed with the constant abstracted, hence the same lemmas on either tree *)
Lemma w_plain_body b : body_of (parse_row_with b flow_row_model w_row_plain) = Some s!"body one".
Proof. destruct b; vm_compute; reflexivity. Qed.

Lemma w_exported_body b :
  body_of (parse_row_with b flow_row_model w_row_exported) = Some (if b then s!"body one" else []).
Proof. destruct b; vm_compute; reflexivity. Qed.

Lemma w_exported_parses b : is_ok (parse_row_with b flow_row_model w_row_exported) = true.
Proof. destruct b; vm_compute; reflexivity. Qed.

Theorem blank_alias_inert_decided :
  if rekey_blank_keeps then blank_alias_inert_full else ~ blank_alias_inert_full.
Proof.
  destruct rekey_blank_keeps eqn:E.
  - apply blank_alias_inert_holds. exact E.
  - intros H. destruct w_premises as (P1 & P2 & P3 & P4).
    pose proof (H w_pre w_post w_header _ _ _ P1 P2 P3 P4) as Hs.
    fold w_row_exported w_row_plain in Hs. unfold flow_parse in Hs.
    assert (Hx : parse_row_with false flow_row_model w_row_exported = parse_row_with false flow_row_model w_row_plain).
    { rewrite <- E. exact Hs. }
    pose proof (w_exported_body false) as H1. rewrite Hx, w_plain_body in H1.
    vm_compute in H1. discriminate H1.
Qed.

(* the witness itself: the exported row always parses; its webhook body is the body of the row without
   the blank message_text cell iff the tree keeps the earlier value, and is "" otherwise *)
Theorem webhook_body_witness :
  is_ok (flow_parse w_row_exported) = true
  /\ body_of (flow_parse w_row_plain) = Some s!"body one"
  /\ body_of (flow_parse w_row_exported) = Some (if rekey_blank_keeps then s!"body one" else []).
Proof.
  unfold flow_parse. rewrite !parse_row_with_probe.
  split; [apply w_exported_parses|]. split; [apply w_plain_body|apply w_exported_body].
Qed.

(* the same cell BEFORE the cell that carries the body never mattered (either tree): `message_text` left
   of `webhook.body` *)
Definition w_row_blank_first : list (str * str) :=
  [(s!"row_id", s!"2"); (s!"type", s!"call_webhook"); (s!"edges.1.from", s!"1"); (w_header, []);
   (s!"webhook.url", s!"http://hook/yes"); (s!"webhook.method", s!"PUT"); (s!"webhook.body", s!"body one")] ++ w_post.

Lemma w_blank_first_body b : body_of (parse_row_with b flow_row_model w_row_blank_first) = Some s!"body one".
Proof. destruct b; vm_compute; reflexivity. Qed.

Theorem webhook_body_blank_first : body_of (flow_parse w_row_blank_first) = Some s!"body one".
Proof. unfold flow_parse. rewrite parse_row_with_probe. apply w_blank_first_body. Qed.

(* hence, on the repaired tree, where the blank `message_text` cell of a call_webhook row stands does not
   matter for the body (C09: a value does not depend on the order of the columns) *)
Theorem webhook_body_any_position :
  rekey_blank_keeps = true ->
  body_of (flow_parse w_row_exported) = body_of (flow_parse w_row_blank_first).
Proof.
  intros E. destruct webhook_body_witness as (_ & _ & H). rewrite H, E, webhook_body_blank_first. reflexivity.
Qed.
