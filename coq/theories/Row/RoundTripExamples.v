(* E2 — concrete instances for the non-vacuity Examples of C07 (definitions + facts by computation). *)
From Coq Require Import List NArith ZArith Bool.
From RPFT Require Import Base.Sexp Base.PyStr Base.Result Gen.Tables Cell.Cell Row.Ty Row.Layout
  Row.RowParse Row.RowUnparse Row.TextFacts Row.RoundTrip.
Import ListNotations.
Local Open Scope N_scope.

(* class Sub: x: str = ""; y: int = 0
   class M:   a: str = ""; b: List[str] = []; c: Sub (required); d: List[Sub] = []; e: float = 0.0;
              g: bool = True; u: list = []; r: List[List[str]] = [] written under the header "hdr"
   instance with separators, a backslash, a newline and a non-ASCII letter in its strings;
   layout: b packed, every element of d packed, c spread, u spread, r (renamed) packed *)
Definition ex_sub : ty := TModel [([120], (TStr, Some (VStr []))); ([121], (TInt, Some (VInt 0)))] [] [].
Definition ex_ty : ty :=
  TModel [([97], (TStr, Some (VStr [])));
          ([98], (TList TStr, Some (VList [])));
          ([99], (ex_sub, None));
          ([100], (TList ex_sub, Some (VList [])));
          ([101], (TFloat, Some (VFloat [48; 46; 48])));
          ([103], (TBool, Some (VBool true)));
          ([117], (TUList, Some (VList [])));
          ([114], (TList (TList TStr), Some (VList [])))]
         [([104; 100; 114], [114])] [([114], [104; 100; 114])].
Definition ex_v : value :=
  VModel [([97], VStr [104; 124; 105; 59; 92]);
          ([98], VList [VStr [49]; VStr [59; 32; 50]; VStr (233 :: [97])]);
          ([99], VModel [([120], VStr [113]); ([121], VInt (-5))]);
          ([100], VList [VModel [([120], VStr [113]); ([121], VInt 0)];
                       VModel [([120], VStr []); ([121], VInt 7)]]);
          ([101], VFloat [45; 50; 46; 50; 53]);
          ([103], VBool false);
          ([117], VList [VStr [120; 32; 121]; VStr (97 :: 10 :: [98])]);
          ([114], VList [VList [VStr [107]; VStr [118]]; VList [VStr [122]]])].
Definition ex_targets : list str := [[98]; [100; 46; 42]].

Lemma ex_in_domain : row_dom ex_ty ex_v ex_targets = true.
Proof. vm_compute. reflexivity. Qed.

Definition ex_cells : list (str * str) :=
  [([97], [104; 124; 105; 59; 92]);
   ([98], [49; 124; 92; 59; 32; 50; 124] ++ 233 :: [97]);
   ([99; 46; 120], [113]); ([99; 46; 121], [45; 53]);
   ([100; 46; 49], [120; 59; 113; 124]); ([100; 46; 50], [121; 59; 55; 124]);
   ([101], [45; 50; 46; 50; 53]); ([103], [70; 97; 108; 115; 101]);
   ([117; 46; 49], [120; 32; 121]); ([117; 46; 50], 97 :: 10 :: [98]);
   ([104; 100; 114], [107; 59; 118; 124; 122; 59])].

Lemma ex_unparse : unparse_row ex_ty ex_v ex_targets [] = Ok ex_cells.
Proof. vm_compute. reflexivity. Qed.

Lemma ex_parse : parse_row {| rm_ty := ex_ty; rm_ctx := None |} ex_cells = Ok ex_v.
Proof. vm_compute. reflexivity. Qed.

(* the fully spread layout of the same instance is inside the domain too *)
Lemma ex_in_domain_spread : row_dom ex_ty ex_v [] = true.
Proof. vm_compute. reflexivity. Qed.
