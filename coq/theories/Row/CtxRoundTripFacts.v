(* E2 — the round trip for a row model whose headers are re-keyed with row context
   (header_name_to_field_name_with_context): the context remap of a row of type rt acts as a
   root-level header_name_to_field_name table.  Generic over the context tables; instantiated
   with the regenerated flow row model in Row/FlowRowFacts.v.  No axioms. *)
From Coq Require Import List NArith ZArith Bool Lia ZifyBool Arith FinFun.
From RPFT Require Import Base.Sexp Base.PyStr Base.PyStrFacts Base.Result Base.ODict Gen.Tables
  Cell.Cell Cell.CellFacts Row.Ty Row.Layout Row.RowParse Row.RowUnparse Row.TextFacts Row.RoundTrip
  Row.RekeyFacts Row.RoundTripFacts.
Import ListNotations.
Local Open Scope N_scope.

(* the header -> field table a row of type rt is parsed with *)
Definition root_h2f (cx : ctxremap) (rt : str) : remap :=
  cx_basic cx ++ match oget str_eqb (cx_sw_table cx) rt with
                 | Some f => [(cx_sw_header cx, f)]
                 | None => []
                 end.

Lemma oget_app_some {V} (a b : list (str * V)) k x : oget str_eqb a k = Some x -> oget str_eqb (a ++ b) k = Some x.
Proof.
  induction a as [|[k' v'] r IH]; cbn [oget app]; [discriminate|].
  destruct (str_eqb k' k); [intros H; exact H|exact IH].
Qed.

Lemma oget_app_none {V} (a b : list (str * V)) k : oget str_eqb a k = None -> oget str_eqb (a ++ b) k = oget str_eqb b k.
Proof.
  induction a as [|[k' v'] r IH]; cbn [oget app]; [reflexivity|].
  destruct (str_eqb k' k); [discriminate|exact IH].
Qed.

Lemma oget_in_table {V} (l : list (str * V)) n v : oget str_eqb l n = Some v -> In (n, v) l.
Proof.
  induction l as [|[k x] r IH]; cbn [oget]; [discriminate|].
  destruct (str_eqb k n) eqn:E.
  - intros H. injection H as H. subst x. apply str_eqb_eq in E. subst k. left. reflexivity.
  - intros H. right. apply IH, H.
Qed.

Lemma ctx_h2f_root cx cells rt f k :
  oget str_eqb cells (cx_sw_column cx) = Some rt ->
  sw_key cx rt = rt ->
  oget str_eqb (cx_sw_table cx) rt = Some f ->
  ctx_h2f (Some cx) cells k = Ok (remap_get (root_h2f cx rt) k).
Proof.
  intros Hc Hk Ht. unfold ctx_h2f, remap_get, root_h2f. rewrite Ht.
  destruct (oget str_eqb (cx_basic cx) k) as [g|] eqn:Eb.
  - rewrite (oget_app_some _ _ _ _ Eb). reflexivity.
  - rewrite (oget_app_none _ _ _ Eb). cbn [oget]. rewrite Hc, Hk, Ht.
    destruct (str_eqb k (cx_sw_header cx)) eqn:E.
    + apply str_eqb_eq in E. subst k. rewrite str_eqb_refl. reflexivity.
    + replace (str_eqb (cx_sw_header cx) k) with false; [reflexivity|].
      symmetry. apply str_eqb_neq. intros E2. subst k. rewrite str_eqb_refl in E. discriminate.
Qed.

(* re-keying in general: when the new keys are distinct the cells keep their order *)
Lemma rekey_gen cx all (f : str -> str) (cells : list (str * str)) : forall acc : list (str * str),
  (forall kv, In kv cells -> ctx_h2f cx all (fst kv) = Ok (f (fst kv))) ->
  NoDup (map fst acc ++ map f (map fst cells)) ->
  foldM (fun acc kv => do k <- ctx_h2f cx all (fst kv); Ok (rekey_put acc k (snd kv))) cells acc
  = Ok (acc ++ map (fun kv => (f (fst kv), snd kv)) cells).
Proof.
  induction cells as [|[k v] r IH]; intros acc Hf Hnd.
  - cbn [map]. rewrite app_nil_r. reflexivity.
  - pose proof (Hf (k, v) (or_introl eq_refl)) as Hk. cbn [fst] in Hk.
    cbn [foldM fst snd]. rewrite Hk. cbn [bind fst].
    cbn [map fst] in Hnd. rewrite rekey_put_new.
    + rewrite IH.
      * cbn [map fst snd]. rewrite <- app_assoc. reflexivity.
      * intros kv Hin. apply Hf. right. exact Hin.
      * rewrite map_app. cbn [map fst]. rewrite <- app_assoc. exact Hnd.
    + apply NoDup_remove_2 in Hnd. intros Hin. apply Hnd. apply in_or_app. left. exact Hin.
Qed.

(* the root table only matters through remap_get on the first path component *)
Lemma find_assign_root_transfer fields h2f0 h2f1 f2h h0 h1 rest o c :
  remap_get h2f0 h0 = remap_get h2f1 h1 ->
  find_assign (h0 :: rest) (TModel fields h2f0 f2h) o c = find_assign (h1 :: rest) (TModel fields h2f1 f2h) o c.
Proof. intros H. destruct o; try reflexivity. cbn [find_assign]. rewrite H. reflexivity. Qed.

Lemma validate_root_h2f fields h2f0 h2f1 f2h o :
  validate (TModel fields h2f0 f2h) o = validate (TModel fields h2f1 f2h) o.
Proof. destruct o; reflexivity. Qed.

Lemma unparse_root_h2f tgt exc fields h2f0 h2f1 f2h v comps :
  unparse_rec tgt exc (TModel fields h2f0 f2h) v comps = unparse_rec tgt exc (TModel fields h2f1 f2h) v comps.
Proof. reflexivity. Qed.

(* ---- what the columns of a root model look like --------------------------------------------- *)
Definition col_head_ok (names : list str) (h2f f2h : remap) (p : list str) : Prop :=
  match p with
  | [] => False
  | h :: rest => In (remap_get h2f h) names /\ remap_get f2h (remap_get h2f h) = h
                 /\ (rest <> [] -> remap_get h2f h = h)
  end.

Lemma prefix_cols_head_inv h cs ps : In ps (prefix_cols h cs) -> exists rest s, ps = (h :: rest, s) /\ In (rest, s) cs.
Proof.
  unfold prefix_cols. intros H. apply in_map_iff in H as [[p s] [<- Hin]]. exists p, s. split; [reflexivity|exact Hin].
Qed.

Section Heads.
  Variable tgt : list str -> bool.

  Lemma root_col_heads h2f f2h comps : forall fds fs gs,
    dom_fields tgt h2f f2h comps fds fs = true ->
    unparse_fields tgt f2h comps fds fs = Ok gs ->
    Forall (fun ps => col_head_ok (map f_name fds) h2f f2h (fst ps)) (concat gs).
  Proof.
    induction fds as [|[n [tf d]] r IH]; intros [|[n' v'] fs'] gs Hd Hu; cbn [dom_fields unparse_fields] in *; try discriminate.
    - injection Hu as <-. constructor.
    - apply andb_true_iff in Hd as [Hd Hd3]. apply andb_true_iff in Hd as [Hn Hd2].
      rewrite Hn in Hu. cbn [negb] in Hu.
      assert (Hmono : forall gs0 : cols, Forall (fun ps => col_head_ok (map f_name r) h2f f2h (fst ps)) gs0 ->
                                  Forall (fun ps => col_head_ok (map f_name ((n, (tf, d)) :: r)) h2f f2h (fst ps)) gs0).
      { intros gs0 H. rewrite Forall_forall in *. intros ps Hps. specialize (H ps Hps).
        destruct (fst ps) as [|h rest]; [contradiction|]. destruct H as (H1 & H2 & H3).
        repeat split; [right; exact H1|exact H2|exact H3]. }
      destruct (is_default d v'); [apply Hmono, (IH fs' gs Hd3 Hu)|].
      cbn zeta in Hd2, Hu. set (h := remap_get f2h n) in *.
      apply andb_true_iff in Hd2 as [Hd2 Hc]. apply andb_true_iff in Hd2 as [_ Hk]. apply str_eqb_eq in Hk.
      apply bind_ok_inv in Hu as (here & Hhere & Hu). apply bind_ok_inv in Hu as (rr & Hr & Hu). injection Hu as <-.
      cbn [concat]. apply Forall_app. split; [|apply Hmono, (IH fs' rr Hd3 Hr)].
      assert (Hgrp : exists cs, here = prefix_cols h cs /\ (str_eqb n h = false -> cs = [([], snd (hd ([], []) cs))])).
      { destruct (str_eqb n h) eqn:Enh.
        - apply rmap_ok_inv in Hhere as (cs & _ & ->). exists cs. split; [reflexivity|discriminate].
        - cbn [noexc] in Hhere. apply bind_ok_inv in Hhere as (s & _ & Hhere). injection Hhere as <-.
          exists [([], s)]. split; reflexivity. }
      destruct Hgrp as (cs & -> & Hsingle). apply Forall_forall. intros ps Hps.
      apply prefix_cols_head_inv in Hps as (rest & s & -> & Hin). cbn [fst col_head_ok]. rewrite Hk.
      split; [left; reflexivity|split; [reflexivity|]].
      intros Hrest. destruct (str_eqb n h) eqn:Enh; [apply str_eqb_eq in Enh; exact Enh|].
      rewrite (Hsingle eq_refl) in Hin. destruct Hin as [Hin|[]]. injection Hin as <- _. congruence.
  Qed.

  (* a required basic field whose header is its name is written as the cell (name, text) *)
  Lemma root_writes_required h2f f2h comps n rt : forall fds fs gs,
    dom_fields tgt h2f f2h comps fds fs = true ->
    unparse_fields tgt f2h comps fds fs = Ok gs ->
    field_lookup (fun tf d => (tf, d)) fds n = Some (TStr, None) ->
    oget str_eqb fs n = Some (VStr rt) ->
    remap_get f2h n = n ->
    In ([n], rt) (concat gs).
  Proof.
    intros fds. induction fds as [|[n0 [tf d]] r IH]; intros [|[n' v'] fs'] gs Hd Hu Hl Hg Hh;
      cbn [dom_fields unparse_fields field_lookup] in *; try discriminate.
    apply andb_true_iff in Hd as [Hd Hd3]. apply andb_true_iff in Hd as [Hn Hd2].
    rewrite Hn in Hu. cbn [negb] in Hu. apply str_eqb_eq in Hn. subst n'. cbn [oget] in Hg.
    destruct (str_eqb n0 n) eqn:E.
    - apply str_eqb_eq in E. subst n0. injection Hl as -> ->. injection Hg as ->.
      cbn [is_default] in Hu. cbn zeta in Hu. rewrite Hh, str_eqb_refl in Hu.
      apply bind_ok_inv in Hu as (here & Hhere & Hu). apply bind_ok_inv in Hu as (rr & _ & Hu). injection Hu as <-.
      rewrite unparse_rec_unfold in Hhere. cbn [is_basic_ty orb write_text basic_text bind rmap prefix_cols map fst snd] in Hhere.
      injection Hhere as <-. cbn [concat]. apply in_or_app. left. left. reflexivity.
    - destruct (is_default d v'); [apply (IH fs' gs Hd3 Hu Hl Hg Hh)|].
      apply bind_ok_inv in Hu as (here & _ & Hu). apply bind_ok_inv in Hu as (rr & Hr & Hu). injection Hu as <-.
      cbn [concat]. apply in_or_app. right. apply (IH fs' rr Hd3 Hr Hl Hg Hh).
  Qed.
End Heads.

(* ---- small facts ------------------------------------------------------------------------------- *)
Lemma oget_in_nodup {V} (l : list (str * V)) k v : NoDup (map fst l) -> In (k, v) l -> oget str_eqb l k = Some v.
Proof.
  induction l as [|[k' v'] r IH]; [intros _ []|]. cbn [map fst oget]. intros Hnd Hin.
  inversion Hnd as [|? ? Hnot Hnd']; subst. destruct Hin as [Heq|Hin].
  - injection Heq as -> ->. rewrite str_eqb_refl. reflexivity.
  - destruct (str_eqb k' k) eqn:E; [|apply IH; assumption].
    apply str_eqb_eq in E. subst k'. exfalso. apply Hnot. apply in_map_iff. exists (k, v). split; [reflexivity|exact Hin].
Qed.

Lemma oget_none_keys {V} (l : list (str * V)) k (p : str -> bool) :
  forallb (fun kv => p (fst kv)) l = true -> p k = false -> oget str_eqb l k = None.
Proof.
  induction l as [|[k' v'] r IH]; [reflexivity|]. cbn [forallb fst oget]. intros H Hk.
  apply andb_true_iff in H as [H1 H2]. destruct (str_eqb k' k) eqn:E; [|apply IH; assumption].
  apply str_eqb_eq in E. subst k'. congruence.
Qed.

Lemma mem_dot_join h r rest : mem_char c_dot (header_of (h :: r :: rest)) = true.
Proof.
  unfold header_of. change (join_char c_dot (h :: r :: rest)) with (h ++ c_dot :: join_char c_dot (r :: rest)).
  rewrite mem_char_app. cbn [mem_char]. rewrite N.eqb_refl. cbn [orb]. apply orb_true_r.
Qed.

(* ---- the theorem ---------------------------------------------------------------------------------- *)
Section Ctx.
  Variable cx : ctxremap.
  Variable fields : list field.
  Variable f2h : remap.

  Definition ctx_wf : bool :=
    forallb name_ok (map f_name fields)
    && forallb (fun kv => negb (mem_char c_dot (fst kv))) (cx_basic cx)
    && negb (mem_char c_dot (cx_sw_header cx))
    && match field_lookup (fun tf d => (tf, d)) fields (cx_sw_column cx) with
       | Some (TStr, None) => true | _ => false end
    && str_eqb (remap_get f2h (cx_sw_column cx)) (cx_sw_column cx)
    (* the row types of the table carry no surrounding whitespace: a tree that strips the row-type
       cell before the lookup and one that does not re-key a written row alike *)
    && forallb (fun kv => str_eqb (strip (fst kv)) (fst kv)) (cx_sw_table cx).

  (* the domain: the row type is known, and the instance is in the domain of the context-free
     statement for the model whose root header table is the context remap of that row type *)
  Definition ctx_row_dom (v : value) (targets : list str) : bool :=
    match v with
    | VModel fs =>
      match oget str_eqb fs (cx_sw_column cx) with
      | Some (VStr rt) =>
        match oget str_eqb (cx_sw_table cx) rt with
        | Some _ => row_dom (TModel fields (root_h2f cx rt) f2h) v targets
        | None => false
        end
      | _ => false
      end
    | _ => false
    end.

  Hypothesis Hwf : ctx_wf = true.

  Lemma root_h2f_dotfree rt k : mem_char c_dot k = true -> remap_get (root_h2f cx rt) k = k.
  Proof.
    intros Hk. pose proof Hwf as W. unfold ctx_wf in W. repeat (apply andb_true_iff in W; destruct W as [W ?]).
    unfold remap_get. replace (oget str_eqb (root_h2f cx rt) k) with (@None str); [reflexivity|]. symmetry.
    apply (oget_none_keys _ k (fun x => negb (mem_char c_dot x))); [|rewrite Hk; reflexivity].
    unfold root_h2f. rewrite forallb_app. apply andb_true_iff. split; [assumption|].
    destruct (oget str_eqb (cx_sw_table cx) rt); [|reflexivity]. cbn [forallb fst]. rewrite andb_true_r. assumption.
  Qed.

  Definition rekey_path (rt : str) (p : list str) : list str :=
    match p with [] => [] | h :: rest => remap_get (root_h2f cx rt) h :: rest end.

  Lemma rekeyed_header rt p :
    col_head_ok (map f_name fields) (root_h2f cx rt) f2h p ->
    remap_get (root_h2f cx rt) (header_of p) = header_of (rekey_path rt p).
  Proof.
    destruct p as [|h [|r rest]]; [intros []| |]; intros (H1 & H2 & H3); cbn [rekey_path].
    - reflexivity.
    - rewrite (H3 ltac:(discriminate)). apply root_h2f_dotfree, mem_dot_join.
  Qed.

  Theorem ctx_row_roundtrip v targets :
    ctx_row_dom v targets = true ->
    exists cells, unparse_row (TModel fields [] f2h) v targets [] = Ok cells
                  /\ parse_row {| rm_ty := TModel fields [] f2h; rm_ctx := Some cx |} cells = Ok v.
  Proof.
    intros Hd. unfold ctx_row_dom in Hd. destruct v as [| | | | |fs]; try discriminate.
    destruct (oget str_eqb fs (cx_sw_column cx)) as [[rt| | | | |]|] eqn:Etype; try discriminate.
    destruct (oget str_eqb (cx_sw_table cx) rt) as [fmain|] eqn:Etab; [|discriminate].
    set (h2f' := root_h2f cx rt) in *.
    destruct (row_roundtrip_total _ _ _ Hd) as (cells & Hu & _).
    exists cells. split; [exact Hu|].
    destruct (root_written fields h2f' f2h fs targets cells Hd Hu) as (gs & -> & Hgs & Hdf & Hnames & Hnd & F1 & F2 & F3).
    set (tgt := matches_headers targets) in *. set (cs := concat gs) in *.
    pose proof (root_col_heads tgt h2f' f2h [] fields fs gs Hdf Hgs) as Hheads. fold cs in Hheads.
    pose proof Hwf as Hwf'. unfold ctx_wf in Hwf'. repeat (apply andb_true_iff in Hwf'; destruct Hwf' as [Hwf' ?]).
    match goal with X : forallb (fun kv => str_eqb (strip (fst kv)) (fst kv)) (cx_sw_table cx) = true |- _ => rename X into Wkeys end.
    rename Hwf' into Wnames.
    assert (Hkey : sw_key cx rt = rt).
    { unfold sw_key. destruct (cx_sw_strip cx); [|reflexivity]. rewrite forallb_forall in Wkeys.
      specialize (Wkeys (rt, fmain) (oget_in_table _ _ _ Etab)). cbn [fst] in Wkeys. apply str_eqb_eq in Wkeys. exact Wkeys. }
    match goal with X : str_eqb (remap_get f2h (cx_sw_column cx)) (cx_sw_column cx) = true |- _ => apply str_eqb_eq in X; rename X into Wcol end.
    match goal with X : match field_lookup _ fields (cx_sw_column cx) with _ => _ end = true |- _ => rename X into Wreq end.
    (* the row-type cell *)
    assert (Htype : oget str_eqb (cells_of cs) (cx_sw_column cx) = Some rt).
    { apply (oget_in_nodup _ _ _ Hnd).
      destruct (field_lookup (fun tf d => (tf, d)) fields (cx_sw_column cx)) as [[[| | | | | |] [|]]|] eqn:El; try discriminate.
      pose proof (root_writes_required tgt h2f' f2h [] (cx_sw_column cx) rt fields fs gs Hdf Hgs El Etype Wcol) as Hin.
      unfold cells_of. apply in_map_iff. exists ([cx_sw_column cx], rt). split; [reflexivity|exact Hin]. }
    (* names of the rekeyed paths *)
    assert (Hpok : forall ps, In ps cs -> rekey_path rt (fst ps) <> [] /\ Forall (fun c => name_ok c = true) (rekey_path rt (fst ps))).
    { intros ps Hps. unfold names_ok in F3. rewrite Forall_forall in F3, Hheads. specialize (F3 ps Hps). specialize (Hheads ps Hps).
      destruct (fst ps) as [|h rest]; [contradiction|]. destruct Hheads as (Q1 & _). cbn [rekey_path]. split; [discriminate|].
      inversion F3 as [|? ? _ Frest]; subst. constructor; [|exact Frest].
      rewrite forallb_forall in Wnames. apply Wnames, Q1. }
    (* re-keying *)
    assert (Hrekey : rekey (Some cx) (cells_of cs)
                     = Ok (map (fun ps => (header_of (rekey_path rt (fst ps)), snd ps)) cs)).
    { unfold rekey. rewrite (rekey_gen (Some cx) (cells_of cs) (remap_get h2f') (cells_of cs) []).
      - cbn [app]. unfold cells_of. rewrite map_map. cbn [fst snd]. f_equal. apply map_ext_in. intros ps Hps.
        unfold h2f'. rewrite rekeyed_header; [reflexivity|]. rewrite Forall_forall in Hheads. apply Hheads, Hps.
      - intros kv _. apply (ctx_h2f_root cx (cells_of cs) rt fmain (fst kv) Htype Hkey Etab).
      - cbn [map app]. unfold cells_of. rewrite !map_map. cbn [fst].
        rewrite (map_ext_in _ (fun ps => header_of (rekey_path rt (fst ps)))).
        2:{ intros ps Hps. unfold h2f'. apply rekeyed_header. rewrite Forall_forall in Hheads. apply Hheads, Hps. }
        rewrite <- (map_map (fun ps => rekey_path rt (fst ps)) header_of).
        apply NoDup_map_inj_on.
        + intros a b Ha Hb E. apply in_map_iff in Ha as [pa [<- Hpa]]. apply in_map_iff in Hb as [pb [<- Hpb]].
          destruct (Hpok pa Hpa) as [A1 A2]. destruct (Hpok pb Hpb) as [B1 B2]. apply header_of_inj; assumption.
        + rewrite <- (map_map fst (rekey_path rt)). apply NoDup_map_inj_on.
          * intros a b Ha Hb E. apply in_map_iff in Ha as [pa [<- Hpa]]. apply in_map_iff in Hb as [pb [<- Hpb]].
            rewrite Forall_forall in Hheads. pose proof (Hheads pa Hpa) as Ca. pose proof (Hheads pb Hpb) as Cb.
            destruct (fst pa) as [|ha ra]; [contradiction|]. destruct (fst pb) as [|hb rb]; [contradiction|].
            cbn [rekey_path] in E. injection E as E1 E2. destruct Ca as (_ & Ca & _). destruct Cb as (_ & Cb & _).
            f_equal; [|exact E2]. rewrite <- Ca, <- Cb. f_equal. exact E1.
          * unfold cells_of in Hnd. rewrite map_map in Hnd. cbn [fst] in Hnd.
            rewrite <- (map_map fst header_of) in Hnd. apply NoDup_map_inv in Hnd. exact Hnd. }
    (* parse *)
    unfold parse_row. cbn [rm_ctx rm_ty]. rewrite Hrekey. cbn [bind].
    rewrite expand_no_star.
    2:{ apply Forall_forall. intros kv Hin. apply in_map_iff in Hin as [ps [<- Hps]]. cbn [fst].
        apply header_no_star. apply (Hpok ps Hps). }
    assert (Hcols : forall l : cols,
               Forall (fun ps => col_head_ok (map f_name fields) h2f' f2h (fst ps)) l ->
               (forall ps, In ps l -> rekey_path rt (fst ps) <> [] /\ Forall (fun c => name_ok c = true) (rekey_path rt (fst ps))) ->
               forall o, parse_cols (TModel fields [] f2h)
                        (map (fun kv => (fst kv, Raw (snd kv)))
                             (map (fun ps => (header_of (rekey_path rt (fst ps)), snd ps)) l)) o
                      = fill (TModel fields h2f' f2h) l o).
    { induction l as [|[p s] r IH]; intros Hh Hp o; [reflexivity|].
      inversion Hh as [|? ? Hh1 Hh2]; subst. cbn [fst] in Hh1.
      destruct (Hp (p, s) (or_introl eq_refl)) as [A1 A2]. cbn [fst] in A1, A2.
      unfold parse_cols, fill. cbn [map foldM fst snd]. unfold parse_entry.
      rewrite (header_path_roundtrip _ A1 A2).
      destruct p as [|h rest]; [contradiction|]. cbn [rekey_path]. fold h2f'.
      rewrite (find_assign_root_transfer fields [] h2f' f2h (remap_get h2f' h) h rest o (Raw s) eq_refl).
      destruct (find_assign (h :: rest) (TModel fields h2f' f2h) o (Raw s)) as [o'|e]; [|reflexivity].
      apply IH; [exact Hh2|]. intros ps Hps. apply Hp. right. exact Hps. }
    rewrite (Hcols cs Hheads Hpok).
    rewrite F1. cbn [bind].
    pose proof (dom_fields_valid tgt h2f' f2h [] fields fs Hdf) as Hv.
    rewrite (filter_all _ _ (enc_fields_not_none fields fs Hv)).
    rewrite (validate_root_h2f fields [] h2f' f2h).
    rewrite <- (enc_model fields h2f' f2h). apply validate_model_enc; assumption.
  Qed.
End Ctx.
