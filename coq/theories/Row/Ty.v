(* E2 — the universe of row models (rpft/parsers/common/rowparser.py: ParserModel and the
   type language its fields are written in), values, the parser's output tree, decimal
   text of integers, and the S-expression codecs.  Definitions only. *)
From Coq Require Import List NArith ZArith Bool Decimal.
From RPFT Require Import Base.Sexp Base.PyStr Base.Result Base.ODict Cell.Cell.
Import ListNotations.
Local Open Scope N_scope.

(* ---- values: what a pydantic instance of a model of the universe holds ---- *)
Inductive value :=
| VStr (s : str)
| VInt (z : Z)
| VFloat (txt : str)                  (* a float, carried as its repr() text *)
| VBool (b : bool)
| VList (l : list value)
| VModel (fs : list (str * value)).   (* every field, in declaration order *)

Definition remap := list (str * str).

(* ---- types: str | int | float | bool | list | List[t] | a ParserModel subclass ----
   A model = its fields in declaration order (name, outer type, default; None = required)
   + the tables of header_name_to_field_name / field_name_to_header_name. *)
Inductive ty :=
| TStr | TInt | TFloat | TBool
| TUList                               (* bare `list` *)
| TList (t : ty)
| TModel (fields : list (str * (ty * option value))) (h2f f2h : remap).

Definition field := (str * (ty * option value))%type.
Definition f_name (f : field) : str := fst f.
Definition f_ty (f : field) : ty := fst (snd f).
Definition f_default (f : field) : option value := snd (snd f).

(* context-dependent re-keying of a whole row (header_name_to_field_name_with_context):
   a table of fixed renames, and one header whose meaning is looked up from the value of
   another column of the same row *)
Record ctxremap := {
  cx_basic : remap;
  cx_sw_header : str;      (* "message_text" *)
  cx_sw_column : str;      (* "type" *)
  cx_sw_table : remap;     (* row type -> field *)
  cx_sw_strip : bool       (* is the row-type cell stripped (str.strip) before the lookup?  PROBED by the
                              translator: false on a tree that looks the RAW cell up (finding
                              short-header-with-padded-type-cell), true on the repaired tree *)
}.

Record rowmodel := { rm_ty : ty; rm_ctx : option ctxremap }.

(* ---- the parser's output tree (dicts / lists / basic values / None placeholders) ---- *)
Inductive out :=
| ONone
| OStr (s : str) | OInt (z : Z) | OFloat (txt : str) | OBool (b : bool)
| OList (l : list out)
| ODict (d : list (str * out)).

Inductive err :=
| EAssert        (* AssertionError *)
| EIndex         (* IndexError *)
| EValue         (* ValueError / TypeError of int(), float(), int(field_name) *)
| ENoField       (* ValueError: Field ... doesn't exist *)
| EKey           (* KeyError in the context remap *)
| EValidation    (* pydantic ValidationError *)
| EDupKey        (* RowParserError: multiple entries with the same key *)
| EJoin          (* CellParserError / IndexError of join_from_lists *)
| EShape         (* instance does not have the shape of its model (not reachable from pydantic instances) *)
| EUnsupported.  (* behaviour outside the modelled fragment: str(list), exotic float text *)

Definition err_code (e : err) : N :=
  match e with
  | EAssert => 1 | EIndex => 2 | EValue => 3 | ENoField => 4 | EKey => 5 | EValidation => 6
  | EDupKey => 7 | EJoin => 8 | EShape => 9 | EUnsupported => 10
  end.

Definition res := result err.

(* ---- characters ---- *)
Definition c_dot : char := 46.
Definition c_star : char := 42.
Definition c_colon : char := 58.
Definition c_eq : char := 61.
Definition c_minus : char := 45.
Definition c_plus : char := 43.

(* ---- decimal text (str(int), int(str)) through the standard library's Decimal ---- *)
Fixpoint uint_to_str (u : uint) : str :=
  match u with
  | Nil => []
  | D0 r => 48 :: uint_to_str r | D1 r => 49 :: uint_to_str r | D2 r => 50 :: uint_to_str r
  | D3 r => 51 :: uint_to_str r | D4 r => 52 :: uint_to_str r | D5 r => 53 :: uint_to_str r
  | D6 r => 54 :: uint_to_str r | D7 r => 55 :: uint_to_str r | D8 r => 56 :: uint_to_str r
  | D9 r => 57 :: uint_to_str r
  end.

Definition digit_val (c : char) : option nat :=
  if (48 <=? c) && (c <=? 57) then Some (N.to_nat (c - 48)) else None.

Fixpoint str_to_uint (s : str) : option uint :=
  match s with
  | [] => Some Nil
  | c :: r =>
    match str_to_uint r with
    | None => None
    | Some u =>
      match digit_val c with
      | Some 0%nat => Some (D0 u) | Some 1%nat => Some (D1 u) | Some 2%nat => Some (D2 u)
      | Some 3%nat => Some (D3 u) | Some 4%nat => Some (D4 u) | Some 5%nat => Some (D5 u)
      | Some 6%nat => Some (D6 u) | Some 7%nat => Some (D7 u) | Some 8%nat => Some (D8 u)
      | Some 9%nat => Some (D9 u) | _ => None
      end
    end
  end.

Definition print_nat (n : nat) : str := uint_to_str (Nat.to_uint n).

Definition print_Z (z : Z) : str :=
  match Z.to_int z with
  | Pos u => uint_to_str u
  | Neg u => c_minus :: uint_to_str u
  end.

(* int(s) for a str: surrounding whitespace, an optional sign, ASCII digits.  (Python also
   accepts underscores and non-ASCII digits: outside the modelled fragment.) *)
Definition parse_int (s : str) : option Z :=
  match strip s with
  | [] => None
  | c :: r =>
    if c =? c_minus then
      match r with [] => None | _ => match str_to_uint r with Some u => Some (Z.of_int (Neg u)) | None => None end end
    else if c =? c_plus then
      match r with [] => None | _ => match str_to_uint r with Some u => Some (Z.of_int (Pos u)) | None => None end end
    else match str_to_uint (c :: r) with Some u => Some (Z.of_int (Pos u)) | None => None end
  end.

(* float(s): the modelled fragment is the plain decimals  [-]D.F  that are their own repr()
   (no superfluous zeros, at most 6 + 6 digits).  Everything else is EUnsupported in the
   model; the generators stay inside, the correspondence skips what the model declines. *)
Definition all_digits (s : str) : bool := forallb (fun c => (48 <=? c) && (c <=? 57)) s.
Definition float_canon (s : str) : bool :=
  let body := match s with c :: r => if c =? c_minus then r else s | [] => s end in
  match split_char c_dot body with
  | [d; f] =>
    all_digits d && all_digits f
    && negb (Nat.eqb (length d) 0) && negb (Nat.eqb (length f) 0)
    && (Nat.leb (length d) 6) && (Nat.leb (length f) 6)
    && (match d with [48] => true | 48 :: _ => false | _ => true end)
    && (match List.rev f with [48] => true | 48 :: _ => false | _ => true end)
  | _ => false
  end.

Definition parse_float (s : str) : option str :=
  let t := strip s in if float_canon t then Some t else None.

(* ---- small helpers shared by parse and unparse ---- *)
Definition remap_get (m : remap) (k : str) : str :=
  match oget str_eqb m k with Some v => v | None => k end.

Section FieldIter.
  Context {A : Type}.
  Variable f : ty -> option value -> A.
  Fixpoint field_lookup (fields : list field) (k : str) : option A :=
    match fields with
    | [] => None
    | (n, (t, d)) :: r => if str_eqb n k then Some (f t d) else field_lookup r k
    end.
  Variable g : str -> ty -> A.
  Fixpoint field_nth (fields : list field) (i : nat) : option A :=
    match fields with
    | [] => None
    | (n, (t, _)) :: r => match i with O => Some (g n t) | S j => field_nth r j end
    end.
End FieldIter.

(* mapM with the function outside the fixpoint (so that nested recursion through it passes
   the guard checker), and its indexed variant (enumerate) *)
Section MapR.
  Context {E X T : Type}.
  Variable f : X -> result E T.
  Fixpoint mapR (l : list X) : result E (list T) :=
    match l with
    | [] => Ok []
    | x :: r => match f x with
                | Err e => Err e
                | Ok y => match mapR r with Err e => Err e | Ok ys => Ok (y :: ys) end
                end
    end.
  Variable g : nat -> X -> result E T.
  Fixpoint mapRi (i : nat) (l : list X) : result E (list T) :=
    match l with
    | [] => Ok []
    | x :: r => match g i x with
                | Err e => Err e
                | Ok y => match mapRi (S i) r with Err e => Err e | Ok ys => Ok (y :: ys) end
                end
    end.
End MapR.

Definition has_field (fields : list field) (k : str) : bool :=
  match field_lookup (fun _ _ => tt) fields k with Some _ => true | None => false end.

Definition is_list_ty (t : ty) : bool := match t with TList _ | TUList => true | _ => false end.
Definition is_model_ty (t : ty) : bool := match t with TModel _ _ _ => true | _ => false end.
Definition child_ty (t : ty) : ty := match t with TList c => c | _ => TStr end.

Fixpoint value_eqb (a b : value) {struct a} : bool :=
  match a, b with
  | VStr s, VStr t => str_eqb s t
  | VInt x, VInt y => Z.eqb x y
  | VFloat s, VFloat t => str_eqb s t
  | VBool x, VBool y => Bool.eqb x y
  | VList l, VList m =>
    (fix go (l m : list value) : bool :=
       match l, m with
       | [], [] => true
       | x :: l', y :: m' => value_eqb x y && go l' m'
       | _, _ => false
       end) l m
  | VModel l, VModel m =>
    (fix go (l m : list (str * value)) : bool :=
       match l, m with
       | [], [] => true
       | (k, x) :: l', (k', y) :: m' => str_eqb k k' && value_eqb x y && go l' m'
       | _, _ => false
       end) l m
  | _, _ => false
  end.

(* is_default_value: `field_value == default` *)
Definition is_default (d : option value) (v : value) : bool :=
  match d with Some dv => value_eqb v dv | None => false end.

(* ---- wire codecs ---- *)
Definition enc_Z (z : Z) : sexp :=
  match z with
  | Z0 => L [A 0; A 0]
  | Zpos p => L [A 0; A (Npos p)]
  | Zneg p => L [A 1; A (Npos p)]
  end.
Definition dec_Z (x : sexp) : option Z :=
  match x with
  | L [A 0; A n] => Some (Z.of_N n)
  | L [A 1; A n] => Some (- Z.of_N n)%Z
  | _ => None
  end.

Fixpoint enc_value (v : value) : sexp :=
  match v with
  | VStr s => L [A 0; enc_str s]
  | VInt z => L [A 1; enc_Z z]
  | VFloat s => L [A 2; enc_str s]
  | VBool b => L [A 3; enc_bool b]
  | VList l => L [A 4; L (map enc_value l)]
  | VModel fs => L [A 5; L (map (fun kv => L [enc_str (fst kv); enc_value (snd kv)]) fs)]
  end.

Fixpoint dec_value (fuel : nat) (x : sexp) : option value :=
  match fuel with
  | O => None
  | S f =>
    match x with
    | L [A 0; s] => option_map VStr (dec_str s)
    | L [A 1; z] => option_map VInt (dec_Z z)
    | L [A 2; s] => option_map VFloat (dec_str s)
    | L [A 3; b] => option_map VBool (dec_bool b)
    | L [A 4; L l] => option_map VList (dec_list_aux (dec_value f) l)
    | L [A 5; L l] =>
      option_map VModel
        (dec_list_aux (fun kv => match kv with
                                 | L [k; v] => match dec_str k, dec_value f v with
                                               | Some k', Some v' => Some (k', v')
                                               | _, _ => None end
                                 | _ => None end) l)
    | _ => None
    end
  end.

Definition dec_remap (x : sexp) : option remap := dec_list (dec_pair dec_str dec_str) x.

Fixpoint dec_ty (fuel : nat) (x : sexp) : option ty :=
  match fuel with
  | O => None
  | S f =>
    match x with
    | L [A 0] => Some TStr
    | L [A 1] => Some TInt
    | L [A 2] => Some TFloat
    | L [A 3] => Some TBool
    | L [A 4] => Some TUList
    | L [A 5; t] => option_map TList (dec_ty f t)
    | L [A 6; L fs; h; g] =>
      match dec_list_aux (fun fd => match fd with
                                    | L [n; t; d] =>
                                      match dec_str n, dec_ty f t, dec_option (dec_value 64) d with
                                      | Some n', Some t', Some d' => Some (n', (t', d'))
                                      | _, _, _ => None end
                                    | _ => None end) fs,
            dec_remap h, dec_remap g with
      | Some fs', Some h', Some g' => Some (TModel fs' h' g')
      | _, _, _ => None
      end
    | _ => None
    end
  end.

Definition dec_ctx (x : sexp) : option (option ctxremap) :=
  match x with
  | L [] => Some None
  | L [b; h; c; t; A s] =>
    match dec_remap b, dec_str h, dec_str c, dec_remap t with
    | Some b', Some h', Some c', Some t' => Some (Some (Build_ctxremap b' h' c' t' (negb (N.eqb s 0))))
    | _, _, _, _ => None
    end
  | _ => None
  end.

Definition dec_rowmodel (x : sexp) : option rowmodel :=
  match x with
  | L [t; c] => match dec_ty 64 t, dec_ctx c with
                | Some t', Some c' => Some (Build_rowmodel t' c')
                | _, _ => None end
  | _ => None
  end.

Definition dec_cells (x : sexp) : option (list (str * str)) := dec_list (dec_pair dec_str dec_str) x.
Definition enc_cells (c : list (str * str)) : sexp :=
  L (map (fun kv => L [enc_str (fst kv); enc_str (snd kv)]) c).

Definition enc_res {T} (f : T -> sexp) (r : res T) : sexp :=
  match r with Ok v => L [A 0; f v] | Err e => s_err (err_code e) end.
