(* E8 — render() of every class of rpft.rapidpro.models, as coded (key order of the dict
   literals included), and the observable of C05: RapidProContainer.from_dict(d).render().
   Definitions only. *)
From Coq Require Import List NArith ZArith Bool.
From RPFT Require Import Base.Sexp Base.PyStr Base.Result Base.Json Gen.Tables Exp.Load.
Import ListNotations.

(* the Python builtin `type`, which ContactFieldReference.render wrote before the repair
   "fix: a typed contact field reference renders its own type" (it is not JSON) *)
Definition builtin_type : json :=
  JRaw [60; 99; 108; 97; 115; 115; 32; 39; 116; 121; 112; 101; 39; 62]%N.   (* "<class 'type'>" *)

(* ---------------------------------------------------------------- common.py *)
Definition render_exit (e : exit_t) : json :=
  JObj [(k_destination_uuid, if json_eqb (e_dest e) (JStr k_HARD_EXIT) then JNull else e_dest e);
        (k_uuid, e_uuid e)].

Definition render_flowref (f : flowref_t) : json :=
  JObj [(k_name, fr_name f); (k_uuid, fr_uuid f)].

(* `render_dict["type"] = self.type` in the repaired tree, `= type` (the builtin) before: the
   regenerated probe [fieldref_renders_own_type] (Gen/Tables.v) tells which code is under check *)
Definition render_fieldref (f : fieldref_t) : json :=
  JObj ([(k_name, cf_name f); (k_key, cf_key f)]
        ++ (if truthy (cf_type f)
            then [(k_type, if fieldref_renders_own_type then cf_type f else builtin_type)]
            else [])).

Definition render_fieldref_label (f : fieldref_t) : json :=
  JObj [(k_label, cf_name f); (k_key, cf_key f)].

Fixpoint opt_members (ks : list str) (vs : list json) : list (str * json) :=
  match ks, vs with
  | k :: ks', v :: vs' => (if is_null v then [] else [(k, v)]) ++ opt_members ks' vs'
  | _, _ => []
  end.

Definition render_group (g : group_t) : json :=
  JObj ([(k_name, g_name g); (k_uuid, g_uuid g)] ++ opt_members group_optional_attrs (g_opt g)).

(* ---------------------------------------------------------------- actions.py *)
Definition render_templating (t : templ_t) : json :=
  JObj [(k_template, JObj [(k_name, tp_name t); (k_uuid, tp_template_uuid t)]);
        (k_uuid, tp_uuid t);
        (k_variables, tp_variables t)].

Definition render_action (a : action_t) : res json :=
  match a with
  | APass d => Ok (JObj d)
  | ASendMsg d templ =>
    do u <- attr d k_uuid;
    do t <- attr d k_type;
    do tx <- attr d k_text;
    do at_ <- attr d k_attachments;
    do al <- as_arr at_;
    do qr <- attr d k_quick_replies;
    Ok (JObj ([(k_uuid, u); (k_type, t); (k_text, tx); (k_attachments, JArr (filter truthy al));
               (k_quick_replies, qr)]
              ++ (if attr_truthy d k_all_urns then [(k_all_urns, getd d k_all_urns JNull)] else [])
              ++ (if attr_truthy d k_topic then [(k_topic, getd d k_topic JNull)] else [])
              ++ (match templ with Some tp => [(k_templating, render_templating tp)] | None => [] end)))
  | ASetField d f =>
    do u <- attr d k_uuid;
    do t <- attr d k_type;
    do v <- attr d k_value;
    Ok (JObj [(k_uuid, u); (k_type, t); (k_field, render_fieldref f); (k_value, v)])
  | ASetProp d p v =>
    do u <- attr d k_uuid;
    do t <- attr d k_type;
    Ok (JObj [(k_uuid, u); (k_type, t); (p, v)])
  | AGroups rm d gs =>
    do t <- attr d k_type;
    do u <- attr d k_uuid;
    Ok (JObj ([(k_type, t); (k_uuid, u); (k_groups, JArr (map render_group gs))]
              ++ (if rm && attr_truthy d k_all_groups then [(k_all_groups, getd d k_all_groups JNull)] else [])))
  | ARunResult d cat =>
    do t <- attr d k_type;
    do n <- attr d k_name;
    do v <- attr d k_value;
    do u <- attr d k_uuid;
    Ok (JObj ([(k_type, t); (k_name, n); (k_value, v); (k_uuid, u)]
              ++ (if truthy cat then [(k_category, cat)] else [])))
  | AEnterFlow d f =>
    do t <- attr d k_type;
    do u <- attr d k_uuid;
    Ok (JObj [(k_type, t); (k_uuid, u); (k_flow, render_flowref f)])
  end.

(* ---------------------------------------------------------------- routers.py *)
Definition render_category (c : cat_t) : json :=
  JObj [(k_uuid, c_uuid c); (k_name, c_name c); (k_exit_uuid, e_uuid (c_exit c))].

Definition render_case (c : case_t) : json :=
  JObj [(k_uuid, cs_uuid c); (k_type, cs_type c); (k_category_uuid, cs_cat c); (k_arguments, JArr (cs_args c))].

(* get_categories() *)
Definition categories_of (r : router_t) : list cat_t :=
  match r with
  | RSwitch _ _ _ _ others d nr => others ++ [d] ++ (match nr with Some n => [n] | None => [] end)
  | RRandom _ cats => cats
  end.

Definition render_router (r : router_t) : res json :=
  match r with
  | RSwitch op rn wt cases others d nr =>
    (* validate() *)
    do _ <- (match wt with
             | Some z => if Z.ltb z 0 then Err AssertionError
                         else if Z.ltb 0 z then (match nr with Some _ => Ok tt | None => Err AssertionError end)
                         else Ok tt
             | None => Ok tt
             end);
    let wait :=
      match wt with
      | Some z =>
        if Z.eqb z 0 then [(k_wait, JObj [(k_type, JStr k_msg)])]
        else [(k_wait, JObj [(k_type, JStr k_msg);
                             (k_timeout, JObj [(k_seconds, JInt z);
                                               (k_category_uuid, match nr with Some n => c_uuid n | None => JNull end)])])]
      | None => []
      end in
    Ok (JObj ([(k_type, JStr k_switch); (k_operand, op); (k_cases, JArr (map render_case cases));
               (k_categories, JArr (map render_category (categories_of r)));
               (k_default_category_uuid, c_uuid d)]
              ++ wait
              ++ (if is_null rn then [] else [(k_result_name, rn)])))
  | RRandom rn cats =>
    Ok (JObj ([(k_type, JStr k_random); (k_categories, JArr (map render_category cats))]
              ++ (if truthy rn then [(k_result_name, rn)] else [])))
  end.

(* ---------------------------------------------------------------- nodes.py *)
(* `if category.get_exit() not in exits: exits.append(...)`: each Exit object once, at the place
   of its first category.  Categories of a loaded router get their Exit from the node's exit list
   by uuid (find_exit: the first with that uuid), so "the same object" is "the same uuid". *)
Fixpoint uniq_exits (l : list exit_t) : list exit_t :=
  match l with
  | [] => []
  | e :: r => e :: filter (fun x => negb (json_eqb (e_uuid x) (e_uuid e))) (uniq_exits r)
  end.

(* get_exits(): the default exit of a basic node, the categories' exits of a router node — one
   entry per category before the repair "fix: an exit shared by several categories of a router is
   rendered once", each exit once since.  The regenerated probe [router_lists_shared_exit_once]
   (Gen/Tables.v) tells which code is under check. *)
Definition exits_of (n : node_t) : list exit_t :=
  match n_router n with
  | Some r => let l := map c_exit (categories_of r) in
              if router_lists_shared_exit_once then uniq_exits l else l
  | None => match n_default_exit n with Some e => [e] | None => [] end
  end.

Definition render_node (n : node_t) : res json :=
  do acts <- mapM render_action (n_actions n);
  do r <- (match n_router n with
           | Some r => do j <- render_router r; Ok [(k_router, j)]
           | None => Ok []
           end);
  Ok (JObj ([(k_uuid, n_uuid n); (k_exits, JArr (map render_exit (exits_of n)));
             (k_actions, JArr acts)] ++ r)).

(* render_ui(): position only; `type` and `config` are synthesised by heuristics that the
   model does not mirror (outside the projection of C05) *)
Definition render_ui (n : node_t) : option json :=
  match n_ui n with
  | Some (l, t) => Some (JObj [(k_position, JObj [(k_left, l); (k_top, t)])])
  | None => None
  end.

Fixpoint mset (m : list (str * json)) (k : str) (v : json) : list (str * json) :=
  match m with
  | [] => [(k, v)]
  | (k', v') :: r => if str_eqb k' k then (k', v) :: r else (k', v') :: mset r k v
  end.

Definition ui_dict (nodes : list node_t) : list (str * json) :=
  fold_left (fun acc n => match render_ui n, n_uuid n with
                          | Some u, JStr k => mset acc k u
                          | _, _ => acc
                          end) nodes [].

(* ---------------------------------------------------------------- containers.py *)
Definition render_flow (f : flow_t) : res json :=
  do ns <- mapM render_node (f_nodes f);
  let ui := ui_dict (f_nodes f) in
  Ok (JObj ([(k_uuid, f_uuid f); (k_name, f_name f); (k_language, f_language f); (k_type, f_type f);
             (k_nodes, JArr ns); (k_spec_version, f_spec f); (k_revision, f_revision f);
             (k_expire_after_minutes, f_expire f); (k_metadata, f_metadata f);
             (k_localization, f_localization f)]
            ++ (match ui with [] => [] | _ => [(k__ui, JObj [(k_nodes, JObj ui)])] end))).

(* ---------------------------------------------------------------- campaigns.py *)
Definition render_event (e : event_t) : json :=
  JObj ([(k_uuid, ev_uuid e); (k_offset, ev_offset e); (k_unit, ev_unit e); (k_event_type, ev_type e);
         (k_delivery_hour, ev_hour e); (k_message, ev_message e);
         (k_relative_to, render_fieldref_label (ev_rel e)); (k_start_mode, ev_start e)]
        ++ (if json_eqb (ev_type e) (JStr k_F) then [(k_flow, render_flowref (ev_flow e))] else [])
        ++ (if json_eqb (ev_type e) (JStr k_M) && truthy (ev_base e) then [(k_base_language, ev_base e)] else [])).

Definition render_campaign (c : campaign_t) : json :=
  JObj [(k_group, render_group (cp_group c)); (k_name, cp_name c); (k_uuid, cp_uuid c);
        (k_events, JArr (map render_event (cp_events c)))].

(* ---------------------------------------------------------------- triggers.py *)
Definition render_trigger (t : trigger_t) : json :=
  JObj ([(k_trigger_type, tr_type t);
         (k_keyword, match tr_keywords t with JArr (k :: _) => k | _ => JNull end);
         (k_keywords, tr_keywords t);
         (k_channel, tr_channel t);
         (k_flow, render_flowref (tr_flow t));
         (k_groups, JArr (map render_group (tr_groups t)));
         (k_exclude_groups, JArr (map render_group (tr_exclude t)))]
        ++ (if truthy (tr_match t) then [(k_match_type, tr_match t)] else [])).

(* RapidProContainer.render() after validate() *)
Definition render (c : container_t) : res json :=
  do fl <- mapM render_flow (ct_flows c);
  Ok (JObj [(k_campaigns, JArr (map render_campaign (ct_campaigns c)));
            (k_fields, ct_fields c);
            (k_flows, JArr fl);
            (k_groups, JArr (map render_group (ct_groups c)));
            (k_site, ct_site c);
            (k_triggers, JArr (map render_trigger (ct_triggers c)));
            (k_version, ct_version c)]).

(* the observable of C05: RapidProContainer.from_dict(d).render() *)
Definition roundtrip (d : json) : res json := do c <- load d; render c.
