(* E8 — the container's own groups through RapidProContainer.validate(): the facts behind the
   repair of the finding top-level-group-attributes ("fix: validate() keeps query/status/system/
   count of the container's groups").

   validate() lists one group per name of the uuid dictionary.  The theorem here: the groups the
   container holds come first, in their order, each with the uuid it was given — and, when the
   tree under check carries the repair (regenerated probe [validate_keeps_group_attrs]), with
   all their attributes; groups that are only referenced follow.  Whatever else the container
   holds (flows, campaigns, triggers: any number of further occurrences of the same names). *)
From Coq Require Import List NArith ZArith Bool Lia.
From RPFT Require Import Base.Sexp Base.PyStr Base.Result Base.Json Gen.Tables
  Exp.Load Exp.Render Exp.ExportDoc Exp.ExportFacts.
Import ListNotations.

Arguments validate_keeps_group_attrs : simpl never.

(* ================================================================ the uuid dictionary only grows,
   and never changes a uuid it has *)
Inductive keeps : udict -> udict -> Prop :=
| keeps_nil d' : keeps [] d'
| keeps_cons k v v' d d' : (truthy v = true -> v' = v) -> keeps d d' -> keeps ((k, v) :: d) ((k, v') :: d').

Lemma keeps_refl d : keeps d d.
Proof. induction d as [|[k v] r IH]; constructor; [intros _; reflexivity|exact IH]. Qed.

Lemma keeps_trans a : forall b c, keeps a b -> keeps b c -> keeps a c.
Proof.
  induction a as [|[k v] r IH]; intros b c Hab Hbc; [constructor|].
  inversion Hab as [|k1 v1 v1' d1 d1' Hv Hr]; subst.
  inversion Hbc as [|k2 v2 v2' d2 d2' Hv' Hr']; subst.
  constructor; [|exact (IH _ _ Hr Hr')].
  intros Ht. rewrite <- (Hv Ht). apply Hv'. rewrite (Hv Ht). exact Ht.
Qed.

Lemma uset_keeps d n u : (forall r, uget d n = Some r -> truthy r = false) -> keeps d (uset d n u).
Proof.
  induction d as [|[k v] r IH]; intros H; cbn [uset]; [constructor|].
  cbn [uget] in H. destruct (json_eqb k n) eqn:E.
  - constructor; [|apply keeps_refl]. intros Ht. rewrite (H v eq_refl) in Ht. discriminate Ht.
  - constructor; [intros _; reflexivity|]. apply IH. exact H.
Qed.

Lemma record1_keeps d n u d' : record1 d n u = Ok d' -> keeps d d'.
Proof.
  unfold record1. destruct (uget d n) as [r|] eqn:Eg.
  - destruct (truthy r) eqn:Et.
    + destruct (truthy u && negb (json_eqb u r)); intros H; [discriminate H|].
      injection H as <-. apply keeps_refl.
    + intros H. injection H as <-. apply uset_keeps. intros r' Hr'. rewrite Eg in Hr'. injection Hr' as <-. exact Et.
  - intros H. injection H as <-. apply uset_keeps. intros r' Hr'. rewrite Eg in Hr'. discriminate Hr'.
Qed.

Lemma apply_occ_keeps s o s' : apply_occ s o = Ok s' -> keeps (group_dict s) (group_dict s').
Proof.
  destruct o as [n u|n u|n]; cbn [apply_occ].
  - destruct (record1 (group_dict s) n u) as [g|e] eqn:E; cbn [bind]; intros H; [|discriminate H].
    injection H as <-. cbn [group_dict]. exact (record1_keeps _ _ _ _ E).
  - destruct (record1 (flow_dict s) n u) as [g|e] eqn:E; cbn [bind]; intros H; [|discriminate H].
    injection H as <-. apply keeps_refl.
  - destruct (uget (flow_dict s) n); intros H; [|discriminate H]. injection H as <-. apply keeps_refl.
Qed.

Lemma foldM_keeps os : forall s s', foldM apply_occ os s = Ok s' -> keeps (group_dict s) (group_dict s').
Proof.
  induction os as [|o r IH]; intros s s'; cbn [foldM]; intros H.
  - injection H as <-. apply keeps_refl.
  - destruct (apply_occ s o) as [s1|e] eqn:E; [|discriminate H].
    exact (keeps_trans _ _ _ (apply_occ_keeps _ _ _ E) (IH _ _ H)).
Qed.

Lemma fill_missing_keeps d : keeps d (fill_missing d).
Proof.
  induction d as [|[k v] r IH]; cbn; constructor; [|exact IH].
  intros Ht. unfold or_fresh. cbn [snd]. rewrite Ht. reflexivity.
Qed.

Lemma keeps_given d : forall d', keeps d d' -> (forall kv, In kv d -> truthy (snd kv) = true) -> exists t, d' = d ++ t.
Proof.
  induction d as [|[k v] r IH]; intros d' Hk Ht.
  - exists d'. reflexivity.
  - inversion Hk as [|k1 v1 v1' d1 d1' Hv Hr]; subst.
    destruct (IH _ Hr) as [t Et]; [intros kv Hin; apply Ht; right; exact Hin|].
    exists t. rewrite (Hv (Ht (k, v) (or_introl eq_refl))), Et. reflexivity.
Qed.

(* ================================================================ recording the container's own groups *)
(* no two groups of the list have the same name (the earlier name against the later one, as
   UUIDDict compares a stored key with the name looked up) *)
Fixpoint names_distinct (gs : list group_t) : Prop :=
  match gs with
  | [] => True
  | g :: r => (forall h, In h r -> json_eqb (g_name g) (g_name h) = false) /\ names_distinct r
  end.

Definition entry (g : group_t) : json * json := (g_name g, g_uuid g).

Lemma uset_new d n u : uget d n = None -> uset d n u = d ++ [(n, u)].
Proof.
  induction d as [|[k v] r IH]; cbn [uget uset app]; [reflexivity|].
  destruct (json_eqb k n); intros H; [discriminate H|]. rewrite (IH H). reflexivity.
Qed.

Lemma uget_snoc_none d k v n : uget d n = None -> json_eqb k n = false -> uget (d ++ [(k, v)]) n = None.
Proof.
  induction d as [|[k' v'] r IH]; cbn [uget app]; intros H Hk.
  - rewrite Hk. reflexivity.
  - destruct (json_eqb k' n); [discriminate H|]. exact (IH H Hk).
Qed.

Lemma foldM_app {E S A} (f : A -> S -> result E A) (l1 l2 : list S) : forall a,
  foldM f (l1 ++ l2) a = bind (foldM f l1 a) (foldM f l2).
Proof.
  induction l1 as [|x r IH]; intros a; cbn [foldM app bind]; [reflexivity|].
  destruct (f a x) as [a'|e]; [apply IH|reflexivity].
Qed.

Lemma record_own_groups gs : forall s,
  (forall g, In g gs -> uget (group_dict s) (g_name g) = None) -> names_distinct gs ->
  foldM apply_occ (flat_map occs_group gs) s
  = Ok {| flow_dict := flow_dict s; group_dict := group_dict s ++ map entry gs |}.
Proof.
  induction gs as [|g r IH]; intros s Hnew Hd.
  - cbn. rewrite app_nil_r. destruct s; reflexivity.
  - destruct Hd as [Hg Hr].
    cbn [flat_map occs_group app foldM apply_occ]. unfold record1.
    rewrite (Hnew g (or_introl eq_refl)). cbn [bind].
    rewrite (uset_new _ _ _ (Hnew g (or_introl eq_refl))).
    rewrite IH; cbn [flow_dict group_dict].
    + rewrite <- app_assoc. reflexivity.
    + intros h Hh. apply uget_snoc_none; [apply Hnew; right; exact Hh|apply Hg; exact Hh].
    + exact Hr.
Qed.

(* ================================================================ validate() *)
(* a group as validate() lists it: itself on a tree that carries the repair, Group(name, uuid)
   on a tree that does not *)
Definition strip_attrs (g : group_t) : group_t := {| g_name := g_name g; g_uuid := g_uuid g; g_opt := no_attrs |}.
Definition kept_group (g : group_t) : group_t := if validate_keeps_group_attrs then g else strip_attrs g.

(* the container's own groups as an export has them: named by strings, no name twice, each with a uuid *)
Definition own_groups_ok (gs : list group_t) : Prop :=
  names_distinct gs /\ forall g, In g gs -> (exists s, g_name g = JStr s) /\ truthy (g_uuid g) = true.

Lemma find_own gs : names_distinct gs -> (forall g, In g gs -> exists s, g_name g = JStr s) ->
  forall g, In g gs -> find_group (g_name g) gs = Some g.
Proof.
  induction gs as [|g0 r IH]; intros Hd Hs g Hin; [destruct Hin|].
  destruct Hd as [Hg Hr]. cbn [find_group]. destruct Hin as [<-|Hin].
  - destruct (Hs g0 (or_introl eq_refl)) as [s Es]. rewrite Es, json_eqb_str, str_eqb_refl. reflexivity.
  - rewrite (Hg g Hin). apply IH; [exact Hr| |exact Hin]. intros h Hh. apply Hs. right. exact Hh.
Qed.

Lemma listed_own gs : names_distinct gs -> (forall g, In g gs -> exists s, g_name g = JStr s) ->
  map (listed_group gs) (map entry gs) = map kept_group gs.
Proof.
  intros Hd Hs. rewrite map_map. apply map_ext_in. intros g Hin.
  unfold listed_group, kept_group, strip_attrs, entry. cbn [fst snd].
  rewrite (find_own gs Hd Hs g Hin). destruct validate_keeps_group_attrs; destruct g; reflexivity.
Qed.

Lemma validate_groups c c' :
  validate c = Ok c' -> names_distinct (ct_groups c) ->
  (forall g, In g (ct_groups c) -> truthy (g_uuid g) = true) ->
  exists t, ct_groups c' = map (listed_group (ct_groups c)) (map entry (ct_groups c) ++ t).
Proof.
  intros H Hd Hu. unfold validate, occs_container in H.
  destruct (mapM occs_flow (ct_flows c)) as [fl|e] eqn:Efl; cbn [bind] in H; [|discriminate H].
  rewrite foldM_app in H.
  rewrite (record_own_groups (ct_groups c) {| flow_dict := []; group_dict := [] |}) in H;
    [|intros g _; reflexivity|exact Hd].
  cbn [bind flow_dict group_dict app] in H.
  match type of H with context [foldM apply_occ ?os ?s1] => destruct (foldM apply_occ os s1) as [s0|e] eqn:Efold end;
    cbn [bind] in H; [|discriminate H].
  apply foldM_keeps in Efold. cbn [group_dict] in Efold.
  pose proof (keeps_trans _ _ _ Efold (fill_missing_keeps (group_dict s0))) as Hk.
  destruct (keeps_given _ _ Hk) as [t Et].
  { intros kv Hin. apply in_map_iff in Hin. destruct Hin as [g [<- Hg]]. apply Hu. exact Hg. }
  cbn [group_dict flow_dict] in H.
  destruct (mapM (assign_flow _) (ct_flows c)) as [flows|e]; cbn [bind] in H; [|discriminate H].
  destruct (mapM (assign_campaign _) (ct_campaigns c)) as [camps|e]; cbn [bind] in H; [|discriminate H].
  destruct (mapM (assign_trigger _) (ct_triggers c)) as [trigs|e]; cbn [bind] in H; [|discriminate H].
  injection H as <-. cbn [ct_groups]. exists t. rewrite Et. reflexivity.
Qed.

(* THE THEOREM.  Whatever else the container holds. *)
Theorem validate_keeps_groups c c' :
  own_groups_ok (ct_groups c) -> validate c = Ok c' ->
  exists referenced, ct_groups c' = map kept_group (ct_groups c) ++ referenced.
Proof.
  intros [Hd Hg] H.
  destruct (validate_groups c c' H Hd (fun g Hin => proj2 (Hg g Hin))) as [t Et].
  exists (map (listed_group (ct_groups c)) t). rewrite Et, map_app.
  rewrite (listed_own _ Hd (fun g Hin => proj1 (Hg g Hin))). reflexivity.
Qed.

(* on a tree that carries the repair: the groups come back as they are *)
Corollary validate_keeps_groups_repaired :
  validate_keeps_group_attrs = true ->
  forall c c', own_groups_ok (ct_groups c) -> validate c = Ok c' ->
  exists referenced, ct_groups c' = ct_groups c ++ referenced.
Proof.
  intros Hfix c c' Hok H. destruct (validate_keeps_groups c c' Hok H) as [t Et]. exists t. rewrite Et.
  f_equal. rewrite <- (map_id (ct_groups c)) at 2. apply map_ext. intros g. unfold kept_group. rewrite Hfix. reflexivity.
Qed.
