(* E8 — the container's own groups through RapidProContainer.validate(): the facts behind the
   repair of the finding top-level-group-attributes ("fix: validate() keeps query/status/system/
   count of the container's groups").

   validate() lists one group per name of the uuid dictionary.  The theorem here: the groups the
   container holds come first, in their order, each with the uuid it was given — and, when the
   tree under check carries the repair (regenerated probe [validate_keeps_group_attrs]), with
   all their attributes; groups that are only referenced follow.  Whatever else the container
   holds (flows, campaigns, triggers: any number of further occurrences of the same names). *)
From Coq Require Import List NArith ZArith Bool Lia.
From RPFT Require Import Base.Sexp Base.PyStr Base.Result Base.Json Gen.Tables
  Exp.Load Exp.Render Exp.ExportDoc Exp.ExportFacts.
Import ListNotations.

Arguments validate_keeps_group_attrs : simpl never.

(* ================================================================ the uuid dictionary only grows,
   and never changes a uuid it has *)
Inductive keeps : udict -> udict -> Prop :=
| keeps_nil d' : keeps [] d'
| keeps_cons k v v' d d' : (truthy v = true -> v' = v) -> keeps d d' -> keeps ((k, v) :: d) ((k, v') :: d').

Lemma keeps_refl d : keeps d d.
Proof. induction d as [|[k v] r IH]; constructor; [intros _; reflexivity|exact IH]. Qed.

Lemma keeps_trans a : forall b c, keeps a b -> keeps b c -> keeps a c.
Proof.
  induction a as [|[k v] r IH]; intros b c Hab Hbc; [constructor|].
  inversion Hab as [|k1 v1 v1' d1 d1' Hv Hr]; subst.
  inversion Hbc as [|k2 v2 v2' d2 d2' Hv' Hr']; subst.
  constructor; [|exact (IH _ _ Hr Hr')].
  intros Ht. rewrite <- (Hv Ht). apply Hv'. rewrite (Hv Ht). exact Ht.
Qed.

Lemma uset_keeps d n u : (forall r, uget d n = Some r -> truthy r = false) -> keeps d (uset d n u).
Proof.
  induction d as [|[k v] r IH]; intros H; cbn [uset]; [constructor|].
  cbn [uget] in H. destruct (json_eqb k n) eqn:E.
  - constructor; [|apply keeps_refl]. intros Ht. rewrite (H v eq_refl) in Ht. discriminate Ht.
  - constructor; [intros _; reflexivity|]. apply IH. exact H.
Qed.

Lemma record1_keeps d n u d' : record1 d n u = Ok d' -> keeps d d'.
Proof.
  unfold record1. destruct (uget d n) as [r|] eqn:Eg.
  - destruct (truthy r) eqn:Et.
    + destruct (truthy u && negb (json_eqb u r)); intros H; [discriminate H|].
      injection H as <-. apply keeps_refl.
    + intros H. injection H as <-. apply uset_keeps. intros r' Hr'. rewrite Eg in Hr'. injection Hr' as <-. exact Et.
  - intros H. injection H as <-. apply uset_keeps. intros r' Hr'. rewrite Eg in Hr'. discriminate Hr'.
Qed.

Lemma apply_occ_keeps s o s' : apply_occ s o = Ok s' -> keeps (group_dict s) (group_dict s').
Proof.
  destruct o as [n u|n u|n]; cbn [apply_occ].
  - destruct (record1 (group_dict s) n u) as [g|e] eqn:E; cbn [bind]; intros H; [|discriminate H].
    injection H as <-. cbn [group_dict]. exact (record1_keeps _ _ _ _ E).
  - destruct (record1 (flow_dict s) n u) as [g|e] eqn:E; cbn [bind]; intros H; [|discriminate H].
    injection H as <-. apply keeps_refl.
  - destruct (uget (flow_dict s) n); intros H; [|discriminate H]. injection H as <-. apply keeps_refl.
Qed.

Lemma foldM_keeps os : forall s s', foldM apply_occ os s = Ok s' -> keeps (group_dict s) (group_dict s').
Proof.
  induction os as [|o r IH]; intros s s'; cbn [foldM]; intros H.
  - injection H as <-. apply keeps_refl.
  - destruct (apply_occ s o) as [s1|e] eqn:E; [|discriminate H].
    exact (keeps_trans _ _ _ (apply_occ_keeps _ _ _ E) (IH _ _ H)).
Qed.

Lemma fill_missing_keeps d : keeps d (fill_missing d).
Proof.
  induction d as [|[k v] r IH]; cbn; constructor; [|exact IH].
  intros Ht. unfold or_fresh. cbn [snd]. rewrite Ht. reflexivity.
Qed.

Lemma keeps_given d : forall d', keeps d d' -> (forall kv, In kv d -> truthy (snd kv) = true) -> exists t, d' = d ++ t.
Proof.
  induction d as [|[k v] r IH]; intros d' Hk Ht.
  - exists d'. reflexivity.
  - inversion Hk as [|k1 v1 v1' d1 d1' Hv Hr]; subst.
    destruct (IH _ Hr) as [t Et]; [intros kv Hin; apply Ht; right; exact Hin|].
    exists t. rewrite (Hv (Ht (k, v) (or_introl eq_refl))), Et. reflexivity.
Qed.

(* ================================================================ recording the container's own groups *)
(* no two groups of the list have the same name (the earlier name against the later one, as
   UUIDDict compares a stored key with the name looked up) *)
Fixpoint names_distinct (gs : list group_t) : Prop :=
  match gs with
  | [] => True
  | g :: r => (forall h, In h r -> json_eqb (g_name g) (g_name h) = false) /\ names_distinct r
  end.

Definition entry (g : group_t) : json * json := (g_name g, g_uuid g).

Lemma uset_new d n u : uget d n = None -> uset d n u = d ++ [(n, u)].
Proof.
  induction d as [|[k v] r IH]; cbn [uget uset app]; [reflexivity|].
  destruct (json_eqb k n); intros H; [discriminate H|]. rewrite (IH H). reflexivity.
Qed.

Lemma uget_snoc_none d k v n : uget d n = None -> json_eqb k n = false -> uget (d ++ [(k, v)]) n = None.
Proof.
  induction d as [|[k' v'] r IH]; cbn [uget app]; intros H Hk.
  - rewrite Hk. reflexivity.
  - destruct (json_eqb k' n); [discriminate H|]. exact (IH H Hk).
Qed.

Lemma foldM_app {E S A} (f : A -> S -> result E A) (l1 l2 : list S) : forall a,
  foldM f (l1 ++ l2) a = bind (foldM f l1 a) (foldM f l2).
Proof.
  induction l1 as [|x r IH]; intros a; cbn [foldM app bind]; [reflexivity|].
  destruct (f a x) as [a'|e]; [apply IH|reflexivity].
Qed.

Lemma record_own_groups gs : forall s,
  (forall g, In g gs -> uget (group_dict s) (g_name g) = None) -> names_distinct gs ->
  foldM apply_occ (flat_map occs_group gs) s
  = Ok {| flow_dict := flow_dict s; group_dict := group_dict s ++ map entry gs |}.
Proof.
  induction gs as [|g r IH]; intros s Hnew Hd.
  - cbn. rewrite app_nil_r. destruct s; reflexivity.
  - destruct Hd as [Hg Hr].
    cbn [flat_map occs_group app foldM apply_occ]. unfold record1.
    rewrite (Hnew g (or_introl eq_refl)). cbn [bind].
    rewrite (uset_new _ _ _ (Hnew g (or_introl eq_refl))).
    rewrite IH; cbn [flow_dict group_dict].
    + rewrite <- app_assoc. reflexivity.
    + intros h Hh. apply uget_snoc_none; [apply Hnew; right; exact Hh|apply Hg; exact Hh].
    + exact Hr.
Qed.

(* ================================================================ validate() *)
(* a group as validate() lists it: itself on a tree that carries the repair, Group(name, uuid)
   on a tree that does not *)
Definition strip_attrs (g : group_t) : group_t := {| g_name := g_name g; g_uuid := g_uuid g; g_opt := no_attrs |}.
Definition kept_group (g : group_t) : group_t := if validate_keeps_group_attrs then g else strip_attrs g.

(* the container's own groups as an export has them: named by strings, no name twice, each with a uuid *)
Definition own_groups_ok (gs : list group_t) : Prop :=
  names_distinct gs /\ forall g, In g gs -> (exists s, g_name g = JStr s) /\ truthy (g_uuid g) = true.

Lemma find_own gs : names_distinct gs -> (forall g, In g gs -> exists s, g_name g = JStr s) ->
  forall g, In g gs -> find_group (g_name g) gs = Some g.
Proof.
  induction gs as [|g0 r IH]; intros Hd Hs g Hin; [destruct Hin|].
  destruct Hd as [Hg Hr]. cbn [find_group]. destruct Hin as [<-|Hin].
  - destruct (Hs g0 (or_introl eq_refl)) as [s Es]. rewrite Es, json_eqb_str, str_eqb_refl. reflexivity.
  - rewrite (Hg g Hin). apply IH; [exact Hr| |exact Hin]. intros h Hh. apply Hs. right. exact Hh.
Qed.

Lemma listed_own gs : names_distinct gs -> (forall g, In g gs -> exists s, g_name g = JStr s) ->
  map (listed_group gs) (map entry gs) = map kept_group gs.
Proof.
  intros Hd Hs. rewrite map_map. apply map_ext_in. intros g Hin.
  unfold listed_group, kept_group, strip_attrs, entry. cbn [fst snd].
  rewrite (find_own gs Hd Hs g Hin). destruct validate_keeps_group_attrs; destruct g; reflexivity.
Qed.

Lemma validate_groups c c' :
  validate c = Ok c' -> names_distinct (ct_groups c) ->
  (forall g, In g (ct_groups c) -> truthy (g_uuid g) = true) ->
  exists t, ct_groups c' = map (listed_group (ct_groups c)) (map entry (ct_groups c) ++ t).
Proof.
  intros H Hd Hu. unfold validate, occs_container in H.
  destruct (mapM occs_flow (ct_flows c)) as [fl|e] eqn:Efl; cbn [bind] in H; [|discriminate H].
  rewrite foldM_app in H.
  rewrite (record_own_groups (ct_groups c) {| flow_dict := []; group_dict := [] |}) in H;
    [|intros g _; reflexivity|exact Hd].
  cbn [bind flow_dict group_dict app] in H.
  match type of H with context [foldM apply_occ ?os ?s1] => destruct (foldM apply_occ os s1) as [s0|e] eqn:Efold end;
    cbn [bind] in H; [|discriminate H].
  apply foldM_keeps in Efold. cbn [group_dict] in Efold.
  pose proof (keeps_trans _ _ _ Efold (fill_missing_keeps (group_dict s0))) as Hk.
  destruct (keeps_given _ _ Hk) as [t Et].
  { intros kv Hin. apply in_map_iff in Hin. destruct Hin as [g [<- Hg]]. apply Hu. exact Hg. }
  cbn [group_dict flow_dict] in H.
  destruct (mapM (assign_flow _) (ct_flows c)) as [flows|e]; cbn [bind] in H; [|discriminate H].
  destruct (mapM (assign_campaign _) (ct_campaigns c)) as [camps|e]; cbn [bind] in H; [|discriminate H].
  destruct (mapM (assign_trigger _) (ct_triggers c)) as [trigs|e]; cbn [bind] in H; [|discriminate H].
  injection H as <-. cbn [ct_groups]. exists t. rewrite Et. reflexivity.
Qed.

(* THE THEOREM.  Whatever else the container holds. *)
Theorem validate_keeps_groups c c' :
  own_groups_ok (ct_groups c) -> validate c = Ok c' ->
  exists referenced, ct_groups c' = map kept_group (ct_groups c) ++ referenced.
Proof.
  intros [Hd Hg] H.
  destruct (validate_groups c c' H Hd (fun g Hin => proj2 (Hg g Hin))) as [t Et].
  exists (map (listed_group (ct_groups c)) t). rewrite Et, map_app.
  rewrite (listed_own _ Hd (fun g Hin => proj1 (Hg g Hin))). reflexivity.
Qed.

(* on a tree that carries the repair: the groups come back as they are *)
Corollary validate_keeps_groups_repaired :
  validate_keeps_group_attrs = true ->
  forall c c', own_groups_ok (ct_groups c) -> validate c = Ok c' ->
  exists referenced, ct_groups c' = ct_groups c ++ referenced.
Proof.
  intros Hfix c c' Hok H. destruct (validate_keeps_groups c c' Hok H) as [t Et]. exists t. rewrite Et.
  f_equal. rewrite <- (map_id (ct_groups c)) at 2. apply map_ext. intros g. unfold kept_group. rewrite Hfix. reflexivity.
Qed.

(* ================================================================ a top-level group of an export:
   name, uuid and any subset of query/status/system/count.  Generic in the regenerated attribute
   list; what is used of the tables is the boolean [group_tables_ok]. *)
Fixpoint strs_distinct (l : list str) : bool :=
  match l with [] => true | x :: r => negb (mem_str x r) && strs_distinct r end.

Definition group_tables_ok : bool :=
  strs_distinct (k_name :: k_uuid :: group_optional_attrs)
  && strs_eqb (map fst group_params) (k_name :: k_uuid :: group_optional_attrs)
  && forallb (fun p => negb (snd p) || str_eqb k_name (fst p)) group_params.   (* only `name` is required *)

Lemma group_tables_ok_true : group_tables_ok = true.
Proof. vm_compute. reflexivity. Qed.

Lemma str_eqb_sym a : forall b, str_eqb a b = str_eqb b a.
Proof.
  induction a as [|c r IH]; intros [|d t]; cbn; try reflexivity.
  rewrite N.eqb_sym, IH. reflexivity.
Qed.

Lemma strs_eqb_eq a : forall b, strs_eqb a b = true -> a = b.
Proof.
  induction a as [|x r IH]; intros [|y t]; cbn; intros H; try discriminate; [reflexivity|].
  apply andb_true_iff in H. destruct H as [H1 H2]. apply str_eqb_eq in H1. subst. f_equal. apply IH, H2.
Qed.

Lemma mem_str_false_in k l y : mem_str k l = false -> In y l -> str_eqb y k = false.
Proof.
  induction l as [|x r IH]; cbn [mem_str In]; intros H Hin; [destruct Hin|].
  apply orb_false_iff in H. destruct H as [H1 H2]. destruct Hin as [<-|Hin]; [exact H1|exact (IH H2 Hin)].
Qed.

Lemma in_mem_str k l : In k l -> mem_str k l = true.
Proof.
  induction l as [|x r IH]; cbn [mem_str In]; intros Hin; [destruct Hin|].
  destruct Hin as [<-|Hin]; [rewrite str_eqb_refl; reflexivity|rewrite (IH Hin); apply orb_true_r].
Qed.

Lemma opts_nil ks : opts ks [] = [].
Proof. destruct ks; reflexivity. Qed.

Lemma opts_keys ks : forall vs kv, In kv (opts ks vs) -> In (fst kv) ks.
Proof.
  induction ks as [|k r IH]; intros [|v vs] kv; cbn [opts]; try (intros H; destruct H).
  intros H. apply in_app_or in H. destruct H as [H|H].
  - destruct v as [x|]; cbn in H; [|destruct H]. destruct H as [<-|H]; [left; reflexivity|destruct H].
  - right. exact (IH _ _ H).
Qed.

Lemma jget_notin m k : (forall kv, In kv m -> str_eqb (fst kv) k = false) -> jget m k = None.
Proof.
  induction m as [|[k' v] r IH]; intros H; cbn [jget]; [reflexivity|].
  pose proof (H (k', v) (or_introl eq_refl)) as E. cbn [fst] in E. rewrite E.
  apply IH. intros kv Hin. apply H. right. exact Hin.
Qed.

Definition unopt (o : option json) : json := match o with Some v => v | None => JNull end.
Fixpoint unopts (ks : list str) (vs : list (option json)) : list json :=
  match ks with
  | [] => []
  | _ :: ks' => match vs with v :: vs' => unopt v :: unopts ks' vs' | [] => JNull :: unopts ks' [] end
  end.

Lemma unopts_nil ks : unopts ks [] = map (fun _ => JNull) ks.
Proof. induction ks as [|k r IH]; cbn; [reflexivity|rewrite IH; reflexivity]. Qed.

(* reading the attributes back: map (fun k => d.get(k)) ks *)
Lemma getd_opts ks : forall vs, strs_distinct ks = true ->
  map (fun k => getd (opts ks vs) k JNull) ks = unopts ks vs.
Proof.
  induction ks as [|k r IH]; intros vs Hd; [reflexivity|].
  cbn [strs_distinct] in Hd. apply andb_true_iff in Hd. destruct Hd as [Hk Hr]. apply negb_true_iff in Hk.
  destruct vs as [|v vs].
  - cbn [opts map unopts]. f_equal. rewrite <- (IH [] Hr), opts_nil. reflexivity.
  - cbn [opts map unopts]. f_equal.
    + unfold getd. destruct v as [x|]; cbn [opt app jget unopt]; [rewrite str_eqb_refl; reflexivity|].
      rewrite jget_notin; [reflexivity|]. intros kv Hin. exact (mem_str_false_in _ _ _ Hk (opts_keys _ _ _ Hin)).
    + rewrite <- (IH vs Hr). apply map_ext_in. intros k' Hin. unfold getd.
      destruct v as [x|]; cbn [opt app jget]; [|reflexivity].
      rewrite str_eqb_sym, (mem_str_false_in _ _ _ Hk Hin). reflexivity.
Qed.

(* Group.render's loop over the optional attributes *)
Lemma opts_filter ks : forall vs,
  filter (fun kv => negb (is_null (snd kv))) (opts ks vs) = opt_members ks (unopts ks vs).
Proof.
  induction ks as [|k r IH]; intros vs; [destruct vs; reflexivity|].
  destruct vs as [|v vs]; cbn [opts unopts opt_members].
  - cbn [is_null app]. rewrite <- (IH []), opts_nil. reflexivity.
  - rewrite filter_app, IH. f_equal. destruct v as [x|]; cbn; [destruct (is_null x); reflexivity|reflexivity].
Qed.

Lemma filter_filter {A} (p q : A -> bool) l : filter p (filter q l) = filter (fun x => q x && p x) l.
Proof.
  induction l as [|x r IH]; cbn; [reflexivity|]. destruct (q x); cbn; [destruct (p x); rewrite IH; reflexivity|exact IH].
Qed.

Lemma filter_all {A} (p : A -> bool) l : (forall x, In x l -> p x = true) -> filter p l = l.
Proof.
  induction l as [|x r IH]; intros H; cbn; [reflexivity|].
  rewrite (H x (or_introl eq_refl)), IH; [reflexivity|]. intros y Hy. apply H. right. exact Hy.
Qed.

(* norm_group: "optional group attributes that are null may be omitted" *)
Lemma fold_drop ks : forall m,
  fold_left (fun acc k => drop_when k is_null acc) ks (JObj m)
  = JObj (filter (fun kv => negb (mem_str (fst kv) ks && is_null (snd kv))) m).
Proof.
  induction ks as [|k r IH]; intros m; cbn [fold_left].
  - rewrite filter_all; [reflexivity|]. intros; reflexivity.
  - cbn [drop_when]. rewrite IH, filter_filter. f_equal. apply filter_ext. intros [k' v]. cbn [fst snd mem_str].
    rewrite (str_eqb_sym k k'). destruct (str_eqb k' k), (mem_str k' r), (is_null v); reflexivity.
Qed.

Section TopGroup.
  Let ks := group_optional_attrs.

  Lemma tables_distinct : strs_distinct (k_name :: k_uuid :: ks) = true.
  Proof.
    pose proof group_tables_ok_true as H. unfold group_tables_ok in H.
    apply andb_true_iff in H. destruct H as [H _]. apply andb_true_iff in H. destruct H as [H _]. exact H.
  Qed.

  Lemma tables_param_names : map fst group_params = k_name :: k_uuid :: ks.
  Proof.
    pose proof group_tables_ok_true as H. unfold group_tables_ok in H.
    apply andb_true_iff in H. destruct H as [H _]. apply andb_true_iff in H. destruct H as [_ H].
    apply strs_eqb_eq. exact H.
  Qed.

  Lemma tables_required : forallb (fun p => negb (snd p) || str_eqb k_name (fst p)) group_params = true.
  Proof.
    pose proof group_tables_ok_true as H. unfold group_tables_ok in H.
    apply andb_true_iff in H. destruct H as [_ H]. exact H.
  Qed.

  Lemma attr_not_name k : In k ks -> str_eqb k_name k = false /\ str_eqb k_uuid k = false.
  Proof.
    intros Hin. pose proof tables_distinct as H. cbn [strs_distinct] in H.
    apply andb_true_iff in H. destruct H as [Hn H]. apply andb_true_iff in H. destruct H as [Hu _].
    apply negb_true_iff in Hn, Hu. cbn [mem_str] in Hn. apply orb_false_iff in Hn. destruct Hn as [_ Hn].
    split; rewrite str_eqb_sym; [exact (mem_str_false_in _ _ _ Hn Hin)|exact (mem_str_false_in _ _ _ Hu Hin)].
  Qed.

  Lemma name_not_attr : mem_str k_name ks = false /\ mem_str k_uuid ks = false /\ str_eqb k_name k_uuid = false.
  Proof.
    pose proof tables_distinct as H. cbn [strs_distinct] in H.
    apply andb_true_iff in H. destruct H as [Hn H]. apply andb_true_iff in H. destruct H as [Hu _].
    apply negb_true_iff in Hn, Hu. cbn [mem_str] in Hn. apply orb_false_iff in Hn. destruct Hn as [Hnu Hn].
    rewrite str_eqb_sym in Hnu. split; [exact Hn|]. split; [exact Hu|exact Hnu].
  Qed.

  Definition top_members (n u : json) (vs : list (option json)) : members := (k_name, n) :: (k_uuid, u) :: opts ks vs.

  Lemma check_group_kwargs n u vs : check_kwargs group_params (top_members n u vs) = Ok tt.
  Proof.
    unfold check_kwargs.
    assert (forallb (fun kv => mem_str (fst kv) (map fst group_params)) (top_members n u vs) = true) as Ha.
    { rewrite tables_param_names. apply forallb_forall. intros kv Hin. apply in_mem_str.
      destruct Hin as [<-|[<-|Hin]]; [left; reflexivity|right; left; reflexivity|].
      right. right. exact (opts_keys _ _ _ Hin). }
    assert (forallb (fun p => negb (snd p) || has (top_members n u vs) (fst p)) group_params = true) as Hb.
    { apply forallb_forall. intros p Hin. pose proof tables_required as Hr.
      rewrite forallb_forall in Hr. specialize (Hr p Hin). destruct (snd p); [|reflexivity].
      cbn [negb orb] in Hr |- *. unfold has, top_members. cbn [jget]. rewrite Hr. reflexivity. }
    rewrite Ha, Hb. reflexivity.
  Qed.

  Definition lower_top (g : xtop) : group_t :=
    {| g_name := JStr (xt_name g); g_uuid := JStr (xt_uuid g); g_opt := unopts ks (xt_attrs g) |}.

  Lemma load_emit_top g : load_group (emit_top g) = Ok (lower_top g).
  Proof.
    destruct g as [n u vs]. unfold load_group, emit_top. cbn [as_obj bind app xt_name xt_uuid xt_attrs].
    change ((k_name, JStr n) :: (k_uuid, JStr u) :: opts group_optional_attrs vs) with (top_members (JStr n) (JStr u) vs).
    rewrite check_group_kwargs. cbn [bind]. unfold lower_top. cbn [xt_name xt_uuid xt_attrs].
    destruct name_not_attr as [_ [_ Hnu]].
    unfold req, getd, top_members. cbn [jget]. rewrite !str_eqb_refl, Hnu. cbn [bind]. f_equal. f_equal.
    fold ks. rewrite <- (getd_opts ks vs).
    - apply map_ext_in. intros k Hin. destruct (attr_not_name k Hin) as [H1 H2]. rewrite H1, H2. reflexivity.
    - pose proof tables_distinct as H. cbn [strs_distinct] in H.
      apply andb_true_iff in H. destruct H as [_ H]. apply andb_true_iff in H. destruct H as [_ H]. exact H.
  Qed.

  Lemma render_lower_top g : render_group (lower_top g) = norm_group (emit_top g).
  Proof.
    destruct g as [n u vs]. unfold render_group, norm_group, emit_top, lower_top. cbn [g_name g_uuid g_opt xt_name xt_uuid xt_attrs app].
    fold ks. rewrite fold_drop. f_equal. destruct name_not_attr as [Hn [Hu _]]. fold ks in Hn, Hu.
    cbn [filter fst snd]. rewrite Hn, Hu. cbn [andb negb]. f_equal. f_equal.
    rewrite <- opts_filter. apply filter_ext_in. intros kv Hin. rewrite (in_mem_str _ _ (opts_keys _ _ _ Hin)). reflexivity.
  Qed.

  (* per-class round trip of a top-level group, attributes included *)
  Lemma top_group_roundtrip g :
    rmap render_group (load_group (emit_top g)) = Ok (norm_group (emit_top g)).
  Proof. rewrite load_emit_top. cbn [rmap]. rewrite render_lower_top. reflexivity. Qed.
End TopGroup.

(* ================================================================ documents that consist of groups:
   the whole pipeline from_dict -> validate -> render against norm *)
Definition groups_doc (gs : list xtop) (fields : list json) (site version : json) : xdoc :=
  {| xd_campaigns := []; xd_fields := fields; xd_flows := []; xd_groups := gs; xd_site := site;
     xd_triggers := []; xd_version := version |}.

(* a top-level group as validate() lists it: itself on a tree that carries the repair, reduced
   to name and uuid on a tree that does not *)
Definition kept_top (g : xtop) : xtop :=
  if validate_keeps_group_attrs then g else {| xt_name := xt_name g; xt_uuid := xt_uuid g; xt_attrs := [] |}.

(* no name twice, every group has a uuid *)
Fixpoint tops_distinct (gs : list xtop) : Prop :=
  match gs with
  | [] => True
  | g :: r => (forall h, In h r -> xt_name g <> xt_name h) /\ tops_distinct r
  end.
Definition tops_ok (gs : list xtop) : Prop := tops_distinct gs /\ forall g, In g gs -> xt_uuid g <> [].

Lemma lower_tops_ok gs : tops_ok gs -> own_groups_ok (map lower_top gs).
Proof.
  intros [Hd Hu]. split.
  - clear Hu. induction gs as [|g r IH]; [exact I|]. destruct Hd as [Hg Hr]. cbn [map names_distinct]. split; [|exact (IH Hr)].
    intros h Hin. apply in_map_iff in Hin. destruct Hin as [h0 [<- Hin]]. cbn [lower_top g_name].
    rewrite json_eqb_str. apply str_eqb_neq. exact (Hg h0 Hin).
  - intros g Hin. apply in_map_iff in Hin. destruct Hin as [g0 [<- Hin]]. cbn [lower_top g_name g_uuid].
    split; [eexists; reflexivity|]. apply truthy_str. exact (Hu g0 Hin).
Qed.

Lemma kept_lower g : kept_group (lower_top g) = lower_top (kept_top g).
Proof.
  unfold kept_group, kept_top. destruct validate_keeps_group_attrs; [reflexivity|].
  unfold strip_attrs, lower_top, no_attrs. cbn [g_name g_uuid xt_name xt_uuid xt_attrs]. rewrite unopts_nil. reflexivity.
Qed.

Lemma fill_missing_given d : (forall kv, In kv d -> truthy (snd kv) = true) -> fill_missing d = d.
Proof.
  intros H. unfold fill_missing. rewrite <- (map_id d) at 2. apply map_ext_in. intros [k v] Hin.
  pose proof (H (k, v) Hin) as E. cbn [snd] in E. unfold or_fresh. cbn [fst snd]. rewrite E. reflexivity.
Qed.

(* a container that holds groups only: validate() lists exactly them *)
Lemma validate_groups_only gs fields site version :
  own_groups_ok gs ->
  validate {| ct_campaigns := []; ct_fields := fields; ct_flows := []; ct_groups := gs; ct_site := site;
              ct_triggers := []; ct_version := version |}
  = Ok {| ct_campaigns := []; ct_fields := fields; ct_flows := []; ct_groups := map kept_group gs; ct_site := site;
          ct_triggers := []; ct_version := version |}.
Proof.
  intros [Hd Hg]. unfold validate, occs_container.
  cbn [ct_flows ct_campaigns ct_triggers ct_groups ct_fields ct_site ct_version mapM bind map concat flat_map app].
  rewrite app_nil_r.
  rewrite (record_own_groups gs {| flow_dict := []; group_dict := [] |}); [|intros g _; reflexivity|exact Hd].
  cbn [bind flow_dict group_dict app mapM].
  rewrite fill_missing_given.
  - rewrite (listed_own gs Hd (fun g Hin => proj1 (Hg g Hin))). reflexivity.
  - intros kv Hin. apply in_map_iff in Hin. destruct Hin as [g [<- Hin]]. exact (proj2 (Hg g Hin)).
Qed.

Lemma mapM_tops l : mapM load_group (map emit_top l) = Ok (map lower_top l).
Proof. apply mapM_map_ok. intros. apply load_emit_top. Qed.

(* the RapidProContainer constructor accepts the members an export carries besides flows/groups/campaigns *)
Lemma container_kwargs_ok a b c d :
  check_kwargs container_params [(k_fields, a); (k_site, b); (k_triggers, c); (k_version, d)] = Ok tt.
Proof. vm_compute. reflexivity. Qed.

Lemma from_dict_groups_doc gs fields site version :
  truthy site = true ->
  from_dict (emit (groups_doc gs fields site version))
  = Ok {| ct_campaigns := []; ct_fields := JArr fields; ct_flows := []; ct_groups := map lower_top gs; ct_site := site;
          ct_triggers := []; ct_version := version |}.
Proof.
  intros Hs. unfold from_dict, emit, groups_doc.
  cbn [xd_campaigns xd_fields xd_flows xd_groups xd_site xd_triggers xd_version map as_obj bind].
  pose proof (mapM_tops gs) as Hg. set (js := map emit_top gs) in *.
  unfold req. cbn. rewrite Hg. cbn [bind]. unfold or_else. rewrite Hs. destruct fields; reflexivity.
Qed.

(* THE DOCUMENT THEOREM for exports that consist of groups (any number, any subset of the optional
   attributes, null or not): from_dict -> validate -> render gives norm of the document as
   validate() keeps it — the document itself on a tree that carries the repair. *)
Theorem groups_doc_roundtrip gs fields site version :
  tops_ok gs -> truthy site = true ->
  roundtrip (emit (groups_doc gs fields site version))
  = Ok (norm (emit (groups_doc (map kept_top gs) fields site version))).
Proof.
  intros Hok Hs. unfold roundtrip, load. rewrite from_dict_groups_doc by exact Hs. cbn [bind].
  rewrite validate_groups_only by (apply lower_tops_ok; exact Hok). cbn [bind].
  unfold render. cbn [mapM bind map ct_campaigns ct_fields ct_flows ct_groups ct_site ct_triggers ct_version].
  assert (map render_group (map kept_group (map lower_top gs)) = map norm_group (map emit_top (map kept_top gs))) as Hg.
  { rewrite !map_map. apply map_ext. intros g. rewrite kept_lower. apply render_lower_top. }
  rewrite Hg. unfold emit, groups_doc.
  cbn [xd_campaigns xd_fields xd_flows xd_groups xd_site xd_triggers xd_version map].
  set (js := map emit_top (map kept_top gs)). unfold norm. cbn. reflexivity.
Qed.

Corollary groups_doc_roundtrip_repaired :
  validate_keeps_group_attrs = true ->
  forall gs fields site version, tops_ok gs -> truthy site = true ->
  roundtrip (emit (groups_doc gs fields site version)) = Ok (norm (emit (groups_doc gs fields site version))).
Proof.
  intros Hfix gs fields site version Hok Hs. rewrite groups_doc_roundtrip by assumption.
  assert (map kept_top gs = gs) as E.
  { rewrite <- (map_id gs) at 2. apply map_ext. intros g. unfold kept_top. rewrite Hfix. reflexivity. }
  rewrite E. reflexivity.
Qed.

(* non-vacuity: three groups — all four attributes (one of them null), one attribute, none — meet
   the hypotheses, and norm is not the identity on that document *)
Definition ex_tops : list xtop :=
  [ {| xt_name := [71]; xt_uuid := [103]; xt_attrs := [Some (s1 113); Some JNull; Some (JBool false); Some (JInt 0)] |};
    {| xt_name := [72]; xt_uuid := [104]; xt_attrs := [None; None; None; Some (JInt 12)] |};
    {| xt_name := [73]; xt_uuid := [105]; xt_attrs := [] |} ]%N.

Lemma groups_doc_nonvacuous :
  tops_ok ex_tops /\ truthy (s1 115) = true
  /\ norm (emit (groups_doc ex_tops [] (s1 115) (s1 49))) <> emit (groups_doc ex_tops [] (s1 115) (s1 49))
  /\ own_groups_ok (map lower_top ex_tops).
Proof.
  assert (tops_ok ex_tops) as Hok.
  { split.
    - cbn. repeat split; intros h Hin; repeat (destruct Hin as [<-|Hin]; [discriminate|]); destruct Hin.
    - intros g Hin. repeat (destruct Hin as [<-|Hin]; [discriminate|]). destruct Hin. }
  split; [exact Hok|]. split; [reflexivity|]. split; [|exact (lower_tops_ok _ Hok)].
  intros H. vm_compute in H. discriminate H.
Qed.

(* non-vacuity of validate_keeps_groups: two own groups with attributes, a flow whose action
   references one of them and a third group that is only referenced *)
Definition w_groups_mixed : json :=
  w_doc [JObj [(k_uuid, s1 110); (k_exits, JArr [w_exit 49]);
               (k_actions, JArr [JObj [(k_type, JStr k_add_contact_groups); (k_uuid, s1 97);
                                       (k_groups, JArr [JObj [(k_name, s1 82); (k_uuid, s1 114)];
                                                        JObj [(k_name, s1 71); (k_uuid, s1 103)]])]])]]
        [JObj [(k_name, s1 71); (k_uuid, s1 103); (k_query, s1 113)];
         JObj [(k_name, s1 72); (k_uuid, s1 104); (k_count, JInt 12)]].

Lemma validate_keeps_groups_nonvacuous :
  exists c c', from_dict w_groups_mixed = Ok c /\ own_groups_ok (ct_groups c) /\ validate c = Ok c'
               /\ length (ct_groups c) = 2 /\ length (ct_groups c') = 3
               /\ roundtrip w_groups_mixed
                  = Ok (if validate_keeps_group_attrs then
                          upd k_groups (fun g => match g with JArr l => JArr (l ++ [JObj [(k_name, s1 82); (k_uuid, s1 114)]]) | _ => g end)
                              (norm w_groups_mixed)
                        else upd k_groups (fun _ => JArr [JObj [(k_name, s1 71); (k_uuid, s1 103)];
                                                          JObj [(k_name, s1 72); (k_uuid, s1 104)];
                                                          JObj [(k_name, s1 82); (k_uuid, s1 114)]])
                                 (norm w_groups_mixed)).
Proof.
  destruct (from_dict w_groups_mixed) as [c|e] eqn:Ec; [|vm_compute in Ec; discriminate Ec].
  destruct (validate c) as [c'|e] eqn:Ev;
    [|vm_compute in Ec; injection Ec as <-; vm_compute in Ev; discriminate Ev].
  exists c, c'. split; [reflexivity|].
  vm_compute in Ec. injection Ec as <-. vm_compute in Ev. injection Ev as <-.
  split.
  - split.
    + cbn. repeat split; intros h Hin; repeat (destruct Hin as [<-|Hin]; [reflexivity|]); destruct Hin.
    + intros g Hin. repeat (destruct Hin as [<-|Hin]; [split; [eexists; reflexivity|reflexivity]|]). destruct Hin.
  - split; [reflexivity|]. split; [reflexivity|]. split; [reflexivity|].
    destruct validate_keeps_group_attrs eqn:E; by_probe E.
Qed.

(* every witness is loaded and rendered without error, and the second pass changes nothing *)
Lemma witnesses_idempotent' :
  forallb (fun w => match roundtrip w with
                    | Ok o => match roundtrip o with Ok o' => json_eqb o o' | Err _ => false end
                    | Err _ => false
                    end)
          [w_typed_field; w_group_attrs; w_groups_mixed; w_category_order; w_exit_order; w_shared_exit; w_canonical] = true.
Proof. vm_compute. reflexivity. Qed.
