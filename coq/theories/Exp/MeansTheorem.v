(* C04 — the theorem: for every flow of the family, the exported rows have a reference meaning, and it has the traces of
   the flow (labels matched up to the names the sheet does not fix: wildcards on the reference side). *)
From Coq Require Import String.
From Coq Require Import List NArith Bool Arith Lia Permutation.
From RPFT Require Import Base.Sexp Base.PyStr Base.PyStrFacts Base.SexpEq Base.Result Gen.Tables Flow.Lts Flow.Flow Flow.FlowFacts Flow.RowSem
     Exp.RefFlowFacts Exp.FlatSem Exp.ToRows Exp.RowIdFacts Exp.Means Exp.MeansFamily Exp.MeansSim Exp.MeansFacts Exp.MeansLocal
     Exp.MeansRouters Exp.MeansSwitch.
Import ListNotations.

Opaque no_args_tests short_types strip_excluded frm_field_headers.
Opaque loose_exit_rows pairs_follow_cases has_group_case_by_name split_rows_carry_save_name group_split_without_cases_exports.

(* the statement *)
Definition means {U} (ueqb : U -> U -> bool) (ustr : U -> str) (numbered strip_uuids : bool) (ns : list (node U)) : Prop :=
  forall rows, to_rows ueqb numbered ns = Ok rows ->
  exists ref, rowsem nab (abs_rows U ustr strip_uuids rows) = Some ref
    /\ (forall t, traces (flow_of U ustr ns) t -> exists t', traces ref t' /\ Forall2 (ematch sexp (fun a b => smatch b a)) t t')
    /\ (forall t, traces ref t -> exists t', traces (flow_of U ustr ns) t' /\ Forall2 (ematch sexp smatch) t t').

Lemma exec_ext {S} (L1 L2 : S -> kind sexp S) : (forall s, L1 s = L2 s) -> forall s t, exec sexp L1 s t -> exec sexp L2 s t.
Proof.
  intros H s t Hx. induction Hx as [s|s E|s n t E _ IH|s p n t E _ IH|s sg bs b0 n t E Hin _ IH].
  - apply ex_nil.
  - apply ex_end. rewrite <- H. exact E.
  - eapply ex_tau; [rewrite <- H; exact E|exact IH].
  - eapply ex_act; [rewrite <- H; exact E|exact IH].
  - eapply ex_dec; [rewrite <- H; exact E|exact Hin|exact IH].
Qed.

Lemma ematch_refl lm (Hr : forall x, lm x x = true) (t : list (event sexp)) : Forall2 (ematch sexp lm) t t.
Proof. induction t as [|e t IH]; constructor; [|exact IH]. destruct e; cbn; auto. Qed.

Lemma means_empty {U} (ueqb : U -> U -> bool) ustr nb strip : means ueqb ustr nb strip [].
Proof.
  intros rows H. cbn in H. injection H as <-. eexists. split; [reflexivity|].
  assert (E : forall s, lts_of_flow (flow_of U ustr []) s = lts_of_flow (to_flow st0) s) by (intros s; reflexivity).
  split; intros t Ht; exists t; (split; [|apply ematch_refl; intros x; apply smatch_refl]).
  - apply (exec_ext _ _ E _ _ Ht).
  - apply (exec_ext _ _ (fun s => eq_sym (E s)) _ _ Ht).
Qed.

Section Stage1.
Variable U : Type.
Variable ueqb : U -> U -> bool.
Hypothesis ueqb_spec : forall a b, ueqb a b = true <-> a = b.
Variable ustr : U -> str.
Hypothesis ustr_inj : forall a b, ustr a = ustr b -> a = b.
Hypothesis ustr_ne : forall a, ustr a <> [].

Lemma forallb_In {T} (p : T -> bool) l x : forallb p l = true -> In x l -> p x = true.
Proof. intros H Hx. rewrite forallb_forall in H. apply H, Hx. Qed.

(* stage 1: flows of nodes without routers: chains, joins, cycles; any number of actions per node (one with strip_uuids) *)
Theorem means_basic nb strip ns :
  exportable U ueqb ns = true -> basic_only U ns = true -> (strip = true -> single_rows U ns = true) ->
  means ueqb ustr nb strip ns.
Proof.
  intros He Hb Hs. destruct ns as [|n0 rest] eqn:Ens; [apply means_empty|]. rewrite <- Ens in *. intros rows Hrows.
  unfold exportable in He. apply andb_true_iff in He as [He Ho]. apply andb_true_iff in He as [_ Hok].
  destruct (means_rows U ueqb ueqb_spec ustr ustr_inj ustr_ne strip nb ns n0 rest rows Ens) as (ref & A & B & C); [|exact Ho|exact Hrows|].
  - intros m Hm. pose proof (forallb_In _ _ m Hb Hm) as Hk. cbv beta in Hk. destruct (n_kind m) as [d| |] eqn:Ek; try discriminate Hk.
    pose proof (forallb_In _ _ m Hok Hm) as Hn. unfold node_ok in Hn. rewrite Ek in Hn.
    apply andb_true_iff in Hn as [Hn H3]. apply andb_true_iff in Hn as [H1 H2].
    apply (basic_good U ueqb ustr strip m d Ek).
    + intros E. rewrite E in H1. discriminate.
    + intros a Ha. apply (forallb_In _ _ a H2 Ha).
    + intros a Ha. apply (forallb_In _ _ a H3 Ha).
    + intros Es. pose proof (forallb_In _ _ m (Hs Es) Hm) as Hl. apply Nat.leb_le in Hl. exact Hl.
  - exists ref. split; [exact A|]. split; [exact B|exact C].
Qed.
End Stage1.

(* ---------------------------------------------------------------- the whole family *)
Section Full.
Variable U : Type.
Variable ueqb : U -> U -> bool.
Hypothesis ueqb_spec : forall a b, ueqb a b = true <-> a = b.
Variable ustr : U -> str.
Hypothesis ustr_inj : forall a b, ustr a = ustr b -> a = b.
Hypothesis ustr_ne : forall a, ustr a <> [].
Hypothesis Hrep : repaired.
Notation P_loose := (rep_loose Hrep).
Notation P_cases := (rep_cases Hrep).
Notation P_save := (rep_save Hrep).
Notation P_group := (rep_group Hrep).

Lemma node_ok_good strip (m : node U) : node_ok U ueqb m = true -> (strip = true -> (List.length (n_actions m) <= 1)%nat) ->
  node_good U ueqb ustr strip m.
Proof.
  intros Hn Hs. unfold node_ok in Hn. destruct (n_kind m) as [d|kd r|res cats] eqn:Ek.
  - apply andb_true_iff in Hn as [Hn H3]. apply andb_true_iff in Hn as [H1 H2].
    apply (basic_good U ueqb ustr strip m d Ek).
    + intros E. rewrite E in H1. discriminate.
    + intros a Ha. apply (forallb_In _ _ a H2 Ha).
    + intros a Ha. apply (forallb_In _ _ a H3 Ha).
    + exact Hs.
  - destruct kd.
    + apply andb_true_iff in Hn as [H1 H2]. assert (Ha : n_actions m = []) by (destruct (n_actions m); [reflexivity|discriminate]).
      apply (switch_good U ueqb ueqb_spec ustr strip Hrep m r Ek Ha H2).
    + destruct (n_actions m) as [|a [|a' l]] eqn:Ea; try discriminate Hn; destruct a; try discriminate Hn.
      apply andb_true_iff in Hn as [H1 H2]. eapply enter_good; eauto.
    + destruct (n_actions m) as [|a [|a' l]] eqn:Ea; try discriminate Hn; destruct a; try discriminate Hn.
      apply andb_true_iff in Hn as [H1 H2]. destruct (field_key_chk result) as [key|] eqn:Ekey; [|discriminate].
      eapply webhook_good; eauto.
    + destruct (n_actions m) as [|a [|a' l]] eqn:Ea; try discriminate Hn; destruct a; try discriminate Hn.
      apply andb_true_iff in Hn as [H1 H2]. destruct (field_key_chk result) as [key|] eqn:Ekey; [|discriminate].
      eapply airtime_good; eauto.
  - apply andb_true_iff in Hn as [H1 H2]. assert (Ha : n_actions m = []) by (destruct (n_actions m); [reflexivity|discriminate]).
    unfold random_ok in H2. apply andb_true_iff in H2 as [H2 H5]. apply andb_true_iff in H2 as [H3 H4].
    eapply (random_good U ueqb ueqb_spec ustr strip); eauto.
    + intros c Hc E. pose proof (forallb_In _ _ c H3 Hc) as Hx. cbv beta in Hx. rewrite E in Hx. discriminate.
    + apply (nodupb_NoDup str_eqb); [intros a b ->; apply str_eqb_refl|exact H4].
    + apply (nodupb_NoDup ueqb); [intros a b ->; apply ueqb_spec; reflexivity|exact H5].
Qed.

(* THE THEOREM.  Every flow of the family: basic nodes with any actions, switch routers (wait / timeout / no response, value
   and group splits, unconnected cases), random routers, enter-flow / webhook / airtime nodes, joins, cycles. *)
Theorem means_exportable nb strip ns :
  exportable U ueqb ns = true -> (strip = true -> single_rows U ns = true) -> means ueqb ustr nb strip ns.
Proof.
  intros He Hs. destruct ns as [|n0 rest] eqn:Ens; [apply means_empty|]. rewrite <- Ens in *. intros rows Hrows.
  unfold exportable in He. apply andb_true_iff in He as [He Ho]. apply andb_true_iff in He as [_ Hok].
  destruct (means_rows U ueqb ueqb_spec ustr ustr_inj ustr_ne strip nb ns n0 rest rows Ens) as (ref & A & B & C); [|exact Ho|exact Hrows|].
  - intros m Hm. apply node_ok_good; [apply (forallb_In _ _ m Hok Hm)|].
    intros Es. pose proof (forallb_In _ _ m (Hs Es) Hm) as Hl. apply Nat.leb_le in Hl. exact Hl.
  - exists ref. split; [exact A|]. split; [exact B|exact C].
Qed.
End Full.

Theorem to_rows_means_flow_partial :
  loose_exit_rows = true -> pairs_follow_cases = true -> split_rows_carry_save_name = true -> group_split_without_cases_exports = true ->
  forall (U : Type) (ueqb : U -> U -> bool), (forall a b, ueqb a b = true <-> a = b) ->
  forall (ustr : U -> str), (forall a b, ustr a = ustr b -> a = b) -> (forall a, ustr a <> []) ->
  forall numbered strip_uuids (ns : list (node U)),
    exportable U ueqb ns = true -> (strip_uuids = true -> single_rows U ns = true) ->
    forall rows, to_rows ueqb numbered ns = Ok rows ->
    exists ref, rowsem nab (abs_rows U ustr strip_uuids rows) = Some ref
      /\ (forall t, traces (flow_of U ustr ns) t -> exists t', traces ref t' /\ Forall2 (ematch sexp (fun a b => smatch b a)) t t')
      /\ (forall t, traces ref t -> exists t', traces (flow_of U ustr ns) t' /\ Forall2 (ematch sexp smatch) t t').
Proof.
  intros P1 P2 P3 P4 U ueqb Hu ustr Hi Hn nb strip ns. exact (means_exportable U ueqb Hu ustr Hi Hn (rep_intro P1 P2 P3 P4) nb strip ns).
Qed.

(* ---------------------------------------------------------------- examples (uuids = naturals) *)
Lemma ustrN_inj a b : ustrN a = ustrN b -> a = b.
Proof. unfold ustrN. intros H. injection H as H. apply dec_of_N_inj, H. Qed.
Lemma ustrN_ne a : ustrN a <> [].
Proof. discriminate. Qed.
Lemma Neqb_spec a b : N.eqb a b = true <-> a = b.
Proof. apply N.eqb_eq. Qed.

Definition ex_msg (u : N) (txt : string) (dest : option N) : node N :=
  {| n_uuid := u; n_actions := [ActSendMsg N (lit_fn txt) [] [] None]; n_ui := None; n_kind := NBasic N dest |}.

(* a join and a cycle: 1 -> 2 -> 3 -> 2 (node 2 is entered from 1 and from 3); node 3 has two actions *)
Definition ex_cycle : list (node N) :=
  [ ex_msg 1 "one" (Some 2%N); ex_msg 2 "two" (Some 3%N);
    {| n_uuid := 3%N; n_actions := [ActSendMsg N (lit "three") [] [] None; ActSetField N (lit "Field") (lit "v")]; n_ui := None;
       n_kind := NBasic N (Some 2%N) |} ].

Definition ref_size (ns : list (node N)) : option nat :=
  match to_rows N.eqb false ns with
  | Ok rows => option_map (fun f => List.length (f_nodes f)) (rowsem nab (abs_rows N ustrN false rows))
  | Err _ => None
  end.

Definition ex_cycle_rows : list (str * str) :=
  [(lit "msg.one", lit "send_message"); (lit "msg.two", lit "send_message"); (lit "msg.three", lit "send_message");
   (lit "msg.three.1", lit "save_value"); (lit "goto.msg.two", lit "go_to")].

(* row ids and row types of the export *)
Definition export_skel (ns : list (node N)) : res (list (str * str)) :=
  rmap (map (fun r => (r_id r, r_type r))) (to_rows N.eqb false ns).

Lemma ex_cycle_exportable :
  exportable N N.eqb ex_cycle = true /\ basic_only N ex_cycle = true
  /\ export_skel ex_cycle = Ok ex_cycle_rows
  /\ ref_size ex_cycle = Some 3%nat.
Proof. vm_compute. repeat split; reflexivity. Qed.

(* a wait_for_response router with a timeout, two cases (one of them leading nowhere: a loose_exit row), a join (4 is entered
   from 2 and from 3) and a cycle (the default branch goes back to 1), a random router and a webhook node *)
Definition ex_cat (u : N) (nm : string) (d : option N) : category N := {| c_uuid := u; c_name := lit_fn nm; c_dest := d |}.
Definition ex_case (tp v : string) (cat : N) : rcase N := {| k_type := lit_fn tp; k_group := None; k_args := [lit_fn v]; k_cat := cat |}.
Definition ex_router : list (node N) :=
  [ ex_msg 1 "hello" (Some 2%N);
    {| n_uuid := 2%N; n_actions := []; n_ui := None;
       n_kind := NRouter N KSwitch
         {| sw_operand := lit "@input.text"; sw_result := lit "answer"; sw_wait := Some 300%N;
            sw_cases := [ex_case "has_any_word" "a" 21; ex_case "has_any_word" "b" 22; ex_case "has_phrase" "c" 23];
            sw_cats := [ex_cat 21 "A" (Some 3%N); ex_cat 22 "B" (Some 4%N); ex_cat 23 "C" None];
            sw_default := ex_cat 24 "Other" (Some 1%N);
            sw_noresp := Some (ex_cat 25 "No Response" (Some 5%N)) |} |};
    ex_msg 3 "three" (Some 4%N);
    {| n_uuid := 4%N; n_actions := []; n_ui := None;
       n_kind := NRandom N (lit "pick") [ex_cat 41 "Bucket 1" None; ex_cat 42 "Bucket 2" (Some 5%N)] |};
    {| n_uuid := 5%N; n_actions := [ActWebhook N (lit "http://x") (lit "POST") (lit "body") [] (lit "hook")]; n_ui := None;
       n_kind := NRouter N KWebhook
         {| sw_operand := lit "@results.hook.category"; sw_result := []; sw_wait := None;
            sw_cases := [ex_case "has_only_text" "Success" 51];
            sw_cats := [ex_cat 51 "Success" None]; sw_default := ex_cat 52 "Failure" (Some 1%N); sw_noresp := None |} |} ].

Definition ex_router_rows : list (str * str) :=
  [(lit "msg.hello", lit "send_message"); (lit "wait_for.answer", lit "wait_for_response"); (lit "msg.three", lit "send_message");
   (lit "random.pick", lit "split_random"); (lit "exit.random.pick", lit "loose_exit"); (lit "exit.wait_for.answer", lit "loose_exit");
   (lit "goto.msg.hello", lit "go_to"); (lit "webhook.httpx", lit "call_webhook"); (lit "goto.msg.hello.1", lit "go_to")].

(* the examples with routers are about the repaired tree (the probes are regenerated from the tree under check) *)
Definition all_repairs : bool :=
  loose_exit_rows && pairs_follow_cases && split_rows_carry_save_name && group_split_without_cases_exports.

Lemma ex_router_exportable :
  if all_repairs then
    exportable N N.eqb ex_router = true /\ export_skel ex_router = Ok ex_router_rows /\ ref_size ex_router = Some 5%nat
    /\ means_check N N.eqb ustrN false false ex_router = 4%N /\ means_check N N.eqb ustrN true true ex_router = 4%N
  else True.
Proof. vm_compute. first [exact I | repeat split; reflexivity]. Qed.
