(* C04 — the theorem: for every flow of the family, the exported rows have a reference meaning, and it has the traces of
   the flow (labels matched up to the names the sheet does not fix: wildcards on the reference side). *)
From Coq Require Import String.
From Coq Require Import List NArith Bool Arith Lia Permutation.
From RPFT Require Import Base.Sexp Base.PyStr Base.PyStrFacts Base.SexpEq Base.Result Gen.Tables Flow.Lts Flow.Flow Flow.FlowFacts Flow.RowSem
     Exp.RefFlowFacts Exp.FlatSem Exp.ToRows Exp.RowIdFacts Exp.Means Exp.MeansFamily Exp.MeansSim Exp.MeansFacts Exp.MeansLocal.
Import ListNotations.

Opaque no_args_tests short_types strip_excluded frm_field_headers.
Opaque loose_exit_rows pairs_follow_cases has_group_case_by_name split_rows_carry_save_name group_split_without_cases_exports.

(* the statement *)
Definition means {U} (ueqb : U -> U -> bool) (ustr : U -> str) (numbered strip_uuids : bool) (ns : list (node U)) : Prop :=
  forall rows, to_rows ueqb numbered ns = Ok rows ->
  exists ref, rowsem nab (abs_rows U ustr strip_uuids rows) = Some ref
    /\ (forall t, traces (flow_of U ustr ns) t -> exists t', traces ref t' /\ Forall2 (ematch sexp (fun a b => smatch b a)) t t')
    /\ (forall t, traces ref t -> exists t', traces (flow_of U ustr ns) t' /\ Forall2 (ematch sexp smatch) t t').

Lemma exec_ext {S} (L1 L2 : S -> kind sexp S) : (forall s, L1 s = L2 s) -> forall s t, exec sexp L1 s t -> exec sexp L2 s t.
Proof.
  intros H s t Hx. induction Hx as [s|s E|s n t E _ IH|s p n t E _ IH|s sg bs b0 n t E Hin _ IH].
  - apply ex_nil.
  - apply ex_end. rewrite <- H. exact E.
  - eapply ex_tau; [rewrite <- H; exact E|exact IH].
  - eapply ex_act; [rewrite <- H; exact E|exact IH].
  - eapply ex_dec; [rewrite <- H; exact E|exact Hin|exact IH].
Qed.

Lemma ematch_refl lm (Hr : forall x, lm x x = true) (t : list (event sexp)) : Forall2 (ematch sexp lm) t t.
Proof. induction t as [|e t IH]; constructor; [|exact IH]. destruct e; cbn; auto. Qed.

Lemma means_empty {U} (ueqb : U -> U -> bool) ustr nb strip : means ueqb ustr nb strip [].
Proof.
  intros rows H. cbn in H. injection H as <-. eexists. split; [reflexivity|].
  assert (E : forall s, lts_of_flow (flow_of U ustr []) s = lts_of_flow (to_flow st0) s) by (intros s; reflexivity).
  split; intros t Ht; exists t; (split; [|apply ematch_refl; intros x; apply smatch_refl]).
  - apply (exec_ext _ _ E _ _ Ht).
  - apply (exec_ext _ _ (fun s => eq_sym (E s)) _ _ Ht).
Qed.

Section Stage1.
Variable U : Type.
Variable ueqb : U -> U -> bool.
Hypothesis ueqb_spec : forall a b, ueqb a b = true <-> a = b.
Variable ustr : U -> str.
Hypothesis ustr_inj : forall a b, ustr a = ustr b -> a = b.
Hypothesis ustr_ne : forall a, ustr a <> [].

Lemma forallb_In {T} (p : T -> bool) l x : forallb p l = true -> In x l -> p x = true.
Proof. intros H Hx. rewrite forallb_forall in H. apply H, Hx. Qed.

(* stage 1: flows of nodes without routers: chains, joins, cycles; any number of actions per node (one with strip_uuids) *)
Theorem means_basic nb strip ns :
  exportable U ueqb ns = true -> basic_only U ns = true -> (strip = true -> single_rows U ns = true) ->
  means ueqb ustr nb strip ns.
Proof.
  intros He Hb Hs. destruct ns as [|n0 rest] eqn:Ens; [apply means_empty|]. rewrite <- Ens in *. intros rows Hrows.
  unfold exportable in He. apply andb_true_iff in He as [He Ho]. apply andb_true_iff in He as [_ Hok].
  destruct (means_rows U ueqb ueqb_spec ustr ustr_inj ustr_ne strip nb ns n0 rest rows Ens) as (ref & A & B & C); [|exact Ho|exact Hrows|].
  - intros m Hm. pose proof (forallb_In _ _ m Hb Hm) as Hk. cbv beta in Hk. destruct (n_kind m) as [d| |] eqn:Ek; try discriminate Hk.
    pose proof (forallb_In _ _ m Hok Hm) as Hn. unfold node_ok in Hn. rewrite Ek in Hn.
    apply andb_true_iff in Hn as [Hn H3]. apply andb_true_iff in Hn as [H1 H2].
    apply (basic_good U ueqb ustr strip m d Ek).
    + intros E. rewrite E in H1. discriminate.
    + intros a Ha. apply (forallb_In _ _ a H2 Ha).
    + intros a Ha. apply (forallb_In _ _ a H3 Ha).
    + intros Es. pose proof (forallb_In _ _ m (Hs Es) Hm) as Hl. apply Nat.leb_le in Hl. exact Hl.
  - exists ref. split; [exact A|]. split; [exact B|exact C].
Qed.
End Stage1.

(* ---------------------------------------------------------------- examples (uuids = naturals) *)
Lemma ustrN_inj a b : ustrN a = ustrN b -> a = b.
Proof. unfold ustrN. intros H. injection H as H. apply dec_of_N_inj, H. Qed.
Lemma ustrN_ne a : ustrN a <> [].
Proof. discriminate. Qed.
Lemma Neqb_spec a b : N.eqb a b = true <-> a = b.
Proof. apply N.eqb_eq. Qed.

Definition ex_msg (u : N) (txt : string) (dest : option N) : node N :=
  {| n_uuid := u; n_actions := [ActSendMsg N (lit_fn txt) [] [] None]; n_ui := None; n_kind := NBasic N dest |}.

(* a join and a cycle: 1 -> 2 -> 3 -> 2 (node 2 is entered from 1 and from 3); node 3 has two actions *)
Definition ex_cycle : list (node N) :=
  [ ex_msg 1 "one" (Some 2%N); ex_msg 2 "two" (Some 3%N);
    {| n_uuid := 3%N; n_actions := [ActSendMsg N (lit "three") [] [] None; ActSetField N (lit "Field") (lit "v")]; n_ui := None;
       n_kind := NBasic N (Some 2%N) |} ].

Definition ref_size (ns : list (node N)) : option nat :=
  match to_rows N.eqb false ns with
  | Ok rows => option_map (fun f => List.length (f_nodes f)) (rowsem nab (abs_rows N ustrN false rows))
  | Err _ => None
  end.

Definition ex_cycle_rows : list (str * str) :=
  [(lit "msg.one", lit "send_message"); (lit "msg.two", lit "send_message"); (lit "msg.three", lit "send_message");
   (lit "msg.three.1", lit "save_value"); (lit "goto.msg.two", lit "go_to")].

(* row ids and row types of the export *)
Definition export_skel (ns : list (node N)) : res (list (str * str)) :=
  rmap (map (fun r => (r_id r, r_type r))) (to_rows N.eqb false ns).

Lemma ex_cycle_exportable :
  exportable N N.eqb ex_cycle = true /\ basic_only N ex_cycle = true
  /\ export_skel ex_cycle = Ok ex_cycle_rows
  /\ ref_size ex_cycle = Some 3%nat.
Proof. vm_compute. repeat split; reflexivity. Qed.
