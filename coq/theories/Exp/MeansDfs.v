(* C04 — the depth-first export (Exp/ToRows.v: visit) as a big-step relation, so that its invariants are proved
   by rule induction.  [Visit n pe st st'] : visiting node n (reached through edge pe) from state st ends in st'.
   Each rule carries the run of [visit] it stands for, so the facts of RowIdFacts.v (stated about [visit]) apply
   at every rule. *)
From Coq Require Import String.
From Coq Require Import List NArith Bool Arith Lia Permutation.
From RPFT Require Import Base.Sexp Base.PyStr Base.PyStrFacts Base.Result Gen.Tables Exp.ToRows Exp.RowIdFacts.
Import ListNotations.

Opaque no_args_tests short_types strip_excluded frm_field_headers.
Opaque loose_exit_rows pairs_follow_cases has_group_case_by_name split_rows_carry_save_name group_split_without_cases_exports.

Section Dfs.
Variable U : Type.
Variable ueqb : U -> U -> bool.
Hypothesis ueqb_spec : forall a b, ueqb a b = true <-> a = b.
Variable nodes : list (node U).

Notation tidU := (tid U).
Notation trow := (row U (tid U)).
Notation pair := (option U * edge U (tid U))%type.

Definition nkeep (n : node U) : bool := loose_exit_rows && has_free_cases n.

Definition push_row (st : state U) (r : trow) : state U :=
  {| st_vis := st_vis st; st_done := st_done st; st_rows := r :: st_rows st; st_k := S (st_k st) |}.
Definition with_rows (st : state U) (rows : list trow) : state U :=
  {| st_vis := st_vis st; st_done := st_done st; st_rows := rows; st_k := st_k st |}.
Definition enter (st : state U) (u : U) : state U :=
  {| st_vis := u :: st_vis st; st_done := st_done st; st_rows := st_rows st; st_k := st_k st |}.
Definition leave (st' : state U) (u : U) (rms : list trow) : state U :=
  {| st_vis := st_vis st'; st_done := u :: st_done st'; st_rows := rms ++ st_rows st'; st_k := st_k st' |}.

Inductive Step : node U -> str -> state U -> pair -> state U -> Prop :=
| Step_drop n sn st e :
    nkeep n && negb (cond_blank (e_cond e)) = false -> Step n sn st (None, e) st
| Step_loose n sn st e :
    nkeep n && negb (cond_blank (e_cond e)) = true -> Step n sn st (None, e) (push_row st (loose_row (st_k st) sn e))
| Step_done n sn st d e child csn rows' :
    find_node ueqb nodes d = Some child -> In (n_uuid child) (st_done st) -> short_name child = Ok csn ->
    prepend_edge ueqb (TNode (n_uuid child) csn) e (st_rows st) = Some rows' ->
    Step n sn st (Some d, e) (with_rows st rows')
| Step_goto n sn st d e child csn :
    find_node ueqb nodes d = Some child -> ~ In (n_uuid child) (st_done st) -> In (n_uuid child) (st_vis st) ->
    short_name child = Ok csn ->
    Step n sn st (Some d, e) (push_row st (goto_row (st_k st) (TNode (n_uuid child) csn) csn e))
| Step_visit n sn st d e child st' fuel :
    find_node ueqb nodes d = Some child -> ~ In (n_uuid child) (st_done st) -> ~ In (n_uuid child) (st_vis st) ->
    visit ueqb nodes fuel child e st = Ok st' ->
    Visit child e st st' -> Step n sn st (Some d, e) st'
with Steps : node U -> str -> state U -> list pair -> state U -> Prop :=
| Steps_nil n sn st : Steps n sn st [] st
| Steps_cons n sn st p st1 rest st2 : Step n sn st p st1 -> Steps n sn st1 rest st2 -> Steps n sn st (p :: rest) st2
with Visit : node U -> edge U tidU -> state U -> state U -> Prop :=
| Visit_intro n pe st sn rms prs st' :
    short_name n = Ok sn -> initiate_row_models n sn pe = Ok rms ->
    exit_edge_pairs ueqb n (last_row_id n sn) = Ok prs ->
    Steps n sn (enter st (n_uuid n)) (rev prs) st' ->
    Visit n pe st (leave st' (n_uuid n) rms).

Scheme Step_mind := Minimality for Step Sort Prop
  with Steps_mind := Minimality for Steps Sort Prop
  with Visit_mind := Minimality for Visit Sort Prop.
Combined Scheme dfs_mind from Step_mind, Steps_mind, Visit_mind.

Lemma state_eta (st : state U) : st = {| st_vis := st_vis st; st_done := st_done st; st_rows := st_rows st; st_k := st_k st |}.
Proof. destruct st; reflexivity. Qed.

Lemma visit_Visit : forall fuel n pe st st', visit ueqb nodes fuel n pe st = Ok st' -> Visit n pe st st'.
Proof.
  induction fuel as [|fuel IH]; intros n pe st st' H; cbn [visit] in H; [discriminate|].
  destruct (short_name n) as [sn|e] eqn:Esn; cbn [bind] in H; [|discriminate].
  destruct (initiate_row_models n sn pe) as [rms|e] eqn:Ei; cbn [bind] in H; [|discriminate].
  destruct (exit_edge_pairs ueqb n (last_row_id n sn)) as [prs|e] eqn:Ee; cbn [bind] in H; [|discriminate].
  destruct (foldM _ (rev prs) _) as [st1|e] eqn:Ef; cbn [bind] in H; [|discriminate].
  inversion H; subst st'. apply (Visit_intro n pe st sn rms prs st1 Esn Ei Ee).
  change (Steps n sn (enter st (n_uuid n)) (rev prs) st1).
  change {| st_vis := n_uuid n :: st_vis st; st_done := st_done st; st_rows := st_rows st; st_k := st_k st |}
    with (enter st (n_uuid n)) in Ef.
  change (loose_exit_rows && has_free_cases n) with (nkeep n) in Ef.
  revert Ef. generalize (enter st (n_uuid n)). generalize (rev prs). clear -IH ueqb_spec.
  induction l as [|p rest IHl]; intros s Ef; cbn [foldM] in Ef.
  - inversion Ef; subst. constructor.
  - destruct (step_fx ueqb nodes (nkeep n) sn (visit ueqb nodes fuel) s p) as [s1|e] eqn:Es; [|discriminate].
    apply (Steps_cons n sn s p s1); [|apply IHl, Ef].
    destruct p as [d e]. unfold step_fx in Es. cbn [fst snd] in Es. destruct d as [d|].
    + unfold step in Es. cbn [fst snd] in Es.
      destruct (find_node ueqb nodes d) as [child|] eqn:Efn; [|discriminate].
      destruct (mem_u ueqb (n_uuid child) (st_done s)) eqn:Ed.
      * destruct (short_name child) as [csn|er] eqn:Ecs; cbn [bind] in Es; [|discriminate].
        destruct (prepend_edge ueqb _ e (st_rows s)) as [rows'|] eqn:Ep; [|discriminate].
        inversion Es; subst s1. apply (Step_done n sn s d e child csn rows' Efn (mem_u_true U ueqb ueqb_spec _ _ Ed) Ecs Ep).
      * destruct (mem_u ueqb (n_uuid child) (st_vis s)) eqn:Ev.
        -- destruct (short_name child) as [csn|er] eqn:Ecs; cbn [bind] in Es; [|discriminate].
           inversion Es; subst s1.
           apply (Step_goto n sn s d e child csn Efn (mem_u_false U ueqb ueqb_spec _ _ Ed) (mem_u_true U ueqb ueqb_spec _ _ Ev) Ecs).
        -- apply (Step_visit n sn s d e child s1 fuel Efn (mem_u_false U ueqb ueqb_spec _ _ Ed) (mem_u_false U ueqb ueqb_spec _ _ Ev) Es).
           apply IH, Es.
    + destruct (nkeep n && negb (cond_blank (e_cond e))) eqn:Ek; inversion Es; subst s1.
      * apply Step_loose, Ek.
      * apply Step_drop, Ek.
Qed.

End Dfs.
