(* E8 — facts about load/render/norm over the supported schema (ExportDoc.v). *)
From Coq Require Import List NArith ZArith Bool Lia.
From RPFT Require Import Base.Sexp Base.PyStr Base.Result Base.Json Gen.Tables Exp.Load Exp.Render Exp.ExportDoc.
Import ListNotations.

Arguments truthy !j.
Arguments json_eqb !a !b.
Arguments is_null !j.

(* ================================================================ generic lemmas *)
Lemma str_eqb_refl s : str_eqb s s = true.
Proof. induction s as [|c r IH]; cbn; [reflexivity|]. rewrite N.eqb_refl. exact IH. Qed.

Lemma str_eqb_eq s t : str_eqb s t = true -> s = t.
Proof.
  revert t. induction s as [|c r IH]; intros [|d t]; cbn; intros H; try discriminate; [reflexivity|].
  apply andb_true_iff in H. destruct H as [H1 H2]. apply N.eqb_eq in H1. subst. f_equal. apply IH, H2.
Qed.

Lemma str_eqb_neq s t : s <> t -> str_eqb s t = false.
Proof. intros H. destruct (str_eqb s t) eqn:E; [apply str_eqb_eq in E; contradiction|reflexivity]. Qed.

Lemma json_eqb_str a b : json_eqb (JStr a) (JStr b) = str_eqb a b.
Proof. reflexivity. Qed.

Lemma truthy_str s : s <> [] -> truthy (JStr s) = true.
Proof. destruct s; [congruence|reflexivity]. Qed.

Lemma mapM_map_ok {E S T U} (f : T -> result E U) (g : S -> T) (h : S -> U) (l : list S) :
  (forall x, In x l -> f (g x) = Ok (h x)) -> mapM f (map g l) = Ok (map h l).
Proof.
  induction l as [|x r IH]; intros H; cbn; [reflexivity|].
  rewrite (H x (or_introl eq_refl)). rewrite IH; [reflexivity|]. intros y Hy. apply H. right. exact Hy.
Qed.

Lemma mapM_ok_map {E S U} (f : S -> result E U) (h : S -> U) (l : list S) :
  (forall x, In x l -> f x = Ok (h x)) -> mapM f l = Ok (map h l).
Proof.
  intros H. rewrite <- (map_id l) at 1. apply mapM_map_ok. exact H.
Qed.

Lemma mapM_ok_id {E S} (f : S -> result E S) (l : list S) :
  (forall x, In x l -> f x = Ok x) -> mapM f l = Ok l.
Proof. intros H. rewrite (mapM_ok_map f (fun x => x)); [rewrite map_id; reflexivity|exact H]. Qed.

Lemma is_null_true v : is_null v = true -> v = JNull.
Proof. destruct v; cbn; congruence. Qed.

(* ================================================================ leaves *)
Definition lower_exit (x : xexit) : exit_t :=
  {| e_uuid := JStr (xe_uuid x); e_dest := match xe_dest x with Some v => v | None => JNull end |}.

Definition wf_exit (x : xexit) : Prop :=
  xe_uuid x <> [] /\ forall v, xe_dest x = Some v -> json_eqb v (JStr k_HARD_EXIT) = false.

Lemma load_emit_exit x : wf_exit x -> load_exit (emit_exit x) = Ok (lower_exit x).
Proof.
  destruct x as [u [d|]]; intros [Hu _]; unfold load_exit, lower_exit; cbn;
    unfold or_fresh; rewrite (truthy_str u Hu); reflexivity.
Qed.

Lemma render_lower_exit x : wf_exit x -> render_exit (lower_exit x) = norm_exit (emit_exit x).
Proof.
  destruct x as [u [d|]]; intros [_ Hd]; unfold render_exit, lower_exit; cbn.
  - rewrite (Hd d eq_refl). reflexivity.
  - reflexivity.
Qed.

Definition lower_group (g : xgroup) : group_t :=
  {| g_name := JStr (xg_name g); g_uuid := JStr (xg_uuid g); g_opt := map (fun _ => JNull) group_optional_attrs |}.

Lemma load_emit_group g : load_group (emit_group g) = Ok (lower_group g).
Proof. destruct g as [n u]. reflexivity. Qed.

Lemma render_lower_group g : render_group (lower_group g) = norm_group (emit_group g).
Proof. destruct g as [n u]. reflexivity. Qed.

Lemma norm_emit_group g : norm_group (emit_group g) = emit_group g.
Proof. destruct g as [n u]. reflexivity. Qed.

Definition lower_flowref (f : xflowref) : flowref_t := {| fr_name := JStr (xr_name f); fr_uuid := JStr (xr_uuid f) |}.

Lemma load_emit_flowref f : load_flowref (emit_flowref f) = Ok (lower_flowref f).
Proof. destruct f as [n u]. reflexivity. Qed.

Lemma render_lower_flowref f : render_flowref (lower_flowref f) = emit_flowref f.
Proof. destruct f as [n u]. reflexivity. Qed.

(* ================================================================ actions *)
Definition members_of (j : json) : members := match j with JObj m => m | _ => [] end.

Definition lower_field (f : xfield) : fieldref_t :=
  {| cf_name := xf_name f; cf_key := xf_key f; cf_type := match xf_type f with Some v => v | None => JNull end |}.

Definition lower_action (a : xaction) : action_t :=
  let d := members_of (emit_action a) in
  match a with
  | XPass d => APass d
  | XSend _ _ _ _ _ _ tm => ASendMsg (remove_key d k_templating) tm
  | XSetField _ f _ => ASetField d (lower_field f)
  | XSetProp p _ v => ASetProp d p v
  | XGroups rm _ gs _ => AGroups rm d (map lower_group gs)
  | XRunResult _ _ _ c => ARunResult d (match c with Some v => v | None => JStr [] end)
  | XEnterFlow _ f => AEnterFlow d (lower_flowref f)
  end.

(* the regenerated action_map still sends the typed kinds to the classes the mirror has *)
Definition action_tables_ok : bool :=
  match lookup_cls k_send_msg action_map, lookup_cls k_set_contact_field action_map,
        lookup_cls k_add_contact_groups action_map, lookup_cls k_remove_contact_groups action_map,
        lookup_cls k_set_run_result action_map, lookup_cls k_enter_flow action_map with
  | Some CSendMsg, Some CSetField, Some CAddGroups, Some CRemoveGroups, Some CRunResult, Some CEnterFlow => true
  | _, _, _, _, _, _ => false
  end
  && forallb (fun p => match lookup_cls (k_set_contact_ ++ p) action_map with Some CSetProp => true | _ => false end)
             set_contact_properties
  && forallb (fun kc => match snd kc with
                        | CSetProp => match drop_prefix k_set_contact_ (fst kc) with
                                      | Some p => mem_str p set_contact_properties
                                      | None => false
                                      end
                        | _ => true
                        end) action_map
  && forallb (fun t => mem_str t test_names) no_args_tests.

Lemma action_tables_ok_true : action_tables_ok = true.
Proof. vm_compute. reflexivity. Qed.

Definition is_pass (d : members) : Prop :=
  exists t, jget d k_type = Some (JStr t) /\ lookup_cls t action_map = Some CPass.

Definition wf_action (a : xaction) : Prop :=
  match a with
  | XPass d => is_pass d
  | XSend _ _ _ _ _ _ tm => forall t, tm = Some t -> truthy (tp_uuid t) = true
  | XSetField _ f _ => truthy (xf_key f) = true
  | XSetProp p _ _ => In p set_contact_properties
  | _ => True
  end.

Lemma load_emit_action a : wf_action a -> load_action (emit_action a) = Ok (lower_action a).
Proof.
  destruct a as [d|u tx att qr al tp tm|u f v|p u v|rm u gs ag|u n v c|u f]; cbn [wf_action]; intros H.
  - destruct H as [t [H1 H2]]. unfold load_action. cbn [emit_action as_obj bind]. rewrite H1. cbn [bind]. rewrite H2. reflexivity.
  - destruct al as [al|], tp as [tp|], tm as [[tn tu ttu tv]|];
      try (specialize (H _ eq_refl); cbn in H);
      unfold load_action; cbn; unfold or_fresh; rewrite ?H; reflexivity.
  - destruct f as [fn fk [ft|]]; cbn in H; unfold load_action; cbn;
      unfold load_fieldref, mk_fieldref; cbn; rewrite H; reflexivity.
  - cbn in H. repeat (destruct H as [<-|H]; [reflexivity|]). destruct H.
  - unfold load_action. destruct rm, ag as [ag|]; cbn;
      rewrite (mapM_map_ok load_group emit_group lower_group) by (intros; apply load_emit_group); reflexivity.
  - destruct c as [c|]; reflexivity.
  - destruct f as [fn fu]. reflexivity.
Qed.

Definition drop_falsy (o : option json) : option json :=
  match o with Some v => if truthy v then Some v else None | None => None end.

(* the input class of the finding typed-contact-field-ref: a set_contact_field whose field
   reference has a (truthy) type.  [untyped_field a] excludes it. *)
Definition untyped_field (a : xaction) : Prop :=
  match a with
  | XSetField _ f _ => forall v, xf_type f = Some v -> truthy v = false
  | _ => True
  end.

(* The repair "fix: a typed contact field reference renders its own type" removes the
   restriction: on a tree that carries it (regenerated probe [fieldref_renders_own_type] = true)
   this is [True], on a tree that does not it is [untyped_field a]. *)
Definition typed_field_ok (a : xaction) : Prop :=
  if fieldref_renders_own_type then True else untyped_field a.

(* the proofs below hold whatever the probes say: keep them from being unfolded by cbn *)
Arguments fieldref_renders_own_type : simpl never.
Arguments validate_keeps_group_attrs : simpl never.
Arguments router_lists_shared_exit_once : simpl never.

Lemma render_lower_action a :
  wf_action a -> typed_field_ok a -> render_action (lower_action a) = Ok (norm_action (emit_action a)).
Proof.
  unfold typed_field_ok.
  destruct a as [d|u tx att qr al tp tm|u f v|p u v|rm u gs ag|u n v c|u f]; cbn [wf_action untyped_field]; intros H Hty.
  - (* pass-through: the whole dict comes back; norm leaves the kind alone *)
    destruct H as [t [H1 H2]]. cbn [lower_action render_action emit_action]. unfold norm_action, type_is. cbn [jfield]. rewrite H1.
    assert (forall k c, lookup_cls k action_map = Some c -> c <> CPass -> json_eqb (JStr t) (JStr k) = false) as Hne.
    { intros k c Hk Hc. rewrite json_eqb_str. apply str_eqb_neq. intros ->. rewrite H2 in Hk. congruence. }
    rewrite (Hne k_send_msg CSendMsg), (Hne k_set_run_result CRunResult), (Hne k_remove_contact_groups CRemoveGroups),
      (Hne k_add_contact_groups CAddGroups), (Hne k_set_contact_field CSetField); try reflexivity; discriminate.
  - destruct al as [al|], tp as [tp|], tm as [[tn tu ttu tv]|];
      cbn; unfold attr_truthy, falsy; cbn;
      repeat match goal with |- context [truthy ?x] => destruct (truthy x) eqn:? end; reflexivity.
  - destruct f as [fn fk [ft|]]; cbn; unfold render_fieldref, falsy; cbn.
    + (* a typed field reference: reproduced by the repaired code; before the repair only a
         falsy type is (the truthy case is typed_field_witness) *)
      destruct (truthy ft) eqn:Et; cbn; [|reflexivity].
      revert Hty. destruct fieldref_renders_own_type; intros Hty; [reflexivity|].
      rewrite (Hty ft eq_refl) in Et. discriminate Et.
    + reflexivity.
  - cbn in H. repeat (destruct H as [<-|H]; [reflexivity|]). destruct H.
  - destruct rm, ag as [ag|]; cbn; unfold attr_truthy, falsy; cbn;
      rewrite !map_map;
      try (destruct (truthy ag) eqn:?); cbn;
      repeat f_equal; apply map_ext; intros g; rewrite render_lower_group; reflexivity.
  - destruct c as [c|]; cbn; unfold falsy; [destruct (truthy c) eqn:?|]; reflexivity.
  - destruct f as [fn fu]. reflexivity.
Qed.

(* ================================================================ witnesses of the four defects
   (small concrete documents; identifiers are one- or two-character strings) *)
Definition s1 (a : N) : json := JStr [a].
Definition s2 (a b : N) : json := JStr [a; b].

Definition w_flow (nodes : list json) : json :=
  JObj [(k_uuid, s1 102); (k_name, s1 102); (k_language, s1 101); (k_type, s1 109); (k_nodes, JArr nodes);
        (k_spec_version, s1 49); (k_revision, JInt 0); (k_expire_after_minutes, JInt 5); (k_metadata, JObj []);
        (k_localization, JObj [])].
Definition w_doc (nodes groups : list json) : json :=
  JObj [(k_campaigns, JArr []); (k_fields, JArr []); (k_flows, JArr [w_flow nodes]); (k_groups, JArr groups);
        (k_site, s1 115); (k_triggers, JArr []); (k_version, s2 49 51)].
Definition w_exit (n : N) : json := JObj [(k_destination_uuid, JNull); (k_uuid, s2 101 n)].
Definition w_cat (n : N) (name : N) : json := JObj [(k_uuid, s2 99 n); (k_name, s1 name); (k_exit_uuid, s2 101 n)].
Definition w_switch_node (cats exits : list json) (default : N) : json :=
  JObj [(k_uuid, s1 110); (k_exits, JArr exits); (k_actions, JArr []);
        (k_router, JObj [(k_type, JStr k_switch); (k_operand, s1 111); (k_cases, JArr []); (k_categories, JArr cats);
                         (k_default_category_uuid, s2 99 default)])].

(* 1. typed contact-field reference *)
Definition w_typed_field : json :=
  w_doc [JObj [(k_uuid, s1 110); (k_exits, JArr [w_exit 49]);
               (k_actions, JArr [JObj [(k_uuid, s1 97); (k_type, JStr k_set_contact_field);
                                       (k_field, JObj [(k_name, s1 65); (k_key, s1 97); (k_type, s1 116)]);
                                       (k_value, s1 53)]])]] [].
(* 2. top-level group with a query *)
Definition w_group_attrs : json :=
  w_doc [] [JObj [(k_name, s1 71); (k_uuid, s1 103); (k_query, s1 113)]].
(* 3. default category first, exits aligned with the categories *)
Definition w_category_order : json :=
  w_doc [w_switch_node [w_cat 49 79; w_cat 50 89] [w_exit 49; w_exit 50] 49] [].
(* 4. categories canonical (default last), exits in the other order *)
Definition w_exit_order : json :=
  w_doc [w_switch_node [w_cat 50 89; w_cat 49 79] [w_exit 49; w_exit 50] 49] [].
(* 4'. two categories referencing one exit *)
Definition w_shared_exit : json :=
  w_doc [w_switch_node [JObj [(k_uuid, s2 99 50); (k_name, s1 89); (k_exit_uuid, s2 101 49)]; w_cat 49 79] [w_exit 49] 49] [].
(* the same router in canonical order: the control *)
Definition w_canonical : json :=
  w_doc [w_switch_node [w_cat 50 89; w_cat 49 79] [w_exit 50; w_exit 49] 49] [].

(* A witness that depends on a repair: reproduced exactly when the tree under check carries it.
   One script for both trees: the branch that contradicts the regenerated probe is closed by
   computing the probe. *)
Ltac by_probe E :=
  first [ vm_compute; reflexivity
        | let H := fresh "H" in intros H; vm_compute in H; discriminate H
        | exfalso; vm_compute in E; discriminate E ].

Lemma typed_field_witness :
  if fieldref_renders_own_type then roundtrip w_typed_field = Ok (norm w_typed_field)
  else roundtrip w_typed_field <> Ok (norm w_typed_field).
Proof. destruct fieldref_renders_own_type eqn:E; by_probe E. Qed.
Lemma group_attrs_witness :
  if validate_keeps_group_attrs then roundtrip w_group_attrs = Ok (norm w_group_attrs)
  else roundtrip w_group_attrs <> Ok (norm w_group_attrs).
Proof. destruct validate_keeps_group_attrs eqn:E; by_probe E. Qed.
Lemma category_order_refuted : roundtrip w_category_order <> Ok (norm w_category_order).
Proof. intros H. vm_compute in H. discriminate H. Qed.
Lemma exit_order_refuted : roundtrip w_exit_order <> Ok (norm w_exit_order).
Proof. intros H. vm_compute in H. discriminate H. Qed.
Lemma shared_exit_witness :
  if router_lists_shared_exit_once then roundtrip w_shared_exit = Ok (norm w_shared_exit)
  else roundtrip w_shared_exit <> Ok (norm w_shared_exit).
Proof. destruct router_lists_shared_exit_once eqn:E; by_probe E. Qed.
Lemma canonical_control : roundtrip w_canonical = Ok (norm w_canonical) /\ norm w_canonical = w_canonical.
Proof. split; vm_compute; reflexivity. Qed.
(* every witness is loaded and rendered without error, and the second pass changes nothing *)
Lemma witnesses_idempotent :
  forallb (fun w => match roundtrip w with
                    | Ok o => match roundtrip o with Ok o' => json_eqb o o' | Err _ => false end
                    | Err _ => false
                    end)
          [w_typed_field; w_group_attrs; w_category_order; w_exit_order; w_shared_exit; w_canonical] = true.
Proof. vm_compute. reflexivity. Qed.

(* ================================================================ triggers *)
Definition kw_list (k : xkw) : list json :=
  match k with KwBoth l | KwOnly l => l | KwLegacy kw => if is_null kw then [] else [kw] end.

Definition trigger_is_k (t : xtrigger) : bool := json_eqb (xq_type t) (JStr k_K).

Definition lower_trigger (t : xtrigger) : trigger_t :=
  {| tr_type := xq_type t;
     tr_keywords := JArr (kw_list (xq_kw t));
     tr_channel := match xq_channel t with Some c => if truthy c then c else JNull | None => JNull end;
     tr_match := match drop_falsy (xq_match t) with
                 | Some v => v
                 | None => if trigger_is_k t then JStr k_F else JNull
                 end;
     tr_flow := lower_flowref (xq_flow t);
     tr_groups := map lower_group (xq_groups t);
     tr_exclude := match xq_exclude t with Some l => map lower_group l | None => [] end |}.

(* a keyword trigger has a non-empty first keyword *)
Definition wf_trigger (t : xtrigger) : Prop :=
  trigger_is_k t = true -> exists k r, kw_list (xq_kw t) = k :: r /\ truthy k = true.

Lemma mapM_groups l : mapM load_group (map emit_group l) = Ok (map lower_group l).
Proof. apply mapM_map_ok. intros. apply load_emit_group. Qed.

Lemma truthy_cons (k : json) r : truthy (JArr (k :: r)) = true.
Proof. reflexivity. Qed.

Lemma load_emit_trigger t : wf_trigger t -> load_trigger (emit_trigger t) = Ok (lower_trigger t).
Proof.
  destruct t as [ty kw ch [fn fu] gs ex mt]. unfold wf_trigger, trigger_is_k, lower_trigger. cbn [xq_type xq_kw xq_channel xq_flow xq_groups xq_exclude xq_match].
  intros Hk.
  destruct (json_eqb ty (JStr k_K)) eqn:Ek.
  - destruct (Hk eq_refl) as [k [r [Hl Ht]]]. clear Hk.
    destruct kw as [l|l|k0]; cbn [kw_list] in Hl |- *.
    + subst l. destruct ch as [c|], ex as [e|], mt as [m|]; unfold load_trigger; cbn;
        rewrite ?mapM_groups; cbn; rewrite ?mapM_groups; cbn; rewrite Ek; cbn;
        rewrite Ht; unfold or_else; cbn; rewrite ?truthy_cons;
        repeat match goal with |- context [truthy ?x] => destruct (truthy x) eqn:? end; reflexivity.
    + subst l. destruct ch as [c|], ex as [e|], mt as [m|]; unfold load_trigger; cbn;
        rewrite ?mapM_groups; cbn; rewrite ?mapM_groups; cbn; rewrite Ek; cbn;
        rewrite Ht; unfold or_else; cbn; rewrite ?truthy_cons;
        repeat match goal with |- context [truthy ?x] => destruct (truthy x) eqn:? end; reflexivity.
    + destruct (is_null k0) eqn:En; [discriminate|]. injection Hl as <- <-.
      destruct ch as [c|], ex as [e|], mt as [m|]; unfold load_trigger; cbn;
        rewrite ?mapM_groups; cbn; rewrite ?mapM_groups; cbn; rewrite ?En, Ek; cbn;
        rewrite Ht; unfold or_else; cbn; rewrite ?truthy_cons;
        repeat match goal with |- context [truthy ?x] => destruct (truthy x) eqn:? end; reflexivity.
  - clear Hk.
    destruct kw as [l|l|k0]; [destruct l as [|k r]|destruct l as [|k r]|destruct (is_null k0) eqn:En];
      destruct ch as [c|], ex as [e|], mt as [m|]; unfold load_trigger; cbn;
        rewrite ?mapM_groups; cbn; rewrite ?mapM_groups; cbn; rewrite ?En, ?Ek; cbn;
        unfold or_else; cbn; rewrite ?truthy_cons;
        repeat match goal with |- context [truthy ?x] => destruct (truthy x) eqn:? end; reflexivity.
Qed.

Lemma map_render_groups l : map render_group (map lower_group l) = map emit_group l.
Proof. rewrite map_map. apply map_ext. intros g. rewrite render_lower_group. apply norm_emit_group. Qed.

Lemma map_norm_groups l : map norm_group (map emit_group l) = map emit_group l.
Proof. rewrite map_map. apply map_ext. intros g. apply norm_emit_group. Qed.

(* a channel, when given, is null or a non-empty value *)
Definition wf_channel (t : xtrigger) : Prop :=
  forall c, xq_channel t = Some c -> truthy c = false -> c = JNull.

Lemma render_lower_trigger t :
  wf_trigger t -> wf_channel t -> render_trigger (lower_trigger t) = norm_trigger (emit_trigger t).
Proof.
  destruct t as [ty kw ch [fn fu] gs ex mt]. unfold wf_trigger, wf_channel, trigger_is_k, lower_trigger, render_trigger.
  cbn [xq_type xq_kw xq_channel xq_flow xq_groups xq_exclude xq_match tr_type tr_keywords tr_channel tr_match tr_flow tr_groups tr_exclude].
  intros Hk Hc. rewrite !map_render_groups.
  assert (forall c, ch = Some c -> truthy c = false -> c = JNull) as Hc' by exact Hc. clear Hc.
  assert (map render_group (match ex with Some l => map lower_group l | None => [] end)
          = match ex with Some l => map emit_group l | None => [] end) as Hex.
  { destruct ex; [apply map_render_groups|reflexivity]. }
  rewrite Hex. clear Hex.
  assert (truthy (JStr k_F) = true) as HF by reflexivity.
  Ltac trig_tac Hc' :=
    unfold norm_trigger, emit_trigger, drop_falsy; cbn; rewrite ?map_norm_groups; cbn;
    repeat match goal with H : truthy (JStr k_F) = true |- _ => rewrite ?H end;
    repeat match goal with
           | H : json_eqb _ _ = _ |- _ => rewrite H
           | |- context [truthy ?x] => is_var x; let E := fresh "E" in destruct (truthy x) eqn:E; cbn
           end; cbn; try reflexivity; try congruence;
    try (match goal with E : truthy ?c = false |- _ => rewrite (Hc' c eq_refl E) in *; cbn; reflexivity end).
  destruct (json_eqb ty (JStr k_K)) eqn:Ek.
  - destruct (Hk eq_refl) as [k [r [Hl Ht]]]. clear Hk.
    destruct kw as [l|l|k0]; cbn [kw_list] in Hl |- *.
    + subst l. destruct ch as [c|], ex as [e|], mt as [m|]; trig_tac Hc'.
    + subst l. destruct ch as [c|], ex as [e|], mt as [m|]; trig_tac Hc'.
    + destruct (is_null k0) eqn:En; [discriminate|]. injection Hl as <- <-.
      destruct ch as [c|], ex as [e|], mt as [m|]; trig_tac Hc'; destruct k0; cbn in *; try discriminate; reflexivity.
  - clear Hk.
    destruct kw as [l|l|k0]; [destruct l as [|k r]|destruct l as [|k r]|destruct (is_null k0) eqn:En; [apply is_null_true in En; subst k0|]];
      destruct ch as [c|], ex as [e|], mt as [m|]; trig_tac Hc'; try (destruct k0; cbn in *; try discriminate; reflexivity).
Qed.

(* legacy single-keyword triggers come out with both forms *)
Lemma legacy_keyword t kw :
  xq_kw t = KwLegacy kw -> wf_trigger t ->
  exists c, load_trigger (emit_trigger t) = Ok c
            /\ jfield (emit_trigger t) k_keywords = None
            /\ jfield (render_trigger c) k_keyword = Some kw
            /\ jfield (render_trigger c) k_keywords = Some (JArr (if is_null kw then [] else [kw])).
Proof.
  intros Hk Hwf. exists (lower_trigger t). split; [apply load_emit_trigger, Hwf|].
  destruct t as [ty kw' ch [fn fu] gs ex mt]. cbn in Hk. subst kw'.
  unfold emit_trigger, render_trigger, lower_trigger. cbn.
  destruct ch, ex, mt; cbn; (split; [reflexivity|]); (split; [|reflexivity]);
    destruct (is_null kw) eqn:En; try reflexivity; apply is_null_true in En; subst; reflexivity.
Qed.

(* ================================================================ per-class round trips *)
Lemma exit_roundtrip x :
  wf_exit x -> rmap render_exit (load_exit (emit_exit x)) = Ok (norm_exit (emit_exit x)).
Proof. intros H. rewrite load_emit_exit by exact H. cbn. rewrite render_lower_exit by exact H. reflexivity. Qed.

Lemma action_roundtrip a :
  wf_action a -> typed_field_ok a ->
  bind (load_action (emit_action a)) render_action = Ok (norm_action (emit_action a)).
Proof. intros H Hu. rewrite load_emit_action by exact H. cbn [bind]. apply render_lower_action; assumption. Qed.

Lemma action_roundtrip_repaired :
  fieldref_renders_own_type = true ->
  forall a, wf_action a ->
  bind (load_action (emit_action a)) render_action = Ok (norm_action (emit_action a)).
Proof.
  intros Hfix a H. apply action_roundtrip; [exact H|]. unfold typed_field_ok. rewrite Hfix. exact I.
Qed.

Lemma action_roundtrip_untyped a :
  wf_action a -> untyped_field a ->
  bind (load_action (emit_action a)) render_action = Ok (norm_action (emit_action a)).
Proof.
  intros H Hu. apply action_roundtrip; [exact H|]. unfold typed_field_ok.
  destruct fieldref_renders_own_type; [exact I|exact Hu].
Qed.

Lemma action_roundtrip_nonvacuous :
  let a := XSend (s1 1) (s1 2) [s1 3; JStr []] (JArr []) (Some (JBool false)) None None in
  let b := XSetField (s1 1) {| xf_name := s1 65; xf_key := s1 97; xf_type := Some (s1 116) |} (s1 53) in
  (wf_action a /\ typed_field_ok a /\ untyped_field a /\ norm_action (emit_action a) <> emit_action a)
  /\ (wf_action b /\ ~ untyped_field b /\ (fieldref_renders_own_type = true -> typed_field_ok b)).
Proof.
  cbn zeta. split.
  - split; [intros t H; discriminate H|]. split; [unfold typed_field_ok; destruct fieldref_renders_own_type; exact I|].
    split; [exact I|]. intros H. vm_compute in H. discriminate H.
  - split; [reflexivity|]. split.
    + intros H. specialize (H _ eq_refl). discriminate H.
    + intros Hfix. unfold typed_field_ok. rewrite Hfix. exact I.
Qed.

Lemma trigger_roundtrip t :
  wf_trigger t -> wf_channel t ->
  rmap render_trigger (load_trigger (emit_trigger t)) = Ok (norm_trigger (emit_trigger t)).
Proof. intros H Hc. rewrite load_emit_trigger by exact H. cbn. rewrite render_lower_trigger by assumption. reflexivity. Qed.

(* ================================================================ the model's render dicts carry exactly
   the keys the source's render() dict literals carry (regenerated key lists) *)
Definition keys_of (j : json) : list str := map fst (members_of j).
Fixpoint strs_eqb (a b : list str) : bool :=
  match a, b with
  | [], [] => true
  | x :: a', y :: b' => str_eqb x y && strs_eqb a' b'
  | _, _ => false
  end.
Definition j0 := JNull.
Definition sample_exit := {| e_uuid := s1 1; e_dest := j0 |}.
Definition sample_cat := {| c_uuid := s1 1; c_name := s1 2; c_exit := sample_exit |}.
Definition sample_group := {| g_name := s1 1; g_uuid := s1 2; g_opt := [] |}.
Definition sample_flowref := {| fr_name := s1 1; fr_uuid := s1 2 |}.
Definition sample_fieldref := {| cf_name := s1 1; cf_key := s1 2; cf_type := s1 3 |}.
Definition sample_templ := {| tp_name := j0; tp_uuid := j0; tp_template_uuid := j0; tp_variables := j0 |}.
Definition sample_event (t : str) :=
  {| ev_uuid := j0; ev_offset := j0; ev_unit := j0; ev_type := JStr t; ev_hour := j0; ev_message := j0;
     ev_rel := sample_fieldref; ev_start := j0; ev_flow := sample_flowref; ev_base := s1 1 |}.
Definition sample_trigger :=
  {| tr_type := j0; tr_keywords := j0; tr_channel := j0; tr_match := s1 1; tr_flow := sample_flowref;
     tr_groups := []; tr_exclude := [] |}.
Definition sample_switch := RSwitch j0 (s1 1) (Some 5%Z) [] [] sample_cat (Some sample_cat).
Definition sample_node :=
  {| n_kind := NSwitch; n_uuid := s1 1; n_actions := []; n_default_exit := None; n_router := Some sample_switch;
     n_ui := Some (j0, j0) |}.
Definition sample_flow :=
  {| f_uuid := j0; f_name := j0; f_language := j0; f_type := j0; f_nodes := [sample_node]; f_spec := j0;
     f_revision := j0; f_expire := j0; f_metadata := j0; f_localization := j0 |}.
Definition sample_container :=
  {| ct_campaigns := []; ct_fields := j0; ct_flows := []; ct_groups := []; ct_site := j0; ct_triggers := [];
     ct_version := j0 |}.
Definition full_dict : members :=
  [(k_uuid, j0); (k_type, j0); (k_text, j0); (k_attachments, JArr []); (k_quick_replies, j0); (k_all_urns, s1 1);
   (k_topic, s1 1); (k_value, j0); (k_name, j0); (k_all_groups, s1 1)].
Definition okj (r : res json) : json := match r with Ok j => j | Err _ => JNull end.
Definition same_keys (j : json) (ks : list str) : bool :=
  forallb (fun k => mem_str k ks) (keys_of j) && forallb (fun k => mem_str k (keys_of j)) ks.
(* keys of nested dict literals are listed with their parent in the regenerated tables *)
Definition nested_keys (j : json) : list str :=
  keys_of j ++ flat_map (fun kv => match snd kv with JObj m => map fst m ++ flat_map (fun kv2 => keys_of (snd kv2)) m | _ => [] end) (members_of j).
Definition same_nested_keys (j : json) (ks : list str) : bool :=
  forallb (fun k => mem_str k ks) (nested_keys j) && forallb (fun k => mem_str k (nested_keys j)) ks.

Definition render_keys_ok : bool :=
  strs_eqb (keys_of (render_exit sample_exit)) render_keys_Exit
  && strs_eqb (keys_of (render_flowref sample_flowref)) render_keys_FlowReference
  && strs_eqb (keys_of (render_fieldref sample_fieldref)) render_keys_ContactFieldReference
  && strs_eqb (keys_of (render_fieldref_label sample_fieldref)) render_keys_ContactFieldReference_label
  && strs_eqb (keys_of (render_group sample_group)) render_keys_Group
  && strs_eqb (keys_of (render_category sample_cat)) render_keys_RouterCategory
  && strs_eqb (keys_of (render_case {| cs_uuid := j0; cs_type := j0; cs_cat := j0; cs_args := [] |})) render_keys_RouterCase
  && same_nested_keys (okj (render_router sample_switch)) render_keys_SwitchRouter
  && strs_eqb (keys_of (okj (render_router (RRandom (s1 1) [])))) render_keys_RandomRouter
  && strs_eqb (keys_of (okj (render_node sample_node))) render_keys_BaseNode
  && same_keys (okj (render_flow sample_flow)) render_keys_FlowContainer
  && strs_eqb (keys_of (okj (render sample_container))) render_keys_RapidProContainer
  && strs_eqb (keys_of (render_campaign {| cp_uuid := j0; cp_name := j0; cp_group := sample_group; cp_events := [] |}))
              render_keys_Campaign
  && same_keys (JObj (members_of (render_event (sample_event k_F)) ++ members_of (render_event (sample_event k_M))))
               render_keys_CampaignEvent
  && strs_eqb (keys_of (render_trigger sample_trigger)) render_keys_Trigger
  && strs_eqb (keys_of (okj (render_action (ASendMsg full_dict (Some sample_templ)))))
              (render_keys_Action ++ render_keys_SendMessageAction)
  && same_nested_keys (render_templating sample_templ) render_keys_WhatsAppMessageTemplating
  && strs_eqb (keys_of (okj (render_action (ASetField full_dict sample_fieldref)))) render_keys_SetContactFieldAction
  && strs_eqb (keys_of (okj (render_action (AGroups false full_dict [])))) render_keys_AddContactGroupAction
  && strs_eqb (keys_of (okj (render_action (AGroups true full_dict [])))) render_keys_RemoveContactGroupAction
  && strs_eqb (keys_of (okj (render_action (ARunResult full_dict (s1 1))))) render_keys_SetRunResultAction
  && strs_eqb (keys_of (okj (render_action (AEnterFlow full_dict sample_flowref)))) render_keys_EnterFlowAction
  && strs_eqb (map fst group_params) (k_name :: k_uuid :: group_optional_attrs).

Lemma render_keys_ok_true : render_keys_ok = true.
Proof. vm_compute. reflexivity. Qed.
