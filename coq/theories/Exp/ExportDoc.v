(* E8 — the supported export schema as a syntax tree ([xdoc]) with its writer [emit], and
   [norm : json -> json], the differences C05 tolerates made explicit.  Definitions only.

   [emit] writes each object with the keys in the toolkit's own order and each router node
   in *canonical order*: categories = others, default, no-response; exits in category order,
   one exit per category.  "d is a supported document in canonical order" is "d = emit x for
   a well-formed x".  Non-canonical documents are plain JSON values (see the refutations). *)
From Coq Require Import List NArith ZArith Bool.
From RPFT Require Import Base.Sexp Base.PyStr Base.Result Base.Json Gen.Tables Exp.Load Exp.Render.
Import ListNotations.

Definition members := list (str * json).
Definition opt (k : str) (o : option json) : members :=
  match o with Some v => [(k, v)] | None => [] end.

(* ---------------------------------------------------------------- syntax *)
Record xexit := { xe_uuid : str; xe_dest : option json }.          (* None: key absent *)
Record xgroup := { xg_name : str; xg_uuid : str }.                  (* a reference {name, uuid} *)
(* top-level group; xt_attrs: query/status/system/count, aligned with Group.render's attribute
   list [group_optional_attrs] (None: key absent; a shorter list: the remaining keys absent) *)
Record xtop := { xt_name : str; xt_uuid : str; xt_attrs : list (option json) }.
Record xflowref := { xr_name : str; xr_uuid : str }.
Record xfield := { xf_name : json; xf_key : json; xf_type : option json }.

Inductive xaction :=
| XPass (d : members)                                   (* pass-through kinds: any members *)
| XSend (uuid text : json) (att : list json) (qr : json) (all_urns topic : option json) (templ : option templ_t)
| XSetField (uuid : json) (f : xfield) (value : json)
| XSetProp (prop : str) (uuid value : json)
| XGroups (rm : bool) (uuid : json) (gs : list xgroup) (all_groups : option json)
| XRunResult (uuid name value : json) (category : option json)
| XEnterFlow (uuid : json) (f : xflowref).

Record xcat := { xc_uuid : str; xc_name : str; xc_exit : xexit }.   (* a category with its own exit *)

Inductive xwait := WNone | WMsg | WTimeout (seconds : Z) (c : xcat).

Inductive xrouter :=
| XSwitch (operand : json) (cases : list case_t) (others : list xcat) (default : xcat) (wait : xwait)
          (result_name : option json)
| XRandom (cats : list xcat) (result_name : option json).

Inductive xnode :=
| XBasic (uuid : str) (acts : list xaction) (e : xexit)
| XRouted (uuid : str) (act : option xaction) (r : xrouter).

Record xflow := { xw_uuid : json; xw_name : str; xw_language : json; xw_type : json; xw_nodes : list xnode;
                  xw_spec : json; xw_revision : json; xw_expire : json; xw_metadata : members;
                  xw_localization : members;
                  xw_ui : option (list (str * (json * json)) * members) }.
                  (* _ui: positions keyed by node uuid (in node order) + other members of _ui *)

Inductive xevent :=
| XEvF (uuid offset unit hour message label key start : json) (f : xflowref)
| XEvM (uuid offset unit hour message label key start base : json).

Record xcampaign := { xp_uuid : json; xp_name : json; xp_group : xgroup; xp_events : list xevent }.

Inductive xkw := KwBoth (kws : list json) | KwOnly (kws : list json) | KwLegacy (kw : json).

Record xtrigger := { xq_type : json; xq_kw : xkw; xq_channel : option json; xq_flow : xflowref;
                     xq_groups : list xgroup; xq_exclude : option (list xgroup); xq_match : option json }.

Record xdoc := { xd_campaigns : list xcampaign; xd_fields : list json; xd_flows : list xflow;
                 xd_groups : list xtop; xd_site : json; xd_triggers : list xtrigger; xd_version : json }.

(* ---------------------------------------------------------------- emit *)
Definition emit_exit (x : xexit) : json :=
  JObj (opt k_destination_uuid (xe_dest x) ++ [(k_uuid, JStr (xe_uuid x))]).
Definition emit_group (g : xgroup) : json := JObj [(k_name, JStr (xg_name g)); (k_uuid, JStr (xg_uuid g))].
Fixpoint opts (ks : list str) (vs : list (option json)) : members :=
  match ks, vs with
  | k :: ks', v :: vs' => opt k v ++ opts ks' vs'
  | _, _ => []
  end.
Definition emit_top (g : xtop) : json :=
  JObj ([(k_name, JStr (xt_name g)); (k_uuid, JStr (xt_uuid g))] ++ opts group_optional_attrs (xt_attrs g)).
Definition emit_flowref (f : xflowref) : json := JObj [(k_name, JStr (xr_name f)); (k_uuid, JStr (xr_uuid f))].
Definition emit_field (f : xfield) : json :=
  JObj ([(k_name, xf_name f); (k_key, xf_key f)] ++ opt k_type (xf_type f)).

Definition emit_action (a : xaction) : json :=
  match a with
  | XPass d => JObj d
  | XSend u tx att qr al tp tm =>
    JObj ([(k_uuid, u); (k_type, JStr k_send_msg); (k_text, tx); (k_attachments, JArr att); (k_quick_replies, qr)]
          ++ opt k_all_urns al ++ opt k_topic tp ++ opt k_templating (option_map render_templating tm))
  | XSetField u f v => JObj [(k_uuid, u); (k_type, JStr k_set_contact_field); (k_field, emit_field f); (k_value, v)]
  | XSetProp p u v => JObj [(k_uuid, u); (k_type, JStr (k_set_contact_ ++ p)); (p, v)]
  | XGroups rm u gs ag =>
    JObj ([(k_type, JStr (if rm then k_remove_contact_groups else k_add_contact_groups)); (k_uuid, u);
           (k_groups, JArr (map emit_group gs))] ++ (if rm then opt k_all_groups ag else []))
  | XRunResult u n v c => JObj ([(k_type, JStr k_set_run_result); (k_name, n); (k_value, v); (k_uuid, u)] ++ opt k_category c)
  | XEnterFlow u f => JObj [(k_type, JStr k_enter_flow); (k_uuid, u); (k_flow, emit_flowref f)]
  end.

Definition emit_cat (c : xcat) : json :=
  JObj [(k_uuid, JStr (xc_uuid c)); (k_name, JStr (xc_name c)); (k_exit_uuid, JStr (xe_uuid (xc_exit c)))].

Definition wait_cats (w : xwait) : list xcat := match w with WTimeout _ c => [c] | _ => [] end.

(* categories in canonical order *)
Definition xcats (r : xrouter) : list xcat :=
  match r with
  | XSwitch _ _ others d w _ => others ++ [d] ++ wait_cats w
  | XRandom cats _ => cats
  end.

Definition emit_wait (w : xwait) : members :=
  match w with
  | WNone => []
  | WMsg => [(k_wait, JObj [(k_type, JStr k_msg)])]
  | WTimeout s c => [(k_wait, JObj [(k_type, JStr k_msg);
                                    (k_timeout, JObj [(k_seconds, JInt s); (k_category_uuid, JStr (xc_uuid c))])])]
  end.

Definition emit_router (r : xrouter) : json :=
  match r with
  | XSwitch op cases others d w rn =>
    JObj ([(k_type, JStr k_switch); (k_operand, op); (k_cases, JArr (map render_case cases));
           (k_categories, JArr (map emit_cat (xcats r))); (k_default_category_uuid, JStr (xc_uuid d))]
          ++ emit_wait w ++ opt k_result_name rn)
  | XRandom cats rn =>
    JObj ([(k_type, JStr k_random); (k_categories, JArr (map emit_cat cats))] ++ opt k_result_name rn)
  end.

Definition emit_node (n : xnode) : json :=
  match n with
  | XBasic u acts e =>
    JObj [(k_uuid, JStr u); (k_exits, JArr [emit_exit e]); (k_actions, JArr (map emit_action acts))]
  | XRouted u act r =>
    JObj [(k_uuid, JStr u); (k_exits, JArr (map (fun c => emit_exit (xc_exit c)) (xcats r)));
          (k_actions, JArr (match act with Some a => [emit_action a] | None => [] end));
          (k_router, emit_router r)]
  end.

Definition emit_ui_entry (e : str * (json * json)) : str * json :=
  (fst e, JObj [(k_position, JObj [(k_left, fst (snd e)); (k_top, snd (snd e))])]).

Definition emit_flow (f : xflow) : json :=
  JObj ([(k_uuid, xw_uuid f); (k_name, JStr (xw_name f)); (k_language, xw_language f); (k_type, xw_type f);
         (k_nodes, JArr (map emit_node (xw_nodes f))); (k_spec_version, xw_spec f); (k_revision, xw_revision f);
         (k_expire_after_minutes, xw_expire f); (k_metadata, JObj (xw_metadata f));
         (k_localization, JObj (xw_localization f))]
        ++ match xw_ui f with
           | Some (pos, other) => [(k__ui, JObj ((k_nodes, JObj (map emit_ui_entry pos)) :: other))]
           | None => []
           end).

Definition emit_event (e : xevent) : json :=
  match e with
  | XEvF u o un h msg l k st f =>
    JObj [(k_uuid, u); (k_offset, o); (k_unit, un); (k_event_type, JStr k_F); (k_delivery_hour, h); (k_message, msg);
          (k_relative_to, JObj [(k_label, l); (k_key, k)]); (k_start_mode, st); (k_flow, emit_flowref f)]
  | XEvM u o un h msg l k st b =>
    JObj [(k_uuid, u); (k_offset, o); (k_unit, un); (k_event_type, JStr k_M); (k_delivery_hour, h); (k_message, msg);
          (k_relative_to, JObj [(k_label, l); (k_key, k)]); (k_start_mode, st); (k_base_language, b)]
  end.

Definition emit_campaign (c : xcampaign) : json :=
  JObj [(k_group, emit_group (xp_group c)); (k_name, xp_name c); (k_uuid, xp_uuid c);
        (k_events, JArr (map emit_event (xp_events c)))].

Definition head_or_null (l : list json) : json := match l with k :: _ => k | [] => JNull end.

Definition emit_trigger (t : xtrigger) : json :=
  JObj ([(k_trigger_type, xq_type t)]
        ++ match xq_kw t with
           | KwBoth kws => [(k_keyword, head_or_null kws); (k_keywords, JArr kws)]
           | KwOnly kws => [(k_keywords, JArr kws)]
           | KwLegacy kw => [(k_keyword, kw)]
           end
        ++ opt k_channel (xq_channel t)
        ++ [(k_flow, emit_flowref (xq_flow t)); (k_groups, JArr (map emit_group (xq_groups t)))]
        ++ opt k_exclude_groups (option_map (fun l => JArr (map emit_group l)) (xq_exclude t))
        ++ opt k_match_type (xq_match t)).

Definition emit (x : xdoc) : json :=
  JObj [(k_campaigns, JArr (map emit_campaign (xd_campaigns x)));
        (k_fields, JArr (xd_fields x));
        (k_flows, JArr (map emit_flow (xd_flows x)));
        (k_groups, JArr (map emit_top (xd_groups x)));
        (k_site, xd_site x);
        (k_triggers, JArr (map emit_trigger (xd_triggers x)));
        (k_version, xd_version x)].

(* ================================================================ norm : json -> json
   The identity, except for the differences C05 tolerates.  Written from the property text
   with generic, order-preserving edits of JSON objects. *)
Definition falsy (j : json) : bool := negb (truthy j).

(* apply f to the value of member k *)
Definition upd (k : str) (f : json -> json) (j : json) : json :=
  match j with
  | JObj m => JObj (map (fun kv => if str_eqb (fst kv) k then (fst kv, f (snd kv)) else kv) m)
  | _ => j
  end.
(* omit member k when its value satisfies p *)
Definition drop_when (k : str) (p : json -> bool) (j : json) : json :=
  match j with
  | JObj m => JObj (filter (fun kv => negb (str_eqb (fst kv) k && p (snd kv))) m)
  | _ => j
  end.
Definition each (f : json -> json) (j : json) : json :=
  match j with JArr l => JArr (map f l) | _ => j end.
(* an absent member k means v *)
Definition default_first (k : str) (v : json) (j : json) : json :=
  match j with
  | JObj m => if has m k then j else JObj ((k, v) :: m)
  | _ => j
  end.
Definition type_is (j : json) (t : str) : bool :=
  match jfield j k_type with Some v => json_eqb v (JStr t) | None => false end.

(* an exit without destination_uuid is an exit to nowhere *)
Definition norm_exit : json -> json := default_first k_destination_uuid JNull.

(* optional group attributes that are null may be omitted *)
Definition norm_group (j : json) : json :=
  fold_left (fun acc k => drop_when k is_null acc) group_optional_attrs j.

Definition norm_action (j : json) : json :=
  if type_is j k_send_msg then
    drop_when k_all_urns falsy (drop_when k_topic falsy
      (upd k_attachments (fun a => match a with JArr l => JArr (filter truthy l) | _ => a end) j))
  else if type_is j k_set_run_result then drop_when k_category falsy j
  else if type_is j k_remove_contact_groups then drop_when k_all_groups falsy (upd k_groups (each norm_group) j)
  else if type_is j k_add_contact_groups then upd k_groups (each norm_group) j
  else if type_is j k_set_contact_field then upd k_field (drop_when k_type falsy) j
  else j.

Definition norm_router (j : json) : json :=
  if type_is j k_random then drop_when k_result_name falsy j else drop_when k_result_name is_null j.

Definition norm_node (j : json) : json :=
  upd k_exits (each norm_exit) (upd k_actions (each norm_action) (upd k_router norm_router j)).

(* `_ui`: only the positions of the flow's nodes are kept (in node order); a `_ui` without
   any is omitted *)
Definition ui_position (ui : json) (u : str) : list (str * json) :=
  match jfield ui k_nodes with
  | Some un =>
    match jfield un u with
    | Some ent =>
      match jfield ent k_position with
      | Some p => match jfield p k_left, jfield p k_top with
                  | Some l, Some t => [(u, JObj [(k_position, JObj [(k_left, l); (k_top, t)])])]
                  | _, _ => []
                  end
      | None => []
      end
    | None => []
    end
  | None => []
  end.

Definition norm_ui (j : json) : json :=
  match j with
  | JObj m =>
    match jget m k__ui with
    | Some ui =>
      let ids := match jget m k_nodes with
                 | Some (JArr ns) => flat_map (fun n => match jfield n k_uuid with Some (JStr u) => [u] | _ => [] end) ns
                 | _ => []
                 end in
      let entries := flat_map (ui_position ui) ids in
      JObj (remove_key m k__ui ++ match entries with [] => [] | _ => [(k__ui, JObj [(k_nodes, JObj entries)])] end)
    | None => j
    end
  | _ => j
  end.

Definition norm_flow (j : json) : json := norm_ui (upd k_nodes (each norm_node) j).

Definition norm_campaign : json -> json := upd k_group norm_group.

(* triggers: both keyword forms, absent channel = null, absent exclude_groups = [],
   keyword triggers match the first word by default, an empty match_type is omitted *)
Definition norm_trigger (j : json) : json :=
  match j with
  | JObj m =>
    let kws := match jget m k_keywords with
               | Some k => k
               | None => match jget m k_keyword with Some JNull | None => JArr [] | Some k => JArr [k] end
               end in
    let kw := match jget m k_keyword with
              | Some k => k
              | None => match kws with JArr (k :: _) => k | _ => JNull end
              end in
    let mt := match jget m k_match_type with
              | Some v => if truthy v then Some v else None
              | None => None
              end in
    let is_k := match jget m k_trigger_type with Some t => json_eqb t (JStr k_K) | None => false end in
    JObj ([(k_trigger_type, getd m k_trigger_type JNull); (k_keyword, kw); (k_keywords, kws);
           (k_channel, let c := getd m k_channel JNull in if truthy c then c else JNull);
           (k_flow, getd m k_flow JNull);
           (k_groups, each norm_group (getd m k_groups JNull));
           (k_exclude_groups, each norm_group (getd m k_exclude_groups (JArr [])))]
          ++ match mt with Some v => [(k_match_type, v)] | None => if is_k then [(k_match_type, JStr k_F)] else [] end)
  | _ => j
  end.

Definition norm (d : json) : json :=
  upd k_flows (each norm_flow)
    (upd k_groups (each norm_group)
       (upd k_campaigns (each norm_campaign)
          (upd k_triggers (each norm_trigger) d))).
