(* C04 — node by node: a node that is [node_ok] (Exp/MeansFamily.v) is [node_good] (Exp/MeansFacts.v): the reference reads
   its rows as node rows with the payloads of its actions, and folding the edges that leave it (one per kept exit pair) makes
   a reference node that reads like the node.  Stage 1: nodes without a router. *)
From Coq Require Import String.
From Coq Require Import List NArith Bool Arith Lia Permutation.
From RPFT Require Import Base.Sexp Base.PyStr Base.PyStrFacts Base.SexpEq Base.Result Gen.Tables Flow.Lts Flow.Flow Flow.FlowFacts Flow.RowSem
     Exp.FlatSem Exp.ToRows Exp.RowIdFacts Exp.Means Exp.MeansFamily Exp.MeansDfs Exp.MeansDfsFacts
     Exp.MeansRun Exp.MeansOrder Exp.MeansSim Exp.MeansFacts.
Import ListNotations.

Opaque no_args_tests short_types strip_excluded frm_field_headers.
Opaque loose_exit_rows pairs_follow_cases has_group_case_by_name split_rows_carry_save_name group_split_without_cases_exports.

Section Local.
Variable U : Type.
Variable ueqb : U -> U -> bool.
Hypothesis ueqb_spec : forall a b, ueqb a b = true <-> a = b.
Variable ustr : U -> str.
Variable strip : bool.

(* ---------------------------------------------------------------- the node columns do not matter to the reading *)
Lemma base_skip (m : node U) (q : pay U) k :
  str_eqb (lit "node_uuid") k = false -> str_eqb (lit "ui_position") k = false ->
  assoc_str k (node_base_pay m ++ q) = assoc_str k q.
Proof.
  intros H1 H2. unfold node_base_pay. cbn [app assoc_str]. rewrite H1. destruct (n_ui m) as [[l t]|]; [|reflexivity].
  cbn [app assoc_str]. rewrite H2. reflexivity.
Qed.

Ltac skip_base := rewrite !base_skip by reflexivity.

Lemma fld_s_base m q k : str_eqb (lit "node_uuid") k = false -> str_eqb (lit "ui_position") k = false ->
  fld_s U (node_base_pay m ++ q) k = fld_s U q k.
Proof. intros H1 H2. unfold fld_s. rewrite base_skip by assumption. reflexivity. Qed.
Lemma fld_l_base m q k : str_eqb (lit "node_uuid") k = false -> str_eqb (lit "ui_position") k = false ->
  fld_l U (node_base_pay m ++ q) k = fld_l U q k.
Proof. intros H1 H2. unfold fld_l. rewrite base_skip by assumption. reflexivity. Qed.
Lemma fld_ll_base m q k : str_eqb (lit "node_uuid") k = false -> str_eqb (lit "ui_position") k = false ->
  fld_ll U (node_base_pay m ++ q) k = fld_ll U q k.
Proof. intros H1 H2. unfold fld_ll. rewrite base_skip by assumption. reflexivity. Qed.

Lemma row_payload_base m tp q : row_payload U tp (node_base_pay m ++ q) = row_payload U tp q.
Proof.
  unfold row_payload, media_att. rewrite !fld_s_base, !fld_l_base, !fld_ll_base by reflexivity. skip_base. reflexivity.
Qed.

Lemma acts_of_base m tp q : acts_of U tp (node_base_pay m ++ q) = acts_of U tp q.
Proof. unfold acts_of. rewrite row_payload_base. reflexivity. Qed.

Lemma abs_nkind_base m tp q : abs_nkind U tp (node_base_pay m ++ q) = abs_nkind U tp q.
Proof. unfold abs_nkind. rewrite !fld_s_base, !acts_of_base by reflexivity. reflexivity. Qed.

(* ---------------------------------------------------------------- rows of plain actions are action rows *)
Lemma plain_tp (a : action U) tp q : plain_action U a = true -> action_fields a = Ok (tp, q) ->
  is_node_type tp = true /\ forall p, abs_nkind U tp p = (EAction, acts_of U tp p, None).
Proof.
  destruct a as [t qr at' tm|n v|pr v|ad gs|n v c|pa sc|n fu|u' me b hs rs|am rs|ty]; cbn [plain_action]; try discriminate; intros _; cbn [action_fields].
  - destruct (split_attachments at') as [[[i1 i2] i3] i4]. intros H. injection H as <- _. split; [reflexivity|intros p; reflexivity].
  - intros H. injection H as <- _. split; [reflexivity|intros p; reflexivity].
  - intros H. injection H as <- _. split; [reflexivity|intros p; reflexivity].
  - destruct gs as [|[nm u0] gs]; [discriminate|]. intros H. injection H as <- _. destruct ad; (split; [reflexivity|intros p; reflexivity]).
  - intros H. injection H as <- _. split; [reflexivity|intros p; reflexivity].
  - intros H. injection H as <- _. split; [reflexivity|intros p; reflexivity].
Qed.

End Local.
