(* C04 — node by node: a node that is [node_ok] (Exp/MeansFamily.v) is [node_good] (Exp/MeansFacts.v): the reference reads
   its rows as node rows with the payloads of its actions, and folding the edges that leave it (one per kept exit pair) makes
   a reference node that reads like the node.  Stage 1: nodes without a router. *)
From Coq Require Import String.
From Coq Require Import List NArith Bool Arith Lia Permutation.
From RPFT Require Import Base.Sexp Base.PyStr Base.PyStrFacts Base.SexpEq Base.Result Gen.Tables Flow.Lts Flow.Flow Flow.FlowFacts Flow.RowSem
     Exp.FlatSem Exp.ToRows Exp.RowIdFacts Exp.Means Exp.MeansFamily Exp.MeansDfs Exp.MeansDfsFacts
     Exp.MeansRun Exp.MeansOrder Exp.MeansSim Exp.MeansFacts.
Import ListNotations.

Opaque no_args_tests short_types strip_excluded frm_field_headers.
Opaque loose_exit_rows pairs_follow_cases has_group_case_by_name split_rows_carry_save_name group_split_without_cases_exports.

(* the tree under check has the four export repairs (regenerated probes, translator/tables_c04.py).  Kept behind a definition:
   as plain hypotheses `probe = true` they would let tactics that compute (a bare [discriminate]) close goals on a tree where the
   probe is false, and the scripts would take another shape there. *)
Definition repaired : Prop :=
  loose_exit_rows = true /\ pairs_follow_cases = true /\ split_rows_carry_save_name = true /\ group_split_without_cases_exports = true.
Lemma rep_loose : repaired -> loose_exit_rows = true. Proof. intros H. apply H. Qed.
Lemma rep_cases : repaired -> pairs_follow_cases = true. Proof. intros H. apply H. Qed.
Lemma rep_save : repaired -> split_rows_carry_save_name = true. Proof. intros H. apply H. Qed.
Lemma rep_group : repaired -> group_split_without_cases_exports = true. Proof. intros H. apply H. Qed.
Lemma rep_intro : loose_exit_rows = true -> pairs_follow_cases = true -> split_rows_carry_save_name = true -> group_split_without_cases_exports = true -> repaired.
Proof. intros A B C D. exact (conj A (conj B (conj C D))). Qed.
Global Opaque repaired.

Section Local.
Variable U : Type.
Variable ueqb : U -> U -> bool.
Hypothesis ueqb_spec : forall a b, ueqb a b = true <-> a = b.
Variable ustr : U -> str.
Variable strip : bool.

(* ---------------------------------------------------------------- the node columns do not matter to the reading *)
Lemma base_skip (m : node U) (q : pay U) k :
  str_eqb (lit "node_uuid") k = false -> str_eqb (lit "ui_position") k = false ->
  assoc_str k (node_base_pay m ++ q) = assoc_str k q.
Proof.
  intros H1 H2. unfold node_base_pay. cbn [app assoc_str]. rewrite H1. destruct (n_ui m) as [[l t]|]; [|reflexivity].
  cbn [app assoc_str]. rewrite H2. reflexivity.
Qed.

Ltac skip_base := rewrite !base_skip by reflexivity.

Lemma fld_s_base m q k : str_eqb (lit "node_uuid") k = false -> str_eqb (lit "ui_position") k = false ->
  fld_s U (node_base_pay m ++ q) k = fld_s U q k.
Proof. intros H1 H2. unfold fld_s. rewrite base_skip by assumption. reflexivity. Qed.
Lemma fld_l_base m q k : str_eqb (lit "node_uuid") k = false -> str_eqb (lit "ui_position") k = false ->
  fld_l U (node_base_pay m ++ q) k = fld_l U q k.
Proof. intros H1 H2. unfold fld_l. rewrite base_skip by assumption. reflexivity. Qed.
Lemma fld_ll_base m q k : str_eqb (lit "node_uuid") k = false -> str_eqb (lit "ui_position") k = false ->
  fld_ll U (node_base_pay m ++ q) k = fld_ll U q k.
Proof. intros H1 H2. unfold fld_ll. rewrite base_skip by assumption. reflexivity. Qed.

Lemma row_payload_base m tp q : row_payload U tp (node_base_pay m ++ q) = row_payload U tp q.
Proof.
  unfold row_payload, media_att. rewrite !fld_s_base, !fld_l_base, !fld_ll_base by reflexivity. skip_base. reflexivity.
Qed.

Lemma acts_of_base m tp q : acts_of U tp (node_base_pay m ++ q) = acts_of U tp q.
Proof. unfold acts_of. rewrite row_payload_base. reflexivity. Qed.

Lemma abs_nkind_base m tp q : abs_nkind U tp (node_base_pay m ++ q) = abs_nkind U tp q.
Proof. unfold abs_nkind. rewrite !fld_s_base, !acts_of_base by reflexivity. reflexivity. Qed.

(* ---------------------------------------------------------------- rows of plain actions are action rows *)
Lemma plain_tp (a : action U) tp q : plain_action U a = true -> action_fields a = Ok (tp, q) ->
  is_node_type tp = true /\ forall p, abs_nkind U tp p = (EAction, acts_of U tp p, None).
Proof.
  destruct a as [t qr at' tm|n v|pr v|ad gs|n v c|pa sc|n fu|u' me b hs rs|am rs|ty]; cbn [plain_action]; try discriminate; intros _; cbn [action_fields].
  - destruct (split_attachments at') as [[[i1 i2] i3] i4]. intros H. injection H as <- _. split; [reflexivity|intros p; reflexivity].
  - intros H. injection H as <- _. split; [reflexivity|intros p; reflexivity].
  - intros H. injection H as <- _. split; [reflexivity|intros p; reflexivity].
  - destruct gs as [|[nm u0] gs]; [discriminate|]. intros H. injection H as <- _. destruct ad; (split; [reflexivity|intros p; reflexivity]).
  - intros H. injection H as <- _. split; [reflexivity|intros p; reflexivity].
  - intros H. injection H as <- _. split; [reflexivity|intros p; reflexivity].
Qed.

(* ---------------------------------------------------------------- actions *)
Lemma osexp_eqb_eq a b : osexp_eqb a b = true -> a = b.
Proof. destruct a as [x|], b as [y|]; cbn [osexp_eqb]; try discriminate; [|reflexivity]. intros H. apply sexp_eqb_eq in H. congruence. Qed.

Lemma action_ok_spec (a : action U) : action_ok U a = true ->
  exists tp q, action_fields a = Ok (tp, q) /\ row_payload U tp q = Some (act_payload U a).
Proof.
  unfold action_ok. destruct (action_fields a) as [[tp q]|e]; [|discriminate]. intros H. apply osexp_eqb_eq in H. exists tp, q. auto.
Qed.

Lemma row_tp_action (m : node U) j a tp q : nth_error (n_actions m) j = Some a -> action_fields a = Ok (tp, q) ->
  row_tp U m j = Some (tp, node_base_pay m ++ q).
Proof.
  intros Hn Ha. unfold row_tp. destruct (n_actions m) as [|a0 l]; [destruct j; discriminate|]. rewrite Hn, Ha. reflexivity.
Qed.

Lemma flat_map_seq_nth {A B} (g : nat -> list B) (h : A -> B) (l : list A) : forall i0,
  (forall j a, nth_error l j = Some a -> g (i0 + j)%nat = [h a]) -> flat_map g (seq i0 (List.length l)) = map h l.
Proof.
  induction l as [|x l IH]; intros i0 H; [reflexivity|]. cbn [List.length seq flat_map map].
  rewrite (IH (S i0)) by (intros j a Hj; rewrite <- (H (S j) a Hj); f_equal; lia).
  pose proof (H 0%nat x eq_refl) as H0. rewrite Nat.add_0_r in H0. rewrite H0. reflexivity.
Qed.

(* ---------------------------------------------------------------- nodes without a router *)
Section Basic.
Variables (m : node U) (d : option U).
Hypothesis Hk : n_kind m = NBasic U d.
Hypothesis Hne : n_actions m <> [].
Hypothesis Hpl : forall a, In a (n_actions m) -> plain_action U a = true.
Hypothesis Hok : forall a, In a (n_actions m) -> action_ok U a = true.
Hypothesis Hstrip : strip = true -> (List.length (n_actions m) <= 1)%nat.

Lemma len_pos : (0 < List.length (n_actions m))%nat.
Proof. destruct (List.length (n_actions m)) eqn:E; [apply length_zero_iff_nil in E; contradiction|lia]. Qed.

Lemma nrows_basic : Nat.max 1 (List.length (n_actions m)) = List.length (n_actions m).
Proof. pose proof len_pos. lia. Qed.

Lemma basic_nk j a : nth_error (n_actions m) j = Some a ->
  exists tp q, row_tp U m j = Some (tp, node_base_pay m ++ q) /\ is_node_type tp = true /\ nk U m j = (EAction, [act_payload U a], None).
Proof.
  intros Hj. pose proof (nth_error_In _ _ Hj) as Hin. destruct (action_ok_spec a (Hok a Hin)) as (tp & q & Ha & Hp).
  destruct (plain_tp a tp q (Hpl a Hin) Ha) as [Ht Hn]. exists tp, q. pose proof (row_tp_action m j a tp q Hj Ha) as Er.
  split; [exact Er|]. split; [exact Ht|]. unfold nk. rewrite Er, abs_nkind_base, Hn. unfold acts_of. rewrite Hp. reflexivity.
Qed.

Lemma basic_runnable : runnable U strip m.
Proof.
  unfold runnable. rewrite nrows_basic. split; [|split].
  - intros j Hj. destruct (nth_error (n_actions m) j) as [a|] eqn:Ea; [|apply nth_error_None in Ea; lia].
    destruct (basic_nk j a Ea) as (tp & q & A & B & _). exists tp, (node_base_pay m ++ q). auto.
  - intros j [_ Hj]. destruct (nth_error (n_actions m) j) as [a|] eqn:Ea; [|apply nth_error_None in Ea; lia].
    destruct (basic_nk j a Ea) as (tp & q & _ & _ & C). unfold acts_at. rewrite C. discriminate.
  - intros Hs. pose proof (Hstrip Hs). pose proof len_pos. lia.
Qed.

Lemma basic_cls : cls_of U m = EAction /\ dec0_of U m = None.
Proof.
  destruct (nth_error (n_actions m) 0) as [a|] eqn:H0; [|apply nth_error_None in H0; pose proof len_pos; lia].
  destruct (basic_nk 0 a H0) as (tp & q & _ & _ & C). unfold cls_of, dec0_of. rewrite C. split; reflexivity.
Qed.

Lemma basic_acts : all_acts U m = map (act_payload U) (n_actions m).
Proof.
  unfold all_acts. rewrite nrows_basic. apply flat_map_seq_nth. intros j a Hj. cbn [Nat.add].
  destruct (basic_nk j a Hj) as (tp & q & _ & _ & C). unfold acts_at. rewrite C. reflexivity.
Qed.

Lemma basic_pairs last : exit_edge_pairs ueqb m last = Ok [(d, {| e_from := last; e_cond := no_cond |})].
Proof. unfold exit_edge_pairs. rewrite Hk. reflexivity. Qed.

Lemma basic_sens c : sens U m c = false.
Proof. unfold sens. rewrite Hk. reflexivity. Qed.

Lemma fL_blank_basic N t : rn_dec N = None -> fL U ustr EAction N (no_cond, t) = Some (mkRNode (rn_actions N) None t).
Proof. intros H. unfold fL, apply_row_edge. cbn [fst snd]. rewrite H. reflexivity. Qed.

Theorem basic_good : node_good U ueqb ustr strip m.
Proof.
  split; [apply basic_runnable|]. intros sn prs Hsn Hp. rewrite basic_pairs in Hp. injection Hp as <-.
  split; [intros p _ Hs; rewrite basic_sens in Hs; discriminate|].
  split; [cbn [map filter]; rewrite basic_sens; constructor|].
  intros kp dn Hdn. destruct basic_cls as [Ec Ed]. rewrite Ec.
  exists (fun N => rn_dec N = None /\ rn_actions N = all_acts U m).
  assert (HX : forall x, In x (Xabs U kp m [(d, {| e_from := last_row_id m sn; e_cond := no_cond |})]) -> x = (no_cond, dest_of U kp d)).
  { unfold Xabs. cbn [filter]. destruct (kept U m _); cbn [map]; intros x Hx; [destruct Hx as [<-|[]]; reflexivity|contradiction]. }
  split; [split; [exact Ed|reflexivity]|]. split; [|split].
  - intros a y b Hy [Ha1 Ha2] Hb. rewrite (HX y Hy), (fL_blank_basic a _ Ha1) in Hb. injection Hb as <-. split; [reflexivity|exact Ha2].
  - intros x y Hx Hy _ a _. rewrite (HX x Hx), (HX y Hy). reflexivity.
  - unfold Xabs, kept. cbn [filter fst snd]. destruct d as [d'|] eqn:Edd.
    + cbn [map fold_opt fold_left]. unfold fold_opt. cbn [fold_left]. rewrite fL_blank_basic by exact Ed. eexists. split; [reflexivity|].
      apply (NS_basic U ueqb ustr dn kp m _ (Some d') Hk); cbn [rn_actions rn_dec rn_cont init_node]; [apply basic_acts|reflexivity|reflexivity|].
      intros d0 E0. injection E0 as <-. apply (Hdn d' _ (or_introl eq_refl)).
    + assert (En : nkeep U m && negb (cond_blank (@no_cond U)) = false) by (cbn; apply andb_false_r).
      cbn [e_cond]. rewrite En. cbn [map]. exists (init_node U m). split; [reflexivity|].
      apply (NS_basic U ueqb ustr dn kp m _ None Hk); cbn [rn_actions rn_dec rn_cont init_node]; [apply basic_acts|exact Ed|reflexivity|discriminate].
Qed.
End Basic.

End Local.
