(* Facts about the row ids of Exp/ToRows.v (C17: "with --numbered the row ids are 1..n in row
   order, otherwise they are unique readable names").
   Part B: decimal printing is injective and yields digits only; the counter loop of the
           readable ids returns a name that is not taken.
   Part C: the temporary row ids of the DFS are pairwise distinct and every edge origin /
           go_to target names a row of the result (invariants of [visit]).
   Part D: the id map; [to_rows] is a relabelling of the temporary rows by a function that is
           injective on the ids in use; numbered ids are "1".."n"; readable ids are pairwise
           distinct; references resolve.
   Part F: [EFuel] / [EInternal] are never produced; the remapping never fails.
   Part E: the id skeleton of the rows is invariant under injective renamings of the uuids.
   No size bound anywhere: all statements are for every list of nodes. *)
From Coq Require Import String.
From Coq Require Import ZArith List NArith Bool Arith Lia ZifyBool.
From RPFT Require Import Base.Sexp Base.PyStr Base.PyStrFacts Base.Result Gen.Tables Exp.ToRows.
Import ListNotations.

Opaque no_args_tests short_types strip_excluded frm_field_headers.

(* ================================================================== Part B: decimals *)
Section Decimal.
Local Open Scope N_scope.

Fixpoint val_le (l : list N) : N :=
  match l with [] => 0 | d :: r => (d - 48) + 10 * val_le r end.

Lemma div_mod_10 n : n = 10 * (n / 10) + n mod 10 /\ n mod 10 < 10.
Proof. split; [apply N.div_mod'|apply N.mod_lt; discriminate]. Qed.

Lemma dec_le_val : forall fuel n, (N.to_nat n < fuel)%nat -> val_le (dec_le fuel n) = n.
Proof.
  induction fuel as [|f IH]; intros n H; [lia|].
  cbn [dec_le]. destruct (n <? 10) eqn:E.
  - apply N.ltb_lt in E. cbn [val_le]. lia.
  - apply N.ltb_ge in E. cbn [val_le]. rewrite IH.
    + destruct (div_mod_10 n) as [Hd Hm]. revert Hd Hm.
      generalize (n mod 10). generalize (n / 10). intros q r Hd Hm. lia.
    + assert (n / 10 < n) as Hlt by (apply N.div_lt; lia). lia.
Qed.

Lemma dec_of_N_inj a b : dec_of_N a = dec_of_N b -> a = b.
Proof.
  unfold dec_of_N. intros H. apply (f_equal (@rev N)) in H. rewrite !rev_involutive in H.
  apply (f_equal val_le) in H. rewrite !dec_le_val in H by lia. exact H.
Qed.

Lemma dec_of_nat_inj a b : dec_of_nat a = dec_of_nat b -> a = b.
Proof. unfold dec_of_nat. intros H. apply dec_of_N_inj in H. lia. Qed.

Definition is_digit (c : N) : Prop := 48 <= c /\ c <= 57.

Lemma dec_le_digits : forall fuel n, Forall is_digit (dec_le fuel n).
Proof.
  induction fuel as [|f IH]; intros n; cbn [dec_le]; [constructor|].
  destruct (n <? 10) eqn:E.
  - apply N.ltb_lt in E. constructor; [unfold is_digit; lia|constructor].
  - constructor; [|apply IH]. destruct (div_mod_10 n) as [_ Hm]. revert Hm.
    generalize (n mod 10). intros r Hm. unfold is_digit. lia.
Qed.

Lemma dec_of_nat_digits k : Forall is_digit (dec_of_nat k).
Proof. unfold dec_of_nat, dec_of_N. apply Forall_rev. apply dec_le_digits. Qed.

Lemma dec_of_nat_not_start k : dec_of_nat k <> lit "start".
Proof.
  intros H. pose proof (dec_of_nat_digits k) as Hd. rewrite H in Hd.
  inversion Hd as [|c l Hc Hl]; subst. unfold is_digit in Hc. lia.
Qed.

End Decimal.

(* the ".<counter>" suffixes *)
Lemma app_self_nil {T} (a b : list T) : a = a ++ b -> b = [].
Proof.
  intros H. rewrite <- (app_nil_r a) in H at 1. apply app_inv_head in H. symmetry. exact H.
Qed.

Lemma sub_short_inj sn i j : sub_short sn i = sub_short sn j -> i = j.
Proof.
  unfold sub_short. destruct i as [|i], j as [|j]; intros H; [reflexivity| | |].
  - apply app_self_nil in H. discriminate.
  - symmetry in H. apply app_self_nil in H. discriminate.
  - apply app_inv_head in H. injection H as H. apply dec_of_nat_inj in H. exact H.
Qed.

Lemma mem_str_false k l : mem_str k l = false -> ~ In k l.
Proof.
  unfold mem_str. intros H Hin. assert (existsb (str_eqb k) l = true) as Ht.
  { apply existsb_exists. exists k. split; [exact Hin|apply str_eqb_refl]. }
  congruence.
Qed.

Lemma find_free_fresh base values : forall fuel counter s,
  find_free fuel counter base values = Ok s -> ~ In s values.
Proof.
  induction fuel as [|fu IH]; intros counter s H; cbn [find_free] in H; [discriminate|].
  destruct (mem_str (base ++ [46%N] ++ dec_of_nat counter) values) eqn:E.
  - apply (IH _ _ H).
  - inversion H; subst. apply mem_str_false, E.
Qed.

Lemma fresh_id_fresh base values s : fresh_id base values = Ok s -> ~ In s values.
Proof.
  unfold fresh_id. destruct (mem_str base values) eqn:E.
  - apply find_free_fresh.
  - intros H. inversion H; subst. apply mem_str_false, E.
Qed.

Lemma NoDup_app_intro {T} (a b : list T) :
  NoDup a -> NoDup b -> (forall x, In x a -> In x b -> False) -> NoDup (a ++ b).
Proof.
  intros Ha Hb Hd. induction Ha as [|x a Hx Ha IH]; cbn [app]; [exact Hb|].
  constructor.
  - intros Hin. apply in_app_or in Hin. destruct Hin as [Hin|Hin]; [exact (Hx Hin)|].
    apply (Hd x); [left; reflexivity|exact Hin].
  - apply IH. intros y Hy Hy'. apply (Hd y); [right; exact Hy|exact Hy'].
Qed.

Lemma NoDup_map_inj {S T} (f : S -> T) (l : list S) :
  (forall a b, In a l -> In b l -> f a = f b -> a = b) -> NoDup l -> NoDup (map f l).
Proof.
  intros Hf Hl. induction Hl as [|x l Hx Hl IH]; cbn [map]; constructor.
  - intros Hin. apply in_map_iff in Hin. destruct Hin as [y [Hy Hin]].
    assert (y = x) by (apply Hf; [right; exact Hin|left; reflexivity|exact Hy]). subst. exact (Hx Hin).
  - apply IH. intros a b Ha Hb. apply Hf; right; assumption.
Qed.

(* the column of a stripped sheet under a header *)
Definition sheet_col (h : str) (sheet : list (list (str * upv))) : list (option upv) := map (assoc_str h) sheet.

(* finite check over the regenerated exclusion set: the row_id column is kept *)
Lemma row_id_not_excluded : excluded strip_excluded (lit "row_id") = false.
Proof. vm_compute. reflexivity. Qed.

(* ================================================================== Part C: the DFS *)
Section RowIds.
Variable U : Type.
Variable ueqb : U -> U -> bool.
Hypothesis ueqb_spec : forall a b, ueqb a b = true <-> a = b.

Notation tidU := (tid U).
Notation trow := (row U (tid U)).

Lemma ueqb_refl a : ueqb a a = true.
Proof. apply ueqb_spec. reflexivity. Qed.

Lemma tid_eqb_eq (a b : tidU) : tid_eqb ueqb a b = true <-> a = b.
Proof.
  destruct a as [|u s|k s], b as [|u' s'|k' s']; cbn [tid_eqb]; split; intros H;
    try discriminate; try reflexivity.
  - apply andb_true_iff in H. destruct H as [H1 H2]. apply ueqb_spec in H1. apply str_eqb_eq in H2. subst. reflexivity.
  - inversion H; subst. rewrite ueqb_refl, str_eqb_refl. reflexivity.
  - apply andb_true_iff in H. destruct H as [H1 H2]. apply Nat.eqb_eq in H1. apply str_eqb_eq in H2. subst. reflexivity.
  - inversion H; subst. rewrite Nat.eqb_refl, str_eqb_refl. reflexivity.
Qed.

Lemma mem_u_false u l : mem_u ueqb u l = false -> ~ In u l.
Proof.
  unfold mem_u. intros H Hin. assert (existsb (ueqb u) l = true) as Ht.
  { apply existsb_exists. exists u. split; [exact Hin|apply ueqb_refl]. }
  congruence.
Qed.

Lemma mem_u_true u l : mem_u ueqb u l = true -> In u l.
Proof.
  unfold mem_u. intros H. apply existsb_exists in H. destruct H as [x [Hin Hx]].
  apply ueqb_spec in Hx. subst. exact Hin.
Qed.

(* ---- the rows that a node contributes *)
Definition node_row_ids (n : node U) (sn : str) : list tidU :=
  map (fun j => TNode (n_uuid n) (sub_short sn j)) (seq 0 (Nat.max 1 (List.length (n_actions n)))).

Definition row_refs (r : trow) : list tidU := map e_from (r_edges r) ++ r_goto r.

Lemma action_rows_ids u sn base acts : forall i pe (rms : list trow),
  action_rows u sn base acts i pe = Ok rms ->
  map r_id rms = map (fun j => TNode u (sub_short sn j)) (seq i (List.length acts)).
Proof.
  induction acts as [|a rest IH]; intros i pe rms H; cbn [action_rows] in H.
  - inversion H; subst. reflexivity.
  - destruct (action_fields a) as [tp|e]; cbn [bind] in H; [|discriminate].
    destruct (action_rows u sn base rest (S i) _) as [more|e] eqn:Em; cbn [bind] in H; [|discriminate].
    inversion H; subst. cbn [map r_id List.length seq]. f_equal. apply (IH _ _ _ Em).
Qed.

Lemma action_rows_refs u sn base acts : forall i pe (rms : list trow),
  action_rows u sn base acts i pe = Ok rms ->
  Forall (fun r => Forall (fun t => t = e_from pe \/ In t (map r_id rms)) (row_refs r)) rms.
Proof.
  induction acts as [|a rest IH]; intros i pe rms H; cbn [action_rows] in H.
  - inversion H; subst. constructor.
  - destruct (action_fields a) as [tp|e]; cbn [bind] in H; [|discriminate].
    destruct (action_rows u sn base rest (S i) _) as [more|e] eqn:Em; cbn [bind] in H; [|discriminate].
    inversion H; subst. constructor.
    + unfold row_refs. cbn [r_edges r_goto map app]. constructor; [left; reflexivity|constructor].
    + apply IH in Em. cbn [e_from] in Em. cbn [map r_id].
      eapply Forall_impl; [|exact Em]. intros r Hr. cbn beta in Hr |- *.
      eapply Forall_impl; [|exact Hr]. intros t [Ht|Ht]; right; [left; symmetry; exact Ht|right; exact Ht].
Qed.

Lemma initiate_ids n sn pe (rms : list trow) :
  initiate_row_models n sn pe = Ok rms -> map r_id rms = node_row_ids n sn.
Proof.
  unfold initiate_row_models, node_row_ids. intros H.
  destruct (node_kwargs n) as [kw|e]; cbn [bind] in H; [|discriminate].
  destruct (n_actions n) as [|a rest] eqn:Ea.
  - destruct kw as [[tp p]|]; [|discriminate]. inversion H; subst. reflexivity.
  - apply action_rows_ids in H. rewrite H. cbn [List.length Nat.max]. reflexivity.
Qed.

Lemma initiate_refs n sn pe (rms : list trow) :
  initiate_row_models n sn pe = Ok rms ->
  Forall (fun r => Forall (fun t => t = e_from pe \/ In t (map r_id rms)) (row_refs r)) rms.
Proof.
  unfold initiate_row_models. intros H.
  destruct (node_kwargs n) as [kw|e]; cbn [bind] in H; [|discriminate].
  destruct (n_actions n) as [|a rest] eqn:Ea.
  - destruct kw as [[tp p]|]; [|discriminate]. inversion H; subst.
    constructor; [|constructor]. unfold row_refs. cbn [r_edges r_goto map app].
    constructor; [left; reflexivity|constructor].
  - apply (action_rows_refs _ _ _ _ _ _ _ H).
Qed.

Lemma node_row_ids_nodup n sn : NoDup (node_row_ids n sn).
Proof.
  unfold node_row_ids. apply NoDup_map_inj; [|apply seq_NoDup].
  intros i j _ _ H. inversion H as [H1]. apply sub_short_inj in H1. exact H1.
Qed.

Lemma node_row_ids_uuid n sn t : In t (node_row_ids n sn) -> exists s, t = TNode (n_uuid n) s.
Proof.
  unfold node_row_ids. intros H. apply in_map_iff in H. destruct H as [j [Hj _]]. eexists. symmetry. exact Hj.
Qed.

Lemma first_in_node_row_ids n sn : In (TNode (n_uuid n) sn) (node_row_ids n sn).
Proof.
  unfold node_row_ids. apply in_map_iff. exists 0%nat. split; [reflexivity|].
  apply in_seq. lia.
Qed.

Lemma last_in_node_row_ids n sn : In (last_row_id n sn) (node_row_ids n sn).
Proof.
  unfold node_row_ids, last_row_id. apply in_map_iff. exists (pred (List.length (n_actions n))). split; [reflexivity|].
  apply in_seq. lia.
Qed.

(* ---- every outgoing edge of a node leaves its last row *)
Lemma category_pairs_from r last cats : forall covered pc,
  category_pairs ueqb r last cats covered = Ok pc -> Forall (fun p => e_from (snd p) = last) (fst pc).
Proof.
  induction cats as [|c rest IH]; intros covered pc H; cbn [category_pairs] in H.
  - inversion H; subst. constructor.
  - destruct (find _ (sw_cases r)) as [k|].
    + destruct (case_cond r k c) as [cd|e]; cbn [bind] in H; [|discriminate].
      destruct (category_pairs ueqb r last rest (c_uuid c :: covered)) as [more|e] eqn:Em; cbn [bind] in H; [|discriminate].
      inversion H; subst. cbn [fst]. constructor; [reflexivity|apply (IH _ _ Em)].
    + apply (IH _ _ H).
Qed.

Lemma case_pairs_from r last cats cases : forall covered pc,
  case_pairs ueqb r last cats cases covered = Ok pc -> Forall (fun p => e_from (snd p) = last) (fst pc).
Proof.
  induction cases as [|k rest IH]; intros covered pc H; cbn [case_pairs] in H.
  - inversion H; subst. constructor.
  - destruct (find _ cats) as [c|].
    + destruct (case_cond r k c) as [cd|e]; cbn [bind] in H; [|discriminate].
      destruct (case_pairs ueqb r last cats rest (c_uuid c :: covered)) as [more|e] eqn:Em; cbn [bind] in H; [|discriminate].
      inversion H; subst. cbn [fst]. constructor; [reflexivity|apply (IH _ _ Em)].
    + apply (IH _ _ H).
Qed.

Lemma noresp_pairs_from (r : srouter U) (last : tidU) : Forall (fun p => e_from (snd p) = last) (noresp_pairs r last).
Proof.
  unfold noresp_pairs. destruct (sw_noresp r) as [c|]; [|constructor].
  destruct (c_dest c); [constructor; [reflexivity|constructor]|].
  destruct loose_exit_rows; constructor; [reflexivity|constructor].
Qed.

Lemma exit_edge_pairs_from n last prs :
  exit_edge_pairs ueqb n last = Ok prs -> Forall (fun p => e_from (snd p) = last) prs.
Proof.
  unfold exit_edge_pairs. destruct (n_kind n) as [d|rk r|rs cats]; intros H.
  - inversion H; subst. constructor; [reflexivity|constructor].
  - unfold switch_pairs in H.
    destruct (if pairs_follow_cases then _ else _) as [pc|e] eqn:Ec; cbn [bind] in H; [|discriminate].
    inversion H; subst. rewrite !Forall_app. split; [|split].
    + destruct pairs_follow_cases; [apply (case_pairs_from _ _ _ _ _ _ Ec)|apply (category_pairs_from _ _ _ _ _ Ec)].
    + destruct (mem_u ueqb _ _); constructor; [reflexivity|constructor].
    + apply noresp_pairs_from.
  - inversion H; subst. rewrite Forall_map. apply Forall_forall. intros c _. reflexivity.
Qed.

Lemma prepend_edge_ids t e rows : forall rows',
  prepend_edge ueqb t e rows = Some rows' -> map r_id rows' = map r_id rows.
Proof.
  induction rows as [|r rest IH]; intros rows' H; cbn [prepend_edge] in H; [discriminate|].
  destruct (tid_eqb ueqb (r_id r) t).
  - inversion H; subst. reflexivity.
  - destruct (prepend_edge ueqb t e rest) as [rest'|]; [|discriminate].
    inversion H; subst. cbn [map]. f_equal. apply IH. reflexivity.
Qed.

Lemma prepend_edge_refs (Q : tidU -> Prop) t e rows : forall rows',
  Q (e_from e) ->
  Forall (fun r => Forall Q (row_refs r)) rows ->
  prepend_edge ueqb t e rows = Some rows' ->
  Forall (fun r => Forall Q (row_refs r)) rows'.
Proof.
  intros rows' He. revert rows'.
  induction rows as [|r rest IH]; intros rows' Hr H; cbn [prepend_edge] in H; [discriminate|].
  inversion Hr as [|r0 l0 Hr1 Hr2]; subst.
  destruct (tid_eqb ueqb (r_id r) t).
  - inversion H; subst. constructor; [|exact Hr2].
    unfold row_refs in *. cbn [r_edges r_goto map app]. constructor; [exact He|exact Hr1].
  - destruct (prepend_edge ueqb t e rest) as [rest'|]; [|discriminate].
    inversion H; subst. constructor; [exact Hr1|]. apply IH; [exact Hr2|reflexivity].
Qed.

Lemma find_node_uuid nodes d c : find_node ueqb nodes d = Some c -> n_uuid c = d.
Proof.
  induction nodes as [|m rest IH]; cbn [find_node]; [discriminate|].
  destruct (ueqb (n_uuid m) d) eqn:E; intros H.
  - inversion H; subst. apply ueqb_spec, E.
  - apply IH, H.
Qed.

(* ---- how a visit extends the state *)
Record Ext (st st' : state U) : Prop := {
  ext_vis : incl (st_vis st) (st_vis st');
  ext_done : incl (st_done st) (st_done st');
  ext_new_done : forall u, In u (st_done st') -> In u (st_done st) \/ ~ In u (st_vis st);
  ext_new_vis : forall u, In u (st_vis st') -> In u (st_vis st) \/ In u (st_done st');
  ext_k : (st_k st <= st_k st')%nat;
  ext_ids : incl (map r_id (st_rows st)) (map r_id (st_rows st')) }.

Lemma Ext_refl st : Ext st st.
Proof.
  constructor; try apply incl_refl; [intros u H; left; exact H|intros u H; left; exact H|lia].
Qed.

Lemma Ext_trans a b c : Ext a b -> Ext b c -> Ext a c.
Proof.
  intros [v1 d1 nd1 nv1 k1 i1] [v2 d2 nd2 nv2 k2 i2]. constructor.
  - eapply incl_tran; eassumption.
  - eapply incl_tran; eassumption.
  - intros u H. destruct (nd2 u H) as [H1|H1]; [apply nd1, H1|right; intros H2; apply H1, v1, H2].
  - intros u H. destruct (nv2 u H) as [H1|H1]; [|right; exact H1].
    destruct (nv1 u H1) as [H2|H2]; [left; exact H2|right; apply d2, H2].
  - lia.
  - eapply incl_tran; eassumption.
Qed.

Section Dfs.
Variable nodes : list (node U).

Definition rec_ext (rec : node U -> edge U tidU -> state U -> res (state U)) : Prop :=
  forall c e s s', ~ In (n_uuid c) (st_vis s) -> rec c e s = Ok s' -> Ext s s'.

Lemma step_ext rec : rec_ext rec ->
  forall st p st', step ueqb nodes rec st p = Ok st' -> Ext st st'.
Proof.
  intros Hrec st [d e] st' H. unfold step in H. cbn [fst snd] in H.
  destruct d as [d|]; [|inversion H; subst; apply Ext_refl].
  destruct (find_node ueqb nodes d) as [child|]; [|discriminate].
  destruct (mem_u ueqb (n_uuid child) (st_done st)).
  - destruct (short_name child) as [csn|er]; cbn [bind] in H; [|discriminate].
    destruct (prepend_edge ueqb _ e (st_rows st)) as [rows'|] eqn:Ep; [|discriminate].
    inversion H; subst. apply prepend_edge_ids in Ep.
    constructor; cbn [st_vis st_done st_rows st_k]; try apply incl_refl;
      [intros u Hu; left; exact Hu|intros u Hu; left; exact Hu|lia|rewrite Ep; apply incl_refl].
  - destruct (mem_u ueqb (n_uuid child) (st_vis st)) eqn:Ev.
    + destruct (short_name child) as [csn|er]; cbn [bind] in H; [|discriminate].
      inversion H; subst.
      constructor; cbn [st_vis st_done st_rows st_k]; try apply incl_refl;
        [intros u Hu; left; exact Hu|intros u Hu; left; exact Hu|lia|cbn [map]; apply incl_tl, incl_refl].
    + apply (Hrec _ _ _ _ (mem_u_false _ _ Ev) H).
Qed.

(* an edge that leads nowhere: nothing, or (tree with loose_exit rows) one more row with a fresh id *)
Lemma step_fx_ext rec : rec_ext rec ->
  forall keep sn st p st', step_fx ueqb nodes keep sn rec st p = Ok st' -> Ext st st'.
Proof.
  intros Hrec keep sn st [d e] st' H. unfold step_fx in H. cbn [fst snd] in H.
  destruct d as [d|]; [apply (step_ext rec Hrec st (Some d, e) st' H)|].
  destruct (keep && negb (cond_blank (e_cond e))); inversion H; subst; [|apply Ext_refl].
  constructor; cbn [st_vis st_done st_rows st_k]; try apply incl_refl;
    [intros u Hu; left; exact Hu|intros u Hu; left; exact Hu|lia|cbn [map]; apply incl_tl, incl_refl].
Qed.

Lemma foldM_step_ext rec : rec_ext rec ->
  forall keep sn prs st st', foldM (step_fx ueqb nodes keep sn rec) prs st = Ok st' -> Ext st st'.
Proof.
  intros Hrec keep sn prs. induction prs as [|p rest IH]; intros st st' H; cbn [foldM] in H.
  - inversion H; subst. apply Ext_refl.
  - destruct (step_fx ueqb nodes keep sn rec st p) as [st1|e] eqn:Es; [|discriminate].
    eapply Ext_trans; [apply (step_fx_ext rec Hrec _ _ _ _ _ Es)|apply (IH _ _ H)].
Qed.

Lemma visit_ext : forall fuel, rec_ext (visit ueqb nodes fuel).
Proof.
  induction fuel as [|fuel IH]; intros n pe st st' Hn H; cbn [visit] in H; [discriminate|].
  destruct (short_name n) as [sn|e]; cbn [bind] in H; [|discriminate].
  destruct (initiate_row_models n sn pe) as [rms|e]; cbn [bind] in H; [|discriminate].
  destruct (exit_edge_pairs ueqb n (last_row_id n sn)) as [prs|e]; cbn [bind] in H; [|discriminate].
  destruct (foldM _ (rev prs) _) as [st1|e] eqn:Ef; cbn [bind] in H; [|discriminate].
  apply (foldM_step_ext _ IH) in Ef. destruct Ef as [v1 d1 nd1 nv1 k1 i1].
  cbn [st_vis st_done st_rows st_k] in *.
  inversion H; subst. constructor; cbn [st_vis st_done st_rows st_k].
  - intros u Hu. apply v1. right. exact Hu.
  - intros u Hu. right. apply d1, Hu.
  - intros u [Hu|Hu]; [subst; right; exact Hn|].
    destruct (nd1 u Hu) as [H1|H1]; [left; exact H1|right; intros H2; apply H1; right; exact H2].
  - intros u Hu. destruct (nv1 u Hu) as [[H1|H1]|H1]; [subst; right; left; reflexivity|left; exact H1|right; right; exact H1].
  - exact k1.
  - rewrite map_app. apply incl_appr. exact i1.
Qed.

(* ---- temporary ids are pairwise distinct *)
Definition id_ok (st : state U) (t : tidU) : Prop :=
  match t with
  | TStart => False
  | TNode u _ => In u (st_done st)
  | TGoto k _ => (k < st_k st)%nat
  end.

Definition Inv (st : state U) : Prop :=
  NoDup (map r_id (st_rows st)) /\ Forall (id_ok st) (map r_id (st_rows st)).

Definition rec_inv (rec : node U -> edge U tidU -> state U -> res (state U)) : Prop :=
  forall c e s s', ~ In (n_uuid c) (st_vis s) -> ~ In (n_uuid c) (st_done s) -> Inv s -> rec c e s = Ok s' -> Inv s'.

Lemma step_inv rec : rec_inv rec ->
  forall st p st', Inv st -> step ueqb nodes rec st p = Ok st' -> Inv st'.
Proof.
  intros Hrec st [d e] st' [Hnd Hok] H. unfold step in H. cbn [fst snd] in H.
  destruct d as [d|]; [|inversion H; subst; split; assumption].
  destruct (find_node ueqb nodes d) as [child|]; [|discriminate].
  destruct (mem_u ueqb (n_uuid child) (st_done st)) eqn:Ed.
  - destruct (short_name child) as [csn|er]; cbn [bind] in H; [|discriminate].
    destruct (prepend_edge ueqb _ e (st_rows st)) as [rows'|] eqn:Ep; [|discriminate].
    inversion H; subst. apply prepend_edge_ids in Ep.
    unfold Inv. cbn [st_rows]. rewrite Ep. split; [exact Hnd|exact Hok].
  - destruct (mem_u ueqb (n_uuid child) (st_vis st)) eqn:Ev.
    + destruct (short_name child) as [csn|er]; cbn [bind] in H; [|discriminate].
      inversion H; subst. unfold Inv. cbn [st_rows map goto_row r_id]. split.
      * constructor; [|exact Hnd]. intros Hin. rewrite Forall_forall in Hok.
        apply Hok in Hin. cbn [id_ok] in Hin. lia.
      * constructor; [cbn [id_ok st_k]; lia|].
        eapply Forall_impl; [|exact Hok]. intros t Ht. destruct t; cbn [id_ok st_done st_k] in *; [exact Ht|exact Ht|lia].
    + apply (Hrec _ _ _ _ (mem_u_false _ _ Ev) (mem_u_false _ _ Ed) (conj Hnd Hok) H).
Qed.

Lemma step_fx_inv rec : rec_inv rec ->
  forall keep sn st p st', Inv st -> step_fx ueqb nodes keep sn rec st p = Ok st' -> Inv st'.
Proof.
  intros Hrec keep sn st [d e] st' [Hnd Hok] H. unfold step_fx in H. cbn [fst snd] in H.
  destruct d as [d|]; [apply (step_inv rec Hrec st (Some d, e) st' (conj Hnd Hok) H)|].
  destruct (keep && negb (cond_blank (e_cond e))); inversion H; subst; [|split; assumption].
  unfold Inv. cbn [st_rows map loose_row r_id]. split.
  - constructor; [|exact Hnd]. intros Hin. rewrite Forall_forall in Hok.
    apply Hok in Hin. cbn [id_ok] in Hin. lia.
  - constructor; [cbn [id_ok st_k]; lia|].
    eapply Forall_impl; [|exact Hok]. intros t Ht. destruct t; cbn [id_ok st_done st_k] in *; [exact Ht|exact Ht|lia].
Qed.

Lemma foldM_step_inv rec : rec_inv rec ->
  forall keep sn prs st st', Inv st -> foldM (step_fx ueqb nodes keep sn rec) prs st = Ok st' -> Inv st'.
Proof.
  intros Hrec keep sn prs. induction prs as [|p rest IH]; intros st st' Hi H; cbn [foldM] in H.
  - inversion H; subst. exact Hi.
  - destruct (step_fx ueqb nodes keep sn rec st p) as [st1|e] eqn:Es; [|discriminate].
    apply (IH _ _ (step_fx_inv rec Hrec _ _ _ _ _ Hi Es) H).
Qed.

Lemma visit_inv : forall fuel, rec_inv (visit ueqb nodes fuel).
Proof.
  induction fuel as [|fuel IH]; intros n pe st st' Hv Hd [Hnd Hok] H; cbn [visit] in H; [discriminate|].
  destruct (short_name n) as [sn|e]; cbn [bind] in H; [|discriminate].
  destruct (initiate_row_models n sn pe) as [rms|e] eqn:Ei; cbn [bind] in H; [|discriminate].
  destruct (exit_edge_pairs ueqb n (last_row_id n sn)) as [prs|e]; cbn [bind] in H; [|discriminate].
  destruct (foldM _ (rev prs) _) as [st1|e] eqn:Ef; cbn [bind] in H; [|discriminate].
  pose proof (foldM_step_ext _ (visit_ext fuel) _ _ _ _ _ Ef) as [v1 d1 nd1 nv1 k1 i1].
  apply (foldM_step_inv _ IH) in Ef; [|split; assumption].
  destruct Ef as [Hnd1 Hok1]. cbn [st_vis st_done st_rows st_k] in *.
  assert (Hn1 : ~ In (n_uuid n) (st_done st1)).
  { intros Hin. destruct (nd1 _ Hin) as [H1|H1]; [exact (Hd H1)|apply H1; left; reflexivity]. }
  apply initiate_ids in Ei.
  inversion H; subst. unfold Inv. cbn [st_rows st_done st_k]. rewrite map_app, Ei. split.
  - apply NoDup_app_intro; [apply node_row_ids_nodup|exact Hnd1|].
    intros t Ht Ht1. apply node_row_ids_uuid in Ht. destruct Ht as [s Hs]. subst t.
    rewrite Forall_forall in Hok1. apply Hok1 in Ht1. cbn [id_ok] in Ht1. exact (Hn1 Ht1).
  - apply Forall_app. split.
    + apply Forall_forall. intros t Ht. apply node_row_ids_uuid in Ht. destruct Ht as [s Hs]. subst t.
      cbn [id_ok st_done]. left. reflexivity.
    + eapply Forall_impl; [|exact Hok1]. intros t Ht.
      destruct t; cbn [id_ok st_done st_k] in *; [exact Ht|right; exact Ht|exact Ht].
Qed.

(* ---- references: every edge origin / go_to target is "start", the id of a row, or promised *)
Definition allowed (ids P : list tidU) (t : tidU) : Prop := t = TStart \/ In t ids \/ In t P.
Definition RefsI (ids P : list tidU) (rows : list trow) : Prop :=
  Forall (fun r => Forall (allowed ids P) (row_refs r)) rows.
Definition Refs (rows : list trow) (P : list tidU) : Prop := RefsI (map r_id rows) P rows.

(* the rows of a node that is being visited (on the DFS stack) are promised *)
Definition Promise (st : state U) (P : list tidU) : Prop :=
  forall c csn, find_node ueqb nodes (n_uuid c) = Some c ->
                In (n_uuid c) (st_vis st) -> ~ In (n_uuid c) (st_done st) ->
                short_name c = Ok csn -> In (TNode (n_uuid c) csn) P.

Lemma allowed_mono ids ids' P P' t :
  incl ids ids' -> (forall x, In x P -> In x ids' \/ In x P') -> allowed ids P t -> allowed ids' P' t.
Proof.
  intros Hi Hp [H|[H|H]]; [left; exact H|right; left; apply Hi, H|].
  destruct (Hp _ H) as [H1|H1]; [right; left; exact H1|right; right; exact H1].
Qed.

Lemma RefsI_mono ids ids' P P' rows :
  incl ids ids' -> (forall x, In x P -> In x ids' \/ In x P') -> RefsI ids P rows -> RefsI ids' P' rows.
Proof.
  intros Hi Hp H. unfold RefsI in *. eapply Forall_impl; [|exact H]. intros r Hr. cbn beta in *.
  eapply Forall_impl; [|exact Hr]. intros t. apply allowed_mono; assumption.
Qed.

Lemma Promise_ext st st' P : Ext st st' -> Promise st P -> Promise st' P.
Proof.
  intros [v1 d1 nd1 nv1 k1 i1] Hp c csn Hf Hv Hd Hs. apply (Hp c csn Hf); [|intros H; apply Hd, d1, H|exact Hs].
  destruct (nv1 _ Hv) as [H|H]; [exact H|contradiction].
Qed.

Definition rec_refs (rec : node U -> edge U tidU -> state U -> res (state U)) : Prop :=
  forall c e s s' P, find_node ueqb nodes (n_uuid c) = Some c -> ~ In (n_uuid c) (st_vis s) ->
    Promise s P -> Refs (st_rows s) P -> allowed (map r_id (st_rows s)) P (e_from e) ->
    rec c e s = Ok s' -> Refs (st_rows s') P.

Lemma step_refs rec : rec_refs rec ->
  forall st p st' P, Promise st P -> Refs (st_rows st) P -> In (e_from (snd p)) P ->
    step ueqb nodes rec st p = Ok st' -> Refs (st_rows st') P.
Proof.
  intros Hrec st [d e] st' P Hp Hr He H. unfold step in H. cbn [fst snd] in *.
  destruct d as [d|]; [|inversion H; subst; exact Hr].
  destruct (find_node ueqb nodes d) as [child|] eqn:Efn; [|discriminate].
  pose proof (find_node_uuid _ _ _ Efn) as Hu. rewrite <- Hu in Efn.
  destruct (mem_u ueqb (n_uuid child) (st_done st)) eqn:Ed.
  - destruct (short_name child) as [csn|er]; cbn [bind] in H; [|discriminate].
    destruct (prepend_edge ueqb _ e (st_rows st)) as [rows'|] eqn:Ep; [|discriminate].
    inversion H; subst st'. cbn [st_rows]. unfold Refs, RefsI.
    rewrite (prepend_edge_ids _ _ _ _ Ep).
    apply (prepend_edge_refs _ _ _ _ _ (or_intror (or_intror He)) Hr Ep).
  - destruct (mem_u ueqb (n_uuid child) (st_vis st)) eqn:Ev.
    + destruct (short_name child) as [csn|er] eqn:Es; cbn [bind] in H; [|discriminate].
      inversion H; subst st'. cbn [st_rows]. unfold Refs. cbn [map]. constructor.
      * unfold row_refs, goto_row. cbn [r_edges r_goto map app].
        constructor; [right; right; exact He|]. constructor; [|constructor].
        right; right. apply (Hp child csn Efn (mem_u_true _ _ Ev) (mem_u_false _ _ Ed) Es).
      * eapply RefsI_mono; [| |exact Hr]; [apply incl_tl, incl_refl|intros x Hx; right; exact Hx].
    + apply (Hrec _ _ _ _ _ Efn (mem_u_false _ _ Ev) Hp Hr (or_intror (or_intror He)) H).
Qed.

Lemma step_fx_refs rec : rec_refs rec ->
  forall keep sn st p st' P, Promise st P -> Refs (st_rows st) P -> In (e_from (snd p)) P ->
    step_fx ueqb nodes keep sn rec st p = Ok st' -> Refs (st_rows st') P.
Proof.
  intros Hrec keep sn st [d e] st' P Hp Hr He H. unfold step_fx in H. cbn [fst snd] in *.
  destruct d as [d|]; [apply (step_refs rec Hrec st (Some d, e) st' P Hp Hr He H)|].
  destruct (keep && negb (cond_blank (e_cond e))); inversion H; subst st'; [|exact Hr].
  cbn [st_rows]. unfold Refs. cbn [map]. constructor.
  - unfold row_refs, loose_row. cbn [r_edges r_goto map app]. constructor; [right; right; exact He|constructor].
  - eapply RefsI_mono; [| |exact Hr]; [apply incl_tl, incl_refl|intros x Hx; right; exact Hx].
Qed.

Lemma foldM_step_refs rec : rec_ext rec -> rec_refs rec ->
  forall keep sn prs st st' P, Promise st P -> Refs (st_rows st) P ->
    Forall (fun p => In (e_from (snd p)) P) prs ->
    foldM (step_fx ueqb nodes keep sn rec) prs st = Ok st' -> Refs (st_rows st') P.
Proof.
  intros Hext Hrec keep sn prs. induction prs as [|p rest IH]; intros st st' P Hp Hr Hf H; cbn [foldM] in H.
  - inversion H; subst. exact Hr.
  - inversion Hf as [|p0 l0 Hf1 Hf2]; subst.
    destruct (step_fx ueqb nodes keep sn rec st p) as [st1|e] eqn:Es; [|discriminate].
    apply (IH st1 st' P); [|apply (step_fx_refs rec Hrec _ _ _ _ _ _ Hp Hr Hf1 Es)|exact Hf2|exact H].
    apply (Promise_ext st); [apply (step_fx_ext rec Hext _ _ _ _ _ Es)|exact Hp].
Qed.

Lemma visit_refs : forall fuel, rec_refs (visit ueqb nodes fuel).
Proof.
  induction fuel as [|fuel IH]; intros n pe st st' P Hfn Hv Hp Hr Hpe H; cbn [visit] in H; [discriminate|].
  destruct (short_name n) as [sn|e] eqn:Esn; cbn [bind] in H; [|discriminate].
  destruct (initiate_row_models n sn pe) as [rms|e] eqn:Ei; cbn [bind] in H; [|discriminate].
  destruct (exit_edge_pairs ueqb n (last_row_id n sn)) as [prs|e] eqn:Ee; cbn [bind] in H; [|discriminate].
  destruct (foldM _ (rev prs) _) as [st1|e] eqn:Ef; cbn [bind] in H; [|discriminate].
  pose proof (foldM_step_ext _ (visit_ext fuel) _ _ _ _ _ Ef) as [v1 d1 nd1 nv1 k1 i1].
  set (P' := last_row_id n sn :: TNode (n_uuid n) sn :: P).
  apply (foldM_step_refs _ (visit_ext fuel) IH _ _ _ _ _ P') in Ef.
  - cbn [st_vis st_done st_rows st_k] in *.
    pose proof (initiate_ids _ _ _ _ Ei) as Hids. pose proof (initiate_refs _ _ _ _ Ei) as Hrr.
    inversion H; subst st'. cbn [st_rows]. unfold Refs, RefsI. rewrite map_app, Hids.
    apply Forall_app. split.
    + eapply Forall_impl; [|exact Hrr]. intros r Hrow. cbn beta in *.
      eapply Forall_impl; [|exact Hrow]. intros t [Ht|Ht].
      * subst t. eapply allowed_mono; [| |exact Hpe]; [|intros x Hx; right; exact Hx].
        apply incl_appr. exact i1.
      * right; left. rewrite Hids in Ht. apply in_or_app. left. exact Ht.
    + eapply RefsI_mono; [| |exact Ef]; [apply incl_appr, incl_refl|].
      intros x [Hx|[Hx|Hx]]; [subst x|subst x|right; exact Hx]; left; apply in_or_app; left.
      * apply last_in_node_row_ids.
      * apply first_in_node_row_ids.
  - (* promise for the stack with n on it *)
    intros c csn Hc Hvis Hdone Hs. cbn [st_vis st_done] in *.
    destruct Hvis as [Hvis|Hvis].
    + assert (c = n) by (rewrite <- Hvis in Hc; rewrite Hfn in Hc; inversion Hc; reflexivity).
      subst c. rewrite Esn in Hs. inversion Hs; subst csn. right; left. reflexivity.
    + right; right. apply (Hp c csn Hc Hvis Hdone Hs).
  - cbn [st_rows]. eapply RefsI_mono; [apply incl_refl| |exact Hr]. intros x Hx. right. right; right. exact Hx.
  - apply Forall_rev. apply exit_edge_pairs_from in Ee.
    eapply Forall_impl; [|exact Ee]. intros p Hpf. cbn beta in Hpf. rewrite Hpf. left. reflexivity.
Qed.

(* ---- a predicate on rows that the three ways of making / changing a row respect holds of
   every row of the state *)
Section RowPred.
Variable Q : trow -> Prop.
Hypothesis Q_init : forall n sn pe rms, initiate_row_models n sn pe = Ok rms -> Forall Q rms.
Hypothesis Q_goto : forall k u cs s e, Q (goto_row k (TNode u cs) s e).
Hypothesis Q_loose : forall k sn e, Q (loose_row k sn e).
Hypothesis Q_prepend : forall r e, Q r ->
  Q {| r_id := r_id r; r_type := r_type r; r_edges := e :: r_edges r; r_goto := r_goto r; r_pay := r_pay r |}.

Lemma prepend_edge_pred t e rows : forall rows',
  Forall Q rows -> prepend_edge ueqb t e rows = Some rows' -> Forall Q rows'.
Proof.
  induction rows as [|r rest IH]; intros rows' Hr H; cbn [prepend_edge] in H; [discriminate|].
  inversion Hr as [|r0 l0 Hr1 Hr2]; subst.
  destruct (tid_eqb ueqb (r_id r) t).
  - inversion H; subst. constructor; [apply Q_prepend, Hr1|exact Hr2].
  - destruct (prepend_edge ueqb t e rest) as [rest'|]; [|discriminate].
    inversion H; subst. constructor; [exact Hr1|]. apply IH; [exact Hr2|reflexivity].
Qed.

Definition rec_pred (rec : node U -> edge U tidU -> state U -> res (state U)) : Prop :=
  forall c e s s', Forall Q (st_rows s) -> rec c e s = Ok s' -> Forall Q (st_rows s').

Lemma step_pred rec : rec_pred rec ->
  forall st p st', Forall Q (st_rows st) -> step ueqb nodes rec st p = Ok st' -> Forall Q (st_rows st').
Proof.
  intros Hrec st [d e] st' Hq H. unfold step in H. cbn [fst snd] in H.
  destruct d as [d|]; [|inversion H; subst; exact Hq].
  destruct (find_node ueqb nodes d) as [child|]; [|discriminate].
  destruct (mem_u ueqb (n_uuid child) (st_done st)).
  - destruct (short_name child) as [csn|er]; cbn [bind] in H; [|discriminate].
    destruct (prepend_edge ueqb _ e (st_rows st)) as [rows'|] eqn:Ep; [|discriminate].
    inversion H; subst. cbn [st_rows]. apply (prepend_edge_pred _ _ _ _ Hq Ep).
  - destruct (mem_u ueqb (n_uuid child) (st_vis st)).
    + destruct (short_name child) as [csn|er]; cbn [bind] in H; [|discriminate].
      inversion H; subst. cbn [st_rows]. constructor; [apply Q_goto|exact Hq].
    + apply (Hrec _ _ _ _ Hq H).
Qed.

Lemma step_fx_pred rec : rec_pred rec ->
  forall keep sn st p st', Forall Q (st_rows st) -> step_fx ueqb nodes keep sn rec st p = Ok st' -> Forall Q (st_rows st').
Proof.
  intros Hrec keep sn st [d e] st' Hq H. unfold step_fx in H. cbn [fst snd] in H.
  destruct d as [d|]; [apply (step_pred rec Hrec st (Some d, e) st' Hq H)|].
  destruct (keep && negb (cond_blank (e_cond e))); inversion H; subst; [|exact Hq].
  cbn [st_rows]. constructor; [apply Q_loose|exact Hq].
Qed.

Lemma foldM_step_pred rec : rec_pred rec ->
  forall keep sn prs st st', Forall Q (st_rows st) -> foldM (step_fx ueqb nodes keep sn rec) prs st = Ok st' -> Forall Q (st_rows st').
Proof.
  intros Hrec keep sn prs. induction prs as [|p rest IH]; intros st st' Hq H; cbn [foldM] in H.
  - inversion H; subst. exact Hq.
  - destruct (step_fx ueqb nodes keep sn rec st p) as [st1|e] eqn:Es; [|discriminate].
    apply (IH _ _ (step_fx_pred rec Hrec _ _ _ _ _ Hq Es) H).
Qed.

Lemma visit_pred : forall fuel, rec_pred (visit ueqb nodes fuel).
Proof.
  induction fuel as [|fuel IH]; intros n pe st st' Hq H; cbn [visit] in H; [discriminate|].
  destruct (short_name n) as [sn|e]; cbn [bind] in H; [|discriminate].
  destruct (initiate_row_models n sn pe) as [rms|e] eqn:Ei; cbn [bind] in H; [|discriminate].
  destruct (exit_edge_pairs ueqb n (last_row_id n sn)) as [prs|e]; cbn [bind] in H; [|discriminate].
  destruct (foldM _ (rev prs) _) as [st1|e] eqn:Ef; cbn [bind] in H; [|discriminate].
  apply (foldM_step_pred _ IH) in Ef; [|exact Hq].
  inversion H; subst. cbn [st_rows]. apply Forall_app. split; [apply (Q_init _ _ _ _ Ei)|exact Ef].
Qed.
End RowPred.

End Dfs.

Lemma to_rows_tmp_pred (Q : trow -> Prop) :
  (forall n sn pe rms, initiate_row_models n sn pe = Ok rms -> Forall Q rms) ->
  (forall k u cs s e, Q (goto_row k (TNode u cs) s e)) ->
  (forall k sn e, Q (loose_row k sn e)) ->
  (forall r e, Q r -> Q {| r_id := r_id r; r_type := r_type r; r_edges := e :: r_edges r; r_goto := r_goto r; r_pay := r_pay r |}) ->
  forall nodes rows, to_rows_tmp ueqb nodes = Ok rows -> Forall Q rows.
Proof.
  intros Q1 Q2 Q2' Q3 nodes rows. unfold to_rows_tmp. destruct nodes as [|n0 rest].
  - intros H; inversion H; subst. constructor.
  - destruct (visit ueqb (n0 :: rest) _ n0 start_edge state0) as [st|e] eqn:Ev; cbn [bind]; [|discriminate].
    intros H; inversion H; subst.
    apply (visit_pred (n0 :: rest) Q Q1 Q2 Q2' Q3 _ n0 start_edge state0 st (Forall_nil _) Ev).
Qed.

(* go_to targets are rows of nodes (never "start"); only go_to rows have targets *)
Definition goto_targets_ok (r : trow) : Prop := Forall (fun t => t <> TStart) (r_goto r).

Lemma action_rows_goto u sn base acts : forall i pe (rms : list trow),
  action_rows u sn base acts i pe = Ok rms -> Forall (fun r => r_goto r = []) rms.
Proof.
  induction acts as [|a rest IH]; intros i pe rms H; cbn [action_rows] in H.
  - inversion H; subst. constructor.
  - destruct (action_fields a) as [tp|e]; cbn [bind] in H; [|discriminate].
    destruct (action_rows u sn base rest (S i) _) as [more|e] eqn:Em; cbn [bind] in H; [|discriminate].
    inversion H; subst. constructor; [reflexivity|apply (IH _ _ _ Em)].
Qed.

Lemma initiate_goto n sn pe (rms : list trow) :
  initiate_row_models n sn pe = Ok rms -> Forall (fun r => r_goto r = []) rms.
Proof.
  unfold initiate_row_models. intros H.
  destruct (node_kwargs n) as [kw|e]; cbn [bind] in H; [|discriminate].
  destruct (n_actions n) as [|a rest] eqn:Ea.
  - destruct kw as [[tp p]|]; [|discriminate]. inversion H; subst. constructor; [reflexivity|constructor].
  - apply (action_rows_goto _ _ _ _ _ _ _ H).
Qed.

Lemma to_rows_tmp_goto nodes rows : to_rows_tmp ueqb nodes = Ok rows -> Forall goto_targets_ok rows.
Proof.
  apply to_rows_tmp_pred.
  - intros n sn pe rms H. apply initiate_goto in H. eapply Forall_impl; [|exact H].
    intros r Hr. unfold goto_targets_ok. cbn beta in Hr. rewrite Hr. constructor.
  - intros k u cs s e. unfold goto_targets_ok, goto_row. cbn [r_goto].
    constructor; [discriminate|constructor].
  - intros k sn e. unfold goto_targets_ok, loose_row. cbn [r_goto]. constructor.
  - intros r e Hr. exact Hr.
Qed.

(* ---- the temporary rows of a flow *)
Lemma to_rows_tmp_ids nodes rows :
  to_rows_tmp ueqb nodes = Ok rows ->
  NoDup (map r_id rows) /\ ~ In TStart (map r_id rows) /\ Refs rows [].
Proof.
  unfold to_rows_tmp. destruct nodes as [|n0 rest].
  - intros H; inversion H; subst. split; [constructor|]. split; [intros []|constructor].
  - destruct (visit ueqb (n0 :: rest) _ n0 start_edge state0) as [st|e] eqn:Ev; cbn [bind]; [|discriminate].
    intros H; inversion H; subst.
    pose proof (visit_inv (n0 :: rest) (S (List.length (n0 :: rest))) n0 start_edge state0 st) as Hi.
    destruct Hi as [Hnd Hok]; [intros []|intros []|split; constructor|exact Ev|].
    split; [exact Hnd|]. split.
    + intros Hin. rewrite Forall_forall in Hok. apply (Hok _ Hin).
    + apply (visit_refs (n0 :: rest) (S (List.length (n0 :: rest))) n0 start_edge state0 st []); [|intros []| | | |exact Ev].
      * cbn [find_node]. rewrite ueqb_refl. reflexivity.
      * intros c csn _ [].
      * constructor.
      * left. reflexivity.
Qed.

(* ================================================================== Part D: the id map *)
Notation idmapU := (idmap U).

Lemma mset_absent (m : idmapU) t s : ~ In t (map fst m) -> mset ueqb m t s = m ++ [(t, s)].
Proof.
  induction m as [|[t' s'] r IH]; intros H; cbn [mset app]; [reflexivity|].
  cbn [map fst] in H. destruct (tid_eqb ueqb t' t) eqn:E.
  - apply tid_eqb_eq in E. subst. exfalso. apply H. left. reflexivity.
  - f_equal. apply IH. intros Hin. apply H. right. exact Hin.
Qed.

Lemma mget_in (m : idmapU) t s : NoDup (map fst m) -> In (t, s) m -> mget ueqb m t = Ok s.
Proof.
  induction m as [|[t' s'] r IH]; intros Hnd Hin; [destruct Hin|].
  cbn [map fst] in Hnd. inversion Hnd as [|x l Hx Hr]; subst. cbn [mget].
  destruct (tid_eqb ueqb t' t) eqn:E.
  - apply tid_eqb_eq in E. subst t'. destruct Hin as [Hin|Hin]; [inversion Hin; reflexivity|].
    exfalso. apply Hx. apply in_map_iff. exists (t, s). split; [reflexivity|exact Hin].
  - destruct Hin as [Hin|Hin]; [inversion Hin; subst; rewrite (proj2 (tid_eqb_eq t t) eq_refl) in E; discriminate|].
    apply IH; assumption.
Qed.

(* the value of a key (Python: d[key]); [] stands for KeyError and never shows in a result *)
Definition mval (m : idmapU) (t : tidU) : str := match mget ueqb m t with Ok s => s | Err _ => [] end.

Lemma mval_in (m : idmapU) t s : NoDup (map fst m) -> In (t, s) m -> mval m t = s.
Proof. intros Hnd Hin. unfold mval. rewrite (mget_in _ _ _ Hnd Hin). reflexivity. Qed.

Lemma mval_keys (m : idmapU) : NoDup (map fst m) ->
  forall sub, incl sub m -> map (mval m) (map fst sub) = map snd sub.
Proof.
  intros Hnd sub. induction sub as [|[t s] r IH]; intros Hi; cbn [map fst snd]; [reflexivity|].
  f_equal.
  - apply mval_in; [exact Hnd|apply Hi; left; reflexivity].
  - apply IH. intros x Hx. apply Hi. right. exact Hx.
Qed.

Lemma combine_fst {S T} (a : list S) : forall b : list T, List.length a = List.length b -> map fst (combine a b) = a.
Proof.
  induction a as [|x a IH]; intros [|y b] H; cbn in *; try reflexivity; try discriminate.
  f_equal. apply IH. lia.
Qed.
Lemma combine_snd {S T} (a : list S) : forall b : list T, List.length a = List.length b -> map snd (combine a b) = b.
Proof.
  induction a as [|x a IH]; intros [|y b] H; cbn in *; try reflexivity; try discriminate.
  f_equal. apply IH. lia.
Qed.

(* what the loop over the rows makes of the map *)
Lemma build_map_spec nb : forall (rows : list trow) idx (m m' : idmapU),
  NoDup (map r_id rows) ->
  (forall t, In t (map r_id rows) -> ~ In t (map fst m)) ->
  build_map ueqb nb rows idx m = Ok m' ->
  exists news, List.length (map r_id rows) = List.length news
    /\ m' = m ++ combine (map r_id rows) news
    /\ (nb = true -> news = map (fun i => dec_of_nat (S i)) (seq idx (List.length rows)))
    /\ (nb = false -> NoDup (map snd m) -> NoDup (map snd m ++ news)).
Proof.
  induction rows as [|r rest IH]; intros idx m m' Hnd Hdis H; cbn [build_map] in H.
  - inversion H; subst. exists []. cbn. rewrite !app_nil_r. repeat split; auto.
  - cbn [map] in Hnd, Hdis. inversion Hnd as [|x l Hx Hrest]; subst.
    destruct (if nb then Ok (dec_of_nat (S idx))
              else (do base <- tid_short (r_id r); fresh_id base (map snd m))) as [new|e] eqn:En;
      cbn [bind] in H; [|discriminate].
    rewrite mset_absent in H by (apply Hdis; left; reflexivity).
    apply IH in H; [|exact Hrest|].
    2:{ intros t Ht. rewrite map_app. cbn [map fst]. intros Hin. apply in_app_or in Hin.
        destruct Hin as [Hin|[Hin|[]]]; [apply (Hdis t); [right; exact Ht|exact Hin]|subst; exact (Hx Ht)]. }
    destruct H as [news [Hlen [Hm' [Hnum Hrd]]]].
    exists (new :: news). split; [cbn [map List.length]; lia|]. split; [|split].
    + rewrite Hm', <- app_assoc. reflexivity.
    + intros Hnb. subst nb. inversion En; subst. cbn [List.length seq map]. f_equal. apply Hnum. reflexivity.
    + intros Hnb Hv. subst nb.
      destruct (tid_short (r_id r)) as [base|e]; cbn [bind] in En; [|discriminate].
      apply fresh_id_fresh in En.
      assert (Hv1 : NoDup (map snd (m ++ [(r_id r, new)]))).
      { rewrite map_app. cbn [map snd]. apply NoDup_app_intro; [exact Hv|constructor; [intros []|constructor]|].
        intros x0 Hx0 [Hx1|[]]. subst. exact (En Hx0). }
      specialize (Hrd eq_refl Hv1). rewrite map_app, <- app_assoc in Hrd. exact Hrd.
Qed.

(* ---- the result of the remapping is a relabelling *)
Definition relabel {I J} (f : I -> J) (r : row U I) : row U J :=
  {| r_id := f (r_id r); r_type := r_type r;
     r_edges := map (fun e => {| e_from := f (e_from e); e_cond := e_cond e |}) (r_edges r);
     r_goto := map f (r_goto r); r_pay := r_pay r |}.

Lemma mapM_fun {E S T} (f : S -> result E T) (g : S -> T) :
  (forall x y, f x = Ok y -> y = g x) -> forall l l', mapM f l = Ok l' -> l' = map g l.
Proof.
  intros Hf l. induction l as [|x r IH]; intros l' H; cbn [mapM] in H; [inversion H; reflexivity|].
  destruct (f x) as [y|e] eqn:Ex; [|discriminate].
  destruct (mapM f r) as [ys|e]; [|discriminate].
  inversion H; subst. cbn [map]. f_equal; [apply Hf, Ex|apply IH; reflexivity].
Qed.

Lemma mget_mval (m : idmapU) t s : mget ueqb m t = Ok s -> s = mval m t.
Proof. intros H. unfold mval. rewrite H. reflexivity. Qed.

Lemma remap_row_relabel (m : idmapU) r r' : remap_row ueqb m r = Ok r' -> r' = relabel (mval m) r.
Proof.
  unfold remap_row. intros H.
  destruct (mget ueqb m (r_id r)) as [id|e] eqn:Ei; cbn [bind] in H; [|discriminate].
  destruct (mapM (mget ueqb m) (r_goto r)) as [gt|e] eqn:Eg; cbn [bind] in H; [|discriminate].
  destruct (mapM (remap_edge ueqb m) (r_edges r)) as [es|e] eqn:Ee; cbn [bind] in H; [|discriminate].
  inversion H; subst. unfold relabel. f_equal.
  - apply mget_mval, Ei.
  - refine (mapM_fun (remap_edge ueqb m) _ _ _ _ Ee).
    intros x y Hxy. unfold remap_edge in Hxy.
    destruct (mget ueqb m (e_from x)) as [fr|e] eqn:Ef; cbn [bind] in Hxy; [|discriminate].
    inversion Hxy; subst. f_equal. apply mget_mval, Ef.
  - apply (mapM_fun _ _ (mget_mval m) _ _ Eg).
Qed.

Definition start_id : str := lit "start".

(* C17-5.  [to_rows] relabels the temporary rows by a function that maps "start" to "start",
   is injective on the ids in use, and under which every reference names a row. *)
Theorem to_rows_relabelling nb nodes rows :
  to_rows ueqb nb nodes = Ok rows ->
  exists (tmp : list trow) (f : tidU -> str),
    to_rows_tmp ueqb nodes = Ok tmp /\ rows = map (relabel f) tmp
    /\ f TStart = start_id
    /\ NoDup (map f (TStart :: map r_id tmp))
    /\ Refs tmp []
    /\ (nb = true -> map f (map r_id tmp) = map dec_of_nat (seq 1 (List.length tmp))).
Proof.
  unfold to_rows. intros H.
  destruct (to_rows_tmp ueqb nodes) as [tmp|e] eqn:Et; cbn [bind] in H; [|discriminate].
  destruct (build_map ueqb nb tmp 0 idmap0) as [m|e] eqn:Em; cbn [bind] in H; [|discriminate].
  apply to_rows_tmp_ids in Et. destruct Et as [Hnd [Hns Hrefs]].
  apply build_map_spec in Em; [|exact Hnd|].
  2:{ intros t Ht [Hin|[]]. cbn [fst] in Hin. subst t. exact (Hns Ht). }
  destruct Em as [news [Hlen [Hm [Hnum Hrd]]]].
  assert (Hkeys : NoDup (map fst m)).
  { rewrite Hm, map_app, (combine_fst _ _ Hlen). cbn [idmap0 map fst app]. constructor; assumption. }
  assert (Hstart : mval m TStart = start_id).
  { apply mval_in; [exact Hkeys|]. rewrite Hm. left. reflexivity. }
  assert (Hvals : map (mval m) (map r_id tmp) = news).
  { rewrite <- (combine_fst _ _ Hlen) at 1. rewrite (mval_keys m Hkeys).
    - apply combine_snd, Hlen.
    - rewrite Hm. apply incl_appr, incl_refl. }
  exists tmp, (mval m). split; [reflexivity|]. split; [|split; [exact Hstart|split; [|split; [exact Hrefs|]]]].
  - apply (mapM_fun _ _ (remap_row_relabel m) _ _ H).
  - cbn [map]. rewrite Hstart, Hvals. destruct nb.
    + rewrite (Hnum eq_refl). constructor.
      * intros Hin. apply in_map_iff in Hin. destruct Hin as [i [Hi _]]. exact (dec_of_nat_not_start _ Hi).
      * apply NoDup_map_inj; [|apply seq_NoDup]. intros a b _ _ Hab. apply dec_of_nat_inj in Hab. lia.
    + apply (Hrd eq_refl). cbn. constructor; [intros []|constructor].
  - intros Hnb. rewrite Hvals, (Hnum Hnb), <- seq_shift, map_map. reflexivity.
Qed.

(* ---- the statements of the property, on the rows *)
Lemma NoDup_map_eq {S T} (f : S -> T) (l : list S) a b :
  NoDup (map f l) -> In a l -> In b l -> f a = f b -> a = b.
Proof.
  induction l as [|x l IH]; intros Hnd Ha Hb Hf; [destruct Ha|].
  cbn [map] in Hnd. inversion Hnd as [|y l' Hx Hl]; subst.
  destruct Ha as [Ha|Ha], Hb as [Hb|Hb]; subst.
  - reflexivity.
  - exfalso. apply Hx. rewrite Hf. apply in_map, Hb.
  - exfalso. apply Hx. rewrite <- Hf. apply in_map, Ha.
  - apply IH; assumption.
Qed.

(* C17-5'.  the same, with injectivity spelled out: two references are equal after the
   remapping only if they were equal before (a reference still names the row it named) *)
Theorem to_rows_faithful nb nodes rows :
  to_rows ueqb nb nodes = Ok rows ->
  exists (tmp : list trow) (f : tidU -> str),
    to_rows_tmp ueqb nodes = Ok tmp /\ rows = map (relabel f) tmp /\ f TStart = start_id
    /\ NoDup (map r_id tmp)
    /\ (forall a b, In a (TStart :: map r_id tmp) -> In b (TStart :: map r_id tmp) -> f a = f b -> a = b).
Proof.
  intros H. apply to_rows_relabelling in H. destruct H as [tmp [f [Ht [Hr [Hs [Hnd [_ _]]]]]]].
  exists tmp, f. repeat split; try assumption.
  - apply to_rows_tmp_ids in Ht. apply Ht.
  - intros a b Ha Hb. apply (NoDup_map_eq f _ a b Hnd Ha Hb).
Qed.

(* C17-6.  --numbered: the row ids are "1", "2", ..., "n" in row order (all rows, go_to rows
   included), for every flow on which the export succeeds. *)
Theorem numbered_ids_are_1_to_n nodes rows :
  to_rows ueqb true nodes = Ok rows -> map r_id rows = map dec_of_nat (seq 1 (List.length rows)).
Proof.
  intros H. apply to_rows_relabelling in H. destruct H as [tmp [f [_ [Hr [_ [_ [_ Hn]]]]]]].
  subst rows. rewrite map_map, map_length. cbn [relabel r_id]. rewrite <- (Hn eq_refl), map_map. reflexivity.
Qed.

Definition refs_resolve (rows : list (row U str)) : Prop :=
  Forall (fun r => Forall (fun e => e_from e = start_id \/ In (e_from e) (map r_id rows)) (r_edges r)
                   /\ Forall (fun g => In g (map r_id rows)) (r_goto r)) rows.

(* C17-7.  numbered or not: the row ids are pairwise distinct, none is "start", every edge
   origin is "start" or the id of a row and every go_to target is the id of a row. *)
Theorem row_ids_unique nb nodes rows :
  to_rows ueqb nb nodes = Ok rows ->
  NoDup (map r_id rows) /\ ~ In start_id (map r_id rows) /\ refs_resolve rows.
Proof.
  intros H. apply to_rows_relabelling in H. destruct H as [tmp [f [Ht [Hr [Hs [Hnd [Hrefs _]]]]]]].
  pose proof (to_rows_tmp_goto _ _ Ht) as Hg.
  assert (Hids : map r_id rows = map f (map r_id tmp)) by (subst rows; rewrite !map_map; reflexivity).
  cbn [map] in Hnd. rewrite Hs in Hnd. inversion Hnd as [|x l Hx Hl]; subst x l.
  rewrite Hids. split; [exact Hl|]. split; [exact Hx|].
  unfold refs_resolve. rewrite Hids. subst rows. rewrite Forall_map.
  unfold Refs, RefsI in Hrefs. rewrite Forall_forall in Hrefs, Hg. apply Forall_forall. intros r Hr.
  specialize (Hrefs r Hr). specialize (Hg r Hr). unfold row_refs in Hrefs. apply Forall_app in Hrefs.
  destruct Hrefs as [He Hgt]. cbn [relabel r_edges r_goto]. split.
  - rewrite Forall_map. rewrite Forall_map in He. eapply Forall_impl; [|exact He].
    intros e [Ha|[Ha|[]]]; cbn [e_from]; [left; rewrite Ha; exact Hs|right; apply in_map, Ha].
  - rewrite Forall_map. unfold goto_targets_ok in Hg. rewrite Forall_forall in Hg, Hgt.
    apply Forall_forall. intros t Hin. destruct (Hgt t Hin) as [Ha|[Ha|[]]]; [exfalso; exact (Hg t Hin Ha)|apply in_map, Ha].
Qed.

(* ---- the same on the stripped sheet: the row_id column *)
Lemma close_sheet_row_ids (rows : list (row U str)) : forall sheet,
  close_sheet (map (fun r => strip_cells strip_excluded (row_cells r)) rows) = Some sheet ->
  sheet_col (lit "row_id") sheet = map (fun r => Some (VS (r_id r))) rows.
Proof.
  induction rows as [|r rest IH]; intros sheet H; cbn [map close_sheet] in H.
  - inversion H; reflexivity.
  - destruct (close_cells _) as [c|] eqn:Ec; [|discriminate].
    destruct (close_sheet _) as [cs|] eqn:Es; [|discriminate].
    inversion H; subst. cbn [sheet_col map]. f_equal; [|apply IH; reflexivity].
    unfold row_cells, strip_cells in Ec. cbn [app filter fst] in Ec.
    rewrite row_id_not_excluded in Ec. cbn [negb close_cells close_cell snd fst] in Ec. unfold PS in Ec at 1.
    destruct (close_cells _) as [c'|]; [|discriminate]. inversion Ec; subst.
    cbn [assoc_str]. rewrite str_eqb_refl. reflexivity.
Qed.

Lemma export_strip_rows nb nodes sheet :
  export_strip ueqb nb nodes = Ok (Some sheet) ->
  exists rows, to_rows ueqb nb nodes = Ok rows
               /\ sheet_col (lit "row_id") sheet = map (fun r => Some (VS (r_id r))) rows.
Proof.
  unfold export_strip, export. intros H.
  destruct (to_rows ueqb nb nodes) as [rows|e]; cbn [bind] in H; [|discriminate].
  inversion H as [Hc]. exists rows. split; [reflexivity|apply close_sheet_row_ids, Hc].
Qed.

Theorem sheet_numbered_ids nodes sheet :
  export_strip ueqb true nodes = Ok (Some sheet) ->
  sheet_col (lit "row_id") sheet = map (fun i => Some (VS (dec_of_nat i))) (seq 1 (List.length sheet)).
Proof.
  intros H. apply export_strip_rows in H. destruct H as [rows [Hr Hc]].
  assert (Hlen : List.length sheet = List.length rows).
  { apply (f_equal (@List.length _)) in Hc. unfold sheet_col in Hc. rewrite !map_length in Hc. exact Hc. }
  rewrite Hc, Hlen. apply numbered_ids_are_1_to_n in Hr.
  rewrite <- (map_map r_id (fun s => Some (VS s))), Hr, map_map. reflexivity.
Qed.

Theorem sheet_ids_unique nb nodes sheet :
  export_strip ueqb nb nodes = Ok (Some sheet) ->
  NoDup (sheet_col (lit "row_id") sheet) /\ ~ In (Some (VS start_id)) (sheet_col (lit "row_id") sheet)
  /\ ~ In None (sheet_col (lit "row_id") sheet).
Proof.
  intros H. apply export_strip_rows in H. destruct H as [rows [Hr Hc]].
  apply row_ids_unique in Hr. destruct Hr as [Hnd [Hs _]].
  rewrite Hc, <- (map_map r_id (fun s => Some (VS s))). split; [|split].
  - apply NoDup_map_inj; [|exact Hnd]. intros a b _ _ Hab. inversion Hab. reflexivity.
  - intros Hin. apply in_map_iff in Hin. destruct Hin as [x [Hx Hin]]. inversion Hx; subst. exact (Hs Hin).
  - intros Hin. apply in_map_iff in Hin. destruct Hin as [x [Hx _]]. discriminate.
Qed.

(* ================================================================== Part F: errors *)
(* [EFuel] and [EInternal] are never produced: an [Err] of the model is always [ECrash], an
   exception of the Python.  And every crash comes from the DFS: once the temporary rows exist,
   the remapping succeeds. *)
Lemma filter_length_le {T} (p q : T -> bool) (l : list T) :
  (forall y, In y l -> q y = true -> p y = true) -> (List.length (filter q l) <= List.length (filter p l))%nat.
Proof.
  induction l as [|x l IH]; intros H; cbn [filter]; [lia|].
  assert (IH' : (List.length (filter q l) <= List.length (filter p l))%nat) by (apply IH; intros y Hy; apply H; right; exact Hy).
  destruct (q x) eqn:Eq.
  - rewrite (H x (or_introl eq_refl) Eq). cbn [List.length]. lia.
  - destruct (p x); cbn [List.length]; lia.
Qed.

Lemma filter_length_lt {T} (p q : T -> bool) (l : list T) x :
  In x l -> p x = true -> q x = false ->
  (forall y, In y l -> q y = true -> p y = true) -> (List.length (filter q l) < List.length (filter p l))%nat.
Proof.
  induction l as [|z l IH]; intros Hin Hp Hq H; [destruct Hin|]. cbn [filter].
  assert (Hle : (List.length (filter q l) <= List.length (filter p l))%nat)
    by (apply filter_length_le; intros y Hy; apply H; right; exact Hy).
  destruct Hin as [Hin|Hin].
  - subst z. rewrite Hp, Hq. cbn [List.length]. lia.
  - assert (IH' : (List.length (filter q l) < List.length (filter p l))%nat)
      by (apply IH; try assumption; intros y Hy; apply H; right; exact Hy).
    destruct (q z) eqn:Eq.
    + rewrite (H z (or_introl eq_refl) Eq). cbn [List.length]. lia.
    + destruct (p z); cbn [List.length]; lia.
Qed.

Lemma filter_true_length {T} (l : list T) : List.length (filter (fun _ => true) l) = List.length l.
Proof. induction l as [|x l IH]; cbn; [reflexivity|]. rewrite IH. reflexivity. Qed.

Lemma mem_u_in_iff u l : mem_u ueqb u l = true <-> In u l.
Proof.
  split; [apply mem_u_true|]. intros H. destruct (mem_u ueqb u l) eqn:E; [reflexivity|].
  exfalso. exact (mem_u_false _ _ E H).
Qed.

(* ---- the leaves fail with [ECrash] only *)
Lemma action_short_err (a : action U) e : action_short a = Err e -> e = ECrash.
Proof.
  destruct a; cbn [action_short]; intros H; try discriminate; try (inversion H; reflexivity).
  destruct groups as [|[nm u] r]; [inversion H; reflexivity|discriminate].
Qed.

Lemma short_name_err (n : node U) e : short_name n = Err e -> e = ECrash.
Proof.
  unfold short_name. intros H. destruct (n_kind n) as [d|rk r|rs cats]; [| |discriminate].
  - destruct (n_actions n) as [|a l]; [inversion H; reflexivity|apply (action_short_err _ _ H)].
  - destruct rk; try discriminate.
    + destruct (n_actions n) as [|a l]; [inversion H; reflexivity|apply (action_short_err _ _ H)].
    + destruct (n_actions n) as [|a l]; [inversion H; reflexivity|]. destruct a; try discriminate; inversion H; reflexivity.
    + destruct (n_actions n) as [|a l]; [inversion H; reflexivity|]. destruct a; try discriminate; inversion H; reflexivity.
Qed.

Lemma action_fields_err (a : action U) e : action_fields a = Err e -> e = ECrash.
Proof.
  destruct a; cbn [action_fields]; intros H; try discriminate; try (inversion H; reflexivity).
  - destruct (split_attachments attachments) as [[[img aud] vid] rest]. discriminate.
  - destruct groups as [|[nm u] r]; [inversion H; reflexivity|discriminate].
Qed.

Lemma node_kwargs_err (n : node U) e : node_kwargs n = Err e -> e = ECrash.
Proof.
  unfold node_kwargs. destruct (n_kind n) as [d|rk r|rs cats]; try discriminate.
  destruct rk; try discriminate. unfold router_kwargs.
  destruct (sw_wait r); cbn [bind]; [discriminate|].
  destruct (str_eqb (sw_operand r) groups_operand); cbn [bind]; [|discriminate].
  destruct (sw_cases r) as [|k ks]; cbn [bind]; [intros H; inversion H; reflexivity|].
  destruct (case_arg1 k); [|intros H; inversion H; reflexivity].
  destruct (case_arg0 k); cbn [bind]; [discriminate|intros H; inversion H; reflexivity].
Qed.

Lemma action_rows_err u sn base acts : forall i (pe : edge U tidU) e,
  action_rows u sn base acts i pe = Err e -> e = ECrash.
Proof.
  induction acts as [|a rest IH]; intros i pe e H; cbn [action_rows] in H; [discriminate|].
  destruct (action_fields a) as [tp|e'] eqn:Ea; cbn [bind] in H.
  - destruct (action_rows u sn base rest (S i) _) as [more|e''] eqn:Em; cbn [bind] in H; [discriminate|].
    inversion H; subst. apply (IH _ _ _ Em).
  - inversion H; subst. apply (action_fields_err _ _ Ea).
Qed.

Lemma initiate_err (n : node U) sn (pe : edge U tidU) e : initiate_row_models n sn pe = Err e -> e = ECrash.
Proof.
  unfold initiate_row_models. destruct (node_kwargs n) as [kw|e'] eqn:Ek; cbn [bind].
  - destruct (n_actions n) as [|a rest].
    + destruct kw as [[tp p]|]; [discriminate|intros H; inversion H; reflexivity].
    + apply action_rows_err.
  - intros H; inversion H; subst. apply (node_kwargs_err _ _ Ek).
Qed.

Lemma case_cond_err (r : srouter U) k c e : case_cond r k c = Err e -> e = ECrash.
Proof.
  unfold case_cond. destruct (_ || _).
  - destruct (cond_arg r k); [discriminate|intros H; inversion H; reflexivity].
  - destruct (mem_str (k_type k) no_args_tests); cbn [bind]; [discriminate|].
    destruct (cond_arg r k); cbn [bind]; [discriminate|intros H; inversion H; reflexivity].
Qed.

Lemma category_pairs_err (r : srouter U) (last : tidU) cats : forall covered e,
  category_pairs ueqb r last cats covered = Err e -> e = ECrash.
Proof.
  induction cats as [|c rest IH]; intros covered e H; cbn [category_pairs] in H; [discriminate|].
  destruct (find _ (sw_cases r)) as [k|]; [|apply (IH _ _ H)].
  destruct (case_cond r k c) as [cd|e'] eqn:Ec; cbn [bind] in H.
  - destruct (category_pairs ueqb r last rest (c_uuid c :: covered)) as [more|e''] eqn:Em; cbn [bind] in H; [discriminate|].
    inversion H; subst. apply (IH _ _ Em).
  - inversion H; subst. apply (case_cond_err _ _ _ _ Ec).
Qed.

Lemma case_pairs_err (r : srouter U) (last : tidU) cats cases : forall covered e,
  case_pairs ueqb r last cats cases covered = Err e -> e = ECrash.
Proof.
  induction cases as [|k rest IH]; intros covered e H; cbn [case_pairs] in H; [discriminate|].
  destruct (find _ cats) as [c|]; [|apply (IH _ _ H)].
  destruct (case_cond r k c) as [cd|e'] eqn:Ec; cbn [bind] in H.
  - destruct (case_pairs ueqb r last cats rest (c_uuid c :: covered)) as [more|e''] eqn:Em; cbn [bind] in H; [discriminate|].
    inversion H; subst. apply (IH _ _ Em).
  - inversion H; subst. apply (case_cond_err _ _ _ _ Ec).
Qed.

Lemma exit_edge_pairs_err (n : node U) (last : tidU) e : exit_edge_pairs ueqb n last = Err e -> e = ECrash.
Proof.
  unfold exit_edge_pairs. destruct (n_kind n) as [d|rk r|rs cats]; try discriminate.
  unfold switch_pairs. destruct (if pairs_follow_cases then _ else _) as [pc|e'] eqn:Ec; cbn [bind]; [discriminate|].
  intros H; inversion H; subst.
  destruct pairs_follow_cases; [apply (case_pairs_err _ _ _ _ _ _ Ec)|apply (category_pairs_err _ _ _ _ _ Ec)].
Qed.

Lemma prepend_edge_some (t : tidU) e (rows : list trow) :
  In t (map r_id rows) -> prepend_edge ueqb t e rows <> None.
Proof.
  induction rows as [|r rest IH]; intros Hin; [destruct Hin|]. cbn [prepend_edge].
  destruct (tid_eqb ueqb (r_id r) t) eqn:E; [discriminate|].
  destruct Hin as [Hin|Hin]; [rewrite (proj2 (tid_eqb_eq _ _) Hin) in E; discriminate|].
  specialize (IH Hin). destruct (prepend_edge ueqb t e rest); [discriminate|contradiction].
Qed.

Section Totality.
Variable nodes : list (node U).

Lemma find_node_in' u n : find_node ueqb nodes u = Some n -> In n nodes.
Proof.
  induction nodes as [|m rest IH]; cbn [find_node]; [discriminate|].
  destruct (ueqb (n_uuid m) u); intros H; [inversion H; subst; left; reflexivity|right; apply IH, H].
Qed.

(* ---- fuel of the DFS: the uuids of the node list that are not yet visited *)
Definition unv (st : state U) : list U :=
  filter (fun u => negb (mem_u ueqb u (st_vis st))) (map n_uuid nodes).

Lemma unv_mono st st' : incl (st_vis st) (st_vis st') -> (List.length (unv st') <= List.length (unv st))%nat.
Proof.
  intros Hi. unfold unv. apply filter_length_le. intros y _ Hy.
  apply negb_true_iff in Hy. apply negb_true_iff.
  destruct (mem_u ueqb y (st_vis st)) eqn:E; [|reflexivity].
  apply mem_u_true in E. apply Hi in E. apply mem_u_in_iff in E. congruence.
Qed.

(* a done node has its first row in the state (so that an edge can be prepended to it) *)
Definition Done (st : state U) : Prop :=
  forall c csn, find_node ueqb nodes (n_uuid c) = Some c -> In (n_uuid c) (st_done st) ->
                short_name c = Ok csn -> In (TNode (n_uuid c) csn) (map r_id (st_rows st)).

(* the errors of a visit are crashes, given enough fuel *)
Definition rec_err (f : nat) (rec : node U -> edge U tidU -> state U -> res (state U)) : Prop :=
  forall c e s, find_node ueqb nodes (n_uuid c) = Some c -> ~ In (n_uuid c) (st_vis s) ->
    (List.length (unv s) <= f)%nat -> Done s ->
    match rec c e s with Ok s' => Done s' | Err er => er = ECrash end.

Lemma step_err f rec : rec_ext rec -> rec_err f rec ->
  forall st p, (List.length (unv st) <= f)%nat -> Done st ->
    match step ueqb nodes rec st p with Ok s' => Done s' | Err er => er = ECrash end.
Proof.
  intros Hext Hrec st [d e] Hl Hd. unfold step. cbn [fst snd].
  destruct d as [d|]; [|exact Hd].
  destruct (find_node ueqb nodes d) as [child|] eqn:Efn; [|reflexivity].
  pose proof (find_node_uuid _ _ _ Efn) as Hu. rewrite <- Hu in Efn.
  destruct (mem_u ueqb (n_uuid child) (st_done st)) eqn:Ed.
  - destruct (short_name child) as [csn|er] eqn:Es; cbn [bind]; [|apply (short_name_err _ _ Es)].
    pose proof (Hd child csn Efn (mem_u_true _ _ Ed) Es) as Hin.
    pose proof (prepend_edge_some _ e _ Hin) as Hp.
    destruct (prepend_edge ueqb _ e (st_rows st)) as [rows'|] eqn:Ep; [|contradiction].
    intros c csn' Hc Hcd Hcs. cbn [st_done st_rows] in *. rewrite (prepend_edge_ids _ _ _ _ Ep).
    apply (Hd c csn' Hc Hcd Hcs).
  - destruct (mem_u ueqb (n_uuid child) (st_vis st)) eqn:Ev.
    + destruct (short_name child) as [csn|er] eqn:Es; cbn [bind]; [|apply (short_name_err _ _ Es)].
      intros c csn' Hc Hcd Hcs. cbn [st_done st_rows map] in *. right. apply (Hd c csn' Hc Hcd Hcs).
    + apply (Hrec _ _ _ Efn (mem_u_false _ _ Ev) Hl Hd).
Qed.

Lemma step_fx_err f rec : rec_ext rec -> rec_err f rec ->
  forall keep sn st p, (List.length (unv st) <= f)%nat -> Done st ->
    match step_fx ueqb nodes keep sn rec st p with Ok s' => Done s' | Err er => er = ECrash end.
Proof.
  intros Hext Hrec keep sn st [d e] Hl Hd. unfold step_fx. cbn [fst snd].
  destruct d as [d|]; [apply (step_err f rec Hext Hrec st (Some d, e) Hl Hd)|].
  destruct (keep && negb (cond_blank (e_cond e))); [|exact Hd].
  intros c csn' Hc Hcd Hcs. cbn [st_done st_rows map] in *. right. apply (Hd c csn' Hc Hcd Hcs).
Qed.

Lemma foldM_step_err f rec : rec_ext rec -> rec_err f rec ->
  forall keep sn prs st, (List.length (unv st) <= f)%nat -> Done st ->
    match foldM (step_fx ueqb nodes keep sn rec) prs st with Ok s' => Done s' | Err er => er = ECrash end.
Proof.
  intros Hext Hrec keep sn prs. induction prs as [|p rest IH]; intros st Hl Hd; cbn [foldM]; [exact Hd|].
  pose proof (step_fx_err f rec Hext Hrec keep sn st p Hl Hd) as Hs.
  destruct (step_fx ueqb nodes keep sn rec st p) as [st1|er] eqn:Es; [|exact Hs].
  apply IH; [|exact Hs].
  pose proof (step_fx_ext nodes rec Hext _ _ _ _ _ Es) as [v1 _ _ _ _ _]. pose proof (unv_mono _ _ v1). lia.
Qed.

Lemma visit_err : forall fuel, rec_err fuel (visit ueqb nodes fuel).
Proof.
  induction fuel as [|fuel IH]; intros n pe st Hfn Hv Hl Hd.
  - (* the node itself is not visited yet: the measure is positive *)
    exfalso. assert (Hpos : (0 < List.length (unv st))%nat).
    { unfold unv. apply find_node_in' in Hfn.
      assert (Hin : In (n_uuid n) (filter (fun u => negb (mem_u ueqb u (st_vis st))) (map n_uuid nodes))).
      { apply filter_In. split; [apply in_map, Hfn|]. apply negb_true_iff.
        destruct (mem_u ueqb (n_uuid n) (st_vis st)) eqn:E; [apply mem_u_true in E; contradiction|reflexivity]. }
      destruct (filter _ _); [destruct Hin|cbn; lia]. }
    lia.
  - cbn [visit].
    destruct (short_name n) as [sn|e] eqn:Esn; cbn [bind]; [|apply (short_name_err _ _ Esn)].
    destruct (initiate_row_models n sn pe) as [rms|e] eqn:Ei; cbn [bind]; [|apply (initiate_err _ _ _ _ Ei)].
    destruct (exit_edge_pairs ueqb n (last_row_id n sn)) as [prs|e] eqn:Ee; cbn [bind]; [|apply (exit_edge_pairs_err _ _ _ Ee)].
    set (s0 := {| st_vis := n_uuid n :: st_vis st; st_done := st_done st; st_rows := st_rows st; st_k := st_k st |}).
    assert (Hl0 : (List.length (unv s0) <= fuel)%nat).
    { assert (Hlt : (List.length (unv s0) < List.length (unv st))%nat); [|lia].
      unfold unv, s0. cbn [st_vis]. apply (filter_length_lt _ _ _ (n_uuid n)).
      - apply in_map. apply (find_node_in' _ _ Hfn).
      - apply negb_true_iff. destruct (mem_u ueqb (n_uuid n) (st_vis st)) eqn:E; [apply mem_u_true in E; contradiction|reflexivity].
      - apply negb_false_iff. apply mem_u_in_iff. left. reflexivity.
      - intros y _ Hy. apply negb_true_iff in Hy. apply negb_true_iff.
        destruct (mem_u ueqb y (st_vis st)) eqn:E; [|reflexivity].
        apply mem_u_true in E. assert (In y (n_uuid n :: st_vis st)) as Hy' by (right; exact E).
        apply mem_u_in_iff in Hy'. congruence. }
    pose proof (foldM_step_err fuel _ (visit_ext nodes fuel) IH (loose_exit_rows && has_free_cases n) sn (rev prs) s0 Hl0 Hd) as Hf.
    destruct (foldM _ (rev prs) s0) as [st1|e] eqn:Ef; cbn [bind]; [|exact Hf].
    pose proof (foldM_step_ext nodes _ (visit_ext nodes fuel) _ _ _ _ _ Ef) as [v1 d1 nd1 nv1 k1 i1].
    intros c csn Hc Hcd Hcs. cbn [st_done st_rows] in *. rewrite map_app. apply in_or_app.
    destruct Hcd as [Hcd|Hcd].
    + left. assert (c = n) by (rewrite <- Hcd in Hc; rewrite Hfn in Hc; inversion Hc; reflexivity). subst c.
      rewrite Esn in Hcs. inversion Hcs; subst csn. rewrite (initiate_ids _ _ _ _ Ei). apply first_in_node_row_ids.
    + right. apply (Hf c csn Hc Hcd Hcs).
Qed.

End Totality.

(* C17-8.  the temporary rows: never out of fuel, never an internal error *)
Lemma to_rows_tmp_err nodes e : to_rows_tmp ueqb nodes = Err e -> e = ECrash.
Proof.
  unfold to_rows_tmp. destruct nodes as [|n0 rest]; [discriminate|].
  pose proof (visit_err (n0 :: rest) (S (List.length (n0 :: rest))) n0 start_edge state0) as H.
  destruct (visit ueqb (n0 :: rest) _ n0 start_edge state0) as [st|er]; cbn [bind]; [discriminate|].
  intros He; inversion He; subst. apply H.
  - cbn [find_node]. rewrite ueqb_refl. reflexivity.
  - intros [].
  - unfold unv. cbn [state0 st_vis]. etransitivity; [apply filter_length_le with (p := fun _ => true); reflexivity|].
    rewrite filter_true_length, map_length. lia.
  - intros c csn _ [].
Qed.


(* ---- the remapping never fails *)
Lemma forallb_false_exists {T} (p : T -> bool) (l : list T) :
  forallb p l = false -> exists x, In x l /\ p x = false.
Proof.
  induction l as [|x l IH]; cbn [forallb]; [discriminate|].
  destruct (p x) eqn:E; cbn [andb].
  - intros H. destruct (IH H) as [y [Hy Hp]]. exists y. split; [right; exact Hy|exact Hp].
  - intros _. exists x. split; [left; reflexivity|exact E].
Qed.

Lemma mem_str_true k l : mem_str k l = true -> In k l.
Proof.
  unfold mem_str. intros H. apply existsb_exists in H. destruct H as [x [Hin Hx]].
  apply str_eqb_eq in Hx. subst. exact Hin.
Qed.

Definition cand (base : str) (j : nat) : str := base ++ [46%N] ++ dec_of_nat j.

(* pigeonhole: among base.1 .. base.(n+1) one name is not taken by n values *)
Lemma exists_fresh base (values : list str) :
  exists j, (1 <= j < 1 + S (List.length values))%nat /\ ~ In (cand base j) values.
Proof.
  destruct (forallb (fun j => mem_str (cand base j) values) (seq 1 (S (List.length values)))) eqn:E.
  - exfalso. rewrite forallb_forall in E.
    assert (Hincl : incl (map (cand base) (seq 1 (S (List.length values)))) values).
    { intros x Hx. apply in_map_iff in Hx. destruct Hx as [j [Hj Hin]]. subst x. apply mem_str_true, E, Hin. }
    assert (Hnd : NoDup (map (cand base) (seq 1 (S (List.length values))))).
    { apply NoDup_map_inj; [|apply seq_NoDup]. intros a b _ _ Hab. unfold cand in Hab.
      apply app_inv_head in Hab. injection Hab as Hab. apply dec_of_nat_inj, Hab. }
    pose proof (NoDup_incl_length Hnd Hincl) as Hlen. rewrite map_length, seq_length in Hlen. lia.
  - apply forallb_false_exists in E. destruct E as [j [Hj Hp]]. exists j. apply in_seq in Hj.
    split; [lia|apply mem_str_false, Hp].
Qed.

Lemma find_free_total base values : forall fuel counter,
  (exists j, (counter <= j < counter + fuel)%nat /\ ~ In (cand base j) values) ->
  exists s, find_free fuel counter base values = Ok s.
Proof.
  induction fuel as [|fu IH]; intros counter [j [Hj Hn]]; [lia|]. cbn [find_free].
  fold (cand base counter).
  destruct (mem_str (cand base counter) values) eqn:E; [|eexists; reflexivity].
  apply IH. exists j. split; [|exact Hn].
  assert (j <> counter) by (intros Heq; subst; apply Hn, mem_str_true, E). lia.
Qed.

Lemma fresh_id_total base values : exists s, fresh_id base values = Ok s.
Proof.
  unfold fresh_id. destruct (mem_str base values); [|eexists; reflexivity].
  apply find_free_total. apply exists_fresh.
Qed.

Lemma build_map_total nb : forall (rows : list trow) idx (m : idmapU),
  ~ In TStart (map r_id rows) -> exists m', build_map ueqb nb rows idx m = Ok m'.
Proof.
  induction rows as [|r rest IH]; intros idx m Hs; cbn [build_map]; [eexists; reflexivity|].
  cbn [map] in Hs.
  assert (Hnew : exists new, (if nb then Ok (dec_of_nat (S idx))
                              else (do base <- tid_short (r_id r); fresh_id base (map snd m))) = Ok new).
  { destruct nb; [eexists; reflexivity|].
    destruct (r_id r) as [|u sn|k sn] eqn:Er; cbn [tid_short bind]; [exfalso; apply Hs; left; reflexivity| |]; apply fresh_id_total. }
  destruct Hnew as [new Hnew]. rewrite Hnew. cbn [bind]. apply IH. intros Hin. apply Hs. right. exact Hin.
Qed.

Lemma mget_key (m : idmapU) t : In t (map fst m) -> exists s, mget ueqb m t = Ok s.
Proof.
  induction m as [|[t' s'] r IH]; intros Hin; [destruct Hin|]. cbn [mget].
  destruct (tid_eqb ueqb t' t) eqn:E; [eexists; reflexivity|].
  destruct Hin as [Hin|Hin]; [cbn [fst] in Hin; rewrite (proj2 (tid_eqb_eq _ _) Hin) in E; discriminate|apply IH, Hin].
Qed.

Lemma mapM_total {E S T} (f : S -> result E T) (l : list S) :
  (forall x, In x l -> exists y, f x = Ok y) -> exists l', mapM f l = Ok l'.
Proof.
  induction l as [|x r IH]; intros H; cbn [mapM]; [eexists; reflexivity|].
  destruct (H x (or_introl eq_refl)) as [y Hy]. rewrite Hy.
  destruct IH as [ys Hys]; [intros z Hz; apply H; right; exact Hz|]. rewrite Hys. eexists; reflexivity.
Qed.

(* C17-9.  once the DFS has produced the temporary rows, the remapping succeeds: every crash
   of the export is a crash of the DFS *)
Theorem remap_total nb nodes tmp :
  to_rows_tmp ueqb nodes = Ok tmp -> exists rows, to_rows ueqb nb nodes = Ok rows.
Proof.
  intros Ht. unfold to_rows. rewrite Ht. cbn [bind].
  pose proof (to_rows_tmp_ids _ _ Ht) as [Hnd [Hns Hrefs]].
  destruct (build_map_total nb tmp 0 idmap0 Hns) as [m Hm]. rewrite Hm. cbn [bind].
  pose proof (build_map_spec nb tmp 0 idmap0 m Hnd) as Hspec.
  destruct Hspec as [news [Hlen [Hmeq _]]]; [|exact Hm|].
  { intros t Ht' [Hin|[]]. cbn [fst] in Hin. subst t. exact (Hns Ht'). }
  assert (Hkeys : map fst m = TStart :: map r_id tmp).
  { rewrite Hmeq, map_app, (combine_fst _ _ Hlen). reflexivity. }
  assert (Hget : forall t, t = TStart \/ In t (map r_id tmp) -> exists s, mget ueqb m t = Ok s).
  { intros t Ht'. apply mget_key. rewrite Hkeys. destruct Ht' as [Ht'|Ht']; [left; symmetry; exact Ht'|right; exact Ht']. }
  apply mapM_total. intros r Hr. unfold remap_row.
  destruct (Hget (r_id r)) as [id Hid]; [right; apply in_map, Hr|]. rewrite Hid. cbn [bind].
  unfold Refs, RefsI in Hrefs. rewrite Forall_forall in Hrefs. specialize (Hrefs r Hr).
  unfold row_refs in Hrefs. apply Forall_app in Hrefs. destruct Hrefs as [He Hg].
  rewrite Forall_forall in He, Hg.
  destruct (mapM_total (mget ueqb m) (r_goto r)) as [gt Hgt].
  { intros t Ht'. apply Hget. destruct (Hg t Ht') as [H|[H|[]]]; [left; exact H|right; exact H]. }
  rewrite Hgt. cbn [bind].
  destruct (mapM_total (remap_edge ueqb m) (r_edges r)) as [es Hes].
  { intros e He'. unfold remap_edge.
    destruct (Hget (e_from e)) as [fr Hfr].
    { destruct (He (e_from e) (in_map _ _ _ He')) as [H|[H|[]]]; [left; exact H|right; exact H]. }
    rewrite Hfr. cbn [bind]. eexists; reflexivity. }
  rewrite Hes. cbn [bind]. eexists; reflexivity.
Qed.

(* C17-10.  an error of the export is always a crash (an exception of the Python), and it is a
   crash of the DFS *)
Theorem to_rows_err nb nodes e :
  to_rows ueqb nb nodes = Err e -> e = ECrash /\ to_rows_tmp ueqb nodes = Err ECrash.
Proof.
  intros H. destruct (to_rows_tmp ueqb nodes) as [tmp|e'] eqn:Et.
  - destruct (remap_total nb _ _ Et) as [rows Hr]. congruence.
  - pose proof (to_rows_tmp_err _ _ Et) as He. subst e'. unfold to_rows in H. rewrite Et in H. cbn [bind] in H.
    inversion H; subst. split; reflexivity.
Qed.

Theorem export_strip_err nb nodes e : export_strip ueqb nb nodes = Err e -> e = ECrash.
Proof.
  unfold export_strip, export. destruct (to_rows ueqb nb nodes) as [rows|e'] eqn:Et; cbn [bind]; [discriminate|].
  intros H; inversion H; subst. apply (to_rows_err _ _ _ Et).
Qed.

End RowIds.

(* ================================================================== Part E: ids and uuids *)
(* The id skeleton of the rows (row id, type, edge origins, go_to targets) has a uuid-free type;
   it is the same for a flow and for any injective renaming of it -- for EVERY flow, also for
   those on which a uuid reaches some other cell (where [export_equivariant] only says
   [Ok None = Ok None]). *)
From RPFT Require Import Exp.ToRowsFacts.

Definition row_skel {U} (r : row U str) : str * str * list str * list str :=
  (r_id r, r_type r, map e_from (r_edges r), r_goto r).

Section IdsEquivariant.
Variables (U U' : Type) (ueqb : U -> U -> bool) (ueqb' : U' -> U' -> bool).
Hypothesis ueqb_spec : forall a b, ueqb a b = true <-> a = b.
Hypothesis ueqb'_spec : forall a b, ueqb' a b = true <-> a = b.
Variable sg : U -> U'.
Hypothesis sg_inj : forall a b, sg a = sg b -> a = b.

Lemma row_skel_rn r : row_skel (rn_frow U U' sg r) = row_skel r.
Proof.
  unfold row_skel, rn_frow, rn_row, idf. cbn [r_id r_type r_edges r_goto].
  rewrite map_map, map_id. reflexivity.
Qed.

Theorem ids_equivariant nb nodes :
  rmap (map row_skel) (to_rows ueqb' nb (map (rn_node U U' sg) nodes)) = rmap (map row_skel) (to_rows ueqb nb nodes).
Proof.
  rewrite (to_rows_rn U U' ueqb ueqb' ueqb_spec ueqb'_spec sg sg_inj).
  destruct (to_rows ueqb nb nodes) as [rows|e]; cbn [rmap]; [|reflexivity].
  f_equal. rewrite map_map. apply map_ext. intros r. apply row_skel_rn.
Qed.
End IdsEquivariant.

(* ================================================================== witnesses *)
Local Open Scope N_scope.

(* 1: message "hello" -> 2;
   2: wait for response; A -> 1 and B -> 1 (two back edges from one node to one node),
      C -> 3 and Other -> 3 (a join);
   3: message "hello" (same short name as node 1) -> 2 (a second back edge into node 2);
   so the sheet has 3 node rows and 3 go_to rows, two of which have the same readable base. *)
Definition loops_flow : list (node N) :=
  [ demo_msg 1 (lit "hello") (Some 2);
    {| n_uuid := 2; n_actions := []; n_ui := None;
       n_kind := NRouter N KSwitch
         {| sw_operand := lit "@input.text"; sw_result := lit "Result"; sw_wait := Some 0;
            sw_cases := [ {| k_type := lit "has_any_word"; k_group := None; k_args := [lit "a"]; k_cat := 21 |};
                          {| k_type := lit "has_any_word"; k_group := None; k_args := [lit "b"]; k_cat := 22 |};
                          {| k_type := lit "has_any_word"; k_group := None; k_args := [lit "c"]; k_cat := 23 |} ];
            sw_cats := [ {| c_uuid := 21; c_name := lit "A"; c_dest := Some 1 |};
                         {| c_uuid := 22; c_name := lit "B"; c_dest := Some 1 |};
                         {| c_uuid := 23; c_name := lit "C"; c_dest := Some 3 |} ];
            sw_default := {| c_uuid := 24; c_name := lit "Other"; c_dest := Some 3 |};
            sw_noresp := None |} |};
    demo_msg 3 (lit "hello") (Some 2) ].

Lemma loops_flow_readable :
  rmap (map row_skel) (to_rows N.eqb false loops_flow)
  = Ok [ (lit "msg.hello", lit "send_message", [lit "start"], []);
         (lit "switch.Result", lit "wait_for_response", [lit "msg.hello"], []);
         (lit "goto.msg.hello", lit "go_to", [lit "switch.Result"], [lit "msg.hello"]);
         (lit "goto.msg.hello.1", lit "go_to", [lit "switch.Result"], [lit "msg.hello"]);
         (lit "msg.hello.1", lit "send_message", [lit "switch.Result"; lit "switch.Result"], []);
         (lit "goto.switch.Result", lit "go_to", [lit "msg.hello.1"], [lit "switch.Result"]) ].
Proof. vm_compute. reflexivity. Qed.

Lemma loops_flow_numbered :
  rmap (map row_skel) (to_rows N.eqb true loops_flow)
  = Ok [ (lit "1", lit "send_message", [lit "start"], []);
         (lit "2", lit "wait_for_response", [lit "1"], []);
         (lit "3", lit "go_to", [lit "2"], [lit "1"]);
         (lit "4", lit "go_to", [lit "2"], [lit "1"]);
         (lit "5", lit "send_message", [lit "2"; lit "2"], []);
         (lit "6", lit "go_to", [lit "5"], [lit "2"]) ].
Proof. vm_compute. reflexivity. Qed.

Lemma loops_flow_sheet :
  exists sheet, export_strip N.eqb true loops_flow = Ok (Some sheet) /\ List.length sheet = 6%nat.
Proof. eexists. vm_compute. split; reflexivity. Qed.

(* an export that crashes: the only exit of the first node leads to a node that does not exist
   (Python: ValueError in find_node) *)
Definition dangling_flow : list (node N) := [ demo_msg 1 (lit "hello") (Some 9) ].
Lemma dangling_flow_crashes :
  to_rows N.eqb false dangling_flow = Err ECrash /\ to_rows_tmp N.eqb dangling_flow = Err ECrash.
Proof. vm_compute. split; reflexivity. Qed.

Lemma loops_flow_tmp : exists tmp, to_rows_tmp N.eqb loops_flow = Ok tmp /\ List.length tmp = 6%nat.
Proof. eexists. vm_compute. split; reflexivity. Qed.
